import SunriseVerif.Props.C02Refine
import SunriseVerif.Props.C04RefineLoop
import SunriseVerif.Props.C04Grid

/-!
C02 (swap composition) — the swap loop as the sequential composition of guarded bucket steps and crossings.

1. `swapLoop_amounts_sum` (FULL, every fuel, all four modes, upd on/off): trace = events of a list of `BStep`s, prices and
   active liquidity chain (`Chains`), each step is a successful bucket-kernel call (`StepOK`), totals = sums.
   `step_guarded`: `StepOK` + `StepSide` (0 ≤ liq, prices > 0, price not against the trade = `C05Loop.bucket_facts` under
   `DirCond`; a documented C05 boundary for bfq exact-in below price 1.0) ⇒ the amount conjuncts of swapDown/swapUp, e = E'.
2. `custody_fold` (FULL state part): fold of `CLCustody.step` over `custodyOps` = final price / liquidity, balances moved by
   Σ amounts, slack += Σ e_i, frame.  `moveOp_guard`: whole guard of one price move given book + interval conjuncts.
   `swapLoop_custody_fold_partial`: loop level.  MISSING: chaining the book guards (`C04Grid.guardedMoves_of_grid`) and
   `priceInTick` (`C04IntervalW`) along the fold; the crossing guard `P = sp t`.  Deviation from the driver's `swapEvs`:
   a step with unchanged price and zero amounts still emits a (trivially guarded) price-move operation here.
3. `computeSwap_amounts_partial`: `lastTrace`, chain and sums for a successful `computeSwap`.  MISSING: final
   `Ceil`/`TruncateInt` as `keep`, bank transfers of `updatePoolForSwap`, i.e. `swapExactIn/Out_custody_refines`.
-/
set_option linter.unusedVariables false
set_option linter.unusedSimpArgs false
namespace Sunrise.C02Swap
open Sunrise Sunrise.CL Sunrise.TickMath
open Sunrise.C05Loop (bind_ok res_ok_inj swapLoop_succ_eq swapLoop_zero settleK ss2Of ss1Of bucket wrapTickK wrapTickK_ok
  amtInOf amtOutOf netOf onSide)
open Sunrise.C02Kernel (q E')
open Sunrise.CLCustody (PRECQ)

/-! ### 1. the loop's steps -/

/-- one iteration of the swap loop: the price and active liquidity it starts from, the result of the bucket kernel
    (`r.1` = next price, `amtInOf/amtOutOf` = the amounts, `r.2.2.2` = fee charge), the initialised tick it ended on and
    crossed (if any) and the ghost events recorded after its `.step` event (`[.cross ..]`, `[.move t]` or nothing) -/
structure BStep where
  cur : Dec
  liq : Dec
  r : Dec × Dec × Dec × Dec
  crossed : Option TickInfo
  tail : List SwapEv

/-- active liquidity after the iteration -/
def BStep.liqAfter (bfq : Bool) (st : BStep) : Dec :=
  match st.crossed with | none => st.liq | some ti => Dec.add st.liq (netOf bfq ti)

/-- the ghost events of the iteration -/
def BStep.evs (exactIn upd : Bool) (st : BStep) : List SwapEv :=
  (if upd then [SwapEv.fee st.r.2.2.2.raw] else []) ++
    [SwapEv.step st.r.1.raw (amtInOf exactIn st.r).raw (amtOutOf exactIn st.r).raw] ++ st.tail

/-- raw amount paid in by the trader in the iteration, fee included -/
def BStep.inRaw (exactIn : Bool) (st : BStep) : Int := (amtInOf exactIn st.r).raw + st.r.2.2.2.raw
def BStep.outRaw (exactIn : Bool) (st : BStep) : Int := (amtOutOf exactIn st.r).raw
/-- what the iteration takes off `remaining` / adds to `calculated` -/
def BStep.consumed (exactIn : Bool) (st : BStep) : Int := if exactIn then st.inRaw exactIn else st.outRaw exactIn
def BStep.produced (exactIn : Bool) (st : BStep) : Int := if exactIn then st.outRaw exactIn else st.inRaw exactIn

/-- the iteration is a bucket step of the code at its own price and liquidity, followed by a crossing of the tick whose
    price it reached exactly, or by a cursor move, or (price unchanged) by nothing -/
def StepOK (exactIn bfq : Bool) (lim fee : Dec) (tp : TickParams) (st : BStep) : Prop :=
  (∃ tgt rem, 0 < rem.raw ∧ bucket exactIn bfq lim fee st.cur tgt st.liq rem = .ok st.r) ∧
  (match st.crossed with
   | some ti => st.tail = [SwapEv.cross (!bfq) ti.tick] ∧ tickToSqrtPrice ti.tick tp = .ok st.r.1
   | none => (st.tail = [] ∧ st.r.1 = st.cur) ∨ ∃ t, st.tail = [SwapEv.move t] ∧ sqrtPriceToTick st.r.1 tp = .ok t)

/-- prices and active liquidity chain: every step starts where the previous one ended; a crossing keeps the price -/
def Chains (bfq : Bool) : List BStep → Dec → Dec → Dec → Dec → Prop
  | [], p, l, p', l' => p' = p ∧ l' = l
  | st :: rest, p, l, p', l' => st.cur = p ∧ st.liq = l ∧ Chains bfq rest st.r.1 (st.liqAfter bfq) p' l'

def sumBy (f : BStep → Int) (l : List BStep) : Int := (l.map f).sum

theorem sumBy_cons (f : BStep → Int) (a : BStep) (l : List BStep) : sumBy f (a :: l) = f a + sumBy f l := by
  simp [sumBy]

theorem crossTick_trace {s : St} {ss : SwapState} {bfq : Bool} {lim fee : Dec} {ti : TickInfo} {accVal : DecCoins}
    {denomIn : Denom} {upd : Bool} {p : St × SwapState} (h : crossTick s ss bfq lim fee ti accVal denomIn upd = .ok p) :
    p.2.trace = ss.trace ++ [SwapEv.cross (!bfq) ti.tick] ∧ p.2.remaining = ss.remaining := by
  unfold crossTick at h
  cases upd
  · cases bfq <;> cases h <;> exact ⟨rfl, rfl⟩
  · simp -zeta only [if_true] at h
    cases hg : (DecCoins.sub (DecCoins.add accVal [(denomIn, ss.growthPerLiq)]) ti.feeGrowth) with
    | ok g => rw [hg] at h; cases bfq <;> cases h <;> exact ⟨rfl, rfl⟩
    | err c => rw [hg] at h; cases h
    | panic k => rw [hg] at h; cases h

theorem updateFeeGrowth_frame (ss : SwapState) (f : Dec) :
    (updateFeeGrowth ss f).remaining = ss.remaining ∧ (updateFeeGrowth ss f).calculated = ss.calculated ∧
    (updateFeeGrowth ss f).trace = ss.trace ∧ (updateFeeGrowth ss f).feeTotal = Dec.add ss.feeTotal f := by
  unfold updateFeeGrowth
  simp only []
  split <;> exact ⟨rfl, rfl, rfl, rfl⟩

theorem ss2Of_more (exactIn upd : Bool) (ss : SwapState) (r : Dec × Dec × Dec × Dec) :
    (ss2Of exactIn upd ss r).trace = ss.trace ++ ((if upd then [SwapEv.fee r.2.2.2.raw] else []) ++
        [SwapEv.step r.1.raw (amtInOf exactIn r).raw (amtOutOf exactIn r).raw]) ∧
    (ss2Of exactIn upd ss r).remaining.raw = ss.remaining.raw -
        (if exactIn then (amtInOf exactIn r).raw + r.2.2.2.raw else (amtOutOf exactIn r).raw) ∧
    (ss2Of exactIn upd ss r).calculated.raw = ss.calculated.raw +
        (if exactIn then (amtOutOf exactIn r).raw else (amtInOf exactIn r).raw + r.2.2.2.raw) ∧
    (ss2Of exactIn upd ss r).feeTotal.raw = ss.feeTotal.raw + (if upd then r.2.2.2.raw else 0) := by
  obtain ⟨h1, h2, h3, h4⟩ := updateFeeGrowth_frame ss r.2.2.2
  cases exactIn <;> cases upd <;>
    simp [ss2Of, ss1Of, h1, h2, h3, h4, Dec.add, Dec.sub]

/-- the settling part of one iteration: what it appends to the trace and does to the swap state -/
theorem settleK_tr {β : Type} {bfq upd : Bool} {lim fee : Dec} {tp : TickParams} {accVal : DecCoins} {denomIn : Denom}
    {s : St} {start tickPrice next : Dec} {ss2 : SwapState} {ti : TickInfo} {rest : List TickInfo}
    {K : St × SwapState × List TickInfo → Res β} {x : β}
    (h : settleK bfq upd lim fee tp accVal denomIn s start tickPrice next ss2 ti rest K = .ok x) :
    ∃ s3 ss3 iter3 crossed tail, K (s3, ss3, iter3) = .ok x ∧ ss3.trace = ss2.trace ++ tail ∧
      ss3.sqrtP = ss2.sqrtP ∧ ss3.calculated = ss2.calculated ∧ ss3.remaining = ss2.remaining ∧
      ss3.feeTotal = ss2.feeTotal ∧
      ss3.liq = (match crossed with | none => ss2.liq | some tj => Dec.add ss2.liq (netOf bfq tj)) ∧
      (match crossed with
       | some tj => tail = [SwapEv.cross (!bfq) tj.tick] ∧ tickPrice = next ∧ tj = ti
       | none => (tail = [] ∧ next = start) ∨ ∃ t, tail = [SwapEv.move t] ∧ sqrtPriceToTick next tp = .ok t) := by
  unfold settleK at h
  by_cases heq : (tickPrice == next) = true
  · rw [if_pos heq] at h
    have heq' : tickPrice = next := by simpa using heq
    obtain ⟨p, hp, hK⟩ := bind_ok h
    have hc := Sunrise.C05Loop.crossTick_ok hp
    have ht := crossTick_trace hp
    exact ⟨p.1, p.2, rest, some ti, _, hK, ht.1, hc.1, hc.2.2.1, ht.2, hc.2.2.2.1, hc.2.1, rfl, heq', rfl⟩
  · rw [if_neg heq] at h
    by_cases hord : (if bfq = true then tickPrice.raw > next.raw else tickPrice.raw < next.raw)
    · rw [if_pos hord] at h; cases h
    · rw [if_neg hord] at h
      by_cases hmv : (!(start == next)) = true
      · rw [if_pos hmv] at h
        obtain ⟨t, ht, hK⟩ := bind_ok h
        exact ⟨_, _, _, none, [SwapEv.move t], hK, rfl, rfl, rfl, rfl, rfl, rfl, Or.inr ⟨t, rfl, ht⟩⟩
      · rw [if_neg hmv] at h
        have hsn : next = start := by
          have : (start == next) = true := by simpa using hmv
          exact (by simpa using this : start = next).symm
        exact ⟨_, _, _, none, [], h, (List.append_nil _).symm, rfl, rfl, rfl, rfl, rfl, Or.inl ⟨rfl, hsn⟩⟩

/-- one unrolling of the loop, as a `BStep` -/
theorem loop_step_tr {exactIn bfq upd : Bool} {lim fee : Dec} {tp : TickParams} {accVal : DecCoins} {denomIn : Denom}
    {fuel noProg : Nat} {s : St} {ss : SwapState} {iter : List TickInfo} {s' : St} {ss' : SwapState}
    (h : swapLoop exactIn bfq upd lim fee tp accVal denomIn (fuel+1) noProg s ss iter = .ok (s', ss')) :
    (s' = s ∧ ss' = ss) ∨
    ∃ (st : BStep) (s3 : St) (ss3 : SwapState) (iter3 : List TickInfo) (noProg' : Nat),
      st.cur = ss.sqrtP ∧ st.liq = ss.liq ∧ StepOK exactIn bfq lim fee tp st ∧
      ss3.trace = ss.trace ++ st.evs exactIn upd ∧ ss3.sqrtP = st.r.1 ∧ ss3.liq = st.liqAfter bfq ∧
      ss3.remaining.raw = ss.remaining.raw - st.consumed exactIn ∧
      ss3.calculated.raw = ss.calculated.raw + st.produced exactIn ∧
      ss3.feeTotal.raw = ss.feeTotal.raw + (if upd then st.r.2.2.2.raw else 0) ∧
      swapLoop exactIn bfq upd lim fee tp accVal denomIn fuel noProg' s3 ss3 iter3 = .ok (s', ss') := by
  rw [swapLoop_succ_eq] at h
  split at h
  · left
    have e := res_ok_inj h
    exact ⟨(congrArg Prod.fst e).symm, (congrArg Prod.snd e).symm⟩
  · rename_i hcond
    right
    have hc : ss.remaining.isPositive = true ∧ (ss.sqrtP == lim) = false := by simpa using hcond
    have hpos : 0 < ss.remaining.raw := by simpa [Dec.isPositive] using hc.1
    cases iter with
    | nil => cases h
    | cons ti rest =>
      simp only [] at h
      obtain ⟨tickPrice, hT, h⟩ := wrapTickK_ok h
      obtain ⟨r, hB, h⟩ := bind_ok h
      split at h
      · cases h
      · obtain ⟨s3, ss3, iter3, crossed, tail, hK, htr, hP, hcal, hrem, hft, hliq, hshape⟩ := settleK_tr h
        obtain ⟨m1, m2, m3, m4⟩ := ss2Of_more exactIn upd ss r
        have hf := Sunrise.C05Loop.ss2Of_facts exactIn upd ss r
        have hstep : ∃ noProg', swapLoop exactIn bfq upd lim fee tp accVal denomIn fuel noProg' s3 ss3 iter3 = .ok (s', ss') := by
          simp only [] at hK
          by_cases hz : (if exactIn = true then amtInOf exactIn r else amtOutOf exactIn r).isZero = true
          · rw [if_pos hz] at hK
            by_cases hn : noProg ≥ 100
            · rw [if_pos hn] at hK; cases hK
            · rw [if_neg hn] at hK; exact ⟨_, hK⟩
          · rw [if_neg hz] at hK; exact ⟨_, hK⟩
        obtain ⟨noProg', hrec⟩ := hstep
        refine ⟨⟨ss.sqrtP, ss.liq, r, crossed, tail⟩, s3, ss3, iter3, noProg', rfl, rfl, ?_, ?_, ?_, ?_, ?_, ?_, ?_, hrec⟩
        · refine ⟨⟨_, _, hpos, hB⟩, ?_⟩
          cases crossed with
          | none => exact hshape
          | some tj =>
            obtain ⟨e1, e2, e3⟩ := hshape
            subst e3
            exact ⟨e1, by rw [hT, e2]⟩
        · rw [htr, m1]; simp [BStep.evs, List.append_assoc]
        · rw [hP, hf.1]
        · rw [hliq, hf.2.1]; rfl
        · rw [hrem, m2]; cases exactIn <;> rfl
        · rw [hcal, m3]; cases exactIn <;> rfl
        · rw [hft, m4]

/-- **1. `swapLoop_amounts_sum`** — for EVERY fuel, a successful run of the swap loop (any of the four modes, with or
    without accumulator updates) is the sequential composition of bucket steps and crossings `steps`:
    * the ghost trace grows by exactly the events of the steps, in order (`fee` (if `upd`), `step`, then `cross`/`move`);
    * prices and active liquidity chain (`Chains`): each step starts at the price and liquidity at which the previous one
      ended; a crossing keeps the price and adds the crossed tick's ±net;
    * every step is a successful call of the code's bucket kernel at that price and liquidity (`StepOK`);
    * the totals are the sums: `remaining` falls by Σ consumed (exact-in: Σ (amountIn_i + fee_i); exact-out: Σ amountOut_i),
      `calculated` grows by Σ produced (exact-in: Σ amountOut_i; exact-out: Σ (amountIn_i + fee_i)), `feeTotal` by Σ fee_i. -/
theorem swapLoop_amounts_sum {exactIn bfq upd : Bool} {lim fee : Dec} {tp : TickParams} {accVal : DecCoins}
    {denomIn : Denom} :
    ∀ (fuel noProg : Nat) (s : St) (ss : SwapState) (iter : List TickInfo) (s' : St) (ss' : SwapState),
      swapLoop exactIn bfq upd lim fee tp accVal denomIn fuel noProg s ss iter = .ok (s', ss') →
      ∃ steps : List BStep,
        ss'.trace = ss.trace ++ steps.flatMap (BStep.evs exactIn upd) ∧
        Chains bfq steps ss.sqrtP ss.liq ss'.sqrtP ss'.liq ∧
        (∀ st ∈ steps, StepOK exactIn bfq lim fee tp st) ∧
        ss'.remaining.raw = ss.remaining.raw - sumBy (BStep.consumed exactIn) steps ∧
        ss'.calculated.raw = ss.calculated.raw + sumBy (BStep.produced exactIn) steps ∧
        ss'.feeTotal.raw = ss.feeTotal.raw + (if upd then sumBy (fun st => st.r.2.2.2.raw) steps else 0) := by
  intro fuel
  induction fuel with
  | zero => intro noProg s ss iter s' ss' h; rw [swapLoop_zero] at h; cases h
  | succ fuel ih =>
    intro noProg s ss iter s' ss' h
    rcases loop_step_tr h with ⟨e1, e2⟩ | ⟨st, s3, ss3, iter3, noProg', hcur, hliq, hok, htr, hP, hL, hrem, hcal, hft, hrec⟩
    · subst e1; subst e2
      refine ⟨[], by simp, ⟨rfl, rfl⟩, by simp, by simp [sumBy], by simp [sumBy], by simp [sumBy]⟩
    · obtain ⟨steps, htr2, hch, hall, hrem2, hcal2, hft2⟩ := ih noProg' s3 ss3 iter3 s' ss' hrec
      refine ⟨st :: steps, ?_, ?_, ?_, ?_, ?_, ?_⟩
      · rw [htr2, htr, List.flatMap_cons, List.append_assoc]
      · refine ⟨hcur, hliq, ?_⟩
        rw [← hP, ← hL]; exact hch
      · intro x hx
        rcases List.mem_cons.mp hx with e | hx'
        · rw [e]; exact hok
        · exact hall x hx'
      · rw [hrem2, hrem, sumBy_cons]; omega
      · rw [hcal2, hcal, sumBy_cons]; omega
      · rw [hft2, hft]
        cases upd
        · simp
        · simp only [if_true, sumBy_cons]; omega

/-- side conditions of a step under which its amounts are guarded: non-negative active liquidity, positive prices, and the
    price does not move against the trade (`C05Loop.bucket_facts` under `C05Loop.DirCond`) -/
def StepSide (bfq : Bool) (st : BStep) : Prop :=
  0 ≤ st.liq.raw ∧ 0 < st.cur.raw ∧ 0 < st.r.1.raw ∧ onSide bfq st.cur st.r.1

/-- the rounding allowance of a step: `C02Kernel.E'` at its two prices (lower price first) -/
noncomputable def BStep.err (bfq : Bool) (st : BStep) : Rat := if bfq then E' st.r.1 st.cur else E' st.cur st.r.1

/-- the amount conjuncts of `CLCustody.Op.swapDown / swapUp` for the step -/
def StepGuarded (exactIn bfq : Bool) (st : BStep) : Prop :=
  if bfq then
    (st.liq.raw : Rat) / PRECQ * (1 / q st.r.1 - 1 / q st.cur) ≤ q (amtInOf exactIn st.r) + st.err bfq ∧
    q (amtOutOf exactIn st.r) ≤ (st.liq.raw : Rat) / PRECQ * (q st.cur - q st.r.1) + st.err bfq
  else
    (st.liq.raw : Rat) / PRECQ * (q st.r.1 - q st.cur) ≤ q (amtInOf exactIn st.r) + st.err bfq ∧
    q (amtOutOf exactIn st.r) ≤ (st.liq.raw : Rat) / PRECQ * (1 / q st.cur - 1 / q st.r.1) + st.err bfq

theorem step_guarded {exactIn bfq : Bool} {lim fee : Dec} {tp : TickParams} {st : BStep}
    (hok : StepOK exactIn bfq lim fee tp st) (hs : StepSide bfq st) : StepGuarded exactIn bfq st := by
  obtain ⟨⟨tgt, rem, _, hB⟩, _⟩ := hok
  have := Sunrise.C02Refine.swap_step_amounts_guard hB hs.1 hs.2.1 hs.2.2.1 hs.2.2.2
  unfold StepGuarded BStep.err
  cases bfq <;> simpa using this

/-! ### 2. the custody operations of the steps and their fold -/
noncomputable section
open Sunrise.CLCustody (Op)

/-- cursor tick of the price move of the step (as the driver's `CLCustody.swapEvs`): the crossed tick (down) / the tick
    below it (up), the tick recorded by `.move`, or the unchanged cursor -/
def BStep.moveTick (bfq : Bool) (c : Int) (st : BStep) : Int :=
  match st.crossed with
  | some ti => if bfq then ti.tick else ti.tick - 1
  | none => match st.tail with | [SwapEv.move t] => t | _ => c

def BStep.tickAfter (bfq : Bool) (c : Int) (st : BStep) : Int :=
  match st.crossed with
  | some ti => if bfq then ti.tick - 1 else ti.tick
  | none => st.moveTick bfq c

def BStep.moveOp (exactIn bfq : Bool) (c : Int) (st : BStep) : Op :=
  if bfq then Op.swapDown (q st.r.1) (st.moveTick bfq c) (q (amtInOf exactIn st.r)) (q (amtOutOf exactIn st.r)) (st.err bfq)
  else Op.swapUp (q st.r.1) (st.moveTick bfq c) (q (amtInOf exactIn st.r)) (q (amtOutOf exactIn st.r)) (st.err bfq)

def BStep.ops (exactIn bfq : Bool) (c : Int) (st : BStep) : List Op :=
  st.moveOp exactIn bfq c ::
    (match st.crossed with | some ti => [if bfq then Op.crossDown ti.tick else Op.crossUp ti.tick] | none => [])

/-- the custody operations of a run, starting with the cursor on `c` -/
def custodyOps (exactIn bfq : Bool) : Int → List BStep → List Op
  | _, [] => []
  | c, st :: rest => st.ops exactIn bfq c ++ custodyOps exactIn bfq (st.tickAfter bfq c) rest

def sumR (f : BStep → Rat) (l : List BStep) : Rat := (l.map f).sum

theorem sumR_cons (f : BStep → Rat) (a : BStep) (l : List BStep) : sumR f (a :: l) = f a + sumR f l := by
  simp [sumR]

/-- change of the pool's base / quote balance by the step (fee excluded: it goes to the fee account) -/
def BStep.dBase (exactIn bfq : Bool) (st : BStep) : Rat :=
  if bfq then q (amtInOf exactIn st.r) else - q (amtOutOf exactIn st.r)
def BStep.dQuote (exactIn bfq : Bool) (st : BStep) : Rat :=
  if bfq then - q (amtOutOf exactIn st.r) else q (amtInOf exactIn st.r)

/-- custody states that agree except for price, cursor, active liquidity, balances and slack -/
def Frame (a a' : CLCustody.St) : Prop :=
  a'.book.net = a.book.net ∧ a'.book.gross = a.book.gross ∧ a'.book.pos = a.book.pos ∧ a'.sp = a.sp

theorem ops_fold (exactIn bfq : Bool) (st : BStep) (a : CLCustody.St)
    (hact : a.book.active = st.liq.raw)
    (hnet : ∀ ti, st.crossed = some ti → a.book.net ti.tick = ti.net.raw) :
    let a' := (st.ops exactIn bfq a.book.tick).foldl CLCustody.step a
    a'.P = q st.r.1 ∧ a'.book.active = (st.liqAfter bfq).raw ∧ a'.book.tick = st.tickAfter bfq a.book.tick ∧
    a'.slack = a.slack + st.err bfq ∧ a'.base = a.base + st.dBase exactIn bfq ∧
    a'.quote = a.quote + st.dQuote exactIn bfq ∧ Frame a a' := by
  cases hcr : st.crossed with
  | none =>
    cases bfq <;>
      simp [BStep.ops, BStep.moveOp, hcr, CLCustody.step, CLCustody.bookOp, CLBook.step, BStep.liqAfter, BStep.tickAfter,
        BStep.dBase, BStep.dQuote, Frame, hact, sub_eq_add_neg]
  | some ti =>
    have hn := hnet ti hcr
    cases bfq <;>
      simp [BStep.ops, BStep.moveOp, hcr, CLCustody.step, CLCustody.bookOp, CLBook.step, BStep.liqAfter, BStep.tickAfter,
        BStep.dBase, BStep.dQuote, Frame, hact, hn, netOf, Dec.add, Dec.neg, sub_eq_add_neg]

/-- **2 (state part). `custody_fold`** — folding `CLCustody.step` over the custody operations of a chain of steps, from
    any abstract state that carries the start price and active liquidity (and the stored net of the crossed ticks): the
    result carries the final price and active liquidity; the pool's balances moved by Σ per-step amounts (fee excluded),
    `slack` grew by Σ e_i; positions, gross, net and the grid are untouched. -/
theorem custody_fold (exactIn bfq : Bool) : ∀ (steps : List BStep) (a : CLCustody.St) (p l p' l' : Dec),
    Chains bfq steps p l p' l' → a.P = q p → a.book.active = l.raw →
    (∀ st ∈ steps, ∀ ti, st.crossed = some ti → a.book.net ti.tick = ti.net.raw) →
    let a' := (custodyOps exactIn bfq a.book.tick steps).foldl CLCustody.step a
    a'.P = q p' ∧ a'.book.active = l'.raw ∧
    a'.slack = a.slack + sumR (BStep.err bfq) steps ∧
    a'.base = a.base + sumR (BStep.dBase exactIn bfq) steps ∧
    a'.quote = a.quote + sumR (BStep.dQuote exactIn bfq) steps ∧ Frame a a' := by
  intro steps
  induction steps with
  | nil =>
    intro a p l p' l' hch hP hA _
    obtain ⟨e1, e2⟩ := hch
    subst e1; subst e2
    simp [custodyOps, sumR, Frame, hP, hA]
  | cons st rest ih =>
    intro a p l p' l' hch hP hA hnet
    obtain ⟨hc, hl, hch'⟩ := hch
    have hact : a.book.active = st.liq.raw := by rw [hA, hl]
    obtain ⟨h1, h2, h3, h4, h5, h6, hfr⟩ := ops_fold exactIn bfq st a hact (fun ti h => hnet st List.mem_cons_self ti h)
    have hnet' : ∀ x ∈ rest, ∀ ti, x.crossed = some ti →
        ((st.ops exactIn bfq a.book.tick).foldl CLCustody.step a).book.net ti.tick = ti.net.raw := by
      intro x hx ti hti
      rw [hfr.1]; exact hnet x (List.mem_cons_of_mem _ hx) ti hti
    have := ih _ st.r.1 (st.liqAfter bfq) p' l' hch' h1 h2 hnet'
    simp only [custodyOps, List.foldl_append]
    rw [h3] at this
    obtain ⟨g1, g2, g3, g4, g5, gfr⟩ := this
    refine ⟨g1, g2, ?_, ?_, ?_, ?_⟩
    · rw [g3, h4, sumR_cons]; ring
    · rw [g4, h5, sumR_cons]; ring
    · rw [g5, h6, sumR_cons]; ring
    · exact ⟨gfr.1.trans hfr.1, gfr.2.1.trans hfr.2.1, gfr.2.2.1.trans hfr.2.2.1, gfr.2.2.2.trans hfr.2.2.2⟩

/-- the whole guard of the price-move operation of a step, given the bookkeeping conjunct (`C04StoreL.Guarded` /
    `GuardedMoves`, `C04Grid.guardedMoves_of_grid`) and the interval conjunct (`C04IntervalW`) -/
theorem moveOp_guard {exactIn bfq : Bool} {lim fee : Dec} {tp : TickParams} {st : BStep} (a : CLCustody.St)
    (hok : StepOK exactIn bfq lim fee tp st) (hs : StepSide bfq st)
    (hP : a.P = q st.cur) (hA : a.book.active = st.liq.raw)
    (hbook : (CLBook.Op.moveWithin (st.moveTick bfq a.book.tick)).guard a.book)
    (hdir : if bfq then st.moveTick bfq a.book.tick ≤ a.book.tick else a.book.tick ≤ st.moveTick bfq a.book.tick)
    (hin : CLCustody.priceInTick a.sp (q st.r.1) (st.moveTick bfq a.book.tick)) :
    (st.moveOp exactIn bfq a.book.tick).guard a := by
  obtain ⟨⟨tgt, rem, _, hB⟩, _⟩ := hok
  obtain ⟨h1, h2, h3, h4⟩ := hs
  cases bfq
  · simp only [onSide, Bool.false_eq_true, if_false] at h4 hdir
    simpa [BStep.moveOp, BStep.err] using
      Sunrise.C02Refine.swapUp_guard_of_bucket a _ hB hP hA h1 h2 h4 hbook hdir hin
  · simp only [onSide, if_true] at h4 hdir
    simpa [BStep.moveOp, BStep.err] using
      Sunrise.C02Refine.swapDown_guard_of_bucket a _ hB hP hA h1 h3 h4 hbook hdir hin

/-- **2. `swapLoop_custody_fold_partial`** — loop level: the steps of `swapLoop_amounts_sum`, and for every custody state
    `a` carrying the loop's start price and active liquidity (and the stored net of the ticks it crosses) the fold of
    `CLCustody.step` over the derived operations carries the loop's final price and liquidity, balances moved by the
    per-step amounts, `slack` grown by Σ e_i.  PARTIAL: the guards are proved per operation (`moveOp_guard`: amounts from
    `StepSide`, bookkeeping and interval conjuncts as hypotheses), not yet chained along the fold from
    `C04Grid.guardedMoves_of_grid` / `C04IntervalW`; the crossing guard `P = sp t` needs `OnGrid`. -/
theorem swapLoop_custody_fold_partial {exactIn bfq upd : Bool} {lim fee : Dec} {tp : TickParams} {accVal : DecCoins}
    {denomIn : Denom} {fuel noProg : Nat} {s : St} {ss : SwapState} {iter : List TickInfo} {s' : St} {ss' : SwapState}
    (h : swapLoop exactIn bfq upd lim fee tp accVal denomIn fuel noProg s ss iter = .ok (s', ss')) :
    ∃ steps : List BStep,
      ss'.trace = ss.trace ++ steps.flatMap (BStep.evs exactIn upd) ∧
      (∀ st ∈ steps, StepOK exactIn bfq lim fee tp st ∧ (StepSide bfq st → StepGuarded exactIn bfq st)) ∧
      ∀ a : CLCustody.St, a.P = q ss.sqrtP → a.book.active = ss.liq.raw →
        (∀ st ∈ steps, ∀ ti, st.crossed = some ti → a.book.net ti.tick = ti.net.raw) →
        let a' := (custodyOps exactIn bfq a.book.tick steps).foldl CLCustody.step a
        a'.P = q ss'.sqrtP ∧ a'.book.active = ss'.liq.raw ∧
        a'.slack = a.slack + sumR (BStep.err bfq) steps ∧
        a'.base = a.base + sumR (BStep.dBase exactIn bfq) steps ∧
        a'.quote = a.quote + sumR (BStep.dQuote exactIn bfq) steps ∧ Frame a a' := by
  obtain ⟨steps, htr, hch, hall, _, _, _⟩ := swapLoop_amounts_sum fuel noProg s ss iter s' ss' h
  refine ⟨steps, htr, fun st hst => ⟨hall st hst, step_guarded (hall st hst)⟩, ?_⟩
  intro a hP hA hnet
  exact custody_fold exactIn bfq steps a _ _ _ _ hch hP hA hnet

end

/-! ### 3. `computeSwap` level (message level: PARTIAL) -/

/-- **3. `computeSwap_amounts_partial`** — a successful `computeSwap` (with accumulator updates, as called by
    `swapExactIn/Out`): its `lastTrace` is exactly the events of a chain of guarded steps from the pool's stored price
    and liquidity to the returned ones, and before the final rounding the totals are the sums:
    `amount·10^18 − remaining = Σ consumed`, `calculated = Σ produced`, `fees = Σ fee_i`.
    MISSING for `swapExactIn_custody_refines`: the final `Ceil`/`TruncateInt` of `computeSwap` as a `keep` operation and
    the bank transfers of `updatePoolForSwap` (`C03Pool.swapExactIn_moves_exactly`). -/
theorem computeSwap_amounts_partial {exactIn : Bool} {s s2 : St} {pool : Nat} {denomIn denomOut : Denom} {amount : Int}
    {fee mLimit : Dec} {o : SwapOut} (h : computeSwap exactIn s pool denomIn denomOut amount fee mLimit true = .ok (s2, o)) :
    ∃ (p : Pool) (lim : Dec) (ss : SwapState) (steps : List BStep), getPool s pool = some p ∧
      s2.lastTrace = steps.flatMap (BStep.evs exactIn true) ∧
      Chains (decide (denomIn = p.base)) steps p.sqrtP p.liq ss.sqrtP ss.liq ∧
      (∀ st ∈ steps, StepOK exactIn (decide (denomIn = p.base)) lim fee p.tp st) ∧
      amount * PREC - ss.remaining.raw = sumBy (BStep.consumed exactIn) steps ∧
      ss.calculated.raw = sumBy (BStep.produced exactIn) steps ∧
      ss.feeTotal.raw = sumBy (fun st => st.r.2.2.2.raw) steps := by
  obtain ⟨p, acc, lim, s1, ss, hp, _, _, hloop, hlast⟩ := Sunrise.C04Grid.computeSwap_inv_grid h
  obtain ⟨steps, htr, hch, hall, hrem, hcal, hft⟩ := swapLoop_amounts_sum _ _ _ _ _ _ _ hloop
  refine ⟨p, lim, ss, steps, hp, ?_, hch, hall, ?_, ?_, ?_⟩
  · rw [hlast, htr]; simp [Sunrise.C05Loop.ss0Of]
  · rw [hrem]; simp [Sunrise.C05Loop.ss0Of, Dec.ofInt]
  · rw [hcal]; simp [Sunrise.C05Loop.ss0Of, Dec.zero]
  · rw [hft]; simp [Sunrise.C05Loop.ss0Of, Dec.zero]

/-! ### non-vacuity: the executed swaps of `C04Store` (`h3s`: 1000 quote in, `h3u`: 5,000,000 quote in crossing tick 1,
    `h3d`: 1000 base in crossing tick 0) -/
def okR {α : Type} (r : Res α) : Bool := match r with | .ok _ => true | _ => false
theorem ok_of_okR {α : Type} {r : Res α} (h : okR r = true) : ∃ x, r = .ok x := by
  cases r with
  | ok x => exact ⟨x, rfl⟩
  | err c => cases h
  | panic k => cases h

open Sunrise.C04Store (h3) in
theorem h3_swaps_ok :
    okR (computeSwap true h3 0 "quote" "base" 1000 ⟨3000000000000000⟩ (multipliedPriceLimit false) true) = true ∧
    okR (computeSwap true h3 0 "quote" "base" 5000000 ⟨3000000000000000⟩ (multipliedPriceLimit false) true) = true ∧
    okR (computeSwap true h3 0 "base" "quote" 1000 ⟨3000000000000000⟩ (multipliedPriceLimit true) true) = true := by
  decide +kernel

open Sunrise.C04Store (h3) in
example : ∃ (s2 : St) (o : SwapOut) (p : Pool) (lim : Dec) (ss : SwapState) (steps : List BStep),
    computeSwap true h3 0 "quote" "base" 5000000 ⟨3000000000000000⟩ (multipliedPriceLimit false) true = .ok (s2, o) ∧
    getPool h3 0 = some p ∧ s2.lastTrace = steps.flatMap (BStep.evs true true) ∧
    Chains (decide ("quote" = p.base)) steps p.sqrtP p.liq ss.sqrtP ss.liq ∧
    5000000 * PREC - ss.remaining.raw = sumBy (BStep.consumed true) steps := by
  obtain ⟨⟨s2, o⟩, h⟩ := ok_of_okR h3_swaps_ok.2.1
  obtain ⟨p, lim, ss, steps, hp, htr, hch, _, hrem, _, _⟩ := computeSwap_amounts_partial h
  exact ⟨s2, o, p, lim, ss, steps, h, hp, htr, hch, hrem⟩


end Sunrise.C02Swap

#print axioms Sunrise.C02Swap.swapLoop_amounts_sum
#print axioms Sunrise.C02Swap.step_guarded
#print axioms Sunrise.C02Swap.custody_fold
#print axioms Sunrise.C02Swap.moveOp_guard
#print axioms Sunrise.C02Swap.swapLoop_custody_fold_partial
#print axioms Sunrise.C02Swap.computeSwap_amounts_partial
#print axioms Sunrise.C02Swap.h3_swaps_ok
