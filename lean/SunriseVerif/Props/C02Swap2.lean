import SunriseVerif.Props.C02Swap
import SunriseVerif.Props.C02Custody
import SunriseVerif.Props.C03Pool

/-!
C02 (swap composition, part 2) — the custody GUARDS chained along the fold of `C02Swap.custodyOps`, and the end of the swap.

1. `step_ops` / `custody_fold_guards` / `custody_fold_inv` (FULL, unbounded, all four modes): for a chain of successful
   bucket steps (`Chains`, `StepOK`) and a custody state `a` carrying the start price and active liquidity, under
   * `C04StoreL.Guarded (bookOps trace) a.book` (the book guards of the WHOLE recorded trace: `C04StoreL.guarded_of_moves`
     / `C04Grid.guardedMoves_of_grid`),
   * `StepSide` for every step (C05: `C05Loop.bucket_facts` under `DirCond`),
   * `OnGrid a.sp tp t` and `a.book.net t = ti.net.raw` at the crossed ticks,
   * `FoldHyp` = per step, threaded along the cursor: `priceInTick a.sp (q end price) (tick of the price move)`
     (`C04IntervalW`) and, for a step WITHOUT crossing, `StepDir` (the cursor does not move against the trade),
   every operation of `custodyOps … steps` satisfies `CLCustody.Op.guard` in the state reached so far (`GuardedC`), the
   bookkeeping part of the fold equals the fold of the trace's book operations, and `CLCustody.Inv a → Inv (fold)`.
   C02Swap's observation is handled in `step_ops`: a crossing of tick t is the price move ONTO t (`moveWithin t` going
   down, `moveWithin (t−1)` going up; its book guard and direction are DERIVED from the guard of the crossing) followed
   by `crossDown/crossUp t`, whose book guard is then vacuous and whose price guard `P = sp t` is `OnGrid` + `StepOK`.
   `computeSwap_custody_inv`: the same for the steps of a successful `computeSwap`.
2. message level, PARTIAL: `swapExactIn_custody_partial` (bank effect `SwapMoved` with `fee = ⌈Σ fee_i⌉`; pool pays
   `out ≤ Σ amountOut_i`; pool receives `amount − fee ≥ Σ amountIn_i`, which needs `step_in_whole`: every exact-in
   amountIn_i is a whole number of coins) and `swap_end_inv` / `keep_inv`: on the abstraction the end of the swap is a
   guarded `keep` after the fold, so `Inv (fold) → Inv (end state)`.

NOT proved:
* `swapExactIn_custody_refines : Inv (absC s) → Inv (absC s')` is not assembled: missing is the identification of
  `absC s'` with the `a'` of `swap_end_inv` (book of `s'` = fold of `bookOps` over `absBook s`:
  `C04StoreL.swapLoop_book_master`; positions / gross / net frame of the swap; balances of `absC s'` from `SwapMoved`), and the discharge of the hypotheses of (1) from the store-level theorems:
  `hnet` (the crossed `TickInfo` is the stored one: `tickIter`), `FoldHyp` (`C04IntervalW`), `StepSide` (C05),
  `Guarded` (`C04Grid`), `0 ≤ o.fees` (`C05Store.computeSwap_calculated_mono_store`).
* `StepDir` for a step without crossing is a HYPOTHESIS: it does not follow from the book guard (a disjunction) and the
  interval facts in the degenerate case `P' = P = sp (c+1)`.
* exact-out message level (`swapExactOut`).
-/
set_option linter.unusedVariables false
set_option linter.unusedSimpArgs false
namespace Sunrise.C02Swap2
open Sunrise Sunrise.CL Sunrise.TickMath
open Sunrise.C05Loop (amtInOf amtOutOf netOf onSide)
open Sunrise.C02Kernel (q E')
open Sunrise.CLCustody (PRECQ Op priceInTick)
open Sunrise.C02Swap
open Sunrise.C04RefineLoop (bookOps evBookOp)
open Sunrise.C04StoreL (Guarded)
open Sunrise.C02Refine (OnGrid)

/-- every custody operation of the list satisfies `CLCustody.Op.guard` in the state it is applied to -/
def GuardedC : List Op → CLCustody.St → Prop
  | [], _ => True
  | op :: r, a => op.guard a ∧ GuardedC r (CLCustody.step a op)

theorem guardedC_append : ∀ (x y : List Op) (a : CLCustody.St),
    GuardedC (x ++ y) a ↔ GuardedC x a ∧ GuardedC y (x.foldl CLCustody.step a) := by
  intro x
  induction x with
  | nil => intro y a; simp [GuardedC]
  | cons op r ih =>
    intro y a
    simp only [List.cons_append, GuardedC, List.foldl_cons, ih, and_assoc]

theorem guarded_append : ∀ (x y : List CLBook.Op) (b : CLBook.St),
    Guarded (x ++ y) b ↔ Guarded x b ∧ Guarded y (x.foldl CLBook.step b) := by
  intro x
  induction x with
  | nil => intro y b; simp [Guarded]
  | cons op r ih =>
    intro y b
    simp only [List.cons_append, Guarded, List.foldl_cons, ih, and_assoc]

/-- `C02Custody.inv_step` along a guarded list of operations -/
theorem inv_fold : ∀ (ops : List Op) (a : CLCustody.St), CLCustody.Inv a → GuardedC ops a →
    CLCustody.Inv (ops.foldl CLCustody.step a) := by
  intro ops
  induction ops with
  | nil => intro a h _; exact h
  | cons op r ih =>
    intro a h hg
    rw [List.foldl_cons]
    exact ih _ (Sunrise.C02Custody.inv_step h hg.1) hg.2

theorem bookOps_evs (exactIn upd : Bool) (st : BStep) : bookOps (st.evs exactIn upd) = bookOps st.tail := by
  cases upd <;> simp [BStep.evs, bookOps, evBookOp, List.filterMap_cons]

/-- direction of the cursor move of a step that crosses no tick (for a crossing it is DERIVED from the book guard) -/
def StepDir (bfq : Bool) (c : Int) (st : BStep) : Prop :=
  st.crossed = none → if bfq then st.moveTick bfq c ≤ c else c ≤ st.moveTick bfq c

/-- **one step.** the custody operations of a step (price move, then the crossing if any) are all guarded, and their
    bookkeeping effect is that of the trace's book operations (the crossing alone): a crossing is a price move ONTO the
    crossed tick followed by the crossing. -/
theorem step_ops {exactIn bfq upd : Bool} {lim fee : Dec} {tp : TickParams} {st : BStep} (a : CLCustody.St)
    (hok : StepOK exactIn bfq lim fee tp st) (hs : StepSide bfq st)
    (hP : a.P = q st.cur) (hA : a.book.active = st.liq.raw)
    (hgrid : ∀ ti, st.crossed = some ti → OnGrid a.sp tp ti.tick)
    (hbook : Guarded (bookOps (st.evs exactIn upd)) a.book)
    (hin : priceInTick a.sp (q st.r.1) (st.moveTick bfq a.book.tick))
    (hdir : StepDir bfq a.book.tick st) :
    GuardedC (st.ops exactIn bfq a.book.tick) a ∧
    ((st.ops exactIn bfq a.book.tick).foldl CLCustody.step a).book =
      (bookOps (st.evs exactIn upd)).foldl CLBook.step a.book := by
  rw [bookOps_evs] at hbook ⊢
  have hok' := hok
  obtain ⟨_, hshape⟩ := hok
  cases hcr : st.crossed with
  | some ti =>
    rw [hcr] at hshape
    obtain ⟨htail, hprice⟩ := hshape
    have hog : a.sp ti.tick = q st.r.1 := hgrid ti hcr _ hprice
    rw [htail] at hbook ⊢
    cases bfq
    · -- up: cross (true) = crossUp
      have hb : (CLBook.Op.crossUp ti.tick).guard a.book := hbook.1
      obtain ⟨hb1, hb2⟩ := hb
      have hmt : st.moveTick false a.book.tick = ti.tick - 1 := by simp [BStep.moveTick, hcr]
      have hmg : (st.moveOp exactIn false a.book.tick).guard a := by
        refine moveOp_guard a hok' hs hP hA ?_ ?_ hin
        · rw [hmt]; left; exact ⟨by omega, fun u h1 h2 => hb2 u h1 (by omega)⟩
        · simp only [Bool.false_eq_true, if_false]; rw [hmt]; omega
      refine ⟨?_, ?_⟩
      · simp only [BStep.ops, hcr, GuardedC, and_true]
        refine ⟨hmg, ?_, ?_⟩
        · simp [BStep.moveOp, CLCustody.bookOp, CLCustody.step, CLBook.step, CLBook.Op.guard, hmt]
          intro u h1 h2; omega
        · simp [BStep.moveOp, CLCustody.step, hog]
      · simp [BStep.ops, hcr, BStep.moveOp, CLCustody.bookOp, CLCustody.step, CLBook.step, bookOps, evBookOp]
    · have hb : (CLBook.Op.crossDown ti.tick).guard a.book := hbook.1
      obtain ⟨hb1, hb2⟩ := hb
      have hmt : st.moveTick true a.book.tick = ti.tick := by simp [BStep.moveTick, hcr]
      have hmg : (st.moveOp exactIn true a.book.tick).guard a := by
        refine moveOp_guard a hok' hs hP hA ?_ ?_ hin
        · rw [hmt]; right; exact ⟨hb1, hb2⟩
        · simp only [if_true]; rw [hmt]; exact hb1
      refine ⟨?_, ?_⟩
      · simp only [BStep.ops, hcr, GuardedC, and_true]
        refine ⟨hmg, ?_, ?_⟩
        · simp [BStep.moveOp, CLCustody.bookOp, CLCustody.step, CLBook.step, CLBook.Op.guard, hmt]
          intro u h1 h2; omega
        · simp [BStep.moveOp, CLCustody.step, hog]
      · simp [BStep.ops, hcr, BStep.moveOp, CLCustody.bookOp, CLCustody.step, CLBook.step, bookOps, evBookOp]
  | none =>
    rw [hcr] at hshape
    have hd := hdir hcr
    rcases hshape with ⟨htail, _⟩ | ⟨t, htail, _⟩
    · have hmt : st.moveTick bfq a.book.tick = a.book.tick := by simp [BStep.moveTick, hcr, htail]
      have hmg : (st.moveOp exactIn bfq a.book.tick).guard a := by
        refine moveOp_guard a hok' hs hP hA ?_ hd hin
        rw [hmt]; left; exact ⟨le_refl _, fun u h1 h2 => by omega⟩
      refine ⟨?_, ?_⟩
      · simp only [BStep.ops, hcr, GuardedC, and_true]; exact hmg
      · rw [htail]
        cases bfq <;>
          simp [BStep.ops, hcr, BStep.moveOp, CLCustody.bookOp, CLCustody.step, CLBook.step, bookOps, hmt]
    · have hmt : st.moveTick bfq a.book.tick = t := by simp [BStep.moveTick, hcr, htail]
      rw [htail] at hbook
      have hb : (CLBook.Op.moveWithin t).guard a.book := hbook.1
      have hmg : (st.moveOp exactIn bfq a.book.tick).guard a := by
        refine moveOp_guard a hok' hs hP hA ?_ hd hin
        rw [hmt]; exact hb
      refine ⟨?_, ?_⟩
      · simp only [BStep.ops, hcr, GuardedC, and_true]; exact hmg
      · rw [htail]
        cases bfq <;>
          simp [BStep.ops, hcr, BStep.moveOp, CLCustody.bookOp, CLCustody.step, CLBook.step, bookOps, evBookOp, hmt]

/-- the per-step interval and direction facts, threaded along the cursor: the end price of each step lies in the closed
    price interval of the tick its price move puts the cursor on (`C04IntervalW`), and a step without crossing does not
    move the cursor against the trade -/
def FoldHyp (bfq : Bool) (sp : Int → Rat) : Int → List BStep → Prop
  | _, [] => True
  | c, st :: rest => priceInTick sp (q st.r.1) (st.moveTick bfq c) ∧ StepDir bfq c st ∧
      FoldHyp bfq sp (st.tickAfter bfq c) rest

/-- **1. `custody_fold_guards`** — every operation of `custodyOps … steps` satisfies `CLCustody.Op.guard` in the state
    reached so far, and the bookkeeping part of the fold is the fold of the trace's book operations. -/
theorem custody_fold_guards (exactIn bfq upd : Bool) (lim fee : Dec) (tp : TickParams) :
    ∀ (steps : List BStep) (a : CLCustody.St) (p l p' l' : Dec),
    Chains bfq steps p l p' l' → a.P = q p → a.book.active = l.raw →
    (∀ st ∈ steps, StepOK exactIn bfq lim fee tp st) → (∀ st ∈ steps, StepSide bfq st) →
    (∀ st ∈ steps, ∀ ti, st.crossed = some ti → a.book.net ti.tick = ti.net.raw) →
    (∀ st ∈ steps, ∀ ti, st.crossed = some ti → OnGrid a.sp tp ti.tick) →
    Guarded (bookOps (steps.flatMap (BStep.evs exactIn upd))) a.book →
    FoldHyp bfq a.sp a.book.tick steps →
    GuardedC (custodyOps exactIn bfq a.book.tick steps) a ∧
    ((custodyOps exactIn bfq a.book.tick steps).foldl CLCustody.step a).book =
      (bookOps (steps.flatMap (BStep.evs exactIn upd))).foldl CLBook.step a.book := by
  intro steps
  induction steps with
  | nil => intro a p l p' l' _ _ _ _ _ _ _ _ _; exact ⟨trivial, rfl⟩
  | cons st rest ih =>
    intro a p l p' l' hch hP hA hok hside hnet hgrid hbook hyp
    obtain ⟨hc, hl, hch'⟩ := hch
    obtain ⟨hin, hdir, hyp'⟩ := hyp
    rw [List.flatMap_cons, Sunrise.C04RefineLoop.bookOps_append, guarded_append] at hbook
    have hact : a.book.active = st.liq.raw := by rw [hA, hl]
    have hPc : a.P = q st.cur := by rw [hP, hc]
    obtain ⟨hg1, hbk1⟩ := step_ops (upd := upd) a (hok st List.mem_cons_self) (hside st List.mem_cons_self) hPc hact
      (hgrid st List.mem_cons_self) hbook.1 hin hdir
    obtain ⟨h1, h2, h3, _, _, _, hfr⟩ := ops_fold exactIn bfq st a hact (fun ti h => hnet st List.mem_cons_self ti h)
    have hnet' : ∀ x ∈ rest, ∀ ti, x.crossed = some ti →
        ((st.ops exactIn bfq a.book.tick).foldl CLCustody.step a).book.net ti.tick = ti.net.raw := by
      intro x hx ti hti
      rw [hfr.1]; exact hnet x (List.mem_cons_of_mem _ hx) ti hti
    have hgrid' : ∀ x ∈ rest, ∀ ti, x.crossed = some ti →
        OnGrid ((st.ops exactIn bfq a.book.tick).foldl CLCustody.step a).sp tp ti.tick := by
      intro x hx ti hti
      rw [hfr.2.2.2]; exact hgrid x (List.mem_cons_of_mem _ hx) ti hti
    have hb2 := hbook.2
    rw [← hbk1] at hb2
    have hyp2 : FoldHyp bfq ((st.ops exactIn bfq a.book.tick).foldl CLCustody.step a).sp
        ((st.ops exactIn bfq a.book.tick).foldl CLCustody.step a).book.tick rest := by
      rw [hfr.2.2.2, h3]; exact hyp'
    have := ih _ st.r.1 (st.liqAfter bfq) p' l' hch' h1 h2 (fun x hx => hok x (List.mem_cons_of_mem _ hx))
      (fun x hx => hside x (List.mem_cons_of_mem _ hx)) hnet' hgrid' hb2 hyp2
    rw [h3] at this
    obtain ⟨g1, g2⟩ := this
    refine ⟨?_, ?_⟩
    · simp only [custodyOps]
      rw [guardedC_append]; exact ⟨hg1, g1⟩
    · simp only [custodyOps, List.foldl_append]
      rw [g2, hbk1, List.flatMap_cons, Sunrise.C04RefineLoop.bookOps_append, List.foldl_append]

/-- **1'. `custody_fold_inv`** — the custody invariant (the C02 cover statement) is preserved by the custody operations
    of a chain of successful bucket steps, and the result is the state of `C02Swap.custody_fold`. -/
theorem custody_fold_inv (exactIn bfq upd : Bool) (lim fee : Dec) (tp : TickParams)
    (steps : List BStep) (a : CLCustody.St) (p l p' l' : Dec)
    (hch : Chains bfq steps p l p' l') (hP : a.P = q p) (hA : a.book.active = l.raw)
    (hok : ∀ st ∈ steps, StepOK exactIn bfq lim fee tp st) (hside : ∀ st ∈ steps, StepSide bfq st)
    (hnet : ∀ st ∈ steps, ∀ ti, st.crossed = some ti → a.book.net ti.tick = ti.net.raw)
    (hgrid : ∀ st ∈ steps, ∀ ti, st.crossed = some ti → OnGrid a.sp tp ti.tick)
    (hbook : Guarded (bookOps (steps.flatMap (BStep.evs exactIn upd))) a.book)
    (hyp : FoldHyp bfq a.sp a.book.tick steps) (hI : CLCustody.Inv a) :
    let a' := (custodyOps exactIn bfq a.book.tick steps).foldl CLCustody.step a
    CLCustody.Inv a' ∧ a'.P = q p' ∧ a'.book.active = l'.raw ∧
    a'.book = (bookOps (steps.flatMap (BStep.evs exactIn upd))).foldl CLBook.step a.book ∧
    a'.slack = a.slack + sumR (BStep.err bfq) steps ∧
    a'.base = a.base + sumR (BStep.dBase exactIn bfq) steps ∧
    a'.quote = a.quote + sumR (BStep.dQuote exactIn bfq) steps ∧ Frame a a' := by
  obtain ⟨hg, hb⟩ := custody_fold_guards exactIn bfq upd lim fee tp steps a p l p' l' hch hP hA hok hside hnet hgrid hbook hyp
  obtain ⟨f1, f2, f3, f4, f5, f6⟩ := custody_fold exactIn bfq steps a p l p' l' hch hP hA hnet
  exact ⟨inv_fold _ a hI hg, f1, f2, hb, f3, f4, f5, f6⟩

/-! ### 2. `computeSwap` level -/
open Sunrise.C05Loop (bind_ok res_ok_inj) in
open Sunrise.C04Interval (ite_err_ok) in
/-- inversion of a successful `computeSwap` (with accumulator updates) that also exposes the returned record -/
theorem computeSwap_out {exactIn : Bool} {s : St} {pool : Nat} {denomIn denomOut : Denom} {amount : Int} {fee mLimit : Dec}
    {s2 : St} {o : SwapOut} (h : computeSwap exactIn s pool denomIn denomOut amount fee mLimit true = .ok (s2, o)) :
    ∃ (p : Pool) (acc : Accum) (lim : Dec) (s1 : St) (ss : SwapState), getPool s pool = some p ∧
      swapLoop exactIn (decide (denomIn = p.base)) true lim fee p.tp acc.value denomIn LOOP_FUEL 0 s
          (Sunrise.C05Loop.ss0Of p amount) (tickIter s pool p.tick (decide (denomIn = p.base))) = .ok (s1, ss) ∧
      s2.lastTrace = ss.trace ∧ 0 ≤ ss.remaining.raw ∧
      o.fees = ss.feeTotal ∧ o.sqrtP = ss.sqrtP ∧ o.liq = ss.liq ∧ o.tick = ss.tick ∧
      o.amountIn = (if exactIn then Dec.truncateInt (Dec.ceil (Dec.sub (Dec.ofInt amount) ss.remaining))
                    else Dec.truncateInt (Dec.ceil ss.calculated)) ∧
      o.amountOut = (if exactIn then Dec.truncateInt ss.calculated
                     else Dec.truncateInt (Dec.sub (Dec.ofInt amount) ss.remaining)) := by
  rw [Sunrise.C05Loop.computeSwap_eq] at h
  cases hp : getPool s pool with
  | none => rw [hp] at h; cases h
  | some p =>
    rw [hp] at h
    simp only [] at h
    obtain ⟨_, h⟩ := ite_err_ok h
    obtain ⟨_, h⟩ := ite_err_ok h
    obtain ⟨_, h⟩ := ite_err_ok h
    obtain ⟨_, h⟩ := ite_err_ok h
    cases ha : getAccum s pool with
    | none => rw [ha] at h; cases h
    | some acc =>
      rw [ha] at h
      simp only [] at h
      obtain ⟨lim, hlim, h⟩ := bind_ok h
      obtain ⟨hv, h⟩ := ite_err_ok h
      obtain ⟨x, hx, h⟩ := bind_ok h
      obtain ⟨hneg, h⟩ := ite_err_ok h
      have h' := res_ok_inj h
      have e1 : s2 = (Sunrise.C05Loop.finishSwap exactIn true acc denomIn amount x.1 x.2).1 := (congrArg Prod.fst h').symm
      have e2 : o = (Sunrise.C05Loop.finishSwap exactIn true acc denomIn amount x.1 x.2).2 := (congrArg Prod.snd h').symm
      have hrem : 0 ≤ x.2.remaining.raw := by
        have : ¬ (x.2.remaining.raw < 0) := by simpa [Dec.isNegative] using hneg
        omega
      refine ⟨p, acc, lim, x.1, x.2, rfl, hx, ?_, hrem, ?_, ?_, ?_, ?_, ?_, ?_⟩ <;>
        first | (rw [e1]; cases exactIn <;> rfl) | (rw [e2]; cases exactIn <;> rfl)

/-- **2a. `computeSwap_custody_inv`** — a successful `computeSwap` is a chain of steps whose custody operations, applied
    to ANY custody state `a` carrying the pool's stored price and active liquidity, are all guarded and preserve
    `CLCustody.Inv`, under: the book guards of the recorded trace, `StepSide`, `OnGrid` and stored net at crossed ticks,
    the interval/direction facts `FoldHyp`. -/
theorem computeSwap_custody_inv {exactIn : Bool} {s s2 : St} {pool : Nat} {denomIn denomOut : Denom} {amount : Int}
    {fee mLimit : Dec} {o : SwapOut} (h : computeSwap exactIn s pool denomIn denomOut amount fee mLimit true = .ok (s2, o)) :
    ∃ (p : Pool) (lim : Dec) (ss : SwapState) (steps : List BStep), getPool s pool = some p ∧
      s2.lastTrace = steps.flatMap (BStep.evs exactIn true) ∧
      Chains (decide (denomIn = p.base)) steps p.sqrtP p.liq o.sqrtP o.liq ∧
      (∀ st ∈ steps, StepOK exactIn (decide (denomIn = p.base)) lim fee p.tp st) ∧
      ∀ a : CLCustody.St, a.P = q p.sqrtP → a.book.active = p.liq.raw →
        (∀ st ∈ steps, StepSide (decide (denomIn = p.base)) st) →
        (∀ st ∈ steps, ∀ ti, st.crossed = some ti → a.book.net ti.tick = ti.net.raw) →
        (∀ st ∈ steps, ∀ ti, st.crossed = some ti → OnGrid a.sp p.tp ti.tick) →
        Guarded (bookOps s2.lastTrace) a.book →
        FoldHyp (decide (denomIn = p.base)) a.sp a.book.tick steps → CLCustody.Inv a →
        let a' := (custodyOps exactIn (decide (denomIn = p.base)) a.book.tick steps).foldl CLCustody.step a
        GuardedC (custodyOps exactIn (decide (denomIn = p.base)) a.book.tick steps) a ∧
        CLCustody.Inv a' ∧ a'.P = q o.sqrtP ∧ a'.book.active = o.liq.raw ∧
        a'.book = (bookOps s2.lastTrace).foldl CLBook.step a.book ∧
        a'.slack = a.slack + C02Swap.sumR (BStep.err (decide (denomIn = p.base))) steps ∧
        a'.base = a.base + C02Swap.sumR (BStep.dBase exactIn (decide (denomIn = p.base))) steps ∧
        a'.quote = a.quote + C02Swap.sumR (BStep.dQuote exactIn (decide (denomIn = p.base))) steps ∧ Frame a a' := by
  obtain ⟨p, acc, lim, s1, ss, hp, hloop, hlast, _, _, hoP, hoL, _, _, _⟩ := computeSwap_out h
  obtain ⟨steps, htr, hch, hall, _, _, _⟩ := swapLoop_amounts_sum _ _ _ _ _ _ _ hloop
  have htrace : s2.lastTrace = steps.flatMap (BStep.evs exactIn true) := by
    rw [hlast, htr]; simp [Sunrise.C05Loop.ss0Of]
  have hch' : Chains (decide (denomIn = p.base)) steps p.sqrtP p.liq o.sqrtP o.liq := by
    rw [hoP, hoL]; exact hch
  refine ⟨p, lim, ss, steps, hp, htrace, hch', hall, ?_⟩
  intro a hP hA hside hnet hgrid hbook hyp hI
  rw [htrace] at hbook ⊢
  have hg := custody_fold_guards exactIn _ true lim fee p.tp steps a _ _ _ _ hch' hP hA hall hside hnet hgrid hbook hyp
  have hi := custody_fold_inv exactIn _ true lim fee p.tp steps a _ _ _ _ hch' hP hA hall hside hnet hgrid hbook hyp hI
  exact ⟨hg.1, hi⟩

/-! ### 3. message level (`swapExactIn`): PARTIAL -/

open Sunrise.Gen.KernelsCL in
theorem ceil_whole (a : Dec) : (Dec.ceil a).raw % PREC = 0 := by
  unfold Dec.ceil
  simp only []
  split <;> simp [Int.mul_emod_left]

open Sunrise.Gen.KernelsCL in
theorem base_up_whole (l a b : Dec) : (CalcAmountBaseDelta l a b true).raw % PREC = 0 := by
  unfold CalcAmountBaseDelta
  simp only []
  split <;> simp only [if_true] <;> exact ceil_whole _

open Sunrise.Gen.KernelsCL in
theorem quote_up_whole (l a b : Dec) : (CalcAmountQuoteDelta l a b true).raw % PREC = 0 := by
  unfold CalcAmountQuoteDelta
  simp only [if_true]
  exact ceil_whole _

open Sunrise.Gen.KernelsCL in
/-- the amount-in of an exact-in bucket step is a WHOLE number of coins (it is `Ceil`ed in both kernels) -/
theorem bucket_in_whole {bfq : Bool} {lim fee cur tgt liq rem : Dec} {r : Dec × Dec × Dec × Dec}
    (h : Sunrise.C05Loop.bucket true bfq lim fee cur tgt liq rem = .ok r) : (amtInOf true r).raw % PREC = 0 := by
  unfold Sunrise.C05Loop.bucket bucketOutGivenIn at h
  simp only [if_true] at h
  cases bfq
  · simp only [Bool.false_eq_true, if_false] at h
    split at h
    · have e := Sunrise.C05Loop.res_ok_inj h
      rw [← e]
      show (qfb_ComputeSwapWithinBucketOutGivenIn lim fee cur tgt liq rem).2.1.raw % PREC = 0
      unfold qfb_ComputeSwapWithinBucketOutGivenIn
      simp only []
      split <;> split <;> exact quote_up_whole _ _ _
    · cases h
  · simp only [if_true] at h
    split at h
    · have e := Sunrise.C05Loop.res_ok_inj h
      rw [← e]
      show (bfq_ComputeSwapWithinBucketOutGivenIn lim fee cur tgt liq rem).2.1.raw % PREC = 0
      unfold bfq_ComputeSwapWithinBucketOutGivenIn
      simp only []
      split <;> split <;> exact base_up_whole _ _ _
    · cases h

theorem step_in_whole {bfq : Bool} {lim fee : Dec} {tp : TickParams} {st : BStep} (hok : StepOK true bfq lim fee tp st) :
    (amtInOf true st.r).raw % PREC = 0 := by
  obtain ⟨⟨tgt, rem, _, hB⟩, _⟩ := hok
  exact bucket_in_whole hB

theorem sumBy_add (f g : BStep → Int) (l : List BStep) : sumBy (fun st => f st + g st) l = sumBy f l + sumBy g l := by
  induction l with
  | nil => simp [sumBy]
  | cons a r ih => rw [sumBy_cons, sumBy_cons, sumBy_cons, ih]; omega

theorem sumBy_mod (f : BStep → Int) (l : List BStep) (h : ∀ st ∈ l, f st % PREC = 0) : sumBy f l % PREC = 0 := by
  induction l with
  | nil => simp [sumBy]
  | cons a r ih =>
    rw [sumBy_cons]
    have h1 := h a List.mem_cons_self
    have h2 := ih (fun st hst => h st (List.mem_cons_of_mem _ hst))
    simp only [Dec.PREC_eq] at *
    omega

/-- the end of a swap on the abstraction: a state that differs from a state satisfying `Inv` only by LARGER pool
    balances is the result of a guarded `keep` operation, hence satisfies `Inv` -/
theorem keep_inv {a a' : CLCustody.St} (hI : CLCustody.Inv a) (hb : a'.book = a.book) (hsp : a'.sp = a.sp)
    (hP : a'.P = a.P) (hs : a'.slack = a.slack) (h1 : a.base ≤ a'.base) (h2 : a.quote ≤ a'.quote) :
    a' = CLCustody.step a (.keep (a'.base - a.base) (a'.quote - a.quote)) ∧
    (Op.keep (a'.base - a.base) (a'.quote - a.quote)).guard a ∧ CLCustody.Inv a' := by
  have e : a' = CLCustody.step a (.keep (a'.base - a.base) (a'.quote - a.quote)) := by
    cases a; cases a'
    simp only [CLCustody.step] at *
    subst hb; subst hsp; subst hP; subst hs
    simp
  have g : (Op.keep (a'.base - a.base) (a'.quote - a.quote)).guard a := by
    refine ⟨trivial, ?_, ?_⟩ <;> linarith
  refine ⟨e, g, ?_⟩
  rw [e]; exact Sunrise.C02Custody.inv_step hI g

open Sunrise.C03Pool (SwapMoved) in
/-- **3. `swapExactIn_custody_partial`** — a successful `SwapExactAmountIn`: the steps of its `computeSwap`, the bank
    effect (`SwapMoved` with `fee = ⌈feeTotal⌉`: the pool account receives `amount − fee` of the in-denom and pays `out`
    of the out-denom) and the comparison with the amounts of the custody fold:
    * the pool pays out AT MOST Σ amountOut_i (`TruncateInt` of the sum);
    * the pool receives AT LEAST Σ amountIn_i although the fee is rounded UP to a whole coin (`fee = ⌈Σ fee_i⌉`) and taken
      out of `amount`: every amountIn_i is a whole number of coins (`step_in_whole`: `Ceil` in both exact-in kernels), so
      `amount·10^18 − Σ amountIn_i ≥ Σ fee_i` is a multiple of 10^18.
    `0 ≤ o.fees` is a hypothesis (proved at store level by `C05Store.computeSwap_calculated_mono_store`). -/
theorem swapExactIn_custody_partial {s s' : St} {sender : Addr} {pool : Nat} {din dout : Denom} {amount out : Int} {fe : Bool}
    (h : swapExactIn s sender pool din amount dout fe = .ok (s', out))
    (h1 : sender ≠ poolAddr pool) (h2 : sender ≠ feesAddr pool) :
    ∃ (p : Pool) (s1 : St) (o : SwapOut) (steps : List BStep) (fee : Int),
      getPool s pool = some p ∧
      computeSwap true s pool din dout amount (if fe then p.feeRate else Dec.zero)
        (multipliedPriceLimit (decide (din = p.base))) true = .ok (s1, o) ∧
      s1.lastTrace = steps.flatMap (BStep.evs true true) ∧
      Chains (decide (din = p.base)) steps p.sqrtP p.liq o.sqrtP o.liq ∧
      fee = Dec.truncateInt (Dec.ceil o.fees) ∧ 0 ≤ fee ∧ fee < amount ∧
      SwapMoved s.bank s'.bank sender pool din amount dout out fee ∧
      out * PREC ≤ sumBy (BStep.outRaw true) steps ∧
      (0 ≤ o.fees.raw → sumBy (fun st => (amtInOf true st.r).raw) steps ≤ (amount - fee) * PREC) := by
  obtain ⟨p, s1, o, hp, hid, hx, hfull, hpos, hout, hu⟩ := Sunrise.C03Pool.swapExactIn_inv h
  subst hid
  obtain ⟨fee, hfee, f0, f1, _, _, mv, _, _, _⟩ := Sunrise.C03Pool.updatePoolForSwap_ok hu h1 h2
  obtain ⟨p', acc, lim, s0, ss, hp', hloop, hlast, hrem, hoF, hoP, hoL, _, _, hoOut⟩ := computeSwap_out hx
  have ep : p' = p := by rw [hp] at hp'; exact (Option.some.inj hp').symm
  subst ep
  obtain ⟨steps, htr, hch, hall, hrem2, hcal2, hft2⟩ := swapLoop_amounts_sum _ _ _ _ _ _ _ hloop
  have htrace : s1.lastTrace = steps.flatMap (BStep.evs true true) := by
    rw [hlast, htr]; simp [Sunrise.C05Loop.ss0Of]
  have hch' : Chains (decide (din = p'.base)) steps p'.sqrtP p'.liq o.sqrtP o.liq := by
    rw [hoP, hoL]; exact hch
  simp only [if_true] at hoOut hft2
  have hcons : sumBy (BStep.consumed true) steps =
      sumBy (fun st => (amtInOf true st.r).raw) steps + sumBy (fun st => st.r.2.2.2.raw) steps := by
    rw [← sumBy_add]; rfl
  have hprod : sumBy (BStep.produced true) steps = sumBy (BStep.outRaw true) steps := rfl
  have hr0 : (Sunrise.C05Loop.ss0Of p' amount).remaining.raw = amount * PREC := rfl
  have hc0 : (Sunrise.C05Loop.ss0Of p' amount).calculated.raw = 0 := rfl
  have hf0 : (Sunrise.C05Loop.ss0Of p' amount).feeTotal.raw = 0 := rfl
  rw [hr0, hcons] at hrem2
  rw [hc0, hprod] at hcal2
  rw [hf0] at hft2
  -- out side
  have hout1 : out * PREC ≤ sumBy (BStep.outRaw true) steps := by
    rw [hout, hoOut]
    by_cases hneg : ss.calculated.raw < 0
    · exfalso
      have := (Sunrise.C03Pool.tdiv_neg_le hneg).1
      rw [hoOut] at hpos
      unfold Dec.truncateInt Dec.chopTrunc Dec.tquo at hpos
      omega
    · obtain ⟨t1, _, _⟩ := Dec.truncateInt_nonneg_bounds ss.calculated (by omega)
      rw [hcal2] at t1
      simp only [Dec.PREC_eq] at *
      omega
  have hfeeB : 0 ≤ o.fees.raw → fee * PREC < sumBy (fun st => st.r.2.2.2.raw) steps + PREC ∧ (fee * PREC) % PREC = 0 := by
    intro hnn
    rw [hoF] at hnn hfee
    obtain ⟨c1, c2, c3⟩ := Dec.ceil_nonneg_bounds ss.feeTotal hnn
    obtain ⟨t1, t2, _⟩ := Dec.truncateInt_nonneg_bounds (Dec.ceil ss.feeTotal) (by omega)
    rw [← hfee] at t1 t2
    rw [hft2] at c2
    simp only [Dec.PREC_eq] at *
    omega
  obtain ⟨_, _, _, _, _, _, _, _, hfr, _⟩ := Sunrise.C03Pool.computeSwap_exec_quote hp hx
  rw [hfull, ← hout, hfr.1] at mv
  refine ⟨p', s1, o, steps, fee, hp, hx, htrace, hch', hfee, f0, ?_, mv, hout1, ?_⟩
  · rw [hfull] at f1; exact f1
  · intro hnn
    obtain ⟨b1, b2⟩ := hfeeB hnn
    have hm := sumBy_mod _ steps (fun st hst => step_in_whole (hall st hst))
    simp only [Dec.PREC_eq] at *
    omega

/-! ### 3b. the end of the swap on the abstraction -/

theorem sumR_q (f : BStep → Dec) (l : List BStep) :
    C02Swap.sumR (fun st => q (f st)) l = ((sumBy (fun st => (f st).raw) l : Int) : Rat) / 10 ^ 18 := by
  induction l with
  | nil => simp [C02Swap.sumR, sumBy]
  | cons a r ih =>
    rw [sumR_cons, sumBy_cons, ih]
    unfold q
    push_cast
    ring

theorem sumR_neg (f : BStep → Rat) (l : List BStep) : C02Swap.sumR (fun st => - f st) l = - C02Swap.sumR f l := by
  induction l with
  | nil => simp [C02Swap.sumR]
  | cons a r ih => rw [sumR_cons, sumR_cons, ih]; ring

/-- **3b. `swap_end_inv`** — the end of an exact-in swap on the abstraction.  `af` = the fold of the custody operations
    (balances moved by the per-step amounts from `a0`); `a'` = the abstraction after the bank transfers (the pool account
    moved by `amount − fee` in and `out` out).  With the two comparisons of `swapExactIn_custody_partial`, `a'` is `af`
    followed by a guarded `keep` (both remainders in the pool's favour), so `Inv af → Inv a'`. -/
theorem swap_end_inv {bfq : Bool} {steps : List BStep} {amount fee out : Int} {a0 af a' : CLCustody.St}
    (hI : CLCustody.Inv af)
    (hfb : af.base = a0.base + C02Swap.sumR (BStep.dBase true bfq) steps)
    (hfq : af.quote = a0.quote + C02Swap.sumR (BStep.dQuote true bfq) steps)
    (hin : sumBy (fun st => (amtInOf true st.r).raw) steps ≤ (amount - fee) * PREC)
    (hout : out * PREC ≤ sumBy (BStep.outRaw true) steps)
    (hb' : a'.base = a0.base + (if bfq then ((amount - fee : Int) : Rat) else - (out : Rat)))
    (hq' : a'.quote = a0.quote + (if bfq then - (out : Rat) else ((amount - fee : Int) : Rat)))
    (hbk : a'.book = af.book) (hsp : a'.sp = af.sp) (hP : a'.P = af.P) (hs : a'.slack = af.slack) :
    CLCustody.Inv a' ∧ (Op.keep (a'.base - af.base) (a'.quote - af.quote)).guard af := by
  have hinR : C02Swap.sumR (fun st => q (amtInOf true st.r)) steps ≤ ((amount - fee : Int) : Rat) := by
    rw [sumR_q, div_le_iff₀ (by norm_num)]
    have : ((sumBy (fun st => (amtInOf true st.r).raw) steps : Int) : Rat) ≤ (((amount - fee) * PREC : Int) : Rat) := by
      exact_mod_cast hin
    rw [Dec.PREC_eq] at this
    push_cast at this ⊢
    linarith
  have houtR : (out : Rat) ≤ C02Swap.sumR (fun st => q (amtOutOf true st.r)) steps := by
    rw [sumR_q, le_div_iff₀ (by norm_num)]
    have : ((out * PREC : Int) : Rat) ≤ ((sumBy (fun st => (amtOutOf true st.r).raw) steps : Int) : Rat) := by
      exact_mod_cast hout
    rw [Dec.PREC_eq] at this
    push_cast at this ⊢
    linarith
  have hk : af.base ≤ a'.base ∧ af.quote ≤ a'.quote := by
    cases bfq
    · have e1 : BStep.dBase true false = fun st => - q (amtOutOf true st.r) := by funext st; simp [BStep.dBase]
      have e2 : BStep.dQuote true false = fun st => q (amtInOf true st.r) := by funext st; simp [BStep.dQuote]
      rw [e1, sumR_neg] at hfb
      rw [e2] at hfq
      simp only [Bool.false_eq_true, if_false] at hb' hq'
      constructor <;> linarith
    · have e1 : BStep.dBase true true = fun st => q (amtInOf true st.r) := by funext st; simp [BStep.dBase]
      have e2 : BStep.dQuote true true = fun st => - q (amtOutOf true st.r) := by funext st; simp [BStep.dQuote]
      rw [e1] at hfb
      rw [e2, sumR_neg] at hfq
      simp only [if_true] at hb' hq'
      constructor <;> linarith
  obtain ⟨_, g, i⟩ := keep_inv hI hbk hsp hP hs hk.1 hk.2
  exact ⟨i, g⟩

/-! ### non-vacuity: the executed swaps of `C04Store` -/
open Sunrise.C04Store (h3 h3u_ok h3s_ok okState) in
theorem okState_ok {α : Type} {r : Res (CL.St × α)} (h : okState r = true) : ∃ x, r = .ok x := by
  cases r with
  | ok x => exact ⟨x, rfl⟩
  | err c => cases h
  | panic k => cases h

open Sunrise.C04Store (h3 h3u_ok h3s_ok okState) in
open Sunrise.C03Pool (SwapMoved) in
/-- `h3u` (5,000,000 quote in, crosses tick 1): the conclusions of `swapExactIn_custody_partial` hold of an executed swap -/
example : ∃ (s' : St) (out : Int) (p : Pool) (s1 : St) (o : SwapOut) (steps : List BStep) (fee : Int),
    swapExactIn h3 "a0" 0 "quote" 5000000 "base" true = .ok (s', out) ∧ getPool h3 0 = some p ∧
    s1.lastTrace = steps.flatMap (BStep.evs true true) ∧
    Chains (decide ("quote" = p.base)) steps p.sqrtP p.liq o.sqrtP o.liq ∧
    SwapMoved h3.bank s'.bank "a0" 0 "quote" 5000000 "base" out fee ∧
    out * PREC ≤ sumBy (BStep.outRaw true) steps := by
  obtain ⟨⟨s', out⟩, h⟩ := okState_ok h3u_ok.1
  obtain ⟨p, s1, o, steps, fee, hp, _, htr, hch, _, _, _, mv, hout, _⟩ :=
    swapExactIn_custody_partial h (by decide) (by decide)
  exact ⟨s', out, p, s1, o, steps, fee, h, hp, htr, hch, mv, hout⟩

open Sunrise.C04Store (h3) in
/-- `h3d` (1000 base in, crosses tick 0) and `h3s` (1000 quote in, no crossing): `computeSwap_custody_inv` applies -/
example : ∃ (s2 : St) (o : SwapOut) (p : Pool) (steps : List BStep),
    computeSwap true h3 0 "base" "quote" 1000 ⟨3000000000000000⟩ (multipliedPriceLimit true) true = .ok (s2, o) ∧
    getPool h3 0 = some p ∧ s2.lastTrace = steps.flatMap (BStep.evs true true) ∧
    Chains (decide ("base" = p.base)) steps p.sqrtP p.liq o.sqrtP o.liq := by
  obtain ⟨⟨s2, o⟩, h⟩ := ok_of_okR h3_swaps_ok.2.2
  obtain ⟨p, lim, ss, steps, hp, htr, hch, _, _⟩ := computeSwap_custody_inv h
  exact ⟨s2, o, p, steps, h, hp, htr, hch⟩

open Sunrise.C04Store (h3) in
example : ∃ (s2 : St) (o : SwapOut) (p : Pool) (steps : List BStep),
    computeSwap true h3 0 "quote" "base" 1000 ⟨3000000000000000⟩ (multipliedPriceLimit false) true = .ok (s2, o) ∧
    getPool h3 0 = some p ∧ s2.lastTrace = steps.flatMap (BStep.evs true true) ∧
    (∀ st ∈ steps, (amtInOf true st.r).raw % PREC = 0) := by
  obtain ⟨⟨s2, o⟩, h⟩ := ok_of_okR h3_swaps_ok.1
  obtain ⟨p, lim, ss, steps, hp, htr, hch, hall, _⟩ := computeSwap_custody_inv h
  exact ⟨s2, o, p, steps, h, hp, htr, fun st hst => step_in_whole (hall st hst)⟩

/-! joint satisfiability of the hypotheses of `custody_fold_guards` / `custody_fold_inv` on a non-empty chain: a (degenerate,
    zero-amount) executed bucket step at price 1.0 on the empty pool `CLCustody.init gsp 1 0` of `C02Custody` -/
def stZ : BStep := ⟨⟨1000000000000000000⟩, ⟨0⟩, (⟨1000000000000000000⟩, ⟨0⟩, ⟨0⟩, ⟨0⟩), none, []⟩

def tpZ : TickParams := ⟨⟨1⟩, ⟨0⟩⟩

abbrev bZ : Res (Dec × Dec × Dec × Dec) :=
  Sunrise.C05Loop.bucket true false ⟨2000000000000000000⟩ ⟨3000000000000000⟩ ⟨1000000000000000000⟩
    ⟨1000000000000000000⟩ ⟨0⟩ ⟨1000000000000000000⟩

theorem bZ_chk : (match bZ with | .ok r => decide (r = stZ.r) | _ => false) = true := by decide +kernel

theorem stZ_bucket : bZ = .ok stZ.r := by
  have h := bZ_chk
  cases hb : bZ with
  | ok r => rw [hb] at h; simp only [decide_eq_true_eq] at h; rw [h]
  | err c => rw [hb] at h; cases h
  | panic k => rw [hb] at h; cases h

theorem q_one : q ⟨1000000000000000000⟩ = 1 := by unfold q; norm_num

open Sunrise.C02Custody (gsp gsp_ok inv_init) in
example : CLCustody.Inv ((custodyOps true false 0 [stZ]).foldl CLCustody.step (CLCustody.init gsp 1 0)) ∧
    GuardedC (custodyOps true false 0 [stZ]) (CLCustody.init gsp 1 0) := by
  have hin : priceInTick gsp 1 0 := by unfold CLCustody.priceInTick gsp; norm_num
  have hI : CLCustody.Inv (CLCustody.init gsp 1 0) := inv_init gsp 1 0 gsp_ok (by norm_num) hin
  have hch : Chains false [stZ] ⟨1000000000000000000⟩ ⟨0⟩ ⟨1000000000000000000⟩ ⟨0⟩ := ⟨rfl, rfl, rfl, rfl⟩
  have hok : ∀ st ∈ [stZ], StepOK true false ⟨2000000000000000000⟩ ⟨3000000000000000⟩ tpZ st := by
    intro st hst
    rw [List.mem_singleton.mp hst]
    exact ⟨⟨_, ⟨1000000000000000000⟩, by decide, stZ_bucket⟩, Or.inl ⟨rfl, rfl⟩⟩
  have hside : ∀ st ∈ [stZ], StepSide false st := by
    intro st hst
    rw [List.mem_singleton.mp hst]
    refine ⟨by decide, by decide, by decide, ?_⟩
    unfold Sunrise.C05Loop.onSide; decide
  have hnone : ∀ st ∈ [stZ], ∀ ti, st.crossed = some ti → False := by
    intro st hst ti h
    rw [List.mem_singleton.mp hst] at h
    cases h
  have hyp : FoldHyp false gsp 0 [stZ] := by
    refine ⟨?_, ?_, trivial⟩
    · show priceInTick gsp (q ⟨1000000000000000000⟩) 0
      rw [q_one]; exact hin
    · intro _; show (0 : Int) ≤ 0; decide
  have hbook : Guarded (bookOps ([stZ].flatMap (BStep.evs true true))) (CLCustody.init gsp 1 0).book := trivial
  have hg := custody_fold_guards true false true ⟨2000000000000000000⟩ ⟨3000000000000000⟩ tpZ [stZ]
    (CLCustody.init gsp 1 0) _ _ _ _ hch (by rw [q_one]; rfl) rfl hok hside
    (fun st hst ti h => (hnone st hst ti h).elim) (fun st hst ti h => (hnone st hst ti h).elim) hbook hyp
  have hi := custody_fold_inv true false true ⟨2000000000000000000⟩ ⟨3000000000000000⟩ tpZ [stZ]
    (CLCustody.init gsp 1 0) _ _ _ _ hch (by rw [q_one]; rfl) rfl hok hside
    (fun st hst ti h => (hnone st hst ti h).elim) (fun st hst ti h => (hnone st hst ti h).elim) hbook hyp hI
  exact ⟨hi.1, hg.1⟩

end Sunrise.C02Swap2

#print axioms Sunrise.C02Swap2.step_ops
#print axioms Sunrise.C02Swap2.custody_fold_guards
#print axioms Sunrise.C02Swap2.custody_fold_inv
#print axioms Sunrise.C02Swap2.computeSwap_custody_inv
#print axioms Sunrise.C02Swap2.keep_inv
#print axioms Sunrise.C02Swap2.swapExactIn_custody_partial
#print axioms Sunrise.C02Swap2.swap_end_inv
#print axioms Sunrise.C02Swap2.step_in_whole
