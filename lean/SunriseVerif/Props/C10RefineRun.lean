import SunriseVerif.Model.ShareClass
import SunriseVerif.Model.SCAccrual
import SunriseVerif.Model.SCAccrualAbs
import SunriseVerif.Props.C10
import SunriseVerif.Props.C10Accrual
import SunriseVerif.Props.C10Refine
import Mathlib.Tactic.Linarith
import Mathlib.Tactic.Ring
import Mathlib.Tactic.NormNum
import Mathlib.Data.List.Dedup
/-!
C10 (refinement, assembled) — the store-level model of x/shareclass (`Model/ShareClass.lean`, tied to the Go code by the
`share` correspondence suite) refines the reward-accounting abstraction (`Model/SCAccrual.lean`) over WHOLE HISTORIES, and
the theorems of `Props/C10Accrual.lean` about the abstraction become theorems about the store-level model.

Store-level operations and histories are the model's own: `ShareClass.Op` (delegate / undelegate / claim messages and
`block now matured rewards` = the end-blocker), `ShareClass.step` (a rejected message changes nothing) and
`ShareClass.run : St → List Op → St`.  Nothing is redefined here.

1. Simulation relation `Sim v d accs s a` (validator `v`, reward denom `d`, holder list `accs`): `a` is `ReachableT K` in the
   abstraction (admissible operations, errors within the relative bound 1/K of 34-digit arithmetic, K = 2·10^33), its
   observable part is `absSC s v d accs` (multiplier, per-holder share balance and checkpoint), its ghost totals are
   `recv = received v d`, `paid = claimed v d` (the ledgers of the store-level model, which `store_saver_balance` ties to
   the saver's bank balance); plus `C10.WF s` and "bank supply of the share denom = Σ balances of the listed holders".
   Per operation (from the lemmas of `Props/C10Refine.lean`):
   `sim_claim`, `sim_delegate`, `sim_undelegate` (claim, then `setShares ±share`), `sim_claim_other`, `sim_delegate_other`,
   `sim_undelegate_other` (messages at other validators are invisible), `sim_handleRewards` (all branches, arbitrary coin
   lists: one abstract `reward` per coin of the denom, `rewardNoShares` without supply), `sim_block` (credit of matured bond
   tokens + fold of `handleRewards` over the validators + garbage collector), `sim_step` (every `ShareClass.step`).
2. `sim_run`: induction over the unbounded operation list from the genesis state `St.init b0`; the abstract genesis state is
   `joinN accs.length` (every listed account `join`s with balance 0 and checkpoint 0).
3. Store-level corollaries (stated on `ShareClass.run (St.init b0) ops` only):
   `store_claims_le_received(_closed)`, `store_paid_le_received`, `store_holders_wf`, `store_saver_balance`,
   `store_claim_payable`, `store_claim_succeeds`, and with the canonical holder list `holders v ops` (all senders of messages
   at `v`): `store_claims_le_received_users`, `store_paid_le_received_users`.

Which accounts must be in `accs` (`AccsOK`, `OpOK`): every account that SENDS a message (delegate, undelegate, claim — accepted
or not) at validator `v` in the history; each once; not the module account of x/shareclass and no reward saver.  That list
contains every account that ever held the share denom of `v` (`store_holders_wf`: the bank supply is the sum over it).
`holders v ops` is the least such list.

Boundary assumptions (explicit hypotheses, nothing else is assumed):
* `GenesisOK b0 v accs`: at genesis the listed accounts hold no share token of `v` and its supply is 0 (x/shareclass has no
  genesis share state; a share denom is minted only by NonVotingDelegate).  The rest of the genesis bank is arbitrary.
* `OpOK v accs op`: senders of messages at `v` are listed (hence are neither the module account nor a saver); senders of
  delegations / undelegations at other validators are not the module account (module-derived addresses sign nothing).
* `OpNoSaver v op` (only for the bank-balance theorems): the saver of `v` signs no message and is not named as recipient of
  an undelegation (otherwise it holds MORE than recv − paid).
* Every boundary INPUT of the operations — what x/staking answers (`StakeExt`: delegation balance, success, completion time),
  the coins distribution's hooks paid (`hook`), the bond tokens staking released (`matured`), the coins withdrawn per
  validator (`rewards`: any validators, repeated validators/denoms, zero or negative amounts, share denoms), block times —
  is universally quantified: NO assumption.  (Negative reward coins make the forwarding fail, which the model handles.)
* `store_paid_le_received`, `store_claim_payable`, `store_claim_succeeds`: `received v d ≤ 5·10^32` (the supply cap is 10^15)
  and a non-negative genesis balance of the saver.

Not proved here: anything about share AMOUNTS (`CalculateShareByAmount`, C10Kernel), the unbonding queue payments
(`C10.undelegate_paid_*`), and the tie model ⇄ Go code (correspondence harness).
-/
set_option linter.unusedSimpArgs false
set_option linter.unusedVariables false
namespace Sunrise.C10RefineRun
open Sunrise Sunrise.Bank Sunrise.C10Refine

abbrev AOp := SCAccrual.Op
abbrev ASt := SCAccrual.St

-- ------------------------------------------------------------------------------------------------ abstract level: congruence
/-- guards read the multiplier and the holder list only -/
theorem guard_congr {a b : ASt} (hM : a.M = b.M) (hU : a.users = b.users) (op : AOp) (h : op.guard b) : op.guard a := by
  cases op with
  | reward R M' e => simpa [SCAccrual.Op.guard, hM, hU] using h
  | rewardNoShares R => exact h
  | claim i pay e => simpa [SCAccrual.Op.guard, hM, hU] using h
  | setShares i δ => simpa [SCAccrual.Op.guard, hM, hU] using h
  | join m => simpa [SCAccrual.Op.guard, hM] using h

theorem tight_congr {a b : ASt} (hM : a.M = b.M) (hU : a.users = b.users) (k : ℚ) (op : AOp) (h : op.tight k b) :
    op.tight k a := by
  cases op with
  | reward R M' e => exact h
  | rewardNoShares R => exact h
  | claim i pay e => simpa [SCAccrual.Op.tight, hM, hU] using h
  | setShares i δ => exact h
  | join m => exact h

/-- the observable part of a step depends on the observable part of the state only -/
theorem step_congr {a b : ASt} (hM : a.M = b.M) (hU : a.users = b.users) (op : AOp) :
    (SCAccrual.step a op).M = (SCAccrual.step b op).M ∧ (SCAccrual.step a op).users = (SCAccrual.step b op).users := by
  cases op <;> simp [SCAccrual.step, hM, hU]

theorem supply_nonneg (l : List SCAccrual.User) (h : ∀ u ∈ l, 0 ≤ u.share) : 0 ≤ SCAccrual.supply l := by
  induction l with
  | nil => exact le_refl _
  | cons x xs ih =>
    have h1 := h x List.mem_cons_self
    have h2 := ih (fun y hy => h y (List.mem_cons_of_mem _ hy))
    simp only [SCAccrual.supply]; omega

-- ------------------------------------------------------------------------------------------------ coins and ghosts
/-- the ghost ledgers `received`/`claimed` grow by the amount of the denom among the coins, at the validator only -/
theorem addClaimed_apply (cs : Coins) (f : Val → Denom → Int) (w v : Val) (d : Denom) :
    ShareClass.addClaimed f w cs v d = if v = w then f v d + amt cs d else f v d := by
  induction cs generalizing f with
  | nil => simp [ShareClass.addClaimed, amt]
  | cons c cs ih =>
    have hstep : ShareClass.addClaimed f w (c :: cs)
        = ShareClass.addClaimed (fun v' d' => if v' = w ∧ d' = c.1 then f w c.1 + c.2 else f v' d') w cs := rfl
    rw [hstep, ih]
    by_cases hv : v = w
    · subst hv
      simp only [if_true, true_and, amt]
      by_cases hd : d = c.1
      · subst hd; simp; omega
      · have hd' : ¬ c.1 = d := fun e => hd e.symm
        simp [hd, hd']
    · simp [hv]

theorem sendCoins_nonneg (cs : Coins) {b b' : Bank} {x y : Addr} (h : ShareClass.sendCoins b x y cs = .ok b') :
    ∀ c ∈ cs, 0 ≤ c.2 := by
  induction cs generalizing b with
  | nil => intro c hc; simp at hc
  | cons c cs ih =>
    simp only [ShareClass.sendCoins, List.foldlM] at h
    obtain ⟨b1, h1, h⟩ := bind_ok h
    intro c' hc'
    rcases List.mem_cons.mp hc' with e | e
    · subst e; exact (send_ok h1).1
    · exact ih h c' e

/-- `sendCoins` between two different accounts: the sender loses, the receiver gains, per denom, the total of the coins -/
theorem sendCoins_bal (cs : Coins) {b b' : Bank} {x y : Addr} (hxy : x ≠ y) (h : ShareClass.sendCoins b x y cs = .ok b')
    (d : Denom) : b'.bal x d = b.bal x d - amt cs d ∧ b'.bal y d = b.bal y d + amt cs d := by
  induction cs generalizing b with
  | nil =>
    simp [ShareClass.sendCoins, List.foldlM, pure] at h
    subst h
    simp [amt]
  | cons c cs ih =>
    simp only [ShareClass.sendCoins, List.foldlM] at h
    obtain ⟨b1, h1, h⟩ := bind_ok h
    obtain ⟨i1, i2⟩ := ih h
    obtain ⟨_, _, e⟩ := send_ok h1
    have hyx : y ≠ x := fun e => hxy e.symm
    rw [i1, i2, e]
    simp only [amt, credit_bal, hxy, hyx, false_and, if_false, true_and]
    by_cases hd : d = c.1
    · subst hd; simp; constructor <;> omega
    · have hd' : ¬ c.1 = d := fun e => hd e.symm
      simp [hd, hd']

theorem saver_inj {v w : Val} (h : ShareClass.saver v = ShareClass.saver w) : v = w :=
  (String.append_right_inj _).1 h

theorem saver_ne_of_m (v : Val) (s : String) (cs : List Char) (hs : s.toList = 'm' :: cs) : ShareClass.saver v ≠ s := by
  intro h
  have := congrArg String.toList h
  simp only [ShareClass.saver, String.toList_append] at this
  have h4 : "saver:".toList = ['s','a','v','e','r',':'] := by decide
  rw [h4, hs] at this
  simp at this

theorem saver_ne_module (v : Val) : ShareClass.saver v ≠ ShareClass.moduleAcc := fun e => module_ne_saver v e.symm

theorem saver_ne_conv (v : Val) : ShareClass.saver v ≠ Convert.moduleAcc :=
  saver_ne_of_m v _ _ (by decide : Convert.moduleAcc.toList = 'm' :: "odule:tokenconverter".toList)

theorem saver_ne_pool (v : Val) : ShareClass.saver v ≠ "module:bonded_pool" :=
  saver_ne_of_m v _ _ (by decide : "module:bonded_pool".toList = 'm' :: "odule:bonded_pool".toList)

-- ------------------------------------------------------------------------------------------------ the simulation relation
/-- what a holder list must satisfy: each account once, neither the module account of x/shareclass nor any reward saver
    (those accounts sign no message; the module account holds share tokens only inside a message) -/
structure AccsOK (accs : List Addr) : Prop where
  nodup : accs.Nodup
  noMod : ShareClass.moduleAcc ∉ accs
  noSaver : ∀ w, ShareClass.saver w ∉ accs

/-- **Sim**: the abstract state `a` simulates the store-level state `s` for validator `v`, reward denom `d` and holder list
    `accs`: `a` is reachable in the abstraction by admissible operations whose errors respect the relative bound of 34-digit
    arithmetic (`ReachableT K`); its observable part (multiplier, per-holder share balance and checkpoint) is `absSC s v d accs`;
    its ghost totals are the store-level ledgers `received v d` / `claimed v d`.  Two store-level invariants ride along:
    `C10.WF` and "the bank's supply of the share denom is the sum of the listed holders' balances". -/
structure Sim (v : Val) (d : Denom) (accs : List Addr) (s : SSt) (a : ASt) : Prop where
  reach : SCAccrual.ReachableT SCAccrual.K a
  hM : a.M = SCAccrual.valD (s.mult v d)
  hU : a.users = accs.map (userOf s v d)
  hrecv : a.recv = (s.received v d : ℚ)
  hpaid : a.paid = (s.claimed v d : ℚ)
  wf : C10.WF s
  hsup : s.bank.sup (ShareClass.shareDenom v) = SCAccrual.supply a.users

variable {v : Val} {d : Denom} {accs : List Addr}

theorem Sim.inv {s : SSt} {a : ASt} (h : Sim v d accs s a) : SCAccrual.Inv a :=
  C10Accrual.inv_reachable (C10Accrual.reachableT_reachable h.reach)

theorem Sim.obs {s : SSt} {a : ASt} (h : Sim v d accs s a) :
    a.M = (SCAccrual.absSC s v d accs).M ∧ a.users = (SCAccrual.absSC s v d accs).users := ⟨h.hM, h.hU⟩

/-- a listed holder: its abstract record, its balance is not negative, its checkpoint not above the multiplier -/
theorem Sim.holder {s : SSt} {a : ASt} (h : Sim v d accs s a) {i : Nat} {u : Addr} (hi : accs[i]? = some u) :
    a.users[i]? = some (userOf s v d u) ∧ 0 ≤ s.bank.bal u (ShareClass.shareDenom v)
    ∧ SCAccrual.valD (s.last u v d) ≤ SCAccrual.valD (s.mult v d) := by
  have hui : a.users[i]? = some (userOf s v d u) := by rw [h.hU, List.getElem?_map, hi]; rfl
  have hw := h.inv.wf _ (List.mem_of_getElem? hui)
  rw [h.hM] at hw
  exact ⟨hui, hw.1, hw.2⟩

theorem wf_of_eq {s s' : SSt} (hwf : C10.WF s) (hm : s'.mult = s.mult) (hh : s'.hasMult = s.hasMult) (hl : s'.last = s.last) :
    C10.WF s' := by
  intro v d h
  rw [hh] at h
  rw [hm, hl]; exact hwf v d h

/-- a store-level change that the abstraction of `(v, d)` does not see -/
theorem Sim.transfer {s s' : SSt} {a : ASt} (h : Sim v d accs s a)
    (hM : SCAccrual.valD (s'.mult v d) = SCAccrual.valD (s.mult v d))
    (hU : accs.map (userOf s' v d) = accs.map (userOf s v d))
    (hr : s'.received v d = s.received v d) (hc : s'.claimed v d = s.claimed v d) (hwf : C10.WF s')
    (hsup : s'.bank.sup (ShareClass.shareDenom v) = s.bank.sup (ShareClass.shareDenom v)) : Sim v d accs s' a :=
  ⟨h.reach, by rw [hM]; exact h.hM, by rw [hU]; exact h.hU, by rw [hr]; exact h.hrecv, by rw [hc]; exact h.hpaid, hwf,
    by rw [hsup]; exact h.hsup⟩

theorem Sim.transfer_abs {s s' : SSt} {a : ASt} (h : Sim v d accs s a)
    (habs : SCAccrual.absSC s' v d accs = SCAccrual.absSC s v d accs)
    (hr : s'.received v d = s.received v d) (hc : s'.claimed v d = s.claimed v d) (hwf : C10.WF s')
    (hsup : s'.bank.sup (ShareClass.shareDenom v) = s.bank.sup (ShareClass.shareDenom v)) : Sim v d accs s' a :=
  h.transfer (congrArg (·.M) habs) (congrArg (·.users) habs) hr hc hwf hsup

-- ------------------------------------------------------------------------------------------------ claim
/-- **sim_claim** (at the validator): a successful `Keeper.ClaimRewards` of a listed holder is ONE admissible, tight
    abstract `claim`; the ghost `paid` grows by the amount of `d` paid, as the store-level ledger `claimed v d` does -/
theorem sim_claim {s s' : SSt} {a : ASt} {u : Addr} {paid : Coins} (hA : AccsOK accs) (hs : Sim v d accs s a)
    (h : ShareClass.claimRewards s u v = .ok (s', paid)) (hu : u ∈ accs) :
    ∃ a', Sim v d accs s' a' ∧ s'.last u v d = s'.mult v d
      ∧ s'.bank.bal u (ShareClass.shareDenom v) = s.bank.bal u (ShareClass.shareDenom v) := by
  obtain ⟨i, hi⟩ := List.getElem?_of_mem hu
  obtain ⟨hui, hb, hm⟩ := hs.holder hi
  obtain ⟨hg, ht⟩ := claim_refines_guard h accs i hi d hm hb
  obtain ⟨cM, cU⟩ := hs.obs
  obtain ⟨_, hU', _, _, _⟩ := claim_refines h accs hA.nodup i hi d (Or.inr hs.wf) 0
  obtain ⟨_, hsend, hmult, hhas, _, _, _, hrecv, _, hcl, _⟩ := C10.claim_ok h
  have hwf' : C10.WF s' := by
    have := C10.wf_step s (.claim u v) hs.wf
    simpa only [ShareClass.step, h] using this
  have hck : s'.last u v d = s'.mult v d := by rw [claim_last_self h d (Or.inr hs.wf), hmult]
  refine ⟨SCAccrual.step a (.claim i (amt paid d : ℚ)
      (SCAccrual.accrued (SCAccrual.absSC s v d accs).M (userOf s v d u) / SCAccrual.K)),
    ⟨SCAccrual.ReachableT.step _ hs.reach (guard_congr cM cU _ hg) (tight_congr cM cU _ _ ht), ?_, ?_, ?_, ?_, hwf', ?_⟩,
    hck, claim_share_bal h u v⟩
  · show a.M = _
    rw [hmult]; exact hs.hM
  · show SCAccrual.modifyAt (fun x => { x with m := a.M }) a.users i = _
    rw [← absSC_users, hU', cM, cU]
  · show a.recv = _
    rw [hrecv]; exact hs.hrecv
  · show a.paid + (amt paid d : ℚ) = _
    rw [hcl, addClaimed_apply, hs.hpaid]
    simp
  · show _ = SCAccrual.supply (SCAccrual.modifyAt (fun x => { x with m := a.M }) a.users i)
    rw [C10Accrual.supply_checkpoint, sendCoins_sup hsend]
    exact hs.hsup

/-- a successful claim at ANOTHER validator is invisible in the abstraction of `(v, d)` -/
theorem sim_claim_other {s s' : SSt} {a : ASt} {u : Addr} {w : Val} {paid : Coins} (hs : Sim v d accs s a)
    (h : ShareClass.claimRewards s u w = .ok (s', paid)) (hw : w ≠ v) : Sim v d accs s' a := by
  obtain ⟨_, hsend, _, _, _, _, _, hrecv, _, hcl, _⟩ := C10.claim_ok h
  have hwf' : C10.WF s' := by
    have := C10.wf_step s (.claim u w) hs.wf
    simpa only [ShareClass.step, h] using this
  refine hs.transfer_abs ((claim_frame h).2.2.2.2.1 v d accs (fun e => hw e.symm)) (by rw [hrecv]) ?_ hwf'
    (by rw [sendCoins_sup hsend])
  rw [hcl, addClaimed_apply, if_neg (fun e : v = w => hw e.symm)]

-- ------------------------------------------------------------------------------------------------ delegate / undelegate
theorem send_sup {b b' : Bank} {x y : Addr} {d : Denom} {n : Int} (h : b.send x y d n = .ok b') : b'.sup = b.sup := by
  obtain ⟨_, _, e⟩ := send_ok h
  subst e; rfl

/-- Msg/NonVotingDelegate, when it succeeds: the supply of the validator's share denom rises by exactly the minted amount;
    the ledgers are those after the inner claim -/
theorem delegate_more {s s' : SSt} {u : Addr} {v : Val} {a : Int} {dn : Denom} {x : ShareClass.StakeExt}
    (h : ShareClass.delegate s u v a dn x = .ok s') :
    ∃ s1 t share, ShareClass.claimRewards s u v = .ok (s1, t) ∧ ShareClass.shareByAmount s1 v x.staked a = .ok share
      ∧ s'.bank.sup (ShareClass.shareDenom v) = s1.bank.sup (ShareClass.shareDenom v) + share
      ∧ s'.received = s1.received ∧ s'.claimed = s1.claimed := by
  unfold ShareClass.delegate at h
  by_cases hd : dn ≠ ShareClass.feeDenom
  · simp [hd] at h
  simp only [hd, if_false] at h
  obtain ⟨⟨s1, t⟩, hc, h⟩ := bind_ok h
  obtain ⟨share, hs, h⟩ := bind_ok h
  by_cases ha : a < 0
  · simp [ha] at h
  simp only [ha, if_false] at h
  obtain ⟨b1, h1, h⟩ := bind_ok h
  obtain ⟨b2, h2, h⟩ := bind_ok h
  by_cases hk : x.stakeOk
  swap
  · simp [hk] at h
  simp only [hk, Bool.not_true, Bool.false_eq_true, if_false] at h
  obtain ⟨b3, h3, h⟩ := bind_ok h
  by_cases hsh : share < 0
  · simp [hsh] at h
  simp only [hsh, if_false] at h
  obtain ⟨b5, h5, h⟩ := bind_ok h
  obtain ⟨b6, h6, h⟩ := bind_ok h
  simp only [Res.ok.injEq] at h
  subst h
  refine ⟨s1, t, share, hc, hs, ?_, rfl, rfl⟩
  show b6.sup _ = _
  have e2 : b2.sup (ShareClass.shareDenom v) = b1.sup (ShareClass.shareDenom v) :=
    (C10.swap_frame h2).2 _ (by simp [C10.shareDenom_ne_fee, C10.shareDenom_ne_bond])
  obtain ⟨_, e5⟩ := mint_ok h5
  rw [send_sup h6, e5]
  simp only [addSupply_sup, if_true, credit_sup]
  rw [creditCoins_sup, send_sup h3, e2, send_sup h1]

theorem undelegate_more {s s' : SSt} {u : Addr} {v : Val} {a : Int} {rc : Addr} {x : ShareClass.StakeExt}
    (h : ShareClass.undelegate s u v a rc x = .ok s') :
    ∃ s1 t share, ShareClass.claimRewards s u v = .ok (s1, t) ∧ ShareClass.shareByAmount s1 v x.staked a = .ok share
      ∧ s'.bank.sup (ShareClass.shareDenom v) = s1.bank.sup (ShareClass.shareDenom v) + -share
      ∧ s'.received = s1.received ∧ s'.claimed = s1.claimed := by
  unfold ShareClass.undelegate at h
  by_cases ha : a ≤ 0
  · simp [ha] at h
  simp only [ha, if_false] at h
  obtain ⟨⟨s1, t⟩, hc, h⟩ := bind_ok h
  obtain ⟨share, hs, h⟩ := bind_ok h
  by_cases hsh : share < 0
  · simp [hsh] at h
  simp only [hsh, if_false] at h
  obtain ⟨b1, h1, h⟩ := bind_ok h
  obtain ⟨b2, h2, h⟩ := bind_ok h
  by_cases hk : x.stakeOk
  swap
  · simp [hk] at h
  simp only [hk, Bool.not_true, Bool.false_eq_true, if_false, Res.ok.injEq] at h
  subst h
  refine ⟨s1, t, share, hc, hs, ?_, rfl, rfl⟩
  show (ShareClass.creditCoins b2 ShareClass.moduleAcc x.hook).sup _ = _
  obtain ⟨_, _, e2⟩ := burn_ok h2
  rw [creditCoins_sup, e2]
  simp only [addSupply_sup, if_true, credit_sup]
  rw [send_sup h1]

/-- **sim_setShares**: a store-level change that moves only the share balance of the listed holder `u` (by δ, together with
    the supply), `u` being checkpointed at the multiplier, is ONE admissible abstract `setShares` -/
theorem sim_setShares {s1 s' : SSt} {a1 : ASt} {u : Addr} (δ : Int) (hA : AccsOK accs) (hs : Sim v d accs s1 a1)
    (hu : u ∈ accs) (hm : s'.mult = s1.mult) (hh : s'.hasMult = s1.hasMult) (hl : s'.last = s1.last)
    (hr : s'.received = s1.received) (hc : s'.claimed = s1.claimed)
    (hbu : s'.bank.bal u (ShareClass.shareDenom v) = s1.bank.bal u (ShareClass.shareDenom v) + δ)
    (hbo : ∀ a' v', a' ≠ ShareClass.moduleAcc → (a' ≠ u ∨ v' ≠ v) →
      s'.bank.bal a' (ShareClass.shareDenom v') = s1.bank.bal a' (ShareClass.shareDenom v'))
    (hsup : s'.bank.sup (ShareClass.shareDenom v) = s1.bank.sup (ShareClass.shareDenom v) + δ)
    (hck : s1.last u v d = s1.mult v d) (hnn : 0 ≤ s1.bank.bal u (ShareClass.shareDenom v) + δ) :
    ∃ a', Sim v d accs s' a' := by
  obtain ⟨i, hi⟩ := List.getElem?_of_mem hu
  obtain ⟨hui, _, _⟩ := hs.holder hi
  obtain ⟨cM, cU⟩ := hs.obs
  obtain ⟨_, t2⟩ := setShares_refines s1 s' u v δ accs hA.nodup i hi hA.noMod d hm hl hbu hbo
  have hg : (SCAccrual.Op.setShares i δ).guard a1 :=
    ⟨userOf s1 v d u, hui, by rw [hs.hM]; simp only [userOf, hck], hnn⟩
  refine ⟨SCAccrual.step a1 (.setShares i δ),
    ⟨SCAccrual.ReachableT.step _ hs.reach hg trivial, ?_, ?_, ?_, ?_, wf_of_eq hs.wf hm hh hl, ?_⟩⟩
  · show a1.M = _
    rw [hm]; exact hs.hM
  · rw [← absSC_users, t2]
    exact (step_congr cM cU _).2
  · show a1.recv = _
    rw [hr]; exact hs.hrecv
  · show a1.paid = _
    rw [hc]; exact hs.hpaid
  · show _ = SCAccrual.supply (SCAccrual.modifyAt (fun x => { x with share := x.share + δ }) a1.users i)
    rw [C10Accrual.supply_setShares a1.users i δ _ hui, hsup, hs.hsup]

theorem ok_inj2 {α β} {x x' : α} {y y' : β} (h : (Res.ok (x, y) : Res (α × β)) = .ok (x', y')) : x = x' ∧ y = y' := by
  simp only [Res.ok.injEq, Prod.mk.injEq] at h; exact h

/-- **sim_delegate** (at the validator): a successful NonVotingDelegate of a listed holder is the abstract `claim` followed
    by `setShares (+minted)` -/
theorem sim_delegate {s s' : SSt} {a : ASt} {u : Addr} {n : Int} {dn : Denom} {x : ShareClass.StakeExt} (hA : AccsOK accs)
    (hs : Sim v d accs s a) (h : ShareClass.delegate s u v n dn x = .ok s') (hu : u ∈ accs) :
    ∃ a', Sim v d accs s' a' := by
  have hum : u ≠ ShareClass.moduleAcc := fun e => hA.noMod (e ▸ hu)
  obtain ⟨s1, t, share, hc, hsh, h0, hm, hh, hl, hbu, hbo⟩ := delegate_share h hum
  obtain ⟨s1', t', share', hc', hsh', hsup, hr, hcl⟩ := delegate_more h
  obtain ⟨e1, e2⟩ := ok_inj2 (hc.symm.trans hc')
  subst e1 e2
  have e3 : share = share' := by
    have := hsh.symm.trans hsh'
    simpa using this
  subst e3
  obtain ⟨a1, hs1, hck, hbal⟩ := sim_claim hA hs hc hu
  have hb := (hs1.holder (List.getElem?_of_mem hu).choose_spec).2.1
  exact sim_setShares share hA hs1 hu hm hh hl hr hcl hbu hbo hsup hck (by omega)

/-- **sim_undelegate** (at the validator): the abstract `claim` followed by `setShares (−burnt)` -/
theorem sim_undelegate {s s' : SSt} {a : ASt} {u : Addr} {n : Int} {rc : Addr} {x : ShareClass.StakeExt} (hA : AccsOK accs)
    (hs : Sim v d accs s a) (h : ShareClass.undelegate s u v n rc x = .ok s') (hu : u ∈ accs) :
    ∃ a', Sim v d accs s' a' := by
  have hum : u ≠ ShareClass.moduleAcc := fun e => hA.noMod (e ▸ hu)
  obtain ⟨s1, t, share, hc, hsh, h0, hle, hm, hh, hl, hbu, hbo⟩ := undelegate_share h hum
  obtain ⟨s1', t', share', hc', hsh', hsup, hr, hcl⟩ := undelegate_more h
  obtain ⟨e1, e2⟩ := ok_inj2 (hc.symm.trans hc')
  subst e1 e2
  have e3 : share = share' := by
    have := hsh.symm.trans hsh'
    simpa using this
  subst e3
  obtain ⟨a1, hs1, hck, hbal⟩ := sim_claim hA hs hc hu
  exact sim_setShares (-share) hA hs1 hu hm hh hl hr hcl hbu hbo hsup hck (by omega)

/-- a successful NonVotingDelegate at ANOTHER validator is invisible in the abstraction of `(v, d)` -/
theorem sim_delegate_other {s s' : SSt} {a : ASt} {u : Addr} {w : Val} {n : Int} {dn : Denom} {x : ShareClass.StakeExt}
    (hA : AccsOK accs) (hs : Sim v d accs s a) (h : ShareClass.delegate s u w n dn x = .ok s') (hw : w ≠ v)
    (hum : u ≠ ShareClass.moduleAcc) : Sim v d accs s' a := by
  obtain ⟨s1, t, share, hc, _, _, hr, hcl⟩ := delegate_more h
  obtain ⟨_, _, _, _, _, _, _, hrecv, _, hcl1, _⟩ := C10.claim_ok hc
  have hwf' : C10.WF s' := by
    have := C10.wf_step s (.delegate u w n dn x) hs.wf
    simpa only [ShareClass.step, h] using this
  have hsup : s'.bank.sup (ShareClass.shareDenom v) = s.bank.sup (ShareClass.shareDenom v) := by
    have := C10.share_supply_only_delegate_undelegate s (.delegate u w n dn x) v
      (by intro _ _ _ _ e; injection e with _ e2; exact hw e2) (by intro _ _ _ _ e; cases e)
    simpa only [ShareClass.step, h] using this
  refine hs.transfer_abs (delegate_frame h hum v (fun e => hw e.symm) d accs hA.noMod) (by rw [hr, hrecv]) ?_ hwf' hsup
  rw [hcl, hcl1, addClaimed_apply, if_neg (fun e : v = w => hw e.symm)]

theorem sim_undelegate_other {s s' : SSt} {a : ASt} {u : Addr} {w : Val} {n : Int} {rc : Addr} {x : ShareClass.StakeExt}
    (hA : AccsOK accs) (hs : Sim v d accs s a) (h : ShareClass.undelegate s u w n rc x = .ok s') (hw : w ≠ v)
    (hum : u ≠ ShareClass.moduleAcc) : Sim v d accs s' a := by
  obtain ⟨s1, t, share, hc, _, _, hr, hcl⟩ := undelegate_more h
  obtain ⟨_, _, _, _, _, _, _, hrecv, _, hcl1, _⟩ := C10.claim_ok hc
  have hwf' : C10.WF s' := by
    have := C10.wf_step s (.undelegate u w n rc x) hs.wf
    simpa only [ShareClass.step, h] using this
  have hsup : s'.bank.sup (ShareClass.shareDenom v) = s.bank.sup (ShareClass.shareDenom v) := by
    have := C10.share_supply_only_delegate_undelegate s (.undelegate u w n rc x) v
      (by intro _ _ _ _ e; cases e) (by intro _ _ _ _ e; injection e with _ e2; exact hw e2)
    simpa only [ShareClass.step, h] using this
  refine hs.transfer_abs (undelegate_frame h hum v (fun e => hw e.symm) d accs hA.noMod) (by rw [hr, hrecv]) ?_ hwf' hsup
  rw [hcl, hcl1, addClaimed_apply, if_neg (fun e : v = w => hw e.symm)]

-- ------------------------------------------------------------------------------------------------ rewards
theorem fold_updCoin_received (w : Val) (T : Int) (coins : Coins) : ∀ s0 : SSt,
    (coins.foldl (updCoin w T) s0).received = s0.received := by
  induction coins with
  | nil => intro s0; rfl
  | cons c cs ih => intro s0; simp only [List.foldl]; rw [ih]; rfl

/-- the ledger `received` after `HandleModuleAccountRewardsByValidator`: it grows exactly when the coins were forwarded to
    the reward saver -/
theorem handleRewards_received (s : SSt) (w : Val) (coins : Coins) :
    ((coins.all (fun c => c.2 = 0) = true
        ∨ ∀ b1, ShareClass.sendCoins (ShareClass.creditCoins s.bank ShareClass.moduleAcc coins) ShareClass.moduleAcc
            (ShareClass.saver w) coins ≠ .ok b1) → (ShareClass.handleRewards s w coins).received = s.received)
    ∧ (coins.all (fun c => c.2 = 0) = false →
        ∀ b1, ShareClass.sendCoins (ShareClass.creditCoins s.bank ShareClass.moduleAcc coins) ShareClass.moduleAcc
            (ShareClass.saver w) coins = .ok b1 →
        (ShareClass.handleRewards s w coins).received = ShareClass.addClaimed s.received w coins) := by
  constructor
  · intro h
    unfold ShareClass.handleRewards
    by_cases h0 : coins.all (fun c => c.2 = 0) = true
    · simp only [h0, if_true]
    simp only [h0]
    cases hs : ShareClass.sendCoins (ShareClass.creditCoins s.bank ShareClass.moduleAcc coins) ShareClass.moduleAcc
        (ShareClass.saver w) coins with
    | ok b1 =>
      rcases h with h | h
      · exact absurd h h0
      · exact absurd hs (h b1)
    | err c => simp
    | panic k => simp
  · intro h0 b1 hs
    by_cases hT : s.bank.sup (ShareClass.shareDenom w) = 0
    · have hsup : b1.sup = s.bank.sup := by rw [sendCoins_sup hs, creditCoins_sup]
      unfold ShareClass.handleRewards
      simp [h0, hs, hsup, hT]
    · rw [handleRewards_main s w coins b1 h0 hs hT, fold_updCoin_received]

/-- the abstract counterpart of the multiplier fold of `handleRewards` (coins in order, a denom may occur several times):
    one admissible, tight `reward` per coin of the denom -/
theorem abs_reward_fold (d : Denom) (T : Int) (hT : 0 < T) (coins : Coins) : ∀ (m : D34) (a : ASt),
    SCAccrual.ReachableT SCAccrual.K a → a.M = SCAccrual.valD m → SCAccrual.supply a.users = T → (∀ c ∈ coins, 0 ≤ c.2) →
    ∃ a', SCAccrual.ReachableT SCAccrual.K a' ∧ a'.M = SCAccrual.valD (multFold T d m coins) ∧ a'.users = a.users
      ∧ a'.recv = a.recv + (amt coins d : ℚ) ∧ a'.paid = a.paid := by
  induction coins with
  | nil => intro m a hr hM _ _; exact ⟨a, hr, hM, rfl, by simp [amt], rfl⟩
  | cons c cs ih =>
    intro m a hr hM hsup hnn
    have hnn' : ∀ c' ∈ cs, 0 ≤ c'.2 := fun c' hc => hnn c' (List.mem_cons_of_mem _ hc)
    by_cases hc : c.1 = d
    · have hg := C10Accrual.reward_guard_op a m c.2 T (hnn c List.mem_cons_self) hT (by rw [hM, valD_eq_val]) hsup
      rw [← valD_eq_val] at hg
      have hK : C10Accrual.K = SCAccrual.K := K_eq.symm
      rw [hK] at hg
      obtain ⟨a', r', m', u', rc', p'⟩ := ih (D34.reparse (Gen.KernelsShare.CalculateRewardMultiplierNew m c.2 T))
        (SCAccrual.step a (.reward (c.2 : ℚ) _ ((c.2 : ℚ) / SCAccrual.K))) (SCAccrual.ReachableT.step _ hr hg.1 hg.2) rfl hsup hnn'
      refine ⟨a', r', ?_, u', ?_, p'⟩
      · rw [m']; simp only [multFold, List.foldl, hc, if_true]
      · rw [rc']
        show a.recv + (c.2 : ℚ) + _ = _
        simp only [amt, hc, if_true]; push_cast; ring
    · obtain ⟨a', r', m', u', rc', p'⟩ := ih m a hr hM hsup hnn'
      refine ⟨a', r', ?_, u', ?_, p'⟩
      · rw [m']; simp only [multFold, List.foldl, hc, if_false]
      · rw [rc']; simp only [amt, hc, if_false]; push_cast; ring

/-- **sim_handleRewards**: `HandleModuleAccountRewardsByValidator` for ANY validator `w` and ANY coins (boundary input: what
    x/distribution's withdrawal returned) preserves the simulation.  For `w = v`: nothing (all coins zero / the forwarding
    failed), `rewardNoShares (Σ coins of d)` (no share supply), or one `reward` per coin of denom `d` in order;
    for `w ≠ v` the abstraction of `(v, d)` does not move.  No hypothesis on the coins: negative amounts make the
    forwarding fail, repeated denoms are folded. -/
theorem sim_handleRewards {s : SSt} {a : ASt} (hA : AccsOK accs) (hs : Sim v d accs s a) (w : Val) (coins : Coins) :
    ∃ a', Sim v d accs (ShareClass.handleRewards s w coins) a' := by
  have hsep : (∀ c ∈ coins, c.1 ≠ ShareClass.shareDenom v) ∨ (ShareClass.moduleAcc ∉ accs ∧ ShareClass.saver w ∉ accs) :=
    Or.inr ⟨hA.noMod, hA.noSaver w⟩
  have hwf' := C10.handleRewards_wf s hs.wf w coins
  have hsup' : (ShareClass.handleRewards s w coins).bank.sup (ShareClass.shareDenom v) = s.bank.sup (ShareClass.shareDenom v) := by
    rw [C10.handleRewards_sup]
  have hcl' : (ShareClass.handleRewards s w coins).claimed = s.claimed := (C10.handleRewards_fields s w coins).2.2.2.2.1
  have hU' := reward_users s w coins v d accs hsep
  rw [absSC_users, absSC_users] at hU'
  obtain ⟨rec1, rec2⟩ := handleRewards_received s w coins
  by_cases hw : w = v
  swap
  · -- another validator
    refine ⟨a, hs.transfer_abs (reward_frame s w coins v d accs hsep (Or.inl (fun e => hw e.symm))) ?_ (by rw [hcl']) hwf' hsup'⟩
    by_cases h0 : coins.all (fun c => c.2 = 0) = true
    · rw [rec1 (Or.inl h0)]
    cases hsd : ShareClass.sendCoins (ShareClass.creditCoins s.bank ShareClass.moduleAcc coins) ShareClass.moduleAcc
        (ShareClass.saver w) coins with
    | ok b1 => rw [rec2 (by simpa using h0) b1 hsd, addClaimed_apply, if_neg (fun e : v = w => hw e.symm)]
    | err c => rw [rec1 (Or.inr (fun b1 => by rw [hsd]; simp))]
    | panic k => rw [rec1 (Or.inr (fun b1 => by rw [hsd]; simp))]
  subst hw
  -- the branches without forwarding: nothing moves
  have noFwd : (coins.all (fun c => c.2 = 0) = true
        ∨ ∀ b1, ShareClass.sendCoins (ShareClass.creditCoins s.bank ShareClass.moduleAcc coins) ShareClass.moduleAcc
            (ShareClass.saver w) coins ≠ .ok b1) → ∃ a', Sim w d accs (ShareClass.handleRewards s w coins) a' := by
    intro h
    refine ⟨a, hs.transfer ?_ hU' (by rw [rec1 h]) (by rw [hcl']) hwf' hsup'⟩
    rw [handleRewards_other s w coins (by rcases h with h | h; exact Or.inl h; exact Or.inr (Or.inl h))]
  by_cases h0 : coins.all (fun c => c.2 = 0) = true
  · exact noFwd (Or.inl h0)
  have h0' : coins.all (fun c => c.2 = 0) = false := by simpa using h0
  cases hsd : ShareClass.sendCoins (ShareClass.creditCoins s.bank ShareClass.moduleAcc coins) ShareClass.moduleAcc
      (ShareClass.saver w) coins with
  | err c => exact noFwd (Or.inr (fun b1 => by rw [hsd]; simp))
  | panic k => exact noFwd (Or.inr (fun b1 => by rw [hsd]; simp))
  | ok b1 =>
    have hnn := sendCoins_nonneg coins hsd
    have hrec := rec2 h0' b1 hsd
    have hrecv : ((ShareClass.handleRewards s w coins).received w d : ℚ) = a.recv + (amt coins d : ℚ) := by
      rw [hrec, addClaimed_apply, hs.hrecv]; simp
    by_cases hT : s.bank.sup (ShareClass.shareDenom w) = 0
    · -- no share supply: the coins are forwarded, the multiplier is left alone
      have hg : (SCAccrual.Op.rewardNoShares (amt coins d : ℚ)).guard a := by
        show (0 : ℚ) ≤ _
        exact_mod_cast amt_nonneg coins hnn d
      refine ⟨SCAccrual.step a (.rewardNoShares (amt coins d : ℚ)),
        ⟨SCAccrual.ReachableT.step _ hs.reach hg trivial, ?_, ?_, hrecv.symm, ?_, hwf', ?_⟩⟩
      · show a.M = _
        rw [handleRewards_other s w coins (Or.inr (Or.inr hT))]; exact hs.hM
      · show a.users = _
        rw [hU']; exact hs.hU
      · show a.paid = _
        rw [hcl']; exact hs.hpaid
      · show _ = SCAccrual.supply a.users
        rw [hsup']; exact hs.hsup
    · -- main branch
      have hTpos : 0 < s.bank.sup (ShareClass.shareDenom w) := by
        have : 0 ≤ s.bank.sup (ShareClass.shareDenom w) := by
          rw [hs.hsup]; exact supply_nonneg _ (fun u hu => (hs.inv.wf u hu).1)
        omega
      obtain ⟨a', r', m', u', rc', p'⟩ := abs_reward_fold d _ hTpos coins (s.mult w d) a hs.reach hs.hM hs.hsup.symm hnn
      refine ⟨a', ⟨r', ?_, ?_, ?_, ?_, hwf', ?_⟩⟩
      · rw [m', (reward_mult s w coins b1 h0' hsd hT).1 d]
      · rw [u', hU']; exact hs.hU
      · rw [rc']; exact hrecv.symm
      · rw [p', hcl']; exact hs.hpaid
      · rw [u', hsup']; exact hs.hsup

-- ------------------------------------------------------------------------------------------------ the end-blocker
/-- `WithdrawUnbonded` moves fee/bond tokens only, among the module account, the converter and the recipient -/
theorem withdrawUnbonded_bank {b b' : Bank} {e : ShareClass.Unb} (h : ShareClass.withdrawUnbonded b e = .ok b') :
    (∀ a d', d' ≠ ShareClass.feeDenom → d' ≠ ShareClass.bondDenom → b'.bal a d' = b.bal a d')
    ∧ (∀ a, a ≠ ShareClass.moduleAcc → a ≠ Convert.moduleAcc → a ≠ e.rcpt → ∀ d', b'.bal a d' = b.bal a d') := by
  unfold ShareClass.withdrawUnbonded at h
  obtain ⟨b1, h1, h2⟩ := bind_ok h
  constructor
  · intro a d' hf hb
    rw [send_denom_frame h2 d' hf a, swap_denom_frame h1 d' hb hf a]
  · intro a hm hc hr d'
    rw [(C10.send_frame h2).1 a (by simp [hm, hr]) d', (C10.swap_frame h1).1 a (by simp [hm, hc]) d']

/-- the garbage collector moves fee/bond tokens only, among the module account, the converter and the recipients of the
    entries it looks at -/
theorem gc_bank (now : Int) (l : List ShareClass.Unb) : ∀ (s s' : SSt), ShareClass.gc now l s = .ok s' →
    (∀ a d', d' ≠ ShareClass.feeDenom → d' ≠ ShareClass.bondDenom → s'.bank.bal a d' = s.bank.bal a d')
    ∧ (∀ a, a ≠ ShareClass.moduleAcc → a ≠ Convert.moduleAcc → (∀ e ∈ l, e.rcpt ≠ a) → ∀ d', s'.bank.bal a d' = s.bank.bal a d') := by
  induction l with
  | nil =>
    intro s s' h
    simp only [ShareClass.gc, Res.ok.injEq] at h
    subst h
    exact ⟨fun _ _ _ _ => rfl, fun _ _ _ _ _ => rfl⟩
  | cons e rest ih =>
    intro s s' h
    simp only [ShareClass.gc] at h
    have weaken : ∀ {s0 : SSt}, ((∀ a d', d' ≠ ShareClass.feeDenom → d' ≠ ShareClass.bondDenom → s'.bank.bal a d' = s0.bank.bal a d')
        ∧ (∀ a, a ≠ ShareClass.moduleAcc → a ≠ Convert.moduleAcc → (∀ e ∈ rest, e.rcpt ≠ a) → ∀ d', s'.bank.bal a d' = s0.bank.bal a d')) →
        ((∀ a d', d' ≠ ShareClass.feeDenom → d' ≠ ShareClass.bondDenom → s'.bank.bal a d' = s0.bank.bal a d')
        ∧ (∀ a, a ≠ ShareClass.moduleAcc → a ≠ Convert.moduleAcc → (∀ x ∈ e :: rest, x.rcpt ≠ a) → ∀ d', s'.bank.bal a d' = s0.bank.bal a d')) :=
      fun hh => ⟨hh.1, fun a hm hc hr d' => hh.2 a hm hc (fun x hx => hr x (List.mem_cons_of_mem _ hx)) d'⟩
    by_cases h1 : ShareClass.unixSec e.completion > ShareClass.unixSec now
    · simp only [h1, if_true, Res.ok.injEq] at h
      subst h
      exact ⟨fun _ _ _ _ => rfl, fun _ _ _ _ _ => rfl⟩
    · simp only [h1, if_false] at h
      by_cases h2 : e.completion > now
      · simp only [h2, if_true] at h
        exact weaken (ih s s' h)
      · simp only [h2, if_false] at h
        cases hb : ShareClass.withdrawUnbonded s.bank e with
        | err _ | panic _ =>
          rw [hb] at h
          exact weaken (ih s s' h)
        | ok b =>
          rw [hb] at h
          obtain ⟨i1, i2⟩ := ih _ s' h
          obtain ⟨w1, w2⟩ := withdrawUnbonded_bank hb
          simp only at i1 i2
          refine ⟨fun a d' hf hbd => (i1 a d' hf hbd).trans (w1 a d' hf hbd), fun a hm hc hr d' => ?_⟩
          rw [i2 a hm hc (fun x hx => hr x (List.mem_cons_of_mem _ hx)) d',
            w2 a hm hc (fun e' => hr e List.mem_cons_self e'.symm) d']

theorem sim_rewards_fold (hA : AccsOK accs) (rw : List (Val × Coins)) : ∀ {s : SSt} {a : ASt}, Sim v d accs s a →
    ∃ a', Sim v d accs (rw.foldl (fun s r => ShareClass.handleRewards s r.1 r.2) s) a' := by
  induction rw with
  | nil => intro s a hs; exact ⟨a, hs⟩
  | cons r rw ih =>
    intro s a hs
    obtain ⟨a1, hs1⟩ := sim_handleRewards hA hs r.1 r.2
    exact ih hs1

/-- **sim_block**: the whole end-blocker — the credit of the bond tokens staking released (boundary input `matured`), the
    fold of `HandleModuleAccountRewardsByValidator` over the validators with the coins distribution paid (boundary input
    `rewards`: any list, validators may repeat), then the garbage collector of matured unbondings — preserves the
    simulation -/
theorem sim_block {s s' : SSt} {a : ASt} (hA : AccsOK accs) (hs : Sim v d accs s a) (now m : Int) (rw : List (Val × Coins))
    (h : ShareClass.endBlock s now m rw = .ok s') : ∃ a', Sim v d accs s' a' := by
  unfold ShareClass.endBlock at h
  have hs0 : Sim v d accs { s with bank := s.bank.credit ShareClass.moduleAcc ShareClass.bondDenom m } a := by
    refine hs.transfer rfl ?_ rfl rfl hs.wf rfl
    apply List.map_congr_left
    intro x _
    simp only [userOf, credit_bal, C10.shareDenom_ne_bond v, and_false, if_false]
  obtain ⟨a1, hs1⟩ := sim_rewards_fold hA rw hs0
  obtain ⟨g1, g2, g3, g4, g5, _, _, g8, _, _⟩ := C10.gc_ok now _ _ s' h
  obtain ⟨gb, _⟩ := gc_bank now _ _ s' h
  refine ⟨a1, hs1.transfer (by rw [g1]) ?_ (by rw [g4]) (by rw [g5]) (wf_of_eq hs1.wf g1 g2 g3)
    (g8 _ (by simp [C10.shareDenom_ne_fee, C10.shareDenom_ne_bond]))⟩
  apply List.map_congr_left
  intro x _
  simp only [userOf, g3, gb x _ (C10.shareDenom_ne_fee v) (C10.shareDenom_ne_bond v)]

-- ------------------------------------------------------------------------------------------------ histories
/-- what the simulation asks of one store-level operation, for validator `v` and holder list `accs`:
    the sender of a message AT `v` is listed; the sender of a delegation / undelegation at another validator is not the
    module account of x/shareclass.  Blocks: nothing (all boundary inputs of the end-blocker are arbitrary). -/
def OpOK (v : Val) (accs : List Addr) : ShareClass.Op → Prop
  | .delegate u w _ _ _ => (w = v → u ∈ accs) ∧ (w ≠ v → u ≠ ShareClass.moduleAcc)
  | .undelegate u w _ _ _ => (w = v → u ∈ accs) ∧ (w ≠ v → u ≠ ShareClass.moduleAcc)
  | .claim u w => w = v → u ∈ accs
  | .block _ _ _ => True

/-- **sim_step**: every store-level step (`ShareClass.step`: accepted or rejected message, block) preserves the simulation -/
theorem sim_step {s : SSt} {a : ASt} (hA : AccsOK accs) (hs : Sim v d accs s a) (op : ShareClass.Op) (hop : OpOK v accs op) :
    ∃ a', Sim v d accs (ShareClass.step s op).1 a' := by
  cases op with
  | delegate u w n dn x =>
    simp only [ShareClass.step]
    cases hr : ShareClass.delegate s u w n dn x with
    | ok s' =>
      by_cases hw : w = v
      · subst hw; exact sim_delegate hA hs hr (hop.1 rfl)
      · exact ⟨a, sim_delegate_other hA hs hr hw (hop.2 hw)⟩
    | err c => exact ⟨a, hs⟩
    | panic k => exact ⟨a, hs⟩
  | undelegate u w n rc x =>
    simp only [ShareClass.step]
    cases hr : ShareClass.undelegate s u w n rc x with
    | ok s' =>
      by_cases hw : w = v
      · subst hw; exact sim_undelegate hA hs hr (hop.1 rfl)
      · exact ⟨a, sim_undelegate_other hA hs hr hw (hop.2 hw)⟩
    | err c => exact ⟨a, hs⟩
    | panic k => exact ⟨a, hs⟩
  | claim u w =>
    simp only [ShareClass.step]
    cases hr : ShareClass.claimRewards s u w with
    | ok r =>
      obtain ⟨s', paid⟩ := r
      by_cases hw : w = v
      · subst hw
        obtain ⟨a', h', _⟩ := sim_claim hA hs hr (hop rfl)
        exact ⟨a', h'⟩
      · exact ⟨a, sim_claim_other hs hr hw⟩
    | err c => exact ⟨a, hs⟩
    | panic k => exact ⟨a, hs⟩
  | block now m rw =>
    simp only [ShareClass.step]
    cases hr : ShareClass.endBlock s now m rw with
    | ok s' => exact sim_block hA hs now m rw hr
    | err c => exact ⟨a, hs⟩
    | panic k => exact ⟨a, hs⟩

theorem sim_run_from (hA : AccsOK accs) (ops : List ShareClass.Op) : ∀ {s : SSt} {a : ASt}, Sim v d accs s a →
    (∀ op ∈ ops, OpOK v accs op) → ∃ a', Sim v d accs (ShareClass.run s ops) a' := by
  induction ops with
  | nil => intro s a hs _; exact ⟨a, hs⟩
  | cons op ops ih =>
    intro s a hs hops
    obtain ⟨a1, hs1⟩ := sim_step hA hs op (hops op List.mem_cons_self)
    exact ih hs1 (fun o ho => hops o (List.mem_cons_of_mem _ ho))

-- ------------------------------------------------------------------------------------------------ genesis
/-- boundary assumption on the genesis bank: no share token of validator `v` exists yet (x/shareclass has no genesis
    share state; a share denom is minted only by NonVotingDelegate) -/
structure GenesisOK (b0 : Bank) (v : Val) (accs : List Addr) : Prop where
  noShares : ∀ a ∈ accs, b0.bal a (ShareClass.shareDenom v) = 0
  noSupply : b0.sup (ShareClass.shareDenom v) = 0

/-- the abstract genesis state: `n` holders joined with balance 0 and checkpoint 0 -/
def joinN : Nat → ASt
  | 0 => SCAccrual.init
  | n + 1 => SCAccrual.step (joinN n) (.join 0)

theorem joinN_spec (n : Nat) : SCAccrual.ReachableT SCAccrual.K (joinN n) ∧ (joinN n).M = 0
    ∧ (joinN n).users = List.replicate n ⟨0, 0⟩ ∧ (joinN n).recv = 0 ∧ (joinN n).paid = 0 ∧ (joinN n).slack = 0 := by
  induction n with
  | zero => exact ⟨SCAccrual.ReachableT.init, rfl, rfl, rfl, rfl, rfl⟩
  | succ n ih =>
    obtain ⟨r, m, u, rc, p, sl⟩ := ih
    refine ⟨SCAccrual.ReachableT.step _ r (by show (0 : ℚ) ≤ (joinN n).M; rw [m]) trivial, m, ?_, rc, p, sl⟩
    show (joinN n).users ++ [⟨0, 0⟩] = _
    rw [u, List.replicate_succ']

theorem supply_replicate (n : Nat) : SCAccrual.supply (List.replicate n ⟨0, 0⟩) = 0 := by
  induction n with
  | zero => rfl
  | succ n ih => simp only [List.replicate_succ, SCAccrual.supply, ih]; rfl

theorem valD_zero : SCAccrual.valD D34.zero = 0 := by rw [valD_eq_val, C10.val_zero]

/-- the genesis state of the store-level model is simulated by the abstract genesis state -/
theorem sim_init (b0 : Bank) (hG : GenesisOK b0 v accs) : Sim v d accs (ShareClass.St.init b0) (joinN accs.length) := by
  obtain ⟨r, m, u, rc, p, _⟩ := joinN_spec accs.length
  refine ⟨r, by rw [m]; exact valD_zero.symm, ?_, by rw [rc]; simp [ShareClass.St.init],
    by rw [p]; simp [ShareClass.St.init], fun _ _ _ => ⟨rfl, fun _ => rfl⟩, ?_⟩
  · rw [u]
    symm
    rw [List.eq_replicate_iff]
    refine ⟨by simp, fun x hx => ?_⟩
    obtain ⟨y, hy, rfl⟩ := List.mem_map.mp hx
    show SCAccrual.User.mk (b0.bal y (ShareClass.shareDenom v)) (SCAccrual.valD D34.zero) = _
    rw [hG.noShares y hy, valD_zero]
  · rw [u, supply_replicate]; exact hG.noSupply

/-- **sim_run** (the assembled refinement).  For every genesis bank `b0` without share tokens of `v`, every admissible
    holder list `accs` and EVERY history `ops` of store-level operations (messages — accepted or rejected — and blocks, in
    any order and number) in which each message at `v` is sent by a listed account: the state reached by the store-level
    model is simulated by a state of the accrual abstraction that is reachable by admissible operations with 34-digit
    relative errors. -/
theorem sim_run (b0 : Bank) (v : Val) (d : Denom) (accs : List Addr) (hA : AccsOK accs) (hG : GenesisOK b0 v accs)
    (ops : List ShareClass.Op) (hops : ∀ op ∈ ops, OpOK v accs op) :
    ∃ a, Sim v d accs (ShareClass.run (ShareClass.St.init b0) ops) a :=
  sim_run_from hA ops (sim_init b0 hG) hops

-- ------------------------------------------------------------------------------------------------ store-level corollaries
theorem reachT_K {a : ASt} (h : SCAccrual.ReachableT SCAccrual.K a) : SCAccrual.ReachableT C10Accrual.K a := by
  have e : SCAccrual.K = C10Accrual.K := K_eq
  rw [← e]; exact h

theorem K_pos' : (0 : ℚ) < SCAccrual.K := K_pos

/-- **store_claims_le_received** (rewards are accounted exactly once, store level).  Along EVERY history of the store-level
    model from a genesis without share tokens of `v`, for every reward denom `d`: what the reward saver of `v` paid out to
    claimants in `d` (`claimed v d`) plus the exact total the listed holders can still claim
    (Σ (M − m_u)·share_u over `accs`, M the stored multiplier, m_u the stored checkpoint, share_u the bank balance) is at most
    what the saver received (`received v d`) plus a slack that obeys the bound of `C10Accrual.slack_bound`:
    K²·slack ≤ (2K+1)·received, K = 2·10^33. -/
theorem store_claims_le_received (b0 : Bank) (v : Val) (d : Denom) (accs : List Addr) (hA : AccsOK accs)
    (hG : GenesisOK b0 v accs) (ops : List ShareClass.Op) (hops : ∀ op ∈ ops, OpOK v accs op) :
    ∃ slack : ℚ, 0 ≤ slack
      ∧ SCAccrual.K * SCAccrual.K * slack ≤ (2 * SCAccrual.K + 1) * ((ShareClass.run (ShareClass.St.init b0) ops).received v d : ℚ)
      ∧ ((ShareClass.run (ShareClass.St.init b0) ops).claimed v d : ℚ)
          + SCAccrual.owed (SCAccrual.valD ((ShareClass.run (ShareClass.St.init b0) ops).mult v d))
              (SCAccrual.absSC (ShareClass.run (ShareClass.St.init b0) ops) v d accs).users
        ≤ ((ShareClass.run (ShareClass.St.init b0) ops).received v d : ℚ) + slack := by
  obtain ⟨a, hs⟩ := sim_run b0 v d accs hA hG ops hops
  have h1 := C10Accrual.claims_le_received a (C10Accrual.reachableT_reachable hs.reach)
  have h2 := C10Accrual.slack_bound K_pos' hs.reach
  rw [hs.hpaid, hs.hM, hs.hU, hs.hrecv] at h1
  rw [hs.hrecv] at h2
  exact ⟨a.slack, hs.inv.slackNN, h2, h1⟩

/-- the same without the existential: K²·(claimed + Σ claimable − received) ≤ (2K+1)·received -/
theorem store_claims_le_received_closed (b0 : Bank) (v : Val) (d : Denom) (accs : List Addr) (hA : AccsOK accs)
    (hG : GenesisOK b0 v accs) (ops : List ShareClass.Op) (hops : ∀ op ∈ ops, OpOK v accs op) :
    SCAccrual.K * SCAccrual.K *
        (((ShareClass.run (ShareClass.St.init b0) ops).claimed v d : ℚ)
          + SCAccrual.owed (SCAccrual.valD ((ShareClass.run (ShareClass.St.init b0) ops).mult v d))
              (SCAccrual.absSC (ShareClass.run (ShareClass.St.init b0) ops) v d accs).users
          - ((ShareClass.run (ShareClass.St.init b0) ops).received v d : ℚ))
      ≤ (2 * SCAccrual.K + 1) * ((ShareClass.run (ShareClass.St.init b0) ops).received v d : ℚ) := by
  obtain ⟨slack, _, h2, h3⟩ := store_claims_le_received b0 v d accs hA hG ops hops
  have hK := K_pos'
  have hKK : (0 : ℚ) ≤ SCAccrual.K * SCAccrual.K := by positivity
  refine le_trans (mul_le_mul_of_nonneg_left ?_ hKK) h2
  linarith

/-- **store_paid_le_received** (integer form): as long as the reward saver of `v` received at most 5·10^32 coins of `d`
    (the supply cap is 10^15), the total it paid out never exceeds the total it received -/
theorem store_paid_le_received (b0 : Bank) (v : Val) (d : Denom) (accs : List Addr) (hA : AccsOK accs)
    (hG : GenesisOK b0 v accs) (ops : List ShareClass.Op) (hops : ∀ op ∈ ops, OpOK v accs op)
    (hcap : (ShareClass.run (ShareClass.St.init b0) ops).received v d ≤ 500000000000000000000000000000000) :
    (ShareClass.run (ShareClass.St.init b0) ops).claimed v d ≤ (ShareClass.run (ShareClass.St.init b0) ops).received v d := by
  obtain ⟨a, hs⟩ := sim_run b0 v d accs hA hG ops hops
  exact C10Accrual.paid_le_received_tight a (reachT_K hs.reach) _ _ hs.hpaid hs.hrecv hcap

/-- **store_holders_wf**: in every state of every history, every listed holder has a non-negative share balance and a
    checkpoint not above the multiplier, the ledgers are non-negative, and the bank's supply of the share denom is the sum
    of the listed holders' balances (so the listed accounts are ALL holders) -/
theorem store_holders_wf (b0 : Bank) (v : Val) (d : Denom) (accs : List Addr) (hA : AccsOK accs)
    (hG : GenesisOK b0 v accs) (ops : List ShareClass.Op) (hops : ∀ op ∈ ops, OpOK v accs op) :
    (∀ u ∈ accs, 0 ≤ (ShareClass.run (ShareClass.St.init b0) ops).bank.bal u (ShareClass.shareDenom v)
      ∧ SCAccrual.valD ((ShareClass.run (ShareClass.St.init b0) ops).last u v d)
          ≤ SCAccrual.valD ((ShareClass.run (ShareClass.St.init b0) ops).mult v d))
    ∧ (ShareClass.run (ShareClass.St.init b0) ops).bank.sup (ShareClass.shareDenom v)
        = SCAccrual.supply (SCAccrual.absSC (ShareClass.run (ShareClass.St.init b0) ops) v d accs).users
    ∧ 0 ≤ (ShareClass.run (ShareClass.St.init b0) ops).claimed v d
    ∧ 0 ≤ (ShareClass.run (ShareClass.St.init b0) ops).received v d := by
  obtain ⟨a, hs⟩ := sim_run b0 v d accs hA hG ops hops
  refine ⟨fun u hu => ?_, by rw [hs.hsup, hs.hU]; rfl, ?_, ?_⟩
  · obtain ⟨i, hi⟩ := List.getElem?_of_mem hu
    exact (hs.holder hi).2
  · have := hs.inv.paidNN
    rw [hs.hpaid] at this
    exact_mod_cast this
  · have := C10Accrual.recv_nonneg K_pos' hs.reach
    rw [hs.hrecv] at this
    exact_mod_cast this

-- ------------------------------------------------------------------------------------------------ the saver's bank balance
/-- what the balance theorem asks of one operation: the reward saver of `v` signs no message and is not named as the
    recipient of an undelegation (then it would hold MORE than recv − paid) -/
def OpNoSaver (v : Val) : ShareClass.Op → Prop
  | .delegate u _ _ _ _ => u ≠ ShareClass.saver v
  | .undelegate u _ _ rc _ => u ≠ ShareClass.saver v ∧ rc ≠ ShareClass.saver v
  | .claim u _ => u ≠ ShareClass.saver v
  | .block _ _ _ => True

/-- the saver's balance of `d` is its genesis balance plus the ledger `received` minus the ledger `claimed`; no queued
    unbonding pays to the saver -/
structure SaverInv (b0 : Bank) (v : Val) (d : Denom) (s : SSt) : Prop where
  bal : s.bank.bal (ShareClass.saver v) d = b0.bal (ShareClass.saver v) d + s.received v d - s.claimed v d
  rcpt : ∀ e ∈ s.unb, e.rcpt ≠ ShareClass.saver v

variable {b0 : Bank}

theorem saver_claim {s s1 : SSt} {u : Addr} {w : Val} {t : Coins} (hs : SaverInv b0 v d s)
    (h : ShareClass.claimRewards s u w = .ok (s1, t)) (hu : u ≠ ShareClass.saver v) : SaverInv b0 v d s1 := by
  obtain ⟨_, hsend, _, _, hunb, _, _, hrecv, _, hcl, _⟩ := C10.claim_ok h
  refine ⟨?_, by rw [hunb]; exact hs.rcpt⟩
  rw [hrecv, hcl, addClaimed_apply]
  by_cases hw : v = w
  · subst hw
    rw [(sendCoins_bal t (fun e => hu e.symm) hsend d).1, hs.bal]
    simp only [if_true]; omega
  · have hne : ShareClass.saver v ≠ ShareClass.saver w := fun e => hw (saver_inj e)
    rw [if_neg hw, (C10.sendCoins_frame t hsend).1 (ShareClass.saver v) (by simp [hu.symm, hne]) d]
    exact hs.bal

theorem saver_delegate {s s' : SSt} {u : Addr} {w : Val} {n : Int} {dn : Denom} {x : ShareClass.StakeExt}
    (hs : SaverInv b0 v d s) (h : ShareClass.delegate s u w n dn x = .ok s') (hu : u ≠ ShareClass.saver v) :
    SaverInv b0 v d s' := by
  obtain ⟨s1, t, hc, hf, _, _, _, _, hunb, _, hr, hcl, _⟩ := C10.delegate_ok h
  obtain ⟨b1, r1⟩ := saver_claim hs hc hu
  refine ⟨?_, by rw [hunb]; exact r1⟩
  rw [hr, hcl, hf (ShareClass.saver v) (by simp [hu.symm, saver_ne_module, saver_ne_conv, saver_ne_pool]) d]
  exact b1

theorem saver_undelegate {s s' : SSt} {u : Addr} {w : Val} {n : Int} {rc : Addr} {x : ShareClass.StakeExt}
    (hs : SaverInv b0 v d s) (h : ShareClass.undelegate s u w n rc x = .ok s') (hu : u ≠ ShareClass.saver v)
    (hrc : rc ≠ ShareClass.saver v) : SaverInv b0 v d s' := by
  obtain ⟨s1, t, hc, hf, _, _, _, _, hunb, _, hr, hcl, _⟩ := C10.undelegate_ok h
  obtain ⟨b1, r1⟩ := saver_claim hs hc hu
  refine ⟨?_, ?_⟩
  · rw [hr, hcl, hf (ShareClass.saver v) (by simp [hu.symm, saver_ne_module]) d]
    exact b1
  · rw [hunb]
    intro e he
    rcases List.mem_append.mp he with h1 | h1
    · exact r1 e h1
    · simp only [List.mem_singleton] at h1
      subst h1; exact hrc

theorem handleRewards_bank_ok (s : SSt) (w : Val) (coins : Coins) (b1 : Bank)
    (h0 : coins.all (fun c => c.2 = 0) = false)
    (hsd : ShareClass.sendCoins (ShareClass.creditCoins s.bank ShareClass.moduleAcc coins) ShareClass.moduleAcc
      (ShareClass.saver w) coins = .ok b1) : (ShareClass.handleRewards s w coins).bank = b1 := by
  by_cases hT : s.bank.sup (ShareClass.shareDenom w) = 0
  · have hsup : b1.sup = s.bank.sup := by rw [sendCoins_sup hsd, creditCoins_sup]
    unfold ShareClass.handleRewards
    simp [h0, hsd, hsup, hT]
  · rw [handleRewards_main s w coins b1 h0 hsd hT, (fold_updCoin w _ coins _).1]

theorem saver_handleRewards {s : SSt} (hs : SaverInv b0 v d s) (w : Val) (coins : Coins) :
    SaverInv b0 v d (ShareClass.handleRewards s w coins) := by
  obtain ⟨_, _, hunb, _, hcl, _⟩ := C10.handleRewards_fields s w coins
  obtain ⟨rec1, rec2⟩ := handleRewards_received s w coins
  refine ⟨?_, by rw [hunb]; exact hs.rcpt⟩
  rw [hcl]
  have hcred : (ShareClass.creditCoins s.bank ShareClass.moduleAcc coins).bal (ShareClass.saver v) d
      = s.bank.bal (ShareClass.saver v) d :=
    (C10.creditCoins_frame coins s.bank ShareClass.moduleAcc).1 _ (by simp [saver_ne_module]) d
  by_cases h0 : coins.all (fun c => c.2 = 0) = true
  · have : ShareClass.handleRewards s w coins = s := by unfold ShareClass.handleRewards; simp only [h0, if_true]
    rw [this]; exact hs.bal
  have h0' : coins.all (fun c => c.2 = 0) = false := by simpa using h0
  cases hsd : ShareClass.sendCoins (ShareClass.creditCoins s.bank ShareClass.moduleAcc coins) ShareClass.moduleAcc
      (ShareClass.saver w) coins with
  | ok b1 =>
    rw [handleRewards_bank_ok s w coins b1 h0' hsd, rec2 h0' b1 hsd, addClaimed_apply]
    by_cases hw : v = w
    · subst hw
      rw [(sendCoins_bal coins (module_ne_saver v) hsd d).2, hcred, hs.bal]
      simp only [if_true]; omega
    · have hne : ShareClass.saver v ≠ ShareClass.saver w := fun e => hw (saver_inj e)
      rw [if_neg hw, (C10.sendCoins_frame coins hsd).1 (ShareClass.saver v) (by simp [saver_ne_module, hne]) d, hcred]
      exact hs.bal
  | err c =>
    have hb : (ShareClass.handleRewards s w coins).bank = ShareClass.creditCoins s.bank ShareClass.moduleAcc coins := by
      unfold ShareClass.handleRewards; simp [h0, hsd]
    rw [hb, hcred, rec1 (Or.inr (fun b1 => by rw [hsd]; simp))]; exact hs.bal
  | panic k =>
    have hb : (ShareClass.handleRewards s w coins).bank = ShareClass.creditCoins s.bank ShareClass.moduleAcc coins := by
      unfold ShareClass.handleRewards; simp [h0, hsd]
    rw [hb, hcred, rec1 (Or.inr (fun b1 => by rw [hsd]; simp))]; exact hs.bal

theorem saver_block {s s' : SSt} (hs : SaverInv b0 v d s) (now m : Int) (rw : List (Val × Coins))
    (h : ShareClass.endBlock s now m rw = .ok s') : SaverInv b0 v d s' := by
  unfold ShareClass.endBlock at h
  have hs0 : SaverInv b0 v d { s with bank := s.bank.credit ShareClass.moduleAcc ShareClass.bondDenom m } := by
    refine ⟨?_, hs.rcpt⟩
    show (s.bank.credit ShareClass.moduleAcc ShareClass.bondDenom m).bal _ _ = _
    simp only [credit_bal, saver_ne_module v, false_and, if_false]
    exact hs.bal
  have key : ∀ (l : List (Val × Coins)) (s0 : SSt), SaverInv b0 v d s0 →
      SaverInv b0 v d (l.foldl (fun s r => ShareClass.handleRewards s r.1 r.2) s0) := by
    intro l
    induction l with
    | nil => intro s0 h0; exact h0
    | cons r l ih => intro s0 h0; exact ih _ (saver_handleRewards h0 r.1 r.2)
  have hs1 := key rw _ hs0
  obtain ⟨_, _, _, g4, g5, _, _, _, _, g10⟩ := C10.gc_ok now _ _ s' h
  obtain ⟨_, ga⟩ := gc_bank now _ _ s' h
  refine ⟨?_, fun e he => hs1.rcpt e (g10 e he)⟩
  rw [g4, g5, ga _ (saver_ne_module v) (saver_ne_conv v) (fun e he => hs1.rcpt e (C10.mem_sortIdx e _ he)) d]
  exact hs1.bal

theorem saver_step {s : SSt} (hs : SaverInv b0 v d s) (op : ShareClass.Op) (hop : OpNoSaver v op) :
    SaverInv b0 v d (ShareClass.step s op).1 := by
  cases op with
  | delegate u w n dn x =>
    simp only [ShareClass.step]
    cases hr : ShareClass.delegate s u w n dn x with
    | ok s' => exact saver_delegate hs hr hop
    | err c => exact hs
    | panic k => exact hs
  | undelegate u w n rc x =>
    simp only [ShareClass.step]
    cases hr : ShareClass.undelegate s u w n rc x with
    | ok s' => exact saver_undelegate hs hr hop.1 hop.2
    | err c => exact hs
    | panic k => exact hs
  | claim u w =>
    simp only [ShareClass.step]
    cases hr : ShareClass.claimRewards s u w with
    | ok r => obtain ⟨s', paid⟩ := r; exact saver_claim hs hr hop
    | err c => exact hs
    | panic k => exact hs
  | block now m rw =>
    simp only [ShareClass.step]
    cases hr : ShareClass.endBlock s now m rw with
    | ok s' => exact saver_block hs now m rw hr
    | err c => exact hs
    | panic k => exact hs

theorem saver_run_from (ops : List ShareClass.Op) : ∀ {s : SSt}, SaverInv b0 v d s → (∀ op ∈ ops, OpNoSaver v op) →
    SaverInv b0 v d (ShareClass.run s ops) := by
  induction ops with
  | nil => intro s hs _; exact hs
  | cons op ops ih =>
    intro s hs hops
    exact ih (saver_step hs op (hops op List.mem_cons_self)) (fun o ho => hops o (List.mem_cons_of_mem _ ho))

/-- **store_saver_balance**: along every history in which the reward saver of `v` signs no message and is never named as
    the recipient of an undelegation, for EVERY denom `d` (no hypothesis on the genesis bank, the holder list or the
    boundary inputs): the saver's bank balance of `d` is its genesis balance + `received v d` − `claimed v d`.
    So the ghost ledgers of the store-level model measure exactly the bank flow through the saver, and the saver holds
    precisely recv − paid of the abstraction. -/
theorem store_saver_balance (b0 : Bank) (v : Val) (d : Denom) (ops : List ShareClass.Op) (hops : ∀ op ∈ ops, OpNoSaver v op) :
    (ShareClass.run (ShareClass.St.init b0) ops).bank.bal (ShareClass.saver v) d
      = b0.bal (ShareClass.saver v) d + (ShareClass.run (ShareClass.St.init b0) ops).received v d
        - (ShareClass.run (ShareClass.St.init b0) ops).claimed v d :=
  (saver_run_from ops (s := ShareClass.St.init b0) ⟨by simp [ShareClass.St.init], by simp [ShareClass.St.init]⟩ hops).bal

-- ------------------------------------------------------------------------------------------------ claims are payable
/-- **store_claim_payable**: in every state of every history (hypotheses of `sim_run` and of `store_saver_balance`; the
    saver's genesis balance not negative; at most 5·10^32 coins of `d` received), what a claim of a listed holder `u` at `v`
    would pay in denom `d` (`payOf` = `GetClaimableRewardsByDenom` when `d` is a reward denom the saver holds, else 0) is at
    most the saver's bank balance of `d`: no claim — alone or as the first step of a delegation / undelegation — fails for
    lack of funds. -/
theorem store_claim_payable (b0 : Bank) (v : Val) (d : Denom) (accs : List Addr) (hA : AccsOK accs)
    (hG : GenesisOK b0 v accs) (ops : List ShareClass.Op) (hops : ∀ op ∈ ops, OpOK v accs op)
    (hns : ∀ op ∈ ops, OpNoSaver v op) (hb0 : 0 ≤ b0.bal (ShareClass.saver v) d)
    (hcap : (ShareClass.run (ShareClass.St.init b0) ops).received v d ≤ 500000000000000000000000000000000)
    (u : Addr) (hu : u ∈ accs) :
    payOf (ShareClass.run (ShareClass.St.init b0) ops) u v d
      ≤ (ShareClass.run (ShareClass.St.init b0) ops).bank.bal (ShareClass.saver v) d := by
  obtain ⟨a, hs⟩ := sim_run b0 v d accs hA hG ops hops
  have hbal := store_saver_balance b0 v d ops hns
  generalize ShareClass.run (ShareClass.St.init b0) ops = s at *
  obtain ⟨i, hi⟩ := List.getElem?_of_mem hu
  obtain ⟨hui, hb, hm⟩ := hs.holder hi
  obtain ⟨p0, p1, px⟩ := payOf_bound s u v d hm hb
  have hK := K_pos'
  have hg : (SCAccrual.Op.claim i ((payOf s u v d : ℤ) : ℚ)
      (SCAccrual.accrued (SCAccrual.valD (s.mult v d)) (userOf s v d u) / SCAccrual.K)).guard a :=
    ⟨div_nonneg px hK.le, by exact_mod_cast p0, userOf s v d u, hui, by rw [hs.hM]; exact p1⟩
  have ht : (SCAccrual.Op.claim i ((payOf s u v d : ℤ) : ℚ)
      (SCAccrual.accrued (SCAccrual.valD (s.mult v d)) (userOf s v d u) / SCAccrual.K)).tight SCAccrual.K a := by
    refine ⟨userOf s v d u, hui, ?_⟩
    rw [mul_div_cancel₀ _ (ne_of_gt hK), hs.hM]
  have e : SCAccrual.K = C10Accrual.K := K_eq
  rw [e] at hg ht
  have := C10Accrual.claim_payable_tight a (reachT_K hs.reach) i _ _ hg ht (payOf s u v d)
    (s.received v d - s.claimed v d) (s.received v d) rfl (by rw [hs.hrecv, hs.hpaid]; push_cast; ring) hs.hrecv hcap
  omega

theorem entry_mem {s : SSt} {u : Addr} {v : Val} {d : Denom} {c : Denom × Int} (hc : c ∈ entry s u v d) :
    c = (d, ShareClass.claimableByDenom s u v d) := by
  unfold entry at hc
  split_ifs at hc <;> simp at hc
  exact hc

/-- `GetClaimableRewards` cannot panic when the per-denom amounts are not negative -/
theorem claimable_total (s : SSt) (u : Addr) (v : Val)
    (hf : 0 ≤ ShareClass.claimableByDenom s u v ShareClass.feeDenom)
    (hb : 0 ≤ ShareClass.claimableByDenom s u v ShareClass.bondDenom) :
    ShareClass.claimable s u v = .ok (entry s u v ShareClass.feeDenom ++ entry s u v ShareClass.bondDenom) := by
  have n1 : ¬ ShareClass.claimableByDenom s u v ShareClass.feeDenom < 0 := by omega
  have n2 : ¬ ShareClass.claimableByDenom s u v ShareClass.bondDenom < 0 := by omega
  simp only [ShareClass.claimable, ShareClass.rewardDenoms, List.foldlM]
  unfold entry
  by_cases h1 : s.bank.bal (ShareClass.saver v) ShareClass.feeDenom ≤ 0 <;>
  by_cases h2 : s.bank.bal (ShareClass.saver v) ShareClass.bondDenom ≤ 0 <;>
  by_cases h4 : ShareClass.claimableByDenom s u v ShareClass.feeDenom = 0 <;>
  by_cases h6 : ShareClass.claimableByDenom s u v ShareClass.bondDenom = 0 <;>
  simp [h1, h2, n1, n2, h4, h6, bind, Res.bind, pure]

/-- a sender that holds, for each denom OF THE COINS, at least their total can send them one by one -/
theorem sendCoins_of_funded' (cs : Coins) (b : Bank) (x y : Addr) (hxy : x ≠ y) (hnn : ∀ c ∈ cs, 0 ≤ c.2)
    (hf : ∀ c ∈ cs, amt cs c.1 ≤ b.bal x c.1) : ∃ b1, ShareClass.sendCoins b x y cs = .ok b1 := by
  induction cs generalizing b with
  | nil => exact ⟨b, rfl⟩
  | cons c cs ih =>
    have h0 := hnn c List.mem_cons_self
    have hnn' : ∀ c' ∈ cs, 0 ≤ c'.2 := fun c' hc => hnn c' (List.mem_cons_of_mem _ hc)
    have h1 : c.2 ≤ b.bal x c.1 := by
      have := hf c List.mem_cons_self
      have h2 := amt_nonneg cs hnn' c.1
      simp only [amt, if_true] at this
      omega
    have hs := C10.send_of_funded b x y c.1 c.2 h0 h1
    obtain ⟨b1, hb1⟩ := ih ((b.credit x c.1 (-c.2)).credit y c.1 c.2) hnn' (by
      intro c' hc'
      have := hf c' (List.mem_cons_of_mem _ hc')
      simp only [amt] at this
      simp only [credit_bal, hxy, false_and, if_false, true_and]
      by_cases h : c'.1 = c.1
      · rw [h] at this ⊢; simp at this ⊢; omega
      · have h' : ¬ c.1 = c'.1 := fun e => h e.symm
        simp [h, h'] at this ⊢; omega)
    refine ⟨b1, ?_⟩
    simp only [ShareClass.sendCoins, List.foldlM, hs]
    exact hb1

/-- **store_claim_succeeds**: in every state of every history (hypotheses of `store_claim_payable` for both reward denoms),
    `Keeper.ClaimRewards` of a listed holder SUCCEEDS — no panic on a negative amount, no insufficient-funds error -/
theorem store_claim_succeeds (b0 : Bank) (v : Val) (accs : List Addr) (hA : AccsOK accs)
    (hG : GenesisOK b0 v accs) (ops : List ShareClass.Op) (hops : ∀ op ∈ ops, OpOK v accs op)
    (hns : ∀ op ∈ ops, OpNoSaver v op) (hb0 : ∀ d ∈ ShareClass.rewardDenoms, 0 ≤ b0.bal (ShareClass.saver v) d)
    (hcap : ∀ d ∈ ShareClass.rewardDenoms,
      (ShareClass.run (ShareClass.St.init b0) ops).received v d ≤ 500000000000000000000000000000000)
    (u : Addr) (hu : u ∈ accs) :
    ∃ s' paid, ShareClass.claimRewards (ShareClass.run (ShareClass.St.init b0) ops) u v = .ok (s', paid) := by
  have pay : ∀ d ∈ ShareClass.rewardDenoms, payOf (ShareClass.run (ShareClass.St.init b0) ops) u v d
      ≤ (ShareClass.run (ShareClass.St.init b0) ops).bank.bal (ShareClass.saver v) d :=
    fun d hd => store_claim_payable b0 v d accs hA hG ops hops hns (hb0 d hd) (hcap d hd) u hu
  have nn : ∀ d, 0 ≤ ShareClass.claimableByDenom (ShareClass.run (ShareClass.St.init b0) ops) u v d := by
    intro d
    obtain ⟨w1, _⟩ := store_holders_wf b0 v d accs hA hG ops hops
    obtain ⟨hb, hm⟩ := w1 u hu
    rw [valD_eq_val, valD_eq_val] at hm
    exact (C10Accrual.store_claim_bound _ u v d hm hb).1
  generalize ShareClass.run (ShareClass.St.init b0) ops = s at *
  have hcl := claimable_total s u v (nn _) (nn _)
  have hne : ShareClass.saver v ≠ u := fun e => hA.noSaver v (e ▸ hu)
  obtain ⟨b1, hsend⟩ := sendCoins_of_funded' (entry s u v ShareClass.feeDenom ++ entry s u v ShareClass.bondDenom)
    s.bank (ShareClass.saver v) u hne
    (by
      intro c hc
      rcases List.mem_append.mp hc with h | h <;> (rw [entry_mem h]; exact nn _))
    (by
      intro c hc
      rw [amt_claimable hcl]
      exact pay c.1 (by
        rcases claimable_denoms hcl c hc with h | h <;> simp [ShareClass.rewardDenoms, h]))
  simp only [ShareClass.claimRewards, hcl, Res.bind, hsend]
  exact ⟨_, _, rfl⟩

-- ------------------------------------------------------------------------------------------------ the canonical holder list
/-- senders of the messages at validator `v`, in order of appearance -/
def sendersAt (v : Val) : List ShareClass.Op → List Addr
  | [] => []
  | op :: ops =>
    match op.sender with
    | some (u, w) => if w = v then u :: sendersAt v ops else sendersAt v ops
    | none => sendersAt v ops

/-- the canonical holder list of a history: every account that ever sent a message (delegate, undelegate, claim — accepted
    or rejected) at validator `v`, once.  Every account that ever held the share denom of `v` is among them, because a share
    balance rises only by the sender's own NonVotingDelegate (`store_holders_wf`: the supply is the sum over this list). -/
def holders (v : Val) (ops : List ShareClass.Op) : List Addr := (sendersAt v ops).dedup

theorem mem_sendersAt {v : Val} {ops : List ShareClass.Op} {op : ShareClass.Op} (hop : op ∈ ops) {u : Addr}
    (hs : op.sender = some (u, v)) : u ∈ sendersAt v ops := by
  induction ops with
  | nil => simp at hop
  | cons o os ih =>
    rcases List.mem_cons.mp hop with e | e
    · subst e
      simp only [sendersAt, hs, if_true, List.mem_cons, true_or]
    · have := ih e
      simp only [sendersAt]
      cases hso : o.sender with
      | none => exact this
      | some p =>
        obtain ⟨u', w'⟩ := p
        by_cases hw : w' = v
        · simp only [hw, if_true]; exact List.mem_cons_of_mem _ this
        · simp only [hw, if_false]; exact this

theorem sendersAt_sub {v : Val} {ops : List ShareClass.Op} {u : Addr} (hu : u ∈ sendersAt v ops) :
    ∃ op ∈ ops, ∃ w, op.sender = some (u, w) := by
  induction ops with
  | nil => simp [sendersAt] at hu
  | cons o os ih =>
    simp only [sendersAt] at hu
    cases hso : o.sender with
    | none =>
      rw [hso] at hu
      obtain ⟨op, h1, h2⟩ := ih hu
      exact ⟨op, List.mem_cons_of_mem _ h1, h2⟩
    | some p =>
      obtain ⟨u', w'⟩ := p
      rw [hso] at hu
      by_cases hw : w' = v
      · simp only [hw, if_true, List.mem_cons] at hu
        rcases hu with e | e
        · subst e; exact ⟨o, List.mem_cons_self, w', hso⟩
        · obtain ⟨op, h1, h2⟩ := ih e
          exact ⟨op, List.mem_cons_of_mem _ h1, h2⟩
      · simp only [hw, if_false] at hu
        obtain ⟨op, h1, h2⟩ := ih hu
        exact ⟨op, List.mem_cons_of_mem _ h1, h2⟩

/-- boundary assumption on a history: messages are signed by user accounts — never by the module account of x/shareclass
    or by a reward saver (module-derived addresses without a key) -/
def UserOps (ops : List ShareClass.Op) : Prop :=
  ∀ op ∈ ops, ∀ u w, op.sender = some (u, w) → u ≠ ShareClass.moduleAcc ∧ ∀ w', u ≠ ShareClass.saver w'

theorem holders_ok (v : Val) (ops : List ShareClass.Op) (hU : UserOps ops) :
    AccsOK (holders v ops) ∧ ∀ op ∈ ops, OpOK v (holders v ops) op := by
  refine ⟨⟨List.nodup_dedup _, ?_, ?_⟩, ?_⟩
  · intro h
    obtain ⟨op, h1, w, h2⟩ := sendersAt_sub (List.mem_dedup.mp h)
    exact (hU op h1 _ w h2).1 rfl
  · intro w' h
    obtain ⟨op, h1, w, h2⟩ := sendersAt_sub (List.mem_dedup.mp h)
    exact (hU op h1 _ w h2).2 w' rfl
  · intro op hop
    cases op with
    | delegate u w n dn x =>
      exact ⟨fun e => List.mem_dedup.mpr (mem_sendersAt hop (by rw [← e]; rfl)), fun _ => (hU _ hop u w rfl).1⟩
    | undelegate u w n rc x =>
      exact ⟨fun e => List.mem_dedup.mpr (mem_sendersAt hop (by rw [← e]; rfl)), fun _ => (hU _ hop u w rfl).1⟩
    | claim u w => exact fun e => List.mem_dedup.mpr (mem_sendersAt hop (by rw [← e]; rfl))
    | block now m rw => trivial

/-- **store_claims_le_received_users**: `store_claims_le_received` with the canonical holder list.  Hypotheses: at genesis
    no share token of `v` exists; messages are signed by user accounts.  Nothing is assumed about the boundary inputs of any
    operation (staking results, hook coins, matured amounts, reward coins, block times) nor about the order or success of
    the operations. -/
theorem store_claims_le_received_users (b0 : Bank) (v : Val) (d : Denom)
    (hG0 : (∀ a, b0.bal a (ShareClass.shareDenom v) = 0) ∧ b0.sup (ShareClass.shareDenom v) = 0)
    (ops : List ShareClass.Op) (hU : UserOps ops) :
    ∃ slack : ℚ, 0 ≤ slack
      ∧ SCAccrual.K * SCAccrual.K * slack ≤ (2 * SCAccrual.K + 1) * ((ShareClass.run (ShareClass.St.init b0) ops).received v d : ℚ)
      ∧ ((ShareClass.run (ShareClass.St.init b0) ops).claimed v d : ℚ)
          + SCAccrual.owed (SCAccrual.valD ((ShareClass.run (ShareClass.St.init b0) ops).mult v d))
              (SCAccrual.absSC (ShareClass.run (ShareClass.St.init b0) ops) v d (holders v ops)).users
        ≤ ((ShareClass.run (ShareClass.St.init b0) ops).received v d : ℚ) + slack :=
  store_claims_le_received b0 v d (holders v ops) (holders_ok v ops hU).1 ⟨fun a _ => hG0.1 a, hG0.2⟩ ops
    (holders_ok v ops hU).2

/-- **store_paid_le_received_users**: the integer form with the canonical holder list -/
theorem store_paid_le_received_users (b0 : Bank) (v : Val) (d : Denom)
    (hG0 : (∀ a, b0.bal a (ShareClass.shareDenom v) = 0) ∧ b0.sup (ShareClass.shareDenom v) = 0)
    (ops : List ShareClass.Op) (hU : UserOps ops)
    (hcap : (ShareClass.run (ShareClass.St.init b0) ops).received v d ≤ 500000000000000000000000000000000) :
    (ShareClass.run (ShareClass.St.init b0) ops).claimed v d ≤ (ShareClass.run (ShareClass.St.init b0) ops).received v d :=
  store_paid_le_received b0 v d (holders v ops) (holders_ok v ops hU).1 ⟨fun a _ => hG0.1 a, hG0.2⟩ ops
    (holders_ok v ops hU).2 hcap

-- ------------------------------------------------------------------------------------------------ non-vacuity
/-! A concrete history through both levels: a3 and a4 delegate 50 each at v0, a block forwards a reward of 7 urise to the
    saver (multiplier 0.07), a3 claims (3 urise), a4 undelegates 20 (its inner claim pays 3 urise), a second block brings
    another 5 urise.  All hypotheses of `sim_run`, `store_saver_balance`, `store_claim_payable`, `store_claim_succeeds` hold. -/

def exB0 : Bank := (Bank.empty.credit "a3" "urise" 1000).credit "a4" "urise" 1000

def exOps : List ShareClass.Op :=
  [.delegate "a3" "v0" 50 "urise" ⟨none, true, 0, []⟩,
   .delegate "a4" "v0" 50 "urise" ⟨some 50, true, 0, []⟩,
   .block 5000000000 0 [("v0", [("urise", 7)])],
   .claim "a3" "v0",
   .undelegate "a4" "v0" 20 "a3" ⟨some 100, true, 25000000000, []⟩,
   .block 6000000000 0 [("v0", [("urise", 5)]), ("v1", [("urise", 9)])]]

theorem saver_ne_a (w : Val) (s : String) (cs : List Char) (hs : s.toList = 'a' :: cs) : ShareClass.saver w ≠ s := by
  intro h
  have := congrArg String.toList h
  simp only [ShareClass.saver, String.toList_append] at this
  have h4 : "saver:".toList = ['s','a','v','e','r',':'] := by decide
  rw [h4, hs] at this
  simp at this

theorem exAccsOK : AccsOK ["a3", "a4"] := by
  refine ⟨by decide, by decide, fun w h => ?_⟩
  simp only [List.mem_cons, List.not_mem_nil, or_false] at h
  rcases h with h | h
  · exact saver_ne_a w "a3" ['3'] (by decide) h
  · exact saver_ne_a w "a4" ['4'] (by decide) h

theorem exGenesisOK : GenesisOK exB0 "v0" ["a3", "a4"] := ⟨by decide, by decide⟩

theorem exOpsOK : ∀ op ∈ exOps, OpOK "v0" ["a3", "a4"] op := by
  intro op hop
  simp only [exOps, List.mem_cons, List.not_mem_nil, or_false] at hop
  rcases hop with rfl | rfl | rfl | rfl | rfl | rfl <;> simp [OpOK]

theorem exNoSaver : ∀ op ∈ exOps, OpNoSaver "v0" op := by
  have h3 : "a3" ≠ ShareClass.saver "v0" := fun e => saver_ne_a "v0" "a3" ['3'] (by decide) e.symm
  have h4 : "a4" ≠ ShareClass.saver "v0" := fun e => saver_ne_a "v0" "a4" ['4'] (by decide) e.symm
  intro op hop
  simp only [exOps, List.mem_cons, List.not_mem_nil, or_false] at hop
  rcases hop with rfl | rfl | rfl | rfl | rfl | rfl <;> simp [OpNoSaver, h3, h4]

set_option maxRecDepth 100000 in
/-- the history through both levels: the abstract state that `sim_run` provides has received 12, paid 6, two holders with
    50 and 30 shares; the store-level ledgers, the saver's bank balance and the corollaries agree -/
example : ∃ a, Sim "v0" "urise" ["a3", "a4"] (ShareClass.run (ShareClass.St.init exB0) exOps) a
    ∧ a.recv = 12 ∧ a.paid = 6 ∧ a.users.map (·.share) = [50, 30] ∧ SCAccrual.supply a.users = 80
    ∧ (ShareClass.run (ShareClass.St.init exB0) exOps).bank.bal (ShareClass.saver "v0") "urise" = 6
    ∧ a.paid + SCAccrual.owed a.M a.users ≤ a.recv + a.slack := by
  obtain ⟨a, hs⟩ := sim_run exB0 "v0" "urise" ["a3", "a4"] exAccsOK exGenesisOK exOps exOpsOK
  have h1 : (ShareClass.run (ShareClass.St.init exB0) exOps).received "v0" "urise" = 12 := by decide
  have h2 : (ShareClass.run (ShareClass.St.init exB0) exOps).claimed "v0" "urise" = 6 := by decide
  have h3 : ["a3", "a4"].map (fun x => (ShareClass.run (ShareClass.St.init exB0) exOps).bank.bal x (ShareClass.shareDenom "v0"))
      = [50, 30] := by decide
  have h4 : (ShareClass.run (ShareClass.St.init exB0) exOps).bank.sup (ShareClass.shareDenom "v0") = 80 := by decide
  have h5 := store_saver_balance exB0 "v0" "urise" exOps exNoSaver
  have h6 : exB0.bal (ShareClass.saver "v0") "urise" = 0 := by decide
  refine ⟨a, hs, by rw [hs.hrecv, h1]; norm_num, by rw [hs.hpaid, h2]; norm_num, ?_, by rw [← hs.hsup, h4], ?_,
    C10Accrual.claims_le_received a (C10Accrual.reachableT_reachable hs.reach)⟩
  · rw [hs.hU, List.map_map]; exact h3
  · rw [h5, h6, h1, h2]; rfl

set_option maxRecDepth 100000 in
/-- … and the next claim of a4 is payable and succeeds (`store_claim_succeeds` applies: its hypotheses are satisfiable) -/
example : ∃ s' paid, ShareClass.claimRewards (ShareClass.run (ShareClass.St.init exB0) exOps) "a4" "v0" = .ok (s', paid) :=
  store_claim_succeeds exB0 "v0" ["a3", "a4"] exAccsOK exGenesisOK exOps exOpsOK exNoSaver (by decide) (by decide) "a4" (by decide)

example : UserOps exOps := by
  have h3 := fun w (e : "a3" = ShareClass.saver w) => saver_ne_a w "a3" ['3'] (by decide) e.symm
  have h4 := fun w (e : "a4" = ShareClass.saver w) => saver_ne_a w "a4" ['4'] (by decide) e.symm
  intro op hop u w hs
  simp only [exOps, List.mem_cons, List.not_mem_nil, or_false] at hop
  rcases hop with rfl | rfl | rfl | rfl | rfl | rfl <;> simp [ShareClass.Op.sender] at hs <;>
    (obtain ⟨rfl, rfl⟩ := hs; refine ⟨by decide, fun w' => ?_⟩; first | exact h3 w' | exact h4 w')

example : holders "v0" exOps = ["a3", "a4"] := by decide

end Sunrise.C10RefineRun

#print axioms Sunrise.C10RefineRun.sim_step
#print axioms Sunrise.C10RefineRun.sim_run
#print axioms Sunrise.C10RefineRun.store_claims_le_received
#print axioms Sunrise.C10RefineRun.store_claims_le_received_closed
#print axioms Sunrise.C10RefineRun.store_paid_le_received
#print axioms Sunrise.C10RefineRun.store_holders_wf
#print axioms Sunrise.C10RefineRun.store_saver_balance
#print axioms Sunrise.C10RefineRun.store_claim_payable
#print axioms Sunrise.C10RefineRun.store_claim_succeeds
#print axioms Sunrise.C10RefineRun.store_claims_le_received_users
#print axioms Sunrise.C10RefineRun.store_paid_le_received_users
