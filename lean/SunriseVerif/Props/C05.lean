import SunriseVerif.Lemmas.Dec
import SunriseVerif.Gen.KernelsCL
import SunriseVerif.Spec.C05
import Mathlib.Tactic.Linarith
import Mathlib.Tactic.Ring
/-!
C05 — swap pricing never beats the exact curve.  Theorems about the kernels REGENERATED from
x/liquiditypool/types/math.go and keeper/keeper_swap_helper.go (Gen/KernelsCL.lean).
Quantities are raw 10^18-scaled integers; `x.raw * PREC` etc. state the comparison with the exact
rational value without leaving `Int`.
-/
namespace Sunrise.C05
open Sunrise Dec Sunrise.Gen.KernelsCL

/-- quote-in: next price = cur + ⌊amt/liq⌋ — never above the exact curve, never below cur -/
theorem quoteIn_next_le_exact (cur liq amt : Dec) : S_quoteIn_next_le_exact cur liq amt := by
  unfold S_quoteIn_next_le_exact
  intro hl ha
  have h := quoTruncate_pos_bounds amt liq ha hl
  simp only [GetNextSqrtPriceFromAmountQuoteInRoundingDown, Dec.add]
  constructor <;> linarith [h.1, h.2.2]

/-- quote-in loses less than one ulp of price against the exact curve -/
theorem quoteIn_next_tight (cur liq amt : Dec) : S_quoteIn_next_tight cur liq amt := by
  unfold S_quoteIn_next_tight
  intro hl ha
  have h := quoTruncate_pos_bounds amt liq ha hl
  simp only [GetNextSqrtPriceFromAmountQuoteInRoundingDown, Dec.add]
  linarith [h.2.1]

/-- quote-out: next price = cur − ⌈amt/liq⌉ — the price falls at least as far as the exact curve -/
theorem quoteOut_next_le_exact (cur liq amt : Dec) : S_quoteOut_next_le_exact cur liq amt := by
  unfold S_quoteOut_next_le_exact
  intro hl ha
  have h := quoRoundUp_pos_bounds amt liq ha hl
  simp only [GetNextSqrtPriceFromAmountQuoteOutRoundingDown, Dec.sub]
  constructor <;> linarith [h.1, h.2.2]

/-- base-in: next = ⌈⌈L·P⌉ / (L + ⌊a·P⌋)⌉ ≥ exact L·P/(L + a·P) (stated cross-multiplied) -/
theorem baseIn_next_ge_exact (cur liq amt : Dec) : S_baseIn_next_ge_exact cur liq amt := by
  unfold S_baseIn_next_ge_exact
  intro hc hl ha
  have hz : amt.isZero = false := by simp [Dec.isZero]; omega
  simp only [GetNextSqrtPriceFromAmountBaseInRoundingUp, hz, Bool.false_eq_true, if_false]
  have hac : 0 ≤ amt.raw * cur.raw := Int.mul_nonneg (le_of_lt ha) (le_of_lt hc)
  have hlc : 0 ≤ liq.raw * cur.raw := Int.mul_nonneg (le_of_lt hl) (le_of_lt hc)
  have hT := mulTruncate_nonneg_bounds amt cur hac
  have hU := mulRoundUp_nonneg_bounds liq cur hlc
  set T := (mulTruncate amt cur) with hTd
  set U := (mulRoundUp liq cur) with hUd
  have hden : 0 < (Dec.add T liq).raw := by simp only [Dec.add]; linarith [hT.2.2]
  have hQ := quoRoundUp_pos_bounds U (Dec.add T liq) hU.2.2 hden
  set N := (quoRoundUp U (Dec.add T liq)) with hNd
  simp only [Dec.add] at hQ hden
  -- N·(T+L) ≥ U·PREC,  U·PREC ≥ L·P,  PREC·T ≤ a·P,  N ≥ 0
  have e1 : N.raw * (liq.raw * PREC + amt.raw * cur.raw) ≥ N.raw * (PREC * (T.raw + liq.raw)) := by
    apply Int.mul_le_mul_of_nonneg_left _ hQ.2.2
    linarith [hT.1]
  have e2 : N.raw * (PREC * (T.raw + liq.raw)) = PREC * (N.raw * (T.raw + liq.raw)) := by ring
  have e3 : PREC * (N.raw * (T.raw + liq.raw)) ≥ PREC * (U.raw * PREC) :=
    Int.mul_le_mul_of_nonneg_left hQ.1 (by decide)
  have e4 : PREC * (U.raw * PREC) = (PREC * U.raw) * PREC := by ring
  have e5 : (PREC * U.raw) * PREC ≥ (liq.raw * cur.raw) * PREC :=
    Int.mul_le_mul_of_nonneg_right hU.1 (by decide)
  linarith

/-- base-out: next = ⌈⌈L·P⌉ / (L − ⌈P·a⌉)⌉ ≥ exact L·P/(L − a·P) whenever the denominator stays positive -/
theorem baseOut_next_ge_exact (cur liq amt : Dec) : S_baseOut_next_ge_exact cur liq amt := by
  unfold S_baseOut_next_ge_exact
  intro hc hl ha hden
  have hz : amt.isZero = false := by simp [Dec.isZero]; omega
  simp only [GetNextSqrtPriceFromAmountBaseOutRoundingUp, hz, Bool.false_eq_true, if_false]
  have hca : 0 ≤ cur.raw * amt.raw := Int.mul_nonneg (le_of_lt hc) (le_of_lt ha)
  have hlc : 0 ≤ liq.raw * cur.raw := Int.mul_nonneg (le_of_lt hl) (le_of_lt hc)
  have hR := mulRoundUp_nonneg_bounds cur amt hca
  have hU := mulRoundUp_nonneg_bounds liq cur hlc
  set R := (mulRoundUp cur amt) with hRd
  set U := (mulRoundUp liq cur) with hUd
  have hQ := quoRoundUp_pos_bounds U (Dec.sub liq R) hU.2.2 hden
  set N := (quoRoundUp U (Dec.sub liq R)) with hNd
  simp only [Dec.sub] at hQ hden
  have e1 : N.raw * (PREC * (liq.raw - R.raw)) ≤ N.raw * (liq.raw * PREC - amt.raw * cur.raw) ∨ True := Or.inr trivial
  -- PREC·(L − R) ≤ L·PREC − a·P  (R rounded up), so N·(L·PREC − a·P) ≥ N·PREC·(L−R) ≥ U·PREC·PREC ≥ L·P·PREC
  have f1 : N.raw * (liq.raw * PREC - amt.raw * cur.raw) ≥ N.raw * (PREC * (liq.raw - R.raw)) := by
    apply Int.mul_le_mul_of_nonneg_left _ hQ.2.2
    linarith [hR.1]
  have f2 : N.raw * (PREC * (liq.raw - R.raw)) = PREC * (N.raw * (liq.raw - R.raw)) := by ring
  have f3 : PREC * (N.raw * (liq.raw - R.raw)) ≥ PREC * (U.raw * PREC) :=
    Int.mul_le_mul_of_nonneg_left hQ.1 (by decide)
  have f4 : PREC * (U.raw * PREC) = (PREC * U.raw) * PREC := by ring
  have f5 : (PREC * U.raw) * PREC ≥ (liq.raw * cur.raw) * PREC :=
    Int.mul_le_mul_of_nonneg_right hU.1 (by decide)
  linarith

/-- quote delta charged to the trader (roundUp = true): an integer number of units, ≥ exact − ½ulp -/
theorem quoteDelta_up_ge_exact (liq a b : Dec) : S_quoteDelta_up_ge_exact liq a b := by
  unfold S_quoteDelta_up_ge_exact
  intro hl
  simp only [CalcAmountQuoteDelta, if_true]
  have hd : 0 ≤ (Dec.abs (Dec.sub b a)).raw := abs_raw_nonneg _
  have hp : 0 ≤ (Dec.abs (Dec.sub b a)).raw * liq.raw := Int.mul_nonneg hd hl
  have hM := mul_nonneg_bounds (Dec.abs (Dec.sub b a)) liq hp
  have hC := ceil_nonneg_bounds (Dec.mul (Dec.abs (Dec.sub b a)) liq) hM.2.2
  refine ⟨?_, hC.2.2⟩
  have : PREC * (Dec.mul (Dec.abs (Dec.sub b a)) liq).raw ≤ PREC * (Dec.ceil (Dec.mul (Dec.abs (Dec.sub b a)) liq)).raw :=
    Int.mul_le_mul_of_nonneg_left hC.1 (by decide)
  linarith [hM.2.1]

/-- quote delta paid to the trader (roundUp = false): ≤ exact + ½ulp -/
theorem quoteDelta_down_le_exact (liq a b : Dec) : S_quoteDelta_down_le_exact liq a b := by
  unfold S_quoteDelta_down_le_exact
  intro hl
  simp only [CalcAmountQuoteDelta, Bool.false_eq_true, if_false]
  have hd : 0 ≤ (Dec.abs (Dec.sub b a)).raw := abs_raw_nonneg _
  have hp : 0 ≤ (Dec.abs (Dec.sub b a)).raw * liq.raw := Int.mul_nonneg hd hl
  have hM := mul_nonneg_bounds (Dec.abs (Dec.sub b a)) liq hp
  exact ⟨hM.1, hM.2.2⟩

/-- fee multiplier f/(1−f) is rounded up -/
theorem feeRatio_ge_exact (f : Dec) : S_feeRatio_ge_exact f := by
  unfold S_feeRatio_ge_exact
  intro h0 h1
  have hb : 0 < (Dec.sub Dec.one f).raw := by simp only [Dec.sub, Dec.one]; omega
  have h := quoRoundUp_pos_bounds f (Dec.sub Dec.one f) h0 hb
  simp only [getFeeRateOverOneMinusFeeRate]
  simp only [Dec.sub, Dec.one] at h ⊢
  exact ⟨h.1, h.2.2⟩

/-- the fee charged on a consumed input is rounded up: fee ≥ in · ratio -/
theorem feeCharge_ge_exact (amountIn ratio : Dec) : S_feeCharge_ge_exact amountIn ratio := by
  unfold S_feeCharge_ge_exact
  intro ha hr
  have h := mulRoundUp_nonneg_bounds amountIn ratio (Int.mul_nonneg ha hr)
  simp only [computeFeeChargeFromInAmount]
  exact ⟨h.1, h.2.2⟩

/-- per-step fee: never negative when the step function does not panic; zero fee rate ⇒ zero fee;
    a step that stops short of the target charges exactly the unconsumed remainder -/
theorem stepFee_cases (reached : Bool) (amountIn remaining fee : Dec) : S_stepFee_cases reached amountIn remaining fee := by
  unfold S_stepFee_cases
  intro hok
  unfold computeFeeChargePerSwapStepOutGivenIn_ok at hok
  unfold computeFeeChargePerSwapStepOutGivenIn
  by_cases hz : fee.isZero = true
  · simp only [hz, if_true]
    have : fee.raw = 0 := by simpa [Dec.isZero] using hz
    simp [Dec.zero, this]
  · have hz' : fee.isZero = false := by simpa using hz
    have hne : fee.raw ≠ 0 := by simpa [Dec.isZero] using hz'
    simp only [hz', Bool.false_eq_true, if_false] at hok ⊢
    by_cases hn : fee.isNegative = true
    · simp [hn] at hok
    · have hn' : fee.isNegative = false := by simpa using hn
      simp only [hn', Bool.false_eq_true, if_false] at hok ⊢
      cases reached
      · simp only [Bool.false_eq_true, if_false] at hok ⊢
        by_cases hneg : (Dec.sub remaining amountIn).isNegative = true
        · simp [hneg] at hok
        · have : (Dec.sub remaining amountIn).isNegative = false := by simpa using hneg
          simp only [this, Bool.false_eq_true, if_false]
          have h0 : 0 ≤ (Dec.sub remaining amountIn).raw := by
            simpa [Dec.isNegative] using this
          refine ⟨h0, fun h => absurd h hne, fun _ _ => by simp [Dec.sub]⟩
      · simp only [if_true] at hok ⊢
        by_cases hneg : (computeFeeChargeFromInAmount amountIn (getFeeRateOverOneMinusFeeRate fee)).isNegative = true
        · simp [hneg] at hok
        · have : (computeFeeChargeFromInAmount amountIn (getFeeRateOverOneMinusFeeRate fee)).isNegative = false := by simpa using hneg
          simp only [this, Bool.false_eq_true, if_false]
          have h0 : 0 ≤ (computeFeeChargeFromInAmount amountIn (getFeeRateOverOneMinusFeeRate fee)).raw := by
            simpa [Dec.isNegative] using this
          exact ⟨h0, fun h => absurd h hne, fun _ h => by simp at h⟩

/-- target price is clamped to the swap's price limit on the correct side -/
theorem target_clamped_bfq (lim fee p : Dec) : S_target_clamped_bfq lim fee p := by
  unfold S_target_clamped_bfq
  unfold bfq_GetSqrtTargetPrice; split
  · exact le_refl _
  · rename_i h; simp only [Dec.lt, decide_eq_true_eq, not_lt] at h; exact h

theorem target_clamped_qfb (lim fee p : Dec) : S_target_clamped_qfb lim fee p := by
  unfold S_target_clamped_qfb
  unfold qfb_GetSqrtTargetPrice; split
  · exact le_refl _
  · rename_i h; simp only [Dec.gt, decide_eq_true_eq, not_lt] at h; exact h

/-- price-limit validation: accepted limits lie between the bound and the current price, on the trade's side -/
theorem validate_bfq (lim fee p cur : Dec) : S_validate_bfq lim fee p cur := by
  unfold S_validate_bfq
  intro h
  unfold bfq_ValidateSqrtPrice_err at h
  split at h
  · simp at h
  · rename_i hc
    simp only [Dec.gt, Dec.lt, Bool.or_eq_true, decide_eq_true_eq, not_or, not_lt] at hc
    exact ⟨hc.2, hc.1⟩

theorem validate_qfb (lim fee p cur : Dec) : S_validate_qfb lim fee p cur := by
  unfold S_validate_qfb
  intro h
  unfold qfb_ValidateSqrtPrice_err at h
  split at h
  · simp at h
  · rename_i hc
    simp only [Dec.gt, Dec.lt, Bool.or_eq_true, decide_eq_true_eq, not_or, not_lt] at hc
    exact ⟨hc.1, hc.2⟩

/-! ### bucket steps (keeper_swap_helper.go), regenerated -/

theorem bfq_outGivenIn_reaches (lim fee cur tgt liq rem : Dec) : S_bfq_outGivenIn_reaches lim fee cur tgt liq rem := by
  unfold S_bfq_outGivenIn_reaches
  intro h
  have he : Dec.equal tgt tgt = true := by simp [Dec.equal]
  simp only [bfq_ComputeSwapWithinBucketOutGivenIn, h, if_true, he, Bool.not_true, Bool.false_eq_true, if_false, and_self]

theorem qfb_outGivenIn_reaches (lim fee cur tgt liq rem : Dec) : S_qfb_outGivenIn_reaches lim fee cur tgt liq rem := by
  unfold S_qfb_outGivenIn_reaches
  intro h
  have he : Dec.equal tgt tgt = true := by simp [Dec.equal]
  simp only [qfb_ComputeSwapWithinBucketOutGivenIn, h, if_true, he, Bool.not_true, Bool.false_eq_true, if_false, and_self]

theorem bfq_inGivenOut_reaches (lim fee cur tgt liq rem : Dec) : S_bfq_inGivenOut_reaches lim fee cur tgt liq rem := by
  unfold S_bfq_inGivenOut_reaches
  intro h
  have he : Dec.equal tgt tgt = true := by simp [Dec.equal]
  simp only [bfq_ComputeSwapWithinBucketInGivenOut, h, if_true, he, Bool.not_true, Bool.false_eq_true, if_false]
  split <;> simp

theorem qfb_inGivenOut_reaches (lim fee cur tgt liq rem : Dec) : S_qfb_inGivenOut_reaches lim fee cur tgt liq rem := by
  unfold S_qfb_inGivenOut_reaches
  intro h
  have he : Dec.equal tgt tgt = true := by simp [Dec.equal]
  simp only [qfb_ComputeSwapWithinBucketInGivenOut, h, if_true, he, Bool.not_true, Bool.false_eq_true, if_false]
  split <;> simp
theorem qfb_outGivenIn_direction (lim fee cur tgt liq rem : Dec) : S_qfb_outGivenIn_direction lim fee cur tgt liq rem := by
  unfold S_qfb_outGivenIn_direction
  intro hl hr hf0 hf1 h
  have hone : 0 ≤ (Dec.sub Dec.one fee).raw := by simp only [Dec.sub, Dec.one]; omega
  have hprod : 0 ≤ rem.raw * (Dec.sub Dec.one fee).raw := Int.mul_nonneg hr hone
  have ha := (mul_nonneg_bounds rem (Dec.sub Dec.one fee) hprod).2.2
  have hq := quoteIn_next_le_exact cur liq (Dec.mul rem (Dec.sub Dec.one fee))
  unfold S_quoteIn_next_le_exact at hq
  have hdir := (hq hl ha).2
  simp only [qfb_ComputeSwapWithinBucketOutGivenIn, h, Bool.false_eq_true, if_false]
  split <;> exact hdir

theorem bfq_inGivenOut_out_le_remaining (lim fee cur tgt liq rem : Dec) : S_bfq_inGivenOut_out_le_remaining lim fee cur tgt liq rem := by
  unfold S_bfq_inGivenOut_out_le_remaining
  simp only [bfq_ComputeSwapWithinBucketInGivenOut]
  split <;> split <;> (try split) <;> simp_all [Dec.gt] <;> omega

theorem qfb_inGivenOut_out_le_remaining (lim fee cur tgt liq rem : Dec) : S_qfb_inGivenOut_out_le_remaining lim fee cur tgt liq rem := by
  unfold S_qfb_inGivenOut_out_le_remaining
  simp only [qfb_ComputeSwapWithinBucketInGivenOut]
  split <;> split <;> (try split) <;> simp_all [Dec.gt] <;> omega

/-- non-vacuity: concrete operands meeting the hypotheses above -/
example : (0:Int) < (⟨2 * PREC⟩ : Dec).raw ∧ (0:Int) < (⟨5 * PREC⟩ : Dec).raw := by decide
example : computeFeeChargePerSwapStepOutGivenIn_ok false ⟨3 * PREC⟩ ⟨4 * PREC⟩ ⟨3000000000000000⟩ = true := by decide

end Sunrise.C05
