import SunriseVerif.Lemmas.Lockup
import SunriseVerif.Spec.C12
import SunriseVerif.Props.C13
import Mathlib.Tactic.Linarith
/-!
C12 — lockup accounts never release locked funds early.
Part 1: theorems about the kernels REGENERATED from the two `lockup.go` / `continuous_locking_account.go` files
(Gen/KernelsLockup.lean), for both packages (`sd : Bool`).
Part 2: state-machine theorems over Model/Lockup.lean by induction over unbounded operation lists.
-/
set_option linter.unusedSimpArgs false
set_option linter.unusedVariables false
namespace Sunrise.C12
open Sunrise Sunrise.Lockup Sunrise.Gen.KernelsLockup

/-! ## Part 1 — kernels -/

theorem trackDel_split (sd : Bool) (locked dv amt : Int) : S_trackDel_split sd locked dv amt := by
  unfold S_trackDel_split
  cases sd <;> simp [vOf, kDelX, kDelY, nv_trackDel_x, nv_trackDel_y, sd_trackDel_x, sd_trackDel_y] <;> omega

theorem trackDel_bound (sd : Bool) (locked dv amt : Int) : S_trackDel_bound sd locked dv amt := by
  unfold S_trackDel_bound
  intro h
  cases sd <;> simp only [vOf, kDelX, nv_trackDel_x, sd_trackDel_x, Bool.false_eq_true, if_false, if_true] <;> omega

theorem trackDel_lockedFirst (sd : Bool) (locked dv amt : Int) : S_trackDel_lockedFirst sd locked dv amt := by
  unfold S_trackDel_lockedFirst
  intro h
  cases sd <;> simp only [vOf, kDelX, nv_trackDel_x, sd_trackDel_x, Bool.false_eq_true, if_false, if_true] <;> omega

theorem trackUndel_bounds (sd : Bool) (df dv amt : Int) : S_trackUndel_bounds sd df dv amt := by
  unfold S_trackUndel_bounds
  intro h1 h2 h3
  cases sd <;> simp only [vOf, kUndelX, kUndelY, nv_trackUndel_x, nv_trackUndel_y, sd_trackUndel_x, sd_trackUndel_y,
    Bool.false_eq_true, if_false, if_true] <;> omega

theorem track_coinArith (sd : Bool) (a b : Int) : S_track_coinArith sd a b := by
  unfold S_track_coinArith
  cases sd <;> simp [vOf, kDelNewDV, kDelNewDF, kUndelNewDF, kUndelNewDV, nv_trackDel_newDV, nv_trackDel_newDF,
    nv_trackUndel_newDF, nv_trackUndel_newDV, sd_trackDel_newDV, sd_trackDel_newDF, sd_trackUndel_newDF, sd_trackUndel_newDV]

theorem notBonded_eq (sd : Bool) (locked dv : Int) : S_notBonded sd locked dv := by
  unfold S_notBonded
  intro h1 h2
  cases sd <;> simp only [vOf, notBondedLocked, kNotBondedLocked, kNotBondedX, nv_notBonded_locked, nv_notBonded_x,
    sd_notBonded_locked, sd_notBonded_x, Bool.false_eq_true, if_false, if_true] <;> omega

/-- the generated `unlockedAmt ∘ s` is `round(ol · round18(x/y))` for both packages -/
theorem unlocked_eq (sd : Bool) (ol x y : Int) (ho : 0 ≤ ol) (hx : 0 ≤ x) (hy : 0 < y) :
    kUnlockedAmt (vOf sd) ol (kS (vOf sd) x y) = Dec.chopRoundNN (ol * Dec.ratioRaw x y) := by
  have hs := Dec.quo_ofInt_raw x y hx hy
  have hn := Dec.ratioRaw_nonneg x y hx hy
  cases sd <;>
    simp only [vOf, kUnlockedAmt, kS, nv_sched_unlockedAmt, nv_sched_s, sd_sched_unlockedAmt, sd_sched_s,
      Bool.false_eq_true, if_false, if_true] <;>
    rw [Dec.scaled_round ol _ ho (by rw [hs]; exact hn), hs]

theorem unlocked_bounds (sd : Bool) (ol x y : Int) : S_unlocked_bounds sd ol x y := by
  unfold S_unlocked_bounds
  intro ho hx hxy hy
  rw [unlocked_eq sd ol x y ho hx hy]
  have hn := Dec.ratioRaw_nonneg x y hx hy
  have hl := Dec.ratioRaw_le_one x y hx hxy hy
  have h0 : 0 ≤ ol * Dec.ratioRaw x y := Int.mul_nonneg ho hn
  refine ⟨Dec.chopRoundNN_nonneg h0, ?_⟩
  have : ol * Dec.ratioRaw x y ≤ ol * PREC := Int.mul_le_mul_of_nonneg_left hl ho
  calc Dec.chopRoundNN (ol * Dec.ratioRaw x y) ≤ Dec.chopRoundNN (ol * PREC) := Dec.chopRoundNN_mono h0 this
    _ = ol := Dec.chopRoundNN_whole ol ho

theorem unlocked_mono (sd : Bool) (ol x1 x2 y : Int) : S_unlocked_mono sd ol x1 x2 y := by
  unfold S_unlocked_mono
  intro ho hx h12 hy
  rw [unlocked_eq sd ol x1 y ho hx hy, unlocked_eq sd ol x2 y ho (by omega) hy]
  have hn := Dec.ratioRaw_nonneg x1 y hx hy
  exact Dec.chopRoundNN_mono (Int.mul_nonneg ho hn)
    (Int.mul_le_mul_of_nonneg_left (Dec.ratioRaw_mono x1 x2 y hx h12 hy) ho)

theorem unlocked_ends (sd : Bool) (ol y : Int) : S_unlocked_ends sd ol y := by
  unfold S_unlocked_ends
  intro ho hy
  rw [unlocked_eq sd ol 0 y ho (by omega) hy, unlocked_eq sd ol y y ho (by omega) hy, Dec.ratioRaw_zero, Dec.ratioRaw_self y hy]
  constructor
  · simp [Dec.chopRoundNN]
  · exact Dec.chopRoundNN_whole ol ho

/-- the value the schedule computes inside the window -/
def U (ol s e t : Int) : Int := Dec.chopRoundNN (ol * Dec.ratioRaw (Time.unix t - Time.unix s) (Time.unix e - Time.unix s))

theorem U_range (ol s e t : Int) (ho : 0 ≤ ol) (h1 : s ≤ t) (h2 : t ≤ e) (hy : Time.unix s < Time.unix e) :
    0 ≤ U ol s e t ∧ U ol s e t ≤ ol := by
  have hx : 0 ≤ Time.unix t - Time.unix s := by have := Time.unix_mono h1; omega
  have hxy : Time.unix t - Time.unix s ≤ Time.unix e - Time.unix s := by have := Time.unix_mono h2; omega
  have := unlocked_bounds false ol _ _ ho hx hxy (by omega : 0 < Time.unix e - Time.unix s)
  rw [unlocked_eq false ol _ _ ho hx (by omega)] at this
  exact this

theorem U_mono (ol s e t1 t2 : Int) (ho : 0 ≤ ol) (h1 : s ≤ t1) (h12 : t1 ≤ t2) (hy : Time.unix s < Time.unix e) :
    U ol s e t1 ≤ U ol s e t2 := by
  have hx : 0 ≤ Time.unix t1 - Time.unix s := by have := Time.unix_mono h1; omega
  have hx2 : Time.unix t1 - Time.unix s ≤ Time.unix t2 - Time.unix s := by have := Time.unix_mono h12; omega
  have := unlocked_mono false ol _ _ _ ho hx hx2 (by omega : 0 < Time.unix e - Time.unix s)
  rw [unlocked_eq false ol _ _ ho hx (by omega), unlocked_eq false ol _ _ ho (by omega) (by omega)] at this
  exact this

/-- complete case analysis of `GetLockCoinInfoWithDenom` (both packages) -/
theorem lockInfo_cases (sd : Bool) (ol s e t : Int) (ho : 0 ≤ ol) :
    (t < s ∧ lockInfo (vOf sd) ol s e t = .ok (0, ol))
    ∨ (s ≤ t ∧ e < t ∧ lockInfo (vOf sd) ol s e t = .ok (ol, 0))
    ∨ (s ≤ t ∧ t ≤ e ∧ Time.unix s = Time.unix e ∧ lockInfo (vOf sd) ol s e t = .panic .divZero)
    ∨ (s ≤ t ∧ t ≤ e ∧ Time.unix s < Time.unix e ∧ lockInfo (vOf sd) ol s e t = .ok (U ol s e t, ol - U ol s e t)) := by
  by_cases hb : t < s
  · left
    refine ⟨hb, ?_⟩
    cases sd <;> simp [lockInfo, vOf, kBeforeStart, nv_sched_beforeStart, sd_sched_beforeStart, hb]
  · have hs : s ≤ t := by omega
    have hb' : ¬ s > t := by omega
    by_cases ha : e < t
    · right; left
      refine ⟨hs, ha, ?_⟩
      cases sd <;> simp [lockInfo, vOf, kBeforeStart, kAfterEnd, nv_sched_beforeStart, sd_sched_beforeStart,
        nv_sched_afterEnd, sd_sched_afterEnd, hb', ha]
    · have he : t ≤ e := by omega
      have hse := Time.unix_mono (Int.le_trans hs he)
      by_cases hy : Time.unix s = Time.unix e
      · right; right; left
        refine ⟨hs, he, hy, ?_⟩
        cases sd <;> simp [lockInfo, vOf, kBeforeStart, kAfterEnd, kY, nv_sched_beforeStart, sd_sched_beforeStart,
          nv_sched_afterEnd, sd_sched_afterEnd, nv_sched_y, sd_sched_y, hb', ha, hy, Dec.isZero, Dec.ofInt]
      · right; right; right
        have hlt : Time.unix s < Time.unix e := by omega
        refine ⟨hs, he, hlt, ?_⟩
        have hx : 0 ≤ Time.unix t - Time.unix s := by have := Time.unix_mono hs; omega
        have hyp : 0 < Time.unix e - Time.unix s := by omega
        have hu := unlocked_eq sd ol (Time.unix t - Time.unix s) (Time.unix e - Time.unix s) ho hx hyp
        have hr := U_range ol s e t ho hs he hlt
        have hjpos : 0 < (Time.unix e - Time.unix s) * PREC := Int.mul_pos hyp Dec.PREC_pos
        have hynz : ¬ ((Time.unix e - Time.unix s) * PREC = 0) := by omega
        unfold U at hr
        cases sd <;>
          simp only [vOf, Bool.false_eq_true, if_false, if_true] at hu ⊢ <;>
          simp [lockInfo, kBeforeStart, kAfterEnd, kX, kY, kLocked, nv_sched_beforeStart, sd_sched_beforeStart,
            nv_sched_afterEnd, sd_sched_afterEnd, nv_sched_x, sd_sched_x, nv_sched_y, sd_sched_y, nv_sched_locked, sd_sched_locked,
            hb', ha, Dec.isZero, Dec.ofInt, hynz, hu, U] <;>
          (have n1 : ¬ Dec.chopRoundNN (ol * Dec.ratioRaw (Time.unix t - Time.unix s) (Time.unix e - Time.unix s)) < 0 := by omega
           have n2 : ¬ ol < Dec.chopRoundNN (ol * Dec.ratioRaw (Time.unix t - Time.unix s) (Time.unix e - Time.unix s)) := by omega
           simp [n1, n2])

theorem schedule_range (sd : Bool) (ol s e t : Int) : S_schedule_range sd ol s e t := by
  unfold S_schedule_range lockOk unlockedVal lockedVal
  intro ho hok
  rcases lockInfo_cases sd ol s e t ho with ⟨h1, h⟩ | ⟨h1, h2, h⟩ | ⟨h1, h2, h3, h⟩ | ⟨h1, h2, h3, h⟩
  · simp [h]; omega
  · simp [h]; omega
  · simp [h, Res.isOk] at hok
  · have hr := U_range ol s e t ho h1 h2 h3
    simp [h]; omega

theorem schedule_panics_only_degenerate (sd : Bool) (ol s e t : Int) : S_schedule_panics_only_degenerate sd ol s e t := by
  unfold S_schedule_panics_only_degenerate lockOk
  intro ho hok
  rcases lockInfo_cases sd ol s e t ho with ⟨h1, h⟩ | ⟨h1, h2, h⟩ | ⟨h1, h2, h3, h⟩ | ⟨h1, h2, h3, h⟩
  · simp [h, Res.isOk] at hok
  · simp [h, Res.isOk] at hok
  · exact ⟨h1, h2, h3⟩
  · simp [h, Res.isOk] at hok

/-- locked(t) is antitone in t, i.e. unlocked(t) is monotone: across start, inside the window, across end -/
theorem locked_antitone (sd : Bool) (ol s e t1 t2 : Int) : S_locked_antitone sd ol s e t1 t2 := by
  unfold S_locked_antitone lockOk lockedVal
  intro ho h12 hok1 hok2
  rcases lockInfo_cases sd ol s e t1 ho with ⟨a1, a⟩ | ⟨a1, a2, a⟩ | ⟨a1, a2, a3, a⟩ | ⟨a1, a2, a3, a⟩ <;>
  rcases lockInfo_cases sd ol s e t2 ho with ⟨b1, b⟩ | ⟨b1, b2, b⟩ | ⟨b1, b2, b3, b⟩ | ⟨b1, b2, b3, b⟩ <;>
  simp [a, b, Res.isOk] at hok1 hok2 ⊢ <;> try omega
  · have := U_range ol s e t2 ho b1 b2 b3; omega
  · have := U_range ol s e t1 ho a1 a2 a3; omega
  · have := U_mono ol s e t1 t2 ho a1 h12 a3; omega

/-! ## Part 2 — state machine -/

/-- every message is atomic: anything but `ok` leaves the state untouched (a failing end-block only halts) -/
theorem step_atomic (s : St) (op : Op) (h : (step s op).2 ≠ "ok") (hb : ∀ t, op ≠ .block t) : (step s op).1 = s := by
  unfold step at h ⊢
  by_cases hh : s.halted
  · simp [hh]
  · simp only [hh, Bool.false_eq_true, if_false] at h ⊢
    cases ha : Lockup.apply s op with
    | ok s' => simp [ha] at h
    | err c => cases op <;> simp_all
    | panic k => simp

/-- who may act: the lockup handlers for the owner, the proxy handlers for the proxy's root owner; both the message's
    sender field and the actual caller of MsgExecute must be that address -/
def authorised (s : St) : Op → Bool
  | .send c sd _ _ _ => checkSender s.owner c sd
  | .nvDelegate c sd _ _ _ _ => checkSender s.owner c sd
  | .nvUndelegate c sd _ _ _ _ => checkSender s.owner c sd
  | .nvWithdrawReward c sd _ => checkSender s.owner c sd
  | .sdSelfDelegate c sd _ _ => checkSender s.owner c sd
  | .sdWithdraw c sd _ => checkSender s.owner c sd
  | .pxUndelegate d c sd _ _ => checkSender (rootOwner s d) c sd
  | .pxWithdrawReward d c sd _ => checkSender (rootOwner s d) c sd
  | .pxSend d c sd _ _ _ => checkSender (rootOwner s d) c sd
  | _ => true

theorem checkSender_iff (o c sd : Addr) : checkSender o c sd = true ↔ sd = o ∧ c = o := by
  unfold checkSender
  simp only [Bool.and_eq_true, beq_iff_eq]
  constructor
  · rintro ⟨h1, h2⟩; exact ⟨h1, h2.trans h1⟩
  · rintro ⟨h1, h2⟩; exact ⟨h1, h2.trans h1.symm⟩

/-- owner_only: an account handler invoked by anybody but the owner (proxy: root owner) — including an outer signer that
    merely NAMES the owner in the message's sender field — is an error and changes nothing -/
theorem apply_unauthorised (s : St) (op : Op) (h : authorised s op = false) : ∃ c, Lockup.apply s op = .err c := by
  cases op <;> simp only [authorised] at h <;> (try exact absurd h (by decide)) <;>
    simp only [Lockup.apply, doSend, doNvDelegate, doNvUndelegate, doNvWithdrawReward, doSdSelfDelegate, doSdWithdraw,
      doPxUndelegate, doPxWithdrawReward, doPxSend, h, Bool.not_false, if_true] <;>
    (split <;> exact ⟨_, rfl⟩)

theorem owner_only (s : St) (op : Op) (h : authorised s op = false) : step s op = (s, "err") ∨ step s op = (s, "halted") := by
  obtain ⟨c, hc⟩ := apply_unauthorised s op h
  unfold step
  by_cases hh : s.halted
  · right; simp [hh]
  · left
    simp only [hh, Bool.false_eq_true, if_false, hc]
    cases op <;> simp [authorised] at h ⊢

/-- non-vacuity: the spoofing signer of finding C12-F1 (outer caller a2, sender field a0 = owner) is not authorised -/
example : authorised { owner := "a0", created := true } (.send "a2" "a0" "a2" fee 700) = false := by decide

/-- proxy_cannot_forward_stake: the proxy's `Send` of the bond denom (or of share tokens) is rejected whoever asks -/
theorem proxy_cannot_forward_stake (s : St) (d c sd dst : Addr) (dn : Denom) (x : Int) (h : sendDisabled dn = true) :
    (step s (.pxSend d c sd dst dn x)).2 ≠ "ok" ∧ (step s (.pxSend d c sd dst dn x)).1 = s := by
  have key : ∀ r, Lockup.apply s (.pxSend d c sd dst dn x) ≠ .ok r := by
    intro r
    simp only [Lockup.apply, doPxSend, msgSend, h]
    split
    · simp
    · split
      · simp
      · split <;> simp [Res.bind]
  unfold step
  by_cases hh : s.halted
  · simp [hh]
  · simp only [hh, Bool.false_eq_true, if_false]
    cases ha : Lockup.apply s (.pxSend d c sd dst dn x) with
    | ok s' => exact absurd ha (key s')
    | err c => simp
    | panic k => simp

example : sendDisabled bond = true := by decide

end Sunrise.C12
