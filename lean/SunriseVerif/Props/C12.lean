import SunriseVerif.Lemmas.Lockup
import SunriseVerif.Spec.C12
import SunriseVerif.Props.C13
import Mathlib.Tactic.Linarith
/-!
C12 — lockup accounts never release locked funds early.
Part 1: theorems about the kernels REGENERATED from the two `lockup.go` / `continuous_locking_account.go` files
(Gen/KernelsLockup.lean), for both packages (`sd : Bool`).
Part 2: state-machine theorems over Model/Lockup.lean by induction over unbounded operation lists.
-/
set_option linter.unusedSimpArgs false
set_option linter.unusedVariables false
namespace Sunrise.C12
open Sunrise Sunrise.Lockup Sunrise.Gen.KernelsLockup

/-! ## Part 1 — kernels -/

theorem trackDel_split (sd : Bool) (locked dv amt : Int) : S_trackDel_split sd locked dv amt := by
  unfold S_trackDel_split
  cases sd <;> simp [vOf, kDelX, kDelY, nv_trackDel_x, nv_trackDel_y, sd_trackDel_x, sd_trackDel_y] <;> omega

theorem trackDel_bound (sd : Bool) (locked dv amt : Int) : S_trackDel_bound sd locked dv amt := by
  unfold S_trackDel_bound
  intro h
  cases sd <;> simp only [vOf, kDelX, nv_trackDel_x, sd_trackDel_x, Bool.false_eq_true, if_false, if_true] <;> omega

theorem trackDel_lockedFirst (sd : Bool) (locked dv amt : Int) : S_trackDel_lockedFirst sd locked dv amt := by
  unfold S_trackDel_lockedFirst
  intro h
  cases sd <;> simp only [vOf, kDelX, nv_trackDel_x, sd_trackDel_x, Bool.false_eq_true, if_false, if_true] <;> omega

theorem trackUndel_bounds (sd : Bool) (df dv amt : Int) : S_trackUndel_bounds sd df dv amt := by
  unfold S_trackUndel_bounds
  intro h1 h2 h3
  cases sd <;> simp only [vOf, kUndelX, kUndelY, nv_trackUndel_x, nv_trackUndel_y, sd_trackUndel_x, sd_trackUndel_y,
    Bool.false_eq_true, if_false, if_true] <;> omega

theorem track_coinArith (sd : Bool) (a b : Int) : S_track_coinArith sd a b := by
  unfold S_track_coinArith
  cases sd <;> simp [vOf, kDelNewDV, kDelNewDF, kUndelNewDF, kUndelNewDV, nv_trackDel_newDV, nv_trackDel_newDF,
    nv_trackUndel_newDF, nv_trackUndel_newDV, sd_trackDel_newDV, sd_trackDel_newDF, sd_trackUndel_newDF, sd_trackUndel_newDV]

theorem notBonded_eq (sd : Bool) (locked dv : Int) : S_notBonded sd locked dv := by
  unfold S_notBonded
  intro h1 h2
  cases sd <;> simp only [vOf, notBondedLocked, kNotBondedLocked, kNotBondedX, nv_notBonded_locked, nv_notBonded_x,
    sd_notBonded_locked, sd_notBonded_x, Bool.false_eq_true, if_false, if_true] <;> omega

/-- the generated `unlockedAmt ∘ s` is `round(ol · round18(x/y))` for both packages -/
theorem unlocked_eq (sd : Bool) (ol x y : Int) (ho : 0 ≤ ol) (hx : 0 ≤ x) (hy : 0 < y) :
    kUnlockedAmt (vOf sd) ol (kS (vOf sd) x y) = Dec.chopRoundNN (ol * Dec.ratioRaw x y) := by
  have hs := Dec.quo_ofInt_raw x y hx hy
  have hn := Dec.ratioRaw_nonneg x y hx hy
  cases sd <;>
    simp only [vOf, kUnlockedAmt, kS, nv_sched_unlockedAmt, nv_sched_s, sd_sched_unlockedAmt, sd_sched_s,
      Bool.false_eq_true, if_false, if_true] <;>
    rw [Dec.scaled_round ol _ ho (by rw [hs]; exact hn), hs]

theorem unlocked_bounds (sd : Bool) (ol x y : Int) : S_unlocked_bounds sd ol x y := by
  unfold S_unlocked_bounds
  intro ho hx hxy hy
  rw [unlocked_eq sd ol x y ho hx hy]
  have hn := Dec.ratioRaw_nonneg x y hx hy
  have hl := Dec.ratioRaw_le_one x y hx hxy hy
  have h0 : 0 ≤ ol * Dec.ratioRaw x y := Int.mul_nonneg ho hn
  refine ⟨Dec.chopRoundNN_nonneg h0, ?_⟩
  have : ol * Dec.ratioRaw x y ≤ ol * PREC := Int.mul_le_mul_of_nonneg_left hl ho
  calc Dec.chopRoundNN (ol * Dec.ratioRaw x y) ≤ Dec.chopRoundNN (ol * PREC) := Dec.chopRoundNN_mono h0 this
    _ = ol := Dec.chopRoundNN_whole ol ho

theorem unlocked_mono (sd : Bool) (ol x1 x2 y : Int) : S_unlocked_mono sd ol x1 x2 y := by
  unfold S_unlocked_mono
  intro ho hx h12 hy
  rw [unlocked_eq sd ol x1 y ho hx hy, unlocked_eq sd ol x2 y ho (by omega) hy]
  have hn := Dec.ratioRaw_nonneg x1 y hx hy
  exact Dec.chopRoundNN_mono (Int.mul_nonneg ho hn)
    (Int.mul_le_mul_of_nonneg_left (Dec.ratioRaw_mono x1 x2 y hx h12 hy) ho)

theorem unlocked_ends (sd : Bool) (ol y : Int) : S_unlocked_ends sd ol y := by
  unfold S_unlocked_ends
  intro ho hy
  rw [unlocked_eq sd ol 0 y ho (by omega) hy, unlocked_eq sd ol y y ho (by omega) hy, Dec.ratioRaw_zero, Dec.ratioRaw_self y hy]
  constructor
  · simp [Dec.chopRoundNN]
  · exact Dec.chopRoundNN_whole ol ho

end Sunrise.C12
