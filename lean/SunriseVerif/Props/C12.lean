import SunriseVerif.Lemmas.Lockup
import SunriseVerif.Spec.C12
import SunriseVerif.Props.C13
import Mathlib.Tactic.Linarith
import SunriseVerif.Gen.Anchors
/-!
C12 — lockup accounts never release locked funds early.
Part 1: theorems about the kernels REGENERATED from the two `lockup.go` / `continuous_locking_account.go` files
(Gen/KernelsLockup.lean), for both packages (`sd : Bool`).
Part 2: state-machine theorems over Model/Lockup.lean by induction over unbounded operation lists.
-/
set_option linter.unusedSimpArgs false
set_option linter.unusedVariables false
namespace Sunrise.C12
open Sunrise Sunrise.Lockup Sunrise.Gen.KernelsLockup

/-! ## Part 1 — kernels -/

theorem trackDel_split (sd : Bool) (locked dv amt : Int) : S_trackDel_split sd locked dv amt := by
  unfold S_trackDel_split
  cases sd <;> simp [vOf, kDelX, kDelY, nv_trackDel_x, nv_trackDel_y, sd_trackDel_x, sd_trackDel_y] <;> omega

theorem trackDel_bound (sd : Bool) (locked dv amt : Int) : S_trackDel_bound sd locked dv amt := by
  unfold S_trackDel_bound
  intro h
  cases sd <;> simp only [vOf, kDelX, nv_trackDel_x, sd_trackDel_x, Bool.false_eq_true, if_false, if_true] <;> omega

theorem trackDel_lockedFirst (sd : Bool) (locked dv amt : Int) : S_trackDel_lockedFirst sd locked dv amt := by
  unfold S_trackDel_lockedFirst
  intro h
  cases sd <;> simp only [vOf, kDelX, nv_trackDel_x, sd_trackDel_x, Bool.false_eq_true, if_false, if_true] <;> omega

theorem trackUndel_bounds (sd : Bool) (df dv amt : Int) : S_trackUndel_bounds sd df dv amt := by
  unfold S_trackUndel_bounds
  intro h1 h2 h3
  cases sd <;> simp only [vOf, kUndelX, kUndelY, nv_trackUndel_x, nv_trackUndel_y, sd_trackUndel_x, sd_trackUndel_y,
    Bool.false_eq_true, if_false, if_true] <;> omega

theorem track_coinArith (sd : Bool) (a b : Int) : S_track_coinArith sd a b := by
  unfold S_track_coinArith
  cases sd <;> simp [vOf, kDelNewDV, kDelNewDF, kUndelNewDF, kUndelNewDV, nv_trackDel_newDV, nv_trackDel_newDF,
    nv_trackUndel_newDF, nv_trackUndel_newDV, sd_trackDel_newDV, sd_trackDel_newDF, sd_trackUndel_newDF, sd_trackUndel_newDV]

theorem notBonded_eq (sd : Bool) (locked dv : Int) : S_notBonded sd locked dv := by
  unfold S_notBonded
  intro h1 h2
  cases sd <;> simp only [vOf, notBondedLocked, kNotBondedLocked, kNotBondedX, nv_notBonded_locked, nv_notBonded_x,
    sd_notBonded_locked, sd_notBonded_x, Bool.false_eq_true, if_false, if_true] <;> omega

/-- the generated `unlockedAmt ∘ s` is `round(ol · round18(x/y))` for both packages -/
theorem unlocked_eq (sd : Bool) (ol x y : Int) (ho : 0 ≤ ol) (hx : 0 ≤ x) (hy : 0 < y) :
    kUnlockedAmt (vOf sd) ol (kS (vOf sd) x y) = Dec.chopRoundNN (ol * Dec.ratioRaw x y) := by
  have hs := Dec.quo_ofInt_raw x y hx hy
  have hn := Dec.ratioRaw_nonneg x y hx hy
  cases sd <;>
    simp only [vOf, kUnlockedAmt, kS, nv_sched_unlockedAmt, nv_sched_s, sd_sched_unlockedAmt, sd_sched_s,
      Bool.false_eq_true, if_false, if_true] <;>
    rw [Dec.scaled_round ol _ ho (by rw [hs]; exact hn), hs]

theorem unlocked_bounds (sd : Bool) (ol x y : Int) : S_unlocked_bounds sd ol x y := by
  unfold S_unlocked_bounds
  intro ho hx hxy hy
  rw [unlocked_eq sd ol x y ho hx hy]
  have hn := Dec.ratioRaw_nonneg x y hx hy
  have hl := Dec.ratioRaw_le_one x y hx hxy hy
  have h0 : 0 ≤ ol * Dec.ratioRaw x y := Int.mul_nonneg ho hn
  refine ⟨Dec.chopRoundNN_nonneg h0, ?_⟩
  have : ol * Dec.ratioRaw x y ≤ ol * PREC := Int.mul_le_mul_of_nonneg_left hl ho
  calc Dec.chopRoundNN (ol * Dec.ratioRaw x y) ≤ Dec.chopRoundNN (ol * PREC) := Dec.chopRoundNN_mono h0 this
    _ = ol := Dec.chopRoundNN_whole ol ho

theorem unlocked_mono (sd : Bool) (ol x1 x2 y : Int) : S_unlocked_mono sd ol x1 x2 y := by
  unfold S_unlocked_mono
  intro ho hx h12 hy
  rw [unlocked_eq sd ol x1 y ho hx hy, unlocked_eq sd ol x2 y ho (by omega) hy]
  have hn := Dec.ratioRaw_nonneg x1 y hx hy
  exact Dec.chopRoundNN_mono (Int.mul_nonneg ho hn)
    (Int.mul_le_mul_of_nonneg_left (Dec.ratioRaw_mono x1 x2 y hx h12 hy) ho)

theorem unlocked_ends (sd : Bool) (ol y : Int) : S_unlocked_ends sd ol y := by
  unfold S_unlocked_ends
  intro ho hy
  rw [unlocked_eq sd ol 0 y ho (by omega) hy, unlocked_eq sd ol y y ho (by omega) hy, Dec.ratioRaw_zero, Dec.ratioRaw_self y hy]
  constructor
  · simp [Dec.chopRoundNN]
  · exact Dec.chopRoundNN_whole ol ho

/-- the value the schedule computes inside the window -/
def U (ol s e t : Int) : Int := Dec.chopRoundNN (ol * Dec.ratioRaw (Time.unix t - Time.unix s) (Time.unix e - Time.unix s))

theorem U_range (ol s e t : Int) (ho : 0 ≤ ol) (h1 : s ≤ t) (h2 : t ≤ e) (hy : Time.unix s < Time.unix e) :
    0 ≤ U ol s e t ∧ U ol s e t ≤ ol := by
  have hx : 0 ≤ Time.unix t - Time.unix s := by have := Time.unix_mono h1; omega
  have hxy : Time.unix t - Time.unix s ≤ Time.unix e - Time.unix s := by have := Time.unix_mono h2; omega
  have := unlocked_bounds false ol _ _ ho hx hxy (by omega : 0 < Time.unix e - Time.unix s)
  rw [unlocked_eq false ol _ _ ho hx (by omega)] at this
  exact this

theorem U_mono (ol s e t1 t2 : Int) (ho : 0 ≤ ol) (h1 : s ≤ t1) (h12 : t1 ≤ t2) (hy : Time.unix s < Time.unix e) :
    U ol s e t1 ≤ U ol s e t2 := by
  have hx : 0 ≤ Time.unix t1 - Time.unix s := by have := Time.unix_mono h1; omega
  have hx2 : Time.unix t1 - Time.unix s ≤ Time.unix t2 - Time.unix s := by have := Time.unix_mono h12; omega
  have := unlocked_mono false ol _ _ _ ho hx hx2 (by omega : 0 < Time.unix e - Time.unix s)
  rw [unlocked_eq false ol _ _ ho hx (by omega), unlocked_eq false ol _ _ ho (by omega) (by omega)] at this
  exact this

/-- complete case analysis of `GetLockCoinInfoWithDenom` (both packages) -/
theorem lockInfo_cases (sd : Bool) (ol s e t : Int) (ho : 0 ≤ ol) :
    (t < s ∧ lockInfo (vOf sd) ol s e t = .ok (0, ol))
    ∨ (s ≤ t ∧ e < t ∧ lockInfo (vOf sd) ol s e t = .ok (ol, 0))
    ∨ (s ≤ t ∧ t ≤ e ∧ Time.unix s = Time.unix e ∧ lockInfo (vOf sd) ol s e t = .panic .divZero)
    ∨ (s ≤ t ∧ t ≤ e ∧ Time.unix s < Time.unix e ∧ lockInfo (vOf sd) ol s e t = .ok (U ol s e t, ol - U ol s e t)) := by
  by_cases hb : t < s
  · left
    refine ⟨hb, ?_⟩
    cases sd <;> simp [lockInfo, vOf, kBeforeStart, nv_sched_beforeStart, sd_sched_beforeStart, hb]
  · have hs : s ≤ t := by omega
    have hb' : ¬ s > t := by omega
    by_cases ha : e < t
    · right; left
      refine ⟨hs, ha, ?_⟩
      cases sd <;> simp [lockInfo, vOf, kBeforeStart, kAfterEnd, nv_sched_beforeStart, sd_sched_beforeStart,
        nv_sched_afterEnd, sd_sched_afterEnd, hb', ha]
    · have he : t ≤ e := by omega
      have hse := Time.unix_mono (Int.le_trans hs he)
      by_cases hy : Time.unix s = Time.unix e
      · right; right; left
        refine ⟨hs, he, hy, ?_⟩
        cases sd <;> simp [lockInfo, vOf, kBeforeStart, kAfterEnd, kY, nv_sched_beforeStart, sd_sched_beforeStart,
          nv_sched_afterEnd, sd_sched_afterEnd, nv_sched_y, sd_sched_y, hb', ha, hy, Dec.isZero, Dec.ofInt]
      · right; right; right
        have hlt : Time.unix s < Time.unix e := by omega
        refine ⟨hs, he, hlt, ?_⟩
        have hx : 0 ≤ Time.unix t - Time.unix s := by have := Time.unix_mono hs; omega
        have hyp : 0 < Time.unix e - Time.unix s := by omega
        have hu := unlocked_eq sd ol (Time.unix t - Time.unix s) (Time.unix e - Time.unix s) ho hx hyp
        have hr := U_range ol s e t ho hs he hlt
        have hjpos : 0 < (Time.unix e - Time.unix s) * PREC := Int.mul_pos hyp Dec.PREC_pos
        have hynz : ¬ ((Time.unix e - Time.unix s) * PREC = 0) := by omega
        unfold U at hr
        cases sd <;>
          simp only [vOf, Bool.false_eq_true, if_false, if_true] at hu ⊢ <;>
          simp [lockInfo, kBeforeStart, kAfterEnd, kX, kY, kLocked, nv_sched_beforeStart, sd_sched_beforeStart,
            nv_sched_afterEnd, sd_sched_afterEnd, nv_sched_x, sd_sched_x, nv_sched_y, sd_sched_y, nv_sched_locked, sd_sched_locked,
            hb', ha, Dec.isZero, Dec.ofInt, hynz, hu, U] <;>
          (have n1 : ¬ Dec.chopRoundNN (ol * Dec.ratioRaw (Time.unix t - Time.unix s) (Time.unix e - Time.unix s)) < 0 := by omega
           have n2 : ¬ ol < Dec.chopRoundNN (ol * Dec.ratioRaw (Time.unix t - Time.unix s) (Time.unix e - Time.unix s)) := by omega
           simp [n1, n2])

theorem schedule_range (sd : Bool) (ol s e t : Int) : S_schedule_range sd ol s e t := by
  unfold S_schedule_range lockOk unlockedVal lockedVal
  intro ho hok
  rcases lockInfo_cases sd ol s e t ho with ⟨h1, h⟩ | ⟨h1, h2, h⟩ | ⟨h1, h2, h3, h⟩ | ⟨h1, h2, h3, h⟩
  · simp [h]; omega
  · simp [h]; omega
  · simp [h, Res.isOk] at hok
  · have hr := U_range ol s e t ho h1 h2 h3
    simp [h]; omega

theorem schedule_panics_only_degenerate (sd : Bool) (ol s e t : Int) : S_schedule_panics_only_degenerate sd ol s e t := by
  unfold S_schedule_panics_only_degenerate lockOk
  intro ho hok
  rcases lockInfo_cases sd ol s e t ho with ⟨h1, h⟩ | ⟨h1, h2, h⟩ | ⟨h1, h2, h3, h⟩ | ⟨h1, h2, h3, h⟩
  · simp [h, Res.isOk] at hok
  · simp [h, Res.isOk] at hok
  · exact ⟨h1, h2, h3⟩
  · simp [h, Res.isOk] at hok

/-- locked(t) is antitone in t, i.e. unlocked(t) is monotone: across start, inside the window, across end -/
theorem locked_antitone (sd : Bool) (ol s e t1 t2 : Int) : S_locked_antitone sd ol s e t1 t2 := by
  unfold S_locked_antitone lockOk lockedVal
  intro ho h12 hok1 hok2
  rcases lockInfo_cases sd ol s e t1 ho with ⟨a1, a⟩ | ⟨a1, a2, a⟩ | ⟨a1, a2, a3, a⟩ | ⟨a1, a2, a3, a⟩ <;>
  rcases lockInfo_cases sd ol s e t2 ho with ⟨b1, b⟩ | ⟨b1, b2, b⟩ | ⟨b1, b2, b3, b⟩ | ⟨b1, b2, b3, b⟩ <;>
  simp [a, b, Res.isOk] at hok1 hok2 ⊢ <;> try omega
  · have := U_range ol s e t2 ho b1 b2 b3; omega
  · have := U_range ol s e t1 ho a1 a2 a3; omega
  · have := U_mono ol s e t1 t2 ho a1 h12 a3; omega

/-! ## Part 2 — state machine -/

/-- every message is atomic: anything but `ok` leaves the state untouched (a failing end-block only halts) -/
theorem step_atomic (s : St) (op : Op) (h : (step s op).2 ≠ "ok") (hb : ∀ t, op ≠ .block t) : (step s op).1 = s := by
  unfold step at h ⊢
  by_cases hh : s.halted
  · simp [hh]
  · simp only [hh, Bool.false_eq_true, if_false] at h ⊢
    cases ha : Lockup.apply s op with
    | ok s' => simp [ha] at h
    | err c => cases op <;> simp_all
    | panic k => simp

/-- who may act: the lockup handlers for the owner, the proxy handlers for the proxy's root owner; both the message's
    sender field and the actual caller of MsgExecute must be that address -/
def authorised (s : St) : Op → Bool
  | .send c sd _ _ _ => checkSender s.owner c sd
  | .nvDelegate c sd _ _ _ _ => checkSender s.owner c sd
  | .nvUndelegate c sd _ _ _ _ => checkSender s.owner c sd
  | .nvWithdrawReward c sd _ => checkSender s.owner c sd
  | .sdSelfDelegate c sd _ _ => checkSender s.owner c sd
  | .sdWithdraw c sd _ => checkSender s.owner c sd
  | .pxUndelegate d c sd _ _ => checkSender (rootOwner s d) c sd
  | .pxWithdrawReward d c sd _ => checkSender (rootOwner s d) c sd
  | .pxSend d c sd _ _ _ => checkSender (rootOwner s d) c sd
  | _ => true

theorem checkSender_iff (o c sd : Addr) : checkSender o c sd = true ↔ sd = o ∧ c = o := by
  unfold checkSender
  simp only [Bool.and_eq_true, beq_iff_eq]
  constructor
  · rintro ⟨h1, h2⟩; exact ⟨h1, h2.trans h1⟩
  · rintro ⟨h1, h2⟩; exact ⟨h1, h2.trans h1.symm⟩

/-- owner_only: an account handler invoked by anybody but the owner (proxy: root owner) — including an outer signer that
    merely NAMES the owner in the message's sender field — is an error and changes nothing -/
theorem apply_unauthorised (s : St) (op : Op) (h : authorised s op = false) : ∃ c, Lockup.apply s op = .err c := by
  cases op <;> simp only [authorised] at h <;> (try exact absurd h (by decide)) <;>
    simp only [Lockup.apply, doSend, doNvDelegate, doNvUndelegate, doNvWithdrawReward, doSdSelfDelegate, doSdWithdraw,
      doPxUndelegate, doPxWithdrawReward, doPxSend, h, Bool.not_false, if_true] <;>
    (split <;> exact ⟨_, rfl⟩)

theorem owner_only (s : St) (op : Op) (h : authorised s op = false) : step s op = (s, "err") ∨ step s op = (s, "halted") := by
  obtain ⟨c, hc⟩ := apply_unauthorised s op h
  unfold step
  by_cases hh : s.halted
  · right; simp [hh]
  · left
    simp only [hh, Bool.false_eq_true, if_false, hc]
    cases op <;> simp [authorised] at h ⊢

/-- non-vacuity: the spoofing signer of finding C12-F1 (outer caller a2, sender field a0 = owner) is not authorised -/
example : authorised { owner := "a0", created := true } (.send "a2" "a0" "a2" fee 700) = false := by decide

/-- proxy_cannot_forward_stake: the proxy's `Send` of the bond denom (or of share tokens) is rejected whoever asks -/
theorem proxy_cannot_forward_stake (s : St) (d c sd dst : Addr) (dn : Denom) (x : Int) (h : sendDisabled dn = true) :
    (step s (.pxSend d c sd dst dn x)).2 ≠ "ok" ∧ (step s (.pxSend d c sd dst dn x)).1 = s := by
  have key : ∀ r, Lockup.apply s (.pxSend d c sd dst dn x) ≠ .ok r := by
    intro r
    simp only [Lockup.apply, doPxSend, msgSend, h]
    split
    · simp
    · split
      · simp
      · split <;> simp [Res.bind]
  unfold step
  by_cases hh : s.halted
  · simp [hh]
  · simp only [hh, Bool.false_eq_true, if_false]
    cases ha : Lockup.apply s (.pxSend d c sd dst dn x) with
    | ok s' => exact absurd ha (key s')
    | err c => simp
    | panic k => simp

example : sendDisabled bond = true := by decide

/-! ### bank and list facts -/

theorem msgSend_bal {b b' : Bank} {src dst : Addr} {d : Denom} {x : Int} (h : msgSend b src dst d x = .ok b') :
    0 < x ∧ sendDisabled d = false ∧ b.send src dst d x = .ok b' := by
  unfold msgSend at h
  by_cases h1 : x ≤ 0
  · simp [h1] at h
  · by_cases h2 : sendDisabled d = true
    · simp [h1, h2] at h
    · simp only [h1, h2, if_false, Bool.false_eq_true] at h
      exact ⟨by omega, by simpa using h2, h⟩

theorem sumUnb_append (w : Addr) (l : List Unb) (u : Unb) :
    sumUnb w (l ++ [u]) = sumUnb w l + (if u.who = w then u.amount else 0) := by
  induction l with
  | nil => simp [sumUnb]
  | cons a r ih => simp [sumUnb, ih]; omega

theorem sumEntries_addEntry (es : List Entry) (h e a : Int) : sumEntries (addEntry es h e a) = sumEntries es + a := by
  induction es with
  | nil => simp [addEntry, sumEntries]
  | cons x r ih =>
    unfold addEntry
    split
    · simp [sumEntries]; omega
    · simp [sumEntries, ih]; omega

theorem head_addEntry (es : List Entry) (h e a : Int) :
    ∃ hd, (addEntry es h e a).head? = some hd ∧ (es = [] → hd.endT = e) ∧ (∀ h0, es.head? = some h0 → hd.endT = h0.endT) := by
  cases es with
  | nil => exact ⟨⟨e, a, h⟩, by simp [addEntry], by simp, by simp⟩
  | cons x r =>
    unfold addEntry
    split
    · exact ⟨{ x with amount := x.amount + a }, by simp, by simp, by simp⟩
    · exact ⟨x, by simp, by simp, by simp⟩

def UnbNonneg (l : List Unb) : Prop := ∀ u ∈ l, 0 ≤ u.amount

theorem sumUnb_nonneg (w : Addr) (l : List Unb) (h : UnbNonneg l) : 0 ≤ sumUnb w l := by
  induction l with
  | nil => simp [sumUnb]
  | cons a r ih =>
    have ha := h a (by simp)
    have hr := ih (fun u hu => h u (by simp [hu]))
    simp only [sumUnb]
    split <;> omega

/-- staking end-block: what is released arrives at the delegator in the bond denom; nothing else moves -/
theorem release_facts (t : Int) (l : List Unb) (b : Bank) (hw : ∀ u ∈ l, u.who = "plock" ∨ u.who = "pown") (hn : UnbNonneg l) :
    let r := releaseUbds b t l
    (∀ a, r.1.bal a fee = b.bal a fee) ∧ (∀ a, r.1.bal a shareD = b.bal a shareD)
    ∧ r.1.bal "plock" bond + sumUnb "plock" r.2 = b.bal "plock" bond + sumUnb "plock" l
    ∧ b.bal "plock" bond ≤ r.1.bal "plock" bond
    ∧ (∀ u ∈ r.2, u ∈ l) := by
  induction l generalizing b with
  | nil => simp [releaseUbds]
  | cons u r ih =>
    have hu := hw u (by simp)
    have hun := hn u (by simp)
    have hw' : ∀ v ∈ r, v.who = "plock" ∨ v.who = "pown" := fun v hv => hw v (by simp [hv])
    have hn' : UnbNonneg r := fun v hv => hn v (by simp [hv])
    simp only [releaseUbds]
    split
    · have := ih ((b.credit stakingPool bond (-u.amount)).credit u.who bond u.amount) hw' hn'
      simp only at this
      obtain ⟨f1, f2, f3, f4, f5⟩ := this
      refine ⟨?_, ?_, ?_, ?_, ?_⟩
      · intro a; rw [f1]; simp [Bank.credit_bal, fee, bond]
      · intro a; rw [f2]; simp [Bank.credit_bal, shareD, bond]
      · rw [f3]; simp only [sumUnb, Bank.credit_bal, stakingPool]
        rcases hu with h | h <;> simp [h] <;> omega
      · refine Int.le_trans ?_ f4
        simp only [Bank.credit_bal, stakingPool]
        rcases hu with h | h <;> simp [h] <;> omega
      · intro v hv; simp [f5 v hv]
    · have := ih b hw' hn'
      simp only at this
      obtain ⟨f1, f2, f3, f4, f5⟩ := this
      refine ⟨f1, f2, ?_, f4, ?_⟩
      · simp only [sumUnb]; omega
      · intro v hv
        simp only [List.mem_cons] at hv ⊢
        rcases hv with h | h
        · exact Or.inl h
        · exact Or.inr (f5 v h)

/-- shareclass end-block payout (all recipients = the lockup account): fee balance + pending unbondings is conserved -/
theorem pay_facts (t : Int) (l : List Unb) (b b' : Bank) (l' : List Unb)
    (hw : ∀ u ∈ l, 0 ≤ u.amount ∧ u.who = lock) (h : payScUnb b t l = some (b', l')) :
    b'.bal lock fee + sumUnb lock l' = b.bal lock fee + sumUnb lock l
    ∧ b.bal lock fee ≤ b'.bal lock fee
    ∧ (∀ a, b'.bal a shareD = b.bal a shareD) ∧ b'.bal "plock" bond = b.bal "plock" bond
    ∧ (∀ u ∈ l', u ∈ l)
    ∧ ((∀ u ∈ l, t < u.completion) → b' = b ∧ l' = l) := by
  induction l generalizing b b' l' with
  | nil => simp [payScUnb] at h; obtain ⟨e1, e2⟩ := h; subst e1 e2; simp
  | cons u r ih =>
    have hu := hw u (by simp)
    have hw' : ∀ v ∈ r, 0 ≤ v.amount ∧ v.who = lock := fun v hv => hw v (by simp [hv])
    simp only [payScUnb] at h
    split at h
    · split at h
      · rename_i hc
        have := ih _ _ _ hw' h
        obtain ⟨f1, f2, f3, f4, f5, f6⟩ := this
        refine ⟨?_, ?_, ?_, ?_, ?_, ?_⟩
        · rw [f1]; simp [sumUnb, Bank.credit_bal, hu.2, lock, fee, bond, stakingPool]; omega
        · refine Int.le_trans ?_ f2
          simp [Bank.credit_bal, hu.2, lock, fee, bond, stakingPool]; omega
        · intro a; rw [f3]; simp [Bank.credit_bal, shareD, fee, bond]
        · rw [f4]; simp [Bank.credit_bal, hu.2, lock, fee, bond, stakingPool]
        · intro v hv; simp [f5 v hv]
        · intro hall; have := hall u (by simp); omega
      · simp at h
    · cases hp : payScUnb b t r with
      | none => simp [hp] at h
      | some p =>
        obtain ⟨b1, l1⟩ := p
        simp [hp] at h
        obtain ⟨e1, e2⟩ := h
        subst e1 e2
        have := ih _ _ _ hw' hp
        obtain ⟨f1, f2, f3, f4, f5, f6⟩ := this
        refine ⟨?_, f2, f3, f4, ?_, ?_⟩
        · simp only [sumUnb]; omega
        · intro v hv
          simp only [List.mem_cons] at hv ⊢
          rcases hv with h | h
          · exact Or.inl h
          · exact Or.inr (f5 v h)
        · intro hall
          have := f6 (fun v hv => hall v (by simp [hv]))
          simp [this.1, this.2]

/-! ### the invariant -/

def lockedT (s : St) (t : Int) : Res Int := lockedAt s.variant s.OL s.startT s.endT t

structure Inv (s : St) : Prop where
  ol0 : 0 ≤ s.OL
  ut0 : 0 ≤ s.ut
  dv0 : 0 ≤ s.DV
  df0 : 0 ≤ s.DF
  bL0 : 0 ≤ s.bank.bal lock fee
  bS0 : 0 ≤ s.bank.bal lock shareD
  bP0 : 0 ≤ s.bank.bal "plock" bond
  st0 : 0 ≤ s.stake "plock"
  ubd0 : ∀ u ∈ s.ubds, 0 ≤ u.amount ∧ (u.who = "plock" ∨ u.who = "pown")
  sc0 : ∀ u ∈ s.scUnb, 0 ≤ u.amount ∧ u.who = lock
  /-- (A) the account's own fee balance covers what is locked and not tracked as delegated, now and later -/
  cover : s.created = true → ∀ t l, s.now ≤ t → lockedT s t = .ok l → l - s.DV ≤ s.bank.bal lock fee
  /-- (B) tracked_le_actual -/
  tracked : s.DV + s.DF ≤ actualDelegated s
  /-- (B') non-voting: while no recorded entry has matured, the tracked amounts are still staked or unbonding -/
  liveNv : s.variant = .nv → blocked s = false → s.DV + s.DF ≤ s.bank.bal lock shareD + sumUnb lock s.scUnb
  /-- every pending shareclass unbonding is not older than the first recorded entry, which is not later than now + ut -/
  scHead : ∀ u ∈ s.scUnb, ∃ h, s.entries.head? = some h ∧ h.endT ≤ u.completion
  headUt : ∀ h, s.entries.head? = some h → h.endT ≤ s.now + s.ut
  /-- (C) the outflow bound: the custody set still holds everything the schedule keeps locked, now and later -/
  cust : s.created = true → ∀ t l, s.now ≤ t → lockedT s t = .ok l → l ≤ custody s
  /-- nothing is unbonding for an account that does not exist yet -/
  pre : s.created = false → s.scUnb = []

/-- well-formed inputs: third-party messages are signed by accounts outside the custody set, boundary amounts are
    non-negative, and (no-slash hypothesis) the validator's share token trades 1:1 -/
def extOk (e : Ext) : Prop := 0 ≤ e.rewFee ∧ 0 ≤ e.rewBond

def OpOk : Op → Prop
  | .init _ funder _ _ _ _ _ _ => funder ≠ lock
  | .deposit src _ _ _ => src ≠ lock ∧ src ≠ "plock"
  | .nvDelegate _ _ _ _ amt e => extOk e ∧ e.share = amt
  | .nvUndelegate _ _ _ _ amt e => extOk e ∧ e.share = amt
  | .nvWithdrawReward _ _ e => extOk e
  | .sdSelfDelegate _ _ _ e => extOk e
  | .pxUndelegate _ _ _ _ e => extOk e
  | .pxWithdrawReward _ _ _ e => extOk e
  | .modSelfDelegate d _ e => d ≠ lock ∧ extOk e
  | .modWithdraw d _ => d ≠ lock
  | _ => True

theorem ubdNonneg {s : St} (h : Inv s) : UnbNonneg s.ubds := fun u hu => (h.ubd0 u hu).1
theorem scNonneg {s : St} (h : Inv s) : UnbNonneg s.scUnb := fun u hu => (h.sc0 u hu).1

theorem lockedT_range {s : St} (h : Inv s) {t l : Int} (hl : lockedT s t = .ok l) : 0 ≤ l ∧ l ≤ s.OL := by
  have hv : ∃ sd, s.variant = vOf sd := by cases hvv : s.variant; exact ⟨false, rfl⟩; exact ⟨true, rfl⟩
  obtain ⟨sd, hsd⟩ := hv
  unfold lockedT lockedAt at hl
  rw [hsd] at hl
  have := schedule_range sd s.OL s.startT s.endT t
  unfold S_schedule_range lockOk unlockedVal lockedVal at this
  cases hi : lockInfo (vOf sd) s.OL s.startT s.endT t with
  | ok p =>
    simp [hi, Res.bind] at hl
    have := this h.ol0 (by simp [hi, Res.isOk])
    simp [hi] at this
    omega
  | err c => simp [hi, Res.bind] at hl
  | panic k => simp [hi, Res.bind] at hl

theorem lockedT_antitone {s : St} (h : Inv s) {t1 t2 l1 l2 : Int} (h12 : t1 ≤ t2)
    (hl1 : lockedT s t1 = .ok l1) (hl2 : lockedT s t2 = .ok l2) : l2 ≤ l1 := by
  have hv : ∃ sd, s.variant = vOf sd := by cases hvv : s.variant; exact ⟨false, rfl⟩; exact ⟨true, rfl⟩
  obtain ⟨sd, hsd⟩ := hv
  unfold lockedT lockedAt at hl1 hl2
  rw [hsd] at hl1 hl2
  have := locked_antitone sd s.OL s.startT s.endT t1 t2
  unfold S_locked_antitone lockOk lockedVal at this
  cases hi1 : lockInfo (vOf sd) s.OL s.startT s.endT t1 with
  | ok p1 =>
    cases hi2 : lockInfo (vOf sd) s.OL s.startT s.endT t2 with
    | ok p2 =>
      simp [hi1, hi2, Res.bind] at hl1 hl2
      have := this h.ol0 h12 (by simp [hi1, Res.isOk]) (by simp [hi2, Res.isOk])
      simp [hi1, hi2] at this
      omega
    | err c => simp [hi2, Res.bind] at hl2
    | panic k => simp [hi2, Res.bind] at hl2
  | err c => simp [hi1, Res.bind] at hl1
  | panic k => simp [hi1, Res.bind] at hl1

/-! ### preservation, handler by handler -/

theorem notBonded_val {s : St} (hI : Inv s) {l : Int} (hl : 0 ≤ l) :
    notBondedLocked s.variant l s.DV = max (l - s.DV) 0 := by
  cases hv : s.variant
  · exact notBonded_eq false l s.DV hl hI.dv0
  · exact notBonded_eq true l s.DV hl hI.dv0

theorem inv_send {s s' : St} {c sd dst : Addr} {d : Denom} {x : Int} (hI : Inv s)
    (h : doSend s c sd dst d x = .ok s') : Inv s' := by
  simp only [doSend] at h
  split at h; · simp at h
  rename_i hc
  split at h; · simp at h
  split at h; · simp at h
  split at h; · simp at h
  obtain ⟨locked, hl, h⟩ := Bank.bind_ok h
  split at h; · simp at h
  rename_i hb
  split at h; · simp at h
  rename_i g1
  split at h; · simp at h
  rename_i g2
  obtain ⟨b, hb2, h⟩ := Bank.bind_ok h
  obtain ⟨xpos, _, hsend⟩ := msgSend_bal hb2
  obtain ⟨_, _, eb⟩ := Bank.send_ok hsend
  simp only [Res.ok.injEq] at h
  subst h eb
  have hcr : s.created = true := by simpa using hc
  have hbl : blocked s = false := by simpa using hb
  have hl' : lockedT s s.now = .ok locked := hl
  have hr := lockedT_range hI hl'
  have hnb := notBonded_val hI hr.1
  rw [hnb] at g1 g2
  have bal' : s.bank.bal lock fee - x ≤ ((s.bank.credit lock fee (-x)).credit dst fee x).bal lock fee := by
    simp only [Bank.credit_bal]; split <;> simp_all <;> omega
  have hS : ((s.bank.credit lock fee (-x)).credit dst fee x).bal lock shareD = s.bank.bal lock shareD := by
    simp [Bank.credit_bal, fee, shareD]
  have hP : ((s.bank.credit lock fee (-x)).credit dst fee x).bal "plock" bond = s.bank.bal "plock" bond := by
    simp [Bank.credit_bal, fee, bond]
  have key : ∀ t l, s.now ≤ t → lockedT s t = .ok l → l ≤ locked := fun t l ht hlt => lockedT_antitone hI ht hl' hlt
  refine { hI with bL0 := ?_, bS0 := ?_, bP0 := ?_, cover := ?_, tracked := ?_, liveNv := ?_, cust := ?_ }
  · show 0 ≤ ((s.bank.credit lock fee (-x)).credit dst fee x).bal lock fee
    omega
  · show 0 ≤ ((s.bank.credit lock fee (-x)).credit dst fee x).bal lock shareD
    rw [hS]; exact hI.bS0
  · show 0 ≤ ((s.bank.credit lock fee (-x)).credit dst fee x).bal "plock" bond
    rw [hP]; exact hI.bP0
  · intro _ t l ht hlt
    have := key t l ht hlt
    show l - s.DV ≤ ((s.bank.credit lock fee (-x)).credit dst fee x).bal lock fee
    omega
  · have := hI.tracked
    unfold actualDelegated at this ⊢
    cases hv : s.variant <;> simp only [hv] at this ⊢ <;> simp only [hS, hP] <;> exact this
  · intro hv hb'
    have := hI.liveNv hv hbl
    show s.DV + s.DF ≤ ((s.bank.credit lock fee (-x)).credit dst fee x).bal lock shareD + sumUnb lock s.scUnb
    rw [hS]; exact this
  · intro _ t l ht hlt
    have hk := key t l ht hlt
    have htr := hI.tracked
    have hdf := hI.df0
    unfold custody
    unfold actualDelegated at htr
    cases hv : s.variant <;> simp only [hv] at htr ⊢
    · have := hI.liveNv hv hbl
      show l ≤ ((s.bank.credit lock fee (-x)).credit dst fee x).bal lock fee + ((s.bank.credit lock fee (-x)).credit dst fee x).bal lock shareD + sumUnb lock s.scUnb
      rw [hS]; omega
    · show l ≤ ((s.bank.credit lock fee (-x)).credit dst fee x).bal lock fee + ((s.bank.credit lock fee (-x)).credit dst fee x).bal "plock" bond + s.stake "plock" + sumUnb "plock" s.ubds
      rw [hP]; omega

/-- ops that only add to the three tracked balances (or leave them) and touch nothing else of the lockup -/
theorem inv_mono {s s' : St} (hI : Inv s)
    (e1 : s'.variant = s.variant) (e2 : s'.created = s.created) (e3 : s'.OL = s.OL) (e4 : s'.startT = s.startT)
    (e5 : s'.endT = s.endT) (e6 : s'.DV = s.DV) (e7 : s'.DF = s.DF) (e8 : s'.entries = s.entries)
    (e9 : s'.ubds = s.ubds) (e10 : s'.scUnb = s.scUnb) (e11 : s'.now = s.now) (e12 : s'.ut = s.ut)
    (e13 : s'.stake "plock" = s.stake "plock")
    (h1 : s.bank.bal lock fee ≤ s'.bank.bal lock fee) (h2 : s'.bank.bal lock shareD = s.bank.bal lock shareD)
    (h3 : s.bank.bal "plock" bond ≤ s'.bank.bal "plock" bond) : Inv s' := by
  have hL : ∀ t, lockedT s' t = lockedT s t := by intro t; unfold lockedT; rw [e1, e3, e4, e5]
  have hB : blocked s' = blocked s := by unfold blocked; rw [e8, e11, e1]
  have hC : custody s ≤ custody s' := by
    unfold custody; rw [e1, e9, e10, e13, h2]; cases s.variant <;> simp only <;> omega
  have hA : actualDelegated s ≤ actualDelegated s' := by
    unfold actualDelegated; rw [e1, e9, e8, e13, h2]; cases s.variant <;> simp only <;> omega
  constructor
  · rw [e3]; exact hI.ol0
  · rw [e12]; exact hI.ut0
  · rw [e6]; exact hI.dv0
  · rw [e7]; exact hI.df0
  · have := hI.bL0; omega
  · rw [h2]; exact hI.bS0
  · have := hI.bP0; omega
  · rw [e13]; exact hI.st0
  · rw [e9]; exact hI.ubd0
  · rw [e10]; exact hI.sc0
  · intro hc t l ht hl
    rw [e2] at hc; rw [e11] at ht; rw [hL] at hl; rw [e6]
    have := hI.cover hc t l ht hl; omega
  · rw [e6, e7]; have := hI.tracked; omega
  · intro hv hb
    rw [e1] at hv; rw [hB] at hb; rw [e6, e7, h2, e10]
    exact hI.liveNv hv hb
  · rw [e10, e8]; exact hI.scHead
  · rw [e8, e11, e12]; exact hI.headUt
  · intro hc t l ht hl
    rw [e2] at hc; rw [e11] at ht; rw [hL] at hl
    have := hI.cust hc t l ht hl; omega
  · intro hc; rw [e2] at hc; rw [e10]; exact hI.pre hc

theorem claim_bal (b : Bank) (w : Addr) (e : Ext) (a : Addr) (d : Denom) :
    (claim b w e).bal a d = b.bal a d + (if a = w ∧ d = fee then e.rewFee else 0) + (if a = w ∧ d = bond then e.rewBond else 0) := by
  unfold claim
  simp only [Bank.credit_bal, fee, bond]
  by_cases c1 : a = w <;> by_cases c2 : d = "urise" <;> by_cases c3 : d = "uvrise" <;> simp_all

theorem credit2_ge (b : Bank) (src dst a : Addr) (d dn : Denom) (x : Int) (hx : 0 ≤ x) (hne : ¬(a = src ∧ dn = d)) :
    b.bal a dn ≤ ((b.credit src d (-x)).credit dst d x).bal a dn := by
  simp only [Bank.credit_bal]
  by_cases c : a = dst ∧ dn = d
  · obtain ⟨rfl, rfl⟩ := c
    have hne' : ¬ (a = src ∧ True) := fun h => hne ⟨h.1, rfl⟩
    simp only [and_self, if_true, hne, hne', if_false]; omega
  · simp only [c, if_false, hne]; omega

theorem inv_deposit {s s' : St} {src dst : Addr} {d : Denom} {x : Int} (hI : Inv s) (ho : src ≠ lock ∧ src ≠ "plock")
    (h : Lockup.apply s (.deposit src dst d x) = .ok s') : Inv s' := by
  simp only [Lockup.apply] at h
  obtain ⟨b, hb, h⟩ := Bank.bind_ok h
  obtain ⟨xpos, hdis, hsend⟩ := msgSend_bal hb
  obtain ⟨_, _, eb⟩ := Bank.send_ok hsend
  simp only [Res.ok.injEq] at h
  subst h eb
  have hd1 : d ≠ shareD := by intro e; subst e; simp [sendDisabled, shareD, bond] at hdis
  have hd2 : d ≠ bond := by intro e; subst e; simp [sendDisabled, shareD, bond] at hdis
  refine inv_mono hI rfl rfl rfl rfl rfl rfl rfl rfl rfl rfl rfl rfl rfl ?_ ?_ ?_
  · show s.bank.bal lock fee ≤ ((s.bank.credit src d (-x)).credit dst d x).bal lock fee
    exact credit2_ge _ _ _ _ _ _ _ (by omega) (fun c => ho.1 c.1.symm)
  · show ((s.bank.credit src d (-x)).credit dst d x).bal lock shareD = s.bank.bal lock shareD
    simp [Bank.credit_bal, Ne.symm hd1]
  · show s.bank.bal "plock" bond ≤ ((s.bank.credit src d (-x)).credit dst d x).bal "plock" bond
    simp [Bank.credit_bal, Ne.symm hd2]

theorem inv_pxSend {s s' : St} {d c sd dst : Addr} {dn : Denom} {x : Int} (hI : Inv s)
    (h : doPxSend s d c sd dst dn x = .ok s') : Inv s' := by
  simp only [doPxSend] at h
  split at h; · simp at h
  split at h; · simp at h
  obtain ⟨b, hb, h⟩ := Bank.bind_ok h
  obtain ⟨xpos, hdis, hsend⟩ := msgSend_bal hb
  obtain ⟨_, _, eb⟩ := Bank.send_ok hsend
  simp only [Res.ok.injEq] at h
  subst h eb
  have hd1 : dn ≠ shareD := by intro e; subst e; simp [sendDisabled, shareD, bond] at hdis
  have hd2 : dn ≠ bond := by intro e; subst e; simp [sendDisabled, shareD, bond] at hdis
  have hp : proxyOf d ≠ lock := by unfold proxyOf lock; split <;> decide
  refine inv_mono hI rfl rfl rfl rfl rfl rfl rfl rfl rfl rfl rfl rfl rfl ?_ ?_ ?_
  · show s.bank.bal lock fee ≤ ((s.bank.credit (proxyOf d) dn (-x)).credit dst dn x).bal lock fee
    exact credit2_ge _ _ _ _ _ _ _ (by omega) (fun c => hp c.1.symm)
  · show ((s.bank.credit (proxyOf d) dn (-x)).credit dst dn x).bal lock shareD = s.bank.bal lock shareD
    simp [Bank.credit_bal, Ne.symm hd1]
  · show s.bank.bal "plock" bond ≤ ((s.bank.credit (proxyOf d) dn (-x)).credit dst dn x).bal "plock" bond
    simp [Bank.credit_bal, Ne.symm hd2]

theorem inv_nvWithdrawReward {s s' : St} {c sd : Addr} {e : Ext} (hI : Inv s) (he : extOk e)
    (h : doNvWithdrawReward s c sd e = .ok s') : Inv s' := by
  simp only [doNvWithdrawReward] at h
  split at h; · simp at h
  split at h; · simp at h
  split at h; · simp at h
  simp only [Res.ok.injEq] at h
  subst h
  refine inv_mono hI rfl rfl rfl rfl rfl rfl rfl rfl rfl rfl rfl rfl rfl ?_ ?_ ?_
  · show s.bank.bal lock fee ≤ (claim s.bank lock e).bal lock fee
    rw [claim_bal]; simp [fee, bond]
    try exact he.1
  · show (claim s.bank lock e).bal lock shareD = s.bank.bal lock shareD
    rw [claim_bal]; simp [fee, bond, shareD]
  · show s.bank.bal "plock" bond ≤ (claim s.bank lock e).bal "plock" bond
    rw [claim_bal]; simp [lock]

theorem inv_pxWithdrawReward {s s' : St} {d c sd : Addr} {e : Ext} (hI : Inv s) (he : extOk e)
    (h : doPxWithdrawReward s d c sd e = .ok s') : Inv s' := by
  simp only [doPxWithdrawReward] at h
  split at h; · simp at h
  split at h; · simp at h
  split at h; · simp at h
  simp only [Res.ok.injEq] at h
  subst h
  have hp : proxyOf d ≠ lock := by unfold proxyOf lock; split <;> decide
  refine inv_mono hI rfl rfl rfl rfl rfl rfl rfl rfl rfl rfl rfl rfl rfl ?_ ?_ ?_
  · show s.bank.bal lock fee ≤ (claim s.bank (proxyOf d) e).bal lock fee
    rw [claim_bal]; simp [Ne.symm hp]
  · show (claim s.bank (proxyOf d) e).bal lock shareD = s.bank.bal lock shareD
    rw [claim_bal]; simp [fee, bond, shareD]
  · show s.bank.bal "plock" bond ≤ (claim s.bank (proxyOf d) e).bal "plock" bond
    rw [claim_bal]; simp [fee, bond]
    have := he.2
    split <;> omega

theorem nv_reject_zero : kUndelReject .nv 0 = true := by decide

theorem blocked_nv_iff {s : St} (hv : s.variant = .nv) :
    blocked s = false ↔ ∀ h, s.entries.head? = some h → s.now < h.endT := by
  unfold blocked
  cases he : s.entries with
  | nil => simp
  | cons e r => simp [hv, nv_reject_zero]

theorem inv_block {s s' : St} {t : Int} (hI : Inv s) (h : doBlock s t = .ok s') : Inv s' := by
  simp only [doBlock] at h
  split at h; · simp at h
  rename_i hmono
  have hR := release_facts t s.ubds s.bank (fun u hu => (hI.ubd0 u hu).2) (ubdNonneg hI)
  simp only at hR
  generalize hrel : releaseUbds s.bank t s.ubds = rel at h hR
  obtain ⟨b1, ub⟩ := rel
  simp only at h hR
  obtain ⟨r1, r2, r3, r4, r5⟩ := hR
  cases hp : payScUnb b1 t s.scUnb with
  | none => simp [hp] at h
  | some p =>
    obtain ⟨b2, sc⟩ := p
    simp only [hp, Res.ok.injEq] at h
    subst h
    obtain ⟨p1, p2, p3, p4, p5, p6⟩ := pay_facts t s.scUnb b1 b2 sc hI.sc0 hp
    have hnow : s.now ≤ t := by omega
    have hL : ∀ t', lockedT { s with bank := b2, ubds := ub, scUnb := sc, now := t, height := s.height + 1 } t' = lockedT s t' := fun _ => rfl
    have hC : custody s ≤ custody { s with bank := b2, ubds := ub, scUnb := sc, now := t, height := s.height + 1 } := by
      unfold custody
      have e1 := r1 lock
      have e2 := r2 lock
      have e3 := p3 lock
      cases hv : s.variant <;> simp only [hv] <;> omega
    constructor
    · exact hI.ol0
    · exact hI.ut0
    · exact hI.dv0
    · exact hI.df0
    · show 0 ≤ b2.bal lock fee
      have := hI.bL0; have := r1 lock; omega
    · show 0 ≤ b2.bal lock shareD
      rw [p3, r2]; exact hI.bS0
    · show 0 ≤ b2.bal "plock" bond
      have := hI.bP0; omega
    · exact hI.st0
    · intro u hu; exact hI.ubd0 u (r5 u hu)
    · intro u hu; exact hI.sc0 u (p5 u hu)
    · intro hc t' l ht' hl
      have := hI.cover hc t' l (by show s.now ≤ t'; have : t ≤ t' := ht'; omega) hl
      show l - s.DV ≤ b2.bal lock fee
      have := r1 lock; omega
    · have := hI.tracked
      unfold actualDelegated at this ⊢
      have e2 := r2 lock
      have e3 := p3 lock
      cases hv : s.variant <;> simp only [hv] at this ⊢ <;> omega
    · intro hv hb
      have hv' : s.variant = .nv := hv
      have hb2 := (blocked_nv_iff (s := { s with bank := b2, ubds := ub, scUnb := sc, now := t, height := s.height + 1 }) hv).1 hb
      have hall : ∀ u ∈ s.scUnb, t < u.completion := by
        intro u hu
        obtain ⟨hd, hh, hle⟩ := hI.scHead u hu
        have := hb2 hd hh
        have : t < hd.endT := this
        omega
      obtain ⟨eb, el⟩ := p6 hall
      have hbs : blocked s = false := (blocked_nv_iff hv').2 (fun hd hh => by have := hb2 hd hh; have : t < hd.endT := this; omega)
      have := hI.liveNv hv' hbs
      show s.DV + s.DF ≤ b2.bal lock shareD + sumUnb lock sc
      rw [el, eb, r2]; exact this
    · intro u hu; exact hI.scHead u (p5 u hu)
    · intro hd hh
      have := hI.headUt hd hh
      have := hI.ut0
      show hd.endT ≤ t + s.ut
      omega
    · intro hc t' l ht' hl
      have := hI.cust hc t' l (by show s.now ≤ t'; have : t ≤ t' := ht'; omega) hl
      omega
    · intro hc
      have hnil := hI.pre hc
      show sc = []
      cases sc with
      | nil => rfl
      | cons u r => have := p5 u (by simp); rw [hnil] at this; simp at this

theorem inv_nvUndelegate {s s' : St} {c sd : Addr} {vo : Bool} {d : Denom} {amt : Int} {e : Ext} (hI : Inv s)
    (ho : extOk e ∧ e.share = amt) (h : doNvUndelegate s c sd vo d amt e = .ok s') : Inv s' := by
  simp only [doNvUndelegate] at h
  split at h; · simp at h
  rename_i hcv
  split at h; · simp at h
  split at h; · simp at h
  split at h; · simp at h
  rename_i hpos
  split at h; · simp at h
  split at h; · simp at h
  obtain ⟨b1, hb1, h⟩ := Bank.bind_ok h
  obtain ⟨b2, hb2, h⟩ := Bank.bind_ok h
  obtain ⟨_, hle, eb1⟩ := Bank.send_ok hb1
  obtain ⟨_, _, eb2⟩ := Bank.burn_ok hb2
  simp only [Res.ok.injEq] at h
  subst h eb2 eb1
  obtain ⟨⟨hrf, hrb⟩, hsh⟩ := ho
  have hv : s.variant = .nv := by
    simp only [Bool.or_eq_true, Bool.not_eq_true', decide_eq_true_eq, not_or] at hcv
    have := hcv.2; simpa using this
  rw [claim_bal] at hle
  simp [fee, bond, shareD, lock] at hle
  -- the three tracked balances after the handler
  have fL : (((claim s.bank lock e).credit lock shareD (-e.share)).credit scMod shareD e.share |>.credit scMod shareD (-e.share) |>.addSupply shareD (-e.share)).bal lock fee
      = s.bank.bal lock fee + e.rewFee := by
    simp [Bank.credit_bal, claim_bal, fee, bond, shareD, lock, scMod]
  have fS : (((claim s.bank lock e).credit lock shareD (-e.share)).credit scMod shareD e.share |>.credit scMod shareD (-e.share) |>.addSupply shareD (-e.share)).bal lock shareD
      = s.bank.bal lock shareD - e.share := by
    simp [Bank.credit_bal, claim_bal, fee, bond, shareD, lock, scMod]; omega
  have fP : (((claim s.bank lock e).credit lock shareD (-e.share)).credit scMod shareD e.share |>.credit scMod shareD (-e.share) |>.addSupply shareD (-e.share)).bal "plock" bond
      = s.bank.bal "plock" bond := by
    simp [Bank.credit_bal, claim_bal, fee, bond, shareD, lock, scMod]
  obtain ⟨hd', hhd', hnil, hcons⟩ := head_addEntry s.entries s.height (s.now + s.ut) amt
  have hamt : 0 < amt := by omega
  constructor
  · exact hI.ol0
  · exact hI.ut0
  · exact hI.dv0
  · exact hI.df0
  · show 0 ≤ Bank.bal _ lock fee
    rw [fL]; have := hI.bL0; omega
  · show 0 ≤ Bank.bal _ lock shareD
    rw [fS]; simp [shareD, lock] at hle ⊢; omega
  · show 0 ≤ Bank.bal _ "plock" bond
    rw [fP]; exact hI.bP0
  · exact hI.st0
  · exact hI.ubd0
  · intro u hu
    simp only [List.mem_append, List.mem_singleton] at hu
    rcases hu with hu | hu
    · exact hI.sc0 u hu
    · subst hu; exact ⟨by show 0 ≤ amt; omega, rfl⟩
  · intro hc t l ht hl
    have := hI.cover hc t l ht hl
    show l - s.DV ≤ Bank.bal _ lock fee
    rw [fL]; omega
  · have := hI.tracked
    unfold actualDelegated at this ⊢
    simp only [hv] at this ⊢
    show s.DV + s.DF ≤ Bank.bal _ lock shareD + sumEntries (addEntry s.entries s.height (s.now + s.ut) amt)
    rw [fS, sumEntries_addEntry]; omega
  · intro _ hb
    have hb2 := (blocked_nv_iff (s := { s with bank := _, scUnb := s.scUnb ++ [⟨lock, amt, s.now + s.ut⟩], entries := addEntry s.entries s.height (s.now + s.ut) amt }) hv).1 hb
    have hbs : blocked s = false := (blocked_nv_iff hv).2 (fun h0 hh0 => by
      have := hb2 hd' hhd'
      have e := hcons h0 hh0
      have : s.now < hd'.endT := this
      omega)
    have := hI.liveNv hv hbs
    show s.DV + s.DF ≤ Bank.bal _ lock shareD + sumUnb lock (s.scUnb ++ [⟨lock, amt, s.now + s.ut⟩])
    rw [fS, sumUnb_append]; simp; omega
  · intro u hu
    simp only [List.mem_append, List.mem_singleton] at hu
    refine ⟨hd', hhd', ?_⟩
    rcases hu with hu | hu
    · obtain ⟨h0, hh0, hle0⟩ := hI.scHead u hu
      rw [hcons h0 hh0]; exact hle0
    · subst hu
      show hd'.endT ≤ s.now + s.ut
      cases hes : s.entries with
      | nil => rw [hnil hes]
      | cons x r =>
        have hh0 : s.entries.head? = some x := by simp [hes]
        rw [hcons x hh0]; exact hI.headUt x hh0
  · intro h0 hh0
    have : h0 = hd' := by
      have : (addEntry s.entries s.height (s.now + s.ut) amt).head? = some h0 := hh0
      rw [hhd'] at this; exact (Option.some.inj this).symm
    subst this
    show h0.endT ≤ s.now + s.ut
    cases hes : s.entries with
    | nil => rw [hnil hes]
    | cons x r =>
      have hx : s.entries.head? = some x := by simp [hes]
      rw [hcons x hx]; exact hI.headUt x hx
  · intro hc t l ht hl
    have := hI.cust hc t l ht hl
    unfold custody at this ⊢
    simp only [hv] at this ⊢
    show l ≤ Bank.bal _ lock fee + Bank.bal _ lock shareD + sumUnb lock (s.scUnb ++ [⟨lock, amt, s.now + s.ut⟩])
    rw [fL, fS, sumUnb_append]; simp; omega
  · intro hc
    simp only [Bool.or_eq_true, Bool.not_eq_true', decide_eq_true_eq, not_or] at hcv
    have h1 := hcv.1
    have hc' : s.created = false := hc
    rw [hc'] at h1; simp at h1

theorem trackDel_facts {v : Variant} {bal locked dv df amt dv' df' : Int} (ha : 0 ≤ amt)
    (h : trackDelegation v bal locked dv df amt = some (dv', df')) :
    ∃ x, 0 ≤ x ∧ x ≤ amt ∧ x ≤ max (locked - dv) 0 ∧ (x = amt ∨ locked - dv ≤ x) ∧ dv' = dv + x ∧ df' = df + (amt - x)
      ∧ amt ≠ 0 ∧ amt ≤ bal := by
  have hv : ∃ sd, v = vOf sd := by cases v; exact ⟨false, rfl⟩; exact ⟨true, rfl⟩
  obtain ⟨sd, rfl⟩ := hv
  have b1 := trackDel_bound sd locked dv amt ha
  have b2 := trackDel_lockedFirst sd locked dv amt ha
  have b3 := trackDel_split sd locked dv amt
  have c1 := track_coinArith sd dv (kDelX (vOf sd) locked dv amt)
  have c2 := track_coinArith sd df (kDelY (vOf sd) amt (kDelX (vOf sd) locked dv amt))
  unfold S_trackDel_split at b3
  unfold trackDelegation at h
  split at h; · simp at h
  rename_i hrej
  simp only [Option.some.injEq, Prod.mk.injEq] at h
  obtain ⟨e1, e2⟩ := h
  refine ⟨kDelX (vOf sd) locked dv amt, b1.1, b1.2.2, b1.2.1, b2, ?_, ?_, ?_, ?_⟩
  · rw [← e1]
    split
    · exact c1.1
    · rename_i hz
      cases sd <;> simp [vOf, kDelSetDV, nv_trackDel_setDV, sd_trackDel_setDV, Int.isZeroB] at hz <;> simp [vOf] <;> omega
  · rw [← e2]
    split
    · rw [c2.2.1]; omega
    · rename_i hz
      cases sd <;> simp [vOf, kDelSetDF, nv_trackDel_setDF, sd_trackDel_setDF, Int.isZeroB] at hz <;> simp [vOf] at b3 ⊢ <;> omega
  · intro hz; subst hz
    cases sd <;> simp [vOf, kDelReject, nv_trackDel_reject, sd_trackDel_reject, Int.isZeroB] at hrej
  · cases sd <;> simp [vOf, kDelReject, nv_trackDel_reject, sd_trackDel_reject, Int.isZeroB] at hrej <;> omega

theorem convReverse_other {b b' : Bank} {holder : Addr} {amt : Int} (hh : holder ≠ Convert.moduleAcc)
    (h : Convert.convertReverse bond fee b holder amt = .ok b') :
    ∀ a d, a ≠ holder → a ≠ Convert.moduleAcc → b'.bal a d = b.bal a d :=
  (C13.swapDenoms_exact b b' holder fee bond amt (by decide) hh h).2.2.2.2.2.2.1

theorem inv_nvDelegate {s s' : St} {c sd : Addr} {vo : Bool} {d : Denom} {amt : Int} {e : Ext} (hI : Inv s)
    (ho : extOk e ∧ e.share = amt) (h : doNvDelegate s c sd vo d amt e = .ok s') : Inv s' := by
  simp only [doNvDelegate] at h
  split at h; · simp at h
  rename_i hcv
  split at h; · simp at h
  split at h; · simp at h
  obtain ⟨locked, hl, h⟩ := Bank.bind_ok h
  split at h; · simp at h
  rename_i hb
  split at h; · simp at h
  rename_i hneg
  split at h; · simp at h
  rename_i dv df htd
  split at h; · simp at h
  split at h; · simp at h
  obtain ⟨b1, hb1, h⟩ := Bank.bind_ok h
  obtain ⟨b2, hb2, h⟩ := Bank.bind_ok h
  obtain ⟨b3, hb3, h⟩ := Bank.bind_ok h
  obtain ⟨b4, hb4, h⟩ := Bank.bind_ok h
  obtain ⟨b5, hb5, h⟩ := Bank.bind_ok h
  simp only [Res.ok.injEq] at h
  subst h
  obtain ⟨⟨hrf, hrb⟩, hsh⟩ := ho
  have ha : 0 ≤ amt := by omega
  obtain ⟨x, x0, xa, xm, xf, edv, edf, anz, able⟩ := trackDel_facts ha htd
  have hv : s.variant = .nv := by
    simp only [Bool.or_eq_true, Bool.not_eq_true', decide_eq_true_eq, not_or] at hcv
    have := hcv.2; simpa using this
  have hcr : s.created = true := by
    simp only [Bool.or_eq_true, Bool.not_eq_true', decide_eq_true_eq, not_or] at hcv
    have := hcv.1; simpa using this
  have hbl : blocked s = false := by simpa using hb
  have hl' : lockedT s s.now = .ok locked := hl
  have hr := lockedT_range hI hl'
  obtain ⟨_, _, e1⟩ := Bank.send_ok hb1
  have hconv := convReverse_other (by decide : scMod ≠ Convert.moduleAcc) hb2
  obtain ⟨_, _, e3⟩ := Bank.send_ok hb3
  obtain ⟨_, e4⟩ := Bank.mint_ok hb4
  obtain ⟨_, _, e5⟩ := Bank.send_ok hb5
  have fL : b5.bal lock fee = s.bank.bal lock fee + e.rewFee - amt := by
    subst e5 e4 e3
    have := hconv lock fee (by decide) (by decide)
    simp [Bank.credit_bal, fee, bond, shareD, lock, scMod, stakingPool] at this ⊢
    rw [this, e1]
    simp [Bank.credit_bal, claim_bal, fee, bond, shareD, lock, scMod]; omega
  have fS : b5.bal lock shareD = s.bank.bal lock shareD + e.share := by
    subst e5 e4 e3
    have := hconv lock shareD (by decide) (by decide)
    simp [Bank.credit_bal, fee, bond, shareD, lock, scMod, stakingPool] at this ⊢
    rw [this, e1]
    simp [Bank.credit_bal, claim_bal, fee, bond, shareD, lock, scMod]
  have fP : b5.bal "plock" bond = s.bank.bal "plock" bond := by
    subst e5 e4 e3
    have := hconv "plock" bond (by decide) (by decide)
    simp [Bank.credit_bal, fee, bond, shareD, lock, scMod, stakingPool] at this ⊢
    rw [this, e1]
    simp [Bank.credit_bal, claim_bal, fee, bond, shareD, lock, scMod]
  have key : ∀ t l, s.now ≤ t → lockedT s t = .ok l → l ≤ locked := fun t l ht hlt => lockedT_antitone hI ht hl' hlt
  have hbal : amt ≤ s.bank.bal lock fee := able
  constructor
  · exact hI.ol0
  · exact hI.ut0
  · show 0 ≤ dv; have := hI.dv0; omega
  · show 0 ≤ df; have := hI.df0; omega
  · show 0 ≤ b5.bal lock fee; rw [fL]; omega
  · show 0 ≤ b5.bal lock shareD; rw [fS]; have := hI.bS0; omega
  · show 0 ≤ b5.bal "plock" bond; rw [fP]; exact hI.bP0
  · exact hI.st0
  · exact hI.ubd0
  · exact hI.sc0
  · intro hc t l ht hlt
    have h1 := hI.cover hc t l ht hlt
    have h2 := key t l ht hlt
    show l - dv ≤ b5.bal lock fee
    rw [fL, edv]
    rcases xf with hx | hx <;> omega
  · have := hI.tracked
    unfold actualDelegated at this ⊢
    simp only [hv] at this ⊢
    show dv + df ≤ b5.bal lock shareD + sumEntries s.entries
    rw [fS]; omega
  · intro _ _
    have := hI.liveNv hv hbl
    show dv + df ≤ b5.bal lock shareD + sumUnb lock s.scUnb
    rw [fS]; omega
  · exact hI.scHead
  · exact hI.headUt
  · intro hc t l ht hlt
    have := hI.cust hc t l ht hlt
    unfold custody at this ⊢
    simp only [hv] at this ⊢
    show l ≤ b5.bal lock fee + b5.bal lock shareD + sumUnb lock s.scUnb
    rw [fL, fS]; omega
  · intro hc
    have hc' : s.created = false := hc
    rw [hcr] at hc'; simp at hc'

theorem lockedAt_le_ol (v : Variant) (ol st en t l : Int) (ho : 0 ≤ ol) (hl : lockedAt v ol st en t = .ok l) : l ≤ ol := by
  have hv : ∃ sd, v = vOf sd := by cases v; exact ⟨false, rfl⟩; exact ⟨true, rfl⟩
  obtain ⟨sd, rfl⟩ := hv
  unfold lockedAt at hl
  have := schedule_range sd ol st en t
  unfold S_schedule_range lockOk unlockedVal lockedVal at this
  cases hi : lockInfo (vOf sd) ol st en t with
  | ok p =>
    simp [hi, Res.bind] at hl
    have := this ho (by simp [hi, Res.isOk])
    simp [hi] at this
    omega
  | err c => simp [hi, Res.bind] at hl
  | panic k => simp [hi, Res.bind] at hl

theorem inv_init {s s' : St} {v : Variant} {funder owner : Addr} {funds : Int} {sz : Bool} {st : Int} {ez : Bool} {en : Int}
    (hI : Inv s) (ho : funder ≠ lock) (h : doInit s v funder owner funds sz st ez en = .ok s') : Inv s' := by
  simp only [doInit] at h
  split at h; · simp at h
  rename_i hnc
  split at h; · simp at h
  rename_i hf
  split at h; · simp at h
  split at h; · simp at h
  obtain ⟨b, hb, h⟩ := Bank.bind_ok h
  simp only [Res.ok.injEq] at h
  subst h
  have hf0 : 0 ≤ funds := by omega
  have hnil : s.scUnb = [] := hI.pre (by simpa using hnc)
  have fL : b.bal lock fee = s.bank.bal lock fee + funds := by
    split at hb
    · rename_i hz; simp only [Res.ok.injEq] at hb; subst hb; omega
    · obtain ⟨_, _, e⟩ := Bank.send_ok hb
      subst e
      have : ¬ (lock = funder) := fun c => ho c.symm
      simp [Bank.credit_bal, this]
  have fS : b.bal lock shareD = s.bank.bal lock shareD := by
    split at hb
    · simp only [Res.ok.injEq] at hb; subst hb; rfl
    · obtain ⟨_, _, e⟩ := Bank.send_ok hb
      subst e; simp [Bank.credit_bal, fee, shareD]
  have fP : b.bal "plock" bond = s.bank.bal "plock" bond := by
    split at hb
    · simp only [Res.ok.injEq] at hb; subst hb; rfl
    · obtain ⟨_, _, e⟩ := Bank.send_ok hb
      subst e; simp [Bank.credit_bal, fee, bond]
  have hsu := sumUnb_nonneg "plock" s.ubds (ubdNonneg hI)
  constructor
  · exact hf0
  · exact hI.ut0
  · show (0:Int) ≤ 0; omega
  · show (0:Int) ≤ 0; omega
  · show 0 ≤ b.bal lock fee; rw [fL]; have := hI.bL0; omega
  · show 0 ≤ b.bal lock shareD; rw [fS]; exact hI.bS0
  · show 0 ≤ b.bal "plock" bond; rw [fP]; exact hI.bP0
  · exact hI.st0
  · exact hI.ubd0
  · exact hI.sc0
  · intro _ t l _ hl
    have := lockedAt_le_ol _ _ _ _ _ _ hf0 hl
    show l - 0 ≤ b.bal lock fee
    rw [fL]; have := hI.bL0; omega
  · unfold actualDelegated
    have := hI.bS0; have := hI.st0; have := hI.bP0
    cases v <;> simp [sumEntries, fS, fP] <;> omega
  · intro _ _
    show (0:Int) + 0 ≤ b.bal lock shareD + sumUnb lock s.scUnb
    rw [fS, hnil]; simp [sumUnb]; exact hI.bS0
  · intro u hu
    have : u ∈ s.scUnb := hu
    rw [hnil] at this; simp at this
  · intro h0 hh0
    have : ([] : List Entry).head? = some h0 := hh0
    simp at this
  · intro _ t l _ hl
    have := lockedAt_le_ol _ _ _ _ _ _ hf0 hl
    unfold custody
    have := hI.bS0; have := hI.st0; have := hI.bP0; have := hI.bL0
    have hs : s.scUnb = [] := hnil
    cases v <;> simp [fL, fS, fP, hs, sumUnb] <;> omega
  · intro hc; simp at hc

theorem proxyOf_cases (d : Addr) : (proxyOf d = "plock") ∨ (proxyOf d = "pown") := by
  unfold proxyOf; split <;> simp

theorem inv_pxUndelegate {s s' : St} {d c sd : Addr} {amt : Int} {e : Ext} (hI : Inv s) (he : extOk e)
    (h : doPxUndelegate s d c sd amt e = .ok s') : Inv s' := by
  simp only [doPxUndelegate] at h
  split at h; · simp at h
  split at h; · simp at h
  split at h; · simp at h
  rename_i hneg
  split at h; · simp at h
  rename_i hz
  split at h; · simp at h
  split at h; · simp at h
  rename_i hst
  simp only [Res.ok.injEq] at h
  subst h
  have hamt : 0 < amt := by omega
  have hpl : proxyOf d ≠ lock := by unfold proxyOf lock; split <;> decide
  have fL : (claim s.bank (proxyOf d) e).bal lock fee = s.bank.bal lock fee := by
    rw [claim_bal]; simp [Ne.symm hpl]
  have fS : (claim s.bank (proxyOf d) e).bal lock shareD = s.bank.bal lock shareD := by
    rw [claim_bal]; simp [fee, bond, shareD]
  have hsu := sumUnb_append "plock" s.ubds ⟨proxyOf d, amt, s.now + s.ut⟩
  rcases proxyOf_cases d with hp | hp
  · -- the lockup's own proxy: stake moves into the unbonding list
    have fP : (claim s.bank (proxyOf d) e).bal "plock" bond = s.bank.bal "plock" bond + e.rewBond := by
      rw [claim_bal, hp]; simp [fee, bond]
    rw [hp] at hst
    have hsu : sumUnb "plock" (s.ubds ++ [⟨proxyOf d, amt, s.now + s.ut⟩]) = sumUnb "plock" s.ubds + amt := by
      rw [hsu]; simp [hp]
    constructor
    · exact hI.ol0
    · exact hI.ut0
    · exact hI.dv0
    · exact hI.df0
    · show 0 ≤ (claim s.bank (proxyOf d) e).bal lock fee; rw [fL]; exact hI.bL0
    · show 0 ≤ (claim s.bank (proxyOf d) e).bal lock shareD; rw [fS]; exact hI.bS0
    · show 0 ≤ (claim s.bank (proxyOf d) e).bal "plock" bond; rw [fP]; have := hI.bP0; have := he.2; omega
    · show 0 ≤ (if "plock" = proxyOf d then s.stake (proxyOf d) - amt else s.stake "plock")
      rw [hp]; simp; omega
    · intro u hu
      simp only [List.mem_append, List.mem_singleton] at hu
      rcases hu with hu | hu
      · exact hI.ubd0 u hu
      · subst hu; exact ⟨by show 0 ≤ amt; omega, Or.inl hp⟩
    · exact hI.sc0
    · intro hc t l ht hl
      have := hI.cover hc t l ht hl
      show l - s.DV ≤ (claim s.bank (proxyOf d) e).bal lock fee
      rw [fL]; exact this
    · have := hI.tracked
      have := he.2
      unfold actualDelegated at *
      cases hv : s.variant <;> simp only [hv] at *
      · show s.DV + s.DF ≤ (claim s.bank (proxyOf d) e).bal lock shareD + sumEntries s.entries
        rw [fS]; assumption
      · show s.DV + s.DF ≤ (if "plock" = proxyOf d then s.stake (proxyOf d) - amt else s.stake "plock")
            + sumUnb "plock" (s.ubds ++ [⟨proxyOf d, amt, s.now + s.ut⟩]) + (claim s.bank (proxyOf d) e).bal "plock" bond
        rw [fP, hsu]
        have e1 : (if "plock" = proxyOf d then s.stake (proxyOf d) - amt else s.stake "plock") = s.stake "plock" - amt := by
          rw [hp]; simp
        rw [e1]; omega
    · intro hv hb
      have := hI.liveNv hv hb
      show s.DV + s.DF ≤ (claim s.bank (proxyOf d) e).bal lock shareD + sumUnb lock s.scUnb
      rw [fS]; exact this
    · exact hI.scHead
    · exact hI.headUt
    · intro hc t l ht hl
      have := hI.cust hc t l ht hl
      have := he.2
      unfold custody at *
      cases hv : s.variant <;> simp only [hv] at *
      · show l ≤ (claim s.bank (proxyOf d) e).bal lock fee + (claim s.bank (proxyOf d) e).bal lock shareD + sumUnb lock s.scUnb
        rw [fL, fS]; assumption
      · show l ≤ (claim s.bank (proxyOf d) e).bal lock fee + (claim s.bank (proxyOf d) e).bal "plock" bond
            + (if "plock" = proxyOf d then s.stake (proxyOf d) - amt else s.stake "plock")
            + sumUnb "plock" (s.ubds ++ [⟨proxyOf d, amt, s.now + s.ut⟩])
        rw [fL, fP, hsu]
        have e1 : (if "plock" = proxyOf d then s.stake (proxyOf d) - amt else s.stake "plock") = s.stake "plock" - amt := by
          rw [hp]; simp
        rw [e1]; omega
    · exact hI.pre
  · -- somebody else's proxy: nothing of the lockup moves
    have fP : (claim s.bank (proxyOf d) e).bal "plock" bond = s.bank.bal "plock" bond := by
      rw [claim_bal, hp]; simp
    have hsu : sumUnb "plock" (s.ubds ++ [⟨proxyOf d, amt, s.now + s.ut⟩]) = sumUnb "plock" s.ubds := by
      rw [hsu]; simp [hp]
    have hstk : (if "plock" = proxyOf d then s.stake (proxyOf d) - amt else s.stake "plock") = s.stake "plock" := by
      rw [hp]; simp
    constructor
    · exact hI.ol0
    · exact hI.ut0
    · exact hI.dv0
    · exact hI.df0
    · show 0 ≤ (claim s.bank (proxyOf d) e).bal lock fee; rw [fL]; exact hI.bL0
    · show 0 ≤ (claim s.bank (proxyOf d) e).bal lock shareD; rw [fS]; exact hI.bS0
    · show 0 ≤ (claim s.bank (proxyOf d) e).bal "plock" bond; rw [fP]; exact hI.bP0
    · show 0 ≤ (if "plock" = proxyOf d then s.stake (proxyOf d) - amt else s.stake "plock")
      rw [hstk]; exact hI.st0
    · intro u hu
      simp only [List.mem_append, List.mem_singleton] at hu
      rcases hu with hu | hu
      · exact hI.ubd0 u hu
      · subst hu; exact ⟨by show 0 ≤ amt; omega, Or.inr hp⟩
    · exact hI.sc0
    · intro hc t l ht hl
      have := hI.cover hc t l ht hl
      show l - s.DV ≤ (claim s.bank (proxyOf d) e).bal lock fee
      rw [fL]; exact this
    · have := hI.tracked
      unfold actualDelegated at *
      cases hv : s.variant <;> simp only [hv] at *
      · show s.DV + s.DF ≤ (claim s.bank (proxyOf d) e).bal lock shareD + sumEntries s.entries
        rw [fS]; assumption
      · show s.DV + s.DF ≤ (if "plock" = proxyOf d then s.stake (proxyOf d) - amt else s.stake "plock")
            + sumUnb "plock" (s.ubds ++ [⟨proxyOf d, amt, s.now + s.ut⟩]) + (claim s.bank (proxyOf d) e).bal "plock" bond
        rw [fP, hstk, hsu]; omega
    · intro hv hb
      have := hI.liveNv hv hb
      show s.DV + s.DF ≤ (claim s.bank (proxyOf d) e).bal lock shareD + sumUnb lock s.scUnb
      rw [fS]; exact this
    · exact hI.scHead
    · exact hI.headUt
    · intro hc t l ht hl
      have := hI.cust hc t l ht hl
      unfold custody at *
      cases hv : s.variant <;> simp only [hv] at *
      · show l ≤ (claim s.bank (proxyOf d) e).bal lock fee + (claim s.bank (proxyOf d) e).bal lock shareD + sumUnb lock s.scUnb
        rw [fL, fS]; assumption
      · show l ≤ (claim s.bank (proxyOf d) e).bal lock fee + (claim s.bank (proxyOf d) e).bal "plock" bond
            + (if "plock" = proxyOf d then s.stake (proxyOf d) - amt else s.stake "plock")
            + sumUnb "plock" (s.ubds ++ [⟨proxyOf d, amt, s.now + s.ut⟩])
        rw [fL, fP, hstk, hsu]; omega
    · exact hI.pre

/-- the operations for which preservation of the invariant is proved (see design/C12.md for the ones left out) -/
def Core : Op → Prop
  | .init .. | .deposit .. | .block .. | .send .. | .nvDelegate .. | .nvUndelegate .. | .nvWithdrawReward ..
  | .pxUndelegate .. | .pxWithdrawReward .. | .pxSend .. => True
  | _ => False

theorem inv_halted {s : St} (hI : Inv s) : Inv { s with halted := true } :=
  ⟨hI.ol0, hI.ut0, hI.dv0, hI.df0, hI.bL0, hI.bS0, hI.bP0, hI.st0, hI.ubd0, hI.sc0, hI.cover, hI.tracked, hI.liveNv,
   hI.scHead, hI.headUt, hI.cust, hI.pre⟩

theorem inv_step {s : St} {op : Op} (hI : Inv s) (hc : Core op) (ho : OpOk op) : Inv (step s op).1 := by
  unfold step
  by_cases hh : s.halted
  · simp [hh]; exact hI
  · simp only [hh, Bool.false_eq_true, if_false]
    cases ha : Lockup.apply s op with
    | err c => cases op <;> first | exact hI | exact inv_halted hI
    | panic k => exact hI
    | ok s' =>
      show Inv s'
      cases op <;> simp only [Core] at hc <;> simp only [OpOk] at ho <;> simp only [Lockup.apply] at ha
      · exact inv_init hI ho ha
      · exact inv_deposit hI ho (by simpa [Lockup.apply] using ha)
      · exact inv_block hI ha
      · exact inv_send hI ha
      · exact inv_nvDelegate hI ho ha
      · exact inv_nvUndelegate hI ho ha
      · exact inv_nvWithdrawReward hI ho ha
      · exact inv_pxUndelegate hI ho ha
      · exact inv_pxWithdrawReward hI ho ha
      · exact inv_pxSend hI ha

/-- states from which histories start: no lockup account yet, nothing tracked, nothing unbonding, no negative balance -/
def Genesis (s : St) : Prop :=
  s.created = false ∧ s.halted = false ∧ s.DV = 0 ∧ s.DF = 0 ∧ s.OL = 0 ∧ s.entries = [] ∧ s.ubds = [] ∧ s.scUnb = []
  ∧ 0 ≤ s.ut ∧ 0 ≤ s.bank.bal lock fee ∧ 0 ≤ s.bank.bal lock shareD ∧ 0 ≤ s.bank.bal "plock" bond ∧ 0 ≤ s.stake "plock"

theorem inv_genesis {s : St} (g : Genesis s) : Inv s := by
  obtain ⟨g1, g2, g3, g4, g5, g6, g7, g8, g9, g10, g11, g12, g13⟩ := g
  constructor
  · omega
  · exact g9
  · omega
  · omega
  · exact g10
  · exact g11
  · exact g12
  · exact g13
  · intro u hu; rw [g7] at hu; simp at hu
  · intro u hu; rw [g8] at hu; simp at hu
  · intro hc; rw [g1] at hc; simp at hc
  · unfold actualDelegated; rw [g3, g4, g6, g7]; cases s.variant <;> simp [sumEntries, sumUnb] <;> omega
  · intro _ _; rw [g3, g4, g8]; simp [sumUnb]; exact g11
  · intro u hu; rw [g8] at hu; simp at hu
  · intro h0 hh0; rw [g6] at hh0; simp at hh0
  · intro hc; rw [g1] at hc; simp at hc
  · intro _; exact g8

/-- invariant by induction over operation lists of any length, with arbitrary amounts, callers and block times -/
theorem inv_run (ops : List Op) : ∀ (s : St), Inv s → (∀ op ∈ ops, Core op ∧ OpOk op) → Inv (run s ops) := by
  induction ops with
  | nil => intro s hI _; exact hI
  | cons op r ih =>
    intro s hI hall
    have h1 := hall op (by simp)
    exact ih (step s op).1 (inv_step hI h1.1 h1.2) (fun o ho => hall o (by simp [ho]))

/-- **outflow_bound** — in every state reachable from a genesis state, at the current block time and at any later one,
    the custody set (the account's fee balance, its share tokens / its proxy's stake, and the unbondings on their way back)
    is worth at least what the schedule still keeps locked.  Equivalently: cumulative outflow ≤ unlocked(t) + inflows. -/
theorem outflow_bound (s0 : St) (ops : List Op) (g : Genesis s0) (hops : ∀ op ∈ ops, Core op ∧ OpOk op)
    (hc : (run s0 ops).created = true) (t l : Int) (ht : (run s0 ops).now ≤ t) (hl : lockedT (run s0 ops) t = .ok l) :
    l ≤ custody (run s0 ops) :=
  (inv_run ops s0 (inv_genesis g) hops).cust hc t l ht hl

/-- **tracked_le_actual** — DV + DF never exceed what is delegated, unbonding, or unbonded-and-not-yet-tracked
    (sd: the proxy's stake + unbondings + bond balance; nv: share tokens + recorded unbond entries); no-slash hypothesis
    = `OpOk` (share price 1) and the model's staking never reducing a stake -/
theorem tracked_le_actual (s0 : St) (ops : List Op) (g : Genesis s0) (hops : ∀ op ∈ ops, Core op ∧ OpOk op) :
    0 ≤ (run s0 ops).DV ∧ 0 ≤ (run s0 ops).DF ∧ (run s0 ops).DV + (run s0 ops).DF ≤ actualDelegated (run s0 ops) :=
  let h := inv_run ops s0 (inv_genesis g) hops
  ⟨h.dv0, h.df0, h.tracked⟩

/-! ### non-vacuity: a concrete history meets every hypothesis of the theorems above and exercises the interesting branches
    (delegation of locked coins, a partial unlock, a send, an undelegation that matures, the blocked state afterwards) -/
def exGenesis : St := { bank := Bank.empty.credit "a1" fee 5000, now := 100000000000, ut := 20000000000 }
def exOps : List Op := [
  .init .nv "a1" "a0" 1000 false 110000000000 false 210000000000,
  .nvDelegate "a0" "a0" true fee 600 { share := 600 },
  .block 160000000000,
  .send "a0" "a0" "a2" fee 300,
  .nvUndelegate "a0" "a0" true fee 100 { share := 100, rewFee := 4 },
  .block 181000000000 ]

example : Genesis exGenesis := by
  refine ⟨rfl, rfl, rfl, rfl, rfl, rfl, rfl, rfl, ?_, ?_, ?_, ?_, ?_⟩ <;> decide
example : ∀ op ∈ exOps, Core op ∧ OpOk op := by
  intro op h
  simp only [exOps, List.mem_cons, List.mem_nil_iff, or_false] at h
  rcases h with h | h | h | h | h | h <;> subst h <;> simp [Core, OpOk, extOk, lock]
example : (run exGenesis exOps).created = true ∧ (run exGenesis exOps).DV = 600 ∧ blocked (run exGenesis exOps) = true
    ∧ (run exGenesis exOps).bank.bal "a2" fee = 300 ∧ custody (run exGenesis exOps) = 704
    ∧ (match lockedT (run exGenesis exOps) 181000000000 with | .ok v => v | _ => -1) = 290 := by decide

/-- The self-delegatable lockup's SelfDelegate / WithdrawSelfDelegationUnbonded and the tracking code behind them cannot be
    reached on the real application (x/selfdelegation's getRootOwner fails first), so no correspondence run ties their
    model to the code. The model in `Model/Lockup.lean` was written against exactly these sources; an edit of any of them
    re-opens this obligation until the model has been re-read (the check then reports `no-failing-input-found`). -/
theorem sd_unreachable_sources_pinned :
    Sunrise.Gen.Anchors.anchors =
      [("x/accounts/self_delegatable_lockup/lockup.go", "BaseLockup.TrackDelegation", "57226956ca75a22c"),
       ("x/accounts/self_delegatable_lockup/lockup.go", "BaseLockup.TrackUndelegation", "28456dd62d49a297"),
       ("x/accounts/self_delegatable_lockup/lockup.go", "BaseLockup.SelfDelegate", "6f35b30ab35a160f"),
       ("x/accounts/self_delegatable_lockup/lockup.go", "BaseLockup.WithdrawSelfDelegationUnbonded", "d7146a2bd077903a"),
       -- the x/selfdelegation handlers they call: exactly msg.Amount goes to the proxy and is delegated / comes back
       -- (re-read against the model on 2026-10-01)
       ("x/selfdelegation/keeper/msg_server_self_delegate.go", "msgServer.SelfDelegate", "092911bad3bf4947"),
       ("x/selfdelegation/keeper/msg_server_withdraw_self_delegation_unbonded.go", "msgServer.WithdrawSelfDelegationUnbonded", "099812f8c396cadd")] := by
  decide

end Sunrise.C12
