import SunriseVerif.Model.ShareClass
import SunriseVerif.Model.SCAccrual
import SunriseVerif.Model.SCAccrualAbs
import SunriseVerif.Props.C10
import SunriseVerif.Props.C10Accrual
import Mathlib.Tactic.Linarith
import Mathlib.Tactic.Ring
import Mathlib.Tactic.NormNum
/-!
C10 (refinement) — the store-level model of x/shareclass (`Model/ShareClass.lean`) refines the reward-accounting abstraction
(`Model/SCAccrual.lean`) through the abstraction function `absSC` of `Model/SCAccrualAbs.lean`, operation by operation, for
ALL states and arguments.  This is what the header of `Props/C10Accrual.lean` lists as "not proved here" and what the driver
only CHECKS at run time (`lockstepSC`).  `absSC s v d accs` = per validator `v`, reward denom `d`, holder list `accs`:
multiplier `valD (mult v d)`, holder k = ⟨share balance of accs[k], valD (last accs[k] v d)⟩; the ghost totals
`recv/paid/slack` are not part of `absSC`, so "leads to the abstraction of the next state" is stated on `.M` and `.users`.

Glue: `valD_eq_val` (the executable value function of the lock-step = `C10.val` of the kernel proofs), `K_eq`.

1. `claim_refines`        — a successful `claimRewards s u v`, `u = accs[i]`: `absSC` moves by `step · (.claim i pay e)`,
                            `pay` = amount of `d` in the coins paid = `payOf` (`amt_claimable`); share balances of ALL
                            accounts are unchanged because a claim pays fee/bond coins only (`claimable_no_share`: proved,
                            not assumed).  `claim_refines_guard`: guard and tightness with e = accrual/K
                            (from `claim_guard_kernel`); `claim_refines_step`: both packaged as ∃ op.
2. `claim_frame`          — nothing else moves: multipliers, all share balances, all checkpoints except (u, v);
                            `absSC` of every other validator, and of `v` over lists without `u`, is the same state.
3. `reward_refines`       — `handleRewards s v coins`, main branch (forwarding succeeded, supply T > 0), coin `(d, R)`, R > 0,
                            distinct denoms: `absSC` moves by `step · (.reward R M' (R/K))`,
                            M' = valD (reparse (CalculateRewardMultiplierNew (mult v d) R T)); guard and tightness from
                            `reward_guard_op`.  `reward_mult`: the multiplier for arbitrary coin lists (repeated denoms:
                            `multFold`); `reward_frame`: other validators / denoms not among the coins: same state;
                            `reward_noop`: the branches without multiplier update are `rewardNoShares`;
                            `reward_users`: no holder record changes; `reward_send_ok`: the forwarding succeeds when the
                            coins and the module account's balances are non-negative.
4. `delegate_refines`, `undelegate_refines` — `claim i pay e` then `setShares i (±share)`, with the guard of `setShares`
                            (checkpoint = multiplier, balance ≥ 0) in the intermediate state; `delegate_frame`,
                            `undelegate_frame`: other validators' abstractions unchanged.

Hypotheses used, all invariants of reachable states: `accs.Nodup`; `hasMult v d = true` or `C10.WF s`
(`C10.wf_reachable`); checkpoint ≤ multiplier and share balance ≥ 0 for the claimer (`SCAccrual.Inv.wf`); the abstraction's
supply is the bank's share supply (`accs` lists every holder; bank invariant supply = Σ balances); the module account is
not a holder; reward coins are not share tokens.
Not proved: the end-blocker as a whole (`endBlock` = credit of matured bond tokens, a fold of `handleRewards` over validators,
the garbage collector, which touches neither multipliers, checkpoints nor — for accounts other than the module account and
the converter — share balances) and the assembly into one simulation theorem over `ShareClass.step` histories with the ghost
totals `recv/paid/slack` (that needs the bank invariant supply = Σ balances over an explicit, growing holder list: `join`).
-/
set_option linter.unusedSimpArgs false
set_option linter.unusedVariables false
namespace Sunrise.C10Refine
open Sunrise Sunrise.Bank

abbrev SSt := ShareClass.St
abbrev Coins := ShareClass.Coins
abbrev Val := ShareClass.Val

-- ------------------------------------------------------------------------------------------------ values
theorem pow10_eq (n : Nat) : SCAccrual.pow10 n = (10 : ℚ) ^ n := by
  simp [SCAccrual.pow10]

/-- the executable value function of the lock-step (`valD`) is the value function of the kernel proofs (`val`) -/
theorem valD_eq_val (x : D34) : SCAccrual.valD x = C10.val x := by
  unfold SCAccrual.valD C10.val
  split_ifs with h
  · have he : x.e = ((x.e.toNat : ℕ) : ℤ) := (Int.toNat_of_nonneg h).symm
    rw [pow10_eq]
    conv_rhs => rw [he, zpow_natCast]
  · have he : x.e = -(((-x.e).toNat : ℕ) : ℤ) := by omega
    rw [pow10_eq]
    conv_rhs => rw [he, zpow_neg, zpow_natCast]
    rw [div_eq_mul_inv]

theorem K_eq : SCAccrual.K = C10.K := by
  unfold SCAccrual.K C10.K
  rw [pow10_eq]
  norm_num

-- ------------------------------------------------------------------------------------------------ coins
/-- total amount of denom `d` in a coin list -/
def amt : Coins → Denom → Int
  | [], _ => 0
  | c :: cs, d => (if c.1 = d then c.2 else 0) + amt cs d

theorem amt_append (l r : Coins) (d : Denom) : amt (l ++ r) d = amt l d + amt r d := by
  induction l with
  | nil => simp [amt]
  | cons c cs ih => simp only [List.cons_append, amt, ih]; omega

theorem amt_zero_of_not_mem (cs : Coins) (d : Denom) (h : ∀ c ∈ cs, c.1 ≠ d) : amt cs d = 0 := by
  induction cs with
  | nil => rfl
  | cons c cs ih =>
    have h1 : c.1 ≠ d := h c List.mem_cons_self
    simp only [amt, h1, if_false, ih (fun x hx => h x (List.mem_cons_of_mem _ hx))]
    omega

/-- one `send` moves balances of its own denom only -/
theorem send_denom_frame {b b' : Bank} {s t : Addr} {d : Denom} {x : Int} (h : b.send s t d x = .ok b') :
    ∀ d', d' ≠ d → ∀ a, b'.bal a d' = b.bal a d' := by
  obtain ⟨_, _, e⟩ := send_ok h
  subst e
  intro d' hd a
  simp [hd]

/-- `sendCoins` moves balances of the denoms of its coins only -/
theorem sendCoins_denom_frame (cs : Coins) {b b' : Bank} {s t : Addr} (h : ShareClass.sendCoins b s t cs = .ok b')
    (d : Denom) (hd : ∀ c ∈ cs, c.1 ≠ d) : ∀ a, b'.bal a d = b.bal a d := by
  induction cs generalizing b with
  | nil =>
    simp [ShareClass.sendCoins, List.foldlM, pure] at h
    subst h
    intro a; rfl
  | cons c cs ih =>
    simp only [ShareClass.sendCoins, List.foldlM] at h
    obtain ⟨b1, h1, h⟩ := bind_ok h
    intro a
    rw [ih h (fun x hx => hd x (List.mem_cons_of_mem _ hx)) a]
    exact send_denom_frame h1 d (fun e => hd c List.mem_cons_self e.symm) a

theorem creditCoins_denom_frame (cs : Coins) (b : Bank) (t : Addr) (d : Denom) (hd : ∀ c ∈ cs, c.1 ≠ d) :
    ∀ a, (ShareClass.creditCoins b t cs).bal a d = b.bal a d := by
  induction cs generalizing b with
  | nil => intro a; rfl
  | cons c cs ih =>
    intro a
    have h1 : d ≠ c.1 := fun e => hd c List.mem_cons_self e.symm
    show (ShareClass.creditCoins (b.credit t c.1 c.2) t cs).bal a d = _
    rw [ih _ (fun x hx => hd x (List.mem_cons_of_mem _ hx)) a]
    simp [h1]

-- ------------------------------------------------------------------------------------------------ claimable
theorem fee_ne_bond : ShareClass.feeDenom ≠ ShareClass.bondDenom := by decide

/-- the entry of `GetClaimableRewards` for one denom: nothing when the saver holds none of it or nothing accrued -/
def entry (s : SSt) (u : Addr) (v : Val) (d : Denom) : Coins :=
  if s.bank.bal (ShareClass.saver v) d ≤ 0 then []
  else if ShareClass.claimableByDenom s u v d = 0 then [] else [(d, ShareClass.claimableByDenom s u v d)]

/-- `GetClaimableRewards`, when it succeeds: the fee-denom entry followed by the bond-denom entry -/
theorem claimable_ok {s : SSt} {u : Addr} {v : Val} {t : Coins} (h : ShareClass.claimable s u v = .ok t) :
    t = entry s u v ShareClass.feeDenom ++ entry s u v ShareClass.bondDenom := by
  simp only [ShareClass.claimable, ShareClass.rewardDenoms, List.foldlM] at h
  unfold entry
  by_cases h1 : s.bank.bal (ShareClass.saver v) ShareClass.feeDenom ≤ 0 <;>
  by_cases h2 : s.bank.bal (ShareClass.saver v) ShareClass.bondDenom ≤ 0 <;>
  by_cases h3 : ShareClass.claimableByDenom s u v ShareClass.feeDenom < 0 <;>
  by_cases h4 : ShareClass.claimableByDenom s u v ShareClass.feeDenom = 0 <;>
  by_cases h5 : ShareClass.claimableByDenom s u v ShareClass.bondDenom < 0 <;>
  by_cases h6 : ShareClass.claimableByDenom s u v ShareClass.bondDenom = 0 <;>
  simp [h1, h2, h3, h4, h5, h6, bind, Res.bind, pure] at h ⊢ <;> first | exact h.symm | omega

theorem entry_denoms (s : SSt) (u : Addr) (v : Val) (d : Denom) : ∀ c ∈ entry s u v d, c.1 = d := by
  intro c hc
  unfold entry at hc
  split_ifs at hc <;> simp at hc
  rw [hc]

/-- every coin a claim pays is in the fee or the bond denom -/
theorem claimable_denoms {s : SSt} {u : Addr} {v : Val} {t : Coins} (h : ShareClass.claimable s u v = .ok t) :
    ∀ c ∈ t, c.1 = ShareClass.feeDenom ∨ c.1 = ShareClass.bondDenom := by
  intro c hc
  rw [claimable_ok h] at hc
  rcases List.mem_append.mp hc with h1 | h1
  · exact Or.inl (entry_denoms _ _ _ _ c h1)
  · exact Or.inr (entry_denoms _ _ _ _ c h1)

theorem claimable_no_share {s : SSt} {u : Addr} {v : Val} {t : Coins} (h : ShareClass.claimable s u v = .ok t)
    (v' : Val) : ∀ c ∈ t, c.1 ≠ ShareClass.shareDenom v' := by
  intro c hc e
  rcases claimable_denoms h c hc with h1 | h1
  · exact C10.shareDenom_ne_fee v' (e.symm.trans h1)
  · exact C10.shareDenom_ne_bond v' (e.symm.trans h1)

/-- what a successful claim of `u` at `v` pays in denom `d`: `GetClaimableRewardsByDenom` when `d` is a reward denom the
    saver holds, nothing otherwise -/
def payOf (s : SSt) (u : Addr) (v : Val) (d : Denom) : Int :=
  if d ∈ ShareClass.rewardDenoms ∧ 0 < s.bank.bal (ShareClass.saver v) d then ShareClass.claimableByDenom s u v d else 0

theorem amt_entry_self (s : SSt) (u : Addr) (v : Val) (d : Denom) :
    amt (entry s u v d) d = if 0 < s.bank.bal (ShareClass.saver v) d then ShareClass.claimableByDenom s u v d else 0 := by
  unfold entry
  by_cases h1 : s.bank.bal (ShareClass.saver v) d ≤ 0
  · have : ¬ 0 < s.bank.bal (ShareClass.saver v) d := by omega
    simp [h1, this, amt]
  · have : 0 < s.bank.bal (ShareClass.saver v) d := by omega
    by_cases h2 : ShareClass.claimableByDenom s u v d = 0
    · simp [h1, this, h2, amt]
    · simp [h1, this, h2, amt]

theorem amt_entry_other (s : SSt) (u : Addr) (v : Val) (d d' : Denom) (h : d ≠ d') : amt (entry s u v d) d' = 0 :=
  amt_zero_of_not_mem _ _ (fun c hc => by rw [entry_denoms s u v d c hc]; exact h)

/-- the amount of denom `d` in the coins a successful claim returns -/
theorem amt_claimable {s : SSt} {u : Addr} {v : Val} {t : Coins} (h : ShareClass.claimable s u v = .ok t) (d : Denom) :
    amt t d = payOf s u v d := by
  rw [claimable_ok h, amt_append]
  unfold payOf
  by_cases hf : d = ShareClass.feeDenom
  · subst hf
    rw [amt_entry_self, amt_entry_other _ _ _ _ _ (Ne.symm fee_ne_bond)]
    simp [ShareClass.rewardDenoms]
  · by_cases hb : d = ShareClass.bondDenom
    · subst hb
      rw [amt_entry_self, amt_entry_other _ _ _ _ _ fee_ne_bond]
      simp [ShareClass.rewardDenoms]
    · rw [amt_entry_other _ _ _ _ _ (Ne.symm hf), amt_entry_other _ _ _ _ _ (Ne.symm hb)]
      simp [ShareClass.rewardDenoms, hf, hb]

-- ------------------------------------------------------------------------------------------------ lists
/-- the abstract record of holder `a` for validator `v`, denom `d` -/
def userOf (s : SSt) (v : Val) (d : Denom) (a : Addr) : SCAccrual.User :=
  ⟨s.bank.bal a (ShareClass.shareDenom v), SCAccrual.valD (s.last a v d)⟩

theorem absSC_users (s : SSt) (v : Val) (d : Denom) (accs : List Addr) :
    (SCAccrual.absSC s v d accs).users = accs.map (userOf s v d) := rfl

theorem absSC_M (s : SSt) (v : Val) (d : Denom) (accs : List Addr) :
    (SCAccrual.absSC s v d accs).M = SCAccrual.valD (s.mult v d) := rfl

theorem absSC_user_at (s : SSt) (v : Val) (d : Denom) (accs : List Addr) (i : Nat) (u : Addr) (hi : accs[i]? = some u) :
    (SCAccrual.absSC s v d accs).users[i]? = some (userOf s v d u) := by
  rw [absSC_users, List.getElem?_map, hi]; rfl

/-- mapping a duplicate-free account list with a function that differs at one account only = modifying that position -/
theorem map_modifyAt (accs : List Addr) (hnd : accs.Nodup) (i : Nat) (u : Addr) (hi : accs[i]? = some u)
    (f g : Addr → SCAccrual.User) (h : SCAccrual.User → SCAccrual.User)
    (hu : g u = h (f u)) (hne : ∀ a ∈ accs, a ≠ u → g a = f a) :
    accs.map g = SCAccrual.modifyAt h (accs.map f) i := by
  induction accs generalizing i with
  | nil => simp at hi
  | cons a as ih =>
    have hnd' := List.nodup_cons.mp hnd
    cases i with
    | zero =>
      simp at hi; subst hi
      simp only [List.map_cons, SCAccrual.modifyAt, hu]
      congr 1
      apply List.map_congr_left
      intro b hb
      exact hne b (List.mem_cons_of_mem _ hb) (fun e => hnd'.1 (e ▸ hb))
    | succ j =>
      simp at hi
      have hmem : u ∈ as := List.mem_of_getElem? hi
      have hau : a ≠ u := fun e => hnd'.1 (e ▸ hmem)
      simp only [List.map_cons, SCAccrual.modifyAt, hne a List.mem_cons_self hau]
      congr 1
      exact ih hnd'.2 j hi (fun b hb => hne b (List.mem_cons_of_mem _ hb))

-- ------------------------------------------------------------------------------------------------ 1. claim
/-- a claim moves no share token of any validator, whoever the account: the coins it pays are fee/bond coins -/
theorem claim_share_bal {s s' : SSt} {u : Addr} {v : Val} {paid : Coins}
    (h : ShareClass.claimRewards s u v = .ok (s', paid)) (a : Addr) (v' : Val) :
    s'.bank.bal a (ShareClass.shareDenom v') = s.bank.bal a (ShareClass.shareDenom v') := by
  obtain ⟨hc, hs, _⟩ := C10.claim_ok h
  exact sendCoins_denom_frame paid hs _ (claimable_no_share hc v') a

/-- the claimer's checkpoint after the claim is the multiplier: directly when the denom has a multiplier entry, and
    through store well-formedness (`C10.WF`, an invariant of all reachable states: `C10.wf_reachable`) when it has none
    (then both the multiplier and the checkpoint are absent = 0) -/
theorem claim_last_self {s s' : SSt} {u : Addr} {v : Val} {paid : Coins}
    (h : ShareClass.claimRewards s u v = .ok (s', paid)) (d : Denom) (hd : s.hasMult v d = true ∨ C10.WF s) :
    s'.last u v d = s.mult v d := by
  obtain ⟨_, _, _, _, _, _, _, _, _, _, hl⟩ := C10.claim_ok h
  rw [hl]
  cases hh : s.hasMult v d with
  | true => simp [hh]
  | false =>
    rcases hd with hd | hwf
    · rw [hh] at hd; exact absurd hd (by simp)
    · obtain ⟨h1, h2⟩ := hwf v d hh
      simp [hh, h1, h2 u]

theorem claim_last_other {s s' : SSt} {u : Addr} {v : Val} {paid : Coins}
    (h : ShareClass.claimRewards s u v = .ok (s', paid)) (a : Addr) (v' : Val) (d : Denom) (hne : a ≠ u ∨ v' ≠ v) :
    s'.last a v' d = s.last a v' d := by
  obtain ⟨_, _, _, _, _, _, _, _, _, _, hl⟩ := C10.claim_ok h
  rw [hl]
  rcases hne with h1 | h1 <;> simp [h1]

/-- **claim_refines.**  A successful `Keeper.ClaimRewards` of `u = accs[i]` at validator `v` is, in the abstraction of
    `(v, d)` over the holder list `accs`, exactly the abstract operation `claim i pay e` with `pay` = the amount of `d`
    among the coins paid (= `payOf`: `GetClaimableRewardsByDenom` if `d` is a reward denom the saver holds, else 0) and
    any `e`: the multiplier is unchanged, holder `i` is checkpointed at the multiplier, all other holders and all share
    balances are unchanged.
    Hypotheses: `accs.Nodup` (a holder list names each account once); `hasMult v d` — or, alternatively, `C10.WF s`, which
    holds in every reachable state (`C10.wf_reachable`) and covers denoms without a multiplier entry (multiplier and
    checkpoint both absent = 0).  No hypothesis "reward denoms are not share denoms" is needed: it is proved
    (`claimable_no_share`: claims pay fee/bond coins only). -/
theorem claim_refines {s s' : SSt} {u : Addr} {v : Val} {paid : Coins}
    (h : ShareClass.claimRewards s u v = .ok (s', paid))
    (accs : List Addr) (hnd : accs.Nodup) (i : Nat) (hi : accs[i]? = some u)
    (d : Denom) (hd : s.hasMult v d = true ∨ C10.WF s) (e : ℚ) :
    (SCAccrual.absSC s' v d accs).M = (SCAccrual.absSC s v d accs).M
    ∧ (SCAccrual.absSC s' v d accs).users
        = SCAccrual.modifyAt (fun x => { x with m := (SCAccrual.absSC s v d accs).M }) (SCAccrual.absSC s v d accs).users i
    ∧ (SCAccrual.absSC s' v d accs).M = (SCAccrual.step (SCAccrual.absSC s v d accs) (.claim i (amt paid d : ℚ) e)).M
    ∧ (SCAccrual.absSC s' v d accs).users
        = (SCAccrual.step (SCAccrual.absSC s v d accs) (.claim i (amt paid d : ℚ) e)).users
    ∧ amt paid d = payOf s u v d := by
  obtain ⟨hc, _, hm, _⟩ := C10.claim_ok h
  have hM : (SCAccrual.absSC s' v d accs).M = (SCAccrual.absSC s v d accs).M := by
    simp only [absSC_M, hm]
  have hU : (SCAccrual.absSC s' v d accs).users
      = SCAccrual.modifyAt (fun x => { x with m := (SCAccrual.absSC s v d accs).M }) (SCAccrual.absSC s v d accs).users i := by
    rw [absSC_users, absSC_users]
    apply map_modifyAt accs hnd i u hi
    · simp only [userOf, absSC_M, claim_share_bal h, claim_last_self h d hd]
    · intro a _ hau
      simp only [userOf, claim_share_bal h, claim_last_other h a v d (Or.inl hau)]
  exact ⟨hM, hU, hM, hU, amt_claimable hc d⟩

theorem K_pos : (0 : ℚ) < SCAccrual.K := by rw [K_eq]; exact C10.K_pos

/-- what a claim pays in denom `d` is ≥ 0 and within the relative error 1/K of the exact accrual
    x = (M − m_u)·share_u (kernel theorem `claim_guard_kernel`), or 0 when the denom is skipped -/
theorem payOf_bound (s : SSt) (u : Addr) (v : Val) (d : Denom)
    (hm : SCAccrual.valD (s.last u v d) ≤ SCAccrual.valD (s.mult v d))
    (hb : 0 ≤ s.bank.bal u (ShareClass.shareDenom v)) :
    0 ≤ payOf s u v d
    ∧ ((payOf s u v d : ℤ) : ℚ) ≤ SCAccrual.accrued (SCAccrual.valD (s.mult v d)) (userOf s v d u)
        + SCAccrual.accrued (SCAccrual.valD (s.mult v d)) (userOf s v d u) / SCAccrual.K
    ∧ 0 ≤ SCAccrual.accrued (SCAccrual.valD (s.mult v d)) (userOf s v d u) := by
  have hx : 0 ≤ SCAccrual.accrued (SCAccrual.valD (s.mult v d)) (userOf s v d u) :=
    C10Accrual.accrued_nonneg (u := userOf s v d u) ⟨hb, hm⟩
  have hK := K_pos
  have hxe : 0 ≤ SCAccrual.accrued (SCAccrual.valD (s.mult v d)) (userOf s v d u) / SCAccrual.K := div_nonneg hx hK.le
  unfold payOf
  split_ifs with hc
  · rw [valD_eq_val, valD_eq_val] at hm
    obtain ⟨h1, h2⟩ := C10Accrual.store_claim_bound s u v d hm hb
    refine ⟨h1, ?_, hx⟩
    simp only [SCAccrual.accrued, userOf, valD_eq_val, K_eq]
    exact h2
  · refine ⟨le_refl _, ?_, hx⟩
    push_cast
    linarith

/-- **claim_refines_guard.**  The abstract operation of `claim_refines` is admissible (`Op.guard`) and its error respects
    the relative bound of 34-digit arithmetic (`Op.tight K`), with the explicit error `e := x / K`, `x` = the exact accrual
    `(M − m_i)·share_i` of the claimer, `K = 2·10^33`.
    Hypotheses (the state part of the abstraction's invariant `Inv.wf`, for the claimer): its checkpoint is not above the
    multiplier and its share balance is not negative. -/
theorem claim_refines_guard {s s' : SSt} {u : Addr} {v : Val} {paid : Coins}
    (h : ShareClass.claimRewards s u v = .ok (s', paid))
    (accs : List Addr) (i : Nat) (hi : accs[i]? = some u) (d : Denom)
    (hm : SCAccrual.valD (s.last u v d) ≤ SCAccrual.valD (s.mult v d))
    (hb : 0 ≤ s.bank.bal u (ShareClass.shareDenom v)) :
    (SCAccrual.Op.claim i (amt paid d : ℚ)
        (SCAccrual.accrued (SCAccrual.absSC s v d accs).M (userOf s v d u) / SCAccrual.K)).guard (SCAccrual.absSC s v d accs)
    ∧ (SCAccrual.Op.claim i (amt paid d : ℚ)
        (SCAccrual.accrued (SCAccrual.absSC s v d accs).M (userOf s v d u) / SCAccrual.K)).tight SCAccrual.K
          (SCAccrual.absSC s v d accs) := by
  obtain ⟨hc, _⟩ := C10.claim_ok h
  obtain ⟨h0, h1, hx⟩ := payOf_bound s u v d hm hb
  have hu := absSC_user_at s v d accs i u hi
  have hK := K_pos
  rw [amt_claimable hc d, absSC_M]
  refine ⟨⟨div_nonneg hx hK.le, by exact_mod_cast h0, userOf s v d u, hu, h1⟩, userOf s v d u, hu, ?_⟩
  show SCAccrual.K * (_ / SCAccrual.K) ≤ _
  rw [mul_div_cancel₀ _ (ne_of_gt hK)]
  exact le_refl _

/-- the claim as ONE admissible, tight abstract step leading to the abstraction of the next state (observable part:
    multiplier and holders; the ghost totals `recv/paid/slack` are not part of `absSC`) -/
theorem claim_refines_step {s s' : SSt} {u : Addr} {v : Val} {paid : Coins}
    (h : ShareClass.claimRewards s u v = .ok (s', paid))
    (accs : List Addr) (hnd : accs.Nodup) (i : Nat) (hi : accs[i]? = some u)
    (d : Denom) (hd : s.hasMult v d = true ∨ C10.WF s)
    (hm : SCAccrual.valD (s.last u v d) ≤ SCAccrual.valD (s.mult v d))
    (hb : 0 ≤ s.bank.bal u (ShareClass.shareDenom v)) :
    ∃ op : SCAccrual.Op, op.guard (SCAccrual.absSC s v d accs) ∧ op.tight SCAccrual.K (SCAccrual.absSC s v d accs)
      ∧ (SCAccrual.step (SCAccrual.absSC s v d accs) op).M = (SCAccrual.absSC s' v d accs).M
      ∧ (SCAccrual.step (SCAccrual.absSC s v d accs) op).users = (SCAccrual.absSC s' v d accs).users := by
  obtain ⟨hg, ht⟩ := claim_refines_guard h accs i hi d hm hb
  obtain ⟨_, _, h3, h4, _⟩ := claim_refines h accs hnd i hi d hd
    (SCAccrual.accrued (SCAccrual.absSC s v d accs).M (userOf s v d u) / SCAccrual.K)
  exact ⟨_, hg, ht, h3.symm, h4.symm⟩

-- ------------------------------------------------------------------------------------------------ 2. claim frame
/-- **claim_frame.**  A successful claim of `u` at `v` changes nothing else in any abstraction:
    (1) no multiplier (value or presence) of any validator/denom changes;
    (2) no share balance of any account at any validator changes;
    (3) the only checkpoints that may change are those of `u` at `v`;
    hence (4) the abstraction of every OTHER validator is literally the same state, for every denom and holder list, and
    (5) so is the abstraction of `v` itself over any holder list that does not contain `u`. -/
theorem claim_frame {s s' : SSt} {u : Addr} {v : Val} {paid : Coins}
    (h : ShareClass.claimRewards s u v = .ok (s', paid)) :
    s'.mult = s.mult ∧ s'.hasMult = s.hasMult
    ∧ (∀ a v', s'.bank.bal a (ShareClass.shareDenom v') = s.bank.bal a (ShareClass.shareDenom v'))
    ∧ (∀ a v' d', (a ≠ u ∨ v' ≠ v) → s'.last a v' d' = s.last a v' d')
    ∧ (∀ v' d' accs, v' ≠ v → SCAccrual.absSC s' v' d' accs = SCAccrual.absSC s v' d' accs)
    ∧ (∀ d' accs, u ∉ accs → SCAccrual.absSC s' v d' accs = SCAccrual.absSC s v d' accs) := by
  obtain ⟨_, _, hm, hh, _⟩ := C10.claim_ok h
  refine ⟨hm, hh, fun a v' => claim_share_bal h a v', fun a v' d' hne => claim_last_other h a v' d' hne, ?_, ?_⟩
  · intro v' d' accs hv
    unfold SCAccrual.absSC
    rw [hm]
    congr 1
    apply List.map_congr_left
    intro a _
    rw [claim_share_bal h, claim_last_other h a v' d' (Or.inr hv)]
  · intro d' accs hu
    unfold SCAccrual.absSC
    rw [hm]
    congr 1
    apply List.map_congr_left
    intro a ha
    rw [claim_share_bal h, claim_last_other h a v d' (Or.inl (fun e => hu (e ▸ ha)))]

-- ------------------------------------------------------------------------------------------------ 3. rewards
open Sunrise.Gen.KernelsShare in
/-- the multiplier update of `handleRewards` for one coin -/
def updCoin (v : Val) (T : Int) (s : SSt) (c : Denom × Int) : SSt :=
  { s with mult := fun v' d' => if v' = v ∧ d' = c.1 then D34.reparse (CalculateRewardMultiplierNew (s.mult v c.1) c.2 T) else s.mult v' d',
           hasMult := fun v' d' => if v' = v ∧ d' = c.1 then true else s.hasMult v' d' }

open Sunrise.Gen.KernelsShare in
/-- the multiplier of denom `d` after the coins of a reward, in order (a denom may occur more than once) -/
def multFold (T : Int) (d : Denom) (m : D34) (coins : Coins) : D34 :=
  coins.foldl (fun m c => if c.1 = d then D34.reparse (CalculateRewardMultiplierNew m c.2 T) else m) m

theorem fold_updCoin (v : Val) (T : Int) (coins : Coins) : ∀ s0 : SSt,
    (coins.foldl (updCoin v T) s0).bank = s0.bank ∧ (coins.foldl (updCoin v T) s0).last = s0.last
    ∧ (∀ d, (coins.foldl (updCoin v T) s0).mult v d = multFold T d (s0.mult v d) coins)
    ∧ (∀ v' d, v' ≠ v → (coins.foldl (updCoin v T) s0).mult v' d = s0.mult v' d) := by
  induction coins with
  | nil => intro s0; exact ⟨rfl, rfl, fun _ => rfl, fun _ _ _ => rfl⟩
  | cons c cs ih =>
    intro s0
    obtain ⟨h1, h2, h3, h4⟩ := ih (updCoin v T s0 c)
    simp only [List.foldl]
    refine ⟨h1, h2, ?_, ?_⟩
    · intro d
      rw [h3 d]
      simp only [multFold, List.foldl, updCoin]
      by_cases hd : c.1 = d
      · subst hd; simp
      · have : ¬ d = c.1 := fun e => hd e.symm
        simp [hd, this]
    · intro v' d hv
      rw [h4 v' d hv]
      simp [updCoin, hv]

theorem multFold_not_mem (T : Int) (d : Denom) (coins : Coins) (h : ∀ c ∈ coins, c.1 ≠ d) (m : D34) :
    multFold T d m coins = m := by
  induction coins generalizing m with
  | nil => rfl
  | cons c cs ih =>
    have h1 : c.1 ≠ d := h c List.mem_cons_self
    simp only [multFold, List.foldl, h1, if_false]
    exact ih (fun x hx => h x (List.mem_cons_of_mem _ hx)) m

open Sunrise.Gen.KernelsShare in
/-- with distinct denoms the coin `(d, R)` is the only one that moves the multiplier of `d` -/
theorem multFold_nodup (T : Int) (d : Denom) (R : Int) (coins : Coins) (hnd : (coins.map (·.1)).Nodup)
    (hmem : (d, R) ∈ coins) (m : D34) :
    multFold T d m coins = D34.reparse (CalculateRewardMultiplierNew m R T) := by
  induction coins generalizing m with
  | nil => simp at hmem
  | cons c cs ih =>
    simp only [List.map_cons, List.nodup_cons] at hnd
    rcases List.mem_cons.mp hmem with h | h
    · subst h
      have hno : ∀ x ∈ cs, x.1 ≠ d := fun x hx e => hnd.1 (List.mem_map.mpr ⟨x, hx, e⟩)
      simp only [multFold, List.foldl, if_true]
      exact multFold_not_mem T d cs hno _
    · have hc : c.1 ≠ d := fun e => hnd.1 (List.mem_map.mpr ⟨(d, R), h, e.symm⟩)
      simp only [multFold, List.foldl, hc, if_false]
      exact ih hnd.2 h m

/-- `handleRewards` never touches the share supply it reads: the bank calls are credits and sends -/
theorem sendCoins_sup {cs : Coins} {b b1 : Bank} {x y : Addr} (h : ShareClass.sendCoins b x y cs = .ok b1) : b1.sup = b.sup := by
  funext d; exact (C10.sendCoins_frame cs h).2 d (by simp)

theorem creditCoins_sup (cs : Coins) (b : Bank) (x : Addr) : (ShareClass.creditCoins b x cs).sup = b.sup := by
  funext d; exact (C10.creditCoins_frame cs b x).2 d (by simp)

/-- the main branch of `HandleModuleAccountRewardsByValidator`: some coin is non-zero, the forwarding to the saver
    succeeded and the share supply `T` is not zero -/
theorem handleRewards_main (s : SSt) (v : Val) (coins : Coins) (b1 : Bank)
    (hnz : coins.all (fun c => c.2 = 0) = false)
    (hsend : ShareClass.sendCoins (ShareClass.creditCoins s.bank ShareClass.moduleAcc coins) ShareClass.moduleAcc
      (ShareClass.saver v) coins = .ok b1)
    (hT : s.bank.sup (ShareClass.shareDenom v) ≠ 0) :
    ShareClass.handleRewards s v coins
      = coins.foldl (updCoin v (s.bank.sup (ShareClass.shareDenom v)))
          { s with bank := b1, received := ShareClass.addClaimed s.received v coins } := by
  have hs : b1.sup = s.bank.sup := by rw [sendCoins_sup hsend, creditCoins_sup]
  unfold ShareClass.handleRewards
  simp only [hnz, Bool.false_eq_true, if_false, hsend, hs, hT]
  rfl

/-- in every other branch (all coins zero / forwarding failed / no shares) no multiplier changes -/
theorem handleRewards_other (s : SSt) (v : Val) (coins : Coins)
    (h : coins.all (fun c => c.2 = 0) = true
      ∨ (∀ b1, ShareClass.sendCoins (ShareClass.creditCoins s.bank ShareClass.moduleAcc coins) ShareClass.moduleAcc
          (ShareClass.saver v) coins ≠ .ok b1)
      ∨ s.bank.sup (ShareClass.shareDenom v) = 0) :
    (ShareClass.handleRewards s v coins).mult = s.mult := by
  unfold ShareClass.handleRewards
  by_cases h0 : coins.all (fun c => c.2 = 0) = true
  · simp only [h0, if_true]
  simp only [h0]
  cases hs : ShareClass.sendCoins (ShareClass.creditCoins s.bank ShareClass.moduleAcc coins) ShareClass.moduleAcc
      (ShareClass.saver v) coins with
  | ok b1 =>
    have hsup : b1.sup = s.bank.sup := by rw [sendCoins_sup hs, creditCoins_sup]
    rcases h with h | h | h
    · exact absurd h h0
    · exact absurd hs (h b1)
    · simp [hsup, h]
  | err c => simp
  | panic k => simp

/-- the bank after `handleRewards`: untouched, credited only, or credited and forwarded -/
theorem handleRewards_bank (s : SSt) (v : Val) (coins : Coins) :
    (ShareClass.handleRewards s v coins).bank = s.bank
    ∨ (ShareClass.handleRewards s v coins).bank = ShareClass.creditCoins s.bank ShareClass.moduleAcc coins
    ∨ ShareClass.sendCoins (ShareClass.creditCoins s.bank ShareClass.moduleAcc coins) ShareClass.moduleAcc
        (ShareClass.saver v) coins = .ok (ShareClass.handleRewards s v coins).bank := by
  by_cases h0 : coins.all (fun c => c.2 = 0) = true
  · left; unfold ShareClass.handleRewards; simp only [h0, if_true]
  cases hs : ShareClass.sendCoins (ShareClass.creditCoins s.bank ShareClass.moduleAcc coins) ShareClass.moduleAcc
      (ShareClass.saver v) coins with
  | ok b1 =>
    right; right
    by_cases hT : s.bank.sup (ShareClass.shareDenom v) = 0
    · have hsup : b1.sup = s.bank.sup := by rw [sendCoins_sup hs, creditCoins_sup]
      unfold ShareClass.handleRewards
      simp [h0, hs, hsup, hT]
    · rw [handleRewards_main s v coins b1 (by simpa using h0) hs hT, (fold_updCoin v _ coins _).1]
  | err c => right; left; unfold ShareClass.handleRewards; simp [h0, hs]
  | panic k => right; left; unfold ShareClass.handleRewards; simp [h0, hs]

/-- share balances are not moved by a reward: for an account that is neither the module account nor the reward saver
    (those hold share tokens only transiently / never), or when no coin of the reward is in the share denom looked at
    (rewards are fee/bond coins: app/mint) -/
theorem handleRewards_share_bal (s : SSt) (v : Val) (coins : Coins) (a : Addr) (v' : Val)
    (hsep : (∀ c ∈ coins, c.1 ≠ ShareClass.shareDenom v') ∨ (a ≠ ShareClass.moduleAcc ∧ a ≠ ShareClass.saver v)) :
    (ShareClass.handleRewards s v coins).bank.bal a (ShareClass.shareDenom v') = s.bank.bal a (ShareClass.shareDenom v') := by
  have hcred : (ShareClass.creditCoins s.bank ShareClass.moduleAcc coins).bal a (ShareClass.shareDenom v')
      = s.bank.bal a (ShareClass.shareDenom v') := by
    rcases hsep with h | h
    · exact creditCoins_denom_frame coins _ _ _ h a
    · exact (C10.creditCoins_frame coins s.bank ShareClass.moduleAcc).1 a (by simp [h.1]) _
  rcases handleRewards_bank s v coins with h | h | h
  · rw [h]
  · rw [h, hcred]
  · rw [← hcred]
    rcases hsep with h' | h'
    · exact sendCoins_denom_frame coins h _ h' a
    · exact (C10.sendCoins_frame coins h).1 a (by simp [h'.1, h'.2]) _

/-- a reward changes no holder record (share balance, checkpoint) of any abstraction -/
theorem reward_users (s : SSt) (v : Val) (coins : Coins) (v' : Val) (d : Denom) (accs : List Addr)
    (hsep : (∀ c ∈ coins, c.1 ≠ ShareClass.shareDenom v')
      ∨ (ShareClass.moduleAcc ∉ accs ∧ ShareClass.saver v ∉ accs)) :
    (SCAccrual.absSC (ShareClass.handleRewards s v coins) v' d accs).users = (SCAccrual.absSC s v' d accs).users := by
  rw [absSC_users, absSC_users]
  apply List.map_congr_left
  intro a ha
  have hl := (C10.handleRewards_fields s v coins).2.1
  unfold userOf
  rw [hl, handleRewards_share_bal s v coins a v']
  rcases hsep with h | h
  · exact Or.inl h
  · exact Or.inr ⟨fun e => h.1 (e ▸ ha), fun e => h.2 (e ▸ ha)⟩

theorem all_zero_false_of_mem (coins : Coins) (d : Denom) (R : Int) (hmem : (d, R) ∈ coins) (hR : 0 < R) :
    coins.all (fun c => c.2 = 0) = false := by
  cases hall : coins.all (fun c => decide (c.2 = 0)) with
  | false => rfl
  | true =>
    have := List.all_eq_true.mp hall (d, R) hmem
    simp at this
    omega

open Sunrise.Gen.KernelsShare in
/-- **reward_refines.**  `HandleModuleAccountRewardsByValidator` (`handleRewards s v coins`) in its main branch — the
    forwarding of the coins to the reward saver succeeded (`hsend`; `reward_send_ok` below derives it from non-negative
    amounts and a non-negative module-account balance) and the share supply `T = s.bank.sup (shareDenom v)` is positive — is,
    for each coin `(d, R)` with `R > 0`, in the abstraction of `(v, d)`, exactly the abstract operation
    `reward R M' (R/K)` with `M' = valD (reparse (CalculateRewardMultiplierNew (mult v d) R T))`: the new multiplier is `M'`,
    no holder record changes, the operation's guard holds and its error is tight (kernel theorem `reward_guard_kernel`).
    Hypotheses:
    * `hnd`: the coins have distinct denoms (an `sdk.Coins` value is sorted and duplicate-free); for repeated denoms the
      multiplier is `multFold` (`reward_mult`), one abstract `reward` per occurrence;
    * `hsup`: `accs` lists every holder, i.e. the abstraction's supply Σ balances is the bank's share supply (bank invariant
      supply = Σ balances; C13);
    * `hsep`: no coin of the reward is in this validator's share denom (rewards are fee/bond coins), or, alternatively,
      neither the module account nor the saver is in the holder list. -/
theorem reward_refines (s : SSt) (v : Val) (coins : Coins) (d : Denom) (R : Int) (accs : List Addr) (b1 : Bank)
    (hnd : (coins.map (·.1)).Nodup) (hmem : (d, R) ∈ coins) (hR : 0 < R)
    (hsend : ShareClass.sendCoins (ShareClass.creditCoins s.bank ShareClass.moduleAcc coins) ShareClass.moduleAcc
      (ShareClass.saver v) coins = .ok b1)
    (hT : 0 < s.bank.sup (ShareClass.shareDenom v))
    (hsup : SCAccrual.supply (SCAccrual.absSC s v d accs).users = s.bank.sup (ShareClass.shareDenom v))
    (hsep : (∀ c ∈ coins, c.1 ≠ ShareClass.shareDenom v)
      ∨ (ShareClass.moduleAcc ∉ accs ∧ ShareClass.saver v ∉ accs)) :
    let M' := SCAccrual.valD (D34.reparse (CalculateRewardMultiplierNew (s.mult v d) R (s.bank.sup (ShareClass.shareDenom v))))
    let a := SCAccrual.absSC s v d accs
    let a' := SCAccrual.absSC (ShareClass.handleRewards s v coins) v d accs
    a'.M = M' ∧ a'.users = a.users
    ∧ (SCAccrual.Op.reward (R : ℚ) M' ((R : ℚ) / SCAccrual.K)).guard a
    ∧ (SCAccrual.Op.reward (R : ℚ) M' ((R : ℚ) / SCAccrual.K)).tight SCAccrual.K a
    ∧ (SCAccrual.step a (.reward (R : ℚ) M' ((R : ℚ) / SCAccrual.K))).M = a'.M
    ∧ (SCAccrual.step a (.reward (R : ℚ) M' ((R : ℚ) / SCAccrual.K))).users = a'.users := by
  intro M' a a'
  have hnz := all_zero_false_of_mem coins d R hmem hR
  have hM : a'.M = M' := by
    show SCAccrual.valD ((ShareClass.handleRewards s v coins).mult v d) = M'
    rw [handleRewards_main s v coins b1 hnz hsend (ne_of_gt hT), (fold_updCoin v _ coins _).2.2.1 d,
      multFold_nodup _ d R coins hnd hmem]
  have hU : a'.users = a.users := reward_users s v coins v d accs hsep
  have hg := C10Accrual.reward_guard_op a (s.mult v d) R (s.bank.sup (ShareClass.shareDenom v)) hR.le hT
    (by show SCAccrual.valD _ = _; rw [valD_eq_val]) hsup
  rw [← valD_eq_val] at hg
  have hK : C10Accrual.K = SCAccrual.K := K_eq.symm
  rw [hK] at hg
  exact ⟨hM, hU, hg.1, hg.2, hM.symm, hU.symm⟩

/-- the multiplier after `handleRewards`, for ALL coin lists (repeated denoms allowed), every validator and denom:
    in the main branch the fold of `CalculateRewardMultiplierNew` over the coins of that denom, in order -/
theorem reward_mult (s : SSt) (v : Val) (coins : Coins) (b1 : Bank)
    (hnz : coins.all (fun c => c.2 = 0) = false)
    (hsend : ShareClass.sendCoins (ShareClass.creditCoins s.bank ShareClass.moduleAcc coins) ShareClass.moduleAcc
      (ShareClass.saver v) coins = .ok b1)
    (hT : s.bank.sup (ShareClass.shareDenom v) ≠ 0) :
    (∀ d, (ShareClass.handleRewards s v coins).mult v d = multFold (s.bank.sup (ShareClass.shareDenom v)) d (s.mult v d) coins)
    ∧ (∀ v' d, v' ≠ v → (ShareClass.handleRewards s v coins).mult v' d = s.mult v' d) := by
  rw [handleRewards_main s v coins b1 hnz hsend hT]
  exact ⟨(fold_updCoin v _ coins _).2.2.1, (fold_updCoin v _ coins _).2.2.2⟩

/-- **reward frame.**  A reward at `v` leaves the abstraction of every other validator literally unchanged, and the
    abstraction of `(v, d)` for every denom `d` that is not among the coins -/
theorem reward_frame (s : SSt) (v : Val) (coins : Coins) (v' : Val) (d : Denom) (accs : List Addr)
    (hsep : (∀ c ∈ coins, c.1 ≠ ShareClass.shareDenom v')
      ∨ (ShareClass.moduleAcc ∉ accs ∧ ShareClass.saver v ∉ accs))
    (hne : v' ≠ v ∨ ∀ c ∈ coins, c.1 ≠ d) :
    SCAccrual.absSC (ShareClass.handleRewards s v coins) v' d accs = SCAccrual.absSC s v' d accs := by
  have hU := reward_users s v coins v' d accs hsep
  have hM : (ShareClass.handleRewards s v coins).mult v' d = s.mult v' d := by
    by_cases h0 : coins.all (fun c => c.2 = 0) = true
    · rw [handleRewards_other s v coins (Or.inl h0)]
    cases hs : ShareClass.sendCoins (ShareClass.creditCoins s.bank ShareClass.moduleAcc coins) ShareClass.moduleAcc
        (ShareClass.saver v) coins with
    | ok b1 =>
      by_cases hT : s.bank.sup (ShareClass.shareDenom v) = 0
      · rw [handleRewards_other s v coins (Or.inr (Or.inr hT))]
      · obtain ⟨h1, h2⟩ := reward_mult s v coins b1 (by simpa using h0) hs hT
        by_cases hv : v' = v
        · subst hv
          rcases hne with h | h
          · exact absurd rfl h
          · rw [h1 d, multFold_not_mem _ d coins h]
        · exact h2 v' d hv
    | err c => rw [handleRewards_other s v coins (Or.inr (Or.inl (fun b1 => by rw [hs]; simp)))]
    | panic k => rw [handleRewards_other s v coins (Or.inr (Or.inl (fun b1 => by rw [hs]; simp)))]
  unfold SCAccrual.absSC at hU ⊢
  simp only at hU
  rw [hM, hU]

/-- the branches of `handleRewards` that raise no multiplier (all coins zero, forwarding failed, or no share supply:
    the abstract `rewardNoShares R`, which only counts the coins received) leave multiplier and holders of every
    abstraction unchanged -/
theorem reward_noop (s : SSt) (v : Val) (coins : Coins) (v' : Val) (d : Denom) (accs : List Addr)
    (hsep : (∀ c ∈ coins, c.1 ≠ ShareClass.shareDenom v')
      ∨ (ShareClass.moduleAcc ∉ accs ∧ ShareClass.saver v ∉ accs))
    (h : coins.all (fun c => c.2 = 0) = true
      ∨ (∀ b1, ShareClass.sendCoins (ShareClass.creditCoins s.bank ShareClass.moduleAcc coins) ShareClass.moduleAcc
          (ShareClass.saver v) coins ≠ .ok b1)
      ∨ s.bank.sup (ShareClass.shareDenom v) = 0) (R : ℚ) :
    (SCAccrual.absSC (ShareClass.handleRewards s v coins) v' d accs).M = (SCAccrual.step (SCAccrual.absSC s v' d accs) (.rewardNoShares R)).M
    ∧ (SCAccrual.absSC (ShareClass.handleRewards s v coins) v' d accs).users
        = (SCAccrual.step (SCAccrual.absSC s v' d accs) (.rewardNoShares R)).users := by
  refine ⟨?_, reward_users s v coins v' d accs hsep⟩
  show SCAccrual.valD ((ShareClass.handleRewards s v coins).mult v' d) = SCAccrual.valD (s.mult v' d)
  rw [handleRewards_other s v coins h]

/-! ### the forwarding of the coins to the saver succeeds on a sane bank -/

theorem module_ne_saver (v : Val) : ShareClass.moduleAcc ≠ ShareClass.saver v := by
  intro h
  have := congrArg String.toList h
  simp only [ShareClass.moduleAcc, ShareClass.saver, String.toList_append] at this
  have h2 : "module:shareclass".toList = ['m','o','d','u','l','e',':','s','h','a','r','e','c','l','a','s','s'] := by decide
  have h4 : "saver:".toList = ['s','a','v','e','r',':'] := by decide
  rw [h2, h4] at this
  simp at this

theorem amt_nonneg (cs : Coins) (h : ∀ c ∈ cs, 0 ≤ c.2) (d : Denom) : 0 ≤ amt cs d := by
  induction cs with
  | nil => exact le_refl _
  | cons c cs ih =>
    have h1 := h c List.mem_cons_self
    have h2 := ih (fun x hx => h x (List.mem_cons_of_mem _ hx))
    simp only [amt]
    split_ifs <;> omega

theorem creditCoins_bal_self (cs : Coins) (b : Bank) (x : Addr) (d : Denom) :
    (ShareClass.creditCoins b x cs).bal x d = b.bal x d + amt cs d := by
  induction cs generalizing b with
  | nil => simp [ShareClass.creditCoins, amt]
  | cons c cs ih =>
    show (ShareClass.creditCoins (b.credit x c.1 c.2) x cs).bal x d = _
    rw [ih]
    simp only [amt, credit_bal, true_and]
    by_cases h : d = c.1
    · subst h; simp; omega
    · have h' : ¬ c.1 = d := fun e => h e.symm
      simp [h, h']

/-- a sender that holds, per denom, at least the total of the (non-negative) coins can send them one by one -/
theorem sendCoins_of_funded (cs : Coins) (b : Bank) (x y : Addr) (hxy : x ≠ y) (hnn : ∀ c ∈ cs, 0 ≤ c.2)
    (hf : ∀ d, amt cs d ≤ b.bal x d) : ∃ b1, ShareClass.sendCoins b x y cs = .ok b1 := by
  induction cs generalizing b with
  | nil => exact ⟨b, rfl⟩
  | cons c cs ih =>
    have h0 := hnn c List.mem_cons_self
    have hnn' : ∀ c' ∈ cs, 0 ≤ c'.2 := fun c' hc => hnn c' (List.mem_cons_of_mem _ hc)
    have h1 : c.2 ≤ b.bal x c.1 := by
      have := hf c.1
      have h2 := amt_nonneg cs hnn' c.1
      simp only [amt, if_true] at this
      omega
    have hs := C10.send_of_funded b x y c.1 c.2 h0 h1
    obtain ⟨b1, hb1⟩ := ih ((b.credit x c.1 (-c.2)).credit y c.1 c.2) hnn' (by
      intro d
      have := hf d
      simp only [amt] at this
      simp only [credit_bal, hxy, false_and, if_false, true_and]
      by_cases h : d = c.1
      · subst h; simp at this ⊢; omega
      · have h' : ¬ c.1 = d := fun e => h e.symm
        simp [h, h'] at this ⊢; omega)
    refine ⟨b1, ?_⟩
    simp only [ShareClass.sendCoins, List.foldlM, hs]
    exact hb1

/-- `hsend` of `reward_refines` holds whenever the withdrawn coins are non-negative and the module account's balances are
    non-negative (as all balances of a reachable bank are) -/
theorem reward_send_ok (s : SSt) (v : Val) (coins : Coins) (hnn : ∀ c ∈ coins, 0 ≤ c.2)
    (hmod : ∀ d, 0 ≤ s.bank.bal ShareClass.moduleAcc d) :
    ∃ b1, ShareClass.sendCoins (ShareClass.creditCoins s.bank ShareClass.moduleAcc coins) ShareClass.moduleAcc
      (ShareClass.saver v) coins = .ok b1 := by
  apply sendCoins_of_funded coins _ _ _ (module_ne_saver v) hnn
  intro d
  rw [creditCoins_bal_self]
  have := hmod d
  omega

-- ------------------------------------------------------------------------------------------------ 4. delegate / undelegate
theorem shareDenom_inj {v v' : Val} (h : ShareClass.shareDenom v' = ShareClass.shareDenom v) : v' = v :=
  (String.append_right_inj _).1 h

theorem burn_denom_frame {b b' : Bank} {m : Addr} {d : Denom} {x : Int} (h : b.burn m d x = .ok b') :
    ∀ d', d' ≠ d → ∀ a, b'.bal a d' = b.bal a d' := by
  obtain ⟨_, _, e⟩ := burn_ok h
  subst e
  intro d' hd a
  simp [hd]

theorem mint_denom_frame {b b' : Bank} {m : Addr} {d : Denom} {x : Int} (h : b.mint m d x = .ok b') :
    ∀ d', d' ≠ d → ∀ a, b'.bal a d' = b.bal a d' := by
  obtain ⟨_, e⟩ := mint_ok h
  subst e
  intro d' hd a
  simp [hd]

/-- the token converter moves balances of its two denoms only -/
theorem swap_denom_frame {b b' : Bank} {holder : Addr} {dIn dOut : Denom} {x : Int}
    (h : Convert.swapDenoms b holder dIn dOut x = .ok b') :
    ∀ d', d' ≠ dIn → d' ≠ dOut → ∀ a, b'.bal a d' = b.bal a d' := by
  unfold Convert.swapDenoms at h
  by_cases hn : x < 0
  · simp [hn] at h
  · simp only [hn, if_false] at h
    obtain ⟨b1, h1, h⟩ := bind_ok h
    obtain ⟨b2, h2, h⟩ := bind_ok h
    obtain ⟨b3, h3, h⟩ := bind_ok h
    intro d' hi ho a
    rw [send_denom_frame h d' ho a, mint_denom_frame h3 d' ho a, burn_denom_frame h2 d' hi a, send_denom_frame h1 d' hi a]

/-- Msg/NonVotingDelegate, when it succeeds, with the minted share amount exposed: a claim (state `s1`), then — as far as
    share tokens, multipliers and checkpoints go — the sender's balance of this validator's share token rises by exactly
    `share = CalculateShareByAmount …` ≥ 0 and no other account except the module account sees any share balance change -/
theorem delegate_share {s s' : SSt} {u : Addr} {v : Val} {a : Int} {dn : Denom} {x : ShareClass.StakeExt}
    (h : ShareClass.delegate s u v a dn x = .ok s') (hu : u ≠ ShareClass.moduleAcc) :
    ∃ s1 t share, ShareClass.claimRewards s u v = .ok (s1, t) ∧ ShareClass.shareByAmount s1 v x.staked a = .ok share
      ∧ 0 ≤ share ∧ s'.mult = s1.mult ∧ s'.hasMult = s1.hasMult ∧ s'.last = s1.last
      ∧ s'.bank.bal u (ShareClass.shareDenom v) = s1.bank.bal u (ShareClass.shareDenom v) + share
      ∧ (∀ a' v', a' ≠ ShareClass.moduleAcc → (a' ≠ u ∨ v' ≠ v) →
          s'.bank.bal a' (ShareClass.shareDenom v') = s1.bank.bal a' (ShareClass.shareDenom v')) := by
  unfold ShareClass.delegate at h
  by_cases hd : dn ≠ ShareClass.feeDenom
  · simp [hd] at h
  simp only [hd, if_false] at h
  obtain ⟨⟨s1, t⟩, hc, h⟩ := bind_ok h
  obtain ⟨share, hs, h⟩ := bind_ok h
  by_cases ha : a < 0
  · simp [ha] at h
  simp only [ha, if_false] at h
  obtain ⟨b1, h1, h⟩ := bind_ok h
  obtain ⟨b2, h2, h⟩ := bind_ok h
  by_cases hk : x.stakeOk
  swap
  · simp [hk] at h
  simp only [hk, Bool.not_true, Bool.false_eq_true, if_false] at h
  obtain ⟨b3, h3, h⟩ := bind_ok h
  by_cases hsh : share < 0
  · simp [hsh] at h
  simp only [hsh, if_false] at h
  obtain ⟨b5, h5, h⟩ := bind_ok h
  obtain ⟨b6, h6, h⟩ := bind_ok h
  simp only [Res.ok.injEq] at h
  subst h
  -- up to the mint: accounts other than the module account keep every share balance
  have pre : ∀ a' v', a' ≠ ShareClass.moduleAcc →
      b5.bal a' (ShareClass.shareDenom v') = s1.bank.bal a' (ShareClass.shareDenom v') := by
    intro a' v' ha'
    have hf := C10.shareDenom_ne_fee v'
    have hb := C10.shareDenom_ne_bond v'
    rw [(C10.mint_frame h5).1 a' (by simp [ha']), (C10.creditCoins_frame x.hook b3 ShareClass.moduleAcc).1 a' (by simp [ha']),
      send_denom_frame h3 _ hb a', swap_denom_frame h2 _ hf hb a', send_denom_frame h1 _ hf a']
  obtain ⟨_, _, e6⟩ := send_ok h6
  refine ⟨s1, t, share, hc, hs, by omega, rfl, rfl, rfl, ?_, ?_⟩
  · show b6.bal u _ = _
    rw [e6, ← pre u v hu]
    simp [hu]
  · intro a' v' ha' hne
    show b6.bal a' _ = _
    rw [e6, ← pre a' v' ha']
    have hcond : ¬ (a' = u ∧ ShareClass.shareDenom v' = ShareClass.shareDenom v) := by
      rintro ⟨e1, e2⟩
      rcases hne with h' | h'
      · exact h' e1
      · exact h' (shareDenom_inj e2)
    simp [ha', hcond]

/-- Msg/NonVotingUndelegate, when it succeeds, with the burnt share amount exposed -/
theorem undelegate_share {s s' : SSt} {u : Addr} {v : Val} {a : Int} {rc : Addr} {x : ShareClass.StakeExt}
    (h : ShareClass.undelegate s u v a rc x = .ok s') (hu : u ≠ ShareClass.moduleAcc) :
    ∃ s1 t share, ShareClass.claimRewards s u v = .ok (s1, t) ∧ ShareClass.shareByAmount s1 v x.staked a = .ok share
      ∧ 0 ≤ share ∧ share ≤ s1.bank.bal u (ShareClass.shareDenom v)
      ∧ s'.mult = s1.mult ∧ s'.hasMult = s1.hasMult ∧ s'.last = s1.last
      ∧ s'.bank.bal u (ShareClass.shareDenom v) = s1.bank.bal u (ShareClass.shareDenom v) + -share
      ∧ (∀ a' v', a' ≠ ShareClass.moduleAcc → (a' ≠ u ∨ v' ≠ v) →
          s'.bank.bal a' (ShareClass.shareDenom v') = s1.bank.bal a' (ShareClass.shareDenom v')) := by
  unfold ShareClass.undelegate at h
  by_cases ha : a ≤ 0
  · simp [ha] at h
  simp only [ha, if_false] at h
  obtain ⟨⟨s1, t⟩, hc, h⟩ := bind_ok h
  obtain ⟨share, hs, h⟩ := bind_ok h
  by_cases hsh : share < 0
  · simp [hsh] at h
  simp only [hsh, if_false] at h
  obtain ⟨b1, h1, h⟩ := bind_ok h
  obtain ⟨b2, h2, h⟩ := bind_ok h
  by_cases hk : x.stakeOk
  swap
  · simp [hk] at h
  simp only [hk, Bool.not_true, Bool.false_eq_true, if_false, Res.ok.injEq] at h
  subst h
  obtain ⟨_, hle, e1⟩ := send_ok h1
  have post : ∀ a' d', a' ≠ ShareClass.moduleAcc →
      (ShareClass.creditCoins b2 ShareClass.moduleAcc x.hook).bal a' d' = b1.bal a' d' := by
    intro a' d' ha'
    rw [(C10.creditCoins_frame x.hook b2 ShareClass.moduleAcc).1 a' (by simp [ha']), (C10.burn_frame h2).1 a' (by simp [ha'])]
  refine ⟨s1, t, share, hc, hs, by omega, hle, rfl, rfl, rfl, ?_, ?_⟩
  · show (ShareClass.creditCoins b2 ShareClass.moduleAcc x.hook).bal u _ = _
    rw [post u _ hu, e1]
    simp [hu]
  · intro a' v' ha' hne
    show (ShareClass.creditCoins b2 ShareClass.moduleAcc x.hook).bal a' _ = _
    rw [post a' _ ha', e1]
    have hcond : ¬ (a' = u ∧ ShareClass.shareDenom v' = ShareClass.shareDenom v) := by
      rintro ⟨e1, e2⟩
      rcases hne with h' | h'
      · exact h' e1
      · exact h' (shareDenom_inj e2)
    simp [ha', hcond]

/-- a state change that moves only the share balance of `u = accs[i]` at `v` (by δ) is the abstract `setShares i δ` -/
theorem setShares_refines (s1 s' : SSt) (u : Addr) (v : Val) (δ : Int)
    (accs : List Addr) (hnd : accs.Nodup) (i : Nat) (hi : accs[i]? = some u) (hmod : ShareClass.moduleAcc ∉ accs)
    (d : Denom) (hm : s'.mult = s1.mult) (hl : s'.last = s1.last)
    (hbu : s'.bank.bal u (ShareClass.shareDenom v) = s1.bank.bal u (ShareClass.shareDenom v) + δ)
    (hbo : ∀ a' v', a' ≠ ShareClass.moduleAcc → (a' ≠ u ∨ v' ≠ v) →
      s'.bank.bal a' (ShareClass.shareDenom v') = s1.bank.bal a' (ShareClass.shareDenom v')) :
    (SCAccrual.absSC s' v d accs).M = (SCAccrual.step (SCAccrual.absSC s1 v d accs) (.setShares i δ)).M
    ∧ (SCAccrual.absSC s' v d accs).users = (SCAccrual.step (SCAccrual.absSC s1 v d accs) (.setShares i δ)).users := by
  refine ⟨?_, ?_⟩
  · show SCAccrual.valD (s'.mult v d) = SCAccrual.valD (s1.mult v d)
    rw [hm]
  · show (SCAccrual.absSC s' v d accs).users
      = SCAccrual.modifyAt (fun x => { x with share := x.share + δ }) (SCAccrual.absSC s1 v d accs).users i
    rw [absSC_users, absSC_users]
    apply map_modifyAt accs hnd i u hi
    · simp only [userOf, hbu, hl]
    · intro a ha hau
      simp only [userOf, hl, hbo a v (fun e => hmod (e ▸ ha)) (Or.inl hau)]

/-- a state change of that kind leaves the abstraction of every other validator unchanged -/
theorem setShares_frame (s1 s' : SSt) (u : Addr) (v v' : Val) (hv : v' ≠ v)
    (accs : List Addr) (hmod : ShareClass.moduleAcc ∉ accs)
    (d : Denom) (hm : s'.mult = s1.mult) (hl : s'.last = s1.last)
    (hbo : ∀ a' v', a' ≠ ShareClass.moduleAcc → (a' ≠ u ∨ v' ≠ v) →
      s'.bank.bal a' (ShareClass.shareDenom v') = s1.bank.bal a' (ShareClass.shareDenom v')) :
    SCAccrual.absSC s' v' d accs = SCAccrual.absSC s1 v' d accs := by
  unfold SCAccrual.absSC
  rw [hm, hl]
  congr 1
  apply List.map_congr_left
  intro a ha
  rw [hbo a v' (fun e => hmod (e ▸ ha)) (Or.inr hv)]

theorem setShares_guard_congr {a b : SCAccrual.St} {i : Nat} {δ : Int} (hM : b.M = a.M) (hU : b.users = a.users)
    (h : (SCAccrual.Op.setShares i δ).guard a) : (SCAccrual.Op.setShares i δ).guard b := by
  obtain ⟨x, h1, h2, h3⟩ := h
  exact ⟨x, by rw [hU]; exact h1, by rw [hM]; exact h2, h3⟩

/-- what delegate and undelegate have in common: a claim from `s` to `s1`, then a pure share-balance change of the
    claimer from `s1` to `s'` -/
theorem claim_then_setShares {s s1 s' : SSt} {u : Addr} {v : Val} {paid : Coins} (δ : Int)
    (hc : ShareClass.claimRewards s u v = .ok (s1, paid))
    (accs : List Addr) (hnd : accs.Nodup) (i : Nat) (hi : accs[i]? = some u) (hmod : ShareClass.moduleAcc ∉ accs)
    (d : Denom) (hd : s.hasMult v d = true ∨ C10.WF s) (e : ℚ)
    (hm : s'.mult = s1.mult) (hl : s'.last = s1.last)
    (hbu : s'.bank.bal u (ShareClass.shareDenom v) = s1.bank.bal u (ShareClass.shareDenom v) + δ)
    (hbo : ∀ a' v', a' ≠ ShareClass.moduleAcc → (a' ≠ u ∨ v' ≠ v) →
      s'.bank.bal a' (ShareClass.shareDenom v') = s1.bank.bal a' (ShareClass.shareDenom v'))
    (hnn : 0 ≤ s1.bank.bal u (ShareClass.shareDenom v) + δ) :
    -- the claim
    ((SCAccrual.absSC s1 v d accs).M = (SCAccrual.step (SCAccrual.absSC s v d accs) (.claim i (amt paid d : ℚ) e)).M
      ∧ (SCAccrual.absSC s1 v d accs).users
          = (SCAccrual.step (SCAccrual.absSC s v d accs) (.claim i (amt paid d : ℚ) e)).users)
    -- both steps from the abstraction of `s` lead to the abstraction of `s'`
    ∧ ((SCAccrual.absSC s' v d accs).M
          = (SCAccrual.step (SCAccrual.step (SCAccrual.absSC s v d accs) (.claim i (amt paid d : ℚ) e)) (.setShares i δ)).M
      ∧ (SCAccrual.absSC s' v d accs).users
          = (SCAccrual.step (SCAccrual.step (SCAccrual.absSC s v d accs) (.claim i (amt paid d : ℚ) e)) (.setShares i δ)).users)
    -- the guard of `setShares` (checkpoint = multiplier, balance stays ≥ 0) holds after the claim
    ∧ (SCAccrual.Op.setShares i δ).guard (SCAccrual.step (SCAccrual.absSC s v d accs) (.claim i (amt paid d : ℚ) e))
    -- the holder ends checkpointed at the multiplier
    ∧ SCAccrual.valD (s'.last u v d) = (SCAccrual.absSC s' v d accs).M := by
  obtain ⟨_, _, c3, c4, _⟩ := claim_refines hc accs hnd i hi d hd e
  obtain ⟨t1, t2⟩ := setShares_refines s1 s' u v δ accs hnd i hi hmod d hm hl hbu hbo
  have hck : s1.last u v d = s1.mult v d := by
    rw [claim_last_self hc d hd, (C10.claim_ok hc).2.2.1]
  have hg1 : (SCAccrual.Op.setShares i δ).guard (SCAccrual.absSC s1 v d accs) :=
    ⟨userOf s1 v d u, absSC_user_at s1 v d accs i u hi, by simp only [userOf, absSC_M, hck], hnn⟩
  refine ⟨⟨c3, c4⟩, ⟨t1.trans c3, ?_⟩, setShares_guard_congr c3.symm c4.symm hg1, ?_⟩
  · rw [t2]
    show SCAccrual.modifyAt _ (SCAccrual.absSC s1 v d accs).users i = SCAccrual.modifyAt _ _ i
    rw [c4]
  · rw [absSC_M, hl, hm, hck]

/-- **delegate_refines.**  A successful NonVotingDelegate of `u = accs[i]` at `v` is, in the abstraction of `(v, d)` for
    every denom `d`, the abstract `claim i pay e` (`pay` = what the inner claim paid in `d`; its guard: `claim_refines_guard`
    applied to the exposed inner claim) followed by `setShares i share`, `share ≥ 0` the minted amount
    (`CalculateShareByAmount` on the state after the claim): the multiplier is unchanged, the other holders keep balance and
    checkpoint, holder `i` is checkpointed at the multiplier and its balance rose by exactly `share`; the guard of `setShares`
    holds in the intermediate state.
    Hypotheses: `accs.Nodup`; the module account is not in the holder list (it holds share tokens only between the mint and
    the send of this very message; the staking hook's coins are credited to it); `hasMult v d` or `C10.WF s` as in
    `claim_refines`; the sender's share balance is not negative (bank invariant). -/
theorem delegate_refines {s s' : SSt} {u : Addr} {v : Val} {a : Int} {dn : Denom} {x : ShareClass.StakeExt}
    (h : ShareClass.delegate s u v a dn x = .ok s')
    (accs : List Addr) (hnd : accs.Nodup) (i : Nat) (hi : accs[i]? = some u) (hmod : ShareClass.moduleAcc ∉ accs)
    (d : Denom) (hd : s.hasMult v d = true ∨ C10.WF s) (hb : 0 ≤ s.bank.bal u (ShareClass.shareDenom v)) (e : ℚ) :
    ∃ (s1 : SSt) (paid : Coins) (share : Int),
      ShareClass.claimRewards s u v = .ok (s1, paid) ∧ ShareClass.shareByAmount s1 v x.staked a = .ok share ∧ 0 ≤ share
      ∧ ((SCAccrual.absSC s1 v d accs).M = (SCAccrual.step (SCAccrual.absSC s v d accs) (.claim i (amt paid d : ℚ) e)).M
        ∧ (SCAccrual.absSC s1 v d accs).users
            = (SCAccrual.step (SCAccrual.absSC s v d accs) (.claim i (amt paid d : ℚ) e)).users)
      ∧ ((SCAccrual.absSC s' v d accs).M
            = (SCAccrual.step (SCAccrual.step (SCAccrual.absSC s v d accs) (.claim i (amt paid d : ℚ) e)) (.setShares i share)).M
        ∧ (SCAccrual.absSC s' v d accs).users
            = (SCAccrual.step (SCAccrual.step (SCAccrual.absSC s v d accs) (.claim i (amt paid d : ℚ) e)) (.setShares i share)).users)
      ∧ (SCAccrual.Op.setShares i share).guard (SCAccrual.step (SCAccrual.absSC s v d accs) (.claim i (amt paid d : ℚ) e))
      ∧ SCAccrual.valD (s'.last u v d) = (SCAccrual.absSC s' v d accs).M := by
  have hu : u ≠ ShareClass.moduleAcc := fun e' => hmod (e' ▸ List.mem_of_getElem? hi)
  obtain ⟨s1, paid, share, hc, hs, h0, hm, _, hl, hbu, hbo⟩ := delegate_share h hu
  have hnn : 0 ≤ s1.bank.bal u (ShareClass.shareDenom v) + share := by
    rw [claim_share_bal hc]; omega
  exact ⟨s1, paid, share, hc, hs, h0, claim_then_setShares share hc accs hnd i hi hmod d hd e hm hl hbu hbo hnn⟩

/-- **undelegate_refines.**  The same for a successful NonVotingUndelegate: `claim i pay e` followed by
    `setShares i (−share)`, `share ≥ 0` the burnt amount; the guard `0 ≤ share_i − share` needs no hypothesis: the bank
    refused the message otherwise. -/
theorem undelegate_refines {s s' : SSt} {u : Addr} {v : Val} {a : Int} {rc : Addr} {x : ShareClass.StakeExt}
    (h : ShareClass.undelegate s u v a rc x = .ok s')
    (accs : List Addr) (hnd : accs.Nodup) (i : Nat) (hi : accs[i]? = some u) (hmod : ShareClass.moduleAcc ∉ accs)
    (d : Denom) (hd : s.hasMult v d = true ∨ C10.WF s) (e : ℚ) :
    ∃ (s1 : SSt) (paid : Coins) (share : Int),
      ShareClass.claimRewards s u v = .ok (s1, paid) ∧ ShareClass.shareByAmount s1 v x.staked a = .ok share ∧ 0 ≤ share
      ∧ ((SCAccrual.absSC s1 v d accs).M = (SCAccrual.step (SCAccrual.absSC s v d accs) (.claim i (amt paid d : ℚ) e)).M
        ∧ (SCAccrual.absSC s1 v d accs).users
            = (SCAccrual.step (SCAccrual.absSC s v d accs) (.claim i (amt paid d : ℚ) e)).users)
      ∧ ((SCAccrual.absSC s' v d accs).M
            = (SCAccrual.step (SCAccrual.step (SCAccrual.absSC s v d accs) (.claim i (amt paid d : ℚ) e)) (.setShares i (-share))).M
        ∧ (SCAccrual.absSC s' v d accs).users
            = (SCAccrual.step (SCAccrual.step (SCAccrual.absSC s v d accs) (.claim i (amt paid d : ℚ) e)) (.setShares i (-share))).users)
      ∧ (SCAccrual.Op.setShares i (-share)).guard (SCAccrual.step (SCAccrual.absSC s v d accs) (.claim i (amt paid d : ℚ) e))
      ∧ SCAccrual.valD (s'.last u v d) = (SCAccrual.absSC s' v d accs).M := by
  have hu : u ≠ ShareClass.moduleAcc := fun e' => hmod (e' ▸ List.mem_of_getElem? hi)
  obtain ⟨s1, paid, share, hc, hs, h0, hle, hm, _, hl, hbu, hbo⟩ := undelegate_share h hu
  have hnn : 0 ≤ s1.bank.bal u (ShareClass.shareDenom v) + -share := by omega
  exact ⟨s1, paid, share, hc, hs, h0, claim_then_setShares (-share) hc accs hnd i hi hmod d hd e hm hl hbu hbo hnn⟩

/-- **delegate / undelegate frame.**  A successful NonVotingDelegate / NonVotingUndelegate at `v` leaves the abstraction of
    every other validator literally unchanged (for every denom; holder list without the module account) -/
theorem delegate_frame {s s' : SSt} {u : Addr} {v : Val} {a : Int} {dn : Denom} {x : ShareClass.StakeExt}
    (h : ShareClass.delegate s u v a dn x = .ok s') (hu : u ≠ ShareClass.moduleAcc)
    (v' : Val) (hv : v' ≠ v) (d : Denom) (accs : List Addr) (hmod : ShareClass.moduleAcc ∉ accs) :
    SCAccrual.absSC s' v' d accs = SCAccrual.absSC s v' d accs := by
  obtain ⟨s1, paid, share, hc, _, _, hm, _, hl, _, hbo⟩ := delegate_share h hu
  rw [setShares_frame s1 s' u v v' hv accs hmod d hm hl hbo]
  exact (claim_frame hc).2.2.2.2.1 v' d accs hv

theorem undelegate_frame {s s' : SSt} {u : Addr} {v : Val} {a : Int} {rc : Addr} {x : ShareClass.StakeExt}
    (h : ShareClass.undelegate s u v a rc x = .ok s') (hu : u ≠ ShareClass.moduleAcc)
    (v' : Val) (hv : v' ≠ v) (d : Denom) (accs : List Addr) (hmod : ShareClass.moduleAcc ∉ accs) :
    SCAccrual.absSC s' v' d accs = SCAccrual.absSC s v' d accs := by
  obtain ⟨s1, paid, share, hc, _, _, _, hm, _, hl, _, hbo⟩ := undelegate_share h hu
  rw [setShares_frame s1 s' u v v' hv accs hmod d hm hl hbo]
  exact (claim_frame hc).2.2.2.2.1 v' d accs hv

-- ------------------------------------------------------------------------------------------------ non-vacuity
/-! the hypotheses of `claim_refines` / `claim_refines_guard` hold on the concrete history `C10.exState` (two holders with
    50 shares each at v0, a reward of 7 urise): the claim of a3 pays 3 urise and is the abstract `claim 0 3 e` -/
example : ∃ s' paid, ShareClass.claimRewards C10.exState "a3" "v0" = .ok (s', paid) ∧ amt paid "urise" = 3
    ∧ (SCAccrual.absSC s' "v0" "urise" ["a3", "a4"]).users
        = (SCAccrual.step (SCAccrual.absSC C10.exState "v0" "urise" ["a3", "a4"]) (.claim 0 (3 : ℚ) 0)).users
    ∧ ∃ e, (SCAccrual.Op.claim 0 (3 : ℚ) e).guard (SCAccrual.absSC C10.exState "v0" "urise" ["a3", "a4"]) := by
  have hok : (ShareClass.step C10.exState (.claim "a3" "v0")).2.paid = [("urise", 3)] := by decide
  have hcls : (ShareClass.step C10.exState (.claim "a3" "v0")).2.cls = "ok" := by decide
  have hmult : C10.exState.hasMult "v0" "urise" = true := by decide
  have hlast : C10.exState.last "a3" "v0" "urise" = D34.zero := by decide
  have hc0 : 0 ≤ (C10.exState.mult "v0" "urise").c := by decide
  have hbal : 0 ≤ C10.exState.bank.bal "a3" (ShareClass.shareDenom "v0") := by decide
  simp only [ShareClass.step] at hok hcls
  cases hc : ShareClass.claimRewards C10.exState "a3" "v0" with
  | ok r =>
    obtain ⟨s', paid⟩ := r
    rw [hc] at hok
    simp only at hok
    have hamt : amt paid "urise" = 3 := by rw [hok]; decide
    obtain ⟨_, _, _, h4, _⟩ := claim_refines hc ["a3", "a4"] (by decide) 0 rfl "urise" (Or.inl hmult) 0
    have hg := (claim_refines_guard hc ["a3", "a4"] 0 rfl "urise"
      (by rw [valD_eq_val, valD_eq_val, hlast, C10.val_zero]; exact (C10Accrual.val_nonneg_iff _).2 hc0) hbal).1
    rw [hamt] at h4 hg
    exact ⟨s', paid, rfl, hamt, by exact_mod_cast h4, _, by exact_mod_cast hg⟩
  | err c => rw [hc] at hcls; simp [Res.cls] at hcls
  | panic k => rw [hc] at hcls; simp [Res.cls] at hcls

end Sunrise.C10Refine

#print axioms Sunrise.C10Refine.valD_eq_val
#print axioms Sunrise.C10Refine.claim_refines
#print axioms Sunrise.C10Refine.claim_refines_guard
#print axioms Sunrise.C10Refine.claim_refines_step
#print axioms Sunrise.C10Refine.claim_frame
#print axioms Sunrise.C10Refine.reward_refines
#print axioms Sunrise.C10Refine.reward_mult
#print axioms Sunrise.C10Refine.reward_frame
#print axioms Sunrise.C10Refine.reward_noop
#print axioms Sunrise.C10Refine.reward_send_ok
#print axioms Sunrise.C10Refine.delegate_refines
#print axioms Sunrise.C10Refine.undelegate_refines
#print axioms Sunrise.C10Refine.delegate_frame
#print axioms Sunrise.C10Refine.undelegate_frame
