import SunriseVerif.Props.ParamGuards
import SunriseVerif.Gen.KernelsParamsFee
/-! Parameter guards of one module: see `Props/ParamGuards.lean`. -/
namespace Sunrise.ParamGuards
open Sunrise Sunrise.Gen.KernelsParamsFee

theorem fee_burn (x : Dec) : fee_burnRejected x = false ↔ 0 ≤ x.raw ∧ x.raw ≤ PREC := unit_interval x
example : fee_burnRejected ⟨PREC⟩ = false ∧ fee_burnRejected ⟨PREC + 1⟩ = true ∧ fee_burnRejected ⟨-1⟩ = true := by decide

end Sunrise.ParamGuards
