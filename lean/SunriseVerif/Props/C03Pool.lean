import SunriseVerif.Props.C03
import SunriseVerif.Props.C05Loop
import SunriseVerif.Props.C04Interval
/-!
C03 (pool level) — the per-pool contract that `Props/C03.lean` takes as a hypothesis ("observed per call"), proved FOR THE
STORE-LEVEL CONCENTRATED-LIQUIDITY MODEL (`Model/CL.lean`: `swapExactIn`, `swapExactOut`, `quoteExactIn`, `quoteExactOut`,
`computeSwap`, `swapLoop`, `updatePoolForSwap` over `Bank`), for all stores and arguments (induction over the loop's fuel).

* `swapLoop_upd_indep`          the loop with accumulator updates succeeds ⇒ the loop without succeeds on the same iterator
                                with the same `remaining / calculated / sqrtP / tick / liq`, store untouched; the executing loop
                                never touches bank or pool records; on exit the loop condition is false
* `execLimit_eq / quoteLimit_eq` the handlers' limit and the queries' limit 0 are both the price bound (kernel evaluation)
* `computeSwap_exec_quote`      the same one level up, plus `0 ≤ remaining`, and `remaining = 0` unless the price is on the bound
* `updatePoolForSwap_ok`        the three sends as `SwapMoved` (sender / pool account / fee account / others / supply)
* `swapExactIn_moves_exactly`   (1)   `swapExactOut_moves_exactly` (2)
* `swapExactIn_quote`, `swapExactOut_quote`, `quote_eq_execute`   (3): execute ok ⇒ quote ok and equal
* `swap_failure_atomic`         (4)
* `swapExactIn_factor / _Out_`  the handlers = `poolPart` (bank-free) + bank sends;  `clSpec : Route.PoolSpec ClPool`
* `clSpec_swapMatchesQuoteIn`   the hypothesis `C03.SwapMatchesQuoteIn` holds of the CL pools
* `cl_route_quote_eq_execute`   C03 `quote_eq_execute_partial` at the CL pools, no pool hypothesis left
* `cl_sender_as_route_in/out`, `cl_refines_route_swapPoolIn`   the sender's side of the CL handler = the route model's pool hop
                                (stated amount), unconditionally (both directions: `…swapPoolIn`, `…swapPoolOut`)
* C03-P1 (FIXED in the Go code, 6584aed; the model follows): `computeSwap` can stop on the price bound with a partial amount
  (`computeSwap_partial_at_bound_in/out` on the handler-built store `stF`, `stF_reachable`); before the fix the handlers
  succeeded moving less than the stated amount.  Now `swapExactIn/Out` and both quotes return `insufficient-liquidity` there
  (`swapExactIn_refuses_partial_fill`, `swapExactOut_refuses_partial_fill`, `quoteExactIn/Out_refuses_partial_fill`), and (1)/(2)
  hold at full strength: debited EXACTLY `amount` / credited EXACTLY `amount`.
-/
set_option linter.unusedSimpArgs false
set_option linter.unusedVariables false
namespace Sunrise.C03Pool
open Sunrise Sunrise.CL Sunrise.TickMath Sunrise.Gen.KernelsCL
open Sunrise.C05Loop (bind_ok res_ok_inj swapLoop_succ_eq swapLoop_zero settleK ss2Of ss1Of bucket wrapTickK wrapTickK_ok
  amtInOf amtOutOf computeSwap_eq ss0Of finishSwap res_of_rawOr)

/-! ## A. the swap loop: numeric outputs do not depend on `upd`; bank frame; exit condition -/

/-- the numeric part of a swap state: everything except the fee-growth bookkeeping (`growthPerLiq`, `feeTotal`) and the
    ghost trace -/
structure NumEq (a b : SwapState) : Prop where
  remaining : a.remaining = b.remaining
  calculated : a.calculated = b.calculated
  sqrtP : a.sqrtP = b.sqrtP
  tick : a.tick = b.tick
  liq : a.liq = b.liq

/-- the parts of the store a swap computation never touches: the bank and the pool records -/
def Frame (s1 s : St) : Prop := s1.bank = s.bank ∧ s1.pools = s.pools
theorem Frame.trans {a b c : St} (h1 : Frame a b) (h2 : Frame b c) : Frame a c := ⟨h1.1.trans h2.1, h1.2.trans h2.2⟩
theorem Frame.rfl' (a : St) : Frame a a := ⟨rfl, rfl⟩

theorem NumEq.rfl' (a : SwapState) : NumEq a a := ⟨rfl, rfl, rfl, rfl, rfl⟩

theorem ss2Of_numEq (exactIn u u' : Bool) {ss ss0 : SwapState} (r : Dec × Dec × Dec × Dec) (he : NumEq ss ss0) :
    NumEq (ss2Of exactIn u ss r) (ss2Of exactIn u' ss0 r) := by
  obtain ⟨h1, h2, h3, h4, h5⟩ := he
  cases exactIn <;> cases u <;> cases u' <;> constructor <;>
    simp [ss2Of, ss1Of, updateFeeGrowth, h1, h2, h3, h4, h5] <;> (try split) <;> simp [h1, h2, h3, h4, h5]

/-- crossing a tick: with accumulator updates (`upd = true`) the store gets a new `feeGrowth` for the tick (and the
    subtraction may fail); without, the store is untouched and the call cannot fail; the numeric swap state is the same -/
theorem crossTick_upd_indep {s s0 : St} {ss ss0 : SwapState} {bfq : Bool} {lim fee : Dec} {ti : TickInfo} {accVal : DecCoins}
    {d : Denom} {p : St × SwapState}
    (h : crossTick s ss bfq lim fee ti accVal d true = .ok p) (he : NumEq ss ss0) :
    ∃ ss0', crossTick s0 ss0 bfq lim fee ti accVal d false = .ok (s0, ss0') ∧ NumEq p.2 ss0' ∧ Frame p.1 s := by
  obtain ⟨h1, h2, h3, h4, h5⟩ := he
  unfold crossTick at h
  simp -zeta only [if_true] at h
  cases hg : (DecCoins.sub (DecCoins.add accVal [(d, ss.growthPerLiq)]) ti.feeGrowth) with
  | err c => rw [hg] at h; cases h
  | panic k => rw [hg] at h; cases h
  | ok g =>
    rw [hg] at h
    refine ⟨_, rfl, ?_, ?_⟩
    · cases bfq <;> cases h <;> constructor <;> simp [h1, h2, h3, h4, h5]
    · cases bfq <;> cases h <;> exact ⟨rfl, rfl⟩

/-- the loop's exit test, as a Boolean -/
def running (ss : SwapState) (lim : Dec) : Bool := ss.remaining.isPositive && !(ss.sqrtP == lim)

/-- **the loop does not depend on `upd` numerically.**  If the loop with accumulator updates (`upd = true`, the executing
    path) succeeds from `(s, ss)`, then the loop WITHOUT accumulator updates (`upd = false`, the quoting path) succeeds
    from any store `s0` and any swap state `ss0` that agrees with `ss` on the numeric fields, with the same fuel and the
    same tick iterator; it returns the store `s0` untouched and a swap state that agrees with the executing result on
    `remaining / calculated / sqrtP / tick / liq`.  Moreover the executing loop never touches the bank, and on exit the
    loop condition is false. -/
theorem swapLoop_upd_indep {exactIn bfq : Bool} {lim fee : Dec} {tp : TickParams} {accVal : DecCoins} {denomIn : Denom} :
    ∀ (fuel noProg : Nat) (s s0 : St) (ss ss0 : SwapState) (iter : List TickInfo) (s1 : St) (ss1 : SwapState),
      NumEq ss ss0 →
      swapLoop exactIn bfq true lim fee tp accVal denomIn fuel noProg s ss iter = .ok (s1, ss1) →
      ∃ ss1', swapLoop exactIn bfq false lim fee tp accVal denomIn fuel noProg s0 ss0 iter = .ok (s0, ss1')
        ∧ NumEq ss1 ss1' ∧ Frame s1 s ∧ running ss1 lim = false := by
  intro fuel
  induction fuel with
  | zero => intro noProg s s0 ss ss0 iter s1 ss1 _ h; rw [swapLoop_zero] at h; cases h
  | succ fuel ih =>
    intro noProg s s0 ss ss0 iter s1 ss1 he h
    rw [swapLoop_succ_eq] at h ⊢
    rw [← he.remaining, ← he.sqrtP, ← he.liq]
    by_cases hc : (!(ss.remaining.isPositive && !(ss.sqrtP == lim))) = true
    · rw [if_pos hc] at h ⊢
      have e := res_ok_inj h
      cases e
      refine ⟨ss0, rfl, he, Frame.rfl' _, ?_⟩
      unfold running
      revert hc
      cases (ss.remaining.isPositive && !(ss.sqrtP == lim)) <;> simp
    · rw [if_neg hc] at h ⊢
      cases iter with
      | nil => cases h
      | cons ti rest =>
        simp only [] at h ⊢
        obtain ⟨tickPrice, hT, h⟩ := wrapTickK_ok h
        rw [hT]
        simp only [wrapTickK]
        obtain ⟨r, hB, h⟩ := bind_ok h
        rw [hB]
        simp only [Res.bind]
        by_cases hn : (r.1 == ss.sqrtP && !((amtInOf exactIn r).isZero && (amtOutOf exactIn r).isZero)) = true
        · rw [if_pos hn] at h; cases h
        rw [if_neg hn] at h ⊢
        have he2 : NumEq (ss2Of exactIn true ss r) (ss2Of exactIn false ss0 r) := ss2Of_numEq exactIn true false r he
        -- the continuation, once the cursor is settled
        have key : ∀ (s3 : St) (ss3 ss3' : SwapState) (iter3 : List TickInfo), NumEq ss3 ss3' → Frame s3 s →
            (if (if exactIn = true then amtInOf exactIn r else amtOutOf exactIn r).isZero = true then
              if noProg ≥ 100 then Res.err "ran-out-of-iterations"
              else swapLoop exactIn bfq true lim fee tp accVal denomIn fuel (noProg + 1) s3 ss3 iter3
            else swapLoop exactIn bfq true lim fee tp accVal denomIn fuel noProg s3 ss3 iter3) = .ok (s1, ss1) →
            ∃ ss1', (if (if exactIn = true then amtInOf exactIn r else amtOutOf exactIn r).isZero = true then
              if noProg ≥ 100 then Res.err "ran-out-of-iterations"
              else swapLoop exactIn bfq false lim fee tp accVal denomIn fuel (noProg + 1) s0 ss3' iter3
            else swapLoop exactIn bfq false lim fee tp accVal denomIn fuel noProg s0 ss3' iter3) = .ok (s0, ss1')
              ∧ NumEq ss1 ss1' ∧ Frame s1 s ∧ running ss1 lim = false := by
          intro s3 ss3 ss3' iter3 he3 hb3 hK
          by_cases hz : (if exactIn = true then amtInOf exactIn r else amtOutOf exactIn r).isZero = true
          · rw [if_pos hz] at hK ⊢
            by_cases hnp : noProg ≥ 100
            · rw [if_pos hnp] at hK; cases hK
            · rw [if_neg hnp] at hK ⊢
              obtain ⟨ss1', h1, h2, h3, h4⟩ := ih (noProg + 1) s3 s0 ss3 ss3' iter3 s1 ss1 he3 hK
              exact ⟨ss1', h1, h2, h3.trans hb3, h4⟩
          · rw [if_neg hz] at hK ⊢
            obtain ⟨ss1', h1, h2, h3, h4⟩ := ih noProg s3 s0 ss3 ss3' iter3 s1 ss1 he3 hK
            exact ⟨ss1', h1, h2, h3.trans hb3, h4⟩
        unfold settleK at h ⊢
        by_cases heq : (tickPrice == r.1) = true
        · rw [if_pos heq] at h ⊢
          obtain ⟨p, hp, hK⟩ := bind_ok h
          obtain ⟨ss0', hp0, he', hb⟩ := crossTick_upd_indep (s0 := s0) hp he2
          rw [hp0]
          simp only [Res.bind]
          exact key p.1 p.2 ss0' rest he' hb hK
        · rw [if_neg heq] at h ⊢
          by_cases hord : (if bfq = true then tickPrice.raw > r.1.raw else tickPrice.raw < r.1.raw)
          · rw [if_pos hord] at h; cases h
          · rw [if_neg hord] at h ⊢
            by_cases hmv : (!(ss.sqrtP == r.1)) = true
            · rw [if_pos hmv] at h ⊢
              obtain ⟨t, ht, hK⟩ := bind_ok h
              rw [ht]
              simp only [Res.bind]
              refine key s _ _ (ti :: rest) ?_ (Frame.rfl' _) hK
              exact ⟨he2.remaining, he2.calculated, he2.sqrtP, rfl, he2.liq⟩
            · rw [if_neg hmv] at h ⊢
              exact key s _ _ (ti :: rest) he2 (Frame.rfl' _) h

/-! ## B. `computeSwap`: executing path (`upd = true`, the handlers' price limit) versus quoting path (`upd = false`, limit 0) -/

/-- the square-root price bound in the direction of the trade -/
def bound (bfq : Bool) : Dec := if bfq then MinSqrtPrice else MaxSqrtPrice

/-- the limit the message handlers pass (`GetMultipliedPriceLimit`) resolves to the price bound itself (evaluated by the
    kernel: `ApproxSqrt` of 10^18·bound² divided by 10^9) -/
theorem execLimit_eq (bfq : Bool) : sqrtPriceLimit (multipliedPriceLimit bfq) bfq = .ok (bound bfq) := by
  cases bfq
  · exact res_of_rawOr (by decide) (by decide +kernel)
  · exact res_of_rawOr (by decide) (by decide +kernel)

/-- … and so does the limit `0` of the quote queries: quote and execution run against the SAME limit -/
theorem quoteLimit_eq (bfq : Bool) : sqrtPriceLimit Dec.zero bfq = .ok (bound bfq) := by
  cases bfq <;> rfl

theorem finishSwap_noUpd (exactIn : Bool) (acc : Accum) (d : Denom) (amount : Int) (s : St) (ss : SwapState) :
    (finishSwap exactIn false acc d amount s ss).1 = s := by
  cases exactIn <;> rfl

/-- the reported amounts, as functions of the final swap state -/
def ainOf (exactIn : Bool) (amount : Int) (ss : SwapState) : Int :=
  if exactIn then Dec.truncateInt (Dec.ceil (Dec.sub (Dec.ofInt amount) ss.remaining)) else Dec.truncateInt (Dec.ceil ss.calculated)
def aoutOf (exactIn : Bool) (amount : Int) (ss : SwapState) : Int :=
  if exactIn then Dec.truncateInt ss.calculated else Dec.truncateInt (Dec.sub (Dec.ofInt amount) ss.remaining)

theorem finishSwap_out (exactIn upd : Bool) (acc : Accum) (d : Denom) (amount : Int) (s : St) (ss : SwapState) :
    (finishSwap exactIn upd acc d amount s ss).2 =
      ⟨ainOf exactIn amount ss, aoutOf exactIn amount ss, ss.feeTotal, ss.tick, ss.liq, ss.sqrtP⟩ := by
  cases exactIn <;> rfl

theorem finishSwap_frame (exactIn upd : Bool) (acc : Accum) (d : Denom) (amount : Int) (s : St) (ss : SwapState) :
    Frame (finishSwap exactIn upd acc d amount s ss).1 s := by
  cases exactIn <;> cases upd <;> exact ⟨rfl, rfl⟩

/-- **`computeSwap`, executing path ⇒ quoting path.**  A successful `computeSwap` with accumulator updates and the handlers'
    limit (i) never touches the bank, (ii) ends with `remaining ≥ 0`, and with `remaining = 0` unless the price sits on the
    bound, and (iii) implies that the quoting `computeSwap` (no updates, limit 0) on the same store succeeds, leaves the
    store untouched and reports the same amounts, tick, liquidity and price. -/
theorem computeSwap_exec_quote {exactIn : Bool} {s : St} {pool : Nat} {din dout : Denom} {amount : Int} {fee : Dec} {p : Pool}
    {s1 : St} {o : SwapOut} (hp : getPool s pool = some p)
    (h : computeSwap exactIn s pool din dout amount fee (multipliedPriceLimit (decide (din = p.base))) true = .ok (s1, o)) :
    ∃ (ss : SwapState) (o' : SwapOut),
      computeSwap exactIn s pool din dout amount fee Dec.zero false = .ok (s, o')
      ∧ o'.amountIn = o.amountIn ∧ o'.amountOut = o.amountOut ∧ o'.tick = o.tick ∧ o'.liq = o.liq ∧ o'.sqrtP = o.sqrtP
      ∧ Frame s1 s
      ∧ o.amountIn = ainOf exactIn amount ss ∧ o.amountOut = aoutOf exactIn amount ss ∧ o.sqrtP = ss.sqrtP
      ∧ 0 ≤ ss.remaining.raw ∧ (0 < ss.remaining.raw → ss.sqrtP = bound (decide (din = p.base)))
      ∧ din ≠ dout ∧ (din = p.base ∨ din = p.quote) ∧ (dout = p.base ∨ dout = p.quote) := by
  rw [computeSwap_eq] at h ⊢
  rw [hp] at h ⊢
  simp only [] at h ⊢
  by_cases c1 : (!poolLive p) = true
  · rw [if_pos c1] at h; cases h
  rw [if_neg c1] at h ⊢
  by_cases c2 : dout ≠ p.base ∧ dout ≠ p.quote
  · rw [if_pos c2] at h; cases h
  rw [if_neg c2] at h ⊢
  by_cases c3 : din ≠ p.base ∧ din ≠ p.quote
  · rw [if_pos c3] at h; cases h
  rw [if_neg c3] at h ⊢
  by_cases c4 : dout = din
  · rw [if_pos c4] at h; cases h
  rw [if_neg c4] at h ⊢
  cases ha : getAccum s pool with
  | none => rw [ha] at h; cases h
  | some acc =>
    rw [ha] at h
    simp only [] at h ⊢
    rw [execLimit_eq] at h
    rw [quoteLimit_eq]
    simp only [Res.bind] at h ⊢
    by_cases c5 : (if din = p.base then bfq_ValidateSqrtPrice_err (bound (decide (din = p.base))) fee (bound (decide (din = p.base))) p.sqrtP
              else qfb_ValidateSqrtPrice_err (bound (decide (din = p.base))) fee (bound (decide (din = p.base))) p.sqrtP) = true
    · rw [if_pos c5] at h; cases h
    rw [if_neg c5] at h ⊢
    cases hx : swapLoop exactIn (decide (din = p.base)) true (bound (decide (din = p.base))) fee p.tp acc.value din LOOP_FUEL 0 s
        (ss0Of p amount) (tickIter s pool p.tick (decide (din = p.base))) with
    | err c => rw [hx] at h; cases h
    | panic k => rw [hx] at h; cases h
    | ok x =>
      rw [hx] at h
      simp only [] at h
      obtain ⟨ss1', hq, hne, hbank, hrun⟩ :=
        swapLoop_upd_indep LOOP_FUEL 0 s s (ss0Of p amount) (ss0Of p amount) _ x.1 x.2 (NumEq.rfl' _) hx
      rw [hq]
      simp only []
      by_cases c6 : x.2.remaining.isNegative = true
      · rw [if_pos c6] at h; cases h
      rw [if_neg c6] at h
      rw [← hne.remaining, if_neg c6]
      have h' := res_ok_inj h
      have ho : o = (finishSwap exactIn true acc din amount x.1 x.2).2 := by rw [h']
      have hs1 : s1 = (finishSwap exactIn true acc din amount x.1 x.2).1 := by rw [h']
      rw [finishSwap_out] at ho
      have hrem0 : 0 ≤ x.2.remaining.raw := by
        simp only [Dec.isNegative, decide_eq_true_eq] at c6; omega
      refine ⟨x.2, (finishSwap exactIn false acc din amount s ss1').2, ?_, ?_, ?_, ?_, ?_, ?_, ?_, ?_, ?_, ?_, hrem0, ?_, ?_, ?_, ?_⟩
      · exact congrArg Res.ok (Prod.ext (finishSwap_noUpd _ _ _ _ _ _) rfl)
      · rw [finishSwap_out, ho]
        show ainOf exactIn amount ss1' = ainOf exactIn amount x.2
        unfold ainOf; rw [hne.remaining, hne.calculated]
      · rw [finishSwap_out, ho]
        show aoutOf exactIn amount ss1' = aoutOf exactIn amount x.2
        unfold aoutOf; rw [hne.remaining, hne.calculated]
      · rw [finishSwap_out, ho]; exact hne.tick.symm
      · rw [finishSwap_out, ho]; exact hne.liq.symm
      · rw [finishSwap_out, ho]; exact hne.sqrtP.symm
      · rw [hs1]; exact (finishSwap_frame _ _ _ _ _ _ _).trans hbank
      · rw [ho]
      · rw [ho]
      · rw [ho]
      · intro hpos
        unfold running at hrun
        have : x.2.remaining.isPositive = true := by simp [Dec.isPositive]; omega
        rw [this] at hrun
        simpa using hrun
      · exact fun e => c4 e.symm
      · by_cases e : din = p.base
        · exact Or.inl e
        · by_cases e' : din = p.quote
          · exact Or.inr e'
          · exact absurd ⟨e, e'⟩ c3
      · by_cases e : dout = p.base
        · exact Or.inl e
        · by_cases e' : dout = p.quote
          · exact Or.inr e'
          · exact absurd ⟨e, e'⟩ c2

/-! ## C. the reported amounts against the stated amount -/

open Sunrise.Dec in
theorem tdiv_neg_le {x : Int} (hx : x < 0) : Int.tdiv x PREC ≤ 0 ∧ Int.tmod x PREC ≤ 0 := by
  have e : x = -(-x) := by omega
  have hy : 0 ≤ -x := by omega
  rw [e, Int.neg_tdiv, Int.neg_tmod, Int.tdiv_eq_ediv_of_nonneg hy, Int.tmod_eq_emod_of_nonneg hy]
  simp only [PREC_eq]
  omega

open Sunrise.Dec in
/-- nothing left over: the whole stated amount is reported (exact-in: as input) -/
theorem ain_full (amount : Int) (rem : Dec) (h : rem.raw = 0) :
    truncateInt (ceil (sub (ofInt amount) rem)) = amount := by
  have hP : PREC ≠ 0 := by decide
  unfold truncateInt chopTrunc tquo ceil sub ofInt
  simp only [h, Int.sub_zero, Int.mul_tdiv_cancel _ hP, Int.mul_tmod_left]
  simp [Int.mul_tdiv_cancel _ hP]

open Sunrise.Dec in
/-- nothing left over: the whole stated amount is reported (exact-out: as output) -/
theorem aout_full (amount : Int) (rem : Dec) (h : rem.raw = 0) :
    truncateInt (sub (ofInt amount) rem) = amount := by
  have hP : PREC ≠ 0 := by decide
  unfold truncateInt chopTrunc tquo sub ofInt
  simp only [h, Int.sub_zero, Int.mul_tdiv_cancel _ hP]

open Sunrise.Dec in
/-- a left-over (`remaining ≥ 0`) only lowers the reported input: never more than the stated amount -/
theorem ain_le (amount : Int) (rem : Dec) (h : 0 ≤ rem.raw) (hpos : 0 < truncateInt (ceil (sub (ofInt amount) rem))) :
    truncateInt (ceil (sub (ofInt amount) rem)) ≤ amount := by
  by_cases hx : (sub (ofInt amount) rem).raw < 0
  · exfalso
    obtain ⟨hq, hr⟩ := tdiv_neg_le hx
    have hP : PREC ≠ 0 := by decide
    unfold truncateInt chopTrunc tquo ceil at hpos
    simp only [] at hpos
    rw [if_neg (by omega)] at hpos
    simp only [Int.mul_tdiv_cancel _ hP] at hpos
    omega
  · have hx0 : 0 ≤ (sub (ofInt amount) rem).raw := by omega
    obtain ⟨c1, c2, c3⟩ := ceil_nonneg_bounds _ hx0
    obtain ⟨t1, _, _⟩ := truncateInt_nonneg_bounds (ceil (sub (ofInt amount) rem)) (by omega)
    have e : (sub (ofInt amount) rem).raw = amount * PREC - rem.raw := rfl
    rw [e] at c1 c2
    simp only [PREC_eq] at *
    omega

open Sunrise.Dec in
theorem aout_le (amount : Int) (rem : Dec) (h : 0 ≤ rem.raw) (hpos : 0 < truncateInt (sub (ofInt amount) rem)) :
    truncateInt (sub (ofInt amount) rem) ≤ amount := by
  by_cases hx : (sub (ofInt amount) rem).raw < 0
  · exfalso
    obtain ⟨hq, _⟩ := tdiv_neg_le hx
    unfold truncateInt chopTrunc tquo at hpos
    omega
  · have hx0 : 0 ≤ (sub (ofInt amount) rem).raw := by omega
    obtain ⟨t1, _, _⟩ := truncateInt_nonneg_bounds (sub (ofInt amount) rem) hx0
    have e : (sub (ofInt amount) rem).raw = amount * PREC - rem.raw := rfl
    rw [e] at t1
    simp only [PREC_eq] at *
    omega

/-! ## D. the bank movements of `updatePoolForSwap` -/

open Sunrise.Route (δ send_moves)

theorem poolAddr_ne_feesAddr (id : Nat) : poolAddr id ≠ feesAddr id := by
  unfold poolAddr feesAddr
  intro h
  have := congrArg String.toList h
  simp [toString] at this

/-- what a pool swap does to the bank: the sender pays `ain` of `din` — `ain − fee` to the pool account and `fee` to the
    pool-fee account — and receives `aout` of `dout` from the pool account; nothing else moves, nothing is minted or burnt -/
structure SwapMoved (b b' : Bank) (sender : Addr) (pool : Nat) (din : Denom) (ain : Int) (dout : Denom) (aout : Int) (fee : Int) :
    Prop where
  ofSender : ∀ d, b'.bal sender d = b.bal sender d - δ din ain d + δ dout aout d
  poolAcc : ∀ d, b'.bal (poolAddr pool) d = b.bal (poolAddr pool) d + δ din (ain - fee) d - δ dout aout d
  feeAcc : ∀ d, b'.bal (feesAddr pool) d = b.bal (feesAddr pool) d + δ din fee d
  others : ∀ a d, a ≠ sender → a ≠ poolAddr pool → a ≠ feesAddr pool → b'.bal a d = b.bal a d
  supply : b'.sup = b.sup

/-- per denom the total over (sender, pool account, fee account) is conserved -/
theorem SwapMoved.conserved {b b' : Bank} {sender : Addr} {pool : Nat} {din dout : Denom} {ain aout fee : Int}
    (h : SwapMoved b b' sender pool din ain dout aout fee) (d : Denom) :
    b'.bal sender d + b'.bal (poolAddr pool) d + b'.bal (feesAddr pool) d
      = b.bal sender d + b.bal (poolAddr pool) d + b.bal (feesAddr pool) d := by
  have h1 := h.ofSender d; have h2 := h.poolAcc d; have h3 := h.feeAcc d
  have e : δ din (ain - fee) d = δ din ain d - δ din fee d := by unfold δ; split <;> omega
  omega

/-- the sender-side reading used by `Props/C03.lean` -/
theorem SwapMoved.moved {b b' : Bank} {sender : Addr} {pool : Nat} {din dout : Denom} {ain aout fee : Int}
    (h : SwapMoved b b' sender pool din ain dout aout fee) : Route.Moved b b' sender din ain dout aout := h.ofSender

theorem send_sup {b b' : Bank} {s t : Addr} {d : Denom} {x : Int} (h : b.send s t d x = .ok b') : b'.sup = b.sup := by
  obtain ⟨_, _, e⟩ := Bank.send_ok h
  subst e; rfl

theorem setPool_bank (s : St) (p : Pool) : (setPool s p).bank = s.bank := rfl

theorem err_bind {α β : Type} (c : String) (f : α → Res β) : (Res.err c : Res α).bind f = .err c := rfl
theorem ok_bind {α β : Type} (a : α) (f : α → Res β) : (Res.ok a : Res α).bind f = f a := rfl

/-- three sends in a row: sender → pool (`x`), sender → fees (`f`, possibly skipped when 0), pool → sender (`y`) -/
theorem three_sends {b b1 b2 b3 : Bank} {sender : Addr} {pool : Nat} {din dout : Denom} {x f y : Int}
    (h1 : sender ≠ poolAddr pool) (h2 : sender ≠ feesAddr pool)
    (s1 : b.send sender (poolAddr pool) din x = .ok b1)
    (s2 : (f ≠ 0 ∧ b1.send sender (feesAddr pool) din f = .ok b2) ∨ (f = 0 ∧ b2 = b1))
    (s3 : b2.send (poolAddr pool) sender dout y = .ok b3) :
    0 ≤ x ∧ 0 ≤ f ∧ 0 ≤ y ∧ x + f ≤ b.bal sender din ∧ SwapMoved b b3 sender pool din (x + f) dout y f
      ∧ y ≤ b.bal (poolAddr pool) dout + δ din x dout := by
  have hpf := poolAddr_ne_feesAddr pool
  have h1' : poolAddr pool ≠ sender := fun e => h1 e.symm
  obtain ⟨x0, x1, m1s, m1p, m1o⟩ := send_moves s1 h1
  obtain ⟨y0, y1, m3p, m3s, m3o⟩ := send_moves s3 h1'
  have sup1 := send_sup s1
  have sup3 := send_sup s3
  have ex : ∀ d, δ din (x + f - f) d = δ din x d := by intro d; congr 1; omega
  have ea : ∀ d, δ din (x + f) d = δ din x d + δ din f d := fun d => Route.δ_add din x f d
  rcases s2 with ⟨hf, s2⟩ | ⟨hf, e⟩
  · obtain ⟨f0, f1, m2s, m2f, m2o⟩ := send_moves s2 h2
    have sup2 := send_sup s2
    have hb1 : b1.bal sender din = b.bal sender din - x := by have := m1s din; rw [Route.δ_self] at this; exact this
    refine ⟨x0, f0, y0, by omega, ⟨?_, ?_, ?_, ?_, ?_⟩, by rw [m2o _ dout h1' hpf, m1p dout] at y1; exact y1⟩
    · intro d; rw [m3s d, m2s d, m1s d, ea d]; omega
    · intro d; rw [m3p d, m2o _ d h1' hpf, m1p d, ex d]
    · intro d; rw [m3o _ d (fun e => hpf e.symm) (fun e => h2 e.symm), m2f d, m1o _ d (fun e => h2 e.symm) (fun e => hpf e.symm)]
    · intro a d ha hp hfe; rw [m3o a d hp ha, m2o a d ha hfe, m1o a d ha hp]
    · rw [sup3, sup2, sup1]
  · subst e; subst hf
    have ez : ∀ d, δ din 0 d = 0 := fun d => Route.δ_zero din d
    refine ⟨x0, by omega, y0, by omega, ⟨?_, ?_, ?_, ?_, ?_⟩, by rw [m1p dout] at y1; exact y1⟩
    · intro d; rw [m3s d, m1s d, ea d, ez d]; omega
    · intro d; rw [m3p d, m1p d, ex d]
    · intro d; rw [m3o _ d (fun e => hpf e.symm) (fun e => h2 e.symm), m1o _ d (fun e => h2 e.symm) (fun e => hpf e.symm), ez d]; omega
    · intro a d ha hp hfe; rw [m3o a d hp ha, m1o a d ha hp]
    · rw [sup3, sup1]

/-- **`updatePoolForSwap`**: on success the pool fee `⌈fees⌉` is non-negative and strictly below the input, the output is
    non-negative, the bank moves as `SwapMoved` says, and the rest of the store is the old one with the pool record
    updated -/
theorem updatePoolForSwap_ok {s : St} {p : Pool} {sender : Addr} {din dout : Denom} {ain aout : Int} {o : SwapOut} {s2 : St}
    (h : updatePoolForSwap s p sender din ain dout aout o = .ok s2)
    (h1 : sender ≠ poolAddr p.id) (h2 : sender ≠ feesAddr p.id) :
    ∃ fee, fee = Dec.truncateInt (Dec.ceil o.fees) ∧ 0 ≤ fee ∧ fee < ain ∧ 0 ≤ aout ∧ ain ≤ s.bank.bal sender din
      ∧ SwapMoved s.bank s2.bank sender p.id din ain dout aout fee
      ∧ s2 = setPool { s with bank := s2.bank } { p with liq := o.liq, tick := o.tick, sqrtP := o.sqrtP }
      ∧ (sendDisabled din = false ∧ sendDisabled dout = false ∧ o.liq.isNegative = false ∧ o.sqrtP.isNegative = false)
      ∧ aout ≤ s.bank.bal (poolAddr p.id) dout + δ din (ain - fee) dout := by
  unfold updatePoolForSwap at h
  simp only [bind, pure, err_bind] at h
  split at h
  · cases h
  rename_i hnet
  split at h
  · cases h
  rename_i hsd1
  obtain ⟨b1, hs1, h⟩ := bind_ok h
  have e : ain = (ain - Dec.truncateInt (Dec.ceil o.fees)) + Dec.truncateInt (Dec.ceil o.fees) := by omega
  split at h
  · rename_i hf
    obtain ⟨b2, hs2, h⟩ := bind_ok h
    split at h
    · cases h
    rename_i hsd2
    obtain ⟨b3, hs3, h⟩ := bind_ok h
    split at h
    · cases h
    rename_i hl
    split at h
    · cases h
    rename_i hq
    have hs := (res_ok_inj h).symm
    obtain ⟨x0, f0, y0, hb, mv, hy⟩ := three_sends h1 h2 hs1 (Or.inl ⟨hf, hs2⟩) hs3
    rw [← e] at mv hb
    refine ⟨_, rfl, f0, by omega, y0, hb, ?_, ?_, ⟨by simpa using hsd1, by simpa using hsd2, by simpa using hl, by simpa using hq⟩, hy⟩
    · rw [hs]; exact mv
    · rw [hs]; rfl
  · rename_i hf
    obtain ⟨b2, hs2, h⟩ := bind_ok h
    have hb2 : b2 = b1 := (res_ok_inj hs2).symm
    split at h
    · cases h
    rename_i hsd2
    obtain ⟨b3, hs3, h⟩ := bind_ok h
    split at h
    · cases h
    rename_i hl
    split at h
    · cases h
    rename_i hq
    have hs := (res_ok_inj h).symm
    have hf0 : Dec.truncateInt (Dec.ceil o.fees) = 0 := by
      by_contra hc; exact hf hc
    obtain ⟨x0, f0, y0, hb, mv, hy⟩ := three_sends h1 h2 hs1 (Or.inr ⟨hf0, hb2⟩) hs3
    rw [← e] at mv hb
    refine ⟨_, rfl, f0, by omega, y0, hb, ?_, ?_, ⟨by simpa using hsd1, by simpa using hsd2, by simpa using hl, by simpa using hq⟩, hy⟩
    · rw [hs]; exact mv
    · rw [hs]; rfl

/-! ## E. the two swap handlers -/

open Sunrise.C04Interval (getPool_setPool)

theorem getPool_id {s : St} {pool : Nat} {p : Pool} (hp : getPool s pool = some p) : p.id = pool := by
  have := List.find?_some hp
  simpa using this

theorem swapExactIn_inv {s s' : St} {sender : Addr} {pool : Nat} {din dout : Denom} {amount out : Int} {fe : Bool}
    (h : swapExactIn s sender pool din amount dout fe = .ok (s', out)) :
    ∃ p s1 o, getPool s pool = some p ∧ p.id = pool ∧
      computeSwap true s pool din dout amount (if fe then p.feeRate else Dec.zero)
        (multipliedPriceLimit (decide (din = p.base))) true = .ok (s1, o)
      ∧ o.amountIn = amount
      ∧ 0 < o.amountOut ∧ out = o.amountOut ∧ updatePoolForSwap s1 p sender din o.amountIn dout o.amountOut o = .ok s' := by
  unfold swapExactIn at h
  cases hp : getPool s pool with
  | none => rw [hp] at h; cases h
  | some p =>
    rw [hp] at h
    simp only [bind, pure, err_bind, ok_bind] at h
    split at h
    · cases h
    obtain ⟨x, hx, h⟩ := bind_ok h
    split at h
    · cases h
    rename_i hfull
    split at h
    · cases h
    rename_i hpos
    obtain ⟨s2', hu, h⟩ := bind_ok h
    have e := res_ok_inj h
    cases e
    exact ⟨p, x.1, x.2, rfl, getPool_id hp, hx, by simpa using hfull, by simpa using hpos, rfl, hu⟩

theorem swapExactOut_inv {s s' : St} {sender : Addr} {pool : Nat} {din dout : Denom} {amount ain : Int} {fe : Bool}
    (h : swapExactOut s sender pool dout amount din fe = .ok (s', ain)) :
    ∃ p s1 o, getPool s pool = some p ∧ p.id = pool ∧
      computeSwap false s pool din dout amount (if fe then p.feeRate else Dec.zero)
        (multipliedPriceLimit (decide (din = p.base))) true = .ok (s1, o)
      ∧ o.amountOut = amount
      ∧ 0 < o.amountIn ∧ ain = o.amountIn ∧ updatePoolForSwap s1 p sender din o.amountIn dout o.amountOut o = .ok s' := by
  unfold swapExactOut at h
  cases hp : getPool s pool with
  | none => rw [hp] at h; cases h
  | some p =>
    rw [hp] at h
    simp only [bind, pure, err_bind, ok_bind] at h
    split at h
    · cases h
    obtain ⟨x, hx, h⟩ := bind_ok h
    split at h
    · cases h
    rename_i hfull
    split at h
    · cases h
    rename_i hpos
    obtain ⟨s2', hu, h⟩ := bind_ok h
    have e := res_ok_inj h
    cases e
    exact ⟨p, x.1, x.2, rfl, getPool_id hp, hx, by simpa using hfull, by simpa using hpos, rfl, hu⟩

/-- **1. `SwapExactAmountIn` of the CL model moves exactly the stated amount** (model of the FIXED code, 6584aed: a run that
    stops on the price bound with input left over is refused).  If the swap succeeds with result `out` for a sender that is
    neither the pool account nor the pool-fee account, then there is `fee` (the pool fee, part of the input) such that

    * `0 < out`, `0 ≤ fee < amount`, `din ≠ dout`, the sender held `amount`, the pool account held `out`;
    * in `s'.bank` the sender's balance of `din` is lower by EXACTLY `amount`, its balance of `dout` higher by EXACTLY
      `out`, every other balance of the sender is unchanged; the pool account got `amount − fee` of `din` and paid `out` of
      `dout`; the fee account got `fee` of `din`; every other account is unchanged; supply unchanged (`SwapMoved`), hence
      per denom the total over (sender, pool, fees) is conserved. -/
theorem swapExactIn_moves_exactly {s s' : St} {sender : Addr} {pool : Nat} {din dout : Denom} {amount out : Int} {fe : Bool}
    (h : swapExactIn s sender pool din amount dout fe = .ok (s', out))
    (h1 : sender ≠ poolAddr pool) (h2 : sender ≠ feesAddr pool) :
    ∃ (p p' : Pool) (fee : Int),
      getPool s pool = some p ∧ getPool s' pool = some p' ∧
      0 < out ∧ 0 ≤ fee ∧ fee < amount ∧ amount ≤ s.bank.bal sender din ∧ out ≤ s.bank.bal (poolAddr pool) dout ∧ din ≠ dout ∧
      SwapMoved s.bank s'.bank sender pool din amount dout out fee ∧
      (∀ d, s'.bank.bal sender d + s'.bank.bal (poolAddr pool) d + s'.bank.bal (feesAddr pool) d
          = s.bank.bal sender d + s.bank.bal (poolAddr pool) d + s.bank.bal (feesAddr pool) d) := by
  obtain ⟨p, s1, o, hp, hid, hx, hfull, hpos, hout, hu⟩ := swapExactIn_inv h
  subst hout
  obtain ⟨ss, o', _, _, _, _, _, _, hfr, _, _, _, _, _, hne, _, _⟩ := computeSwap_exec_quote hp hx
  subst hid
  obtain ⟨fee, hfee, f0, f1, y0, hb, mv, hs', _, hy⟩ := updatePoolForSwap_ok hu h1 h2
  rw [hfr.1] at mv hb hy
  rw [hfull] at mv hb f1
  rw [Route.δ_ne _ _ _ (fun e => hne e.symm)] at hy
  have hp' : getPool s' p.id = some { p with liq := o.liq, tick := o.tick, sqrtP := o.sqrtP } := by
    rw [hs']
    exact getPool_setPool (s := s) hp hfr.2 rfl
  exact ⟨p, _, fee, hp, hp', hpos, f0, f1, hb, by omega, hne, mv, mv.conserved⟩

/-- **2. `SwapExactAmountOut` of the CL model moves exactly the stated amount.**  If the swap succeeds with result `ain` (the
    input charged), then `0 < ain`, `0 ≤ fee < ain`, the sender is CREDITED EXACTLY `amount` of `dout` and DEBITED EXACTLY the
    returned `ain` of `din`, nothing else of the sender changes, pool / fee accounts move as in (1), everything else is
    unchanged, totals are conserved. -/
theorem swapExactOut_moves_exactly {s s' : St} {sender : Addr} {pool : Nat} {din dout : Denom} {amount ain : Int} {fe : Bool}
    (h : swapExactOut s sender pool dout amount din fe = .ok (s', ain))
    (h1 : sender ≠ poolAddr pool) (h2 : sender ≠ feesAddr pool) :
    ∃ (p p' : Pool) (fee : Int),
      getPool s pool = some p ∧ getPool s' pool = some p' ∧
      0 < ain ∧ 0 ≤ fee ∧ fee < ain ∧ 0 ≤ amount ∧ ain ≤ s.bank.bal sender din ∧ amount ≤ s.bank.bal (poolAddr pool) dout ∧ din ≠ dout ∧
      SwapMoved s.bank s'.bank sender pool din ain dout amount fee ∧
      (∀ d, s'.bank.bal sender d + s'.bank.bal (poolAddr pool) d + s'.bank.bal (feesAddr pool) d
          = s.bank.bal sender d + s.bank.bal (poolAddr pool) d + s.bank.bal (feesAddr pool) d) := by
  obtain ⟨p, s1, o, hp, hid, hx, hfull, hpos, hout, hu⟩ := swapExactOut_inv h
  subst hout
  obtain ⟨ss, o', _, _, _, _, _, _, hfr, _, _, _, _, _, hne, _, _⟩ := computeSwap_exec_quote hp hx
  subst hid
  obtain ⟨fee, hfee, f0, f1, y0, hb, mv, hs', _, hy⟩ := updatePoolForSwap_ok hu h1 h2
  rw [hfr.1] at mv hb hy
  rw [hfull] at mv y0 hy
  rw [Route.δ_ne _ _ _ (fun e => hne e.symm)] at hy
  have hp' : getPool s' p.id = some { p with liq := o.liq, tick := o.tick, sqrtP := o.sqrtP } := by
    rw [hs']
    exact getPool_setPool (s := s) hp hfr.2 rfl
  exact ⟨p, _, fee, hp, hp', hpos, f0, f1, y0, hb, by omega, hne, mv, mv.conserved⟩

/-! ## F. quote = execute -/

/-- **3a. a successful `SwapExactAmountIn` returns what `CalculateResultExactAmountIn` answers on the pre-state** (same
    fee switch): the quote SUCCEEDS and equals the result.  (Quote: `upd = false`, limit 0; execution: `upd = true`,
    `GetMultipliedPriceLimit`; both limits are the price bound, the loop's numbers do not depend on `upd`, and both paths
    apply the same no-partial-fill check.) -/
theorem swapExactIn_quote {s s' : St} {sender : Addr} {pool : Nat} {din dout : Denom} {amount out : Int} {fe : Bool}
    (h : swapExactIn s sender pool din amount dout fe = .ok (s', out)) :
    quoteExactIn s pool din amount dout fe = .ok out := by
  obtain ⟨p, s1, o, hp, hid, hx, hfull, hpos, hout, hu⟩ := swapExactIn_inv h
  obtain ⟨ss, o', hq, hai, hao, _⟩ := computeSwap_exec_quote hp hx
  unfold quoteExactIn
  rw [hp]
  simp only [bind, pure, ok_bind, err_bind]
  rw [hq]
  simp only [ok_bind]
  rw [if_neg (by rw [hai, hfull]; simp), hao, hout]

/-- **3b.** the same for exact-out: the input charged is the input quoted -/
theorem swapExactOut_quote {s s' : St} {sender : Addr} {pool : Nat} {din dout : Denom} {amount ain : Int} {fe : Bool}
    (h : swapExactOut s sender pool dout amount din fe = .ok (s', ain)) :
    quoteExactOut s pool dout amount din fe = .ok ain := by
  obtain ⟨p, s1, o, hp, hid, hx, hfull, hpos, hout, hu⟩ := swapExactOut_inv h
  obtain ⟨ss, o', hq, hai, hao, _⟩ := computeSwap_exec_quote hp hx
  unfold quoteExactOut
  rw [hp]
  simp only [bind, pure, ok_bind, err_bind]
  rw [hq]
  simp only [ok_bind]
  rw [if_neg (by rw [hao, hfull]; simp), hai, hout]

/-- **3. quote = execute** (both directions of the trade), as asked: whenever both succeed they agree -/
theorem quote_eq_execute {s s' : St} {sender : Addr} {pool : Nat} {din dout : Denom} {amount q out : Int} {fe : Bool} :
    (quoteExactIn s pool din amount dout fe = .ok q → swapExactIn s sender pool din amount dout fe = .ok (s', out) → q = out) ∧
    (quoteExactOut s pool dout amount din fe = .ok q → swapExactOut s sender pool dout amount din fe = .ok (s', out) → q = out) := by
  constructor
  · intro hq h
    rw [swapExactIn_quote h] at hq
    exact (res_ok_inj hq).symm
  · intro hq h
    rw [swapExactOut_quote h] at hq
    exact (res_ok_inj hq).symm

/-! ## G. failure atomicity -/

/-- how a transaction applies a handler result (`Driver/CL.lean: fin`): the new store on `.ok`, the old store otherwise -/
def commit {α : Type} (s : St) (r : Res (St × α)) : St := match r with | .ok (s', _) => s' | _ => s

/-- **4. a swap that does not succeed changes nothing.**  In the model a handler returns `Res (St × Int)`: `.err` and
    `.panic` carry NO state, so every partial effect (fee-growth written on crossed ticks, accumulator, sends already made
    inside `updatePoolForSwap`) is dropped with the failing result; the transaction wrapper keeps the old store. -/
theorem swap_failure_atomic (s : St) (sender : Addr) (pool : Nat) (d1 d2 : Denom) (amount : Int) (fe : Bool) :
    (¬ (swapExactIn s sender pool d1 amount d2 fe).isOk → commit s (swapExactIn s sender pool d1 amount d2 fe) = s) ∧
    (¬ (swapExactOut s sender pool d1 amount d2 fe).isOk → commit s (swapExactOut s sender pool d1 amount d2 fe) = s) := by
  constructor
  · cases swapExactIn s sender pool d1 amount d2 fe <;> simp [Res.isOk, commit]
  · cases swapExactOut s sender pool d1 amount d2 fe <;> simp [Res.isOk, commit]

/-- … and a swap that succeeds commits exactly the returned store -/
theorem swap_success_commit {s s' : St} {x : Int} {r : Res (St × Int)} (h : r = .ok (s', x)) : commit s r = s' := by
  subst h; rfl

/-! ## H. non-vacuity on a concrete pool, and the regression of C03-P1 (partial fill at the price bound) -/

open Sunrise.C05Loop (tp10 stD poolD)

/-- observation of a swap result: the returned number and the six balances (sender, pool account, fee account) × (base, quote) -/
def balsOf (s : St) : List Int :=
  [s.bank.bal "s" "base", s.bank.bal "s" "quote", s.bank.bal (poolAddr 0) "base", s.bank.bal (poolAddr 0) "quote",
   s.bank.bal (feesAddr 0) "base", s.bank.bal (feesAddr 0) "quote"]
def obs (r : Res (St × Int)) : Option (Int × List Int) := match r with | .ok (s, x) => some (x, balsOf s) | _ => none

theorem obs_some {r : Res (St × Int)} {x : Int} {l : List Int} (h : obs r = some (x, l)) :
    ∃ s', r = .ok (s', x) ∧ balsOf s' = l := by
  cases r with
  | ok v =>
    obtain ⟨s', y⟩ := v
    simp only [obs, Option.some.injEq, Prod.mk.injEq] at h
    exact ⟨s', by rw [h.1], h.2⟩
  | err c => cases h
  | panic k => cases h

/-- the one-position pool of `C05Loop` (price 1.0, liquidity 10⁶, fee 0.3 %, ticks −1 and +1 of a ratio-10 grid) with a bank:
    the sender holds 5000 quote and 7 base, the pool account 10⁶ of each -/
def bankA : Bank :=
  (((Bank.empty.credit "s" "quote" 5000).credit "s" "base" 7).credit (poolAddr 0) "base" 1000000).credit (poolAddr 0) "quote" 1000000
def stA : St := { stD with bank := bankA }

theorem exA_in : obs (swapExactIn stA "s" 0 "quote" 1000 "base" true) = some (996, [1003, 4000, 999004, 1000997, 0, 3]) := by
  decide +kernel
theorem exA_out : obs (swapExactOut stA "s" 0 "base" 900 "quote" true) = some (904, [907, 4096, 999100, 1000901, 0, 3]) := by
  decide +kernel
theorem exA_quote : quoteExactIn stA 0 "quote" 1000 "base" true = .ok 996 := by
  obtain ⟨s', h, _⟩ := obs_some exA_in
  exact swapExactIn_quote h

/-- non-vacuity of (1): the hypotheses hold on `stA` (1000 quote in, 996 base out, pool fee 3),     and the theorem then says that exactly the stated 1000 were taken — as the evaluated balances confirm -/
example : ∃ s', swapExactIn stA "s" 0 "quote" 1000 "base" true = .ok (s', 996)
    ∧ s'.bank.bal "s" "quote" = stA.bank.bal "s" "quote" - 1000 ∧ s'.bank.bal "s" "base" = stA.bank.bal "s" "base" + 996 := by
  obtain ⟨s', h, hb⟩ := obs_some exA_in
  refine ⟨s', h, ?_, ?_⟩
  · simp only [balsOf, List.cons.injEq] at hb
    rw [hb.2.1]; decide
  · simp only [balsOf, List.cons.injEq] at hb
    rw [hb.1]; decide

example : ("s" : Addr) ≠ poolAddr 0 ∧ ("s" : Addr) ≠ feesAddr 0 := by decide

/-! ### C03-P1 (fixed) — partial fill at the price bound

A position whose lower tick is `TICK_MIN` (sqrt price 10⁻¹⁸ = `MinSqrtPrice`, the base-for-quote price bound and at the same
time the limit the handlers pass) makes the bound reachable: a base-for-quote swap larger than the pool can absorb stops
on the bound with `remaining > 0`, and `computeSwap` reports `amountIn = ⌈amount − remaining⌉ < amount` (exact-in) resp.
`amountOut = ⌊amount − remaining⌋ < amount` (exact-out).  BEFORE the fix the handlers succeeded with those amounts (reproduced
on the real application: Msg/SwapExactAmountIn of 10²⁵ debited 1 003 009 027 081 243 732 000) while x/swap recorded the stated
amount; exact-out paid LESS than the stated `amount_out`.  The fixed `swapOutAmtGivenIn / swapInAmtGivenOut` and both
`CalculateResult…` return `ErrInsufficientLiquidity` when the computed amount differs from the stated one.  Kept here: the
fact about `computeSwap` (unchanged) and the refusals as regression statements.

`stF` is the store after `createPool base/quote fee 0.3 % ratio 10` and `createPosition lp [TICK_MIN, 2] 1000 base 1000 quote`
(the position takes 901 base + 1000 quote, liquidity 1000.000000000000001), see `stF_reachable`. -/

def bankF : Bank :=
  (((Bank.empty.credit "s" "base" (10^30)).credit "lp" "base" 99).credit (poolAddr 0) "base" 901).credit (poolAddr 0) "quote" 1000
def stF : St :=
  { pools := [⟨0, "base", "quote", ⟨3000000000000000⟩, tp10, 0, ⟨1000000000000000000⟩, ⟨1000000000000000001000⟩⟩],
    positions := [⟨0, 0, "lp", TICK_MIN, 2, ⟨1000000000000000001000⟩⟩],
    ticks := [⟨0, TICK_MIN, ⟨1000000000000000001000⟩, ⟨1000000000000000001000⟩, []⟩,
              ⟨0, 2, ⟨1000000000000000001000⟩, ⟨-1000000000000000001000⟩, []⟩],
    accums := [⟨0, [], ⟨1000000000000000001000⟩⟩],
    accPos := [⟨0, 0, ⟨1000000000000000001000⟩, [], []⟩],
    nextPool := 1, nextPos := 1, bank := bankF }

/-- the same store, built by the handlers -/
def stF0 : St :=
  (createPool { bank := ((Bank.empty.credit "s" "base" (10^30)).credit "lp" "base" 1000).credit "lp" "quote" 1000 }
    "base" "quote" ⟨3000000000000000⟩ ⟨10 * PREC⟩ ⟨0⟩).1
def summary (s : St) : List (List Int) :=
  [s.pools.map (·.id), s.pools.map (·.tick), s.pools.map (·.sqrtP.raw), s.pools.map (·.liq.raw), s.pools.map (·.feeRate.raw),
   s.ticks.map (·.tick), s.ticks.map (·.gross.raw), s.ticks.map (·.net.raw), s.ticks.map (·.feeGrowth.length),
   s.accums.map (·.totalShares.raw), s.accums.map (·.value.length), s.positions.map (·.liq.raw), s.positions.map (·.lower),
   s.positions.map (·.upper), s.accPos.map (·.shares.raw), [s.nextPool, s.nextPos], balsOf s, [s.bank.bal "lp" "base", s.bank.bal "lp" "quote"]]
theorem stF_reachable :
    (match createPosition stF0 "lp" 0 TICK_MIN 2 "base" 1000 "quote" 1000 0 0 with | .ok (s, _) => summary s | _ => []) = summary stF := by
  decide +kernel

def csObs (r : Res (St × SwapOut)) : Option (Int × Int × Int) := match r with
  | .ok (_, o) => some (o.amountIn, o.amountOut, o.sqrtP.raw) | _ => none
def errOf {α : Type} (r : Res α) : Option String := match r with | .err c => some c | _ => none
theorem err_of_errOf {α : Type} {r : Res α} {c : String} (h : errOf r = some c) : r = .err c := by
  cases r with
  | ok a => cases h
  | err c' => simp only [errOf, Option.some.injEq] at h; rw [h]
  | panic k => cases h

/-- **fact about `computeSwap` (unchanged by the fix), exact-in**: 10²⁵ base stated; the computation SUCCEEDS, stops on the price
    bound (sqrt price raw 1 = `MinSqrtPrice`) and reports only 1 003 009 027 081 243 732 000 base consumed for 1000 quote -/
theorem computeSwap_partial_at_bound_in :
    csObs (computeSwap true stF 0 "base" "quote" (10^25) ⟨3000000000000000⟩ (multipliedPriceLimit true) true)
      = some (1003009027081243732000, 1000, 1) := by decide +kernel
/-- **… exact-out**: 2000 quote stated; the computation SUCCEEDS on the bound and reports only 1000 quote paid -/
theorem computeSwap_partial_at_bound_out :
    csObs (computeSwap false stF 0 "base" "quote" 2000 ⟨3000000000000000⟩ (multipliedPriceLimit true) true)
      = some (1003009027081243732000, 1000, 1) := by decide +kernel

/-- **regression (was FINDING C03-P1, exact-in).** The handler now REFUSES the partial fill: before the fix this call
    succeeded with 1000 quote out while debiting 1.003·10²¹ instead of the stated 10²⁵ base. -/
theorem swapExactIn_refuses_partial_fill :
    swapExactIn stF "s" 0 "base" (10^25) "quote" true = .err "insufficient-liquidity" :=
  err_of_errOf (by decide +kernel)
/-- **regression (exact-out).** 2000 quote asked, 1000 available down to the bound: refused (before the fix: succeeded paying 1000) -/
theorem swapExactOut_refuses_partial_fill :
    swapExactOut stF "s" 0 "quote" 2000 "base" true = .err "insufficient-liquidity" :=
  err_of_errOf (by decide +kernel)
/-- the two queries refuse in the same way (quote = execute also in the refusal) -/
theorem quoteExactIn_refuses_partial_fill :
    quoteExactIn stF 0 "base" (10^25) "quote" true = .err "insufficient-liquidity" :=
  err_of_errOf (by decide +kernel)
theorem quoteExactOut_refuses_partial_fill :
    quoteExactOut stF 0 "quote" 2000 "base" true = .err "insufficient-liquidity" :=
  err_of_errOf (by decide +kernel)

/-- the pool still serves what it can serve exactly: all 1000 quote out of `stF` (the run ends ON the bound with nothing left over) -/
theorem exF_out_exact : obs (swapExactOut stF "s" 0 "quote" 1000 "base" true)
    = some (1003009027081243732000, [10^30 - 1003009027081243732000, 1000, 1000000000000000000901, 0, 3009027081243732000, 0]) := by
  decide +kernel

/-! ## I. connection to `Model/Route.lean`: a `PoolSpec` built from the CL model

`Route.PoolSpec` separates a pool's own state from the bank (the route model moves the coins itself, `swapPoolIn/Out`).
State chosen here: `ClPool = (pool id, the WHOLE CL store)`; the store's `bank` field is never read and never changed by
the pool part (one copy of the store per pool id in `Route.World.pools`; a swap on pool `id` rewrites only records keyed by
`id`).  `poolPart` is `swapExactIn/Out` with the three bank sends of `updatePoolForSwap` removed and everything else kept
(the amount checks that the sends perform — positive net input, non-negative fee and output — and the send-disabled checks
stay, as Booleans).  `swapExactIn_factor / swapExactOut_factor` prove that this IS the pool half of the CL handlers.

Difference in the bank half, stated once: `Route.swapPoolIn` puts the whole input on ONE account `pool:<id>`, the CL model
splits it between `pool:<id>` (`ain − fee`) and `poolfees:<id>` (`fee`); and `Route.swapPoolIn/Out` move the STATED amount
where the CL model moves the consumed / paid amount — which the fixed handlers force to be the stated amount (C03-P1).  What
C03 is about is the sender's side; `cl_sender_as_route_in/out` prove that the sender's balances after the CL handler are exactly
those the route model computes (`Route.Moved` with the stated amount), and `cl_refines_route_swapPoolIn/Out` that the route
model's pool hop over `clSpec` succeeds with the same result whenever the CL handler does. -/

structure ClPool where
  id : Nat
  st : St

/-- the checks of `updatePoolForSwap` that do not read balances -/
def bankFreeChecks (din dout : Denom) (o : SwapOut) : Bool :=
  decide (0 < o.amountIn - Dec.truncateInt (Dec.ceil o.fees)) && decide (0 ≤ Dec.truncateInt (Dec.ceil o.fees))
    && decide (0 ≤ o.amountOut) && !sendDisabled din && !sendDisabled dout && !o.liq.isNegative && !o.sqrtP.isNegative

/-- `SwapExactAmountIn/Out` (fee enabled, as x/swap calls them) without the bank sends -/
def poolPart (exactIn : Bool) (id : Nat) (s : St) (din dout : Denom) (a : Int) : Res (Int × St) :=
  match getPool s id with
  | none => .err "pool-not-found"
  | some p =>
    if din = dout then .err "denom-duplication" else
    (computeSwap exactIn s id din dout a p.feeRate (multipliedPriceLimit (decide (din = p.base))) true).bind fun x =>
      if (if exactIn then x.2.amountIn else x.2.amountOut) ≠ a then .err "insufficient-liquidity"
      else if (if exactIn then x.2.amountOut else x.2.amountIn) ≤ 0 then .err "unexpected-calc-amount"
      else if bankFreeChecks din dout x.2 = false then .err "refused"
      else .ok (if exactIn then x.2.amountOut else x.2.amountIn,
                setPool x.1 { p with liq := x.2.liq, tick := x.2.tick, sqrtP := x.2.sqrtP })

theorem setPool_strip {s1 s' : St} {P : Pool} {b : Bank} (hs' : s' = setPool { s1 with bank := s'.bank } P) (hb : s1.bank = b) :
    setPool s1 P = { s' with bank := b } := by
  generalize s'.bank = b' at hs'
  subst hs'; subst hb
  rfl

/-- **the CL exact-in handler = pool part + bank part** -/
theorem swapExactIn_factor {s s' : St} {sender : Addr} {id : Nat} {din dout : Denom} {a out : Int}
    (h : swapExactIn s sender id din a dout true = .ok (s', out))
    (h1 : sender ≠ poolAddr id) (h2 : sender ≠ feesAddr id) :
    poolPart true id s din dout a = .ok (out, { s' with bank := s.bank }) := by
  obtain ⟨p, s1, o, hp, hid, hx, hfull, hpos, hout, hu⟩ := swapExactIn_inv h
  simp only [↓reduceIte] at hx
  obtain ⟨ss, o', _, _, _, _, _, _, hfr, _, _, _, _, _, hne, _, _⟩ := computeSwap_exec_quote hp hx
  subst hid
  obtain ⟨fee, hfee, f0, f1, y0, hb, mv, hs', ⟨c1, c2, c3, c4⟩, _⟩ := updatePoolForSwap_ok hu h1 h2
  subst hfee
  unfold poolPart
  rw [hp]
  simp only []
  rw [if_neg hne, hx]
  simp only [ok_bind, ↓reduceIte]
  rw [if_neg (by rw [hfull]; simp), if_neg (by omega)]
  have hchk : bankFreeChecks din dout o = true := by
    simp [bankFreeChecks, c1, c2, c3, c4]; omega
  rw [if_neg (by rw [hchk]; simp)]
  rw [hout, setPool_strip hs' hfr.1]

/-- **the CL exact-out handler = pool part + bank part** -/
theorem swapExactOut_factor {s s' : St} {sender : Addr} {id : Nat} {din dout : Denom} {a ain : Int}
    (h : swapExactOut s sender id dout a din true = .ok (s', ain))
    (h1 : sender ≠ poolAddr id) (h2 : sender ≠ feesAddr id) :
    poolPart false id s din dout a = .ok (ain, { s' with bank := s.bank }) := by
  obtain ⟨p, s1, o, hp, hid, hx, hfull, hpos, hout, hu⟩ := swapExactOut_inv h
  simp only [↓reduceIte] at hx
  obtain ⟨ss, o', _, _, _, _, _, _, hfr, _, _, _, _, _, hne, _, _⟩ := computeSwap_exec_quote hp hx
  subst hid
  obtain ⟨fee, hfee, f0, f1, y0, hb, mv, hs', ⟨c1, c2, c3, c4⟩, _⟩ := updatePoolForSwap_ok hu h1 h2
  subst hfee
  unfold poolPart
  rw [hp]
  simp only []
  rw [if_neg hne, hx]
  simp only [ok_bind, Bool.false_eq_true, ↓reduceIte]
  rw [if_neg (by rw [hfull]; simp), if_neg (by omega)]
  have hchk : bankFreeChecks din dout o = true := by
    simp [bankFreeChecks, c1, c2, c3, c4]; omega
  rw [if_neg (by rw [hchk]; simp)]
  rw [hout, setPool_strip hs' hfr.1]

/-- the CL pools as a `Route.PoolSpec` -/
def clSpec : Route.PoolSpec ClPool where
  calcIn ps din dout a := quoteExactIn ps.st ps.id din a dout true
  swapIn ps din dout a := (poolPart true ps.id ps.st din dout a).bind fun x => .ok (x.1, ⟨ps.id, x.2⟩)
  calcOut ps din dout a := quoteExactOut ps.st ps.id dout a din true
  swapOut ps din dout a := (poolPart false ps.id ps.st din dout a).bind fun x => .ok (x.1, ⟨ps.id, x.2⟩)

theorem poolPart_inv {exactIn : Bool} {id : Nat} {s s2 : St} {din dout : Denom} {a r : Int}
    (h : poolPart exactIn id s din dout a = .ok (r, s2)) :
    ∃ p x, getPool s id = some p ∧
      computeSwap exactIn s id din dout a p.feeRate (multipliedPriceLimit (decide (din = p.base))) true = .ok x ∧
      r = (if exactIn then x.2.amountOut else x.2.amountIn) ∧
      (if exactIn then x.2.amountIn else x.2.amountOut) = a := by
  unfold poolPart at h
  cases hp : getPool s id with
  | none => rw [hp] at h; cases h
  | some p =>
    rw [hp] at h
    simp only [] at h
    split at h
    · cases h
    obtain ⟨x, hx, h⟩ := bind_ok h
    by_cases c0 : (if exactIn = true then x.2.amountIn else x.2.amountOut) ≠ a
    · rw [if_pos c0] at h; cases h
    rw [if_neg c0] at h
    by_cases c1 : (if exactIn = true then x.2.amountOut else x.2.amountIn) ≤ 0
    · rw [if_pos c1] at h; cases h
    rw [if_neg c1] at h
    by_cases c2 : bankFreeChecks din dout x.2 = false
    · rw [if_pos c2] at h; cases h
    rw [if_neg c2] at h
    have e := res_ok_inj h
    exact ⟨p, x, rfl, hx, (congrArg Prod.fst e).symm, by simpa using c0⟩

/-- **the hypothesis `C03.SwapMatchesQuoteIn` holds of the CL pools**: a successful pool swap returns what the read-only
    quote answers on the same pool state -/
theorem clSpec_swapMatchesQuoteIn : C03.SwapMatchesQuoteIn clSpec := by
  intro ps din dout a out ps' h
  obtain ⟨y, hy, h⟩ := bind_ok h
  have e := res_ok_inj h
  have e1 : y.1 = out := congrArg Prod.fst e
  obtain ⟨p, x, hp, hx, hr, hfl⟩ := poolPart_inv (r := y.1) (s2 := y.2) hy
  obtain ⟨ss, o', hq, hai, hao, _⟩ := computeSwap_exec_quote (s1 := x.1) (o := x.2) hp hx
  simp only [↓reduceIte] at hfl hr
  show quoteExactIn ps.st ps.id din a dout true = .ok out
  unfold quoteExactIn
  rw [hp]
  simp only [bind, pure, ok_bind, err_bind, ↓reduceIte]
  rw [hq]
  simp only [ok_bind]
  rw [if_neg (by rw [hai, hfl]; simp), hao, ← e1, hr]

/-- the exact-out analogue (not needed by a C03 theorem, stated for completeness) -/
theorem clSpec_swapMatchesQuoteOut :
    ∀ ps din dout a ain ps', clSpec.swapOut ps din dout a = .ok (ain, ps') → clSpec.calcOut ps din dout a = .ok ain := by
  intro ps din dout a ain ps' h
  obtain ⟨y, hy, h⟩ := bind_ok h
  have e := res_ok_inj h
  have e1 : y.1 = ain := congrArg Prod.fst e
  obtain ⟨p, x, hp, hx, hr, hfl⟩ := poolPart_inv (r := y.1) (s2 := y.2) hy
  obtain ⟨ss, o', hq, hai, hao, _⟩ := computeSwap_exec_quote (s1 := x.1) (o := x.2) hp hx
  simp only [Bool.false_eq_true, ↓reduceIte] at hfl hr
  show quoteExactOut ps.st ps.id dout a din true = .ok ain
  unfold quoteExactOut
  rw [hp]
  simp only [bind, pure, ok_bind, err_bind, ↓reduceIte]
  rw [hq]
  simp only [ok_bind]
  rw [if_neg (by rw [hao, hfl]; simp), hai, ← e1, hr]

/-- **C03 `quote_eq_execute_partial`, instantiated at the CL pools with NO pool hypothesis left**: for every route tree over
    CL pools, the response of a successful Msg/SwapExactAmountIn is what Query/CalculationSwapExactAmountIn answers on
    the pre-state (result tree, interface fee, amount out). -/
theorem cl_route_quote_eq_execute (sender : Addr) (rate : Dec) (prov : Option Addr) (r : Route.Route) (a minOut : Int)
    (w w' : Route.World ClPool) (resp : Route.Resp)
    (hs : ∀ id, sender ≠ Route.poolAddr id)
    (h : Route.msgSwapIn clSpec rate sender prov r a minOut w = (.ok resp, w')) :
    ∃ q, Route.queryIn clSpec rate prov.isSome r a w = .ok q ∧ q.result = resp.result ∧ q.fee = resp.fee
      ∧ q.amountOut = resp.amountOut :=
  C03.quote_eq_execute_partial clSpec sender rate prov r a minOut w w' resp hs clSpec_swapMatchesQuoteIn h

/-- C03 `msgSwapIn_honours` at the CL pools (it has no pool hypothesis; recorded so that the instance is exercised) -/
theorem cl_route_msgSwapIn_honours (rate : Dec) (sender : Addr) (prov : Option Addr) (r : Route.Route) (a minOut : Int)
    (w w' : Route.World ClPool) (resp : Route.Resp)
    (hs : ∀ id, sender ≠ Route.poolAddr id) (hp : ∀ p, prov = some p → sender ≠ p)
    (h : Route.msgSwapIn clSpec rate sender prov r a minOut w = (.ok resp, w')) :
    Route.Moved w.bank w'.bank sender r.din a r.dout resp.amountOut ∧ minOut ≤ resp.amountOut :=
  let t := C03.msgSwapIn_honours clSpec rate sender prov r a minOut w w' resp hs hp h
  ⟨t.2.2.2.2.2.1, t.2.2.2.1⟩

/-- the sender's side of the CL exact-in handler is what the route model computes for a pool hop: `Route.Moved` with the
    STATED amount (compare `Route.swapPoolIn_ok`) — unconditionally, for the fixed code -/
theorem cl_sender_as_route_in {s s' : St} {sender : Addr} {id : Nat} {din dout : Denom} {a out : Int} {fe : Bool}
    (h : swapExactIn s sender id din a dout fe = .ok (s', out))
    (h1 : sender ≠ poolAddr id) (h2 : sender ≠ feesAddr id) :
    Route.Moved s.bank s'.bank sender din a dout out := by
  obtain ⟨p, p', fee, _, _, _, _, _, _, _, _, mv, _⟩ := swapExactIn_moves_exactly h h1 h2
  exact mv.moved

/-- the same for exact-out: credited exactly the STATED amount, debited exactly the returned input -/
theorem cl_sender_as_route_out {s s' : St} {sender : Addr} {id : Nat} {din dout : Denom} {a ain : Int} {fe : Bool}
    (h : swapExactOut s sender id dout a din fe = .ok (s', ain))
    (h1 : sender ≠ poolAddr id) (h2 : sender ≠ feesAddr id) :
    Route.Moved s.bank s'.bank sender din ain dout a := by
  obtain ⟨p, p', fee, _, _, _, _, _, _, _, _, _, mv, _⟩ := swapExactOut_moves_exactly h h1 h2
  exact mv.moved

theorem poolAddr_eq (id : Nat) : poolAddr id = Route.poolAddr id := by
  unfold poolAddr Route.poolAddr
  simp [toString]

/-- the bank half of the simulation, shared by both directions: the route model's two sends (`x` of `din` to the ONE pool
    account, `y` of `dout` back) succeed on a bank equal to the CL pre-bank whenever the CL handler moved `SwapMoved … x … y fee`,
    and end with the same balances for the sender and for every account other than the pool / pool-fee accounts; the route
    pool account's delta is the CL pool delta plus the CL fee delta -/
theorem route_sends_match {b b' wb : Bank} {sender : Addr} {id : Nat} {din dout : Denom} {x y fee : Int}
    (mv : SwapMoved b b' sender id din x dout y fee) (hw : wb = b) (h1 : sender ≠ poolAddr id) (hne : din ≠ dout)
    (hx0 : 0 ≤ x) (hy0 : 0 ≤ y) (hx : x ≤ b.bal sender din) (hy : y ≤ b.bal (poolAddr id) dout) :
    ∃ b1 b2, wb.send sender (Route.poolAddr id) din x = .ok b1 ∧ b1.send (Route.poolAddr id) sender dout y = .ok b2 ∧
      (∀ d, b2.bal sender d = b'.bal sender d) ∧
      (∀ a d, a ≠ poolAddr id → a ≠ feesAddr id → b2.bal a d = b'.bal a d) ∧
      (∀ d, b2.bal (poolAddr id) d - wb.bal (poolAddr id) d
          = (b'.bal (poolAddr id) d - b.bal (poolAddr id) d) + (b'.bal (feesAddr id) d - b.bal (feesAddr id) d)) := by
  subst hw
  have hs1 : sender ≠ Route.poolAddr id := by rw [← poolAddr_eq]; exact h1
  have hsend1 : ∃ b1, wb.send sender (Route.poolAddr id) din x = .ok b1 := by
    unfold Bank.send
    rw [if_neg (by omega), if_neg (by omega)]
    exact ⟨_, rfl⟩
  obtain ⟨b1, hb1⟩ := hsend1
  obtain ⟨_, _, m1s, m1p, m1o⟩ := send_moves hb1 hs1
  have hsend2 : ∃ b2, b1.send (Route.poolAddr id) sender dout y = .ok b2 := by
    unfold Bank.send
    have : b1.bal (Route.poolAddr id) dout = wb.bal (Route.poolAddr id) dout := by
      rw [m1p dout, Route.δ_ne _ _ _ (fun e => hne e.symm)]; omega
    rw [if_neg (by omega), if_neg (by rw [this, ← poolAddr_eq]; omega)]
    exact ⟨_, rfl⟩
  obtain ⟨b2, hb2⟩ := hsend2
  obtain ⟨_, _, m2p, m2s, m2o⟩ := send_moves hb2 (fun e => hs1 e.symm)
  refine ⟨b1, b2, hb1, hb2, ?_, ?_, ?_⟩
  · intro d
    rw [m2s d, m1s d, mv.ofSender d]
  · intro a d ha1 ha2
    by_cases has : a = sender
    · subst has; rw [m2s d, m1s d, mv.ofSender d]
    · rw [m2o a d (by rw [← poolAddr_eq]; exact ha1) has, m1o a d has (by rw [← poolAddr_eq]; exact ha1),
        mv.others a d has ha1 ha2]
  · intro d
    rw [poolAddr_eq, m2p d, m1p d, ← poolAddr_eq, mv.poolAcc d, mv.feeAcc d]
    have e : δ din (x - fee) d = δ din x d - δ din fee d := by unfold δ; split <;> omega
    omega

/-- **simulation of one pool hop (exact-in).**  A successful CL `swapExactIn` is matched by the route model's `swapPoolIn` over
    `clSpec` on a world with the same bank and the CL store at `id`: the hop succeeds with the same result, the pool state
    becomes the CL post-store (bank field aside), the sender and every account other than the pool / pool-fee accounts end
    with the same balances, and the one route-model pool account holds what the CL model's pool and fee accounts received
    together. -/
theorem cl_refines_route_swapPoolIn {s s' : St} {sender : Addr} {id : Nat} {din dout : Denom} {a out : Int}
    (h : swapExactIn s sender id din a dout true = .ok (s', out))
    (h1 : sender ≠ poolAddr id) (h2 : sender ≠ feesAddr id)
    (w : Route.World ClPool) (hw : w.bank = s.bank) (hwp : w.pools id = some ⟨id, s⟩) :
    ∃ w', Route.swapPoolIn clSpec sender din dout id a w = .ok (out, w') ∧
      w'.pools id = some ⟨id, { s' with bank := s.bank }⟩ ∧
      (∀ d, w'.bank.bal sender d = s'.bank.bal sender d) ∧
      (∀ x d, x ≠ poolAddr id → x ≠ feesAddr id → w'.bank.bal x d = s'.bank.bal x d) ∧
      (∀ d, w'.bank.bal (poolAddr id) d - w.bank.bal (poolAddr id) d
          = (s'.bank.bal (poolAddr id) d - s.bank.bal (poolAddr id) d) + (s'.bank.bal (feesAddr id) d - s.bank.bal (feesAddr id) d)) := by
  obtain ⟨p, p', fee, hp, hp', hout0, hf0, hf1, hbal, hpay, hne, mv, _⟩ := swapExactIn_moves_exactly h h1 h2
  have hfac := swapExactIn_factor h h1 h2
  have hsw : clSpec.swapIn ⟨id, s⟩ din dout a = .ok (out, ⟨id, { s' with bank := s.bank }⟩) := by
    show (poolPart true id s din dout a).bind _ = _
    rw [hfac]; rfl
  obtain ⟨b1, b2, hb1, hb2, r1, r2, r3⟩ := route_sends_match mv hw h1 hne (by omega) (by omega) hbal hpay
  refine ⟨Route.setPool w id ⟨id, { s' with bank := s.bank }⟩ b2, ?_, ?_, r1, r2, r3⟩
  · unfold Route.swapPoolIn
    rw [hwp]
    simp only []
    rw [if_neg (by omega), hsw]
    simp only [Res.bind, hb1, hb2]
  · simp [Route.setPool]

/-- **simulation of one pool hop (exact-out).**  The same for `swapExactOut` against `Route.swapPoolOut`: same input charged,
    the stated output paid, same sender balances. -/
theorem cl_refines_route_swapPoolOut {s s' : St} {sender : Addr} {id : Nat} {din dout : Denom} {a ain : Int}
    (h : swapExactOut s sender id dout a din true = .ok (s', ain))
    (h1 : sender ≠ poolAddr id) (h2 : sender ≠ feesAddr id)
    (w : Route.World ClPool) (hw : w.bank = s.bank) (hwp : w.pools id = some ⟨id, s⟩) :
    ∃ w', Route.swapPoolOut clSpec sender din dout id a w = .ok (ain, w') ∧
      w'.pools id = some ⟨id, { s' with bank := s.bank }⟩ ∧
      (∀ d, w'.bank.bal sender d = s'.bank.bal sender d) ∧
      (∀ x d, x ≠ poolAddr id → x ≠ feesAddr id → w'.bank.bal x d = s'.bank.bal x d) ∧
      (∀ d, w'.bank.bal (poolAddr id) d - w.bank.bal (poolAddr id) d
          = (s'.bank.bal (poolAddr id) d - s.bank.bal (poolAddr id) d) + (s'.bank.bal (feesAddr id) d - s.bank.bal (feesAddr id) d)) := by
  obtain ⟨p, p', fee, hp, hp', hin0, hf0, hf1, ha0, hbal, hpay, hne, mv, _⟩ := swapExactOut_moves_exactly h h1 h2
  have hfac := swapExactOut_factor h h1 h2
  have hsw : clSpec.swapOut ⟨id, s⟩ din dout a = .ok (ain, ⟨id, { s' with bank := s.bank }⟩) := by
    show (poolPart false id s din dout a).bind _ = _
    rw [hfac]; rfl
  obtain ⟨b1, b2, hb1, hb2, r1, r2, r3⟩ := route_sends_match mv hw h1 hne (by omega) ha0 hbal hpay
  refine ⟨Route.setPool w id ⟨id, { s' with bank := s.bank }⟩ b2, ?_, ?_, r1, r2, r3⟩
  · unfold Route.swapPoolOut
    rw [hwp]
    simp only []
    rw [if_neg (by omega), hsw]
    simp only [Res.bind, hb1, hb2]
  · simp [Route.setPool]

/-! ### non-vacuity of the connection: a route over the concrete CL pool `stA` -/

def wA : Route.World ClPool := ⟨bankA, fun i => if i = 0 then some ⟨0, stA⟩ else none⟩

def respOut (r : Res Route.Resp × Route.World ClPool) : Int := match r.1 with | .ok x => x.amountOut | _ => -1
def queryOutOf (r : Res Route.Resp) : Int := match r with | .ok x => x.amountOut | _ => -1

/-- Msg/SwapExactAmountIn over the one-hop route through CL pool 0 succeeds with 996 out, and the query says the same -/
example : respOut (Route.msgSwapIn clSpec Dec.zero "s" none (.pool "quote" "base" 0) 1000 1 wA) = 996 := by decide +kernel
example : queryOutOf (Route.queryIn clSpec Dec.zero false (.pool "quote" "base" 0) 1000 wA) = 996 := by decide +kernel
/-- a two-branch parallel route cannot reuse the pool (validation), a series through the same pool neither -/
example : (Route.msgSwapIn clSpec Dec.zero "s" none (.series "quote" "quote" [.pool "quote" "base" 0, .pool "base" "quote" 0]) 1000 1 wA).1.isOk
    = false := by decide +kernel

/-- the hypotheses of `cl_refines_route_swapPoolIn` / `cl_sender_as_route_in` are satisfiable on `stA` -/
example : ∃ s', swapExactIn stA "s" 0 "quote" 1000 "base" true = .ok (s', 996) ∧
    Route.Moved stA.bank s'.bank "s" "quote" 1000 "base" 996 := by
  obtain ⟨s', h, _⟩ := obs_some exA_in
  exact ⟨s', h, cl_sender_as_route_in h (by decide) (by decide)⟩
example : ∃ s', swapExactOut stA "s" 0 "base" 900 "quote" true = .ok (s', 904) ∧
    Route.Moved stA.bank s'.bank "s" "quote" 904 "base" 900 := by
  obtain ⟨s', h, _⟩ := obs_some exA_out
  exact ⟨s', h, cl_sender_as_route_out h (by decide) (by decide)⟩

/-! ### regression of C03-P1 at the route level: over `clSpec` the partial fill is refused, route model and CL pool agree -/

def wF : Route.World ClPool := ⟨bankF, fun i => if i = 0 then some ⟨0, stF⟩ else none⟩

/-- the route model's pool hop over `clSpec` now fails where the pool would have filled partially (before the fix it debited
    the stated 10²⁵ base while the keeper took 1.003·10²¹) -/
example : (Route.swapPoolIn clSpec "s" "base" "quote" 0 (10^25) wF).isOk = false := by decide +kernel
example : (Route.swapPoolOut clSpec "s" "base" "quote" 0 2000 wF).isOk = false := by decide +kernel
/-- and the whole message is refused, state unchanged (`C03.msg_atomic`) -/
example : (Route.msgSwapIn clSpec Dec.zero "s" none (.pool "base" "quote" 0) (10^25) 1 wF).1.isOk = false := by decide +kernel

/-! ## axioms -/
#print axioms swapLoop_upd_indep
#print axioms computeSwap_exec_quote
#print axioms swapExactIn_moves_exactly
#print axioms swapExactOut_moves_exactly
#print axioms swapExactIn_quote
#print axioms swapExactOut_quote
#print axioms quote_eq_execute
#print axioms swap_failure_atomic
#print axioms swapExactIn_factor
#print axioms swapExactOut_factor
#print axioms clSpec_swapMatchesQuoteIn
#print axioms clSpec_swapMatchesQuoteOut
#print axioms cl_route_quote_eq_execute
#print axioms cl_route_msgSwapIn_honours
#print axioms cl_sender_as_route_in
#print axioms cl_sender_as_route_out
#print axioms cl_refines_route_swapPoolIn
#print axioms cl_refines_route_swapPoolOut
#print axioms computeSwap_partial_at_bound_in
#print axioms computeSwap_partial_at_bound_out
#print axioms swapExactIn_refuses_partial_fill
#print axioms swapExactOut_refuses_partial_fill
#print axioms quoteExactIn_refuses_partial_fill
#print axioms quoteExactOut_refuses_partial_fill
#print axioms stF_reachable
#print axioms exA_in

end Sunrise.C03Pool
