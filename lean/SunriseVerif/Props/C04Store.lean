import SunriseVerif.Lemmas.C04Store

/-!
C04 (store level) — pool liquidity bookkeeping matches the set of open positions, stated and proved on the store-level
model `Model/CL.lean` ALONE (no abstraction in the statement), per message and over whole histories.

`BookOK s pool`  (directly on `CL.St`):
  * the pool record's current-tick liquidity `p.liq` = Σ `liq` over the pool's positions with `lower ≤ p.tick < upper`;
  * a `TickInfo` for (pool, t) is stored  iff  some position of the pool has `t` as a bound, and then
    gross = Σ liq (lower = t) + Σ liq (upper = t),  net = Σ liq (lower = t) − Σ liq (upper = t).
Conventions are those of `CLBook` / `CLCustodyAbs.absC`: liquidity = `Dec.raw`, in range = `lower ≤ tick < upper`.

`Inv s` (Lemmas/C04Store) = the combined invariant: the three sums in total-function form for every pool, plus the
well-formedness side invariants, ALL proved preserved (none is a hypothesis of the final theorems):
  stored positions have `liq > 0` and `lower < upper`; position ids distinct and `< nextPos`; tick store strictly sorted by
  (pool, tick) (hence keys distinct); no stored tick has gross 0; pool ids `< nextPool`; positions' pools `< nextPool`;
  a pool that is not live (`sqrtP = 0 ∧ tick = 0`) has no position.

Swaps: the invariant is proved preserved under a boundary hypothesis, in three forms of decreasing strength
  `SwapSide`     (former)  (H1) ALL operations derived from the ghost trace are admissible ∧ (H2) written-back pool live;
  `SwapSide'`    (used by the `…_partial` theorems)  (H1') only the `moveWithin` operations are admissible ∧ (H2);
  `SwapBoundary` (narrowest, `…_boundary_partial`)   (H1') ∧ (T) the pool's initialised ticks have non-zero sqrt prices.
Proved: `SwapBoundary → SwapSide' → SwapSide` after a successful swap from a store satisfying `Inv`
(`swapSide'_of_boundary_exactIn/_exactOut`, `swapSide_of_swapSide'_exactIn/_exactOut`), i.e. the admissibility of every
tick CROSSING (the crossed tick is the next initialised one in trade direction) and the liveness of the written-back pool
given (T) are theorems.  What remains assumed is exactly:
  (H1') for every `.move t` event of the trace (a step that ends strictly inside a bucket and moved the price;
        `t = sqrtPriceToTick newPrice`): no initialised tick lies between the cursor before the event and `t`
        (on either side) — consistency of `sqrtPriceToTick` with `tickToSqrtPrice` on the price grid;
  (T)   `tickToSqrtPrice t p.tp ≠ 0` for the initialised ticks `t` of the pool (see `tick0_price_zero_unvalidated`:
        false for pool parameters that `createPoolValid` rejects, so (T) needs the parameter validation at least).
-/
namespace Sunrise.C04Store
open Sunrise Sunrise.CL Sunrise.C04Refine Sunrise.C04StoreL

/-- **the store-level bookkeeping statement for one pool** -/
structure BookOK (s : CL.St) (pool : Nat) : Prop where
  /-- current-tick liquidity of the pool record = Σ liquidity of the pool's positions whose range contains the cursor -/
  active : ∀ p, getPool s pool = some p →
    p.liq.raw = sumLiq (fun x => x.pool == pool && decide (x.lower ≤ p.tick ∧ p.tick < x.upper)) s.positions
  /-- a tick is stored iff some position of the pool is bounded by it -/
  present : ∀ t, (findTick s pool t).isSome = true ↔ ∃ x ∈ s.positions, x.pool = pool ∧ (x.lower = t ∨ x.upper = t)
  /-- gross liquidity of a stored tick = Σ liquidity of the positions it bounds (below + above) -/
  gross : ∀ t ti, findTick s pool t = some ti →
    ti.gross.raw = sumLiq (fun x => x.pool == pool && decide (x.lower = t)) s.positions
                 + sumLiq (fun x => x.pool == pool && decide (x.upper = t)) s.positions
  /-- net liquidity of a stored tick = Σ liquidity of positions starting there − Σ liquidity of positions ending there -/
  net : ∀ t ti, findTick s pool t = some ti →
    ti.net.raw = sumLiq (fun x => x.pool == pool && decide (x.lower = t)) s.positions
               - sumLiq (fun x => x.pool == pool && decide (x.upper = t)) s.positions

/-- the combined invariant implies the store-level statement for every pool -/
theorem bookOK_of_inv {s : CL.St} (hI : Inv s) (pool : Nat) : BookOK s pool := by
  have hn : ∀ x ∈ s.positions, 0 ≤ x.liq.raw := fun x hx => (hI.w.posWf x hx).1
  refine ⟨fun p hp => (hI.w.sums pool).active p hp, ?_, ?_, ?_⟩
  · intro t
    constructor
    · intro hs
      have h0 := hI.nonEmpty pool t hs
      rw [(hI.w.sums pool).gross t] at h0
      by_cases hL : sumLiq (lowerAtOf pool t) s.positions = 0
      · have hU : sumLiq (upperAtOf pool t) s.positions ≠ 0 := by omega
        obtain ⟨x, hx, hc⟩ := sumLiq_ne_zero_exists _ _ hU
        refine ⟨x, hx, upperAtOf_pool hc, Or.inr ?_⟩
        unfold upperAtOf at hc; simp only [Bool.and_eq_true, decide_eq_true_eq] at hc; exact hc.2
      · obtain ⟨x, hx, hc⟩ := sumLiq_ne_zero_exists _ _ hL
        refine ⟨x, hx, lowerAtOf_pool hc, Or.inl ?_⟩
        unfold lowerAtOf at hc; simp only [Bool.and_eq_true, decide_eq_true_eq] at hc; exact hc.2
    · rintro ⟨x, hx, hp, hb⟩
      have hpos := hI.strict x hx
      have hg : 0 < grossOf s pool t := by
        rw [(hI.w.sums pool).gross t]
        have h1 := sumLiq_nonneg (lowerAtOf pool t) s.positions hn
        have h2 := sumLiq_nonneg (upperAtOf pool t) s.positions hn
        rcases hb with hb | hb
        · have := sumLiq_pos_of_mem (lowerAtOf pool t) s.positions hn hx (by simp [lowerAtOf, hp, hb]) hpos
          omega
        · have := sumLiq_pos_of_mem (upperAtOf pool t) s.positions hn hx (by simp [upperAtOf, hp, hb]) hpos
          omega
      cases hf : findTick s pool t with
      | some ti => rfl
      | none => unfold grossOf at hg; rw [hf] at hg; simp at hg
  · intro t ti hf
    have := (hI.w.sums pool).gross t
    unfold grossOf at this; rw [hf] at this; exact this
  · intro t ti hf
    have := (hI.w.sums pool).net t
    unfold netOf at this; rw [hf] at this; exact this

/-! ### per message -/

/-- a failed handler is not committed: the state after an operation is the handler's state on `.ok`, the old state on
    `.err` / `.panic` (transaction atomicity, as applied by the driver's `exec`) -/
def commit {α : Type} (s : CL.St) (r : Res (CL.St × α)) : CL.St := match r with | .ok (s', _) => s' | _ => s

theorem commit_inv {α : Type} {s : CL.St} {r : Res (CL.St × α)} (hI : Inv s) (h : ∀ s' a, r = .ok (s', a) → Inv s') :
    Inv (commit s r) := by
  unfold commit
  cases r with
  | ok v => exact h v.1 v.2 rfl
  | err c => exact hI
  | panic k => exact hI

def commit1 (s : CL.St) (r : Res CL.St) : CL.St := match r with | .ok s' => s' | _ => s

theorem commit1_inv {s : CL.St} {r : Res CL.St} (hI : Inv s) (h : ∀ s', r = .ok s' → Inv s') : Inv (commit1 s r) := by
  unfold commit1
  cases r with
  | ok v => exact h v rfl
  | err c => exact hI
  | panic k => exact hI

theorem createPool_preserves {s : CL.St} (hI : Inv s) (base quote : Denom) (fee ratio offset : Dec) :
    Inv (createPool s base quote fee ratio offset).1 ∧ ∀ pool, BookOK (createPool s base quote fee ratio offset).1 pool :=
  ⟨createPool_inv_ok base quote fee ratio offset hI, bookOK_of_inv (createPool_inv_ok base quote fee ratio offset hI)⟩

theorem createPosition_preserves {s s' : CL.St} (hI : Inv s) {sender : Addr} {pool : Nat} {lo hi : Int} {dBase dQuote : Denom}
    {aBase aQuote minBase minQuote : Int} {out : CreatePosOut}
    (h : createPosition s sender pool lo hi dBase aBase dQuote aQuote minBase minQuote = .ok (s', out)) :
    Inv s' ∧ ∀ pl, BookOK s' pl :=
  ⟨createPosition_inv_ok hI h, bookOK_of_inv (createPosition_inv_ok hI h)⟩

theorem decreaseLiquidity_preserves {s s' : CL.St} (hI : Inv s) {sender : Addr} {posId : Nat} {liq : Dec} {ab aq : Int}
    (h : decreaseLiquidity s sender posId liq = .ok (s', ab, aq)) : Inv s' ∧ ∀ pl, BookOK s' pl :=
  ⟨decreaseLiquidity_inv_ok hI h, bookOK_of_inv (decreaseLiquidity_inv_ok hI h)⟩

theorem increaseLiquidity_preserves {s s' : CL.St} (hI : Inv s) {sender : Addr} {posId : Nat}
    {aBase aQuote minBase minQuote : Int} {out : CreatePosOut}
    (h : increaseLiquidity s sender posId aBase aQuote minBase minQuote = .ok (s', out)) : Inv s' ∧ ∀ pl, BookOK s' pl :=
  ⟨increaseLiquidity_inv_ok hI h, bookOK_of_inv (increaseLiquidity_inv_ok hI h)⟩

theorem collectFees_preserves {s s' : CL.St} (hI : Inv s) {sender : Addr} {posId : Nat} {c : List (String × Int)}
    (h : collectFees s sender posId = .ok (s', c)) : Inv s' ∧ ∀ pl, BookOK s' pl :=
  ⟨hI.core (collectFees_core h), bookOK_of_inv (hI.core (collectFees_core h))⟩

theorem claimRewards_preserves {s s' : CL.St} (hI : Inv s) {sender : Addr} {ids : List Nat} {c : List (String × Int)}
    (h : claimRewards s sender ids = .ok (s', c)) : Inv s' ∧ ∀ pl, BookOK s' pl :=
  ⟨hI.core (claimRewards_core h), bookOK_of_inv (hI.core (claimRewards_core h))⟩

theorem allocateIncentive_preserves {s s' : CL.St} (hI : Inv s) {pool : Nat} {sender : Addr} {coins : List (String × Int)}
    (h : allocateIncentive s pool sender coins = .ok s') : Inv s' ∧ ∀ pl, BookOK s' pl :=
  ⟨hI.core (allocateIncentive_core h), bookOK_of_inv (hI.core (allocateIncentive_core h))⟩

/-! ### swaps (conditional: see `SwapSide'`; `SwapSide` is the former, stronger boundary) -/

open Sunrise.C04RefineLoop (bookOps) in
/-- **the FORMER (stronger) side conditions of the swap theorems**, kept for reference and for the executable check
    `swapSideB`; the theorems below only need `SwapSide'`, and `SwapSide' → SwapSide` holds after a successful swap from a
    store satisfying the invariant (`swapSide_of_swapSide'_exactIn/_exactOut`).  (`s` before, `s'` after):
    (H1) the bookkeeping operations derived from the swap's ghost trace (`crossUp t / crossDown t / moveWithin t`, exactly
         what `C04RefineLoop` proves the loop performs) are admissible in the abstraction of the state before the swap
         (`CLBook.Op.guard`: a crossed tick is the next initialised one in the direction of the trade, a cursor move inside
         a bucket passes no initialised tick);
    (H2) the pool record written back is live (`¬(sqrtP = 0 ∧ tick = 0)`) or the pool has no position.
    Both are facts about the PRICE GRID (`tickToSqrtPrice` / `sqrtPriceToTick` monotone and mutually consistent, swap
    steps never moving the price against the trade, tick prices positive), which this project models bit-exactly but does
    not prove (`C04Interval.Mono` is assumed there as well); the run-time lock-step checks H1 on every swap. -/
def SwapSide (s s' : CL.St) (pool : Nat) : Prop :=
  (∀ p, getPool s pool = some p → Guarded (bookOps s'.lastTrace) (absBook s pool p)) ∧
  (∀ q, getPool s' pool = some q → poolLive q = false → poolHasPosition s' pool = false)

open Sunrise.C05Loop (bind_ok res_ok_inj) in
open Sunrise.C04Interval (err_bind ok_bind) in
theorem swapExactIn_inv {s s' : CL.St} {sender : Addr} {pool : Nat} {denomIn denomOut : Denom} {amount : Int} {feeEnabled : Bool}
    {out : Int} (h : swapExactIn s sender pool denomIn amount denomOut feeEnabled = .ok (s', out)) :
    ∃ p fee lim s1 o b, getPool s pool = some p ∧ computeSwap true s pool denomIn denomOut amount fee lim true = .ok (s1, o) ∧
      s' = setPool { s1 with bank := b } { p with liq := o.liq, tick := o.tick, sqrtP := o.sqrtP } := by
  unfold swapExactIn at h
  cases hp : getPool s pool with
  | none => rw [hp] at h; cases h
  | some p =>
    rw [hp] at h
    simp only [bind, pure, err_bind, ok_bind] at h
    split at h
    · cases h
    obtain ⟨x, hx, h⟩ := bind_ok h
    split at h
    · cases h
    split at h
    · cases h
    obtain ⟨s2', hu, h⟩ := bind_ok h
    have e := congrArg Prod.fst (res_ok_inj h)
    dsimp only at e; subst e
    obtain ⟨b, hb⟩ := C04Interval.updatePoolForSwap_ok hu
    exact ⟨p, _, _, x.1, x.2, b, rfl, hx, hb⟩

open Sunrise.C05Loop (bind_ok res_ok_inj) in
open Sunrise.C04Interval (err_bind ok_bind) in
theorem swapExactOut_inv {s s' : CL.St} {sender : Addr} {pool : Nat} {denomIn denomOut : Denom} {amount : Int} {feeEnabled : Bool}
    {out : Int} (h : swapExactOut s sender pool denomOut amount denomIn feeEnabled = .ok (s', out)) :
    ∃ p fee lim s1 o b, getPool s pool = some p ∧ computeSwap false s pool denomIn denomOut amount fee lim true = .ok (s1, o) ∧
      s' = setPool { s1 with bank := b } { p with liq := o.liq, tick := o.tick, sqrtP := o.sqrtP } := by
  unfold swapExactOut at h
  cases hp : getPool s pool with
  | none => rw [hp] at h; cases h
  | some p =>
    rw [hp] at h
    simp only [bind, pure, err_bind, ok_bind] at h
    split at h
    · cases h
    obtain ⟨x, hx, h⟩ := bind_ok h
    split at h
    · cases h
    split at h
    · cases h
    obtain ⟨s2', hu, h⟩ := bind_ok h
    have e := congrArg Prod.fst (res_ok_inj h)
    dsimp only at e; subst e
    obtain ⟨b, hb⟩ := C04Interval.updatePoolForSwap_ok hu
    exact ⟨p, _, _, x.1, x.2, b, rfl, hx, hb⟩

open Sunrise.C04RefineLoop (bookOps) in
/-- **the remaining boundary of the swap theorems** (`s` before, `s'` after a successful swap on `pool`):
    (H1') every CURSOR MOVE INSIDE A BUCKET derived from the swap's ghost trace (`moveWithin t`, `t` = the tick computed by
          `sqrtPriceToTick` from the price a non-crossing step ends at) is admissible in the abstraction of the state it is
          applied to (`CLBook.Op.guard`: no initialised tick lies between the old and the new cursor, i.e. the tick
          computed from the new price lies between the neighbouring initialised ticks).  NOTHING is assumed about the
          crossings any more: that each crossed tick is the next initialised one in trade direction is PROVED
          (`swap_guarded_of_moves`: sorted tick store, no empty tick stored, `tickIter` enumerates exactly the stored ticks
          beyond the cursor, crossings are a prefix of the iterator);
    (H2)  the pool record written back is live (`¬(sqrtP = 0 ∧ tick = 0)`) or the pool has no position.
    Both are facts about the PRICE GRID (`tickToSqrtPrice` / `sqrtPriceToTick` monotone and mutually consistent, tick
    prices positive), which this project models bit-exactly but does not prove. -/
def SwapSide' (s s' : CL.St) (pool : Nat) : Prop :=
  (∀ p, getPool s pool = some p → GuardedMoves (bookOps s'.lastTrace) (absBook s pool p)) ∧
  (∀ q, getPool s' pool = some q → poolLive q = false → poolHasPosition s' pool = false)

/-- the old boundary implies the new one (for any two states) -/
theorem swapSide'_of_swapSide {s s' : CL.St} {pool : Nat} (h : SwapSide s s' pool) : SwapSide' s s' pool :=
  ⟨fun p hp => guardedMoves_of_guarded _ _ (h.1 p hp), h.2⟩

/-- **the new boundary implies the old one after a successful `swapExactIn`** from a store satisfying the invariant -/
theorem swapSide_of_swapSide'_exactIn {s s' : CL.St} (hI : Inv s) {sender : Addr} {pool : Nat} {denomIn denomOut : Denom}
    {amount : Int} {feeEnabled : Bool} {out : Int}
    (h : swapExactIn s sender pool denomIn amount denomOut feeEnabled = .ok (s', out)) (hside : SwapSide' s s' pool) :
    SwapSide s s' pool := by
  obtain ⟨p, fee, lim, s1, o, b, hp, hc, hs'⟩ := swapExactIn_inv h
  refine ⟨fun p' hp' => ?_, hside.2⟩
  have e : p' = p := by rw [hp] at hp'; exact (Option.some.inj hp').symm
  subst e
  have hlt : s'.lastTrace = s1.lastTrace := by rw [hs']; rfl
  have H := hside.1 p' hp
  rw [hlt] at H ⊢
  exact swap_guarded_of_moves hI hp hc H

/-- **the new boundary implies the old one after a successful `swapExactOut`** from a store satisfying the invariant -/
theorem swapSide_of_swapSide'_exactOut {s s' : CL.St} (hI : Inv s) {sender : Addr} {pool : Nat} {denomIn denomOut : Denom}
    {amount : Int} {feeEnabled : Bool} {out : Int}
    (h : swapExactOut s sender pool denomOut amount denomIn feeEnabled = .ok (s', out)) (hside : SwapSide' s s' pool) :
    SwapSide s s' pool := by
  obtain ⟨p, fee, lim, s1, o, b, hp, hc, hs'⟩ := swapExactOut_inv h
  refine ⟨fun p' hp' => ?_, hside.2⟩
  have e : p' = p := by rw [hp] at hp'; exact (Option.some.inj hp').symm
  subst e
  have hlt : s'.lastTrace = s1.lastTrace := by rw [hs']; rfl
  have H := hside.1 p' hp
  rw [hlt] at H ⊢
  exact swap_guarded_of_moves hI hp hc H

/-- FULL statement (not proved): `Inv s → swapExactIn … = .ok (s', out) → Inv s'`.  Proved here under `SwapSide'`
    (admissibility of the cursor moves inside a bucket, liveness of the written-back pool; the crossings need nothing). -/
theorem swapExactIn_preserves_partial {s s' : CL.St} (hI : Inv s) {sender : Addr} {pool : Nat} {denomIn denomOut : Denom}
    {amount : Int} {feeEnabled : Bool} {out : Int}
    (h : swapExactIn s sender pool denomIn amount denomOut feeEnabled = .ok (s', out)) (hside : SwapSide' s s' pool) :
    Inv s' ∧ ∀ pl, BookOK s' pl := by
  obtain ⟨p, fee, lim, s1, o, b, hp, hc, hs'⟩ := swapExactIn_inv h
  have := swap_inv_ok' hI hp hc hs' (hside.1 p hp) hside.2
  exact ⟨this, bookOK_of_inv this⟩

/-- FULL statement (not proved): `Inv s → swapExactOut … = .ok (s', out) → Inv s'`.  Proved here under `SwapSide'`. -/
theorem swapExactOut_preserves_partial {s s' : CL.St} (hI : Inv s) {sender : Addr} {pool : Nat} {denomIn denomOut : Denom}
    {amount : Int} {feeEnabled : Bool} {out : Int}
    (h : swapExactOut s sender pool denomOut amount denomIn feeEnabled = .ok (s', out)) (hside : SwapSide' s s' pool) :
    Inv s' ∧ ∀ pl, BookOK s' pl := by
  obtain ⟨p, fee, lim, s1, o, b, hp, hc, hs'⟩ := swapExactOut_inv h
  have := swap_inv_ok' hI hp hc hs' (hside.1 p hp) hside.2
  exact ⟨this, bookOK_of_inv this⟩

open Sunrise.C04RefineLoop (bookOps) in
/-- **the narrowest boundary proved sufficient**: (H1') as in `SwapSide'`, and instead of (H2) the price-grid fact
    (T) `TickPricesNonZero s pool`: the sqrt prices `tickToSqrtPrice t p.tp` of the pool's initialised ticks are not zero
    (a statement about the state BEFORE the swap only).  (H2) then follows (`swap_written_back_live`): the pool is live
    before a successful swap (`computeSwap` rejects a pool that is not), a crossing sets the price to the crossed tick's
    price, a cursor move inside a bucket is computed by `sqrtPriceToTick`, which fails on price 0, and a step that does not
    move the price keeps price and cursor.  No monotonicity of the price and no positivity of the pool price is needed. -/
def SwapBoundary (s s' : CL.St) (pool : Nat) : Prop :=
  (∀ p, getPool s pool = some p → GuardedMoves (bookOps s'.lastTrace) (absBook s pool p)) ∧ TickPricesNonZero s pool

/-- (H2) is proved from (T) after a successful `swapExactIn` from a store satisfying the invariant -/
theorem swapSide'_of_boundary_exactIn {s s' : CL.St} (hI : Inv s) {sender : Addr} {pool : Nat} {denomIn denomOut : Denom}
    {amount : Int} {feeEnabled : Bool} {out : Int}
    (h : swapExactIn s sender pool denomIn amount denomOut feeEnabled = .ok (s', out)) (hb : SwapBoundary s s' pool) :
    SwapSide' s s' pool := by
  obtain ⟨p, fee, lim, s1, o, b, hp, hc, hs'⟩ := swapExactIn_inv h
  exact ⟨hb.1, swap_H2_of_tickPrices hI hp hc hs' hb.2⟩

/-- (H2) is proved from (T) after a successful `swapExactOut` from a store satisfying the invariant -/
theorem swapSide'_of_boundary_exactOut {s s' : CL.St} (hI : Inv s) {sender : Addr} {pool : Nat} {denomIn denomOut : Denom}
    {amount : Int} {feeEnabled : Bool} {out : Int}
    (h : swapExactOut s sender pool denomOut amount denomIn feeEnabled = .ok (s', out)) (hb : SwapBoundary s s' pool) :
    SwapSide' s s' pool := by
  obtain ⟨p, fee, lim, s1, o, b, hp, hc, hs'⟩ := swapExactOut_inv h
  exact ⟨hb.1, swap_H2_of_tickPrices hI hp hc hs' hb.2⟩

/-- `swapExactIn` keeps the invariant under the narrowest boundary (H1') + (T) -/
theorem swapExactIn_preserves_boundary_partial {s s' : CL.St} (hI : Inv s) {sender : Addr} {pool : Nat} {denomIn denomOut : Denom}
    {amount : Int} {feeEnabled : Bool} {out : Int}
    (h : swapExactIn s sender pool denomIn amount denomOut feeEnabled = .ok (s', out)) (hb : SwapBoundary s s' pool) :
    Inv s' ∧ ∀ pl, BookOK s' pl :=
  swapExactIn_preserves_partial hI h (swapSide'_of_boundary_exactIn hI h hb)

/-- `swapExactOut` keeps the invariant under the narrowest boundary (H1') + (T) -/
theorem swapExactOut_preserves_boundary_partial {s s' : CL.St} (hI : Inv s) {sender : Addr} {pool : Nat} {denomIn denomOut : Denom}
    {amount : Int} {feeEnabled : Bool} {out : Int}
    (h : swapExactOut s sender pool denomOut amount denomIn feeEnabled = .ok (s', out)) (hb : SwapBoundary s s' pool) :
    Inv s' ∧ ∀ pl, BookOK s' pl :=
  swapExactOut_preserves_partial hI h (swapSide'_of_boundary_exactOut hI h hb)

/-! ### whole histories -/

/-- the message-level operations of `Model/CL.lean`, with arbitrary arguments -/
inductive Op where
  | createPool (base quote : Denom) (fee ratio offset : Dec)
  | createPosition (sender : Addr) (pool : Nat) (lo hi : Int) (dBase : Denom) (aBase : Int) (dQuote : Denom)
      (aQuote minBase minQuote : Int)
  | increaseLiquidity (sender : Addr) (posId : Nat) (aBase aQuote minBase minQuote : Int)
  | decreaseLiquidity (sender : Addr) (posId : Nat) (liq : Dec)
  | collectFees (sender : Addr) (posId : Nat)
  | claimRewards (sender : Addr) (ids : List Nat)
  | allocateIncentive (pool : Nat) (sender : Addr) (coins : List (String × Int))
  | swapExactIn (sender : Addr) (pool : Nat) (denomIn : Denom) (amount : Int) (denomOut : Denom) (feeEnabled : Bool)
  | swapExactOut (sender : Addr) (pool : Nat) (denomOut : Denom) (amount : Int) (denomIn : Denom) (feeEnabled : Bool)

/-- state after an operation; a handler that fails (`.err` / `.panic`) is not committed -/
def run (s : CL.St) : Op → CL.St
  | .createPool b q f r o => (createPool s b q f r o).1
  | .createPosition sd pl lo hi dB aB dQ aQ mB mQ => commit s (createPosition s sd pl lo hi dB aB dQ aQ mB mQ)
  | .increaseLiquidity sd id aB aQ mB mQ => commit s (increaseLiquidity s sd id aB aQ mB mQ)
  | .decreaseLiquidity sd id l => commit s (decreaseLiquidity s sd id l)
  | .collectFees sd id => commit s (collectFees s sd id)
  | .claimRewards sd ids => commit s (claimRewards s sd ids)
  | .allocateIncentive pl sd cs => commit1 s (allocateIncentive s pl sd cs)
  | .swapExactIn sd pl dI a dO fe => commit s (swapExactIn s sd pl dI a dO fe)
  | .swapExactOut sd pl dO a dI fe => commit s (swapExactOut s sd pl dO a dI fe)

/-- side condition of an operation: none for the seven position / fee / incentive / pool messages; `SwapSide'` (cursor
    moves inside a bucket admissible, written-back pool live) for a swap that succeeds -/
def SideOK (s : CL.St) : Op → Prop
  | .swapExactIn sd pl dI a dO fe => ∀ s' out, swapExactIn s sd pl dI a dO fe = .ok (s', out) → SwapSide' s s' pl
  | .swapExactOut sd pl dO a dI fe => ∀ s' out, swapExactOut s sd pl dO a dI fe = .ok (s', out) → SwapSide' s s' pl
  | _ => True

def Op.isSwap : Op → Bool
  | .swapExactIn .. => true
  | .swapExactOut .. => true
  | _ => false

/-- every store reachable from the empty store (any bank) by any list of operations with arbitrary arguments -/
inductive Reachable : CL.St → Prop where
  | init (b : Bank) : Reachable { bank := b }
  | step {s : CL.St} (op : Op) : Reachable s → Reachable (run s op)

/-- the same, every successful swap satisfying `SwapSide'` -/
inductive ReachableP : CL.St → Prop where
  | init (b : Bank) : ReachableP { bank := b }
  | step {s : CL.St} (op : Op) : ReachableP s → SideOK s op → ReachableP (run s op)

/-- histories without swaps (pool creation, position create / increase / decrease, fee collection, reward claims,
    incentive allocation, in any order, any arguments) -/
inductive ReachableNoSwap : CL.St → Prop where
  | init (b : Bank) : ReachableNoSwap { bank := b }
  | step {s : CL.St} (op : Op) : ReachableNoSwap s → op.isSwap = false → ReachableNoSwap (run s op)

theorem run_inv {s : CL.St} (hI : Inv s) (op : Op) (hside : SideOK s op) : Inv (run s op) := by
  cases op with
  | createPool b q f r o => exact createPool_inv_ok b q f r o hI
  | createPosition sd pl lo hi dB aB dQ aQ mB mQ => exact commit_inv hI (fun s' a h => createPosition_inv_ok hI h)
  | increaseLiquidity sd id aB aQ mB mQ => exact commit_inv hI (fun s' a h => increaseLiquidity_inv_ok hI h)
  | decreaseLiquidity sd id l => exact commit_inv hI (fun s' a h => decreaseLiquidity_inv_ok (ab := a.1) (aq := a.2) hI h)
  | collectFees sd id => exact commit_inv hI (fun s' a h => hI.core (collectFees_core h))
  | claimRewards sd ids => exact commit_inv hI (fun s' a h => hI.core (claimRewards_core h))
  | allocateIncentive pl sd cs => exact commit1_inv hI (fun s' h => hI.core (allocateIncentive_core h))
  | swapExactIn sd pl dI a dO fe =>
    exact commit_inv hI (fun s' out h => (swapExactIn_preserves_partial hI h (hside s' out h)).1)
  | swapExactOut sd pl dO a dI fe =>
    exact commit_inv hI (fun s' out h => (swapExactOut_preserves_partial hI h (hside s' out h)).1)

theorem inv_reachable_partial {s : CL.St} (h : ReachableP s) : Inv s := by
  induction h with
  | init b => exact empty_inv b
  | step op _ hside ih => exact run_inv ih op hside

/-- FULL statement (not proved): `Reachable s → ∀ pool, BookOK s pool`.
    Proved: for every store reachable by ANY list of operations with arbitrary arguments in which every successful swap
    satisfies `SwapSide'` (price-grid facts: the cursor moves inside a bucket pass no initialised tick, the written-back
    pool is live; see there — the admissibility of the tick crossings is proved), the bookkeeping statement holds for
    every pool.  All seven non-swap messages are covered unconditionally; failed operations are not committed. -/
theorem bookOK_reachable_partial {s : CL.St} (h : ReachableP s) : ∀ pool, BookOK s pool :=
  bookOK_of_inv (inv_reachable_partial h)

/-- side condition of an operation in its narrowest form: `SwapBoundary` for a swap that succeeds -/
def SideOKB (s : CL.St) : Op → Prop
  | .swapExactIn sd pl dI a dO fe => ∀ s' out, swapExactIn s sd pl dI a dO fe = .ok (s', out) → SwapBoundary s s' pl
  | .swapExactOut sd pl dO a dI fe => ∀ s' out, swapExactOut s sd pl dO a dI fe = .ok (s', out) → SwapBoundary s s' pl
  | _ => True

theorem sideOK_of_sideOKB {s : CL.St} (hI : Inv s) (op : Op) (h : SideOKB s op) : SideOK s op := by
  cases op with
  | swapExactIn sd pl dI a dO fe => exact fun s' out hs => swapSide'_of_boundary_exactIn hI hs (h s' out hs)
  | swapExactOut sd pl dO a dI fe => exact fun s' out hs => swapSide'_of_boundary_exactOut hI hs (h s' out hs)
  | _ => trivial

/-- every store reachable by operations in which every successful swap satisfies `SwapBoundary` -/
inductive ReachableB : CL.St → Prop where
  | init (b : Bank) : ReachableB { bank := b }
  | step {s : CL.St} (op : Op) : ReachableB s → SideOKB s op → ReachableB (run s op)

theorem reachableP_of_reachableB {s : CL.St} (h : ReachableB s) : ReachableP s := by
  induction h with
  | init b => exact ReachableP.init b
  | step op _ hside ih => exact ReachableP.step op ih (sideOK_of_sideOKB (inv_reachable_partial ih) op hside)

/-- FULL statement (not proved): `Reachable s → ∀ pool, BookOK s pool`.
    Proved: for every store reachable by ANY list of operations with arbitrary arguments in which every successful swap
    satisfies `SwapBoundary` — (H1') the cursor moves inside a bucket recorded in its trace pass no initialised tick,
    (T) the initialised ticks of the pool have non-zero prices — the bookkeeping statement holds for every pool. -/
theorem bookOK_reachable_boundary_partial {s : CL.St} (h : ReachableB s) : ∀ pool, BookOK s pool :=
  bookOK_reachable_partial (reachableP_of_reachableB h)

theorem reachableP_of_noSwap {s : CL.St} (h : ReachableNoSwap s) : ReachableP s := by
  induction h with
  | init b => exact ReachableP.init b
  | step op _ hns ih =>
    refine ReachableP.step op ih ?_
    cases op <;> trivial

/-- **unconditional for histories without swaps** -/
theorem bookOK_reachable_noSwap {s : CL.St} (h : ReachableNoSwap s) : ∀ pool, BookOK s pool :=
  bookOK_reachable_partial (reachableP_of_noSwap h)

/-- corollary: the pool's current-tick liquidity is the summed liquidity of its in-range positions -/
theorem active_liquidity_eq_store_partial {s : CL.St} (h : ReachableP s) (pool : Nat) (p : Pool) (hp : getPool s pool = some p) :
    p.liq.raw = sumLiq (fun x => x.pool == pool && decide (x.lower ≤ p.tick ∧ p.tick < x.upper)) s.positions :=
  (bookOK_reachable_partial h pool).active p hp

/-- corollary: the stored ticks of a pool are exactly the bounds of its positions, with the summed gross / net liquidity -/
theorem tick_gross_net_eq_store_partial {s : CL.St} (h : ReachableP s) (pool : Nat) (t : Int) (ti : TickInfo)
    (hf : findTick s pool t = some ti) :
    (∃ x ∈ s.positions, x.pool = pool ∧ (x.lower = t ∨ x.upper = t)) ∧
    ti.gross.raw = sumLiq (fun x => x.pool == pool && decide (x.lower = t)) s.positions
                 + sumLiq (fun x => x.pool == pool && decide (x.upper = t)) s.positions ∧
    ti.net.raw = sumLiq (fun x => x.pool == pool && decide (x.lower = t)) s.positions
               - sumLiq (fun x => x.pool == pool && decide (x.upper = t)) s.positions := by
  have hB := bookOK_reachable_partial h pool
  exact ⟨(hB.present t).mp (by rw [hf]; rfl), hB.gross t ti hf, hB.net t ti hf⟩

/-- the well-formedness side invariants hold in every covered reachable store as well -/
theorem wellformed_reachable_partial {s : CL.St} (h : ReachableP s) :
    (∀ x ∈ s.positions, 0 < x.liq.raw ∧ x.lower < x.upper ∧ x.id < s.nextPos ∧ x.pool < s.nextPool) ∧
    (s.positions.map (·.id)).Nodup ∧ (s.ticks.map fun x => (x.pool, x.tick)).Nodup ∧
    (∀ i ∈ s.pools.map (·.id), i < s.nextPool) := by
  have hI := inv_reachable_partial h
  exact ⟨fun x hx => ⟨hI.strict x hx, (hI.w.posWf x hx).2, hI.w.idsLt x hx, hI.w.posPoolLt x hx⟩, hI.w.idsNodup,
    sorted_keys_nodup _ hI.w.sorted, hI.w.poolIdsLt⟩

/-- a handler that does not return `.ok` leaves the store unchanged -/
theorem commit_failed {α : Type} (s : CL.St) (r : Res (CL.St × α)) (h : r.isOk = false) : commit s r = s := by
  cases r with
  | ok v => simp [Res.isOk] at h
  | err c => rfl
  | panic k => rfl

/-! ### non-vacuity: a concrete history executed by the model (×10 tick grid, fee 0.3 %) -/

def bank0 : Bank := ⟨fun _ _ => 1000000000000, fun _ => 0⟩
def h1 : CL.St := run { bank := bank0 } (.createPool "base" "quote" ⟨3000000000000000⟩ ⟨10 * PREC⟩ ⟨0⟩)
def h2 : CL.St := run h1 (.createPosition "a0" 0 (-1) 1 "base" 1000000 "quote" 1000000 0 0)
def h3 : CL.St := run h2 (.createPosition "a1" 0 0 2 "base" 500000 "quote" 500000 0 0)
def h4 : CL.St := run h3 (.decreaseLiquidity "a0" 0 ⟨462475295574264369793569⟩)
def h5 : CL.St := run h4 (.decreaseLiquidity "a1" 1 ⟨555555555555555555555556⟩)
def h6 : CL.St := run h5 (.decreaseLiquidity "a0" 0 ⟨1000000000000000000001000⟩)

/-- positions (id, lower, upper, liq), ticks (tick, gross, net), pools (cursor, current-tick liquidity) -/
def view (s : CL.St) : List (Nat × Int × Int × Int) × List (Int × Int × Int) × List (Int × Int) :=
  (s.positions.map (fun x => (x.id, x.lower, x.upper, x.liq.raw)), s.ticks.map (fun x => (x.tick, x.gross.raw, x.net.raw)),
   s.pools.map (fun p => (p.tick, p.liq.raw)))

theorem h6_reachable : ReachableNoSwap h6 :=
  .step _ (.step _ (.step _ (.step _ (.step _ (.step _ (.init bank0) rfl) rfl) rfl) rfl) rfl) rfl

theorem h5_reachable : ReachableNoSwap h5 :=
  .step _ (.step _ (.step _ (.step _ (.step _ (.init bank0) rfl) rfl) rfl) rfl) rfl

/-- two overlapping positions created (all four operations succeed), one partially withdrawn, the other fully withdrawn
    (its record and its two ticks deleted): the theorem applies to a non-trivial store … -/
example : (view h3).1.length = 2 ∧ (view h3).2.1.length = 4 := by decide +kernel

set_option maxRecDepth 100000 in
example : view h5 = ([(0, -1, 1, 1000000000000000000001000)],
  [(-1, 1000000000000000000001000, 1000000000000000000001000),
    (1, 1000000000000000000001000, -1000000000000000000001000)],
  [(0, 1000000000000000000001000)]) := by decide +kernel

example : ∀ pool, BookOK h5 pool := bookOK_reachable_noSwap h5_reachable

/-- … and after the last position is withdrawn the pool is reset and no tick is left -/
example : view h6 = ([], [], [(0, 0)]) := by decide +kernel

example : ∀ pool, BookOK h6 pool := bookOK_reachable_noSwap h6_reachable

/-- `SwapSide` is satisfiable: a swap whose trace contains no crossing and no cursor move needs nothing for (H1) -/
example (b : CLBook.St) : Guarded (Sunrise.C04RefineLoop.bookOps [SwapEv.fee 3, SwapEv.step 1 2 3]) b := trivial

open Sunrise.C04RefineLoop (bookOps) in
/-- executable sufficient check for `SwapSide` -/
def swapSideB (s s' : CL.St) (pool : Nat) : Bool :=
  (match getPool s pool with
    | some p => guardedB (ticksOf s pool) (bookOps s'.lastTrace) (absBook s pool p)
    | none => true) &&
  (match getPool s' pool with
    | some q => poolLive q || !poolHasPosition s' pool
    | none => true)

theorem swapSideB_sound {s s' : CL.St} {pool : Nat} (h : swapSideB s s' pool = true) : SwapSide s s' pool := by
  unfold swapSideB at h
  simp only [Bool.and_eq_true] at h
  refine ⟨?_, ?_⟩
  · intro p hp
    have h1 := h.1
    rw [hp] at h1
    exact guardedB_sound _ _ _ (fun u hu => grossOf_not_stored s pool u hu) h1
  · intro q hq hl
    have h2 := h.2
    rw [hq] at h2
    simpa [hl] using h2

/-- an executed swap on the two-position pool `h3` (cursor 0, ranges [−1,1) and [0,2)): 1000 quote in -/
def h3s : CL.St := run h3 (.swapExactIn "a0" 0 "quote" 1000 "base" true)

def okState {α : Type} (r : Res (CL.St × α)) : Bool := match r with | .ok _ => true | _ => false

/-- the swap succeeds, and its side conditions hold (checked by evaluation) … -/
theorem h3s_ok : okState (swapExactIn h3 "a0" 0 "quote" 1000 "base" true) = true ∧ swapSideB h3 h3s 0 = true := by
  decide +kernel

theorem h3_reachable : ReachableNoSwap h3 := .step _ (.step _ (.step _ (.init bank0) rfl) rfl) rfl

/-- … so `swapExactIn_preserves_partial` applies to it: non-vacuity of the swap theorem and of `ReachableP` with a swap -/
example : ReachableP h3s ∧ ∀ pool, BookOK h3s pool := by
  have hr : ReachableP h3s := by
    refine ReachableP.step _ (reachableP_of_noSwap h3_reachable) ?_
    intro s' out h
    have e : h3s = s' := by
      show commit h3 (swapExactIn h3 "a0" 0 "quote" 1000 "base" true) = s'
      rw [h]; rfl
    rw [← e]; exact swapSide'_of_swapSide (swapSideB_sound h3s_ok.2)
  exact ⟨hr, bookOK_reachable_partial hr⟩

/-- two more executed swaps on `h3`, each with a tick CROSSING: 5 000 000 quote in crosses tick 1 upwards (trace ops
    `crossUp 1 ; moveWithin 1`), 1000 base in crosses tick 0 downwards (`crossDown 0 ; moveWithin (−1)`) -/
def h3u : CL.St := run h3 (.swapExactIn "a0" 0 "quote" 5000000 "base" true)
def h3d : CL.St := run h3 (.swapExactIn "a0" 0 "base" 1000 "quote" true)

theorem h3u_ok : okState (swapExactIn h3 "a0" 0 "quote" 5000000 "base" true) = true ∧ swapSideB h3 h3u 0 = true
    ∧ Sunrise.C04RefineLoop.crossed h3u.lastTrace = [(true, 1)] := by
  decide +kernel

theorem h3d_ok : okState (swapExactIn h3 "a0" 0 "base" 1000 "quote" true) = true ∧ swapSideB h3 h3d 0 = true
    ∧ Sunrise.C04RefineLoop.crossed h3d.lastTrace = [(false, 0)] := by
  decide +kernel

example : (∀ pool, BookOK h3u pool) ∧ (∀ pool, BookOK h3d pool) := by
  have hu : ReachableP h3u := by
    refine ReachableP.step _ (reachableP_of_noSwap h3_reachable) ?_
    intro s' out h
    have e : h3u = s' := by
      show commit h3 (swapExactIn h3 "a0" 0 "quote" 5000000 "base" true) = s'
      rw [h]; rfl
    rw [← e]; exact swapSide'_of_swapSide (swapSideB_sound h3u_ok.2.1)
  have hd : ReachableP h3d := by
    refine ReachableP.step _ (reachableP_of_noSwap h3_reachable) ?_
    intro s' out h
    have e : h3d = s' := by
      show commit h3 (swapExactIn h3 "a0" 0 "base" 1000 "quote" true) = s'
      rw [h]; rfl
    rw [← e]; exact swapSide'_of_swapSide (swapSideB_sound h3d_ok.2.1)
  exact ⟨bookOK_reachable_partial hu, bookOK_reachable_partial hd⟩

/-- the new boundary asks NOTHING of the crossings: a trace consisting of crossings only satisfies (H1') in any state (the
    old `Guarded` would require each crossed tick to be the next initialised one) -/
example (b : CLBook.St) : GuardedMoves (Sunrise.C04RefineLoop.bookOps [SwapEv.cross true 7, SwapEv.fee 3, SwapEv.cross true 5]) b :=
  ⟨trivial, trivial, trivial⟩

/-- `SwapBoundary` holds for the three executed swaps on `h3` (checked by evaluation): non-vacuity of the `…_boundary_…`
    theorems and of `ReachableB` with swaps, two of them with a tick crossing -/
theorem h3_tickPrices : tickPricesNonZeroB h3 0 = true := by decide +kernel

example : ReachableB h3s ∧ ReachableB h3u ∧ ReachableB h3d := by
  have hb : ReachableB h3 := .step _ (.step _ (.step _ (.init bank0) trivial) trivial) trivial
  refine ⟨?_, ?_, ?_⟩
  · refine ReachableB.step _ hb ?_
    intro s' out h
    have e : h3s = s' := by
      show commit h3 (swapExactIn h3 "a0" 0 "quote" 1000 "base" true) = s'
      rw [h]; rfl
    rw [← e]; exact ⟨(swapSide'_of_swapSide (swapSideB_sound h3s_ok.2)).1, tickPricesNonZeroB_sound h3_tickPrices⟩
  · refine ReachableB.step _ hb ?_
    intro s' out h
    have e : h3u = s' := by
      show commit h3 (swapExactIn h3 "a0" 0 "quote" 5000000 "base" true) = s'
      rw [h]; rfl
    rw [← e]; exact ⟨(swapSide'_of_swapSide (swapSideB_sound h3u_ok.2.1)).1, tickPricesNonZeroB_sound h3_tickPrices⟩
  · refine ReachableB.step _ hb ?_
    intro s' out h
    have e : h3d = s' := by
      show commit h3 (swapExactIn h3 "a0" 0 "base" 1000 "quote" true) = s'
      rw [h]; rfl
    rw [← e]; exact ⟨(swapSide'_of_swapSide (swapSideB_sound h3d_ok.2.1)).1, tickPricesNonZeroB_sound h3_tickPrices⟩

/-- (T) cannot be dropped at the level of this model, whose `createPool` takes UNVALIDATED parameters: with price ratio
    10⁻⁹ and offset 1000 (both rejected by `createPoolValid`, which demands ratio > 1 and 0 ≤ offset < 1) the sqrt price of
    tick 0 is computed as 0 without error.  For validated parameters (T) is expected to hold but is not proved here
    (needs lower bounds for `TickMath.pow` and `Dec.approxSqrt`). -/
theorem tick0_price_zero_unvalidated :
    (match TickMath.tickToSqrtPrice 0 ⟨⟨1000000000⟩, ⟨1000 * PREC⟩⟩ with | .ok v => v.isZero | _ => false) = true
    ∧ createPoolValid "base" "quote" ⟨0⟩ ⟨1000000000⟩ ⟨1000 * PREC⟩ = false := by
  decide +kernel

#print axioms bookOK_reachable_partial
#print axioms bookOK_reachable_boundary_partial
#print axioms swapExactIn_preserves_boundary_partial
#print axioms swapExactOut_preserves_boundary_partial
#print axioms swapSide'_of_boundary_exactIn
#print axioms swapSide'_of_boundary_exactOut
#print axioms bookOK_reachable_noSwap
#print axioms active_liquidity_eq_store_partial
#print axioms tick_gross_net_eq_store_partial
#print axioms wellformed_reachable_partial
#print axioms createPool_preserves
#print axioms createPosition_preserves
#print axioms increaseLiquidity_preserves
#print axioms decreaseLiquidity_preserves
#print axioms collectFees_preserves
#print axioms claimRewards_preserves
#print axioms allocateIncentive_preserves
#print axioms swapExactIn_preserves_partial
#print axioms swapExactOut_preserves_partial
#print axioms swapSide_of_swapSide'_exactIn
#print axioms swapSide_of_swapSide'_exactOut
#print axioms bookOK_of_inv

end Sunrise.C04Store
