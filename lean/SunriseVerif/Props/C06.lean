import SunriseVerif.Model.CLFee
import SunriseVerif.Props.C04
import SunriseVerif.Lemmas.Dec
import SunriseVerif.Gen.KernelsCL
/-!
C06 — LP fee and incentive accrual: in-range only, pro-rata, never retroactive.
Algebra of growth-inside over the abstraction `CLFee` (unbounded integers, every tick layout), the pro-rata sum over
the positions of `CLBook`, and the rounding direction of the per-liquidity growth on the regenerated kernels.
The store-level model (accumulator positions, dust re-addition, claims) is tied to the code by the `cl` suite.
-/
namespace Sunrise.C06
open Sunrise.CLFee

/-- growth added while the cursor is at `cur` accrues exactly to the ranges that contain the cursor -/
theorem inside_addGrowth (s : St) (g lo hi : Int) (h : lo < hi) :
    inside (addGrowth s g) lo hi = inside s lo hi + (if lo ≤ s.cur ∧ s.cur < hi then g else 0) := by
  simp only [inside, below, above, addGrowth]
  by_cases c1 : s.cur < lo <;> by_cases c2 : s.cur ≥ hi <;> simp [c1, c2] <;> omega

/-- crossing a tick upwards changes no range's growth inside (ranges bounded by a tick strictly between the old cursor
    and t cannot exist: such a tick would be initialised and would have been crossed first) -/
theorem inside_crossUp (s : St) (t lo hi : Int) (h : lo < hi) (hc : s.cur < t)
    (h1 : ¬ (s.cur < lo ∧ lo < t)) (h2 : ¬ (s.cur < hi ∧ hi < t)) :
    inside (crossUp s t) lo hi = inside s lo hi := by
  simp only [inside, below, above, crossUp]
  by_cases a1 : lo = t <;> by_cases a2 : hi = t <;> by_cases c1 : s.cur < lo <;> by_cases c2 : s.cur ≥ hi <;>
    by_cases c3 : t < lo <;> by_cases c4 : t ≥ hi <;> simp [a1, a2, c1, c2, c3, c4] <;> omega

theorem inside_crossDown (s : St) (t lo hi : Int) (h : lo < hi) (hc : t ≤ s.cur)
    (h1 : ¬ (t < lo ∧ lo ≤ s.cur)) (h2 : ¬ (t < hi ∧ hi ≤ s.cur)) :
    inside (crossDown s t) lo hi = inside s lo hi := by
  simp only [inside, below, above, crossDown]
  by_cases a1 : lo = t <;> by_cases a2 : hi = t <;> by_cases c1 : s.cur < lo <;> by_cases c2 : s.cur ≥ hi <;>
    by_cases c3 : t - 1 < lo <;> by_cases c4 : t - 1 ≥ hi <;> simp [a1, a2, c1, c2, c3, c4] <;> omega

/-- moving the cursor between initialised ticks changes no range's growth inside -/
theorem inside_moveWithin (s : St) (t' lo hi : Int) (h : lo < hi)
    (h1 : ¬ (min s.cur t' < lo ∧ lo ≤ max s.cur t')) (h2 : ¬ (min s.cur t' < hi ∧ hi ≤ max s.cur t')) :
    inside (moveWithin s t') lo hi = inside s lo hi := by
  simp only [inside, below, above, moveWithin]
  by_cases c1 : s.cur < lo <;> by_cases c2 : s.cur ≥ hi <;> by_cases c3 : t' < lo <;> by_cases c4 : t' ≥ hi <;>
    simp [c1, c2, c3, c4] <;> omega

/-- a position opened on freshly initialised ticks starts with growth inside 0 when it is in range or above the cursor,
    i.e. nothing that accrued before it existed is attributed to it (its checkpoint is this value) -/
theorem inside_fresh_ticks (s : St) (lo hi : Int) (h : lo < hi) :
    inside (initTick (initTick s lo) hi) lo hi = 0 := by
  have hne : lo ≠ hi := by omega
  have hne' : hi ≠ lo := by omega
  simp only [inside, below, above, initTick]
  by_cases c1 : s.cur < lo <;> by_cases c2 : s.cur ≥ hi <;> simp [c1, c2, hne, hne'] <;> omega

/-- initialising an unrelated tick does not change a range's growth inside -/
theorem inside_initTick_other (s : St) (t lo hi : Int) (h1 : t ≠ lo) (h2 : t ≠ hi) :
    inside (initTick s t) lo hi = inside s lo hi := by
  simp only [inside, below, above, initTick]
  have e1 : lo ≠ t := fun e => h1 e.symm
  have e2 : hi ≠ t := fun e => h2 e.symm
  simp [e1, e2]

open Sunrise.CLBook in
/-- pro-rata: a growth step g distributes Σ_pos liq·Δinside = g · (active liquidity) in every reachable bookkeeping state -/
theorem growth_pro_rata (b : Sunrise.CLBook.St) (hb : Reachable b) (g : Int) :
    (b.pos.foldr (fun x acc => x.liq * (if x.lo ≤ b.tick ∧ b.tick < x.hi then g else 0) + acc) 0) = g * b.active := by
  rw [Sunrise.C04.active_liquidity_eq b hb]
  generalize b.pos = l
  induction l with
  | nil => simp [sumIf]
  | cons x xs ih =>
    simp only [List.foldr_cons, sumIf, inRange, ih]
    by_cases c : x.lo ≤ b.tick ∧ b.tick < x.hi
    · simp only [c, and_self, if_true, decide_true]
      rw [Int.mul_add, Int.mul_comm]
    · simp only [c, if_false, decide_false, Bool.false_eq_true, Int.mul_zero, Int.zero_add]

open Sunrise Sunrise.Dec in
/-- the per-liquidity growth of a step is truncated: growth·L ≤ fee·10^18, so what accrues never exceeds the fee charged -/
theorem growth_truncated (fee liq : Dec) (hf : 0 ≤ fee.raw) (hl : 0 < liq.raw) :
    (Dec.quoTruncate fee liq).raw * liq.raw ≤ fee.raw * PREC ∧ 0 ≤ (Dec.quoTruncate fee liq).raw :=
  ⟨(quoTruncate_pos_bounds fee liq hf hl).1, (quoTruncate_pos_bounds fee liq hf hl).2.2⟩

/-- non-vacuity: growth accrues to an in-range range and not to an out-of-range one -/
example : inside (addGrowth ⟨0, fun _ => 0, 5⟩ 7) 0 10 = 7 ∧ inside (addGrowth ⟨0, fun _ => 0, 5⟩ 7) 10 20 = 0 := by decide

end Sunrise.C06
