import SunriseVerif.Props.C06Refine2
import SunriseVerif.Props.C04Store
import SunriseVerif.Props.C06Accrual

/-!
C06 (message level) — store well-formedness for the accrual refinement (`Props/C06Refine.lean`, `Props/C06Refine2.lean`).

`WF6 s` = ONE predicate collecting every store-side hypothesis of the core refinement theorems
(`claim_refines`, `incentive_refines`, `change_refines`, `open_refines`, `withdraw_refines`, `swap_refines_*`):
  * `C04StoreL.Inv s`  (position ids Nodup, tick store strictly sorted = tick keys Nodup, no stored tick with gross 0,
                       stored positions have liq > 0, every bound of a stored position is a stored tick, …);
  * `SortedWF s`       (every stored `DecCoins` is denom-sorted);
  * `SharesOK s`       (every stored position with liq > 0 has an accumulator-position record whose shares = its
                       liquidity; every accumulator's `totalShares` = Σ liquidity of the pool's positions).
The projections `WF6.ids_nodup`, `WF6.tick_keys_nodup`, `WF6.ticks_stored`, `WF6.gross_ne`, `WF6.shares`,
`WF6.totalShares_abs` give the hypotheses in the form the core theorems take them.

PROVED (this file):
1. `WF6` is preserved by EVERY successful message of `Model/CL.lean`:
   `createPool_wf6`, `createPosition_wf6`, `increaseLiquidity_wf6`, `decreaseLiquidity_wf6`, `collectFees_wf6`,
   `claimRewards_wf6`, `allocateIncentive_wf6` — unconditionally; `swapExactIn_wf6_partial` / `swapExactOut_wf6_partial`
   — the `Inv` component under the boundary `C04Store.SwapBoundary` (as in `Props/C04Store.lean`), the accrual-specific
   components `SortedWF` / `SharesOK` unconditionally (`swapExactIn_accrual_wf`, `swapExactOut_accrual_wf`,
   `swapLoop_keeps`).  Core: `updatePosition_wf` (`SortedWF` and `SharesOK` through `UpdatePosition`, also on the
   placeholder state of `createPosition`), `setAccumFee_effect`.  Whole histories: `run_wf6`, `wf6_reachable_partial`,
   `wf6_reachable_noSwap`; non-vacuity: `C04Store.h3` (two positions), `h5`.
2. (partial) `claim_refines_wf`, `change_refines_wf`: the core theorems with every store-side hypothesis discharged by
   `WF6` and the abstraction-side ones (`hck`, guards) by `CLAccrual.Inv` of the abstraction (an invariant of the
   abstraction: `C06A.inv_step`; re-established for the state after by `claim_refines_wf` through `Inv_obsEq`);
   `decreaseLiquidity_refines_partial`: collectFees-then-UpdatePosition composition for a position that keeps
   liquidity, up to the final bank transfers and removal of emptied ticks.
4. (partial) `claimRewards_refines_partial`: the fold over position ids of ONE pool = the fold of abstract claims.
NOT proved: item 3 (`createPosition_refines`); in item 2 the bank-transfer frame, the emptied-tick removal and the
full-withdrawal case; in item 4 ids of positions of other pools (frame lemma missing).  The hypothesis
`hInv : ∀ d' b, absOf s pool d' k = some b → CLAccrual.Inv b` (accrual invariant of the abstraction at every denom) is
NOT derived from `WF6` here (its tick-sum clauses follow from `C04StoreL.Sums` + `SharesOK`, `backed` is the C06 property
itself); it is propagated: `claim_refines_wf` and `claimRewards_refines_partial` return it for the state after.
   `abs_struct_of_wf6` derives its structural clauses (gross / net / active sums, 0 ≤ shares, lo < hi) from `WF6` for every
   store; `inv_of_feeFree` proves the whole of it for `WF6` stores on which no fee has been booked yet (base case), and
   the last `example` exhibits a store satisfying all hypotheses of the refinement theorems together.
-/

set_option linter.unusedVariables false
set_option linter.unusedSimpArgs false
namespace Sunrise.C06Msg
open Sunrise Sunrise.CL Sunrise.C04Refine Sunrise.DecCoinsAlg Sunrise.C06Refine Sunrise.C04StoreL
open Sunrise.C05Loop (bind_ok res_ok_inj swapLoop_succ_eq swapLoop_zero settleK ss2Of wrapTickK_ok amtInOf amtOutOf ss0Of)
open Sunrise.C04Interval (err_bind ok_bind panic_bind ite_err_ok ite_ok updatePoolForSwap_ok)

/-! ### the predicate -/

/-- shares = liquidity, total shares = Σ liquidity (the executable `CLAccrual.sharesOk`, for every pool) -/
structure SharesOK (s : St) : Prop where
  /-- a stored position has an accumulator position with shares = liquidity; the only record allowed without one is a
      zero-liquidity record (the placeholder inside `createPosition`; excluded from `WF6` states by `Inv.strict`) -/
  shares : ∀ q ∈ s.positions, (∃ ap, getAccPos s q.id = some ap ∧ ap.shares.raw = q.liq.raw) ∨
    (getAccPos s q.id = none ∧ q.liq.raw = 0)
  total : ∀ pool a, getAccum s pool = some a → a.totalShares.raw = sumLiq (fun x => x.pool == pool) s.positions
  /-- no accumulator position for an id that has not been issued yet (stale records of withdrawn positions remain
      stored with zero shares, but ids are never reused) -/
  accLt : ∀ ap ∈ s.accPos, ap.posId < s.nextPos

/-- **store well-formedness for C06** -/
structure WF6 (s : St) : Prop where
  inv : Inv s
  sorted : SortedWF s
  sh : SharesOK s

theorem WF6.ids_nodup {s : St} (h : WF6 s) : (s.positions.map (·.id)).Nodup := h.inv.w.idsNodup

theorem WF6.tick_keys_nodup {s : St} (h : WF6 s) : (s.ticks.map fun x => (x.pool, x.tick)).Nodup :=
  sorted_keys_nodup s.ticks h.inv.w.sorted

theorem WF6.gross_ne {s : St} (h : WF6 s) : NonEmpty s := h.inv.nonEmpty

/-- both ticks of every stored position are stored -/
theorem WF6.ticks_stored {s : St} (h : WF6 s) {q : Position} (hq : q ∈ s.positions) :
    (findTick s q.pool q.lower).isSome ∧ (findTick s q.pool q.upper).isSome := by
  have b := C04Store.bookOK_of_inv h.inv q.pool
  exact ⟨(b.present q.lower).mpr ⟨q, hq, rfl, Or.inl rfl⟩, (b.present q.upper).mpr ⟨q, hq, rfl, Or.inr rfl⟩⟩

/-- every stored position has an accumulator position with shares = liquidity > 0 -/
theorem WF6.shares {s : St} (h : WF6 s) {q : Position} (hq : q ∈ s.positions) :
    ∃ ap, getAccPos s q.id = some ap ∧ ap.shares.raw = q.liq.raw ∧ 0 < ap.shares.raw := by
  rcases h.sh.shares q hq with ⟨ap, h1, h2⟩ | ⟨_, h0⟩
  · exact ⟨ap, h1, h2, by rw [h2]; exact h.inv.strict q hq⟩
  · have := h.inv.strict q hq; omega

/-! ### Σ shares of the abstraction = Σ liquidity of the store -/

theorem sumLiq_filter_pool (pool : Nat) (l : List Position) :
    sumLiq (fun x => x.pool == pool) l = (l.filter (·.pool == pool)).foldr (fun q acc => q.liq.raw + acc) 0 := by
  induction l with
  | nil => simp [sumLiq]
  | cons x xs ih =>
    unfold sumLiq
    by_cases hx : (x.pool == pool) = true
    · simp only [hx, if_true, List.filter_cons, List.foldr_cons]; rw [ih]
    · have hx' : (x.pool == pool) = false := by simpa using hx
      simp only [hx', Bool.false_eq_true, if_false, List.filter_cons]; rw [ih]; omega

theorem sumBy_map_posOf (s : St) (d : String) : ∀ (l : List Position),
    (∀ q ∈ l, ∃ ap, getAccPos s q.id = some ap ∧ ap.shares.raw = q.liq.raw) →
    CLAccrual.sumBy (·.s) (l.map (posOf s d)) = l.foldr (fun q acc => q.liq.raw + acc) 0 := by
  intro l
  induction l with
  | nil => intro _; rfl
  | cons x xs ih =>
    intro h
    obtain ⟨ap, h1, h2⟩ := h x (List.mem_cons_self)
    simp only [List.map_cons, CLAccrual.sumBy, List.foldr_cons]
    rw [ih (fun q hq => h q (List.mem_cons_of_mem _ hq))]
    unfold posOf; rw [h1]; simp only; rw [h2]

/-- hypothesis `hT` of `claim_refines`, discharged -/
theorem WF6.totalShares_abs {s : St} (h : WF6 s) {pool : Nat} {denom : String} {k : Int} {a : ASt}
    (habs : CLAccrual.absOf s pool denom k = some a) :
    ∀ acc, getAccum s pool = some acc → acc.totalShares.raw = CLAccrual.totalShares a := by
  intro acc hacc
  obtain ⟨p, acc', hp, hacc', ea⟩ := absOf_some habs
  rw [h.sh.total pool acc hacc, ea]
  unfold CLAccrual.totalShares absWith
  simp only
  rw [sumLiq_filter_pool]
  unfold poolPositions
  rw [sumBy_map_posOf]
  intro q hq
  have hm := (List.mem_filter.mp hq).1
  obtain ⟨ap, h1, h2, _⟩ := h.shares hm
  exact ⟨ap, h1, h2⟩

/-! ### `SortedWF` / `SharesOK` through the elementary writes -/

theorem sortedWF_setAccPos {s : St} (w : SortedWF s) (x : AccPos) (h1 : Sorted x.perShare) (h2 : Sorted x.unclaimed) :
    SortedWF (setAccPos s x) := by
  unfold setAccPos
  split
  · refine ⟨w.accum, w.ticks, ?_⟩
    intro ap hap
    simp only [List.mem_map] at hap
    obtain ⟨q, hq, e⟩ := hap
    split at e
    · subst e; exact ⟨h1, h2⟩
    · subst e; exact w.accPos q hq
  · refine ⟨w.accum, w.ticks, ?_⟩
    intro ap hap
    simp only [List.mem_append, List.mem_singleton] at hap
    rcases hap with hap | hap
    · exact w.accPos ap hap
    · subst hap; exact ⟨h1, h2⟩

theorem sortedWF_setAccum {s : St} (w : SortedWF s) (a : Accum) (h1 : Sorted a.value) : SortedWF (setAccum s a) := by
  refine ⟨?_, w.ticks, w.accPos⟩
  intro x hx
  unfold setAccum at hx
  simp only [List.mem_map] at hx
  obtain ⟨q, hq, e⟩ := hx
  split at e
  · subst e; exact h1
  · subst e; exact w.accum q hq

theorem sortedWF_bank {s : St} (w : SortedWF s) (b : Bank) : SortedWF { s with bank := b } := ⟨w.accum, w.ticks, w.accPos⟩

theorem mem_setAccPos {s : St} {x y : AccPos} (h : y ∈ (setAccPos s x).accPos) : y = x ∨ y ∈ s.accPos := by
  unfold setAccPos at h
  split at h
  · simp only [List.mem_map] at h
    obtain ⟨q, hq, e⟩ := h
    split at e
    · exact Or.inl e.symm
    · subst e; exact Or.inr hq
  · simp only [List.mem_append, List.mem_singleton] at h
    rcases h with h | h
    · exact Or.inr h
    · exact Or.inl h

theorem setAccPos_nextPos (s : St) (x : AccPos) : (setAccPos s x).nextPos = s.nextPos := by
  unfold setAccPos; split <;> rfl

theorem sharesOK_setAccPos {s : St} (w : SharesOK s) (x ap0 : AccPos) (h0 : getAccPos s x.posId = some ap0)
    (hs : x.shares = ap0.shares) : SharesOK (setAccPos s x) := by
  obtain ⟨f1, f2, f3, f4, f5⟩ := setAccPos_frame s x
  refine ⟨?_, ?_, ?_⟩
  · intro q hq
    rw [f2] at hq
    rw [getAccPos_setAccPos]
    by_cases hid : q.id = x.posId
    · rw [if_pos hid]
      rcases w.shares q hq with ⟨ap, e1, e2⟩ | ⟨e1, _⟩
      · refine Or.inl ⟨x, rfl, ?_⟩
        rw [hid, h0] at e1
        rw [hs, Option.some.inj e1]; exact e2
      · rw [hid, h0] at e1; cases e1
    · rw [if_neg hid]; exact w.shares q hq
  · intro pool a ha
    rw [getAccum_setAccPos] at ha
    rw [f2]; exact w.total pool a ha
  · intro ap hap
    rw [setAccPos_nextPos]
    rcases mem_setAccPos hap with e | hm
    · subst e
      have := w.accLt ap0 (List.mem_of_find?_eq_some h0)
      rw [getAccPos_id h0] at this; exact this
    · exact w.accLt ap hm

theorem sharesOK_setAccum {s : St} (w : SharesOK s) (a a0 : Accum) (h0 : getAccum s a.pool = some a0)
    (hs : a.totalShares = a0.totalShares) : SharesOK (setAccum s a) := by
  refine ⟨?_, ?_, w.accLt⟩
  · intro q hq
    exact w.shares q hq
  · intro pool x hx
    rw [getAccum_setAccum] at hx
    show x.totalShares.raw = sumLiq _ s.positions
    by_cases hp : a.pool = pool
    · rw [if_pos hp] at hx
      split at hx
      · have e := Option.some.inj hx; subst e
        rw [hs]; rw [hp] at h0; exact w.total pool a0 h0
      · cases hx
    · rw [if_neg hp] at hx; exact w.total pool x hx

theorem sharesOK_bank {s : St} (w : SharesOK s) (b : Bank) : SharesOK { s with bank := b } := ⟨w.shares, w.total, w.accLt⟩

/-! ### sortedness of what the keeper computes -/

theorem getTickInfo_sorted {s : St} (w : SortedWF s) {pool : Nat} {t : Int} {ti : TickInfo}
    (h : getTickInfo s pool t = .ok ti) : Sorted ti.feeGrowth := by
  unfold getTickInfo at h
  cases hf : findTick s pool t with
  | some x => rw [hf] at h; have e := res_ok_inj h; subst e; exact w.of_findTick hf
  | none =>
    rw [hf] at h
    simp only at h
    cases hp : getPool s pool with
    | none => rw [hp] at h; cases h
    | some p =>
      rw [hp] at h
      simp only at h
      split at h
      · cases ha : getAccum s pool with
        | none => rw [ha] at h; cases h
        | some a => rw [ha] at h; have e := res_ok_inj h; subst e; exact w.of_getAccum ha
      · have e := res_ok_inj h; subst e; exact sorted_nil

theorem outside_sorted {s : St} (w : SortedWF s) {pool : Nat} {lo hi : Int} {o : DecCoins}
    (h : getFeeGrowthOutside s pool lo hi = .ok o) : Sorted o := by
  unfold getFeeGrowthOutside at h
  simp only [bind, pure] at h
  cases hp : getPool s pool with
  | none => rw [hp] at h; cases h
  | some p =>
    rw [hp] at h; simp only [ok_bind] at h
    obtain ⟨lt, hlt, h⟩ := bind_ok h
    obtain ⟨ut, hut, h⟩ := bind_ok h
    cases hg : getAccum s pool with
    | none => rw [hg] at h; cases h
    | some a =>
      rw [hg] at h; simp only [ok_bind] at h
      obtain ⟨ab, hab, h⟩ := bind_ok h
      obtain ⟨be, hbe, h⟩ := bind_ok h
      have e := res_ok_inj h; subst e
      have hsa : Sorted a.value := w.of_getAccum hg
      exact add_sorted (calcFeeGrowth_upper (getTickInfo_sorted w hut) hsa hab).1
        (calcFeeGrowth_lower (getTickInfo_sorted w hlt) hsa hbe).1

/-! ### preservation: `createPool` -/

theorem createPool_wf6 {s : St} (h : WF6 s) (base quote : Denom) (fee ratio offset : Dec) :
    WF6 (createPool s base quote fee ratio offset).1 := by
  refine ⟨createPool_inv_ok base quote fee ratio offset h.inv, ?_, ?_⟩
  · refine ⟨?_, h.sorted.ticks, h.sorted.accPos⟩
    intro a ha
    show Sorted a.value
    have ha' : a ∈ s.accums ++ [(⟨s.nextPool, [], Dec.zero⟩ : Accum)] := ha
    simp only [List.mem_append, List.mem_singleton] at ha'
    rcases ha' with ha' | ha'
    · exact h.sorted.accum a ha'
    · subst ha'; exact sorted_nil
  · refine ⟨fun q hq => h.sh.shares q hq, ?_, h.sh.accLt⟩
    intro pool a ha
    show a.totalShares.raw = sumLiq _ s.positions
    have ha' : (s.accums ++ [(⟨s.nextPool, [], Dec.zero⟩ : Accum)]).find? (·.pool == pool) = some a := ha
    rw [List.find?_append] at ha'
    cases hf : s.accums.find? (·.pool == pool) with
    | some x =>
      rw [hf] at ha'
      have e : x = a := Option.some.inj ha'
      subst e
      exact h.sh.total pool x hf
    | none =>
      rw [hf] at ha'
      simp only [Option.none_or, List.find?_cons, List.find?_nil] at ha'
      split at ha'
      · rename_i hc
        have e := Option.some.inj ha'; subst e
        have hpool : s.nextPool = pool := by simpa using hc
        rw [sumLiq_none]
        · rfl
        · intro x hx
          have := h.inv.w.posPoolLt x hx
          simp only [beq_eq_false_iff_ne, ne_eq]
          omega
      · cases ha'

/-! ### preservation: `collectFees` / `claimRewards` -/

theorem claimWrite_wf {s : St} (h : WF6 s) {ap : AccPos} {acc : Accum} {o : DecCoins} {id : Nat}
    (hap : getAccPos s id = some ap) (hsa : Sorted acc.value) (hso : Sorted o) :
    SortedWF (claimWrite s ap acc o) ∧ SharesOK (claimWrite s ap acc o) := by
  have hid := getAccPos_id hap
  unfold claimWrite
  constructor
  · exact sortedWF_setAccPos (sortedWF_setAccPos h.sorted { ap with perShare := acc.value, unclaimed := [] } hsa sorted_nil)
      { ap with perShare := (DecCoins.safeSub acc.value o).1, unclaimed := [] } (safeSub_sorted hsa hso) sorted_nil
  · refine sharesOK_setAccPos (sharesOK_setAccPos h.sh { ap with perShare := acc.value, unclaimed := [] } ap
        (by show getAccPos s ap.posId = _; rw [hid]; exact hap) rfl)
      { ap with perShare := (DecCoins.safeSub acc.value o).1, unclaimed := [] }
      { ap with perShare := acc.value, unclaimed := [] } ?_ rfl
    rw [getAccPos_setAccPos]; simp

theorem prepare_wf6 {s s' : St} {posId : Nat} {claimed : List (String × Int)} (h : WF6 s)
    (hp : prepareClaimableFees s posId = .ok (s', claimed)) : SortedWF s' ∧ SharesOK s' := by
  obtain ⟨pos, acc, ap, o, tot, hpos, hacc, hap, ho, htot, _, hcase⟩ := prepare_ok hp
  have hmem : pos ∈ s.positions := List.mem_of_find?_eq_some hpos
  have hpid := getPosition_id hpos
  obtain ⟨ap', hap', hsh, hshpos⟩ := h.shares hmem
  rw [hpid, hap] at hap'
  have e := Option.some.inj hap'; subst e
  have hnz : ap.shares.isZero = false := by
    unfold Dec.isZero; simp only [beq_eq_false_iff_ne, ne_eq]; omega
  have hsa := h.sorted.of_getAccum hacc
  have hso := outside_sorted h.sorted ho
  obtain ⟨w1, w2⟩ := claimWrite_wf h (acc := acc) (o := o) hap hsa hso
  rcases hcase hnz with ⟨e, _⟩ | ⟨per, _, _, hper, e⟩
  · subst e; exact ⟨w1, w2⟩
  · subst e
    have hg : getAccum (claimWrite s ap acc o) pos.pool = some acc := by
      rw [← hacc]; exact (getAccum_setAccPos _ _ _).trans (getAccum_setAccPos _ _ _)
    have hpl := getAccum_pool hacc
    constructor
    · exact sortedWF_setAccum w1 { acc with value := DecCoins.add acc.value per } (add_sorted hsa (quoDecTruncate_ok hper).2.1)
    · exact sharesOK_setAccum w2 { acc with value := DecCoins.add acc.value per } acc
        (by show getAccum _ acc.pool = _; rw [hpl]; exact hg) rfl

theorem collectFees_wf6 {s s' : St} {sender : Addr} {posId : Nat} {c : List (String × Int)} (h : WF6 s)
    (hc : collectFees s sender posId = .ok (s', c)) : WF6 s' := by
  have hI := h.inv.core (collectFees_core hc)
  suffices hh : SortedWF s' ∧ SharesOK s' from ⟨hI, hh.1, hh.2⟩
  unfold collectFees at hc
  simp only [bind, pure, err_bind, ok_bind] at hc
  split at hc
  · obtain ⟨_, hc⟩ := ite_err_ok hc
    obtain ⟨x, hx, hc⟩ := bind_ok hc
    obtain ⟨w1, w2⟩ := prepare_wf6 (s' := x.1) (claimed := x.2) h hx
    rcases ite_ok hc with ⟨_, hc⟩ | ⟨_, hc⟩
    · have e := congrArg Prod.fst (res_ok_inj hc)
      dsimp only at e; subst e; exact ⟨w1, w2⟩
    · obtain ⟨_, hc⟩ := ite_err_ok hc
      obtain ⟨b, _, hc⟩ := bind_ok hc
      have e := congrArg Prod.fst (res_ok_inj hc)
      dsimp only at e; subst e; exact ⟨sortedWF_bank w1 b, sharesOK_bank w2 b⟩
  · cases hc

/-- any predicate kept by every successful `collectFees` is kept by `claimRewards` -/
theorem claimRewards_fold {P : St → Prop} {sender : Addr}
    (hstep : ∀ s s' id c, P s → collectFees s sender id = .ok (s', c) → P s')
    {s s' : St} {ids : List Nat} {c : List (String × Int)} (h0 : P s)
    (h : claimRewards s sender ids = .ok (s', c)) : P s' := by
  unfold claimRewards at h
  split at h
  · cases h
  · have gen : ∀ (l : List Nat) (r : Res (St × List (String × Int))),
        (∀ st tot, r = .ok (st, tot) → P st) →
        ∀ s' c, l.foldl (fun (r : Res (St × List (String × Int))) id =>
          r.bind fun (st, tot) => (collectFees st sender id).bind fun (st', c) => .ok (st', addCoins tot c)) r = .ok (s', c) →
        P s' := by
      intro l
      induction l with
      | nil => intro r hr s' c hf; exact hr s' c hf
      | cons i is ih =>
        intro r hr s' c hf
        rw [List.foldl_cons] at hf
        refine ih _ ?_ s' c hf
        intro st tot hst
        obtain ⟨x, hx, hst⟩ := bind_ok hst
        obtain ⟨y, hy, hst⟩ := bind_ok hst
        have e := congrArg Prod.fst (res_ok_inj hst)
        dsimp only at e; subst e
        exact hstep x.1 y.1 i y.2 (hr x.1 x.2 hx) hy
    exact gen ids _ (fun st tot e => by
      have e' := congrArg Prod.fst (res_ok_inj e)
      dsimp only at e'; subst e'; exact h0) s' c h

theorem claimRewards_wf6 {s s' : St} {sender : Addr} {ids : List Nat} {c : List (String × Int)} (h : WF6 s)
    (hc : claimRewards s sender ids = .ok (s', c)) : WF6 s' :=
  claimRewards_fold (P := WF6) (fun s s' id c hs hcf => collectFees_wf6 hs hcf) h hc

/-! ### preservation: `allocateIncentive` -/

theorem allocateIncentive_wf6 {s s' : St} {pool : Nat} {sender : Addr} {coins : List (String × Int)} (h : WF6 s)
    (ha : allocateIncentive s pool sender coins = .ok s') : WF6 s' := by
  have hI := h.inv.core (allocateIncentive_core ha)
  suffices hh : SortedWF s' ∧ SharesOK s' from ⟨hI, hh.1, hh.2⟩
  unfold allocateIncentive at ha
  simp only [bind, pure] at ha
  cases hp : getPool s pool with
  | none => rw [hp] at ha; cases ha
  | some p =>
    rw [hp] at ha; simp only [ok_bind] at ha
    obtain ⟨_, ha⟩ := ite_err_ok ha
    cases hacc : getAccum s pool with
    | none => rw [hacc] at ha; cases ha
    | some a =>
      rw [hacc] at ha; simp only [ok_bind] at ha
      obtain ⟨_, ha⟩ := ite_err_ok ha
      obtain ⟨_, ha⟩ := ite_err_ok ha
      obtain ⟨b, _, ha⟩ := bind_ok ha
      obtain ⟨g, hg, ha⟩ := bind_ok ha
      have e := res_ok_inj ha
      subst e
      have hpl := getAccum_pool hacc
      constructor
      · exact sortedWF_setAccum (sortedWF_bank h.sorted b) { a with value := DecCoins.add a.value g }
          (add_sorted (h.sorted.of_getAccum hacc) (quoDecTruncate_ok hg).2.1)
      · exact sharesOK_setAccum (sharesOK_bank h.sh b) { a with value := DecCoins.add a.value g } a
          (by show getAccum _ a.pool = _; rw [hpl]; exact hacc) rfl


/-! ### `UpdatePosition` -/

theorem totalRewards_sorted {a : Accum} {ap : AccPos} {t : DecCoins} (hsu : Sorted ap.unclaimed)
    (h : totalRewards a ap = .ok t) : Sorted t := by
  unfold totalRewards at h
  split at h
  · have e := res_ok_inj h; subst e; exact sorted_nil
  · split at h
    · have e := res_ok_inj h; subst e; exact sorted_nil
    · obtain ⟨d, _, h⟩ := bind_ok h
      have e := res_ok_inj h; subst e; exact add_sorted hsu mulDec_sorted

/-- `SetAccumulatorPositionFeeAccumulator`, described: one accumulator-position write (shares += delta, sorted values)
    and one accumulator write (total shares += delta, value untouched) -/
theorem setAccumFee_effect {s s' : St} {pool : Nat} {lo hi : Int} {posId : Nat} {delta : Dec} (w : SortedWF s)
    (h : setAccumPositionFee s pool lo hi posId delta = .ok s') :
    ∃ (a : Accum) (x : AccPos) (a' : Accum), getAccum s pool = some a ∧ s' = setAccum (setAccPos s x) a' ∧ x.posId = posId ∧
      a'.pool = a.pool ∧ a'.value = a.value ∧ a'.totalShares.raw = a.totalShares.raw + delta.raw ∧
      Sorted x.perShare ∧ Sorted x.unclaimed ∧
      ((getAccPos s posId = none ∧ x.shares.raw = delta.raw) ∨
       (∃ ap, getAccPos s posId = some ap ∧ x.shares.raw = ap.shares.raw + delta.raw)) := by
  unfold setAccumPositionFee at h
  simp only [bind, pure] at h
  cases ha : getAccum s pool with
  | none => rw [ha] at h; cases h
  | some a =>
    rw [ha] at h; simp only [ok_bind] at h
    obtain ⟨o, ho, h⟩ := bind_ok h
    have hsa := w.of_getAccum ha
    have hso := outside_sorted w ho
    have hin := safeSub_sorted hsa hso
    cases hap : getAccPos s posId with
    | none =>
      rw [hap] at h; simp only at h
      obtain ⟨_, h⟩ := ite_err_ok h
      have e := res_ok_inj h
      exact ⟨a, ⟨posId, pool, delta, (DecCoins.safeSub a.value o).1, []⟩,
        { a with totalShares := Dec.add a.totalShares delta }, rfl, e.symm, rfl, rfl, rfl, rfl, hin, sorted_nil,
        Or.inl ⟨rfl, rfl⟩⟩
    | some ap =>
      rw [hap] at h; simp only at h
      have hid := getAccPos_id hap
      obtain ⟨hs1, hs2⟩ := w.of_getAccPos hap
      obtain ⟨_, h⟩ := ite_err_ok h
      rcases ite_ok h with ⟨_, h⟩ | ⟨_, h⟩
      · obtain ⟨_, h⟩ := ite_err_ok h
        obtain ⟨u, hu, h⟩ := bind_ok h
        have e := res_ok_inj h
        refine ⟨a, _, _, rfl, e.symm, hid, rfl, rfl, ?_, hin, totalRewards_sorted (ap := { ap with perShare := DecCoins.add ap.perShare o }) hs2 hu, Or.inr ⟨ap, rfl, ?_⟩⟩
        · show a.totalShares.raw - (-delta.raw) = _; omega
        · show ap.shares.raw - (-delta.raw) = _; omega
      · obtain ⟨u, hu, h⟩ := bind_ok h
        have e := res_ok_inj h
        exact ⟨a, _, _, rfl, e.symm, hid, rfl, rfl, rfl, hin, totalRewards_sorted (ap := { ap with perShare := DecCoins.add ap.perShare o }) hs2 hu, Or.inr ⟨ap, rfl, rfl⟩⟩

theorem getAccPos_congr {s s' : St} (h : s'.accPos = s.accPos) (id : Nat) : getAccPos s' id = getAccPos s id := by
  unfold getAccPos; rw [h]
theorem getAccum_congr {s s' : St} (h : s'.accums = s.accums) (pool : Nat) : getAccum s' pool = getAccum s pool := by
  unfold getAccum; rw [h]

/-- **`UpdatePosition` keeps `SortedWF` and `SharesOK`** (also on the intermediate states of `createPosition`, where the
    zero-liquidity placeholder is stored, and of `decreaseLiquidity`) -/
theorem updatePosition_wf {s s' : St} {pool : Nat} {lo hi : Int} {delta : Dec} {posId : Nat} {ab aq : Int} {loE hiE : Bool}
    {pos : Position}
    (h : updatePosition s pool lo hi delta posId = .ok (s', ab, aq, loE, hiE)) (hlh : lo ≠ hi)
    (hnd : (s.positions.map (·.id)).Nodup) (hq : getPosition s posId = some pos) (hpp : pos.pool = pool)
    (hidlt : ∀ x ∈ s.positions, x.id < s.nextPos)
    (w : SortedWF s) (sh : SharesOK s) : SortedWF s' ∧ SharesOK s' := by
  obtain ⟨s2, s4, p, pos0, tlo, thi, lt4, ut4, p4, h5, hp, hq0, hposs2, hposs4, hac4, hap4, hp4, _, _, _, _, _, _, _, _, hsw4⟩ :=
    updatePosition_s4 h hlh
  have e0 : pos0 = pos := by rw [hq] at hq0; exact (Option.some.inj hq0).symm
  subst e0
  obtain ⟨k1, k2, k3, k4, ⟨k5, _⟩, _⟩ := updatePosition_struct h hnd hq hlh
  have w4 := hsw4 w
  obtain ⟨a, x, a', ha, es, hxid, hapool, haval, hatot, hx1, hx2, hxsh⟩ := setAccumFee_effect w4 h5
  have hpid := getPosition_id hq
  have hposm : pos0 ∈ s.positions := List.mem_of_find?_eq_some hq
  have hapl := getAccum_pool ha
  have has : getAccum s pool = some a := by rw [← getAccum_congr hac4 pool]; exact ha
  have hgetap : ∀ id, getAccPos s' id = if id = posId then some x else getAccPos s id := by
    intro id
    rw [es, getAccPos_setAccum, getAccPos_setAccPos, hxid, getAccPos_congr hap4]
  have hposs' : s'.positions = (s3Of s2 posId pos0 delta).positions := by
    rw [es]; exact (setAccPos_frame s4 x).2.1.trans hposs4
  constructor
  · rw [es]
    exact sortedWF_setAccum (sortedWF_setAccPos w4 x hx1 hx2) a' (by rw [haval]; exact w4.of_getAccum ha)
  · refine ⟨?_, ?_, ?_⟩
    · intro q hq'
      rw [hgetap]
      rcases k2 q hq' with ⟨hm, hne⟩ | ⟨he, hpos⟩
      · rw [if_neg (by rw [← hpid] at hne ⊢; exact hne)]
        exact sh.shares q hm
      · have hqid : q.id = posId := by rw [he]; exact hpid
        rw [if_pos hqid]
        refine Or.inl ⟨x, rfl, ?_⟩
        have hql : q.liq.raw = pos0.liq.raw + delta.raw := by rw [he]; rfl
        rw [hql]
        rcases hxsh with ⟨hn, hx⟩ | ⟨ap, hsome, hx⟩
        · rw [getAccPos_congr hap4] at hn
          rcases sh.shares pos0 hposm with ⟨ap, e1, _⟩ | ⟨_, e2⟩
          · rw [hpid, hn] at e1; cases e1
          · omega
        · rw [getAccPos_congr hap4] at hsome
          rcases sh.shares pos0 hposm with ⟨ap', e1, e2⟩ | ⟨e1, _⟩
          · rw [hpid, hsome] at e1
            have := Option.some.inj e1; subst this; omega
          · rw [hpid, hsome] at e1; cases e1
    · intro pl acc hacc
      have hget2 : getPosition s2 posId = some pos0 := by rw [getPosition_congr hposs2]; exact hq
      have hnd2 : (s2.positions.map (·.id)).Nodup := by rw [hposs2]; exact hnd
      have hsum := sumLiq_s3Of (fun x => x.pool == pl) (fun _ _ => rfl) s2 posId pos0 delta hnd2 hget2
      rw [hposs', hsum, hposs2]
      rw [es, getAccum_setAccum] at hacc
      by_cases hpl : a'.pool = pl
      · rw [if_pos hpl] at hacc
        split at hacc
        · have e := Option.some.inj hacc; subst e
          have hplp : pool = pl := by rw [← hpl, hapool, hapl]
          subst hplp
          have hc : (pos0.pool == pool) = true := by simp [hpp]
          rw [hc, if_pos rfl, hatot, sh.total pool a has]
        · cases hacc
      · rw [if_neg hpl] at hacc
        rw [getAccum_setAccPos, getAccum_congr hac4] at hacc
        have hne : pos0.pool ≠ pl := by rw [hpp, ← hapl, ← hapool]; exact hpl
        have hc : (pos0.pool == pl) = false := by simpa using hne
        rw [hc]; simp only [Bool.false_eq_true, if_false, Int.add_zero]
        exact sh.total pl acc hacc
    · intro ap hap
      rw [k5]
      rw [es] at hap
      rcases mem_setAccPos (s := s4) hap with e | hm
      · subst e; rw [hxid, ← hpid]; exact hidlt pos0 hposm
      · rw [hap4] at hm; exact sh.accLt ap hm


/-! ### preservation: `createPosition` -/

theorem withFresh_acc (s1 : St) (sender : Addr) (pool : Nat) (lo hi : Int) :
    (withFresh s1 sender pool lo hi).accums = s1.accums ∧ (withFresh s1 sender pool lo hi).accPos = s1.accPos := by
  unfold withFresh setPosition; split <;> exact ⟨rfl, rfl⟩

theorem withFresh_get (s1 : St) (sender : Addr) (pool : Nat) (lo hi : Int) (hlt : ∀ x ∈ s1.positions, x.id < s1.nextPos) :
    getPosition (withFresh s1 sender pool lo hi) s1.nextPos = some ⟨s1.nextPos, pool, sender, lo, hi, Dec.zero⟩ := by
  unfold getPosition
  rw [withFresh_positions s1 sender pool lo hi hlt, List.find?_append]
  have : s1.positions.find? (fun x => x.id == s1.nextPos) = none := by
    rw [List.find?_eq_none]; intro x hx
    have := hlt x hx
    simp only [beq_iff_eq]; omega
  rw [this]; simp

theorem getAccPos_fresh {s : St} (sh : SharesOK s) : getAccPos s s.nextPos = none := by
  cases h : getAccPos s s.nextPos with
  | none => rfl
  | some ap =>
    have := sh.accLt ap (List.mem_of_find?_eq_some h)
    rw [getAccPos_id h] at this; omega

/-- the placeholder state of `createPosition` -/
theorem withFresh_wf {s1 : St} (w : SortedWF s1) (sh : SharesOK s1) (hlt : ∀ x ∈ s1.positions, x.id < s1.nextPos)
    (sender : Addr) (pool : Nat) (lo hi : Int) :
    SortedWF (withFresh s1 sender pool lo hi) ∧ SharesOK (withFresh s1 sender pool lo hi) := by
  obtain ⟨g1, g2⟩ := withFresh_acc s1 sender pool lo hi
  obtain ⟨f1, f2, f3, f4⟩ := withFresh_frame s1 sender pool lo hi
  have fp := withFresh_positions s1 sender pool lo hi hlt
  refine ⟨⟨?_, ?_, ?_⟩, ⟨?_, ?_, ?_⟩⟩
  · rw [g1]; exact w.accum
  · rw [f2]; exact w.ticks
  · rw [g2]; exact w.accPos
  · intro q hq
    rw [fp] at hq
    rw [getAccPos_congr g2]
    simp only [List.mem_append, List.mem_singleton] at hq
    rcases hq with hq | hq
    · exact sh.shares q hq
    · subst hq; exact Or.inr ⟨getAccPos_fresh sh, rfl⟩
  · intro pl a ha
    rw [getAccum_congr g1] at ha
    rw [fp, sumLiq_append, sh.total pl a ha]
    simp only [sumLiq]
    have z : Dec.zero.raw = 0 := rfl
    split <;> omega
  · intro ap hap
    rw [g2] at hap; rw [f4]
    have := sh.accLt ap hap; omega

theorem setPool_wf {s : St} (w : SortedWF s) (sh : SharesOK s) (p : Pool) : SortedWF (setPool s p) ∧ SharesOK (setPool s p) :=
  ⟨⟨w.accum, w.ticks, w.accPos⟩, ⟨sh.shares, sh.total, sh.accLt⟩⟩

theorem createPosition_wf6 {s s' : St} (h : WF6 s) {sender : Addr} {pool : Nat} {lo hi : Int} {dBase dQuote : Denom}
    {aBase aQuote minBase minQuote : Int} {out : CreatePosOut}
    (hc : createPosition s sender pool lo hi dBase aBase dQuote aQuote minBase minQuote = .ok (s', out)) : WF6 s' := by
  have hI := createPosition_inv_ok h.inv hc
  obtain ⟨p0, s1, delta, s3, ab, aq, loE, hiE, b2, hp, hct, hs1, hnz, hu, hs'⟩ := createPosition_inv hc
  have hlt : lo < hi := by
    unfold checkTicks at hct; simp only [Bool.and_eq_true, decide_eq_true_eq] at hct; exact hct.1.1
  have hpoolLt : pool < s.nextPool := h.inv.w.poolIdsLt pool (getPool_mem_ids hp)
  -- the state after the first-position initialisation of the pool record
  have h1 : WInv s1 ∧ SortedWF s1 ∧ SharesOK s1 ∧ s1.nextPool = s.nextPool := by
    rcases hs1 with ⟨_, e⟩ | ⟨hl, sp, t, _, e⟩
    · subst e; exact ⟨h.inv.w, h.sorted, h.sh, rfl⟩
    · subst e
      obtain ⟨a, b⟩ := setPool_wf h.sorted h.sh { p0 with sqrtP := sp, tick := t }
      exact ⟨(setPool_first_inv h.inv hp hl sp t).w, a, b, rfl⟩
  obtain ⟨hw1, w1, sh1, hnp⟩ := h1
  have hwF := withFresh_winv hw1 sender pool lo hi hlt (by rw [hnp]; exact hpoolLt)
  obtain ⟨wF, shF⟩ := withFresh_wf w1 sh1 hw1.idsLt sender pool lo hi
  have hget := withFresh_get s1 sender pool lo hi hw1.idsLt
  obtain ⟨w3, sh3⟩ := updatePosition_wf hu (by omega) hwF.idsNodup hget rfl hwF.idsLt wF shF
  subst hs'
  exact ⟨hI, sortedWF_bank w3 b2, sharesOK_bank sh3 b2⟩


/-! ### preservation: `decreaseLiquidity` / `increaseLiquidity` -/

theorem removeTick_wf {s : St} (w : SortedWF s) (sh : SharesOK s) (pool : Nat) (t : Int) :
    SortedWF (removeTick s pool t) ∧ SharesOK (removeTick s pool t) :=
  ⟨⟨w.accum, fun x hx => w.ticks x (List.mem_filter.mp hx).1, w.accPos⟩, ⟨sh.shares, sh.total, sh.accLt⟩⟩

theorem decreaseLiquidity_wf6 {s s' : St} (h : WF6 s) {sender : Addr} {posId : Nat} {liq : Dec} {ab aq : Int}
    (hd : decreaseLiquidity s sender posId liq = .ok (s', ab, aq)) : WF6 s' := by
  have hI := decreaseLiquidity_inv_ok h.inv hd
  obtain ⟨pos, p, s1, c, s2, ab0, aq0, loE, hiE, b2, hq, hn, hle, hp, hcf, hu, hs'⟩ := decreaseLiquidity_inv hd
  have h1 := collectFees_wf6 h hcf
  have hc := collectFees_core hcf
  have hq1 : getPosition s1 posId = some pos := by rw [getPosition_congr hc.2.1]; exact hq
  have hposm : pos ∈ s1.positions := List.mem_of_find?_eq_some hq1
  have hlt := (h1.inv.w.posWf pos hposm).2
  obtain ⟨w2, sh2⟩ := updatePosition_wf hu (by omega) h1.inv.w.idsNodup hq1 rfl h1.inv.w.idsLt h1.sorted h1.sh
  have w3 := sortedWF_bank w2 b2
  have sh3 := sharesOK_bank sh2 b2
  suffices hh : SortedWF s' ∧ SharesOK s' from ⟨hI, hh.1, hh.2⟩
  rw [hs']
  cases loE <;> cases hiE <;> simp only [if_true, Bool.false_eq_true, if_false]
  · exact ⟨w3, sh3⟩
  · exact removeTick_wf w3 sh3 _ _
  · exact removeTick_wf w3 sh3 _ _
  · obtain ⟨a, b⟩ := removeTick_wf w3 sh3 pos.pool pos.lower
    exact removeTick_wf a b _ _

theorem increaseLiquidity_wf6 {s s' : St} (h : WF6 s) {sender : Addr} {posId : Nat}
    {aBase aQuote minBase minQuote : Int} {out : CreatePosOut}
    (hi : increaseLiquidity s sender posId aBase aQuote minBase minQuote = .ok (s', out)) : WF6 s' := by
  unfold increaseLiquidity at hi
  simp only [bind, err_bind, ok_bind] at hi
  split at hi
  · obtain ⟨_, hi⟩ := ite_err_ok hi
    obtain ⟨_, hi⟩ := ite_err_ok hi
    obtain ⟨_, hi⟩ := ite_err_ok hi
    obtain ⟨x, hx, hi⟩ := bind_ok hi
    have h1 : WF6 x.1 := decreaseLiquidity_wf6 (s' := x.1) (ab := x.2.1) (aq := x.2.2) h hx
    split at hi
    · exact createPosition_wf6 h1 hi
    · cases hi
  · cases hi


/-! ### preservation: swaps -/

/-- what the swap loop keeps: sorted growth records of the ticks; accumulators, accumulator positions, positions and the
    id counter untouched -/
def LoopKeeps (s s' : St) : Prop :=
  (∀ t ∈ s'.ticks, Sorted t.feeGrowth) ∧ s'.accums = s.accums ∧ s'.accPos = s.accPos ∧ s'.positions = s.positions ∧
    s'.nextPos = s.nextPos

theorem setTick_sorted {s : St} (hs : ∀ t ∈ s.ticks, Sorted t.feeGrowth) (x : TickInfo) (hx : Sorted x.feeGrowth) :
    ∀ t ∈ (setTick s x).ticks, Sorted t.feeGrowth := by
  intro t ht
  rcases mem_insertTick (l := s.ticks) ht with e | hm
  · rw [e]; exact hx
  · exact hs t hm

theorem settleK_sorted {β : Type} {bfq : Bool} {lim fee : Dec} {tp : TickMath.TickParams} {accVal : DecCoins}
    {denomIn : Denom} {s : CL.St} {start tickPrice next : Dec} {ss2 : SwapState} {ti : TickInfo} {rest : List TickInfo}
    {K : CL.St × SwapState × List TickInfo → Res β} {x : β}
    (h : settleK bfq true lim fee tp accVal denomIn s start tickPrice next ss2 ti rest K = .ok x)
    (hsa : Sorted accVal) (hst : Sorted ti.feeGrowth) :
    ∃ s3 ss3 iter3, K (s3, ss3, iter3) = .ok x ∧
      (s3 = s ∨ ∃ g, Sorted g ∧ s3 = setTick s { ti with feeGrowth := g }) ∧ (iter3 = rest ∨ iter3 = ti :: rest) := by
  unfold settleK at h
  by_cases heq : (tickPrice == next) = true
  · rw [if_pos heq] at h
    obtain ⟨p, hp, hK⟩ := bind_ok h
    have hp' : crossTick s ss2 bfq lim fee ti accVal denomIn true = .ok (p.1, p.2) := hp
    obtain ⟨g, hg, e⟩ := crossTick_upd_shape hp'
    have hgs : Sorted g := by
      rw [(sub_ok hg).1]; exact safeSub_sorted (add_sorted hsa (sorted_single _)) hst
    exact ⟨p.1, p.2, rest, hK, Or.inr ⟨g, hgs, e⟩, Or.inl rfl⟩
  · rw [if_neg heq] at h
    by_cases hord : (if bfq = true then tickPrice.raw > next.raw else tickPrice.raw < next.raw)
    · rw [if_pos hord] at h; cases h
    · rw [if_neg hord] at h
      by_cases hmv : (!(start == next)) = true
      · rw [if_pos hmv] at h
        obtain ⟨t, _, hK⟩ := bind_ok h
        exact ⟨_, _, _, hK, Or.inl rfl, Or.inr rfl⟩
      · rw [if_neg hmv] at h
        exact ⟨_, _, _, h, Or.inl rfl, Or.inr rfl⟩

theorem swapLoop_keeps {exactIn bfq : Bool} {lim fee : Dec} {tp : TickMath.TickParams} {accVal : DecCoins}
    {denomIn : Denom} (hsa : Sorted accVal) :
    ∀ (fuel noProg : Nat) (s : CL.St) (ss : SwapState) (iter : List TickInfo) (s' : CL.St) (ss' : SwapState),
      (∀ t ∈ s.ticks, Sorted t.feeGrowth) → (∀ ti ∈ iter, Sorted ti.feeGrowth) →
      swapLoop exactIn bfq true lim fee tp accVal denomIn fuel noProg s ss iter = .ok (s', ss') → LoopKeeps s s' := by
  intro fuel
  induction fuel with
  | zero => intro noProg s ss iter s' ss' _ _ h; rw [swapLoop_zero] at h; cases h
  | succ fuel ih =>
    intro noProg s ss iter s' ss' hst hit h
    rw [swapLoop_succ_eq] at h
    split at h
    · have e := congrArg Prod.fst (res_ok_inj h)
      dsimp only at e; subst e
      exact ⟨hst, rfl, rfl, rfl, rfl⟩
    · cases iter with
      | nil => cases h
      | cons ti rest =>
        simp only [] at h
        obtain ⟨tickPrice, _, h⟩ := wrapTickK_ok h
        obtain ⟨r, _, h⟩ := bind_ok h
        split at h
        · cases h
        · obtain ⟨s3, ss3, iter3, hK, hs3, hi3⟩ := settleK_sorted h hsa (hit ti List.mem_cons_self)
          have hst3 : (∀ t ∈ s3.ticks, Sorted t.feeGrowth) ∧ s3.accums = s.accums ∧ s3.accPos = s.accPos ∧
              s3.positions = s.positions ∧ s3.nextPos = s.nextPos := by
            rcases hs3 with e | ⟨g, hg, e⟩
            · rw [e]; exact ⟨hst, rfl, rfl, rfl, rfl⟩
            · rw [e]; exact ⟨setTick_sorted hst _ hg, rfl, rfl, rfl, rfl⟩
          have hit3 : ∀ tj ∈ iter3, Sorted tj.feeGrowth := by
            rcases hi3 with e | e
            · rw [e]; exact fun tj hj => hit tj (List.mem_cons_of_mem _ hj)
            · rw [e]; exact hit
          simp only [] at hK
          have fin : ∀ np, swapLoop exactIn bfq true lim fee tp accVal denomIn fuel np s3 ss3 iter3 = .ok (s', ss') →
              LoopKeeps s s' := by
            intro np hrec
            obtain ⟨a, b, c, d, e⟩ := ih np s3 ss3 iter3 s' ss' hst3.1 hit3 hrec
            exact ⟨a, b.trans hst3.2.1, c.trans hst3.2.2.1, d.trans hst3.2.2.2.1, e.trans hst3.2.2.2.2⟩
          by_cases hz : (if exactIn = true then amtInOf exactIn r else amtOutOf exactIn r).isZero = true
          · rw [if_pos hz] at hK
            by_cases hn : noProg ≥ 100
            · rw [if_pos hn] at hK; cases hK
            · rw [if_neg hn] at hK; exact fin _ hK
          · rw [if_neg hz] at hK; exact fin _ hK

/-- `computeSwap` (accumulator updates on) followed by `updatePoolForSwap` keeps `SortedWF` and `SharesOK` -/
theorem swap_wf {exactIn : Bool} {s s1 s' : St} {sender : Addr} {pool : Nat} {din dout : Denom} {amount ain aout : Int}
    {fee mLimit : Dec} {o : SwapOut} {p : Pool} (w : SortedWF s) (sh : SharesOK s)
    (hc : computeSwap exactIn s pool din dout amount fee mLimit true = .ok (s1, o))
    (hu : updatePoolForSwap s1 p sender din ain dout aout o = .ok s') : SortedWF s' ∧ SharesOK s' := by
  obtain ⟨p', acc, lim, s0, ss, hp', hacc, hloop, hs1, _, _, _⟩ := C06Refine2.computeSwap_upd_inv hc
  have hsa : Sorted acc.value := w.of_getAccum hacc
  obtain ⟨k1, k2, k3, k4, k5⟩ := swapLoop_keeps hsa LOOP_FUEL 0 s (ss0Of p' amount) _ s0 ss w.ticks
    (fun ti hti => w.ticks ti (C06Refine2.tickIter_mem hti)) hloop
  have w0 : SortedWF s0 := ⟨by rw [k2]; exact w.accum, k1, by rw [k3]; exact w.accPos⟩
  have sh0 : SharesOK s0 := by
    refine ⟨?_, ?_, ?_⟩
    · intro q hq; rw [k4] at hq; rw [getAccPos_congr k3]; exact sh.shares q hq
    · intro pl a ha; rw [getAccum_congr k2] at ha; rw [k4]; exact sh.total pl a ha
    · intro ap hap; rw [k3] at hap; rw [k5]; exact sh.accLt ap hap
  have hacc0 : getAccum s0 pool = some acc := by rw [getAccum_congr k2]; exact hacc
  have hpl := getAccum_pool hacc
  have wA := sortedWF_setAccum w0 { acc with value := DecCoins.add acc.value [(din, ss.growthPerLiq)] }
    (add_sorted hsa (sorted_single _))
  have shA := sharesOK_setAccum sh0 { acc with value := DecCoins.add acc.value [(din, ss.growthPerLiq)] } acc
    (by show getAccum _ acc.pool = _; rw [hpl]; exact hacc0) rfl
  obtain ⟨b, hb⟩ := updatePoolForSwap_ok hu
  rw [hb, hs1]
  exact ⟨⟨wA.accum, wA.ticks, wA.accPos⟩, ⟨shA.shares, shA.total, shA.accLt⟩⟩

/-- `swapExactIn` keeps `WF6`; the `Inv` part under the boundary `C04Store.SwapBoundary` (its (H1') and (T)), the accrual
    parts unconditionally -/
theorem swapExactIn_wf6_partial {s s' : St} (h : WF6 s) {sender : Addr} {pool : Nat} {denomIn denomOut : Denom}
    {amount : Int} {feeEnabled : Bool} {out : Int}
    (hs : swapExactIn s sender pool denomIn amount denomOut feeEnabled = .ok (s', out))
    (hb : C04Store.SwapBoundary s s' pool) : WF6 s' := by
  have hI := (C04Store.swapExactIn_preserves_boundary_partial h.inv hs hb).1
  obtain ⟨p, s1, o, hp, hid, hx, _, _, _, hu⟩ := C03Pool.swapExactIn_inv hs
  obtain ⟨a, b⟩ := swap_wf h.sorted h.sh hx hu
  exact ⟨hI, a, b⟩

theorem swapExactOut_wf6_partial {s s' : St} (h : WF6 s) {sender : Addr} {pool : Nat} {denomIn denomOut : Denom}
    {amount : Int} {feeEnabled : Bool} {out : Int}
    (hs : swapExactOut s sender pool denomOut amount denomIn feeEnabled = .ok (s', out))
    (hb : C04Store.SwapBoundary s s' pool) : WF6 s' := by
  have hI := (C04Store.swapExactOut_preserves_boundary_partial h.inv hs hb).1
  obtain ⟨p, s1, o, hp, hid, hx, _, _, _, hu⟩ := C03Pool.swapExactOut_inv hs
  obtain ⟨a, b⟩ := swap_wf h.sorted h.sh hx hu
  exact ⟨hI, a, b⟩

/-- the accrual-specific parts of `WF6` survive every successful swap with NO boundary hypothesis -/
theorem swapExactIn_accrual_wf {s s' : St} (h : WF6 s) {sender : Addr} {pool : Nat} {denomIn denomOut : Denom}
    {amount : Int} {feeEnabled : Bool} {out : Int}
    (hs : swapExactIn s sender pool denomIn amount denomOut feeEnabled = .ok (s', out)) : SortedWF s' ∧ SharesOK s' := by
  obtain ⟨p, s1, o, hp, hid, hx, _, _, _, hu⟩ := C03Pool.swapExactIn_inv hs
  exact swap_wf h.sorted h.sh hx hu

theorem swapExactOut_accrual_wf {s s' : St} (h : WF6 s) {sender : Addr} {pool : Nat} {denomIn denomOut : Denom}
    {amount : Int} {feeEnabled : Bool} {out : Int}
    (hs : swapExactOut s sender pool denomOut amount denomIn feeEnabled = .ok (s', out)) : SortedWF s' ∧ SharesOK s' := by
  obtain ⟨p, s1, o, hp, hid, hx, _, _, _, hu⟩ := C03Pool.swapExactOut_inv hs
  exact swap_wf h.sorted h.sh hx hu


/-! ### whole histories, non-vacuity -/

theorem empty_wf6 (b : Bank) : WF6 ({ bank := b } : St) := by
  refine ⟨empty_inv b, ⟨?_, ?_, ?_⟩, ⟨?_, ?_, ?_⟩⟩
  · intro a ha; exact absurd ha List.not_mem_nil
  · intro a ha; exact absurd ha List.not_mem_nil
  · intro a ha; exact absurd ha List.not_mem_nil
  · intro a ha; exact absurd ha List.not_mem_nil
  · intro pl a ha; cases ha
  · intro a ha; exact absurd ha List.not_mem_nil

theorem commit_wf6 {α : Type} {s : St} {r : Res (St × α)} (h : WF6 s) (hr : ∀ s' a, r = .ok (s', a) → WF6 s') :
    WF6 (C04Store.commit s r) := by
  unfold C04Store.commit
  split
  · exact hr _ _ rfl
  · exact h

/-- every operation of `C04Store.Op` (any arguments; failed handlers are not committed) keeps `WF6`; for a successful swap
    the `Inv` component needs the side condition `C04Store.SwapSide'` (see `Props/C04Store.lean`), nothing else does -/
theorem run_wf6 {s : St} (h : WF6 s) (op : C04Store.Op) (hside : C04Store.SideOK s op) : WF6 (C04Store.run s op) := by
  cases op with
  | createPool b q f r o => exact createPool_wf6 h b q f r o
  | createPosition sd pl lo hi dB aB dQ aQ mB mQ => exact commit_wf6 h (fun s' a hh => createPosition_wf6 h hh)
  | increaseLiquidity sd id aB aQ mB mQ => exact commit_wf6 h (fun s' a hh => increaseLiquidity_wf6 h hh)
  | decreaseLiquidity sd id l => exact commit_wf6 h (fun s' a hh => decreaseLiquidity_wf6 (ab := a.1) (aq := a.2) h hh)
  | collectFees sd id => exact commit_wf6 h (fun s' a hh => collectFees_wf6 h hh)
  | claimRewards sd ids => exact commit_wf6 h (fun s' a hh => claimRewards_wf6 h hh)
  | allocateIncentive pl sd cs =>
    show WF6 (C04Store.commit1 s _)
    unfold C04Store.commit1
    split
    · exact allocateIncentive_wf6 h (by assumption)
    · exact h
  | swapExactIn sd pl dI a dO fe =>
    refine commit_wf6 h (fun s' out hh => ?_)
    obtain ⟨x, y⟩ := swapExactIn_accrual_wf h hh
    exact ⟨(C04Store.swapExactIn_preserves_partial h.inv hh (hside s' out hh)).1, x, y⟩
  | swapExactOut sd pl dO a dI fe =>
    refine commit_wf6 h (fun s' out hh => ?_)
    obtain ⟨x, y⟩ := swapExactOut_accrual_wf h hh
    exact ⟨(C04Store.swapExactOut_preserves_partial h.inv hh (hside s' out hh)).1, x, y⟩

/-- FULL statement (not proved): `C04Store.Reachable s → WF6 s`.  Proved: for every store reachable by any list of
    operations in which every successful swap satisfies `SwapSide'` (implied by `SwapBoundary`). -/
theorem wf6_reachable_partial {s : St} (h : C04Store.ReachableP s) : WF6 s := by
  induction h with
  | init b => exact empty_wf6 b
  | step op _ hside ih => exact run_wf6 ih op hside

/-- no side condition at all for histories without swaps -/
theorem wf6_reachable_noSwap {s : St} (h : C04Store.ReachableNoSwap s) : WF6 s :=
  wf6_reachable_partial (C04Store.reachableP_of_noSwap h)

/-- non-vacuity: a store with one pool and two overlapping positions (`C04Store.h3`), the same after three withdrawals
    (`h5`: one position left), and after a swap (`h3s`) satisfy `WF6` -/
example : WF6 C04Store.h3 ∧ C04Store.h3.positions.length = 2 ∧ C04Store.h3.accPos.length = 2 :=
  ⟨wf6_reachable_noSwap C04Store.h3_reachable, by decide +kernel, by decide +kernel⟩
example : WF6 C04Store.h5 := wf6_reachable_noSwap C04Store.h5_reachable


/-! ## 2./4. towards the message-level refinements: `claim_refines` with its store hypotheses discharged -/

/-- the accrual invariant does not see the split of the fee account's balance into `recv − paid` -/
theorem Inv_obsEq {x y : ASt} (h : ObsEq x y) (hy : CLAccrual.Inv y) : CLAccrual.Inv x := by
  obtain ⟨h1, h2, h3, h4, h5, h6, h7, h8, h9⟩ := h
  cases x with
  | mk G fo cur gross net active pos recv paid k =>
  cases y with
  | mk G' fo' cur' gross' net' active' pos' recv' paid' k' =>
  simp only at h1 h2 h3 h4 h5 h6 h7 h8 h9
  subst h1; subst h2; subst h3; subst h4; subst h5; subst h6; subst h7; subst h9
  refine ⟨hy.wf, hy.gross_eq, hy.net_eq, hy.active_eq, ?_, hy.k_nonneg⟩
  have hb := hy.backed
  have e : (recv - paid) * PREC = (recv' - paid') * PREC := by rw [h8]
  rw [Int.sub_mul, Int.sub_mul] at e
  have hs : CLAccrual.sumBy (CLAccrual.owed ⟨G, fo, cur, gross, net, active, pos, recv, paid, k⟩) pos =
      CLAccrual.sumBy (CLAccrual.owed ⟨G, fo, cur, gross, net, active, pos, recv', paid', k⟩) pos := rfl
  show 2 * (CLAccrual.sumBy (CLAccrual.owed ⟨G, fo, cur, gross, net, active, pos, recv, paid, k⟩) pos + paid * PREC)
      ≤ 2 * (recv * PREC) + k * PREC
  rw [hs]
  have hb' : 2 * (CLAccrual.sumBy (CLAccrual.owed ⟨G, fo, cur, gross, net, active, pos, recv', paid', k⟩) pos + paid' * PREC)
      ≤ 2 * (recv' * PREC) + k * PREC := hb
  omega

/-- the record of the abstraction at the store index of a position -/
theorem abs_pos_at {s : St} {pool : Nat} {denom : String} {k : Int} {a : ASt} {i : Nat} {pos : Position}
    (habs : CLAccrual.absOf s pool denom k = some a) (hi : (poolPositions s pool)[i]? = some pos) :
    a.pos[i]? = some (posOf s denom pos) := by
  obtain ⟨p, acc, _, _, ea⟩ := absOf_some habs
  rw [ea]
  show ((poolPositions s pool).map (posOf s denom))[i]? = _
  rw [List.getElem?_map, hi]; rfl

/-- **`claim_refines` with every store-side hypothesis discharged by `WF6`** and the abstraction-side one (`hck`) by the
    accrual invariant of the abstraction; the well-formedness and the accrual invariant (at every denom) are
    re-established for the state after, so the statement can be iterated (`claimRewards`, `decreaseLiquidity`). -/
theorem claim_refines_wf {s s' : St} {sender : Addr} {posId : Nat} {claimed : List (String × Int)} {pool : Nat}
    {denom : String} {k : Int} {a : ASt} {i : Nat} {pos : Position}
    (hw : WF6 s)
    (h : collectFees s sender posId = .ok (s', claimed))
    (habs : CLAccrual.absOf s pool denom k = some a)
    (hi : (poolPositions s pool)[i]? = some pos) (hid : pos.id = posId)
    (hInv : ∀ d' b, CLAccrual.absOf s pool d' k = some b → CLAccrual.Inv b)
    (hsender : sender ≠ feesAddr pool) :
    (∃ a', CLAccrual.absOf s' pool denom (k + 1) = some a' ∧ ObsEq a' (CLAccrual.step a (.claim i)) ∧
      coinAmt claimed denom = CLAccrual.claimPay a i ∧
      s'.bank.bal (feesAddr pool) denom = s.bank.bal (feesAddr pool) denom - CLAccrual.claimPay a i ∧
      s'.bank.bal sender denom = s.bank.bal sender denom + CLAccrual.claimPay a i ∧
      (∀ j, j ≠ i → a'.pos[j]? = a.pos[j]?)) ∧
    s'.positions = s.positions ∧ s'.ticks = s.ticks ∧ s'.pools = s.pools ∧
    WF6 s' ∧ (∀ d' b', CLAccrual.absOf s' pool d' (k + 1) = some b' → CLAccrual.Inv b') := by
  have hmem := (mem_poolPositions.mp (List.mem_of_getElem? hi)).1
  have hpool : pos.pool = pool := (mem_poolPositions.mp (List.mem_of_getElem? hi)).2
  obtain ⟨ap, hap, hsh, hshpos⟩ := hw.shares hmem
  have hticks : (findTick s pool pos.lower).isSome ∧ (findTick s pool pos.upper).isSome := by
    rw [← hpool]; exact hw.ticks_stored hmem
  have hguard : ∀ d' b, CLAccrual.absOf s pool d' k = some b → (CLAccrual.Op.claim i).guard b := by
    intro d' b hb
    refine ⟨posOf s d' pos, abs_pos_at hb hi, ?_⟩
    rw [posOf_some hap]; exact hshpos
  have hck : ∀ d' b, CLAccrual.absOf s pool d' k = some b → ∀ p, b.pos[i]? = some p → 0 < p.s →
      p.c ≤ CLAccrual.inside b p.lo p.hi := by
    intro d' b hb p hp hs
    exact ((hInv d' b hb).wf p (List.mem_of_getElem? hp)).2.2.2 hs
  have key : ∀ d' b, CLAccrual.absOf s pool d' k = some b →
      ∃ a', CLAccrual.absOf s' pool d' (k + 1) = some a' ∧ ObsEq a' (CLAccrual.step b (.claim i)) ∧
      coinAmt claimed d' = CLAccrual.claimPay b i ∧
      s'.bank.bal (feesAddr pool) d' = s.bank.bal (feesAddr pool) d' - CLAccrual.claimPay b i ∧
      s'.bank.bal sender d' = s.bank.bal sender d' + CLAccrual.claimPay b i ∧
      (∀ j, j ≠ i → a'.pos[j]? = b.pos[j]?) ∧
      s'.positions = s.positions ∧ s'.ticks = s.ticks ∧ s'.pools = s.pools :=
    fun d' b hb => claim_refines h hb hi hid hw.ids_nodup hw.sorted hticks (hguard d' b hb) hck
      (hw.totalShares_abs hb) hsender
  obtain ⟨a', e1, e2, e3, e4, e5, e6, e7, e8, e9⟩ := key denom a habs
  refine ⟨⟨a', e1, e2, e3, e4, e5, e6⟩, e7, e8, e9, collectFees_wf6 hw h, ?_⟩
  intro d' b' hb'
  -- the abstraction before, at denom d' (same pool and accumulator records exist)
  obtain ⟨p0, acc0, hp0, hacc0, _⟩ := absOf_some habs
  have hb := absOf_eq (denom := d') (k := k) hp0 hacc0
  obtain ⟨a'', f1, f2, _⟩ := key d' _ hb
  rw [f1] at hb'
  have e := Option.some.inj hb'; subst e
  exact Inv_obsEq f2 (Sunrise.C06A.inv_step _ _ (hInv d' _ hb) (hguard d' _ hb))


/-! ## 4. `claimRewards` = the fold of abstract claims (positions of ONE pool) -/

theorem ObsEq.trans {x y z : ASt} (h1 : ObsEq x y) (h2 : ObsEq y z) : ObsEq x z := by
  obtain ⟨a1, a2, a3, a4, a5, a6, a7, a8, a9⟩ := h1
  obtain ⟨b1, b2, b3, b4, b5, b6, b7, b8, b9⟩ := h2
  exact ⟨a1.trans b1, a2.trans b2, a3.trans b3, a4.trans b4, a5.trans b5, a6.trans b6, a7.trans b7, a8.trans b8, a9.trans b9⟩

/-- the abstract `claim` respects `ObsEq` (it never reads `recv` / `paid`, and adds the payment to `paid`) -/
theorem ObsEq_step_claim {x y : ASt} (h : ObsEq x y) (i : Nat) :
    ObsEq (CLAccrual.step x (.claim i)) (CLAccrual.step y (.claim i)) := by
  obtain ⟨h1, h2, h3, h4, h5, h6, h7, h8, h9⟩ := h
  cases x with
  | mk G fo cur gross net active pos recv paid k =>
  cases y with
  | mk G' fo' cur' gross' net' active' pos' recv' paid' k' =>
  simp only at h1 h2 h3 h4 h5 h6 h7 h8 h9
  subst h1; subst h2; subst h3; subst h4; subst h5; subst h6; subst h7; subst h9
  cases hp : pos[i]? with
  | none =>
    simp only [CLAccrual.step, hp]
    exact ⟨rfl, rfl, rfl, rfl, rfl, rfl, rfl, h8, rfl⟩
  | some p =>
    simp only [CLAccrual.step, hp]
    refine ⟨rfl, rfl, rfl, rfl, rfl, rfl, rfl, ?_, rfl⟩
    show recv - (paid + _) = recv' - (paid' + _)
    have e : CLAccrual.rewards ⟨G, fo, cur, gross, net, active, pos, recv, paid, k⟩ p =
        CLAccrual.rewards ⟨G, fo, cur, gross, net, active, pos, recv', paid', k⟩ p := rfl
    rw [e]; omega

theorem ObsEq_fold_claims (is : List Nat) : ∀ {x y : ASt}, ObsEq x y →
    ObsEq ((is.map CLAccrual.Op.claim).foldl CLAccrual.step x) ((is.map CLAccrual.Op.claim).foldl CLAccrual.step y) := by
  induction is with
  | nil => intro x y h; exact h
  | cons i is ih => intro x y h; exact ih (ObsEq_step_claim h i)

/-- the fold step of `claimRewards` -/
def claimStep (sender : Addr) (r : Res (St × List (String × Int))) (id : Nat) : Res (St × List (String × Int)) :=
  r.bind fun (st, tot) => (collectFees st sender id).bind fun (st', c) => .ok (st', addCoins tot c)

theorem claimFold_err (sender : Addr) (ids : List Nat) (e : String) :
    ids.foldl (claimStep sender) (.err e) = .err e := by
  induction ids with
  | nil => rfl
  | cons i is ih => exact ih
theorem claimFold_panic (sender : Addr) (ids : List Nat) (e : PanicKind) :
    ids.foldl (claimStep sender) (.panic e) = .panic e := by
  induction ids with
  | nil => rfl
  | cons i is ih => exact ih

/-- the position with id `id` is stored in pool `pool` at index `i` of the abstraction's list -/
def AtIndex (s : St) (pool : Nat) (id i : Nat) : Prop := ∃ pos, (poolPositions s pool)[i]? = some pos ∧ pos.id = id

theorem claims_fold (sender : Addr) (pool : Nat) (denom : String) (hsender : sender ≠ feesAddr pool) :
    ∀ (ids idxs : List Nat) (s0 s : St) (tot : List (String × Int)) (k : Int) (a : ASt),
      List.Forall₂ (AtIndex s0 pool) ids idxs → s.positions = s0.positions → WF6 s → CLAccrual.absOf s pool denom k = some a →
      (∀ d' b, CLAccrual.absOf s pool d' k = some b → CLAccrual.Inv b) →
      ∀ s' c, ids.foldl (claimStep sender) (.ok (s, tot)) = .ok (s', c) →
      ∃ a', CLAccrual.absOf s' pool denom (k + ids.length) = some a' ∧
        ObsEq a' ((idxs.map CLAccrual.Op.claim).foldl CLAccrual.step a) ∧ WF6 s' ∧
        (∀ d' b, CLAccrual.absOf s' pool d' (k + ids.length) = some b → CLAccrual.Inv b) ∧
        s'.positions = s.positions ∧ s'.ticks = s.ticks ∧ s'.pools = s.pools := by
  intro ids
  induction ids with
  | nil =>
    intro idxs s0 s tot k a hf hps hw habs hInv s' c h
    cases hf
    have e := congrArg Prod.fst (res_ok_inj h)
    dsimp only at e; subst e
    have hk0 : k + ((([] : List Nat).length : Nat) : Int) = k := by simp
    rw [hk0]
    exact ⟨a, habs, ObsEq.refl _, hw, hInv, rfl, rfl, rfl⟩
  | cons id ids ih =>
    intro idxs s0 s tot k a hf hps hw habs hInv s' c h
    cases hf with
    | cons hhead htail =>
    rename_i i is
    rw [List.foldl_cons] at h
    cases hcf : collectFees s sender id with
    | err e =>
      have : claimStep sender (.ok (s, tot)) id = .err e := by unfold claimStep; simp only [ok_bind]; rw [hcf]; rfl
      rw [this, claimFold_err] at h; cases h
    | panic e =>
      have : claimStep sender (.ok (s, tot)) id = .panic e := by unfold claimStep; simp only [ok_bind]; rw [hcf]; rfl
      rw [this, claimFold_panic] at h; cases h
    | ok r =>
      have : claimStep sender (.ok (s, tot)) id = .ok (r.1, addCoins tot r.2) := by
        unfold claimStep; simp only [ok_bind]; rw [hcf]; rfl
      rw [this] at h
      obtain ⟨pos, hi, hid⟩ := hhead
      rw [← poolPositions_congr hps] at hi
      obtain ⟨⟨a1, e1, e2, _⟩, e7, e8, e9, hw1, hInv1⟩ :=
        claim_refines_wf (s' := r.1) (claimed := r.2) hw hcf habs hi hid hInv hsender
      obtain ⟨a', g1, g2, g3, g4, g5, g6, g7⟩ :=
        ih is s0 r.1 (addCoins tot r.2) (k + 1) a1 htail (e7.trans hps) hw1 e1 hInv1 s' c h
      have hk : k + 1 + (ids.length : Int) = k + ((id :: ids).length : Int) := by
        simp only [List.length_cons, Int.natCast_add, Int.natCast_one]; omega
      rw [hk] at g1 g4
      refine ⟨a', g1, ?_, g3, g4, g5.trans e7, g6.trans e8, g7.trans e9⟩
      show ObsEq a' ((is.map CLAccrual.Op.claim).foldl CLAccrual.step (CLAccrual.step a (.claim i)))
      exact ObsEq.trans g2 (ObsEq_fold_claims is e2)

/-- **4. `claimRewards_refines_partial`.**  FULL statement (not proved): the same for position ids of ANY pools (the
    claims of the other pools' positions are invisible to `absOf · pool denom`; that frame lemma is missing).
    Proved: a successful `claimRewards` whose ids are positions of ONE pool (`ids[j]` stored at index `idxs[j]` of the
    pool's position list, repetitions allowed) is, on the abstraction, the fold of the abstract `claim idxs[j]`, up to the
    split of the fee account's balance into `recv − paid` (`ObsEq`); `WF6` and the accrual invariant of the abstraction
    (every denom) hold again afterwards; positions, ticks and pool records are untouched. -/
theorem claimRewards_refines_partial {s s' : St} {sender : Addr} {ids idxs : List Nat} {c : List (String × Int)}
    {pool : Nat} {denom : String} {k : Int} {a : ASt}
    (hw : WF6 s) (h : claimRewards s sender ids = .ok (s', c))
    (habs : CLAccrual.absOf s pool denom k = some a)
    (hidx : List.Forall₂ (AtIndex s pool) ids idxs)
    (hInv : ∀ d' b, CLAccrual.absOf s pool d' k = some b → CLAccrual.Inv b)
    (hsender : sender ≠ feesAddr pool) :
    ∃ a', CLAccrual.absOf s' pool denom (k + ids.length) = some a' ∧
      ObsEq a' ((idxs.map CLAccrual.Op.claim).foldl CLAccrual.step a) ∧ WF6 s' ∧
      (∀ d' b, CLAccrual.absOf s' pool d' (k + ids.length) = some b → CLAccrual.Inv b) ∧
      s'.positions = s.positions ∧ s'.ticks = s.ticks ∧ s'.pools = s.pools := by
  unfold claimRewards at h
  split at h
  · cases h
  · exact claims_fold sender pool denom hsender ids idxs s s [] k a hidx rfl hw habs hInv s' c h


/-! ## 2. (partial) the `UpdatePosition` step of `decreaseLiquidity` with its store hypotheses discharged -/

/-- **`change_refines` with every store-side hypothesis discharged by `WF6`** (and `hck` / the guard by the accrual
    invariant of the abstraction and `shares = liquidity`): `UpdatePosition` with `delta` on the stored position `pos`
    (index `i`), which keeps liquidity, is the abstract `change i delta`; `SortedWF` and `SharesOK` hold afterwards.
    In `decreaseLiquidity` this is applied to the state after the claim (`claim_refines_wf` supplies `WF6` and `hInv`
    there) with `delta = −liq`. -/
theorem change_refines_wf {s s' : St} {pool : Nat} {delta : Dec} {posId : Nat} {ab aq : Int} {loE hiE : Bool}
    {denom : String} {k : Int} {a : ASt} {i : Nat} {pos : Position}
    (hw : WF6 s)
    (h : updatePosition s pool pos.lower pos.upper delta posId = .ok (s', ab, aq, loE, hiE))
    (habs : CLAccrual.absOf s pool denom k = some a)
    (hidx : (poolPositions s pool)[i]? = some pos) (hid : pos.id = posId)
    (hInv : ∀ d' b, CLAccrual.absOf s pool d' k = some b → CLAccrual.Inv b)
    (hge : 0 ≤ pos.liq.raw + delta.raw) (hkeep : pos.liq.raw + delta.raw ≠ 0) :
    CLAccrual.absOf s' pool denom (k + 1) = some (CLAccrual.step a (.change i delta.raw)) ∧
      (CLAccrual.Op.change i delta.raw).guard a ∧
      (∀ acc, getAccum s pool = some acc →
        ∃ acc', getAccum s' pool = some acc' ∧ acc'.totalShares.raw = acc.totalShares.raw + delta.raw) ∧
      s'.bank = s.bank ∧ SortedWF s' ∧ SharesOK s' := by
  have hmem := (mem_poolPositions.mp (List.mem_of_getElem? hidx)).1
  have hpool : pos.pool = pool := (mem_poolPositions.mp (List.mem_of_getElem? hidx)).2
  obtain ⟨ap, hap, hsh, hshpos⟩ := hw.shares hmem
  have hlt := (hw.inv.w.posWf pos hmem).2
  have hticks : (findTick s pool pos.lower).isSome ∧ (findTick s pool pos.upper).isSome := by
    rw [← hpool]; exact hw.ticks_stored hmem
  have hguard : (CLAccrual.Op.change i delta.raw).guard a := by
    refine ⟨posOf s denom pos, abs_pos_at habs hidx, ?_, ?_⟩
    · rw [posOf_some hap]; exact hshpos
    · rw [posOf_some hap]; show 0 ≤ ap.shares.raw + delta.raw; omega
  have hck : ∀ d' b, CLAccrual.absOf s pool d' k = some b → ∀ p, b.pos[i]? = some p → 0 < p.s →
      p.c ≤ CLAccrual.inside b p.lo p.hi := by
    intro d' b hb p hp hs
    exact ((hInv d' b hb).wf p (List.mem_of_getElem? hp)).2.2.2 hs
  have hgetpos : getPosition s posId = some pos := by rw [← hid]; exact getPosition_of_mem hw.ids_nodup hmem
  obtain ⟨r1, r2, r3⟩ := change_refines h habs hidx hid rfl rfl (by omega) hw.ids_nodup hw.sorted hticks
    (by rw [← hid]; exact hap) hguard hkeep hck
  obtain ⟨w', sh'⟩ := updatePosition_wf h (by omega) hw.ids_nodup hgetpos hpool hw.inv.w.idsLt hw.sorted hw.sh
  exact ⟨r1, hguard, r2, r3, w', sh'⟩


/-- the abstract `change` respects `ObsEq` (it neither reads nor writes `recv` / `paid`) -/
theorem ObsEq_step_change {x y : ASt} (h : ObsEq x y) (i : Nat) (δ : Int) :
    ObsEq (CLAccrual.step x (.change i δ)) (CLAccrual.step y (.change i δ)) := by
  obtain ⟨h1, h2, h3, h4, h5, h6, h7, h8, h9⟩ := h
  cases x with
  | mk G fo cur gross net active pos recv paid k =>
  cases y with
  | mk G' fo' cur' gross' net' active' pos' recv' paid' k' =>
  simp only at h1 h2 h3 h4 h5 h6 h7 h8 h9
  subst h1; subst h2; subst h3; subst h4; subst h5; subst h6; subst h7; subst h9
  cases hp : pos[i]? with
  | none =>
    simp only [CLAccrual.step, hp]
    exact ⟨rfl, rfl, rfl, rfl, rfl, rfl, rfl, h8, rfl⟩
  | some p =>
    simp only [CLAccrual.step, hp]
    exact ⟨rfl, rfl, rfl, rfl, rfl, rfl, rfl, h8, rfl⟩

/-- **2. `decreaseLiquidity_refines_partial`.**  FULL statement (not proved): `absOf s' pool denom (k+2)` of the state
    AFTER the message is `ObsEq` (up to the growth outside of ticks with zero gross liquidity) to
    `step (step a (claim i)) (change i (−liq))`, followed by dropping record `i` when the whole liquidity is withdrawn.
    Proved (case: the position keeps liquidity, `liq < pos.liq`): a successful `decreaseLiquidity` is `collectFees` (state
    `s1`) then `updatePosition` with `−liq` (state `s2`) then bank transfers and removal of ticks flagged empty (`s'` is
    given by the displayed equation); the abstraction of `s1` is the abstract `claim i` of the abstraction of `s`
    (`ObsEq`), the abstraction of `s2` is EXACTLY `change i (−liq)` of the abstraction of `s1`, hence `ObsEq` to
    `step (step a (claim i)) (change i (−liq))`; both abstract guards hold.
    MISSING: (a) the two bank transfers leave the fee account alone (needs `poolAddr p.id ≠ feesAddr pool`, a fact about the
    address strings, and `sender ≠ feesAddr pool`); (b) removal of a tick flagged empty changes `absOf` only in `fo` at that
    tick, whose gross is 0 (`updatePosition_struct`: flag ↔ gross = net = 0), which no abstract operation reads before
    `initFo` resets it; (c) the full-withdrawal case (`withdraw_refines` + `Inv_dropDead`, pool keeps another position). -/
theorem decreaseLiquidity_refines_partial {s s' : St} {sender : Addr} {posId : Nat} {liq : Dec} {ab aq : Int}
    {pool : Nat} {denom : String} {k : Int} {a : ASt} {i : Nat} {pos : Position}
    (hw : WF6 s)
    (h : decreaseLiquidity s sender posId liq = .ok (s', ab, aq))
    (habs : CLAccrual.absOf s pool denom k = some a)
    (hidx : (poolPositions s pool)[i]? = some pos) (hid : pos.id = posId)
    (hInv : ∀ d' b, CLAccrual.absOf s pool d' k = some b → CLAccrual.Inv b)
    (hsender : sender ≠ feesAddr pool)
    (hkeep : liq.raw ≠ pos.liq.raw) :
    ∃ s1 c s2 ab0 aq0 loE hiE b2 a1,
      collectFees s sender posId = .ok (s1, c) ∧
      updatePosition s1 pool pos.lower pos.upper (Dec.neg liq) posId = .ok (s2, ab0, aq0, loE, hiE) ∧
      s' = (if hiE then removeTick (if loE then removeTick { s2 with bank := b2 } pool pos.lower else { s2 with bank := b2 })
                pool pos.upper
            else (if loE then removeTick { s2 with bank := b2 } pool pos.lower else { s2 with bank := b2 })) ∧
      (CLAccrual.Op.claim i).guard a ∧
      CLAccrual.absOf s1 pool denom (k + 1) = some a1 ∧ ObsEq a1 (CLAccrual.step a (.claim i)) ∧
      (CLAccrual.Op.change i (-liq.raw)).guard a1 ∧
      CLAccrual.absOf s2 pool denom (k + 1 + 1) = some (CLAccrual.step a1 (.change i (-liq.raw))) ∧
      ObsEq (CLAccrual.step a1 (.change i (-liq.raw)))
        (CLAccrual.step (CLAccrual.step a (.claim i)) (.change i (-liq.raw))) ∧
      s2.bank = s1.bank ∧ SortedWF s2 ∧ SharesOK s2 ∧ WF6 s' := by
  have hmem := (mem_poolPositions.mp (List.mem_of_getElem? hidx)).1
  have hpool : pos.pool = pool := (mem_poolPositions.mp (List.mem_of_getElem? hidx)).2
  subst hpool
  have hgetpos : getPosition s posId = some pos := by rw [← hid]; exact getPosition_of_mem hw.ids_nodup hmem
  have hw' := decreaseLiquidity_wf6 hw h
  obtain ⟨pos', p, s1, c, s2, ab0, aq0, loE, hiE, b2, hq, hn, hle, hp, hcf, hu, hs'⟩ := decreaseLiquidity_inv h
  have e : pos' = pos := by rw [hgetpos] at hq; exact (Option.some.inj hq).symm
  subst e
  obtain ⟨ap, hap, hsh, hshpos⟩ := hw.shares hmem
  have hg1 : (CLAccrual.Op.claim i).guard a := ⟨posOf s denom pos', abs_pos_at habs hidx, by rw [posOf_some hap]; exact hshpos⟩
  obtain ⟨⟨a1, e1, e2, _⟩, e7, e8, e9, hw1, hInv1⟩ := claim_refines_wf hw hcf habs hidx hid hInv hsender
  have hidx1 : (poolPositions s1 pos'.pool)[i]? = some pos' := by rw [poolPositions_congr e7]; exact hidx
  have hd : (Dec.neg liq).raw = -liq.raw := rfl
  obtain ⟨r1, r2, _, r4, r5, r6⟩ := change_refines_wf hw1 hu e1 hidx1 hid hInv1 (by rw [hd]; omega) (by rw [hd]; omega)
  rw [hd] at r1 r2
  exact ⟨s1, c, s2, ab0, aq0, loE, hiE, b2, a1, hcf, hu, hs', hg1, e1, e2, r2, r1, ObsEq_step_change e2 i _, r4, r5, r6, hw'⟩


/-! ## the structural clauses of `CLAccrual.Inv` for the abstraction of a `WF6` store; non-vacuity of `hInv` -/

theorem sumBy_pos (s : St) (d : String) (pool : Nat) (φ : Int → Int → Bool) : ∀ (l : List Position),
    (∀ q ∈ l, ∃ ap, getAccPos s q.id = some ap ∧ ap.shares.raw = q.liq.raw) →
    CLAccrual.sumBy (fun p => if φ p.lo p.hi then p.s else 0) ((l.filter (·.pool == pool)).map (posOf s d)) =
      sumLiq (fun x => x.pool == pool && φ x.lower x.upper) l := by
  intro l
  induction l with
  | nil => intro _; rfl
  | cons x xs ih =>
    intro h
    have ih' := ih (fun q hq => h q (List.mem_cons_of_mem _ hq))
    obtain ⟨ap, h1, h2⟩ := h x List.mem_cons_self
    unfold sumLiq
    by_cases hx : (x.pool == pool) = true
    · simp only [List.filter_cons, hx, if_true, List.map_cons, CLAccrual.sumBy, Bool.true_and]
      rw [ih', posOf_some h1]; simp only [h2]
    · have hx' : (x.pool == pool) = false := by simpa using hx
      simp only [List.filter_cons, hx', Bool.false_eq_true, if_false, Bool.false_and]
      rw [ih']; omega

/-- gross / net / active-liquidity clauses and the sign / order clauses of `CLAccrual.Inv`, for the abstraction of ANY
    `WF6` store (from `C04StoreL.Sums` and shares = liquidity) -/
theorem abs_struct_of_wf6 {s : St} (hw : WF6 s) {pool : Nat} {d : String} {k : Int} {b : ASt}
    (hb : CLAccrual.absOf s pool d k = some b) :
    (∀ p ∈ b.pos, 0 ≤ p.s ∧ p.lo < p.hi) ∧
    (∀ t, b.gross t = CLAccrual.sumBy (fun p => (if p.lo = t then p.s else 0) + (if p.hi = t then p.s else 0)) b.pos) ∧
    (∀ t, b.net t = CLAccrual.sumBy (fun p => (if p.lo = t then p.s else 0) - (if p.hi = t then p.s else 0)) b.pos) ∧
    b.active = CLAccrual.sumBy (fun p => if CLAccrual.inR b.cur p then p.s else 0) b.pos := by
  obtain ⟨p, acc, hp, hacc, ea⟩ := absOf_some hb
  have hsh : ∀ q ∈ s.positions, ∃ ap, getAccPos s q.id = some ap ∧ ap.shares.raw = q.liq.raw := by
    intro q hq; obtain ⟨ap, h1, h2, _⟩ := hw.shares hq; exact ⟨ap, h1, h2⟩
  have hpos : b.pos = (s.positions.filter (·.pool == pool)).map (posOf s d) := by rw [ea]; rfl
  have S := hw.inv.w.sums pool
  have e1 := fun t => sumBy_pos s d pool (fun lo _ => decide (lo = t)) s.positions hsh
  have e2 := fun t => sumBy_pos s d pool (fun _ hi => decide (hi = t)) s.positions hsh
  refine ⟨?_, ?_, ?_, ?_⟩
  · intro x hx
    rw [hpos] at hx
    obtain ⟨q, hq, e⟩ := List.mem_map.mp hx
    have hm := (List.mem_filter.mp hq).1
    obtain ⟨ap, h1, h2, h3⟩ := hw.shares hm
    rw [posOf_some h1] at e; subst e
    exact ⟨by show 0 ≤ ap.shares.raw; omega, (hw.inv.w.posWf q hm).2⟩
  · intro t
    have : b.gross t = grossOf s pool t := by rw [ea]; rfl
    rw [this, S.gross t, hpos, Sunrise.C06A.sumBy_add]
    have a1 := e1 t; have a2 := e2 t
    simp only [decide_eq_true_eq] at a1 a2
    rw [a1, a2]; rfl
  · intro t
    have : b.net t = netOf s pool t := by rw [ea]; rfl
    rw [this, S.net t, hpos]
    have a1 := e1 t; have a2 := e2 t
    simp only [decide_eq_true_eq] at a1 a2
    have hsub : ∀ l : List APos, CLAccrual.sumBy (fun p => (if p.lo = t then p.s else 0) - (if p.hi = t then p.s else 0)) l =
        CLAccrual.sumBy (fun p => if p.lo = t then p.s else 0) l - CLAccrual.sumBy (fun p => if p.hi = t then p.s else 0) l := by
      intro l; induction l with
      | nil => rfl
      | cons x xs ih => simp only [CLAccrual.sumBy, ih]; omega
    rw [hsub, a1, a2]; rfl
  · have h1 : b.active = p.liq.raw := by rw [ea]; rfl
    have h2 : b.cur = p.tick := by rw [ea]; rfl
    rw [h1, h2, S.active p hp, hpos]
    have a3 := sumBy_pos s d pool (fun lo hi => decide (lo ≤ p.tick ∧ p.tick < hi)) s.positions hsh
    unfold CLAccrual.inR
    rw [a3]; rfl


/-- no fee has been booked yet: every stored `DecCoins` is empty -/
def feeFree (s : St) : Bool :=
  s.accums.all (·.value.isEmpty) && s.ticks.all (·.feeGrowth.isEmpty) &&
    s.accPos.all (fun ap => ap.perShare.isEmpty && ap.unclaimed.isEmpty)

theorem sumBy_zero (f : APos → Int) : ∀ l : List APos, (∀ p ∈ l, f p = 0) → CLAccrual.sumBy f l = 0 := by
  intro l; induction l with
  | nil => intro _; rfl
  | cons x xs ih =>
    intro h
    simp only [CLAccrual.sumBy]
    rw [h x List.mem_cons_self, ih (fun p hp => h p (List.mem_cons_of_mem _ hp))]; rfl

/-- **`hInv` is satisfiable**: the abstraction (any pool, any denom) of a `WF6` store on which no fee has been booked
    satisfies the accrual invariant -/
theorem inv_of_feeFree {s : St} (hw : WF6 s) (hf : feeFree s = true) {pool : Nat} {k : Int} (hk : 0 ≤ k)
    (hbal : ∀ d, 0 ≤ s.bank.bal (feesAddr pool) d) :
    ∀ d b, CLAccrual.absOf s pool d k = some b → CLAccrual.Inv b := by
  intro d b hb
  obtain ⟨s1, s2, s3, s4⟩ := abs_struct_of_wf6 hw hb
  obtain ⟨p, acc, hp, hacc, ea⟩ := absOf_some hb
  unfold feeFree at hf
  simp only [Bool.and_eq_true, List.all_eq_true, List.isEmpty_iff] at hf
  obtain ⟨⟨f1, f2⟩, f3⟩ := hf
  have hG : b.G = 0 := by
    rw [ea]; show raw acc.value d = 0
    rw [f1 acc (List.mem_of_find?_eq_some hacc)]; rfl
  have hfo : ∀ t, b.fo t = 0 := by
    intro t; rw [ea]; show foOf s pool d t = 0
    unfold foOf
    cases hft : findTick s pool t with
    | none => rfl
    | some ti => simp only; rw [f2 ti (List.mem_of_find?_eq_some hft)]; rfl
  have hin : ∀ lo hi, CLAccrual.inside b lo hi = 0 := by
    intro lo hi; rw [Sunrise.C06A.inside_def, hG, hfo lo, hfo hi]; split <;> split <;> rfl
  have hcu : ∀ x ∈ b.pos, x.c = 0 ∧ x.u = 0 := by
    intro x hx
    have hpos : b.pos = (s.positions.filter (·.pool == pool)).map (posOf s d) := by rw [ea]; rfl
    rw [hpos] at hx
    obtain ⟨q, hq, e⟩ := List.mem_map.mp hx
    obtain ⟨ap, h1, _, _⟩ := hw.shares (List.mem_filter.mp hq).1
    rw [posOf_some h1] at e; subst e
    obtain ⟨g1, g2⟩ := f3 ap (List.mem_of_find?_eq_some h1)
    simp only [g1, g2]; exact ⟨rfl, rfl⟩
  refine ⟨?_, s2, s3, s4, ?_, ?_⟩
  · intro x hx
    obtain ⟨c0, u0⟩ := hcu x hx
    exact ⟨(s1 x hx).1, (s1 x hx).2, by omega, fun _ => by rw [hin, c0]⟩
  · have ho : CLAccrual.sumBy (CLAccrual.owed b) b.pos = 0 := by
      apply sumBy_zero
      intro x hx
      obtain ⟨c0, u0⟩ := hcu x hx
      unfold CLAccrual.owed; rw [hin, c0, u0]; simp
    have hpd : b.paid = 0 := by rw [ea]; rfl
    have hr : 0 ≤ b.recv * PREC := by
      have : b.recv = s.bank.bal (feesAddr pool) d * PREC := by rw [ea]; rfl
      rw [this]
      exact Int.mul_nonneg (Int.mul_nonneg (hbal d) (by decide)) (by decide)
    have hkp : 0 ≤ b.k * PREC := by
      have : b.k = k := by rw [ea]; rfl
      rw [this]; exact Int.mul_nonneg hk (by decide)
    rw [ho, hpd]; omega
  · have : b.k = k := by rw [ea]; rfl
    rw [this]; exact hk

/-- non-vacuity of the hypotheses of `claim_refines_wf` / `change_refines_wf` / `decreaseLiquidity_refines_partial` /
    `claimRewards_refines_partial` TOGETHER: the reachable store `C04Store.h3` (pool 0, two positions) with the constant
    bank satisfies `WF6`, has a position at index 0 of pool 0, and `hInv` holds for every denom -/
def exF : St := { C04Store.h3 with bank := C04Store.bank0 }

theorem exF_wf6 : WF6 exF := by
  have h := wf6_reachable_noSwap C04Store.h3_reachable
  exact ⟨h.inv.core (core_bank _ _), sortedWF_bank h.sorted _, sharesOK_bank h.sh _⟩

example : WF6 exF ∧ (∃ pos, (poolPositions exF 0)[0]? = some pos) ∧
    (∀ d b, CLAccrual.absOf exF 0 d 0 = some b → CLAccrual.Inv b) ∧ (∃ b, CLAccrual.absOf exF 0 "quote" 0 = some b) := by
  refine ⟨exF_wf6, ?_, inv_of_feeFree exF_wf6 (by decide +kernel) (Int.le_refl 0) (fun d => by show (0 : Int) ≤ 1000000000000; decide), ?_⟩
  · have hl : (poolPositions exF 0).length = 2 := by decide +kernel
    cases h : (poolPositions exF 0)[0]? with
    | some p => exact ⟨p, rfl⟩
    | none => rw [List.getElem?_eq_none_iff] at h; omega
  · have : (CLAccrual.absOf exF 0 "quote" 0).isSome = true := by decide +kernel
    exact Option.isSome_iff_exists.mp this

end Sunrise.C06Msg

#print axioms Sunrise.C06Msg.run_wf6
#print axioms Sunrise.C06Msg.wf6_reachable_partial
#print axioms Sunrise.C06Msg.createPosition_wf6
#print axioms Sunrise.C06Msg.decreaseLiquidity_wf6
#print axioms Sunrise.C06Msg.increaseLiquidity_wf6
#print axioms Sunrise.C06Msg.collectFees_wf6
#print axioms Sunrise.C06Msg.claimRewards_wf6
#print axioms Sunrise.C06Msg.allocateIncentive_wf6
#print axioms Sunrise.C06Msg.createPool_wf6
#print axioms Sunrise.C06Msg.swapExactIn_wf6_partial
#print axioms Sunrise.C06Msg.swapExactOut_wf6_partial
#print axioms Sunrise.C06Msg.swapExactIn_accrual_wf
#print axioms Sunrise.C06Msg.WF6.totalShares_abs

#print axioms Sunrise.C06Msg.claim_refines_wf
#print axioms Sunrise.C06Msg.claimRewards_refines_partial
#print axioms Sunrise.C06Msg.change_refines_wf
#print axioms Sunrise.C06Msg.decreaseLiquidity_refines_partial
#print axioms Sunrise.C06Msg.abs_struct_of_wf6
#print axioms Sunrise.C06Msg.inv_of_feeFree
