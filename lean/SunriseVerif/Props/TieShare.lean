import SunriseVerif.Model.ShareClass
import SunriseVerif.Gen.KernelsTieShare
/-!
Tie between `Model/ShareClass.lean` and x/shareclass/keeper: the two comparisons of the end-blocker's queue walk
(store_unbonding.go `IterateCompletedUnbondings`: index key in whole seconds, completion time in nanoseconds — C10-S9) and
the zero-supply guard in front of the reward-multiplier update (keeper_rewards.go) are REGENERATED
(`Gen/KernelsTieShare.lean`) and proved equal to the tests of `gc` and `handleRewards`.
`ValidateLastRewardHandlingTime` (reward period) is regenerated too; the model takes its outcome as an input (the
rewards list of a block), so only its shape is pinned.
-/
namespace Sunrise.TieShare
open Sunrise Sunrise.ShareClass Sunrise.Gen.KernelsTieShare

/-- store_unbonding.go:127 `if time > now.Unix() { stop }` (index key = completion time in seconds) — `gc`'s first test -/
theorem gc_stop_eq_gen (completion now : Int) :
    decide (unixSec completion > unixSec now) = gc_stop (unixSec completion) now := rfl

/-- store_unbonding.go:138 `if value.CompletionTime.After(now) { skip }` — `gc`'s second test (full nanosecond instant) -/
theorem gc_skip_eq_gen (completion now : Int) : decide (completion > now) = gc_skip completion now := rfl

/-- `gc` stops at the first entry for which the regenerated stop test holds -/
theorem gc_stops_gen (now : Int) (e : Unb) (rest : List Unb) (s : St)
    (h : gc_stop (unixSec e.completion) now = true) : gc now (e :: rest) s = .ok s := by
  rw [← gc_stop_eq_gen] at h
  simp only [decide_eq_true_eq] at h
  simp [gc, h]

/-- `gc` leaves an entry alone (and goes on) when the stop test is false and the regenerated skip test holds: an entry that
    completes later within the current second is not paid before staking releases it -/
theorem gc_skips_gen (now : Int) (e : Unb) (rest : List Unb) (s : St)
    (h1 : gc_stop (unixSec e.completion) now = false) (h2 : gc_skip e.completion now = true) :
    gc now (e :: rest) s = gc now rest s := by
  rw [← gc_stop_eq_gen] at h1
  rw [← gc_skip_eq_gen] at h2
  simp only [decide_eq_true_eq, decide_eq_false_iff_not] at h1 h2
  simp [gc, h1, h2]

/-- keeper_rewards.go:98 `if totalShare.IsZero() { return nil }` — `handleRewards`' `if totalShare = 0` in front of the
    multiplier update (whose `Quo` by the share supply returns an error for zero) -/
theorem reward_noShare_eq_gen (totalShare : Int) : decide (totalShare = 0) = reward_noShare totalShare := by
  unfold reward_noShare Int.isZeroB; by_cases h : totalShare = 0 <;> simp [h]

/-- keeper_rewards.go:26 `sdkCtx.BlockTime().Before(lastRewardHandlingTime.Add(params.RewardPeriod))`: strictly before
    last + period ⇒ the handling time is not advanced -/
theorem reward_tooEarly_spec (now last period : Int) : reward_tooEarly now last period = decide (now < last + period) := rfl

example : gc_stop 5 5999999999 = false ∧ gc_stop 6 5999999999 = true := by decide
example : gc_skip 5000000001 5000000000 = true ∧ gc_skip 5000000000 5000000000 = false := by decide

end Sunrise.TieShare
