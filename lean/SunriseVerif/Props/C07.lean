import SunriseVerif.Lemmas.DA07
/-!
C07 — x/da status machine. "A published data item starts in the challenge period and may only move
challenge-period → challenging (threshold reached) or → verified (period expired), and challenging → verified or
rejected (proof period expired); verified and rejected items never change status again and are pruned only after
their retention period. Challenges and proofs are accepted only in the matching status and time window and only from
the validator or its registered deputy, and each transition happens at the first block end at which its condition
holds, so no item stays unresolved past its deadlines."

All theorems are about the executable model `Model/DA.lean` (tied to the Go code by the `da` correspondence suite),
through the functional view `findItem s u` (the first item with that uri; unique under `UNodup`, which is an
invariant of every step, see `nodup_step`). Single-step theorems hold for EVERY state, not only reachable ones.
-/
set_option linter.unusedSimpArgs false
set_option linter.unusedVariables false
namespace Sunrise.C07
open Sunrise Sunrise.Bank Sunrise.DA

/-! ### the abstract status graph -/
/-- the four legal status transitions -/
def edge (a b : Status) : Prop :=
  (a = .cp ∧ b = .ch) ∨ (a = .cp ∧ b = .ver) ∨ (a = .ch ∧ b = .ver) ∨ (a = .ch ∧ b = .rej)

instance (a b : Status) : Decidable (edge a b) := by unfold edge; exact inferInstance

/-- what one operation can do: nothing, one edge, or the two edges cp→ch→{ver,rej} inside one end-block
    (to-challenging immediately followed by the tally; possible because the status/time index is second-granular) -/
def reach (a b : Status) : Prop := a = b ∨ edge a b ∨ (a = .cp ∧ (b = .ver ∨ b = .rej))

instance (a b : Status) : Decidable (reach a b) := by unfold reach; exact inferInstance

/-- everything but status and timestamp -/
def frozen (a b : Item) : Prop :=
  a.uri = b.uri ∧ a.publisher = b.publisher ∧ a.shards = b.shards ∧ a.parity = b.parity ∧
  a.pubColl = b.pubColl ∧ a.invColl = b.invColl

theorem frozen_refl (a : Item) : frozen a a := ⟨rfl, rfl, rfl, rfl, rfl, rfl⟩
example : frozen (newItem default "a" "u" 2 1) (newItem default "a" "u" 2 1) := frozen_refl _

/-- the graph is acyclic with `ver`, `rej` terminal: `reach` is transitive -/
theorem reach_trans {a b c : Status} (h1 : reach a b) (h2 : reach b c) : reach a c := by
  cases a <;> cases b <;> cases c <;> simp_all [reach, edge]
example : reach .cp .ch ∧ reach .ch .rej ∧ reach .cp .rej ∧ ¬ reach .ver .cp ∧ ¬ reach .rej .ver ∧ ¬ reach .ch .cp := by
  decide

/-- no way back: if a path returns to its starting status, it never left it -/
theorem reach_antisymm {a b : Status} (h1 : reach a b) (h2 : reach b a) : a = b := by
  cases a <;> cases b <;> simp_all [reach, edge]
example : ¬ (reach .ch .ver ∧ reach .ver .ch) := by decide

/-! ### concrete states for the non-vacuity examples -/
def s0 : St := { (default : St) with
  params := { thr := 330000000000000000, rf := PREC, epoch := 5, sft := 0, frac := 0, cp := 4*SEC, pp := 6*SEC,
              rrp := 9*SEC, vrp := 12*SEC, pub := [("urise", 1000)], inv := [("urise", 100)] },
  bank := (Bank.empty.credit "a0" "urise" 5000).credit "a1" "urise" 5000 }
def env0 : Env := { active := [], valInfo := fun _ => none, assign := fun _ _ => [], owners := [] }
/-- published -/
def s1 : St := (step s0 (.publish "a0" "u1" 4 1)).1
/-- one invalidity over 2 of 4 shards (threshold 0.33) -/
def s2 : St := (step s1 (.invalid "a1" "u1" [0, 1])).1
/-- block end at 1s: challenging -/
def s3 : St := (step s2 (.block env0 SEC)).1
/-- block end at 8s (proof period 6s over, no proofs): rejected -/
def s4 : St := (step s3 (.block env0 (7*SEC))).1
/-- block end at 18s (rejected retention 9s over): pruned -/
def s5 : St := (step s4 (.block env0 (10*SEC))).1
/-- no invalidity, block end at 5s (challenge period 4s over): verified -/
def s3v : St := (step s1 (.block env0 (5*SEC))).1

example : (findItem s1 "u1").map (fun i => (i.status, i.ts)) = some (.cp, 0) := by decide
example : (findItem s3 "u1").map (fun i => (i.status, i.ts)) = some (.ch, SEC) := by decide +kernel
example : (findItem s4 "u1").map (fun i => (i.status, i.ts)) = some (.rej, 8*SEC) := by decide +kernel
example : (findItem s5 "u1").map (fun i => (i.status, i.ts)) = none := by decide +kernel
example : (findItem s3v "u1").map (fun i => (i.status, i.ts)) = some (.ver, 5*SEC) := by decide +kernel

/-! ### T5: second granularity of the index vs. the exact deadline -/
/-- the end-blocker's test `unix ts ≤ unix (t − period)` never fires before `ts + period − 1s` and always fires
    once `ts + period ≤ t` (any `period`, also a non-positive one) -/
theorem expiry_granularity (ts period t : Int) :
    (ts + period ≤ t → unix ts ≤ unix (t - period)) ∧ (unix ts ≤ unix (t - period) → ts + period < t + SEC) := by
  unfold unix SEC
  constructor <;> intro h <;> omega
example : unix (3*SEC + 5) ≤ unix (7*SEC + 1 - 4*SEC) ∧ ¬ (3*SEC + 5 + 4*SEC ≤ 7*SEC + 1) := by decide

/-! ### T4: acceptance conditions of the messages, exact -/
/-- a challenge is accepted exactly for an item in its challenge period, within the window, once per sender, and
    if the collateral can be paid -/
theorem submitInvalidity_ok_iff (s : St) (a : Addr) (u : String) (ix : List Int) :
    (submitInvalidity s a u ix).isOk = true ↔
      ix ≠ [] ∧ ∃ it, findItem s u = some it ∧ it.status = .cp ∧ s.now ≤ it.ts + s.params.cp ∧
        hasInval s u a = false ∧
        (allPositive it.invColl = true → (sendCoins s.bank a daAcc it.invColl).isOk = true) := by
  unfold submitInvalidity
  by_cases hix : ix = []
  · subst hix; simp [Res.isOk]
  · have hne : ix.isEmpty = false := by cases ix <;> simp_all
    simp only [hne, Bool.false_eq_true, if_false, hix, ne_eq, not_false_eq_true, true_and]
    cases hf : findItem s u with
    | none => simp [Res.isOk]
    | some it =>
      simp only [Option.some.injEq, exists_eq_left']
      by_cases h1 : it.status = .cp
      · by_cases h2 : it.ts + s.params.cp < s.now
        · simp only [h1, h2, ne_eq, not_true_eq_false, if_false, if_true, Res.isOk, Bool.false_eq_true, true_and,
            false_iff]
          intro h; omega
        · have h2' : s.now ≤ it.ts + s.params.cp := by omega
          by_cases h3 : hasInval s u a = true
          · simp [h1, h2, h3, Res.isOk]
          · have h3' : hasInval s u a = false := by simpa using h3
            by_cases h4 : allPositive it.invColl = true
            · simp [h1, h2, h2', h3', h4, isOk_bind_ok]
            · simp [h1, h2, h2', h3', h4, Res.isOk]
      · simp [h1, Res.isOk]
example : (submitInvalidity s1 "a1" "u1" [0, 1]).isOk = true ∧ (submitInvalidity s3 "a1" "u1" [2]).isOk = false
    ∧ (submitInvalidity s2 "a1" "u1" [2]).isOk = false := by decide +kernel

/-- a validity proof is accepted exactly from the (existing, bonded) validator itself or its registered deputy,
    for an item that is being challenged, within the proof window, when every proof verifies for an index in range -/
theorem submitProof_ok_iff (s : St) (a v : Addr) (u : String) (ixs : List (Int × PFlag)) (extra vEx vBo : Bool) :
    (submitProof s a v u ixs extra vEx vBo).isOk = true ↔
      vEx = true ∧ vBo = true ∧ (a = v ∨ s.deps.lookup v = some a) ∧ extra = false ∧
      ∃ it, findItem s u = some it ∧ it.status = .ch ∧ s.now ≤ it.ts + s.params.pp ∧
        (∀ jf ∈ ixs, jf.2 = .good ∧ 0 ≤ jf.1 ∧ jf.1 < (it.shards : Int)) := by
  unfold submitProof
  cases vEx
  · simp [Res.isOk]
  cases vBo
  · simp [Res.isOk]
  simp only [Bool.not_true, Bool.false_eq_true, if_false, true_and]
  have hauth : ∀ (r : Res St) (P : Prop), (r.isOk = true ↔ P) →
      ((match (if a = v then none else
          match s.deps.lookup v with
          | none => some "deputy-not-found"
          | some d => if d = a then none else some "invalid-deputy" : Option String) with
        | some e => Res.err e
        | none => r).isOk = true ↔ (a = v ∨ s.deps.lookup v = some a) ∧ P) := by
    intro r P hr
    by_cases ha : a = v
    · simp [ha, hr]
    · cases hl : s.deps.lookup v with
      | none => simp [ha, Res.isOk]
      | some d =>
        by_cases hd : d = a
        · simp [ha, hd, hr]
        · simp [ha, hd, Res.isOk]
  apply hauth
  cases extra
  · simp only [Bool.false_eq_true, if_false, true_and]
    cases hf : findItem s u with
    | none => simp [Res.isOk]
    | some it =>
      simp only [Option.some.injEq, exists_eq_left']
      by_cases h1 : it.status = .ch
      · by_cases h2 : it.ts + s.params.pp < s.now
        · simp only [h1, h2, ne_eq, not_true_eq_false, if_false, if_true, Res.isOk, Bool.false_eq_true, true_and,
            false_iff]
          intro h; omega
        · have h2' : s.now ≤ it.ts + s.params.pp := by omega
          simp only [h1, h2, ne_eq, not_true_eq_false, if_false, h2', true_and]
          rw [isOk_bind_ok, checkProofs_ok_iff]
      · simp [h1, Res.isOk]
  · simp [Res.isOk]
example : (submitProof s3 "a0" "a0" "u1" [(0, .good), (3, .good)] false true true).isOk = true
    ∧ (submitProof s3 "a1" "a0" "u1" [(0, .good)] false true true).isOk = false
    ∧ (submitProof (registerDeputy s3 "a0" "a1") "a1" "a0" "u1" [(0, .good)] false true true).isOk = true
    ∧ (submitProof s3 "a0" "a0" "u1" [(4, .good)] false true true).isOk = false
    ∧ (submitProof s2 "a0" "a0" "u1" [(0, .good)] false true true).isOk = false := by decide +kernel

/-- publishing succeeds exactly for a fresh uri with parity < shards when the collateral can be paid -/
theorem publish_ok_iff (s : St) (a : Addr) (u : String) (n p : Nat) :
    (publish s a u n p).isOk = true ↔
      p < n ∧ findItem s u = none ∧
      (allPositive s.params.pub = true → (sendCoins s.bank a daAcc s.params.pub).isOk = true) := by
  unfold publish
  by_cases h1 : p ≥ n
  · have : ¬ p < n := by omega
    simp [h1, this, Res.isOk]
  · have h1' : p < n := by omega
    cases hf : findItem s u with
    | some it => simp [h1, Res.isOk]
    | none =>
      by_cases h4 : allPositive s.params.pub = true
      · simp [h1, h1', h4, isOk_bind_ok]
      · simp [h1, h1', h4, Res.isOk]
example : (publish s0 "a0" "u1" 4 1).isOk = true ∧ (publish s1 "a0" "u1" 4 1).isOk = false
    ∧ (publish s0 "a0" "u1" 4 4).isOk = false ∧ (publish s0 "nobody" "u1" 4 1).isOk = false := by decide

/-- a stored validity proof belongs to a challenged item and only names shard indices in range -/
theorem proof_only_stored_for_challenging {s s' : St} {a v : Addr} {u : String} {ixs : List (Int × PFlag)}
    {extra vEx vBo : Bool} (h : submitProof s a v u ixs extra vEx vBo = .ok s') :
    ∃ it, findItem s u = some it ∧ it.status = .ch ∧ s.now ≤ it.ts + s.params.pp ∧
      ∃ pr ∈ s'.proofs, pr.uri = u ∧ pr.sender = v ∧ pr.indices = ixs.map (·.1) ∧
        ∀ i ∈ pr.indices, 0 ≤ i ∧ i < (it.shards : Int) := by
  have hok : (submitProof s a v u ixs extra vEx vBo).isOk = true := by rw [h]; rfl
  obtain ⟨_, _, _, _, it, hf, hs, ht, hix⟩ := (submitProof_ok_iff s a v u ixs extra vEx vBo).1 hok
  refine ⟨it, hf, hs, ht, ?_⟩
  unfold submitProof at h
  split at h
  · cases h
  · split at h
    · cases h
    · simp only [] at h
      split at h
      · cases h
      · split at h
        · cases h
        · rw [hf] at h
          simp only [hs, ne_eq, not_true_eq_false, if_false] at h
          split at h
          · cases h
          · obtain ⟨_, _, h⟩ := bind_ok h
            simp only [Res.ok.injEq] at h; subst h
            refine ⟨{ uri := u, sender := v, indices := ixs.map (·.1) }, ?_, rfl, rfl, rfl, ?_⟩
            · exact (mem_insertBy _ _ _ _).2 (Or.inl rfl)
            · intro i hi
              obtain ⟨jf, hj, e⟩ := List.mem_map.1 hi
              have := hix jf hj
              subst e; exact ⟨this.2.1, this.2.2⟩
example : ((step s3 (.proof "a0" "a0" "u1" [(0, .good), (3, .good)] false true true)).1.proofs.map (·.indices))
    = [[0, 3]] := by decide +kernel

/-! ### T1: messages never move, re-stamp or delete an item; only `publish` creates one, in the challenge period -/
theorem msg_keeps_items (s : St) (op : Op) (hnb : ∀ env dt, op ≠ .block env dt) (u : String) (it : Item)
    (h : findItem s u = some it) : findItem (step s op).1 u = some it := by
  rcases step_msg_items s op hnb with e | ⟨a, w, n, p, rfl, _, hn, e⟩
  · rw [findItem_eq, e]; exact h
  · rw [findItem_eq, e, fi_insertBy s.items (newItem s a w n p) u hn]
    have : ¬ (newItem s a w n p).uri = u := by
      intro e'; change w = u at e'; subst e'; rw [hn] at h; cases h
    simp only [this, if_false]; exact h
example : (findItem (step s3 (.publish "a1" "u1" 9 1)).1 "u1").map (fun i => (i.status, i.ts, i.shards))
    = some (.ch, SEC, 4) := by decide +kernel

theorem publish_creates_cp (s : St) (op : Op) (hnb : ∀ env dt, op ≠ .block env dt) (u : String) (it' : Item)
    (h : findItem s u = none) (h' : findItem (step s op).1 u = some it') :
    (∃ a n p, op = .publish a u n p ∧ p < n ∧ it'.publisher = a ∧ it'.shards = n ∧ it'.parity = p) ∧
    it'.uri = u ∧ it'.status = .cp ∧ it'.ts = s.now ∧ it'.pubColl = s.params.pub ∧ it'.invColl = s.params.inv := by
  rcases step_msg_items s op hnb with e | ⟨a, w, n, p, rfl, hp, hn, e⟩
  · rw [findItem_eq, e, ← findItem_eq, h] at h'; cases h'
  · rw [findItem_eq, e, fi_insertBy s.items (newItem s a w n p) u hn] at h'
    by_cases hw : (newItem s a w n p).uri = u
    · simp only [hw, if_true, Option.some.injEq] at h'
      subst h'
      change w = u at hw; subst hw
      exact ⟨⟨a, n, p, rfl, hp, rfl, rfl, rfl⟩, rfl, rfl, rfl, rfl, rfl⟩
    · simp only [hw, if_false] at h'
      rw [← findItem_eq, h] at h'; cases h'
example : findItem s0 "u1" = none ∧ (findItem s1 "u1").isSome = true := by decide

/-! ### T2: every single phase step of the end-blocker moves an item along at most one edge -/
theorem toChallengingOne_refines (s : St) (u v : String) (it : Item) (h : findItem s v = some it) :
    ∃ it', findItem (toChallengingOne s u) v = some it' ∧
      (it' = it ∨ (v = u ∧ edge it.status it'.status ∧ it'.status = .ch ∧ frozen it it' ∧ it'.ts = s.now)) := by
  rw [findItem_tc]
  by_cases hv : v = u
  · subst hv
    by_cases hc : it.status = .cp ∧ tcFires s v it
    · refine ⟨{ it with status := .ch, ts := s.now }, by simp [h, hc],
        Or.inr ⟨rfl, ?_, rfl, ⟨rfl, rfl, rfl, rfl, rfl, rfl⟩, rfl⟩⟩
      simp [edge, hc.1]
    · exact ⟨it, by simp [h, hc], Or.inl rfl⟩
  · exact ⟨it, by simp [hv, h], Or.inl rfl⟩
example : (findItem (toChallengingOne s2 "u1") "u1").map (fun i => (i.status, i.ts)) = some (.ch, 0) := by decide

theorem toVerifiedOne_refines (s : St) (u v : String) (it : Item) (h : findItem s v = some it) :
    ∃ it', findItem (toVerifiedOne s u) v = some it' ∧
      (it' = it ∨ (v = u ∧ edge it.status it'.status ∧ it'.status = .ver ∧ frozen it it' ∧ it'.ts = s.now)) := by
  rw [findItem_tv]
  by_cases hv : v = u
  · subst hv
    by_cases hc : it.status = .cp
    · refine ⟨{ it with status := .ver, ts := s.now }, by simp [h, hc],
        Or.inr ⟨rfl, ?_, rfl, ⟨rfl, rfl, rfl, rfl, rfl, rfl⟩, rfl⟩⟩
      simp [edge, hc]
    · exact ⟨it, by simp [h, hc], Or.inl rfl⟩
  · exact ⟨it, by simp [hv, h], Or.inl rfl⟩
example : (findItem (toVerifiedOne s1 "u1") "u1").map (fun i => (i.status, i.ts)) = some (.ver, 0) := by decide

theorem tallyOne_refines {env : Env} {s s' : St} {u : String} (hok : tallyOne env s u = .ok s')
    (v : String) (it : Item) (h : findItem s v = some it) :
    ∃ it', findItem s' v = some it' ∧
      (it' = it ∨ (v = u ∧ edge it.status it'.status ∧ it.status = .ch ∧ frozen it it' ∧ it'.ts = s.now)) := by
  obtain ⟨st', hst, hview⟩ := findItem_tally hok
  rw [hview]
  by_cases hv : v = u
  · subst hv
    by_cases hc : it.status = .ch
    · refine ⟨{ it with status := st', ts := s.now }, by simp [h, hc],
        Or.inr ⟨rfl, ?_, hc, ⟨rfl, rfl, rfl, rfl, rfl, rfl⟩, rfl⟩⟩
      rcases hst with e | e <;> simp [edge, hc, e]
    · exact ⟨it, by simp [h, hc], Or.inl rfl⟩
  · exact ⟨it, by simp [hv, h], Or.inl rfl⟩
example : (tallyOne env0 s3 "u1").isOk = true := by decide +kernel

/-- pruning creates and alters nothing, and removes only items of the pruned status -/
theorem pruneOne_refines (st : Status) (s : St) (u v : String) :
    (∀ it', findItem (pruneOne st s u) v = some it' → findItem s v = some it') ∧
    (∀ it, findItem s v = some it → findItem (pruneOne st s u) v = none → v = u ∧ it.status = st) := by
  rw [findItem_pruneOne]
  constructor
  · intro it' h
    by_cases hc : v = u ∧ (findItem s u).map (·.status) = some st
    · simp [hc] at h
    · simp only [hc, if_false] at h; exact h
  · intro it h hn
    by_cases hc : v = u ∧ (findItem s u).map (·.status) = some st
    · obtain ⟨rfl, hc⟩ := hc
      rw [h] at hc; simp at hc; exact ⟨rfl, hc⟩
    · simp only [hc, if_false] at hn; rw [h] at hn; cases hn
example : findItem (pruneOne .rej s4 "u1") "u1" = none ∧ (findItem (pruneOne .ver s4 "u1") "u1").isSome = true := by
  decide +kernel

/-! ### T7: an item meeting the challenge threshold turns `challenging` at the first block end -/
theorem toChallengingOne_fires (s : St) (u : String) (it : Item) (h : findItem s u = some it)
    (hs : it.status = .cp)
    (hc : 0 < ((distinctIndices (invsOf s u)).length : Int) ∧
      s.params.thr * (it.shards : Int) ≤ ((distinctIndices (invsOf s u)).length : Int) * PREC) :
    findItem (toChallengingOne s u) u = some { it with status := .ch, ts := s.now } := by
  have hc' : tcFires s u it := hc
  rw [findItem_tc]; simp [h, hs, hc']

theorem toChallengingOne_idle (s : St) (u : String)
    (hc : ∀ it, findItem s u = some it → ¬ (it.status = .cp ∧
      0 < ((distinctIndices (invsOf s u)).length : Int) ∧
      s.params.thr * (it.shards : Int) ≤ ((distinctIndices (invsOf s u)).length : Int) * PREC)) :
    toChallengingOne s u = s := by
  unfold toChallengingOne
  cases hf : findItem s u with
  | none => rfl
  | some it =>
    have := hc it hf
    by_cases hs : it.status = .cp
    · simp only [hs, true_and] at this
      simp only [hs, if_true, this, if_false]
    · simp only [hs, if_false]
example : (findItem (toChallengingOne s1 "u1") "u1").map (fun i => (i.status, i.ts)) = some (.cp, 0) := by decide

/-- lifted to the whole phase: whatever else is in the store, every challenge-period item that meets the
    threshold is `challenging`, stamped with the block time, after `toChallenging` -/
theorem to_challenging_at_first_block (s : St) (u : String) (it : Item) (h : findItem s u = some it)
    (hs : it.status = .cp)
    (hc : 0 < ((distinctIndices (invsOf s u)).length : Int) ∧
      s.params.thr * (it.shards : Int) ≤ ((distinctIndices (invsOf s u)).length : Int) * PREC) :
    findItem (toChallenging s) u = some { it with status := .ch, ts := s.now } :=
  tc_fold_fires hs _ s (found_indexScan_none h hs) h hc
example : (findItem (toChallenging s2) "u1").map (fun i => (i.status, i.ts)) = some (.ch, 0) := by decide +kernel

/-! ### uri uniqueness: an invariant of every step, hence of every reachable state -/
instance (s : St) : Decidable (UNodup s) := by unfold UNodup; exact inferInstance

theorem nodup_step (s : St) (op : Op) (h : UNodup s) : UNodup (step s op).1 := by
  by_cases hb : ∃ env dt, op = .block env dt
  · obtain ⟨env, dt, rfl⟩ := hb
    simp only [step]
    cases hr : block env s dt with
    | ok r =>
      obtain ⟨s', sl⟩ := r
      exact (endBlock_usub (s := { s with now := s.now + dt, height := s.height + 1 }) hr).nodup h
    | err c => exact h
    | panic k => exact h
  · have hnb : ∀ env dt, op ≠ .block env dt := fun env dt e => hb ⟨env, dt, e⟩
    rcases step_msg_items s op hnb with e | ⟨a, w, n, p, rfl, _, hn, e⟩
    · unfold UNodup; rw [e]; exact h
    · unfold UNodup; rw [e]
      apply nodup_insertBy _ _ h
      intro hm
      obtain ⟨x, hx, ex⟩ := List.mem_map.1 hm
      exact (fi_none_iff.1 hn) x hx ex

theorem nodup_uris_reachable {s : St} (h : Reachable s) : (s.items.map (·.uri)).Nodup := by
  induction h with
  | init hi => rw [hi.items]; exact List.nodup_nil
  | step op _ _ ih => exact nodup_step _ op ih
example : UNodup s4 ∧ s4.items.length = 1 := by decide +kernel

/-! ### T3: one block refines the status graph -/
/-- a block never creates an item (no uniqueness assumption needed) -/
theorem block_creates_nothing {env : Env} {s s' : St} {dt : Int} {sl : List Addr}
    (hb : block env s dt = .ok (s', sl)) (u : String) (h : findItem s u = none) : findItem s' u = none := by
  have hs : USub s' { s with now := s.now + dt, height := s.height + 1 } := endBlock_usub hb
  rw [findItem_eq, fi_none_iff] at h ⊢
  intro x hx e
  have h1 : u ∈ s'.items.map (·.uri) := List.mem_map.2 ⟨x, hx, e⟩
  obtain ⟨y, hy, e2⟩ := List.mem_map.1 (hs.subset h1)
  exact h y hy e2
example : (block env0 s0 SEC).isOk = true ∧ findItem s0 "u1" = none := by decide +kernel

/-- MAIN: across one block an item is either pruned — only if it is verified/rejected and its retention period has
    elapsed at the block time — or it survives with its identity, having moved along the status graph (`reach`);
    its timestamp is kept if the status is kept and is the block time if the status changed -/
theorem block_refines_graph {env : Env} {s s' : St} {dt : Int} {sl : List Addr} (hnd : UNodup s)
    (hb : block env s dt = .ok (s', sl)) (u : String) (it : Item) (h : findItem s u = some it) :
    (findItem s' u = none ∧ (it.status = .ver ∨ it.status = .rej) ∧
      (it.status = .rej → unix it.ts ≤ unix (s.now + dt - s.params.rrp)) ∧
      (it.status = .ver → unix it.ts ≤ unix (s.now + dt - s.params.vrp)))
    ∨ ∃ it', findItem s' u = some it' ∧ reach it.status it'.status ∧ frozen it it' ∧
        (it'.status = it.status → it'.ts = it.ts) ∧ (it'.status ≠ it.status → it'.ts = s.now + dt) := by
  have hv : BlkRel (s.now + dt) (findItem s u) (findItem s' u) ∨
      (findItem s' u = none ∧ ∃ it, findItem s u = some it ∧
        ((it.status = .rej ∧ unix it.ts ≤ unix (s.now + dt - s.params.rrp)) ∨
         (it.status = .ver ∧ unix it.ts ≤ unix (s.now + dt - s.params.vrp)))) :=
    endBlock_view (s := { s with now := s.now + dt, height := s.height + 1 }) hb hnd u
  rw [h] at hv
  rcases hv with (e | ⟨it0, st', e0, hc, e'⟩) | ⟨hn, it0, e0, hc⟩
  · exact Or.inr ⟨it, e, Or.inl rfl, frozen_refl it, fun _ => rfl, fun hne => absurd rfl hne⟩
  · simp only [Option.some.injEq] at e0; subst e0
    refine Or.inr ⟨_, e', ?_, ⟨rfl, rfl, rfl, rfl, rfl, rfl⟩, ?_, fun _ => rfl⟩
    · rcases hc with ⟨h1, h2 | h2 | h2⟩ | ⟨h1, h2 | h2⟩ <;> simp [reach, edge, h1, h2]
    · intro hst; exfalso
      simp only at hst
      rcases hc with ⟨h1, h2 | h2 | h2⟩ | ⟨h1, h2 | h2⟩ <;> rw [h1, h2] at hst <;> cases hst
  · simp only [Option.some.injEq] at e0; subst e0
    left
    refine ⟨hn, ?_, ?_, ?_⟩
    · rcases hc with ⟨h1, _⟩ | ⟨h1, _⟩
      · exact Or.inr h1
      · exact Or.inl h1
    · intro hr
      rcases hc with ⟨_, h2⟩ | ⟨h1, _⟩
      · exact h2
      · rw [h1] at hr; cases hr
    · intro hr
      rcases hc with ⟨h1, _⟩ | ⟨_, h2⟩
      · rw [h1] at hr; cases hr
      · exact h2
example : UNodup s3 ∧ (block env0 s3 (7*SEC)).isOk = true ∧
    (findItem s3 "u1").map (·.status) = some .ch ∧ (findItem s4 "u1").map (·.status) = some .rej := by
  decide +kernel

/-- the two-edge case of `reach` is real: with a proof period below one second, an item goes
    challenge-period → challenging → rejected inside ONE end-block -/
example : (findItem (step { s2 with params := { s2.params with pp := 5 } } (.block env0 (SEC + 10))).1 "u1").map
    (fun i => (i.status, i.ts)) = some (.rej, SEC + 10) := by decide +kernel

/-- one operation of any kind refines the graph (messages keep items as they are) -/
theorem step_refines_graph (s : St) (op : Op) (hnd : UNodup s) (u : String) (it : Item)
    (h : findItem s u = some it) :
    (findItem (step s op).1 u = none ∧ (it.status = .ver ∨ it.status = .rej) ∧ ∃ env dt, op = .block env dt ∧
      (it.status = .rej → unix it.ts ≤ unix (s.now + dt - s.params.rrp)) ∧
      (it.status = .ver → unix it.ts ≤ unix (s.now + dt - s.params.vrp)))
    ∨ ∃ it', findItem (step s op).1 u = some it' ∧ reach it.status it'.status ∧ frozen it it' ∧
        (it'.status = it.status → it'.ts = it.ts) := by
  have keep : ∀ s1 : St, findItem s1 u = some it → ∃ it', findItem s1 u = some it' ∧ reach it.status it'.status ∧
      frozen it it' ∧ (it'.status = it.status → it'.ts = it.ts) :=
    fun _ h => ⟨it, h, Or.inl rfl, frozen_refl it, fun _ => rfl⟩
  by_cases hb : ∃ env dt, op = .block env dt
  · obtain ⟨env, dt, rfl⟩ := hb
    simp only [step]
    cases hr : block env s dt with
    | ok r =>
      obtain ⟨s', sl⟩ := r
      rcases block_refines_graph hnd hr u it h with ⟨a, b, c, d⟩ | ⟨it', a, b, c, d, _⟩
      · exact Or.inl ⟨a, b, env, dt, rfl, c, d⟩
      · exact Or.inr ⟨it', a, b, c, d⟩
    | err c => exact Or.inr (keep _ h)
    | panic k => exact Or.inr (keep _ h)
  · have hnb : ∀ env dt, op ≠ .block env dt := fun env dt e => hb ⟨env, dt, e⟩
    exact Or.inr (keep _ (msg_keeps_items s op hnb u it h))
example : (findItem (step s4 (.block env0 (10*SEC))).1 "u1").isNone = true
    ∧ (findItem (step s4 (.block env0 SEC)).1 "u1").map (·.status) = some .rej := by decide +kernel

/-- verified and rejected are final: whatever happens next, the item stays exactly as it is, or is pruned by a
    block end after its retention period -/
theorem terminal_is_final (s : St) (op : Op) (hnd : UNodup s) (u : String) (it : Item)
    (h : findItem s u = some it) (ht : it.status = .ver ∨ it.status = .rej) :
    findItem (step s op).1 u = some it ∨
    (findItem (step s op).1 u = none ∧ ∃ env dt, op = .block env dt ∧
      (it.status = .rej → unix it.ts ≤ unix (s.now + dt - s.params.rrp)) ∧
      (it.status = .ver → unix it.ts ≤ unix (s.now + dt - s.params.vrp))) := by
  rcases step_refines_graph s op hnd u it h with ⟨a, _, b⟩ | ⟨it', a, b, c, d⟩
  · exact Or.inr ⟨a, b⟩
  · left
    have hst : it'.status = it.status := by
      rcases ht with e | e <;> rw [e] at b ⊢ <;> cases hs' : it'.status <;> simp [reach, edge, hs'] at b ⊢
    have hts := d hst
    obtain ⟨c1, c2, c3, c4, c5, c6⟩ := c
    rw [a]
    cases it; cases it'; simp_all
example : (findItem (step s4 (.invalid "a0" "u1" [3])).1 "u1").map (fun i => (i.status, i.ts)) = some (.rej, 8*SEC)
    ∧ (findItem (step s3v (.block env0 (11*SEC))).1 "u1").map (fun i => (i.status, i.ts)) = some (.ver, 5*SEC)
    ∧ (findItem (step s3v (.block env0 (12*SEC))).1 "u1").isNone = true := by decide +kernel

/-! ### histories -/
/-- run a list of operations -/
def steps (s : St) (ops : List Op) : St := ops.foldl (fun s op => (step s op).1) s

theorem steps_reachable {s : St} (h : Reachable s) (ops : List Op) (hwf : ∀ op ∈ ops, op.wf) :
    Reachable (steps s ops) := by
  induction ops generalizing s with
  | nil => exact h
  | cons op rest ih =>
    exact ih (Reachable.step op h (hwf op (List.mem_cons_self ..))) (fun o ho => hwf o (List.mem_cons_of_mem _ ho))
example : s4 = steps s0 [.publish "a0" "u1" 4 1, .invalid "a1" "u1" [0, 1], .block env0 SEC, .block env0 (7*SEC)] := rfl

theorem nodup_steps (s : St) (ops : List Op) (h : UNodup s) : UNodup (steps s ops) := by
  induction ops generalizing s with
  | nil => exact h
  | cons op rest ih => exact ih _ (nodup_step s op h)
example : UNodup (steps s0 [.publish "a0" "u1" 4 1, .publish "a1" "u1" 5 2]) := by decide

theorem frozen_trans {a b c : Item} (h1 : frozen a b) (h2 : frozen b c) : frozen a c := by
  obtain ⟨a1, a2, a3, a4, a5, a6⟩ := h1
  obtain ⟨b1, b2, b3, b4, b5, b6⟩ := h2
  exact ⟨a1.trans b1, a2.trans b2, a3.trans b3, a4.trans b4, a5.trans b5, a6.trans b6⟩
example : frozen (newItem s0 "a" "u" 2 1) { newItem s0 "a" "u" 2 1 with status := .rej, ts := 7 } :=
  ⟨rfl, rfl, rfl, rfl, rfl, rfl⟩

/-- along EVERY history (any operations, any length, from any uri-unique state — in particular any reachable one):
    unless the uri was absent at some point in between (pruned, possibly re-published later), the item at the end
    is the same published item, its status is graph-reachable from the initial one, and an unchanged status means
    an unchanged timestamp -/
theorem reachable_status_path (u : String) (ops : List Op) (s : St) (it : Item) (hnd : UNodup s)
    (h : findItem s u = some it) :
    (∃ k, k ≤ ops.length ∧ findItem (steps s (ops.take k)) u = none) ∨
    ∃ it', findItem (steps s ops) u = some it' ∧ reach it.status it'.status ∧ frozen it it' ∧
      (it'.status = it.status → it'.ts = it.ts) := by
  induction ops generalizing s it with
  | nil => exact Or.inr ⟨it, h, Or.inl rfl, frozen_refl it, fun _ => rfl⟩
  | cons op rest ih =>
    rcases step_refines_graph s op hnd u it h with ⟨a, _⟩ | ⟨it1, a, b, c, d⟩
    · exact Or.inl ⟨1, by simp, a⟩
    · rcases ih (step s op).1 it1 (nodup_step s op hnd) a with ⟨k, hk, e⟩ | ⟨it', a', b', c', d'⟩
      · exact Or.inl ⟨k + 1, by simp [hk], e⟩
      · refine Or.inr ⟨it', a', reach_trans b b', frozen_trans c c', ?_⟩
        intro hst
        have e1 : it.status = it1.status := reach_antisymm b (hst ▸ b')
        rw [d' (hst.trans e1), d e1.symm]
example : UNodup s1 ∧ (findItem s1 "u1").map (·.status) = some .cp ∧
    (findItem (steps s1 [.invalid "a1" "u1" [0, 1], .block env0 SEC, .block env0 (7*SEC)]) "u1").map (·.status)
      = some .rej := by decide +kernel

/-! ### T6: no item stays unresolved past its deadline -/
/-- MAIN: in the state left by an end-block at time `now`, no item is still in its challenge period although
    `ts + challenge_period ≤ now`, and none is still challenging although `ts + proof_period ≤ now`
    (no assumption on the state or the parameters) -/
theorem resolves_on_time {env : Env} {s s' : St} {sl : List Addr} (h : endBlock env s = .ok (s', sl))
    (u : String) (it' : Item) (hf : findItem s' u = some it') :
    ¬ (it'.status = .cp ∧ it'.ts + s.params.cp ≤ s.now) ∧ ¬ (it'.status = .ch ∧ it'.ts + s.params.pp ≤ s.now) := by
  obtain ⟨c1, c2⟩ := endBlock_clears h u it' hf
  constructor
  · rintro ⟨hs, ht⟩; exact c1 hs ((expiry_granularity _ _ _).1 ht)
  · rintro ⟨hs, ht⟩; exact c2 hs ((expiry_granularity _ _ _).1 ht)
example : (endBlock env0 { s3 with now := 8*SEC }).isOk = true ∧
    (findItem { s3 with now := 8*SEC } "u1").map (fun i => (i.status, decide (i.ts + s3.params.pp ≤ 8*SEC)))
      = some (.ch, true) := by decide +kernel

/-- the same, read off the state after a block operation of a history -/
theorem no_unresolved_past_deadline {env : Env} {s s' : St} {dt : Int} {sl : List Addr}
    (hb : block env s dt = .ok (s', sl)) (u : String) (it' : Item) (hf : findItem s' u = some it') :
    s'.now = s.now + dt ∧ s'.params = s.params ∧
    (it'.status = .cp → s'.now < it'.ts + s'.params.cp) ∧ (it'.status = .ch → s'.now < it'.ts + s'.params.pp) := by
  obtain ⟨hn, hp⟩ := endBlock_now_params (s := { s with now := s.now + dt, height := s.height + 1 }) hb
  have hn' : s'.now = s.now + dt := hn
  have hp' : s'.params = s.params := hp
  obtain ⟨c1, c2⟩ := resolves_on_time (s := { s with now := s.now + dt, height := s.height + 1 }) hb u it' hf
  have c1' : ¬ (it'.status = .cp ∧ it'.ts + s.params.cp ≤ s.now + dt) := c1
  have c2' : ¬ (it'.status = .ch ∧ it'.ts + s.params.pp ≤ s.now + dt) := c2
  refine ⟨hn', hp', ?_, ?_⟩
  · intro hs; rw [hn', hp']
    have : ¬ it'.ts + s.params.cp ≤ s.now + dt := fun h => c1' ⟨hs, h⟩
    omega
  · intro hs; rw [hn', hp']
    have : ¬ it'.ts + s.params.pp ≤ s.now + dt := fun h => c2' ⟨hs, h⟩
    omega
example : (block env0 s1 (5*SEC)).isOk = true ∧ (findItem s3v "u1").map (·.status) = some .ver := by decide +kernel

/-- T7 at block level: a challenge-period item that meets the challenge threshold when a block ends has left the
    challenge period after that very block (challenging, or already tallied to verified/rejected when the proof
    period is below the index granularity), stamped with the block time; everything else about it is unchanged -/
theorem challenged_leaves_cp_in_block {env : Env} {s s' : St} {dt : Int} {sl : List Addr}
    (hb : block env s dt = .ok (s', sl)) (u : String) (it : Item) (h : findItem s u = some it)
    (hs : it.status = .cp)
    (hc : 0 < ((distinctIndices (invsOf s u)).length : Int) ∧
      s.params.thr * (it.shards : Int) ≤ ((distinctIndices (invsOf s u)).length : Int) * PREC) :
    ∃ it', findItem s' u = some it' ∧ (it'.status = .ch ∨ it'.status = .ver ∨ it'.status = .rej) ∧
      it'.ts = s.now + dt ∧ frozen it it' := by
  have hc' : tcFires { s with now := s.now + dt, height := s.height + 1 } u it := hc
  obtain ⟨st', hst, e⟩ := endBlock_challenged (s := { s with now := s.now + dt, height := s.height + 1 }) hb h hs hc'
  exact ⟨_, e, hst, rfl, ⟨rfl, rfl, rfl, rfl, rfl, rfl⟩⟩
example : (block env0 s2 SEC).isOk = true ∧ (findItem s2 "u1").map (·.status) = some .cp ∧
    (findItem s3 "u1").map (fun i => (i.status, i.ts)) = some (.ch, SEC) := by decide +kernel

end Sunrise.C07
