import SunriseVerif.Lemmas.Dec
import SunriseVerif.Gen.KernelsCL
import SunriseVerif.Model.CL
import SunriseVerif.Spec.C05
import SunriseVerif.Props.C05
import Mathlib.Tactic.Linarith
import Mathlib.Tactic.Ring

/-!
C05 lifted to the swap LOOP — "the price moves in the direction of the trade and never beyond the price bounds", plus
monotone bookkeeping — for `CL.swapLoop` / `CL.computeSwap` over the kernels REGENERATED from
x/liquiditypool/keeper/keeper_swap_helper.go and types/math.go (Gen/KernelsCL.lean).  `bfq` = base-for-quote (price
goes DOWN), `qfb` = quote-for-base (price goes UP).  All quantities are raw 10^18-scaled integers.

A. Per-bucket theorems (`*_facts`, uniform form `bucket_facts`): first component = next price.
     bfq exact-out : tgt ≤ next ≤ cur                                   (full)
     qfb exact-in  : cur ≤ next                                          (next ≤ tgt is FALSE: `qfb_outGivenIn_overshoots_target`)
     bfq exact-in  : 0 < next;  next ≤ cur only if cur ≥ 1.0             (FALSE below 1.0: `bfq_outGivenIn_against_trade`;
                                                                          tgt ≤ next FALSE: `bfq_outGivenIn_overshoots_target`)
     qfb exact-out : cur ≤ next if PREC + tgt < 2·cur·liq                (zero denominator otherwise possible:
                                                                          `qfb_inGivenOut_zero_denominator`; next ≤ tgt FALSE)
   In the loop the missing target-side bounds are supplied by the `invalid-computed-sqrt-price` check, which compares with
   the TICK price — so they are only enforced when the target is the tick price, not when it is a limit strictly inside
   the bucket (`swapLoop_qfb_exactIn_beyond_limit`).  Amounts and fees are non-negative in all four modes.
B. Loop theorems by induction on fuel (`swapLoop_succ_ok`, `swapLoop_invariant`):
     `swapLoop_within_limit`      all modes, only needs tick prices within the limit (`TicksWithin`)
     `swapLoop_master` / `swapLoop_price_direction` / `swapLoop_calculated_mono`
                                  need `IterOK` (liquidity ≥ 0 after every crossing = C04 invariant; tick prices ordered)
     `swapLoop_price_direction_bfq_exactOut`   full strength, no `TicksWithin`
C. `computeSwap_price_within_bounds`, `computeSwap_price_direction`.
D/E. concrete runs (`decide +kernel`): non-vacuity and the counterexamples named above.
-/
namespace Sunrise.C05Loop
open Sunrise Dec Sunrise.Gen.KernelsCL Sunrise.CL Sunrise.TickMath Sunrise.C05

/-! ### 0. small facts about the decimal model -/

theorem PREC_two_HALF : PREC = 2 * HALF := by decide
theorem HALF_pos : (0:Int) < HALF := by decide

theorem isZero_false_of_ne {a : Dec} (h : a.raw ≠ 0) : a.isZero = false := by
  simp [Dec.isZero, h]

theorem gte_false {a b : Dec} (h : Dec.gte a b = false) : a.raw < b.raw := by
  simpa [Dec.gte] using h

theorem gte_true {a b : Dec} (h : Dec.gte a b = true) : b.raw ≤ a.raw := by
  simpa [Dec.gte] using h

theorem chopRound_zero : chopRound 0 = 0 := by decide

theorem mul_zero_right (a : Dec) : Dec.mul a ⟨0⟩ = ⟨0⟩ := by
  simp [Dec.mul, chopRound_zero]

theorem quo_zero_left (b : Dec) : Dec.quo ⟨0⟩ b = ⟨0⟩ := by
  simp [Dec.quo, Dec.tquo, chopRound_zero]

theorem ceil_zero : Dec.ceil ⟨0⟩ = ⟨0⟩ := by decide

/-- `Quo` of a non-negative by a positive decimal: non-negative and at most half an ulp above the exact quotient
    (cross-multiplied) -/
theorem quo_pos_bounds (a b : Dec) (ha : 0 ≤ a.raw) (hb : 0 < b.raw) :
    PREC * ((Dec.quo a b).raw * b.raw) ≤ a.raw * PREC * PREC + HALF * b.raw ∧ 0 ≤ (Dec.quo a b).raw := by
  have hn : 0 ≤ a.raw * PREC * PREC := Int.mul_nonneg (Int.mul_nonneg ha (by decide)) (by decide)
  have hq : 0 ≤ (a.raw * PREC * PREC) / b.raw := Int.ediv_nonneg hn (Int.le_of_lt hb)
  have hd := Int.mul_ediv_add_emod (a.raw * PREC * PREC) b.raw
  have hm := Int.emod_nonneg (a.raw * PREC * PREC) (Int.ne_of_gt hb)
  unfold Dec.quo
  simp only [tquo_nonneg_eq hn (Int.le_of_lt hb)]
  have hc := chopRound_nonneg_bounds _ hq
  generalize chopRound (a.raw * PREC * PREC / b.raw) = X at hc ⊢
  generalize (a.raw * PREC * PREC / b.raw) = Y at *
  generalize a.raw * PREC * PREC = n at *
  refine ⟨?_, hc.2.2⟩
  have h1 : PREC * X * b.raw ≤ (Y + HALF) * b.raw := Int.mul_le_mul_of_nonneg_right hc.1 (Int.le_of_lt hb)
  have h2 : b.raw * Y ≤ n := by omega
  nlinarith [h1, h2]


theorem equal_true {a b : Dec} (h : Dec.equal a b = true) : a = b := by
  cases a; cases b; simp [Dec.equal] at h; simp [h]

/-! ### 1. the two amount formulas: normal forms and signs -/

/-- `CalcAmountBaseDelta` for ordered prices `lo ≤ hi` (the Go code swaps its arguments into this order) -/
def baseDelta (liq lo hi : Dec) (ru : Bool) : Dec :=
  if ru then Dec.ceil (Dec.quo (Dec.quo (Dec.mul (Dec.sub hi lo) liq) hi) lo)
  else Dec.quo (Dec.quo (Dec.mul (Dec.sub hi lo) liq) hi) lo

theorem CalcAmountBaseDelta_le (liq lo hi : Dec) (ru : Bool) (h : lo.raw ≤ hi.raw) :
    CalcAmountBaseDelta liq lo hi ru = baseDelta liq lo hi ru := by
  have hg : Dec.gt lo hi = false := by simp [Dec.gt]; omega
  cases ru <;> simp [CalcAmountBaseDelta, baseDelta, hg]

theorem CalcAmountBaseDelta_ge (liq lo hi : Dec) (ru : Bool) (h : lo.raw ≤ hi.raw) :
    CalcAmountBaseDelta liq hi lo ru = baseDelta liq lo hi ru := by
  by_cases he : lo.raw = hi.raw
  · have : lo = hi := by cases lo; cases hi; simp at he; simp [he]
    subst this
    exact CalcAmountBaseDelta_le liq lo lo ru (le_refl _)
  · have hg : Dec.gt hi lo = true := by simp [Dec.gt]; omega
    cases ru <;> simp [CalcAmountBaseDelta, baseDelta, hg]

theorem baseDelta_nonneg (liq lo hi : Dec) (ru : Bool) (hl : 0 ≤ liq.raw) (h0 : 0 < lo.raw) (h : lo.raw ≤ hi.raw) :
    0 ≤ (baseDelta liq lo hi ru).raw := by
  have hd : 0 ≤ (Dec.sub hi lo).raw * liq.raw := Int.mul_nonneg (by simp only [Dec.sub]; omega) hl
  have h1 := (mul_nonneg_bounds (Dec.sub hi lo) liq hd).2.2
  have h2 := (quo_pos_bounds _ hi h1 (by omega)).2
  have h3 := (quo_pos_bounds _ lo h2 h0).2
  cases ru
  · simpa [baseDelta] using h3
  · have h4 := (ceil_nonneg_bounds _ h3).1
    simp only [baseDelta, if_true]; omega

theorem baseDelta_zero_liq (lo hi : Dec) (ru : Bool) : baseDelta ⟨0⟩ lo hi ru = ⟨0⟩ := by
  cases ru <;> simp [baseDelta, mul_zero_right, quo_zero_left, ceil_zero]

theorem quoteDelta_nonneg (liq a b : Dec) (ru : Bool) (hl : 0 ≤ liq.raw) :
    0 ≤ (CalcAmountQuoteDelta liq a b ru).raw := by
  cases ru
  · exact (quoteDelta_down_le_exact liq a b hl).2
  · have hd : 0 ≤ (Dec.abs (Dec.sub b a)).raw := abs_raw_nonneg _
    have hM := mul_nonneg_bounds (Dec.abs (Dec.sub b a)) liq (Int.mul_nonneg hd hl)
    have hC := ceil_nonneg_bounds _ hM.2.2
    simp only [CalcAmountQuoteDelta, if_true]; omega

theorem quoteDelta_zero_liq (a b : Dec) (ru : Bool) : CalcAmountQuoteDelta ⟨0⟩ a b ru = ⟨0⟩ := by
  cases ru <;> simp [CalcAmountQuoteDelta, mul_zero_right, ceil_zero]

theorem abs_sub_of_le {a b : Dec} (h : a.raw ≤ b.raw) : (Dec.abs (Dec.sub b a)).raw = b.raw - a.raw := by
  simp only [Dec.abs, Dec.sub]
  have hh : ¬ (b.raw - a.raw < 0) := by omega
  simp only [hh, if_false]

theorem abs_sub_of_ge {a b : Dec} (h : b.raw ≤ a.raw) : (Dec.abs (Dec.sub b a)).raw = a.raw - b.raw := by
  simp only [Dec.abs, Dec.sub]
  by_cases hh : b.raw - a.raw < 0 <;> simp only [hh, if_true, if_false] <;> omega

/-- the fee-reduced remaining amount is non-negative -/
theorem afterFee_nonneg (rem fee : Dec) (hr : 0 ≤ rem.raw) (hf1 : fee.raw ≤ PREC) :
    0 ≤ (Dec.mul rem (Dec.sub Dec.one fee)).raw := by
  have hone : 0 ≤ (Dec.sub Dec.one fee).raw := by simp only [Dec.sub, Dec.one]; omega
  exact (mul_nonneg_bounds rem (Dec.sub Dec.one fee) (Int.mul_nonneg hr hone)).2.2

/-- the exact-in step fee is never negative (every branch returns zero or a value tested non-negative) -/
theorem stepFee_nonneg (reached : Bool) (amountIn remaining fee : Dec) :
    0 ≤ (computeFeeChargePerSwapStepOutGivenIn reached amountIn remaining fee).raw := by
  unfold computeFeeChargePerSwapStepOutGivenIn
  simp only []
  split
  · simp [Dec.zero]
  · split
    · simp [Dec.zero]
    · split
      · split
        · simp [Dec.zero]
        · rename_i h; simpa [Dec.isNegative] using h
      · split
        · simp [Dec.zero]
        · rename_i h; simpa [Dec.isNegative] using h

/-- the exact-out step fee `⌈in · ⌈f/(1−f)⌉⌉` is non-negative for a non-negative input and a fee rate in [0,1) -/
theorem outFee_nonneg (amountIn fee : Dec) (ha : 0 ≤ amountIn.raw) (hf0 : 0 ≤ fee.raw) (hf1 : fee.raw < PREC) :
    0 ≤ (computeFeeChargeFromInAmount amountIn (getFeeRateOverOneMinusFeeRate fee)).raw :=
  (feeCharge_ge_exact amountIn _ ha (feeRatio_ge_exact fee hf0 hf1).2).2


/-! ### 2. shape of the four bucket functions: amounts are always the deltas between `cur` and the returned price -/

theorem qfb_outGivenIn_shape (lim fee cur tgt liq rem : Dec) :
    let r := qfb_ComputeSwapWithinBucketOutGivenIn lim fee cur tgt liq rem
    r.2.1 = CalcAmountQuoteDelta liq r.1 cur true ∧ r.2.2.1 = CalcAmountBaseDelta liq r.1 cur false
      ∧ r.2.2.2 = computeFeeChargePerSwapStepOutGivenIn (Dec.equal tgt r.1) r.2.1 rem fee := by
  simp only [qfb_ComputeSwapWithinBucketOutGivenIn]
  split
  · simp [Dec.equal]
  · split
    · rename_i h; simp only [Bool.not_eq_true'] at h; simp [h]
    · rename_i h; simp only [Bool.not_eq_true', Bool.not_eq_false] at h
      have := equal_true h
      simp [← this]

theorem bfq_outGivenIn_shape (lim fee cur tgt liq rem : Dec) :
    let r := bfq_ComputeSwapWithinBucketOutGivenIn lim fee cur tgt liq rem
    r.2.1 = CalcAmountBaseDelta liq r.1 cur true ∧ r.2.2.1 = CalcAmountQuoteDelta liq r.1 cur false
      ∧ r.2.2.2 = computeFeeChargePerSwapStepOutGivenIn (Dec.equal tgt r.1) r.2.1 rem fee := by
  simp only [bfq_ComputeSwapWithinBucketOutGivenIn]
  split
  · simp [Dec.equal]
  · split
    · rename_i h; simp only [Bool.not_eq_true'] at h; simp [h]
    · rename_i h; simp only [Bool.not_eq_true', Bool.not_eq_false] at h
      have := equal_true h
      simp [← this]


theorem bfq_inGivenOut_shape (lim fee cur tgt liq rem : Dec) :
    let r := bfq_ComputeSwapWithinBucketInGivenOut lim fee cur tgt liq rem
    (r.2.1 = rem ∨ r.2.1 = CalcAmountQuoteDelta liq r.1 cur false)
      ∧ r.2.2.1 = CalcAmountBaseDelta liq r.1 cur true
      ∧ r.2.2.2 = computeFeeChargeFromInAmount r.2.2.1 (getFeeRateOverOneMinusFeeRate fee) := by
  simp only [bfq_ComputeSwapWithinBucketInGivenOut]
  split
  · simp only [Dec.equal, beq_self_eq_true, Bool.not_true, Bool.false_eq_true, if_false]
    split <;> simp
  · split
    · split <;> simp
    · rename_i h; simp only [Bool.not_eq_true', Bool.not_eq_false] at h
      have := equal_true h
      split <;> simp [← this]

theorem qfb_inGivenOut_shape (lim fee cur tgt liq rem : Dec) :
    let r := qfb_ComputeSwapWithinBucketInGivenOut lim fee cur tgt liq rem
    (r.2.1 = rem ∨ r.2.1 = CalcAmountBaseDelta liq r.1 cur false)
      ∧ r.2.2.1 = CalcAmountQuoteDelta liq r.1 cur true
      ∧ r.2.2.2 = computeFeeChargeFromInAmount r.2.2.1 (getFeeRateOverOneMinusFeeRate fee) := by
  simp only [qfb_ComputeSwapWithinBucketInGivenOut]
  split
  · simp only [Dec.equal, beq_self_eq_true, Bool.not_true, Bool.false_eq_true, if_false]
    split <;> simp
  · split
    · split <;> simp
    · rename_i h; simp only [Bool.not_eq_true', Bool.not_eq_false] at h
      have := equal_true h
      split <;> simp [← this]


/-! ### 3. returned price of a step that stops short of the target -/

theorem qfb_outGivenIn_short (lim fee cur tgt liq rem : Dec)
    (h : Dec.gte (Dec.mul rem (Dec.sub Dec.one fee)) (CalcAmountQuoteDelta liq tgt cur true) = false) :
    (qfb_ComputeSwapWithinBucketOutGivenIn lim fee cur tgt liq rem).1
      = GetNextSqrtPriceFromAmountQuoteInRoundingDown cur liq (Dec.mul rem (Dec.sub Dec.one fee)) := by
  simp only [qfb_ComputeSwapWithinBucketOutGivenIn, h, Bool.false_eq_true, if_false]
  split <;> rfl

theorem bfq_outGivenIn_short (lim fee cur tgt liq rem : Dec)
    (h : Dec.gte (Dec.mul rem (Dec.sub Dec.one fee)) (CalcAmountBaseDelta liq tgt cur true) = false) :
    (bfq_ComputeSwapWithinBucketOutGivenIn lim fee cur tgt liq rem).1
      = GetNextSqrtPriceFromAmountBaseInRoundingUp cur liq (Dec.mul rem (Dec.sub Dec.one fee)) := by
  simp only [bfq_ComputeSwapWithinBucketOutGivenIn, h, Bool.false_eq_true, if_false]
  split <;> rfl

theorem bfq_inGivenOut_short (lim fee cur tgt liq rem : Dec)
    (h : Dec.gte rem (CalcAmountQuoteDelta liq tgt cur false) = false) :
    (bfq_ComputeSwapWithinBucketInGivenOut lim fee cur tgt liq rem).1
      = GetNextSqrtPriceFromAmountQuoteOutRoundingDown cur liq rem := by
  simp only [bfq_ComputeSwapWithinBucketInGivenOut, h, Bool.false_eq_true, if_false]
  split <;> split <;> rfl

theorem qfb_inGivenOut_short (lim fee cur tgt liq rem : Dec)
    (h : Dec.gte rem (CalcAmountBaseDelta liq tgt cur false) = false) :
    (qfb_ComputeSwapWithinBucketInGivenOut lim fee cur tgt liq rem).1
      = GetNextSqrtPriceFromAmountBaseOutRoundingUp cur liq rem := by
  simp only [qfb_ComputeSwapWithinBucketInGivenOut, h, Bool.false_eq_true, if_false]
  split <;> split <;> rfl

/-- a step that stops short of the target happens only on positive liquidity (zero liquidity ⇒ the bucket amount is 0) -/
theorem liq_pos_of_short_quote (liq a b x : Dec) (ru : Bool) (hl : 0 ≤ liq.raw) (hx : 0 ≤ x.raw)
    (h : Dec.gte x (CalcAmountQuoteDelta liq a b ru) = false) : 0 < liq.raw := by
  rcases Int.lt_or_eq_of_le hl with h0 | h0
  · exact h0
  · have : liq = ⟨0⟩ := by cases liq; simp at h0; simp [h0]
    subst this
    rw [quoteDelta_zero_liq] at h
    have := gte_false h
    simp at this; omega

theorem liq_pos_of_short_base (liq a b x : Dec) (ru : Bool) (hl : 0 ≤ liq.raw) (hx : 0 ≤ x.raw)
    (h : Dec.gte x (CalcAmountBaseDelta liq a b ru) = false) : 0 < liq.raw := by
  rcases Int.lt_or_eq_of_le hl with h0 | h0
  · exact h0
  · have : liq = ⟨0⟩ := by cases liq; simp at h0; simp [h0]
    subst this
    rcases Int.le_total a.raw b.raw with hab | hab
    · rw [CalcAmountBaseDelta_le _ _ _ _ hab, baseDelta_zero_liq] at h
      have := gte_false h
      simp at this; omega
    · rw [CalcAmountBaseDelta_ge _ _ _ _ hab, baseDelta_zero_liq] at h
      have := gte_false h
      simp at this; omega


/-! ### 4. next-price kernels: direction facts -/

/-- quote-out (bfq exact-out): a request smaller than the bucket's quote content never pushes the price below the target -/
theorem quoteOut_next_ge_target (cur tgt liq rem : Dec) (hl : 0 < liq.raw) (hr : 0 ≤ rem.raw) (ht : tgt.raw ≤ cur.raw)
    (h : rem.raw < (CalcAmountQuoteDelta liq tgt cur false).raw) :
    tgt.raw ≤ (GetNextSqrtPriceFromAmountQuoteOutRoundingDown cur liq rem).raw := by
  have hd := abs_sub_of_le ht
  have hM := mul_nonneg_bounds (Dec.abs (Dec.sub cur tgt)) liq (by rw [hd]; exact Int.mul_nonneg (by omega) (le_of_lt hl))
  have hQ := quoRoundUp_pos_bounds rem liq hr hl
  simp only [CalcAmountQuoteDelta, Bool.false_eq_true, if_false] at h
  simp only [GetNextSqrtPriceFromAmountQuoteOutRoundingDown, Dec.sub]
  rw [hd] at hM
  generalize (Dec.mul (Dec.abs (Dec.sub cur tgt)) liq).raw = M at *
  generalize (Dec.quoRoundUp rem liq).raw = Q at *
  have hP := PREC_two_HALF
  have hH := HALF_pos
  generalize PREC = p at *
  generalize HALF = hf at *
  by_contra hc
  have hc' : cur.raw - tgt.raw + 1 ≤ Q := by omega
  have h1 : (cur.raw - tgt.raw + 1) * liq.raw ≤ Q * liq.raw := Int.mul_le_mul_of_nonneg_right hc' (le_of_lt hl)
  have h2 : p * (rem.raw + 1) ≤ p * M := Int.mul_le_mul_of_nonneg_left (by omega) (by omega)
  nlinarith [hM.1, hQ.2.1]

/-- base-in (bfq exact-in): the rounded-up next price is positive -/
theorem baseIn_next_pos (cur liq amt : Dec) (hc : 0 < cur.raw) (hl : 0 < liq.raw) (ha : 0 ≤ amt.raw) :
    0 < (GetNextSqrtPriceFromAmountBaseInRoundingUp cur liq amt).raw := by
  by_cases hz : amt.raw = 0
  · have : amt.isZero = true := by simp [Dec.isZero, hz]
    simpa [GetNextSqrtPriceFromAmountBaseInRoundingUp, this] using hc
  · have hz' := isZero_false_of_ne hz
    simp only [GetNextSqrtPriceFromAmountBaseInRoundingUp, hz', Bool.false_eq_true, if_false]
    have hac : 0 ≤ amt.raw * cur.raw := Int.mul_nonneg ha (le_of_lt hc)
    have hlc : 0 < liq.raw * cur.raw := Int.mul_pos hl hc
    have hT := mulTruncate_nonneg_bounds amt cur hac
    have hU := mulRoundUp_nonneg_bounds liq cur (le_of_lt hlc)
    have hden : 0 < (Dec.add (Dec.mulTruncate amt cur) liq).raw := by simp only [Dec.add]; linarith [hT.2.2]
    have hQ := quoRoundUp_pos_bounds _ _ hU.2.2 hden
    generalize (Dec.quoRoundUp (Dec.mulRoundUp liq cur) (Dec.add (Dec.mulTruncate amt cur) liq)).raw = N at *
    generalize (Dec.add (Dec.mulTruncate amt cur) liq).raw = D at *
    generalize (Dec.mulRoundUp liq cur).raw = U at *
    have hp := PREC_pos
    generalize PREC = p at *
    have hU1 : 0 < U := by
      by_contra hh
      have : U = 0 := by omega
      subst this; simp at hU; omega
    have : 0 < U * p := Int.mul_pos hU1 hp
    by_contra hh
    have : N = 0 := by omega
    subst this; simp at hQ; omega

/-- base-in (bfq exact-in): the next price does not exceed the current one provided `PREC ≤ cur · ⌊amt·cur⌋`
    (the rounding slack of `⌈liq·cur⌉` is then absorbed by the denominator).  Without such a condition the bound is
    FALSE — see `bfq_outGivenIn_against_trade` below. -/
theorem baseIn_next_le_cur (cur liq amt : Dec) (hc : 0 < cur.raw) (hl : 0 < liq.raw) (ha : 0 ≤ amt.raw)
    (hT1 : amt.raw ≠ 0 → PREC ≤ cur.raw * (Dec.mulTruncate amt cur).raw) :
    (GetNextSqrtPriceFromAmountBaseInRoundingUp cur liq amt).raw ≤ cur.raw := by
  by_cases hz : amt.raw = 0
  · have : amt.isZero = true := by simp [Dec.isZero, hz]
    simp [GetNextSqrtPriceFromAmountBaseInRoundingUp, this]
  · have hz' := isZero_false_of_ne hz
    simp only [GetNextSqrtPriceFromAmountBaseInRoundingUp, hz', Bool.false_eq_true, if_false]
    have hT1 := hT1 hz
    have hac : 0 ≤ amt.raw * cur.raw := Int.mul_nonneg ha (le_of_lt hc)
    have hlc : 0 < liq.raw * cur.raw := Int.mul_pos hl hc
    have hT := mulTruncate_nonneg_bounds amt cur hac
    have hU := mulRoundUp_nonneg_bounds liq cur (le_of_lt hlc)
    have hden : 0 < (Dec.add (Dec.mulTruncate amt cur) liq).raw := by simp only [Dec.add]; linarith [hT.2.2]
    have hQ := quoRoundUp_pos_bounds _ _ hU.2.2 hden
    simp only [Dec.add] at hQ hden ⊢
    generalize (Dec.quoRoundUp (Dec.mulRoundUp liq cur) ⟨(Dec.mulTruncate amt cur).raw + liq.raw⟩).raw = N at *
    generalize (Dec.mulTruncate amt cur).raw = T at *
    generalize (Dec.mulRoundUp liq cur).raw = U at *
    have hp := PREC_pos
    generalize PREC = p at *
    -- N·(T+L) < U·p + (T+L),  p·U < L·P + p,  p ≤ P·T   ⟹   N < P + 1
    by_contra hh
    have hh' : cur.raw + 1 ≤ N := by omega
    have h1 : (cur.raw + 1) * (T + liq.raw) ≤ N * (T + liq.raw) := Int.mul_le_mul_of_nonneg_right hh' (le_of_lt hden)
    nlinarith [hQ.2.1, hU.2.1]

/-- sufficient form of the side condition: current price at least 1.0 -/
theorem baseIn_slack_of_price_ge_one (cur amt : Dec) (hc : PREC ≤ cur.raw) (ha : 0 ≤ amt.raw) (hz : amt.raw ≠ 0) :
    PREC ≤ cur.raw * (Dec.mulTruncate amt cur).raw := by
  have hp := PREC_pos
  have ha1 : 1 ≤ amt.raw := by omega
  have hac : 0 ≤ amt.raw * cur.raw := Int.mul_nonneg ha (by omega)
  have hT := mulTruncate_nonneg_bounds amt cur hac
  generalize (Dec.mulTruncate amt cur).raw = T at *
  have h1 : 1 * cur.raw ≤ amt.raw * cur.raw := Int.mul_le_mul_of_nonneg_right ha1 (by omega)
  generalize PREC = p at *
  have hT1 : 1 ≤ T := by
    by_contra hh
    have : T = 0 := by omega
    subst this; omega
  have : cur.raw * 1 ≤ cur.raw * T := Int.mul_le_mul_of_nonneg_left hT1 (by omega)
  omega


/-- base-out (qfb exact-out): while the denominator `liq − ⌈cur·amt⌉` stays positive the rounded-up next price is
    at or above the current one -/
theorem baseOut_next_ge_cur (cur liq amt : Dec) (hc : 0 < cur.raw) (hl : 0 < liq.raw) (ha : 0 ≤ amt.raw)
    (hden : amt.raw ≠ 0 → 0 < (Dec.sub liq (Dec.mulRoundUp cur amt)).raw) :
    cur.raw ≤ (GetNextSqrtPriceFromAmountBaseOutRoundingUp cur liq amt).raw := by
  by_cases hz : amt.raw = 0
  · have : amt.isZero = true := by simp [Dec.isZero, hz]
    simp [GetNextSqrtPriceFromAmountBaseOutRoundingUp, this]
  · have hz' := isZero_false_of_ne hz
    simp only [GetNextSqrtPriceFromAmountBaseOutRoundingUp, hz', Bool.false_eq_true, if_false]
    have hden := hden hz
    have hca : 0 ≤ cur.raw * amt.raw := Int.mul_nonneg (le_of_lt hc) ha
    have hlc : 0 < liq.raw * cur.raw := Int.mul_pos hl hc
    have hR := mulRoundUp_nonneg_bounds cur amt hca
    have hU := mulRoundUp_nonneg_bounds liq cur (le_of_lt hlc)
    have hQ := quoRoundUp_pos_bounds _ _ hU.2.2 hden
    simp only [Dec.sub] at hQ hden ⊢
    generalize (Dec.quoRoundUp (Dec.mulRoundUp liq cur) ⟨liq.raw - (Dec.mulRoundUp cur amt).raw⟩).raw = N at *
    generalize (Dec.mulRoundUp cur amt).raw = R at *
    generalize (Dec.mulRoundUp liq cur).raw = U at *
    have hp := PREC_pos
    generalize PREC = p at *
    by_contra hh
    have hh' : N ≤ cur.raw - 1 := by omega
    have h1 : N * (liq.raw - R) ≤ (cur.raw - 1) * (liq.raw - R) := Int.mul_le_mul_of_nonneg_right hh' (le_of_lt hden)
    have h2 : 0 ≤ cur.raw * R := Int.mul_nonneg (le_of_lt hc) hR.2.2
    nlinarith [hQ.1, hU.1]

/-- base-out: the denominator is positive for every request below the bucket's base content, provided
    `PREC + tgt < 2·cur·liq` (raw integers) -/
theorem baseOut_den_pos (cur tgt liq rem : Dec) (hc : 0 < cur.raw) (hct : cur.raw ≤ tgt.raw) (hl : 0 < liq.raw)
    (hr : 0 ≤ rem.raw) (hbig : PREC + tgt.raw < 2 * (cur.raw * liq.raw))
    (h : rem.raw < (baseDelta liq cur tgt false).raw) :
    0 < (Dec.sub liq (Dec.mulRoundUp cur rem)).raw := by
  have hd0 : 0 ≤ (Dec.sub tgt cur).raw * liq.raw := Int.mul_nonneg (by simp only [Dec.sub]; omega) (le_of_lt hl)
  have h1 := mul_nonneg_bounds (Dec.sub tgt cur) liq hd0
  have h2 := quo_pos_bounds _ tgt h1.2.2 (by omega)
  have h3 := quo_pos_bounds _ cur h2.2 hc
  have hR := mulRoundUp_nonneg_bounds cur rem (Int.mul_nonneg (le_of_lt hc) hr)
  simp only [baseDelta, Bool.false_eq_true, if_false] at h
  simp only [Dec.sub] at h1 h2 h3 h ⊢
  generalize (Dec.mulRoundUp cur rem).raw = R at *
  generalize (Dec.quo (Dec.quo (Dec.mul ⟨tgt.raw - cur.raw⟩ liq) tgt) cur).raw = B at *
  generalize (Dec.quo (Dec.mul ⟨tgt.raw - cur.raw⟩ liq) tgt).raw = X2 at *
  generalize (Dec.mul ⟨tgt.raw - cur.raw⟩ liq).raw = X1 at *
  have hP := PREC_two_HALF
  have hH := HALF_pos
  generalize PREC = p at *
  generalize HALF = hf at *
  subst hP
  -- R ≤ X2
  have hRX : R ≤ X2 := by
    by_contra hh
    have hh' : X2 + 1 ≤ R := by omega
    have e1 : (2*hf) * ((2*hf) * (X2 + 1)) ≤ (2*hf) * ((2*hf) * R) :=
      Int.mul_le_mul_of_nonneg_left (Int.mul_le_mul_of_nonneg_left hh' (by omega)) (by omega)
    have e2 : (2*hf) * (cur.raw * rem.raw) ≤ (2*hf) * (cur.raw * (B - 1)) :=
      Int.mul_le_mul_of_nonneg_left (Int.mul_le_mul_of_nonneg_left (by omega) (le_of_lt hc)) (by omega)
    have e3 : (2*hf) * ((2*hf) * R) < (2*hf) * (cur.raw * rem.raw + 2*hf) :=
      Int.mul_lt_mul_of_pos_left hR.2.1 (by omega)
    nlinarith [h3.1, Int.mul_pos hH hc]
  -- X2 < liq
  have hXL : X2 < liq.raw := by
    by_contra hh
    have hh' : liq.raw ≤ X2 := by omega
    have e1 : (2*hf) * (liq.raw * tgt.raw) ≤ (2*hf) * (X2 * tgt.raw) :=
      Int.mul_le_mul_of_nonneg_left (Int.mul_le_mul_of_nonneg_right hh' (by omega)) (by omega)
    have e2 : (2*hf) * ((2*hf) * X1) ≤ (2*hf) * ((tgt.raw - cur.raw) * liq.raw + hf) :=
      Int.mul_le_mul_of_nonneg_left h1.1 (by omega)
    have e3 : 0 < hf * (2 * (cur.raw * liq.raw) - (2*hf + tgt.raw)) := Int.mul_pos hH (by omega)
    nlinarith [h2.1]
  omega


theorem baseDelta_any_nonneg (liq a b : Dec) (ru : Bool) (hl : 0 ≤ liq.raw) (ha : 0 < a.raw) (hb : 0 < b.raw) :
    0 ≤ (CalcAmountBaseDelta liq a b ru).raw := by
  rcases Int.le_total a.raw b.raw with hab | hab
  · rw [CalcAmountBaseDelta_le _ _ _ _ hab]; exact baseDelta_nonneg _ _ _ _ hl ha hab
  · rw [CalcAmountBaseDelta_ge _ _ _ _ hab]; exact baseDelta_nonneg _ _ _ _ hl hb hab

/-! ### A. per-bucket direction and sign theorems (first component = next price) -/

/-- **qfb exact-in** (quote in, price up).  The price never moves against the trade; all amounts are non-negative.
    The bound towards the target (`next ≤ tgt`) is FALSE in general: see `qfb_outGivenIn_overshoots_target`. -/
theorem qfb_outGivenIn_facts (lim fee cur tgt liq rem : Dec)
    (hc : 0 < cur.raw) (hct : cur.raw ≤ tgt.raw) (hl : 0 ≤ liq.raw) (hr : 0 ≤ rem.raw)
    (hf0 : 0 ≤ fee.raw) (hf1 : fee.raw < PREC) :
    let r := qfb_ComputeSwapWithinBucketOutGivenIn lim fee cur tgt liq rem
    cur.raw ≤ r.1.raw ∧ 0 ≤ r.2.1.raw ∧ 0 ≤ r.2.2.1.raw ∧ 0 ≤ r.2.2.2.raw := by
  intro r
  have hsh := qfb_outGivenIn_shape lim fee cur tgt liq rem
  have haf := afterFee_nonneg rem fee hr (le_of_lt hf1)
  have hdir : cur.raw ≤ r.1.raw := by
    by_cases h : Dec.gte (Dec.mul rem (Dec.sub Dec.one fee)) (CalcAmountQuoteDelta liq tgt cur true) = true
    · have := (qfb_outGivenIn_reaches lim fee cur tgt liq rem h).1
      show cur.raw ≤ (qfb_ComputeSwapWithinBucketOutGivenIn lim fee cur tgt liq rem).1.raw
      rw [this]; exact hct
    · have h' : Dec.gte (Dec.mul rem (Dec.sub Dec.one fee)) (CalcAmountQuoteDelta liq tgt cur true) = false := by
        simpa using h
      have hlp := liq_pos_of_short_quote liq tgt cur _ true hl haf h'
      exact qfb_outGivenIn_direction lim fee cur tgt liq rem hlp hr hf0 (le_of_lt hf1) h'
  refine ⟨hdir, ?_, ?_, ?_⟩
  · show 0 ≤ (qfb_ComputeSwapWithinBucketOutGivenIn lim fee cur tgt liq rem).2.1.raw
    rw [hsh.1]; exact quoteDelta_nonneg _ _ _ _ hl
  · show 0 ≤ (qfb_ComputeSwapWithinBucketOutGivenIn lim fee cur tgt liq rem).2.2.1.raw
    rw [hsh.2.1]; exact baseDelta_any_nonneg _ _ _ _ hl (lt_of_lt_of_le hc hdir) hc
  · show 0 ≤ (qfb_ComputeSwapWithinBucketOutGivenIn lim fee cur tgt liq rem).2.2.2.raw
    rw [hsh.2.2]; exact stepFee_nonneg _ _ _ _

/-- **bfq exact-in** (base in, price down).  The returned price is positive and all amounts are non-negative;
    the price does not move against the trade when the current price is at least 1.0 (`PREC ≤ cur.raw`).
    For prices below 1.0 `next ≤ cur` is FALSE (`bfq_outGivenIn_against_trade`), and `tgt ≤ next` is FALSE in
    general (`bfq_outGivenIn_overshoots_target`). -/
theorem bfq_outGivenIn_facts (lim fee cur tgt liq rem : Dec)
    (ht : 0 < tgt.raw) (htc : tgt.raw ≤ cur.raw) (hl : 0 ≤ liq.raw) (hr : 0 ≤ rem.raw)
    (_hf0 : 0 ≤ fee.raw) (hf1 : fee.raw < PREC) :
    let r := bfq_ComputeSwapWithinBucketOutGivenIn lim fee cur tgt liq rem
    0 < r.1.raw ∧ (PREC ≤ cur.raw → r.1.raw ≤ cur.raw) ∧ 0 ≤ r.2.1.raw ∧ 0 ≤ r.2.2.1.raw ∧ 0 ≤ r.2.2.2.raw := by
  intro r
  have hc : 0 < cur.raw := by omega
  have hsh := bfq_outGivenIn_shape lim fee cur tgt liq rem
  have haf := afterFee_nonneg rem fee hr (le_of_lt hf1)
  have hdir : 0 < r.1.raw ∧ (PREC ≤ cur.raw → r.1.raw ≤ cur.raw) := by
    by_cases h : Dec.gte (Dec.mul rem (Dec.sub Dec.one fee)) (CalcAmountBaseDelta liq tgt cur true) = true
    · have := (bfq_outGivenIn_reaches lim fee cur tgt liq rem h).1
      show 0 < (bfq_ComputeSwapWithinBucketOutGivenIn lim fee cur tgt liq rem).1.raw ∧
        (PREC ≤ cur.raw → (bfq_ComputeSwapWithinBucketOutGivenIn lim fee cur tgt liq rem).1.raw ≤ cur.raw)
      rw [this]; exact ⟨ht, fun _ => htc⟩
    · have h' : Dec.gte (Dec.mul rem (Dec.sub Dec.one fee)) (CalcAmountBaseDelta liq tgt cur true) = false := by
        simpa using h
      have hlp := liq_pos_of_short_base liq tgt cur _ true hl haf h'
      show 0 < (bfq_ComputeSwapWithinBucketOutGivenIn lim fee cur tgt liq rem).1.raw ∧
        (PREC ≤ cur.raw → (bfq_ComputeSwapWithinBucketOutGivenIn lim fee cur tgt liq rem).1.raw ≤ cur.raw)
      rw [bfq_outGivenIn_short lim fee cur tgt liq rem h']
      exact ⟨baseIn_next_pos cur liq _ hc hlp haf,
        fun h1 => baseIn_next_le_cur cur liq _ hc hlp haf (fun hz => baseIn_slack_of_price_ge_one cur _ h1 haf hz)⟩
  refine ⟨hdir.1, hdir.2, ?_, ?_, ?_⟩
  · show 0 ≤ (bfq_ComputeSwapWithinBucketOutGivenIn lim fee cur tgt liq rem).2.1.raw
    rw [hsh.1]; exact baseDelta_any_nonneg _ _ _ _ hl hdir.1 hc
  · show 0 ≤ (bfq_ComputeSwapWithinBucketOutGivenIn lim fee cur tgt liq rem).2.2.1.raw
    rw [hsh.2.1]; exact quoteDelta_nonneg _ _ _ _ hl
  · show 0 ≤ (bfq_ComputeSwapWithinBucketOutGivenIn lim fee cur tgt liq rem).2.2.2.raw
    rw [hsh.2.2]; exact stepFee_nonneg _ _ _ _

/-- **bfq exact-out** (quote out, price down).  Full direction statement: `tgt ≤ next ≤ cur`; amounts non-negative. -/
theorem bfq_inGivenOut_facts (lim fee cur tgt liq rem : Dec)
    (ht : 0 < tgt.raw) (htc : tgt.raw ≤ cur.raw) (hl : 0 ≤ liq.raw) (hr : 0 ≤ rem.raw)
    (hf0 : 0 ≤ fee.raw) (hf1 : fee.raw < PREC) :
    let r := bfq_ComputeSwapWithinBucketInGivenOut lim fee cur tgt liq rem
    tgt.raw ≤ r.1.raw ∧ r.1.raw ≤ cur.raw ∧ 0 ≤ r.2.1.raw ∧ 0 ≤ r.2.2.1.raw ∧ 0 ≤ r.2.2.2.raw := by
  intro r
  have hc : 0 < cur.raw := by omega
  have hsh := bfq_inGivenOut_shape lim fee cur tgt liq rem
  have hdir : tgt.raw ≤ r.1.raw ∧ r.1.raw ≤ cur.raw := by
    show tgt.raw ≤ (bfq_ComputeSwapWithinBucketInGivenOut lim fee cur tgt liq rem).1.raw ∧
        (bfq_ComputeSwapWithinBucketInGivenOut lim fee cur tgt liq rem).1.raw ≤ cur.raw
    by_cases h : Dec.gte rem (CalcAmountQuoteDelta liq tgt cur false) = true
    · rw [(bfq_inGivenOut_reaches lim fee cur tgt liq rem h).1]; exact ⟨le_refl _, htc⟩
    · have h' : Dec.gte rem (CalcAmountQuoteDelta liq tgt cur false) = false := by simpa using h
      have hlp := liq_pos_of_short_quote liq tgt cur _ false hl hr h'
      rw [bfq_inGivenOut_short lim fee cur tgt liq rem h']
      exact ⟨quoteOut_next_ge_target cur tgt liq rem hlp hr htc (gte_false h'),
        (quoteOut_next_le_exact cur liq rem hlp hr).2⟩
  have hin : 0 ≤ r.2.2.1.raw := by
    show 0 ≤ (bfq_ComputeSwapWithinBucketInGivenOut lim fee cur tgt liq rem).2.2.1.raw
    rw [hsh.2.1]; exact baseDelta_any_nonneg _ _ _ _ hl (lt_of_lt_of_le ht hdir.1) hc
  refine ⟨hdir.1, hdir.2, ?_, hin, ?_⟩
  · show 0 ≤ (bfq_ComputeSwapWithinBucketInGivenOut lim fee cur tgt liq rem).2.1.raw
    rcases hsh.1 with h | h <;> rw [h]
    · exact hr
    · exact quoteDelta_nonneg _ _ _ _ hl
  · show 0 ≤ (bfq_ComputeSwapWithinBucketInGivenOut lim fee cur tgt liq rem).2.2.2.raw
    rw [hsh.2.2]; exact outFee_nonneg _ _ hin hf0 hf1

/-- **qfb exact-out**, amounts charged: input and fee are non-negative (no price hypotheses needed) -/
theorem qfb_inGivenOut_in_nonneg (lim fee cur tgt liq rem : Dec) (hl : 0 ≤ liq.raw)
    (hf0 : 0 ≤ fee.raw) (hf1 : fee.raw < PREC) :
    let r := qfb_ComputeSwapWithinBucketInGivenOut lim fee cur tgt liq rem
    0 ≤ r.2.2.1.raw ∧ 0 ≤ r.2.2.2.raw := by
  intro r
  have hsh := qfb_inGivenOut_shape lim fee cur tgt liq rem
  have hin : 0 ≤ r.2.2.1.raw := by
    show 0 ≤ (qfb_ComputeSwapWithinBucketInGivenOut lim fee cur tgt liq rem).2.2.1.raw
    rw [hsh.2.1]; exact quoteDelta_nonneg _ _ _ _ hl
  refine ⟨hin, ?_⟩
  show 0 ≤ (qfb_ComputeSwapWithinBucketInGivenOut lim fee cur tgt liq rem).2.2.2.raw
  rw [hsh.2.2]; exact outFee_nonneg _ _ hin hf0 hf1

/-- **qfb exact-out** (base out, price up).  The price never moves against the trade provided the bucket is not
    degenerate: `PREC + tgt < 2·cur·liq` on positive liquidity (this keeps the denominator `liq − ⌈cur·rem⌉` of the
    next-price formula positive; with a zero denominator Go panics, with a negative one the "price" is ≤ 0).
    `next ≤ tgt` is FALSE in general (`qfb_inGivenOut_overshoots_target`). -/
theorem qfb_inGivenOut_facts (lim fee cur tgt liq rem : Dec)
    (hc : 0 < cur.raw) (hct : cur.raw ≤ tgt.raw) (hl : 0 ≤ liq.raw) (hr : 0 ≤ rem.raw)
    (hbig : 0 < liq.raw → PREC + tgt.raw < 2 * (cur.raw * liq.raw)) :
    let r := qfb_ComputeSwapWithinBucketInGivenOut lim fee cur tgt liq rem
    cur.raw ≤ r.1.raw ∧ 0 ≤ r.2.1.raw := by
  intro r
  have hsh := qfb_inGivenOut_shape lim fee cur tgt liq rem
  have hdir : cur.raw ≤ r.1.raw := by
    show cur.raw ≤ (qfb_ComputeSwapWithinBucketInGivenOut lim fee cur tgt liq rem).1.raw
    by_cases h : Dec.gte rem (CalcAmountBaseDelta liq tgt cur false) = true
    · rw [(qfb_inGivenOut_reaches lim fee cur tgt liq rem h).1]; exact hct
    · have h' : Dec.gte rem (CalcAmountBaseDelta liq tgt cur false) = false := by simpa using h
      have hlp := liq_pos_of_short_base liq tgt cur _ false hl hr h'
      rw [qfb_inGivenOut_short lim fee cur tgt liq rem h']
      have hlt := gte_false h'
      rw [CalcAmountBaseDelta_ge _ _ _ _ hct] at hlt
      exact baseOut_next_ge_cur cur liq rem hc hlp hr
        (fun _ => baseOut_den_pos cur tgt liq rem hc hct hlp hr (hbig hlp) hlt)
  refine ⟨hdir, ?_⟩
  show 0 ≤ (qfb_ComputeSwapWithinBucketInGivenOut lim fee cur tgt liq rem).2.1.raw
  rcases hsh.1 with h | h <;> rw [h]
  · exact hr
  · exact baseDelta_any_nonneg _ _ _ _ hl (lt_of_lt_of_le hc hdir) hc

/-! ### B0. one unrolling of `swapLoop`, in continuation-passing form (definitionally equal to the model) -/

def amtInOf (exactIn : Bool) (r : Dec × Dec × Dec × Dec) : Dec := (if exactIn then (r.2.1, r.2.2.1) else (r.2.2.1, r.2.1)).1
def amtOutOf (exactIn : Bool) (r : Dec × Dec × Dec × Dec) : Dec := (if exactIn then (r.2.1, r.2.2.1) else (r.2.2.1, r.2.1)).2

def ss1Of (upd : Bool) (ss : SwapState) (feeCharge : Dec) : SwapState :=
  if upd then { updateFeeGrowth ss feeCharge with trace := ss.trace ++ [.fee feeCharge.raw] } else ss

def ss2Of (exactIn upd : Bool) (ss : SwapState) (r : Dec × Dec × Dec × Dec) : SwapState :=
  let ss1 := ss1Of upd ss r.2.2.2
  let ss1 := { ss1 with trace := ss1.trace ++ [SwapEv.step r.1.raw (amtInOf exactIn r).raw (amtOutOf exactIn r).raw] }
  if exactIn then
    { ss1 with sqrtP := r.1, remaining := Dec.sub ss1.remaining (Dec.add (amtInOf exactIn r) r.2.2.2), calculated := Dec.add ss1.calculated (amtOutOf exactIn r) }
  else
    { ss1 with sqrtP := r.1, remaining := Dec.sub ss1.remaining (amtOutOf exactIn r), calculated := Dec.add ss1.calculated (Dec.add (amtInOf exactIn r) r.2.2.2) }

def settleK {β : Type} (bfq upd : Bool) (lim fee : Dec) (tp : TickParams) (accVal : DecCoins) (denomIn : Denom) (s : St)
    (start tickPrice next : Dec) (ss2 : SwapState) (ti : TickInfo) (rest : List TickInfo)
    (K : St × SwapState × List TickInfo → Res β) : Res β :=
  if tickPrice == next then
    (crossTick s ss2 bfq lim fee ti accVal denomIn upd).bind fun p => K (p.1, p.2, rest)
  else if (if bfq then tickPrice.raw > next.raw else tickPrice.raw < next.raw) then Res.err "invalid-computed-sqrt-price"
  else if !(start == next) then
    (sqrtPriceToTick next tp).bind fun t => K (s, { ss2 with tick := t, trace := ss2.trace ++ [.move t] }, ti :: rest)
  else K (s, ss2, ti :: rest)

def bucket (exactIn bfq : Bool) (lim fee cur tgt liq rem : Dec) : Res (Dec × Dec × Dec × Dec) :=
  if exactIn then bucketOutGivenIn bfq lim fee cur tgt liq rem else bucketInGivenOut bfq lim fee cur tgt liq rem

def wrapTickK {β : Type} (r : Res Dec) (K : Dec → Res β) : Res β := match r with
  | .ok v => K v | .err _ => Res.err "tick-to-sqrt-price" | .panic k => Res.panic k

theorem swapLoop_succ_eq (exactIn bfq upd : Bool) (lim fee : Dec) (tp : TickParams) (accVal : DecCoins) (denomIn : Denom)
    (fuel noProg : Nat) (s : St) (ss : SwapState) (iter : List TickInfo) :
    swapLoop exactIn bfq upd lim fee tp accVal denomIn (fuel+1) noProg s ss iter =
      if !(ss.remaining.isPositive && !(ss.sqrtP == lim)) then .ok (s, ss) else
      match iter with
      | [] => .err "ran-out-of-ticks"
      | ti :: rest =>
        wrapTickK (tickToSqrtPrice ti.tick tp) fun tickPrice =>
        (bucket exactIn bfq lim fee ss.sqrtP (targetPrice bfq lim fee tickPrice) ss.liq ss.remaining).bind fun r =>
        if r.1 == ss.sqrtP && !((amtInOf exactIn r).isZero && (amtOutOf exactIn r).isZero) then Res.err "no-sqrt-price-after-swap" else
        settleK bfq upd lim fee tp accVal denomIn s ss.sqrtP tickPrice r.1 (ss2Of exactIn upd ss r) ti rest fun q =>
        if (if exactIn then amtInOf exactIn r else amtOutOf exactIn r).isZero then
          if noProg ≥ 100 then Res.err "ran-out-of-iterations"
          else swapLoop exactIn bfq upd lim fee tp accVal denomIn fuel (noProg + 1) q.1 q.2.1 q.2.2
        else swapLoop exactIn bfq upd lim fee tp accVal denomIn fuel noProg q.1 q.2.1 q.2.2 := by
  rw [swapLoop.eq_def]
  simp -zeta only []
  split
  · rfl
  · cases iter with
    | nil => rfl
    | cons ti rest =>
      simp -zeta only []
      cases hT : tickToSqrtPrice ti.tick tp with
      | err c => rfl
      | panic k => rfl
      | ok tickPrice => rfl

theorem bind_ok {α β : Type} {x : Res α} {f : α → Res β} {b : β} (h : x.bind f = .ok b) : ∃ a, x = .ok a ∧ f a = .ok b := by
  cases x with
  | ok a => exact ⟨a, rfl, h⟩
  | err c => cases h
  | panic k => cases h

def netOf (bfq : Bool) (ti : TickInfo) : Dec := if bfq then Dec.neg ti.net else ti.net

theorem crossTick_ok {s : St} {ss : SwapState} {bfq : Bool} {lim fee : Dec} {ti : TickInfo} {accVal : DecCoins} {denomIn : Denom}
    {upd : Bool} {p : St × SwapState} (h : crossTick s ss bfq lim fee ti accVal denomIn upd = .ok p) :
    p.2.sqrtP = ss.sqrtP ∧ p.2.liq = Dec.add ss.liq (netOf bfq ti) ∧ p.2.calculated = ss.calculated
      ∧ p.2.feeTotal = ss.feeTotal ∧ p.2.growthPerLiq = ss.growthPerLiq ∧ p.2.remaining = ss.remaining := by
  unfold crossTick at h
  cases upd
  · cases bfq <;> cases h <;> simp [netOf, bfq_GetLiquidityDeltaSign, qfb_GetLiquidityDeltaSign]
  · simp -zeta only [if_true] at h
    cases hg : (DecCoins.sub (DecCoins.add accVal [(denomIn, ss.growthPerLiq)]) ti.feeGrowth) with
    | ok g => rw [hg] at h; cases bfq <;> cases h <;> simp [netOf, bfq_GetLiquidityDeltaSign, qfb_GetLiquidityDeltaSign]
    | err c => rw [hg] at h; cases h
    | panic k => rw [hg] at h; cases h

theorem ss2Of_facts (exactIn upd : Bool) (ss : SwapState) (r : Dec × Dec × Dec × Dec) :
    (ss2Of exactIn upd ss r).sqrtP = r.1 ∧ (ss2Of exactIn upd ss r).liq = ss.liq
    ∧ (ss2Of exactIn upd ss r).calculated =
        Dec.add ss.calculated (if exactIn then amtOutOf exactIn r else Dec.add (amtInOf exactIn r) r.2.2.2)
    ∧ (ss2Of exactIn upd ss r).feeTotal = (if upd then Dec.add ss.feeTotal r.2.2.2 else ss.feeTotal)
    ∧ (ss2Of exactIn upd ss r).growthPerLiq =
        (if upd then (if ss.liq.isZero then ss.growthPerLiq else Dec.add ss.growthPerLiq (Dec.quoTruncate r.2.2.2 ss.liq))
         else ss.growthPerLiq) := by
  cases exactIn <;> cases upd <;> simp [ss2Of, ss1Of, updateFeeGrowth] <;> split <;> simp

/-- what one successful loop iteration does to the swap state (ghost fields and the tick cursor omitted) -/
structure StepPost (exactIn bfq upd : Bool) (ss : SwapState) (ti : TickInfo) (rest : List TickInfo) (tickPrice : Dec)
    (r : Dec × Dec × Dec × Dec) (ss3 : SwapState) (iter3 : List TickInfo) : Prop where
  price : ss3.sqrtP = r.1
  cursor : (tickPrice = r.1 ∧ iter3 = rest ∧ ss3.liq = Dec.add ss.liq (netOf bfq ti)) ∨
           (tickPrice ≠ r.1 ∧ (if bfq then ¬ tickPrice.raw > r.1.raw else ¬ tickPrice.raw < r.1.raw)
              ∧ iter3 = ti :: rest ∧ ss3.liq = ss.liq)
  calcd : ss3.calculated = Dec.add ss.calculated (if exactIn then amtOutOf exactIn r else Dec.add (amtInOf exactIn r) r.2.2.2)
  feeTot : ss3.feeTotal = if upd then Dec.add ss.feeTotal r.2.2.2 else ss.feeTotal
  growth : ss3.growthPerLiq =
    if upd then (if ss.liq.isZero then ss.growthPerLiq else Dec.add ss.growthPerLiq (Dec.quoTruncate r.2.2.2 ss.liq))
    else ss.growthPerLiq

theorem settleK_ok {β : Type} {bfq upd : Bool} {lim fee : Dec} {tp : TickParams} {accVal : DecCoins} {denomIn : Denom} {s : St}
    {start tickPrice next : Dec} {ss2 : SwapState} {ti : TickInfo} {rest : List TickInfo}
    {K : St × SwapState × List TickInfo → Res β} {x : β}
    (h : settleK bfq upd lim fee tp accVal denomIn s start tickPrice next ss2 ti rest K = .ok x) :
    ∃ s3 ss3 iter3, K (s3, ss3, iter3) = .ok x ∧ ss3.sqrtP = ss2.sqrtP ∧ ss3.calculated = ss2.calculated
      ∧ ss3.feeTotal = ss2.feeTotal ∧ ss3.growthPerLiq = ss2.growthPerLiq ∧
      ((tickPrice = next ∧ iter3 = rest ∧ ss3.liq = Dec.add ss2.liq (netOf bfq ti)) ∨
       (tickPrice ≠ next ∧ (if bfq then ¬ tickPrice.raw > next.raw else ¬ tickPrice.raw < next.raw)
          ∧ iter3 = ti :: rest ∧ ss3.liq = ss2.liq)) := by
  unfold settleK at h
  by_cases heq : (tickPrice == next) = true
  · rw [if_pos heq] at h
    have heq' : tickPrice = next := by simpa using heq
    obtain ⟨p, hp, hK⟩ := bind_ok h
    have hc := crossTick_ok hp
    exact ⟨p.1, p.2, rest, hK, hc.1, hc.2.2.1, hc.2.2.2.1, hc.2.2.2.2.1, Or.inl ⟨heq', rfl, hc.2.1⟩⟩
  · rw [if_neg heq] at h
    have hne' : tickPrice ≠ next := by simpa using heq
    by_cases hord : (if bfq = true then tickPrice.raw > next.raw else tickPrice.raw < next.raw)
    · rw [if_pos hord] at h; cases h
    · rw [if_neg hord] at h
      have hord' : (if bfq = true then ¬ tickPrice.raw > next.raw else ¬ tickPrice.raw < next.raw) := by
        cases bfq <;> simpa using hord
      by_cases hmv : (!(start == next)) = true
      · rw [if_pos hmv] at h
        obtain ⟨t, _, hK⟩ := bind_ok h
        exact ⟨_, _, _, hK, rfl, rfl, rfl, rfl, Or.inr ⟨hne', hord', rfl, rfl⟩⟩
      · rw [if_neg hmv] at h
        exact ⟨_, _, _, h, rfl, rfl, rfl, rfl, Or.inr ⟨hne', hord', rfl, rfl⟩⟩

theorem wrapTickK_ok {β : Type} {r : Res Dec} {K : Dec → Res β} {x : β} (h : wrapTickK r K = .ok x) :
    ∃ v, r = .ok v ∧ K v = .ok x := by
  cases r with
  | ok v => exact ⟨v, rfl, h⟩
  | err c => cases h
  | panic k => cases h

/-- **one unrolling of the loop**: a successful run either stops immediately (nothing left to swap, or the price sits
    on the limit) or performs exactly one bucket step described by `StepPost` and continues with one unit less fuel -/
theorem swapLoop_succ_ok {exactIn bfq upd : Bool} {lim fee : Dec} {tp : TickParams} {accVal : DecCoins} {denomIn : Denom}
    {fuel noProg : Nat} {s : St} {ss : SwapState} {iter : List TickInfo} {s' : St} {ss' : SwapState}
    (h : swapLoop exactIn bfq upd lim fee tp accVal denomIn (fuel+1) noProg s ss iter = .ok (s', ss')) :
    ss' = ss ∨
    (0 < ss.remaining.raw ∧ ss.sqrtP ≠ lim ∧ ∃ ti rest tickPrice r s3 ss3 iter3 noProg',
      iter = ti :: rest ∧ tickToSqrtPrice ti.tick tp = .ok tickPrice ∧
      bucket exactIn bfq lim fee ss.sqrtP (targetPrice bfq lim fee tickPrice) ss.liq ss.remaining = .ok r ∧
      StepPost exactIn bfq upd ss ti rest tickPrice r ss3 iter3 ∧
      swapLoop exactIn bfq upd lim fee tp accVal denomIn fuel noProg' s3 ss3 iter3 = .ok (s', ss')) := by
  rw [swapLoop_succ_eq] at h
  split at h
  · left; cases h; rfl
  · rename_i hcond
    right
    have hc : ss.remaining.isPositive = true ∧ (ss.sqrtP == lim) = false := by
      simpa using hcond
    have hpos : 0 < ss.remaining.raw := by simpa [Dec.isPositive] using hc.1
    have hne : ss.sqrtP ≠ lim := by simpa using hc.2
    refine ⟨hpos, hne, ?_⟩
    cases iter with
    | nil => cases h
    | cons ti rest =>
      simp only [] at h
      obtain ⟨tickPrice, hT, h⟩ := wrapTickK_ok h
      obtain ⟨r, hB, h⟩ := bind_ok h
      split at h
      · cases h
      · obtain ⟨s3, ss3, iter3, hK, h1, h2, h3, h4, h5⟩ := settleK_ok h
        have hf := ss2Of_facts exactIn upd ss r
        have hpost : StepPost exactIn bfq upd ss ti rest tickPrice r ss3 iter3 := by
          refine StepPost.mk (by rw [h1, hf.1]) ?_ (by rw [h2, hf.2.2.1]) (by rw [h3, hf.2.2.2.1]) (by rw [h4, hf.2.2.2.2])
          rw [hf.2.1] at h5; exact h5
        simp only [] at hK
        by_cases hz : (if exactIn = true then amtInOf exactIn r else amtOutOf exactIn r).isZero = true
        · rw [if_pos hz] at hK
          by_cases hn : noProg ≥ 100
          · rw [if_pos hn] at hK; cases hK
          · rw [if_neg hn] at hK
            exact ⟨ti, rest, tickPrice, r, s3, ss3, iter3, _, rfl, hT, hB, hpost, hK⟩
        · rw [if_neg hz] at hK
          exact ⟨ti, rest, tickPrice, r, s3, ss3, iter3, _, rfl, hT, hB, hpost, hK⟩

/-! ### B. loop theorems -/

/-- `onSide bfq a b`: `b` is reached from `a` by moving (weakly) in the direction of the trade
    (down for base-for-quote, up for quote-for-base) -/
def onSide (bfq : Bool) (a b : Dec) : Prop := if bfq then b.raw ≤ a.raw else a.raw ≤ b.raw

instance (bfq : Bool) (a b : Dec) : Decidable (onSide bfq a b) := by unfold onSide; infer_instance

theorem onSide_refl (bfq : Bool) (a : Dec) : onSide bfq a a := by cases bfq <;> simp [onSide]
theorem onSide_trans {bfq : Bool} {a b c : Dec} (h1 : onSide bfq a b) (h2 : onSide bfq b c) : onSide bfq a c := by
  cases bfq <;> simp only [onSide, if_true, Bool.false_eq_true, if_false] at * <;> omega

theorem swapLoop_zero (exactIn bfq upd : Bool) (lim fee : Dec) (tp : TickParams) (accVal : DecCoins) (denomIn : Denom)
    (noProg : Nat) (s : St) (ss : SwapState) (iter : List TickInfo) :
    swapLoop exactIn bfq upd lim fee tp accVal denomIn 0 noProg s ss iter = .err "fuel" := by
  rw [swapLoop.eq_def]

/-- **loop induction principle**: an invariant of the (swap state, remaining tick list) pair that is preserved by every
    successful bucket step, and a reflexive-transitive relation established by every step, hold for the whole loop -/
theorem swapLoop_invariant {exactIn bfq upd : Bool} {lim fee : Dec} {tp : TickParams} {accVal : DecCoins} {denomIn : Denom}
    (Inv : SwapState → List TickInfo → Prop) (Rel : SwapState → SwapState → Prop)
    (hrefl : ∀ x, Rel x x) (htrans : ∀ x y z, Rel x y → Rel y z → Rel x z)
    (hstep : ∀ ss ti rest tickPrice r ss3 iter3, Inv ss (ti :: rest) → 0 < ss.remaining.raw → ss.sqrtP ≠ lim →
       tickToSqrtPrice ti.tick tp = .ok tickPrice →
       bucket exactIn bfq lim fee ss.sqrtP (targetPrice bfq lim fee tickPrice) ss.liq ss.remaining = .ok r →
       StepPost exactIn bfq upd ss ti rest tickPrice r ss3 iter3 → Inv ss3 iter3 ∧ Rel ss ss3) :
    ∀ (fuel noProg : Nat) (s : St) (ss : SwapState) (iter : List TickInfo) (s' : St) (ss' : SwapState),
      Inv ss iter → swapLoop exactIn bfq upd lim fee tp accVal denomIn fuel noProg s ss iter = .ok (s', ss') →
      Rel ss ss' ∧ ∃ iter', Inv ss' iter' := by
  intro fuel
  induction fuel with
  | zero => intro noProg s ss iter s' ss' _ h; rw [swapLoop_zero] at h; cases h
  | succ fuel ih =>
    intro noProg s ss iter s' ss' hinv h
    rcases swapLoop_succ_ok h with he | ⟨hpos, hne, ti, rest, tickPrice, r, s3, ss3, iter3, noProg', hit, hT, hB, hpost, hrec⟩
    · subst he; exact ⟨hrefl _, iter, hinv⟩
    · subst hit
      obtain ⟨hinv3, hrel⟩ := hstep ss ti rest tickPrice r ss3 iter3 hinv hpos hne hT hB hpost
      obtain ⟨hrel', hex⟩ := ih noProg' s3 ss3 iter3 s' ss' hinv3 hrec
      exact ⟨htrans _ _ _ hrel hrel', hex⟩

/-- what the tick iterator must provide for the limit theorem: every tick price on the path lies within the limit -/
def TicksWithin (bfq : Bool) (lim : Dec) (tp : TickParams) (iter : List TickInfo) : Prop :=
  ∀ ti ∈ iter, ∀ v, tickToSqrtPrice ti.tick tp = .ok v → onSide bfq v lim

/-- **B1. the loop never moves the price beyond the limit** (all four modes), provided the start price is within the
    limit and so is every tick price on the path.  No assumption on liquidity, fees or amounts: the bound is enforced by
    the loop's own `invalid-computed-sqrt-price` check, not by the bucket arithmetic. -/
theorem swapLoop_within_limit {exactIn bfq upd : Bool} {lim fee : Dec} {tp : TickParams} {accVal : DecCoins} {denomIn : Denom}
    {fuel noProg : Nat} {s : St} {ss : SwapState} {iter : List TickInfo} {s' : St} {ss' : SwapState}
    (h0 : onSide bfq ss.sqrtP lim) (hticks : TicksWithin bfq lim tp iter)
    (h : swapLoop exactIn bfq upd lim fee tp accVal denomIn fuel noProg s ss iter = .ok (s', ss')) :
    onSide bfq ss'.sqrtP lim := by
  have := swapLoop_invariant (exactIn := exactIn) (bfq := bfq) (upd := upd) (lim := lim) (fee := fee) (tp := tp)
    (accVal := accVal) (denomIn := denomIn)
    (fun ss iter => onSide bfq ss.sqrtP lim ∧ TicksWithin bfq lim tp iter) (fun _ _ => True)
    (fun _ => trivial) (fun _ _ _ _ _ => trivial)
    (by
      intro ss ti rest tickPrice r ss3 iter3 hinv _ _ hT _ hpost
      refine ⟨?_, trivial⟩
      have htp : onSide bfq tickPrice lim := hinv.2 ti (List.mem_cons_self) tickPrice hT
      rcases hpost.cursor with ⟨he, hi, _⟩ | ⟨_, hord, hi, _⟩
      · subst hi
        refine ⟨?_, fun t ht => hinv.2 t (List.mem_cons_of_mem _ ht)⟩
        rw [hpost.price, ← he]; exact htp
      · subst hi
        refine ⟨?_, hinv.2⟩
        rw [hpost.price]
        cases bfq <;> simp only [onSide, if_true, Bool.false_eq_true, if_false] at * <;> omega)
    fuel noProg s ss iter s' ss' ⟨h0, hticks⟩ h
  obtain ⟨_, _, hinv⟩ := this
  exact hinv.1

/-- the bucket kernel selected by the swap mode -/
def kernelOf (exactIn bfq : Bool) (lim fee cur tgt liq rem : Dec) : Dec × Dec × Dec × Dec :=
  if exactIn then
    (if bfq then bfq_ComputeSwapWithinBucketOutGivenIn lim fee cur tgt liq rem
     else qfb_ComputeSwapWithinBucketOutGivenIn lim fee cur tgt liq rem)
  else
    (if bfq then bfq_ComputeSwapWithinBucketInGivenOut lim fee cur tgt liq rem
     else qfb_ComputeSwapWithinBucketInGivenOut lim fee cur tgt liq rem)

theorem bucket_ok_eq {exactIn bfq : Bool} {lim fee cur tgt liq rem : Dec} {r : Dec × Dec × Dec × Dec}
    (h : bucket exactIn bfq lim fee cur tgt liq rem = .ok r) : r = kernelOf exactIn bfq lim fee cur tgt liq rem := by
  unfold bucket bucketOutGivenIn bucketInGivenOut at h
  cases exactIn <;> cases bfq <;> simp only [if_true, Bool.false_eq_true, if_false] at h <;>
    split at h <;> cases h <;> rfl

/-- side condition under which the bucket arithmetic provably never moves the price against the trade:
    bfq exact-in needs a price of at least 1.0, qfb exact-out a non-degenerate bucket; the other two modes need nothing -/
def DirCond (exactIn bfq : Bool) (cur tgt liq : Dec) : Prop :=
  (exactIn = true → bfq = true → PREC ≤ cur.raw) ∧
  (exactIn = false → bfq = false → 0 < liq.raw → PREC + tgt.raw < 2 * (cur.raw * liq.raw))

/-- **A (uniform form)**: facts about one bucket step in any of the four modes -/
theorem bucket_facts {exactIn bfq : Bool} {lim fee cur tgt liq rem : Dec} {r : Dec × Dec × Dec × Dec}
    (hc : 0 < cur.raw) (ht : 0 < tgt.raw) (hside : onSide bfq cur tgt) (hl : 0 ≤ liq.raw) (hr : 0 ≤ rem.raw)
    (hf0 : 0 ≤ fee.raw) (hf1 : fee.raw < PREC)
    (h : bucket exactIn bfq lim fee cur tgt liq rem = .ok r) :
    (bfq = true → 0 < r.1.raw) ∧ (DirCond exactIn bfq cur tgt liq → onSide bfq cur r.1)
      ∧ (exactIn = false → bfq = true → tgt.raw ≤ r.1.raw)
      ∧ (0 < r.1.raw → 0 ≤ (amtInOf exactIn r).raw ∧ 0 ≤ (amtOutOf exactIn r).raw ∧ 0 ≤ r.2.2.2.raw) := by
  have hr' := bucket_ok_eq h
  subst hr'
  cases exactIn <;> cases bfq <;>
    simp only [kernelOf, amtInOf, amtOutOf, onSide, if_true, Bool.false_eq_true, if_false] at hside ⊢
  · -- exact-out, qfb
    have hin := qfb_inGivenOut_in_nonneg lim fee cur tgt liq rem hl hf0 hf1
    refine ⟨fun hb => hb.elim, fun hd => ?_, fun _ hb => hb.elim, fun hd => ⟨hin.1, ?_, hin.2⟩⟩
    · exact (qfb_inGivenOut_facts lim fee cur tgt liq rem hc hside hl hr (hd.2 rfl rfl)).1
    · have hsh := qfb_inGivenOut_shape lim fee cur tgt liq rem
      rcases hsh.1 with e | e <;> rw [e]
      · exact hr
      · exact baseDelta_any_nonneg _ _ _ _ hl hd hc
  · -- exact-out, bfq
    have hf := bfq_inGivenOut_facts lim fee cur tgt liq rem ht hside hl hr hf0 hf1
    exact ⟨fun _ => lt_of_lt_of_le ht hf.1, fun _ => hf.2.1, fun _ _ => hf.1, fun _ => ⟨hf.2.2.2.1, hf.2.2.1, hf.2.2.2.2⟩⟩
  · -- exact-in, qfb
    have hf := qfb_outGivenIn_facts lim fee cur tgt liq rem hc hside hl hr hf0 hf1
    exact ⟨fun hb => hb.elim, fun _ => hf.1, fun he => absurd he (by decide), fun _ => ⟨hf.2.1, hf.2.2.1, hf.2.2.2⟩⟩
  · -- exact-in, bfq
    have hf := bfq_outGivenIn_facts lim fee cur tgt liq rem ht hside hl hr hf0 hf1
    exact ⟨fun _ => hf.1, fun hd => hf.2.1 (hd.1 rfl rfl), fun he => absurd he (by decide),
      fun _ => ⟨hf.2.2.1, hf.2.2.2.1, hf.2.2.2.2⟩⟩

theorem target_facts (bfq : Bool) (lim fee cur tp : Dec) (h1 : onSide bfq cur lim) (h2 : onSide bfq cur tp) :
    onSide bfq cur (targetPrice bfq lim fee tp) ∧ onSide bfq (targetPrice bfq lim fee tp) lim
      ∧ (onSide bfq tp lim → targetPrice bfq lim fee tp = tp) := by
  cases bfq <;> simp only [onSide, targetPrice, if_true, Bool.false_eq_true, if_false] at *
  · unfold qfb_GetSqrtTargetPrice
    by_cases h : Dec.gt tp lim = true
    · rw [if_pos h]; simp only [Dec.gt, decide_eq_true_eq] at h
      exact ⟨h1, le_refl _, fun h3 => by omega⟩
    · rw [if_neg h]; simp only [Dec.gt, decide_eq_true_eq] at h
      exact ⟨h2, by omega, fun _ => rfl⟩
  · unfold bfq_GetSqrtTargetPrice
    by_cases h : Dec.lt tp lim = true
    · rw [if_pos h]; simp only [Dec.lt, decide_eq_true_eq] at h
      exact ⟨h1, le_refl _, fun h3 => by omega⟩
    · rw [if_neg h]; simp only [Dec.lt, decide_eq_true_eq] at h
      exact ⟨h2, by omega, fun _ => rfl⟩

/-- what the tick iterator must provide for the direction / monotonicity theorems, relative to the current price `p`
    and in-range liquidity `l`:
    * the active liquidity is zero or at least `Lmin` now and after every crossing (the C04 bookkeeping invariant:
      prefix sums of ±net along the path never go negative),
    * tick prices are met in the order of the trade, the first one at or beyond the current price. -/
def IterOK (bfq : Bool) (tp : TickParams) (Lmin : Int) : Dec → Dec → List TickInfo → Prop
  | _, l, [] => (l.raw = 0 ∨ Lmin ≤ l.raw)
  | p, l, ti :: rest => (l.raw = 0 ∨ Lmin ≤ l.raw) ∧
      ∀ v, tickToSqrtPrice ti.tick tp = .ok v → onSide bfq p v ∧ IterOK bfq tp Lmin v (Dec.add l (netOf bfq ti)) rest

theorem IterOK_liq {bfq : Bool} {tp : TickParams} {Lmin : Int} {p l : Dec} {iter : List TickInfo}
    (h : IterOK bfq tp Lmin p l iter) : l.raw = 0 ∨ Lmin ≤ l.raw := by
  cases iter with
  | nil => exact h
  | cons ti rest => exact h.1

/-- bookkeeping monotonicity between two swap states -/
def BookMono (a b : SwapState) : Prop :=
  a.calculated.raw ≤ b.calculated.raw ∧ a.feeTotal.raw ≤ b.feeTotal.raw ∧ a.growthPerLiq.raw ≤ b.growthPerLiq.raw

theorem res_ok_inj {α : Type} {a b : α} (h : (Res.ok a : Res α) = Res.ok b) : a = b := by cases h; rfl

/-- **B (master form)**.  Hypotheses:
    * fee rate in [0,1); for bfq a positive limit; positive start price within the limit;
    * `IterOK`: active liquidity zero or ≥ `Lmin` (> 0) along the path, tick prices ordered in the trade direction;
    * `TicksWithin` (tick prices within the limit) — not needed for bfq exact-out, where the bucket arithmetic itself
      respects the target;
    * qfb exact-out only: `PREC + lim < 2·P₀·Lmin` (non-degenerate buckets, see `qfb_inGivenOut_facts`).
    Conclusions: final price positive and within the limit; the price never moved against the trade — for bfq exact-in
    only under `PREC ≤ lim` (all prices on the path ≥ 1.0), see `bfq_outGivenIn_against_trade` —; `calculated`,
    `feeTotal`, `growthPerLiq` never decrease. -/
theorem swapLoop_master {exactIn bfq upd : Bool} {lim fee : Dec} {tp : TickParams} {accVal : DecCoins} {denomIn : Denom}
    {fuel noProg : Nat} {s : St} {ss : SwapState} {iter : List TickInfo} {s' : St} {ss' : SwapState} {Lmin : Int}
    (hf0 : 0 ≤ fee.raw) (hf1 : fee.raw < PREC) (hlim0 : bfq = true → 0 < lim.raw)
    (hp0 : 0 < ss.sqrtP.raw) (hside0 : onSide bfq ss.sqrtP lim)
    (hLmin : 0 < Lmin) (hiter : IterOK bfq tp Lmin ss.sqrtP ss.liq iter)
    (hticks : (exactIn = false ∧ bfq = true) ∨ TicksWithin bfq lim tp iter)
    (hbig : exactIn = false → bfq = false → PREC + lim.raw < 2 * (ss.sqrtP.raw * Lmin))
    (h : swapLoop exactIn bfq upd lim fee tp accVal denomIn fuel noProg s ss iter = .ok (s', ss')) :
    0 < ss'.sqrtP.raw ∧ onSide bfq ss'.sqrtP lim
      ∧ ((exactIn = true → bfq = true → PREC ≤ lim.raw) → onSide bfq ss.sqrtP ss'.sqrtP)
      ∧ BookMono ss ss' := by
  have := swapLoop_invariant (exactIn := exactIn) (bfq := bfq) (upd := upd) (lim := lim) (fee := fee) (tp := tp)
    (accVal := accVal) (denomIn := denomIn)
    (fun x it => 0 < x.sqrtP.raw ∧ onSide bfq x.sqrtP lim ∧ (bfq = false → ss.sqrtP.raw ≤ x.sqrtP.raw)
        ∧ IterOK bfq tp Lmin x.sqrtP x.liq it ∧ ((exactIn = false ∧ bfq = true) ∨ TicksWithin bfq lim tp it))
    (fun x y => ((exactIn = true → bfq = true → PREC ≤ lim.raw) → onSide bfq x.sqrtP y.sqrtP) ∧ BookMono x y)
    (fun x => ⟨fun _ => onSide_refl _ _, le_refl _, le_refl _, le_refl _⟩)
    (fun x y z h1 h2 => ⟨fun hd => onSide_trans (h1.1 hd) (h2.1 hd),
      le_trans h1.2.1 h2.2.1, le_trans h1.2.2.1 h2.2.2.1, le_trans h1.2.2.2 h2.2.2.2⟩)
    (by
      intro x ti rest tickPrice r x3 iter3 hinv hrem _ hT hB hpost
      obtain ⟨hxp, hxlim, hxP0, hxiter, hxt⟩ := hinv
      have hliq := hxiter.1
      obtain ⟨htside, hrestOK⟩ := hxiter.2 tickPrice hT
      have hl : 0 ≤ x.liq.raw := by omega
      obtain ⟨htg1, htg2, htg3⟩ := target_facts bfq lim fee x.sqrtP tickPrice hxlim htside
      have htpos : 0 < (targetPrice bfq lim fee tickPrice).raw := by
        cases bfq
        · simp only [onSide, Bool.false_eq_true, if_false] at htg1; omega
        · have := hlim0 rfl; simp only [onSide, if_true] at htg2; omega
      obtain ⟨hb1, hb2, hb3, hb4⟩ := bucket_facts hxp htpos htg1 hl (le_of_lt hrem) hf0 hf1 hB
      -- direction of this step
      have hdir : (exactIn = true → bfq = true → PREC ≤ lim.raw) → onSide bfq x.sqrtP r.1 := by
        intro hd
        apply hb2
        refine ⟨fun e b => ?_, fun e b hlp => ?_⟩
        · have := hd e b; subst b; simp only [onSide, if_true] at hxlim; omega
        · have hbig' := hbig e b
          have h1 := hxP0 b
          subst b
          simp only [onSide, Bool.false_eq_true, if_false] at htg2
          have h2 : Lmin ≤ x.liq.raw := by omega
          have h3 : ss.sqrtP.raw * Lmin ≤ x.sqrtP.raw * x.liq.raw :=
            Int.mul_le_mul h1 h2 (le_of_lt hLmin) (le_of_lt hxp)
          omega
      have hdirq : bfq = false → x.sqrtP.raw ≤ r.1.raw := by
        intro b
        have := hdir (fun _ b' => by rw [b] at b'; cases b')
        subst b; simpa [onSide] using this
      have hnpos : 0 < r.1.raw := by
        cases hbq : bfq
        · have := hdirq hbq; omega
        · exact hb1 hbq
      obtain ⟨hain, haout, hafee⟩ := hb4 hnpos
      -- the limit
      have hnlim : onSide bfq r.1 lim := by
        rcases hxt with ⟨e, b⟩ | htw
        · have := hb3 e b
          subst b; simp only [onSide, if_true] at htg2 ⊢; omega
        · have htp : onSide bfq tickPrice lim := htw ti (List.mem_cons_self) tickPrice hT
          rcases hpost.cursor with ⟨he, _, _⟩ | ⟨_, hord, _, _⟩
          · rw [← he]; exact htp
          · cases bfq <;> simp only [onSide, if_true, Bool.false_eq_true, if_false] at * <;> omega
      refine ⟨⟨?_, ?_, ?_, ?_, ?_⟩, ?_, ?_, ?_, ?_⟩
      · rw [hpost.price]; exact hnpos
      · rw [hpost.price]; exact hnlim
      · intro b; rw [hpost.price]; have := hdirq b; have := hxP0 b; omega
      · rcases hpost.cursor with ⟨he, hi, hlq⟩ | ⟨_, hord, hi, hlq⟩
        · subst hi; rw [hpost.price, ← he, hlq]; exact hrestOK
        · subst hi; rw [hpost.price, hlq]
          refine ⟨hliq, fun v hv => ?_⟩
          have : v = tickPrice := res_ok_inj (hv.symm.trans hT)
          subst this
          refine ⟨?_, hrestOK⟩
          cases bfq <;> simp only [onSide, if_true, Bool.false_eq_true, if_false] at * <;> omega
      · rcases hxt with hm | htw
        · exact Or.inl hm
        · right
          rcases hpost.cursor with ⟨_, hi, _⟩ | ⟨_, _, hi, _⟩
          · subst hi; exact fun t ht => htw t (List.mem_cons_of_mem _ ht)
          · subst hi; exact htw
      · intro hd; rw [hpost.price]; exact hdir hd
      · rw [hpost.calcd]
        cases exactIn <;> simp only [Dec.add, if_true, Bool.false_eq_true, if_false] <;> omega
      · rw [hpost.feeTot]
        cases upd <;> simp only [Dec.add, if_true, Bool.false_eq_true, if_false] <;> omega
      · rw [hpost.growth]
        cases upd
        · simp
        · simp only [if_true]
          by_cases hz : x.liq.isZero = true
          · rw [if_pos hz]
          · rw [if_neg hz]
            have hz' : x.liq.raw ≠ 0 := by simpa [Dec.isZero] using hz
            have := (quoTruncate_pos_bounds r.2.2.2 x.liq hafee (by omega)).2.2
            simp only [Dec.add]; omega)
    fuel noProg s ss iter s' ss' ⟨hp0, hside0, fun _ => le_refl _, hiter, hticks⟩ h
  obtain ⟨⟨hdir, hmono⟩, _, hinv⟩ := this
  exact ⟨hinv.1, hinv.2.1, hdir, hmono⟩

/-- **B2. price direction over the whole loop** (statement of the task, with the hypotheses it needs).
    `hge1` (limit ≥ 1.0) is used only for bfq exact-in, `hbig` only for qfb exact-out, `hticks` not for bfq exact-out. -/
theorem swapLoop_price_direction {exactIn bfq upd : Bool} {lim fee : Dec} {tp : TickParams} {accVal : DecCoins} {denomIn : Denom}
    {fuel noProg : Nat} {s : St} {ss : SwapState} {iter : List TickInfo} {s' : St} {ss' : SwapState} {Lmin : Int}
    (hf0 : 0 ≤ fee.raw) (hf1 : fee.raw < PREC) (hlim0 : bfq = true → 0 < lim.raw)
    (hp0 : 0 < ss.sqrtP.raw) (hside0 : onSide bfq ss.sqrtP lim)
    (hLmin : 0 < Lmin) (hiter : IterOK bfq tp Lmin ss.sqrtP ss.liq iter)
    (hticks : (exactIn = false ∧ bfq = true) ∨ TicksWithin bfq lim tp iter)
    (hge1 : exactIn = true → bfq = true → PREC ≤ lim.raw)
    (hbig : exactIn = false → bfq = false → PREC + lim.raw < 2 * (ss.sqrtP.raw * Lmin))
    (h : swapLoop exactIn bfq upd lim fee tp accVal denomIn fuel noProg s ss iter = .ok (s', ss')) :
    (bfq = true → lim.raw ≤ ss'.sqrtP.raw ∧ ss'.sqrtP.raw ≤ ss.sqrtP.raw)
    ∧ (bfq = false → ss.sqrtP.raw ≤ ss'.sqrtP.raw ∧ ss'.sqrtP.raw ≤ lim.raw) := by
  obtain ⟨_, hl, hd, _⟩ := swapLoop_master hf0 hf1 hlim0 hp0 hside0 hLmin hiter hticks hbig h
  have hd := hd hge1
  constructor
  · intro b; subst b; simp only [onSide, if_true] at hl hd; exact ⟨hl, hd⟩
  · intro b; subst b; simp only [onSide, Bool.false_eq_true, if_false] at hl hd; exact ⟨hd, hl⟩

/-- bfq exact-out at full strength: no condition on tick prices vs. the limit, no numeric side condition -/
theorem swapLoop_price_direction_bfq_exactOut {upd : Bool} {lim fee : Dec} {tp : TickParams} {accVal : DecCoins} {denomIn : Denom}
    {fuel noProg : Nat} {s : St} {ss : SwapState} {iter : List TickInfo} {s' : St} {ss' : SwapState}
    (hf0 : 0 ≤ fee.raw) (hf1 : fee.raw < PREC) (hlim0 : 0 < lim.raw) (hside0 : lim.raw ≤ ss.sqrtP.raw)
    (hiter : IterOK true tp 1 ss.sqrtP ss.liq iter)
    (h : swapLoop false true upd lim fee tp accVal denomIn fuel noProg s ss iter = .ok (s', ss')) :
    lim.raw ≤ ss'.sqrtP.raw ∧ ss'.sqrtP.raw ≤ ss.sqrtP.raw :=
  (swapLoop_price_direction hf0 hf1 (fun _ => hlim0) (by omega) (by simpa [onSide] using hside0) (by decide) hiter
    (Or.inl ⟨rfl, rfl⟩) (fun e => by cases e) (fun _ b => by cases b) h).1 rfl

/-- qfb exact-in: no numeric side condition -/
theorem swapLoop_price_direction_qfb_exactIn {upd : Bool} {lim fee : Dec} {tp : TickParams} {accVal : DecCoins} {denomIn : Denom}
    {fuel noProg : Nat} {s : St} {ss : SwapState} {iter : List TickInfo} {s' : St} {ss' : SwapState}
    (hf0 : 0 ≤ fee.raw) (hf1 : fee.raw < PREC) (hp0 : 0 < ss.sqrtP.raw) (hside0 : ss.sqrtP.raw ≤ lim.raw)
    (hiter : IterOK false tp 1 ss.sqrtP ss.liq iter) (hticks : TicksWithin false lim tp iter)
    (h : swapLoop true false upd lim fee tp accVal denomIn fuel noProg s ss iter = .ok (s', ss')) :
    ss.sqrtP.raw ≤ ss'.sqrtP.raw ∧ ss'.sqrtP.raw ≤ lim.raw :=
  (swapLoop_price_direction hf0 hf1 (fun b => by cases b) hp0 (by simpa [onSide] using hside0) (by decide) hiter
    (Or.inr hticks) (fun _ b => by cases b) (fun e => by cases e) h).2 rfl

/-- **B3. bookkeeping monotonicity over the whole loop**, exact-in and exact-out, with or without accumulator updates:
    `calculated`, `feeTotal` and `growthPerLiq` never decrease.  (No `PREC ≤ lim` needed, also for bfq exact-in.) -/
theorem swapLoop_calculated_mono {exactIn bfq upd : Bool} {lim fee : Dec} {tp : TickParams} {accVal : DecCoins} {denomIn : Denom}
    {fuel noProg : Nat} {s : St} {ss : SwapState} {iter : List TickInfo} {s' : St} {ss' : SwapState} {Lmin : Int}
    (hf0 : 0 ≤ fee.raw) (hf1 : fee.raw < PREC) (hlim0 : bfq = true → 0 < lim.raw)
    (hp0 : 0 < ss.sqrtP.raw) (hside0 : onSide bfq ss.sqrtP lim)
    (hLmin : 0 < Lmin) (hiter : IterOK bfq tp Lmin ss.sqrtP ss.liq iter)
    (hticks : (exactIn = false ∧ bfq = true) ∨ TicksWithin bfq lim tp iter)
    (hbig : exactIn = false → bfq = false → PREC + lim.raw < 2 * (ss.sqrtP.raw * Lmin))
    (h : swapLoop exactIn bfq upd lim fee tp accVal denomIn fuel noProg s ss iter = .ok (s', ss')) :
    ss.calculated.raw ≤ ss'.calculated.raw ∧ ss.feeTotal.raw ≤ ss'.feeTotal.raw
      ∧ ss.growthPerLiq.raw ≤ ss'.growthPerLiq.raw :=
  (swapLoop_master hf0 hf1 hlim0 hp0 hside0 hLmin hiter hticks hbig h).2.2.2

/-! ### C. `computeSwap` -/

def ss0Of (p : Pool) (amount : Int) : SwapState := ⟨Dec.ofInt amount, Dec.zero, p.sqrtP, p.tick, p.liq, Dec.zero, Dec.zero, []⟩

def finishSwap (exactIn upd : Bool) (acc : Accum) (denomIn : Denom) (amount : Int) (s1 : St) (ss : SwapState) : St × SwapOut :=
  let s2 := if upd then { setAccum s1 { acc with value := DecCoins.add acc.value [(denomIn, ss.growthPerLiq)] } with lastTrace := ss.trace } else s1
  let (ain, aout) :=
    if exactIn then (Dec.truncateInt (Dec.ceil (Dec.sub (Dec.ofInt amount) ss.remaining)), Dec.truncateInt ss.calculated)
    else (Dec.truncateInt (Dec.ceil ss.calculated), Dec.truncateInt (Dec.sub (Dec.ofInt amount) ss.remaining))
  (s2, ⟨ain, aout, ss.feeTotal, ss.tick, ss.liq, ss.sqrtP⟩)

theorem finishSwap_sqrtP (exactIn upd : Bool) (acc : Accum) (denomIn : Denom) (amount : Int) (s1 : St) (ss : SwapState) :
    (finishSwap exactIn upd acc denomIn amount s1 ss).2.sqrtP = ss.sqrtP := by
  cases exactIn <;> rfl

theorem computeSwap_eq (exactIn : Bool) (s : St) (pool : Nat) (denomIn denomOut : Denom) (amount : Int) (fee mLimit : Dec)
    (upd : Bool) :
    computeSwap exactIn s pool denomIn denomOut amount fee mLimit upd =
      match getPool s pool with
      | none => .err "pool-not-found"
      | some p =>
        if (!poolLive p) = true then .err "empty-liquidity" else
        if denomOut ≠ p.base ∧ denomOut ≠ p.quote then .err "invalid-out-denom" else
        if denomIn ≠ p.base ∧ denomIn ≠ p.quote then .err "invalid-in-denom" else
        if denomOut = denomIn then .err "denom-duplication" else
        match getAccum s pool with
        | none => .err "accum-not-found"
        | some acc =>
          (sqrtPriceLimit mLimit (decide (denomIn = p.base))).bind fun lim =>
          if (if denomIn = p.base then bfq_ValidateSqrtPrice_err lim fee lim p.sqrtP
              else qfb_ValidateSqrtPrice_err lim fee lim p.sqrtP) = true then .err "invalid-sqrt-price" else
          (swapLoop exactIn (decide (denomIn = p.base)) upd lim fee p.tp acc.value denomIn LOOP_FUEL 0 s (ss0Of p amount)
              (tickIter s pool p.tick (decide (denomIn = p.base)))).bind fun x =>
          if x.2.remaining.isNegative = true then .err "over-charge" else
          .ok (finishSwap exactIn upd acc denomIn amount x.1 x.2) := by
  unfold computeSwap
  cases getPool s pool with
  | none => rfl
  | some p =>
    cases getAccum s pool with
    | none => rfl
    | some acc => rfl


/-- inversion of a successful `computeSwap`: the pool, the limit that passed validation, and the successful loop run
    whose final price is reported -/
theorem computeSwap_ok_inv {exactIn : Bool} {s : St} {pool : Nat} {denomIn denomOut : Denom} {amount : Int} {fee mLimit : Dec}
    {upd : Bool} {s2 : St} {o : SwapOut}
    (h : computeSwap exactIn s pool denomIn denomOut amount fee mLimit upd = .ok (s2, o)) :
    ∃ p acc lim s1 ss, getPool s pool = some p ∧ getAccum s pool = some acc
      ∧ sqrtPriceLimit mLimit (decide (denomIn = p.base)) = .ok lim
      ∧ (if denomIn = p.base then bfq_ValidateSqrtPrice_err lim fee lim p.sqrtP
          else qfb_ValidateSqrtPrice_err lim fee lim p.sqrtP) = false
      ∧ swapLoop exactIn (decide (denomIn = p.base)) upd lim fee p.tp acc.value denomIn LOOP_FUEL 0 s (ss0Of p amount)
          (tickIter s pool p.tick (decide (denomIn = p.base))) = .ok (s1, ss)
      ∧ o.sqrtP = ss.sqrtP := by
  rw [computeSwap_eq] at h
  cases hp : getPool s pool with
  | none => rw [hp] at h; cases h
  | some p =>
    rw [hp] at h
    simp only [] at h
    by_cases c1 : (!poolLive p) = true
    · rw [if_pos c1] at h; cases h
    rw [if_neg c1] at h
    by_cases c2 : denomOut ≠ p.base ∧ denomOut ≠ p.quote
    · rw [if_pos c2] at h; cases h
    rw [if_neg c2] at h
    by_cases c3 : denomIn ≠ p.base ∧ denomIn ≠ p.quote
    · rw [if_pos c3] at h; cases h
    rw [if_neg c3] at h
    by_cases c4 : denomOut = denomIn
    · rw [if_pos c4] at h; cases h
    rw [if_neg c4] at h
    cases ha : getAccum s pool with
    | none => rw [ha] at h; cases h
    | some acc =>
      rw [ha] at h
      simp only [] at h
      obtain ⟨lim, hlim, h⟩ := bind_ok h
      by_cases c5 : (if denomIn = p.base then bfq_ValidateSqrtPrice_err lim fee lim p.sqrtP
              else qfb_ValidateSqrtPrice_err lim fee lim p.sqrtP) = true
      · rw [if_pos c5] at h; cases h
      rw [if_neg c5] at h
      obtain ⟨x, hx, h⟩ := bind_ok h
      by_cases c6 : x.2.remaining.isNegative = true
      · rw [if_pos c6] at h; cases h
      rw [if_neg c6] at h
      have h' := res_ok_inj h
      refine ⟨p, acc, lim, x.1, x.2, rfl, rfl, hlim, by simpa using c5, hx, ?_⟩
      have := finishSwap_sqrtP exactIn upd acc denomIn amount x.1 x.2
      rw [h'] at this; exact this

theorem MinSqrtPrice_raw : MinSqrtPrice.raw = 1 := rfl

/-- the default limit (`mLimit = 0`, used by the quote queries) is the price bound itself -/
theorem sqrtPriceLimit_zero (mLimit : Dec) (bfq : Bool) (hz : mLimit.isZero = true) :
    sqrtPriceLimit mLimit bfq = .ok (if bfq then MinSqrtPrice else MaxSqrtPrice) := by
  simp [sqrtPriceLimit, hz]

/-- **C. `computeSwap` never reports a price beyond the limit, hence never beyond the price bounds.**
    On `.ok`, with `p` the pool and `lim` the validated limit:
    base-for-quote:  `MinSqrtPrice ≤ lim ≤ p.sqrtP`  and  `lim ≤ o.sqrtP`;
    quote-for-base:  `p.sqrtP ≤ lim ≤ MaxSqrtPrice`  and  `o.sqrtP ≤ lim`
    (the bounds on `o.sqrtP` given that every initialised tick on the path has its price within the limit). -/
theorem computeSwap_price_within_bounds {exactIn : Bool} {s : St} {pool : Nat} {denomIn denomOut : Denom} {amount : Int}
    {fee mLimit : Dec} {upd : Bool} {s2 : St} {o : SwapOut}
    (h : computeSwap exactIn s pool denomIn denomOut amount fee mLimit upd = .ok (s2, o)) :
    ∃ p lim, getPool s pool = some p ∧ sqrtPriceLimit mLimit (decide (denomIn = p.base)) = .ok lim
      ∧ (denomIn = p.base → MinSqrtPrice.raw ≤ lim.raw ∧ lim.raw ≤ p.sqrtP.raw)
      ∧ (denomIn ≠ p.base → p.sqrtP.raw ≤ lim.raw ∧ lim.raw ≤ MaxSqrtPrice.raw)
      ∧ (TicksWithin (decide (denomIn = p.base)) lim p.tp (tickIter s pool p.tick (decide (denomIn = p.base))) →
          (denomIn = p.base → MinSqrtPrice.raw ≤ o.sqrtP.raw ∧ lim.raw ≤ o.sqrtP.raw)
          ∧ (denomIn ≠ p.base → o.sqrtP.raw ≤ lim.raw ∧ o.sqrtP.raw ≤ MaxSqrtPrice.raw)) := by
  obtain ⟨p, acc, lim, s1, ss, hp, _, hlim, hval, hloop, ho⟩ := computeSwap_ok_inv h
  refine ⟨p, lim, hp, hlim, ?_⟩
  by_cases hb : denomIn = p.base
  · rw [if_pos hb] at hval
    have hv := validate_bfq lim fee lim p.sqrtP hval
    refine ⟨fun _ => hv, fun hn => absurd hb hn, fun htw => ⟨fun _ => ?_, fun hn => absurd hb hn⟩⟩
    have h0 : onSide (decide (denomIn = p.base)) (ss0Of p amount).sqrtP lim := by
      simp only [hb, decide_true, onSide, if_true, ss0Of]; exact hv.2
    have := swapLoop_within_limit h0 htw hloop
    simp only [hb, decide_true, onSide, if_true] at this
    rw [ho]; omega
  · rw [if_neg hb] at hval
    have hv := validate_qfb lim fee lim p.sqrtP hval
    refine ⟨fun hn => absurd hn hb, fun _ => hv, fun htw => ⟨fun hn => absurd hn hb, fun _ => ?_⟩⟩
    have h0 : onSide (decide (denomIn = p.base)) (ss0Of p amount).sqrtP lim := by
      simp only [hb, decide_false, onSide, Bool.false_eq_true, if_false, ss0Of]; exact hv.1
    have := swapLoop_within_limit h0 htw hloop
    simp only [hb, decide_false, onSide, Bool.false_eq_true, if_false] at this
    rw [ho]; omega

/-- **C2. `computeSwap`: the reported price lies between the pool price and the price bound, on the side of the trade.**
    Hypotheses on the pool `p` as in `swapLoop_price_direction` (quantified over the validated limit). -/
theorem computeSwap_price_direction {exactIn : Bool} {s : St} {pool : Nat} {denomIn denomOut : Denom} {amount : Int}
    {fee mLimit : Dec} {upd : Bool} {s2 : St} {o : SwapOut} {p : Pool} {Lmin : Int}
    (hp : getPool s pool = some p)
    (hf0 : 0 ≤ fee.raw) (hf1 : fee.raw < PREC) (hp0 : 0 < p.sqrtP.raw) (hLmin : 0 < Lmin)
    (hiter : IterOK (decide (denomIn = p.base)) p.tp Lmin p.sqrtP p.liq (tickIter s pool p.tick (decide (denomIn = p.base))))
    (hticks : ∀ lim, sqrtPriceLimit mLimit (decide (denomIn = p.base)) = .ok lim →
      (exactIn = false ∧ denomIn = p.base) ∨
        TicksWithin (decide (denomIn = p.base)) lim p.tp (tickIter s pool p.tick (decide (denomIn = p.base))))
    (hge1 : ∀ lim, sqrtPriceLimit mLimit (decide (denomIn = p.base)) = .ok lim →
      exactIn = true → denomIn = p.base → PREC ≤ lim.raw)
    (hbig : ∀ lim, sqrtPriceLimit mLimit (decide (denomIn = p.base)) = .ok lim →
      exactIn = false → denomIn ≠ p.base → PREC + lim.raw < 2 * (p.sqrtP.raw * Lmin))
    (h : computeSwap exactIn s pool denomIn denomOut amount fee mLimit upd = .ok (s2, o)) :
    (denomIn = p.base → MinSqrtPrice.raw ≤ o.sqrtP.raw ∧ o.sqrtP.raw ≤ p.sqrtP.raw)
    ∧ (denomIn ≠ p.base → p.sqrtP.raw ≤ o.sqrtP.raw ∧ o.sqrtP.raw ≤ MaxSqrtPrice.raw) := by
  obtain ⟨p', acc, lim, s1, ss, hp', _, hlim, hval, hloop, ho⟩ := computeSwap_ok_inv h
  have : p' = p := by rw [hp] at hp'; cases hp'; rfl
  subst this
  by_cases hb : denomIn = p'.base
  · rw [if_pos hb] at hval
    have hv := validate_bfq lim fee lim p'.sqrtP hval
    have hd : decide (denomIn = p'.base) = true := by simp [hb]
    rw [hd] at hloop hiter hlim
    have hres := (swapLoop_price_direction (ss := ss0Of p' amount) hf0 hf1
      (fun _ => by have := MinSqrtPrice_raw; omega) hp0 (by simpa [onSide, ss0Of] using hv.2) hLmin hiter
      (by rcases hticks lim (by rw [hd]; exact hlim) with ⟨e, _⟩ | t
          · exact Or.inl ⟨e, rfl⟩
          · rw [hd] at t; exact Or.inr t)
      (fun e _ => hge1 lim (by rw [hd]; exact hlim) e hb) (fun _ b => by cases b) hloop).1 rfl
    refine ⟨fun _ => ?_, fun hn => absurd hb hn⟩
    rw [ho]; simp only [ss0Of] at hres; omega
  · rw [if_neg hb] at hval
    have hv := validate_qfb lim fee lim p'.sqrtP hval
    have hd : decide (denomIn = p'.base) = false := by simp [hb]
    rw [hd] at hloop hiter hlim
    have hres := (swapLoop_price_direction (ss := ss0Of p' amount) hf0 hf1
      (fun b => by cases b) hp0 (by simpa [onSide, ss0Of] using hv.1) hLmin hiter
      (by rcases hticks lim (by rw [hd]; exact hlim) with ⟨_, e⟩ | t
          · exact absurd e hb
          · rw [hd] at t; exact Or.inr t)
      (fun _ b => by cases b) (fun e _ => hbig lim (by rw [hd]; exact hlim) e hb) hloop).2 rfl
    refine ⟨fun hn => absurd hn hb, fun _ => ?_⟩
    rw [ho]; simp only [ss0Of] at hres; omega

/-! ### E. counterexamples (statements that are FALSE of the regenerated kernels) and non-vacuity -/

/-- **qfb exact-in overshoots the target.**  cur = 1.0, tgt = 1.0 + 1 ulp, liq = 10⁶, rem = 1 unit, fee 0.3 %:
    the bucket needs `⌈·⌉ = 1` whole unit (`CalcAmountQuoteDelta … roundUp` is `Ceil`ed to an integer), the fee-reduced
    0.997 is "not enough", and the short-step formula then moves the price to 1.000000997 ≫ tgt. -/
theorem qfb_outGivenIn_overshoots_target :
    (⟨PREC⟩ : Dec).raw ≤ (⟨PREC + 1⟩ : Dec).raw ∧
    qfb_ComputeSwapWithinBucketOutGivenIn_ok ⟨0⟩ ⟨3000000000000000⟩ ⟨PREC⟩ ⟨PREC + 1⟩ ⟨1000000 * PREC⟩ ⟨PREC⟩ = true ∧
    (qfb_ComputeSwapWithinBucketOutGivenIn ⟨0⟩ ⟨3000000000000000⟩ ⟨PREC⟩ ⟨PREC + 1⟩ ⟨1000000 * PREC⟩ ⟨PREC⟩).1.raw
      = 1000000997000000000 := by decide +kernel

/-- **bfq exact-in overshoots the target** (same mechanism, downwards): next = 0.999999003… < tgt = 1.0 − 1 ulp -/
theorem bfq_outGivenIn_overshoots_target :
    bfq_ComputeSwapWithinBucketOutGivenIn_ok ⟨1⟩ ⟨3000000000000000⟩ ⟨PREC⟩ ⟨PREC - 1⟩ ⟨1000000 * PREC⟩ ⟨PREC⟩ = true ∧
    (bfq_ComputeSwapWithinBucketOutGivenIn ⟨1⟩ ⟨3000000000000000⟩ ⟨PREC⟩ ⟨PREC - 1⟩ ⟨1000000 * PREC⟩ ⟨PREC⟩).1.raw
      = 999999003000994009 := by decide +kernel

/-- **bfq exact-in moves the price AGAINST the trade** (base in, price up by one ulp) at a price below 1.0:
    cur = 1.000000007·10⁻⁹, liq = 10⁶ + 1 ulp, fee 0, rem = 10⁻⁹.  `⌈liq·cur⌉` rounds up by almost a full ulp, the
    denominator `liq + ⌊rem·cur⌋` grows by a single ulp, and `⌈·/·⌉` lands above `cur`. -/
theorem bfq_outGivenIn_against_trade :
    bfq_ComputeSwapWithinBucketOutGivenIn_ok ⟨1⟩ ⟨0⟩ ⟨1000000007⟩ ⟨1⟩ ⟨1000000 * PREC + 1⟩ ⟨1000000000⟩ = true ∧
    (bfq_ComputeSwapWithinBucketOutGivenIn ⟨1⟩ ⟨0⟩ ⟨1000000007⟩ ⟨1⟩ ⟨1000000 * PREC + 1⟩ ⟨1000000000⟩).1.raw
      = 1000000008 := by decide +kernel

/-- **qfb exact-out overshoots the target** by one ulp (all three roundings of the next-price formula go up) -/
theorem qfb_inGivenOut_overshoots_target :
    qfb_ComputeSwapWithinBucketInGivenOut_ok ⟨0⟩ ⟨0⟩ ⟨500000000000000007⟩ ⟨500000000000000008⟩ ⟨PREC + 1⟩ ⟨3⟩ = true ∧
    (qfb_ComputeSwapWithinBucketInGivenOut ⟨0⟩ ⟨0⟩ ⟨500000000000000007⟩ ⟨500000000000000008⟩ ⟨PREC + 1⟩ ⟨3⟩).1.raw
      = 500000000000000009 := by decide +kernel

/-- **qfb exact-out can hit a zero denominator** (Go: division-by-zero panic in `QuoRoundUp`) on a degenerate bucket:
    cur = MinSqrtPrice, liq = 1 ulp, request below the bucket content.  This is the case excluded by the side
    condition `PREC + tgt < 2·cur·liq` of `qfb_inGivenOut_facts`. -/
theorem qfb_inGivenOut_zero_denominator :
    (⟨500000000000000000⟩ : Dec).raw < (CalcAmountBaseDelta ⟨1⟩ ⟨PREC + 1⟩ ⟨1⟩ false).raw ∧
    qfb_ComputeSwapWithinBucketInGivenOut_ok ⟨0⟩ ⟨0⟩ ⟨1⟩ ⟨PREC + 1⟩ ⟨1⟩ ⟨500000000000000000⟩ = false := by decide +kernel

/-! loop level: a tick spacing of ×10 per tick keeps `tickToSqrtPrice` / `sqrtPriceToTick` cheap to evaluate -/
def tp10 : TickParams := ⟨⟨10 * PREC⟩, ⟨0⟩⟩
def rawOr (r : Res Dec) : Int := match r with | .ok v => v.raw | _ => -1
def finalPrice (r : Res (St × SwapState)) : Int := match r with | .ok (_, x) => x.sqrtP.raw | _ => -1

theorem res_of_rawOr {r : Res Dec} {n : Int} (hn : n ≠ -1) (h : rawOr r = n) : r = .ok ⟨n⟩ := by
  cases r with
  | ok v => cases v; simp [rawOr] at h; simp [h]
  | err c => simp [rawOr] at h; omega
  | panic k => simp [rawOr] at h; omega

theorem ok_of_finalPrice {r : Res (St × SwapState)} {n : Int} (hn : n ≠ -1) (h : finalPrice r = n) :
    ∃ s' ss', r = .ok (s', ss') ∧ ss'.sqrtP.raw = n := by
  cases r with
  | ok v => exact ⟨v.1, v.2, rfl, h⟩
  | err c => simp [finalPrice] at h; omega
  | panic k => simp [finalPrice] at h; omega

def tiUp : TickInfo := ⟨0, 1, ⟨0⟩, ⟨0⟩, []⟩
def tiMin : TickInfo := ⟨0, TICK_MIN, ⟨0⟩, ⟨0⟩, []⟩

/-- **loop level, bfq exact-in with fee 0: the loop returns `.ok` with the price ABOVE its start** (1000000008 > 1000000007).
    So `ss'.sqrtP ≤ ss.sqrtP` is false for `swapLoop` without `PREC ≤ lim`.  (`computeSwap` rejects this particular run
    afterwards with "over-charge": the step consumed far more than `remaining`.) -/
theorem swapLoop_bfq_exactIn_against_trade :
    finalPrice (swapLoop true true false ⟨1⟩ ⟨0⟩ tp10 [] "base" 3 0 {}
      ⟨⟨1000000000⟩, ⟨0⟩, ⟨1000000007⟩, -18, ⟨1000000 * PREC + 1⟩, ⟨0⟩, ⟨0⟩, []⟩ [tiMin]) = 1000000008 := by
  decide +kernel

/-- **loop level, qfb exact-in with a custom limit strictly inside the next tick: the loop returns `.ok` with the price
    BEYOND the limit** (1.000000997 > lim = 1.0 + 1 ulp; next tick price 3.16…).  So `TicksWithin` cannot be dropped from
    `swapLoop_within_limit`: a limit that is not a tick price is only honoured up to the rounding of one whole token unit.
    (The message handlers always pass the extreme limits Min/MaxSqrtPrice, for which `TicksWithin` is the natural
    "tick prices lie within the price bounds".) -/
theorem swapLoop_qfb_exactIn_beyond_limit :
    finalPrice (swapLoop true false false ⟨PREC + 1⟩ ⟨3000000000000000⟩ tp10 [] "quote" 3 0 {}
      ⟨⟨PREC⟩, ⟨0⟩, ⟨PREC⟩, 0, ⟨1000000 * PREC⟩, ⟨0⟩, ⟨0⟩, []⟩ [tiUp]) = 1000000997000000000 := by
  decide +kernel

/-! ### D. non-vacuity: a concrete one-position pool on which every hypothesis holds and the loop succeeds -/

theorem tickUp_price : tickToSqrtPrice 1 tp10 = .ok ⟨3162277660168379332⟩ :=
  res_of_rawOr (by decide) (by decide +kernel)

def ssD : SwapState := ⟨⟨1000 * PREC⟩, ⟨0⟩, ⟨PREC⟩, 0, ⟨1000000 * PREC⟩, ⟨0⟩, ⟨0⟩, []⟩
def resD : Res (St × SwapState) :=
  swapLoop true false true MaxSqrtPrice ⟨3000000000000000⟩ tp10 [] "quote" 3 0 {} ssD [{ tiUp with net := ⟨-(1000000 * PREC)⟩ }]

theorem resD_price : finalPrice resD = 1000997000000000000 := by decide +kernel

/-- quote-in 1000 units at price 1.0, liquidity 10⁶, fee 0.3 %, one tick above (price √10, net −10⁶): all hypotheses of
    `swapLoop_price_direction_qfb_exactIn` hold, the loop succeeds, and the theorem yields 1.0 ≤ 1.000997 ≤ Max -/
example : ∃ s' ss', resD = .ok (s', ss') ∧ ss'.sqrtP.raw = 1000997000000000000
    ∧ ssD.sqrtP.raw ≤ ss'.sqrtP.raw ∧ ss'.sqrtP.raw ≤ MaxSqrtPrice.raw := by
  obtain ⟨s', ss', hok, hp⟩ := ok_of_finalPrice (by decide) resD_price
  refine ⟨s', ss', hok, hp, ?_⟩
  refine swapLoop_price_direction_qfb_exactIn (by decide) (by decide) (by decide) (by decide) ?_ ?_ hok
  · refine ⟨Or.inr (by decide), fun v hv => ?_⟩
    have : v = ⟨3162277660168379332⟩ := res_ok_inj (hv.symm.trans tickUp_price)
    subst this
    exact ⟨by decide, Or.inl (by decide)⟩
  · intro ti hti v hv
    have : ti = { tiUp with net := ⟨-(1000000 * PREC)⟩ } := by simpa using hti
    subst this
    have : v = ⟨3162277660168379332⟩ := res_ok_inj (hv.symm.trans tickUp_price)
    subst this
    decide

def poolD : Pool := ⟨0, "base", "quote", ⟨3000000000000000⟩, tp10, 0, ⟨PREC⟩, ⟨1000000 * PREC⟩⟩
def stD : St :=
  { pools := [poolD], accums := [⟨0, [], ⟨1000000 * PREC⟩⟩],
    ticks := [⟨0, -1, ⟨1000000 * PREC⟩, ⟨1000000 * PREC⟩, []⟩, ⟨0, 1, ⟨1000000 * PREC⟩, ⟨-(1000000 * PREC)⟩, []⟩],
    positions := [⟨0, 0, "lp", -1, 1, ⟨1000000 * PREC⟩⟩], nextPool := 1, nextPos := 1 }
def outPrice (r : Res (St × SwapOut)) : Int := match r with | .ok (_, o) => o.sqrtP.raw | _ => -1

theorem ok_of_outPrice {r : Res (St × SwapOut)} {n : Int} (hn : n ≠ -1) (h : outPrice r = n) :
    ∃ s2 o, r = .ok (s2, o) ∧ o.sqrtP.raw = n := by
  cases r with
  | ok v => exact ⟨v.1, v.2, rfl, h⟩
  | err c => simp [outPrice] at h; omega
  | panic k => simp [outPrice] at h; omega

theorem csD_price : outPrice (computeSwap true stD 0 "quote" "base" 1000 poolD.feeRate ⟨0⟩ false) = 1000997000000000000 := by
  decide +kernel

/-- `computeSwap` (quote query: default limit) on the one-position pool: succeeds, and `computeSwap_price_within_bounds`
    applies — the only tick on the path has price √10 ≤ MaxSqrtPrice -/
example : ∃ s2 o, computeSwap true stD 0 "quote" "base" 1000 poolD.feeRate ⟨0⟩ false = .ok (s2, o)
    ∧ o.sqrtP.raw = 1000997000000000000 ∧ o.sqrtP.raw ≤ MaxSqrtPrice.raw := by
  obtain ⟨s2, o, hok, hp⟩ := ok_of_outPrice (by decide) csD_price
  refine ⟨s2, o, hok, hp, ?_⟩
  obtain ⟨p, lim, hgp, hlim, _, _, hb⟩ := computeSwap_price_within_bounds hok
  have hp' : p = poolD := by
    have : getPool stD 0 = some poolD := rfl
    rw [this] at hgp; cases hgp; rfl
  subst hp'
  have hd : decide (("quote" : Denom) = poolD.base) = false := by decide
  rw [hd] at hlim hb
  rw [sqrtPriceLimit_zero _ _ (by decide)] at hlim
  have hl : lim = MaxSqrtPrice := (res_ok_inj hlim).symm
  subst hl
  have hti : tickIter stD 0 poolD.tick false = [⟨0, 1, ⟨1000000 * PREC⟩, ⟨-(1000000 * PREC)⟩, []⟩] := by rfl
  refine ((hb ?_).2 (by decide)).2
  intro ti hti' v hv
  rw [hti] at hti'
  have : ti = ⟨0, 1, ⟨1000000 * PREC⟩, ⟨-(1000000 * PREC)⟩, []⟩ := by simpa using hti'
  subst this
  have : v = ⟨3162277660168379332⟩ := res_ok_inj (hv.symm.trans tickUp_price)
  subst this
  decide

/-! ### axioms -/
#print axioms qfb_outGivenIn_facts
#print axioms bfq_outGivenIn_facts
#print axioms bfq_inGivenOut_facts
#print axioms qfb_inGivenOut_facts
#print axioms bucket_facts
#print axioms swapLoop_succ_ok
#print axioms swapLoop_invariant
#print axioms swapLoop_within_limit
#print axioms swapLoop_master
#print axioms swapLoop_price_direction
#print axioms swapLoop_price_direction_bfq_exactOut
#print axioms swapLoop_price_direction_qfb_exactIn
#print axioms swapLoop_calculated_mono
#print axioms computeSwap_price_within_bounds
#print axioms computeSwap_price_direction
#print axioms swapLoop_bfq_exactIn_against_trade
#print axioms swapLoop_qfb_exactIn_beyond_limit

end Sunrise.C05Loop
