import SunriseVerif.Model.CL
import SunriseVerif.Model.CLBook
import SunriseVerif.Props.C04Interval

/-!
C04 (refinement) — the store-level model of x/liquiditypool (`Model/CL.lean`) performs, on the bookkeeping components,
exactly the steps of the abstraction `Model/CLBook.lean`; proved for ALL states and arguments (the driver only checks this
link at run time, in lock-step).  The abstraction function is the `book` part of `CLCustodyAbs.absC`: gross/net of a pool's
ticks as total functions (`grossOf` / `netOf`, 0 for an absent tick), cursor `p.tick`, active liquidity `p.liq.raw`.

No well-formedness hypothesis on the state is needed anywhere (no "ids distinct", no "tick keys distinct / sorted"):
`find?` reads the first entry of a key, `insertTick` replaces or inserts in front of it, `setPool` rewrites every record of
the id, `removeTick` / `removePosition` filter out every entry of the key.

1. `upsertTick_effect`            UpsertTick: gross += δ, net ±= δ on that tick only; nothing else; flag ⇔ gross = net = 0
2. `updatePosition_ticks`         UpdatePosition on the tick store = `applyDelta`'s gross/net (also for lo = hi)
3. `updatePosition_pool`          pool record: cursor/price kept, active += δ iff lo ≤ tick < hi; reset when no position is left
   `updatePosition_other_pools`   other pool ids untouched
4. `updatePosition_position`      position record: liq += δ (≥ 0), deleted at 0, other ids untouched
5. `removeTick_empty_abs`         deleting a tick with gross = net = 0 is invisible (`upsertTick_then_remove`: 1 + 5)
6. `crossTick_effect`             crossing: active ±= net, cursor t / t − 1, price and gross/net untouched
   `crossTick_refines_cross`      … = `CLBook.step · (crossUp t / crossDown t)` on (active, cursor)
C. `updatePosition_refines_applyDelta` (+ `_last` for the withdrawal of the pool's last position)
-/
namespace Sunrise.C04Refine
open Sunrise Sunrise.CL Sunrise.Gen.KernelsCL
open Sunrise.C05Loop (bind_ok res_ok_inj)
open Sunrise.C04Interval (err_bind ok_bind panic_bind getPool_setPool getPosition_setPosition setPosition_pools)

/-- gross / net liquidity of tick t of a pool as total functions (absent tick = 0) -/
def grossOf (s : CL.St) (pool : Nat) (t : Int) : Int := match CL.findTick s pool t with | some ti => ti.gross.raw | none => 0
def netOf   (s : CL.St) (pool : Nat) (t : Int) : Int := match CL.findTick s pool t with | some ti => ti.net.raw | none => 0

/-! ### store lemmas on the tick list (`find?` always takes the first entry: no uniqueness / sortedness needed) -/

/-- the key predicate of `findTick` -/
def key (p : Nat) (t : Int) (x : TickInfo) : Bool := x.pool == p && x.tick == t

theorem findTick_eq (s : St) (p : Nat) (t : Int) : findTick s p t = s.ticks.find? (key p t) := rfl

theorem key_iff {p : Nat} {t : Int} {x : TickInfo} : key p t x = true ↔ x.pool = p ∧ x.tick = t := by
  unfold key; simp

theorem find_insertTick (l : List TickInfo) (x : TickInfo) (p : Nat) (t : Int) :
    (insertTick l x).find? (key p t) = if key p t x then some x else l.find? (key p t) := by
  induction l with
  | nil => simp only [insertTick, List.find?_cons, List.find?_nil]; cases key p t x <;> simp
  | cons h r ih =>
    unfold insertTick
    by_cases c1 : (h.pool == x.pool && h.tick == x.tick) = true
    · rw [if_pos c1]
      simp only [List.find?_cons]
      by_cases kx : key p t x = true
      · simp [kx]
      · have kx' : key p t x = false := by simpa using kx
        have kh : key p t h = false := by
          simp only [Bool.and_eq_true, beq_iff_eq] at c1
          unfold key at kx' ⊢; rw [c1.1, c1.2]; exact kx'
        simp [kx', kh]
    · rw [if_neg c1]
      by_cases c2 : tickLt x h = true
      · rw [if_pos c2]; simp only [List.find?_cons]; cases key p t x <;> simp
      · rw [if_neg c2]
        simp only [List.find?_cons, ih]
        by_cases kh : key p t h = true
        · have kx : key p t x = false := by
            cases hkx : key p t x with
            | false => rfl
            | true =>
              exfalso; apply c1
              have a := key_iff.mp kh
              have b := key_iff.mp hkx
              simp [a.1, a.2, b.1, b.2]
          simp [kh, kx]
        · have kh' : key p t h = false := by simpa using kh
          simp [kh']

theorem findTick_setTick (s : St) (x : TickInfo) (p : Nat) (t : Int) :
    findTick (setTick s x) p t = if key p t x then some x else findTick s p t := by
  simp only [findTick_eq, setTick]; exact find_insertTick s.ticks x p t

theorem find_filter_other (l : List TickInfo) (p p' : Nat) (t t' : Int) (hne : (p', t') ≠ (p, t)) :
    (l.filter fun x => !(x.pool == p && x.tick == t)).find? (key p' t') = l.find? (key p' t') := by
  induction l with
  | nil => rfl
  | cons h r ih =>
    simp only [List.filter_cons]
    by_cases c : (h.pool == p && h.tick == t) = true
    · have kh : key p' t' h = false := by
        cases hk : key p' t' h with
        | false => rfl
        | true =>
          exfalso; apply hne
          have a := key_iff.mp hk
          simp only [Bool.and_eq_true, beq_iff_eq] at c
          rw [← a.1, ← a.2, c.1, c.2]
      simp only [c, Bool.not_true, Bool.false_eq_true, if_false, List.find?_cons, kh]
      exact ih
    · have c' : (h.pool == p && h.tick == t) = false := by simpa using c
      simp only [c', Bool.not_false, if_true, List.find?_cons]
      cases key p' t' h
      · exact ih
      · rfl

theorem find_filter_self (l : List TickInfo) (p : Nat) (t : Int) :
    (l.filter fun x => !(x.pool == p && x.tick == t)).find? (key p t) = none := by
  rw [List.find?_eq_none]
  intro x hx
  have := (List.mem_filter.mp hx).2
  unfold key
  cases hk : (x.pool == p && x.tick == t) with
  | false => simp
  | true => rw [hk] at this; simp at this


theorem grossOf_setTick (s : St) (x : TickInfo) (p : Nat) (t : Int) :
    grossOf (setTick s x) p t = if key p t x then x.gross.raw else grossOf s p t := by
  unfold grossOf; rw [findTick_setTick]; cases key p t x <;> simp

theorem netOf_setTick (s : St) (x : TickInfo) (p : Nat) (t : Int) :
    netOf (setTick s x) p t = if key p t x then x.net.raw else netOf s p t := by
  unfold netOf; rw [findTick_setTick]; cases key p t x <;> simp

/-! ### 1. UpsertTick -/

/-- `GetTickInfo` returns the entry of key (pool, t) whose gross/net are the abstraction's values (0 for an absent tick) -/
theorem getTickInfo_ok {s : St} {pool : Nat} {t : Int} {ti : TickInfo} (h : getTickInfo s pool t = .ok ti) :
    ti.pool = pool ∧ ti.tick = t ∧ ti.gross.raw = grossOf s pool t ∧ ti.net.raw = netOf s pool t := by
  unfold getTickInfo at h
  unfold grossOf netOf
  cases hf : findTick s pool t with
  | some x =>
    rw [hf] at h
    have e := res_ok_inj h
    subst e
    have hk : key pool t x = true := by
      rw [findTick_eq] at hf; exact List.find?_some hf
    have hk' := key_iff.mp hk
    exact ⟨hk'.1, hk'.2, rfl, rfl⟩
  | none =>
    rw [hf] at h
    simp only [] at h
    split at h
    · cases h
    · split at h
      · split at h
        · cases h
        · have e := res_ok_inj h; subst e; exact ⟨rfl, rfl, rfl, rfl⟩
      · have e := res_ok_inj h; subst e; exact ⟨rfl, rfl, rfl, rfl⟩

/-- the tick entry written by `UpsertTick` -/
def updTick (ti : TickInfo) (delta : Dec) (upper : Bool) : TickInfo :=
  { ti with gross := Dec.add ti.gross delta, net := (if upper then Dec.sub ti.net delta else Dec.add ti.net delta) }

/-- shape of a successful `UpsertTick` -/
theorem upsertTick_shape {s s' : St} {pool : Nat} {t : Int} {delta : Dec} {upper e : Bool}
    (h : upsertTick s pool t delta upper = .ok (s', e)) :
    ∃ ti, getTickInfo s pool t = .ok ti ∧
      s' = setTick s (updTick ti delta upper) ∧
      e = ((updTick ti delta upper).gross.isZero && (updTick ti delta upper).net.isZero) := by
  unfold upsertTick at h
  simp only [bind, pure] at h
  obtain ⟨ti, hti, h⟩ := bind_ok h
  have e := res_ok_inj h
  refine ⟨ti, hti, ?_, ?_⟩
  · exact (congrArg Prod.fst e).symm
  · exact (congrArg Prod.snd e).symm

/-- **1.** `UpsertTick` adds `delta` to the gross liquidity of tick (pool, t), adds (lower) or subtracts (upper) it from the
    net liquidity, touches no other tick and nothing but the tick store, and its flag says exactly "gross and net are now 0". -/
theorem upsertTick_effect {s s' : St} {pool : Nat} {t : Int} {delta : Dec} {upper e : Bool}
    (h : upsertTick s pool t delta upper = .ok (s', e)) :
    grossOf s' pool t = grossOf s pool t + delta.raw ∧
    netOf s' pool t = netOf s pool t + (if upper then -delta.raw else delta.raw) ∧
    (∀ pool' t', (pool', t') ≠ (pool, t) →
      grossOf s' pool' t' = grossOf s pool' t' ∧ netOf s' pool' t' = netOf s pool' t') ∧
    (s'.pools = s.pools ∧ s'.positions = s.positions ∧ s'.bank = s.bank) ∧
    (e = true ↔ (grossOf s' pool t = 0 ∧ netOf s' pool t = 0)) := by
  obtain ⟨ti, hti, hs, he⟩ := upsertTick_shape h
  obtain ⟨hp, ht, hg, hn⟩ := getTickInfo_ok hti
  have hk : ∀ p' t', key p' t' (updTick ti delta upper) = decide ((p', t') = (pool, t)) := by
    intro p' t'
    unfold key updTick
    simp only [hp, ht]
    by_cases c : (p', t') = (pool, t)
    · have c1 := congrArg Prod.fst c
      have c2 := congrArg Prod.snd c
      simp only [] at c1 c2
      simp [c1, c2]
    · simp only [c, decide_false]
      cases hb : (pool == p' && t == t') with
      | false => rfl
      | true =>
        exfalso; apply c
        simp only [Bool.and_eq_true, beq_iff_eq] at hb
        rw [hb.1, hb.2]
  have hG : grossOf s' pool t = grossOf s pool t + delta.raw := by
    rw [hs, grossOf_setTick, hk]; simp [updTick, Dec.add, hg]
  have hN : netOf s' pool t = netOf s pool t + (if upper then -delta.raw else delta.raw) := by
    rw [hs, netOf_setTick, hk]
    cases upper
    · simp [updTick, Dec.add, hn]
    · simp [updTick, Dec.sub, hn]; omega
  refine ⟨hG, hN, ?_, ?_, ?_⟩
  · intro p' t' hne
    rw [hs, grossOf_setTick, netOf_setTick, hk]
    simp [hne]
  · rw [hs]; exact ⟨rfl, rfl, rfl⟩
  · have hG' : grossOf s' pool t = (updTick ti delta upper).gross.raw := by rw [hG]; simp [updTick, Dec.add, hg]
    have hN' : netOf s' pool t = (updTick ti delta upper).net.raw := by
      rw [hN]; cases upper
      · simp [updTick, Dec.add, hn]
      · simp [updTick, Dec.sub, hn]; omega
    rw [he, hG', hN']
    simp [Dec.isZero]

/-! ### 5. removing an empty tick -/

/-- **5.** deleting the entries of key (pool, t) does not change the abstraction when that tick's gross and net are 0
    (an absent tick reads as 0).  No uniqueness of keys is needed: `removeTick` filters out every entry of the key, and
    `find?` on any other key skips exactly the same entries before and after. -/
theorem removeTick_empty_abs {s : St} {pool : Nat} {t : Int} (h0 : grossOf s pool t = 0 ∧ netOf s pool t = 0) :
    ∀ pool' t', grossOf (removeTick s pool t) pool' t' = grossOf s pool' t' ∧
      netOf (removeTick s pool t) pool' t' = netOf s pool' t' := by
  intro p' t'
  by_cases c : (p', t') = (pool, t)
  · have c1 : p' = pool := congrArg Prod.fst c
    have c2 : t' = t := congrArg Prod.snd c
    subst c1; subst c2
    have hf : findTick (removeTick s p' t') p' t' = none := by
      rw [findTick_eq]; exact find_filter_self s.ticks p' t'
    constructor
    · rw [h0.1]; unfold grossOf; rw [hf]
    · rw [h0.2]; unfold netOf; rw [hf]
  · have hf : findTick (removeTick s pool t) p' t' = findTick s p' t' := by
      rw [findTick_eq, findTick_eq]; exact find_filter_other s.ticks pool p' t t' c
    unfold grossOf netOf
    rw [hf]
    exact ⟨rfl, rfl⟩

/-- the frame of `removeTick` -/
theorem removeTick_frame (s : St) (pool : Nat) (t : Int) :
    (removeTick s pool t).pools = s.pools ∧ (removeTick s pool t).positions = s.positions ∧
      (removeTick s pool t).bank = s.bank := ⟨rfl, rfl, rfl⟩


/-! ### frames -/

/-- the parts of the state read by the bookkeeping abstraction (and the bank) are the same -/
def Frame (s s' : St) : Prop :=
  s'.pools = s.pools ∧ s'.positions = s.positions ∧ s'.ticks = s.ticks ∧ s'.bank = s.bank

theorem frame_acc (s : St) (ap : AccPos) (a : Accum) : Frame s (setAccum (setAccPos s ap) a) := by
  unfold Frame setAccum setAccPos
  split <;> exact ⟨rfl, rfl, rfl, rfl⟩

/-- `SetAccumulatorPositionFeeAccumulator` writes only the fee accumulator and the accumulator positions -/
theorem setAccumPositionFee_frame {s : St} {pool : Nat} {lo hi : Int} {posId : Nat} {delta : Dec} {s' : St}
    (h : setAccumPositionFee s pool lo hi posId delta = .ok s') : Frame s s' := by
  unfold setAccumPositionFee at h
  simp only [bind, pure, err_bind, ok_bind] at h
  split at h
  · obtain ⟨outside, _, h⟩ := bind_ok h
    split at h
    · split at h
      · cases h
      · cases h; exact frame_acc _ _ _
    · split at h
      · cases h
      · split at h
        · split at h
          · cases h
          · obtain ⟨u, _, h⟩ := bind_ok h
            cases h; exact frame_acc _ _ _
        · obtain ⟨u, _, h⟩ := bind_ok h
          cases h; exact frame_acc _ _ _
  · cases h

theorem grossOf_congr {s s' : St} (h : s'.ticks = s.ticks) (p : Nat) (t : Int) : grossOf s' p t = grossOf s p t := by
  unfold grossOf findTick; rw [h]

theorem netOf_congr {s s' : St} (h : s'.ticks = s.ticks) (p : Nat) (t : Int) : netOf s' p t = netOf s p t := by
  unfold netOf findTick; rw [h]

theorem setPool_frame (s : St) (p : Pool) :
    (setPool s p).positions = s.positions ∧ (setPool s p).ticks = s.ticks ∧ (setPool s p).bank = s.bank := ⟨rfl, rfl, rfl⟩

theorem setPosition_frame (s : St) (p : Position) :
    (setPosition s p).pools = s.pools ∧ (setPosition s p).ticks = s.ticks ∧ (setPosition s p).bank = s.bank := by
  unfold setPosition; split <;> exact ⟨rfl, rfl, rfl⟩

theorem removePosition_frame (s : St) (id : Nat) :
    (removePosition s id).pools = s.pools ∧ (removePosition s id).ticks = s.ticks ∧ (removePosition s id).bank = s.bank :=
  ⟨rfl, rfl, rfl⟩

/-! ### decomposition of `UpdatePosition` -/

/-- the position write of `UpdatePosition` -/
def s3Of (s2 : St) (posId : Nat) (pos : Position) (delta : Dec) : St :=
  if (Dec.add pos.liq delta).isZero then removePosition s2 posId else setPosition s2 { pos with liq := Dec.add pos.liq delta }

/-- the pool record written by `UpdatePosition` -/
def poolOf (s3 : St) (pool : Nat) (p : Pool) (lo hi : Int) (delta : Dec) : Pool :=
  if !poolHasPosition s3 pool then { p with sqrtP := Dec.zero, tick := 0, liq := Dec.zero }
  else if IsCurrentTickInRange p.tick lo hi then { p with liq := Dec.add p.liq delta }
  else p

theorem s4_eq (s3 : St) (pool : Nat) (p : Pool) (lo hi : Int) (delta : Dec) :
    (if (!poolHasPosition s3 pool) = true then setPool s3 { p with sqrtP := Dec.zero, tick := 0, liq := Dec.zero }
      else if IsCurrentTickInRange p.tick lo hi = true then setPool s3 { p with liq := Dec.add p.liq delta }
      else setPool s3 p) = setPool s3 (poolOf s3 pool p lo hi delta) := by
  unfold poolOf
  split
  · rfl
  · split <;> rfl

theorem updatePosition_ok {s s' : St} {pool : Nat} {lo hi : Int} {delta : Dec} {posId : Nat} {ab aq : Int} {loE hiE : Bool}
    (h : updatePosition s pool lo hi delta posId = .ok (s', ab, aq, loE, hiE)) :
    ∃ s1 s2 p pos, upsertTick s pool lo delta false = .ok (s1, loE) ∧ upsertTick s1 pool hi delta true = .ok (s2, hiE) ∧
      getPool s2 pool = some p ∧ getPosition s2 posId = some pos ∧ (Dec.add pos.liq delta).isNegative = false ∧
      setAccumPositionFee (setPool (s3Of s2 posId pos delta) (poolOf (s3Of s2 posId pos delta) pool p lo hi delta))
        pool lo hi posId delta = .ok s' := by
  unfold updatePosition at h
  simp only [bind, pure, err_bind, ok_bind] at h
  obtain ⟨r1, h1, h⟩ := bind_ok h
  obtain ⟨r2, h2, h⟩ := bind_ok h
  cases hp : getPool r2.1 pool with
  | none => rw [hp] at h; cases h
  | some p =>
    rw [hp] at h
    cases hq : getPosition r2.1 posId with
    | none => rw [hq] at h; cases h
    | some pos =>
      rw [hq] at h
      simp only [] at h
      by_cases hneg : (pos.liq.add delta).isNegative = true
      · rw [if_pos hneg] at h; cases h
      · rw [if_neg hneg] at h
        obtain ⟨x, _, h⟩ := bind_ok h
        obtain ⟨s5, h5, h⟩ := bind_ok h
        have e := res_ok_inj h
        have e1 : s5 = s' := congrArg Prod.fst e
        have e2 : r1.2 = loE := congrArg (fun z => z.2.2.2.1) e
        have e3 : r2.2 = hiE := congrArg (fun z => z.2.2.2.2) e
        subst e1; subst e2; subst e3
        refine ⟨r1.1, r2.1, p, pos, h1, h2, hp, hq, by simpa using hneg, ?_⟩
        rw [← s4_eq]
        exact h5


theorem s3Of_frame (s2 : St) (posId : Nat) (pos : Position) (delta : Dec) :
    (s3Of s2 posId pos delta).pools = s2.pools ∧ (s3Of s2 posId pos delta).ticks = s2.ticks ∧
      (s3Of s2 posId pos delta).bank = s2.bank := by
  unfold s3Of; split
  · exact removePosition_frame _ _
  · exact setPosition_frame _ _

/-- everything `UpdatePosition` does outside the tick store happens after the two `UpsertTick`s, and nothing after them
    touches the tick store -/
theorem updatePosition_frames {s s' : St} {pool : Nat} {lo hi : Int} {delta : Dec} {posId : Nat} {ab aq : Int} {loE hiE : Bool}
    (h : updatePosition s pool lo hi delta posId = .ok (s', ab, aq, loE, hiE)) :
    ∃ s1 s2 p pos, upsertTick s pool lo delta false = .ok (s1, loE) ∧ upsertTick s1 pool hi delta true = .ok (s2, hiE) ∧
      getPool s pool = some p ∧ getPosition s posId = some pos ∧ (Dec.add pos.liq delta).isNegative = false ∧
      s2.pools = s.pools ∧ s2.positions = s.positions ∧ s2.bank = s.bank ∧
      s'.ticks = s2.ticks ∧ s'.bank = s.bank ∧
      s'.positions = (s3Of s2 posId pos delta).positions ∧
      s'.pools = (setPool (s3Of s2 posId pos delta) (poolOf (s3Of s2 posId pos delta) pool p lo hi delta)).pools := by
  obtain ⟨s1, s2, p, pos, h1, h2, hp, hq, hneg, h5⟩ := updatePosition_ok h
  obtain ⟨_, _, _, ⟨a1, a2, a3⟩, _⟩ := upsertTick_effect h1
  obtain ⟨_, _, _, ⟨b1, b2, b3⟩, _⟩ := upsertTick_effect h2
  obtain ⟨f1, f2, f3, f4⟩ := setAccumPositionFee_frame h5
  obtain ⟨g1, g2, g3⟩ := s3Of_frame s2 posId pos delta
  have hpools : s2.pools = s.pools := b1.trans a1
  have hposs : s2.positions = s.positions := b2.trans a2
  refine ⟨s1, s2, p, pos, h1, h2, ?_, ?_, hneg, hpools, hposs, b3.trans a3, ?_, ?_, f2, f1⟩
  · unfold getPool at hp ⊢; rw [← hpools]; exact hp
  · unfold getPosition at hq ⊢; rw [← hposs]; exact hq
  · rw [f3]; exact g2
  · rw [f4]; exact g3.trans (b3.trans a3)

/-! ### 2. ticks -/

/-- **2.** the tick store after `UpdatePosition`, read through the abstraction, is `CLBook.applyDelta`'s gross/net:
    `+delta` on gross at `lo` and at `hi`, `+delta` on net at `lo`, `−delta` on net at `hi`; nothing else.
    (`lo = hi` is not excluded here: the two updates then add up on the same tick, as the formula says.) -/
theorem updatePosition_ticks {s s' : St} {pool : Nat} {lo hi : Int} {delta : Dec} {posId : Nat} {ab aq : Int} {loE hiE : Bool}
    (h : updatePosition s pool lo hi delta posId = .ok (s', ab, aq, loE, hiE)) :
    (∀ t, grossOf s' pool t = grossOf s pool t + (if t = lo then delta.raw else 0) + (if t = hi then delta.raw else 0) ∧
          netOf s' pool t = netOf s pool t + (if t = lo then delta.raw else 0) - (if t = hi then delta.raw else 0)) ∧
    (∀ pool' t, pool' ≠ pool → grossOf s' pool' t = grossOf s pool' t ∧ netOf s' pool' t = netOf s pool' t) := by
  obtain ⟨s1, s2, p, pos, h1, h2, _, _, _, _, _, _, hticks, _⟩ := updatePosition_frames h
  obtain ⟨ag, an, ao, _, _⟩ := upsertTick_effect h1
  obtain ⟨bg, bn, bo, _, _⟩ := upsertTick_effect h2
  simp only [Bool.false_eq_true, if_false] at an
  simp only [if_true] at bn
  constructor
  · intro t
    rw [grossOf_congr hticks, netOf_congr hticks]
    by_cases c1 : t = lo <;> by_cases c2 : t = hi
    · subst c1; subst c2
      simp only [if_true]
      omega
    · subst c1
      have hne : (pool, t) ≠ (pool, hi) := fun e => c2 (congrArg Prod.snd e)
      have := bo pool t hne
      simp only [if_true, c2, if_false]
      omega
    · subst c2
      have hne : (pool, t) ≠ (pool, lo) := fun e => c1 (congrArg Prod.snd e)
      have := ao pool t hne
      simp only [if_true, c1, if_false]
      omega
    · have hne1 : (pool, t) ≠ (pool, lo) := fun e => c1 (congrArg Prod.snd e)
      have hne2 : (pool, t) ≠ (pool, hi) := fun e => c2 (congrArg Prod.snd e)
      have x1 := ao pool t hne1
      have x2 := bo pool t hne2
      simp only [c1, c2, if_false]
      omega
  · intro pool' t hne
    rw [grossOf_congr hticks, netOf_congr hticks]
    have hne1 : (pool', t) ≠ (pool, lo) := fun e => hne (congrArg Prod.fst e)
    have hne2 : (pool', t) ≠ (pool, hi) := fun e => hne (congrArg Prod.fst e)
    have x1 := ao pool' t hne1
    have x2 := bo pool' t hne2
    exact ⟨x2.1.trans x1.1, x2.2.trans x1.2⟩


/-! ### 3. the pool record -/

theorem poolOf_id (s3 : St) (pool : Nat) (p : Pool) (lo hi : Int) (delta : Dec) :
    (poolOf s3 pool p lo hi delta).id = p.id ∧ (poolOf s3 pool p lo hi delta).base = p.base ∧
    (poolOf s3 pool p lo hi delta).quote = p.quote ∧ (poolOf s3 pool p lo hi delta).feeRate = p.feeRate ∧
    (poolOf s3 pool p lo hi delta).tp = p.tp := by
  unfold poolOf
  split
  · exact ⟨rfl, rfl, rfl, rfl, rfl⟩
  · split <;> exact ⟨rfl, rfl, rfl, rfl, rfl⟩

theorem getPool_congr {s s' : St} (h : s'.pools = s.pools) (id : Nat) : getPool s' id = getPool s id := by
  unfold getPool; rw [h]

theorem poolHasPosition_congr {s s' : St} (h : s'.positions = s.positions) (id : Nat) :
    poolHasPosition s' id = poolHasPosition s id := by
  unfold poolHasPosition; rw [h]

/-- `setPool` rewrites only records of the same id: other ids read the same (no distinctness of ids needed) -/
theorem getPool_setPool_other (s : St) (q : Pool) (id : Nat) (hne : id ≠ q.id) : getPool (setPool s q) id = getPool s id := by
  unfold getPool setPool
  simp only []
  generalize s.pools = l
  induction l with
  | nil => rfl
  | cons x xs ih =>
    simp only [List.map_cons, List.find?_cons]
    by_cases hx : (x.id == q.id) = true
    · have hx1 : x.id = q.id := by simpa using hx
      have hq : (q.id == id) = false := by simpa using (fun e => hne e.symm)
      have hx2 : (x.id == id) = false := by rw [hx1]; exact hq
      simp only [hx, if_true, hq, hx2]
      exact ih
    · have hx' : (x.id == q.id) = false := by simpa using hx
      simp only [hx', Bool.false_eq_true, if_false]
      cases (x.id == id)
      · exact ih
      · rfl

/-- **3.** the pool record after `UpdatePosition`: if the pool still has a position, cursor and price are untouched and
    the active liquidity gets `delta` exactly when `lo ≤ tick < hi` (`CLBook.applyDelta`'s `active`); if it has none,
    price, cursor and active liquidity are cleared (resetPool).  The static fields never change.  No distinctness of
    pool ids is needed (`getPool` reads the first record of the id, `setPool` rewrites every record of the id). -/
theorem updatePosition_pool {s s' : St} {pool : Nat} {lo hi : Int} {delta : Dec} {posId : Nat} {ab aq : Int} {loE hiE : Bool}
    {p : Pool} (h : updatePosition s pool lo hi delta posId = .ok (s', ab, aq, loE, hiE)) (hp : getPool s pool = some p) :
    ∃ p', getPool s' pool = some p' ∧
      (p'.id = p.id ∧ p'.base = p.base ∧ p'.quote = p.quote ∧ p'.feeRate = p.feeRate ∧ p'.tp = p.tp) ∧
      (poolHasPosition s' pool = true →
        p'.tick = p.tick ∧ p'.sqrtP = p.sqrtP ∧
        p'.liq.raw = if lo ≤ p.tick ∧ p.tick < hi then p.liq.raw + delta.raw else p.liq.raw) ∧
      (poolHasPosition s' pool = false → p'.liq = Dec.zero ∧ p'.tick = 0 ∧ p'.sqrtP = Dec.zero) := by
  obtain ⟨s1, s2, p0, pos, _, _, hp0, _, _, hpools2, _, _, _, _, hposs, hpools⟩ := updatePosition_frames h
  have e : p0 = p := by rw [hp0] at hp; exact Option.some.inj hp
  subst e
  have hpools3 : (s3Of s2 posId pos delta).pools = s.pools := (s3Of_frame s2 posId pos delta).1.trans hpools2
  have hid := poolOf_id (s3Of s2 posId pos delta) pool p0 lo hi delta
  have hget : getPool s' pool = some (poolOf (s3Of s2 posId pos delta) pool p0 lo hi delta) := by
    rw [getPool_congr hpools]
    exact getPool_setPool hp0 hpools3 hid.1
  have hhas : poolHasPosition s' pool = poolHasPosition (s3Of s2 posId pos delta) pool := poolHasPosition_congr hposs pool
  refine ⟨_, hget, hid, ?_, ?_⟩
  · intro hh
    rw [hhas] at hh
    unfold poolOf
    simp only [hh, Bool.not_true, Bool.false_eq_true, if_false]
    by_cases c : lo ≤ p0.tick ∧ p0.tick < hi
    · have : IsCurrentTickInRange p0.tick lo hi = true := by
        unfold IsCurrentTickInRange; simp [c.1, c.2]
      simp only [this, if_true, c, and_self]
      exact ⟨trivial, trivial, rfl⟩
    · have : IsCurrentTickInRange p0.tick lo hi = false := by
        unfold IsCurrentTickInRange
        cases hb : (decide (p0.tick ≥ lo) && decide (p0.tick < hi)) with
        | false => rfl
        | true =>
          exfalso; apply c
          simp only [Bool.and_eq_true, decide_eq_true_eq] at hb
          exact ⟨hb.1, hb.2⟩
      simp only [this, Bool.false_eq_true, if_false, c]
      exact ⟨trivial, trivial, trivial⟩
  · intro hh
    rw [hhas] at hh
    unfold poolOf
    simp only [hh, Bool.not_false, if_true]
    exact ⟨trivial, trivial, trivial⟩

/-- pools of other ids are not touched by `UpdatePosition` -/
theorem updatePosition_other_pools {s s' : St} {pool : Nat} {lo hi : Int} {delta : Dec} {posId : Nat} {ab aq : Int}
    {loE hiE : Bool} (h : updatePosition s pool lo hi delta posId = .ok (s', ab, aq, loE, hiE)) :
    ∀ pool', pool' ≠ pool → getPool s' pool' = getPool s pool' := by
  intro pool' hne
  obtain ⟨s1, s2, p0, pos, _, _, hp0, _, _, hpools2, _, _, _, _, _, hpools⟩ := updatePosition_frames h
  have hpid : p0.id = pool := by
    have := List.find?_some hp0
    simpa using this
  have hid := poolOf_id (s3Of s2 posId pos delta) pool p0 lo hi delta
  rw [getPool_congr hpools, getPool_setPool_other _ _ _ (by rw [hid.1, hpid]; exact hne)]
  exact getPool_congr ((s3Of_frame s2 posId pos delta).1.trans hpools2) pool'

/-! ### 4. the position record -/

theorem getPosition_congr {s s' : St} (h : s'.positions = s.positions) (id : Nat) : getPosition s' id = getPosition s id := by
  unfold getPosition; rw [h]

theorem getPosition_removePosition_self (s : St) (id : Nat) : getPosition (removePosition s id) id = none := by
  unfold getPosition removePosition
  simp only []
  rw [List.find?_eq_none]
  intro x hx
  have := (List.mem_filter.mp hx).2
  simpa using this

theorem getPosition_removePosition_other (s : St) (id id' : Nat) (hne : id' ≠ id) :
    getPosition (removePosition s id) id' = getPosition s id' := by
  unfold getPosition removePosition
  simp only []
  generalize s.positions = l
  induction l with
  | nil => rfl
  | cons x xs ih =>
    simp only [List.filter_cons]
    by_cases hx : x.id = id
    · have h1 : (x.id != id) = false := by simp [hx]
      have h2 : (x.id == id') = false := by rw [hx]; simpa using (fun e => hne e.symm)
      simp only [h1, Bool.false_eq_true, if_false, List.find?_cons, h2]
      exact ih
    · have h1 : (x.id != id) = true := by simp [hx]
      simp only [h1, if_true, List.find?_cons]
      cases (x.id == id')
      · exact ih
      · rfl

theorem getPosition_setPosition_other (s : St) (q : Position) (id : Nat) (hne : id ≠ q.id) :
    getPosition (setPosition s q) id = getPosition s id := by
  have hq : (q.id == id) = false := by simpa using (fun e => hne e.symm)
  unfold getPosition setPosition
  split
  · simp only []
    generalize s.positions = l
    induction l with
    | nil => rfl
    | cons x xs ih =>
      simp only [List.map_cons, List.find?_cons]
      by_cases hx : (x.id == q.id) = true
      · have hx1 : x.id = q.id := by simpa using hx
        have hx2 : (x.id == id) = false := by rw [hx1]; exact hq
        simp only [hx, if_true, hq, hx2]
        exact ih
      · have hx' : (x.id == q.id) = false := by simpa using hx
        simp only [hx', Bool.false_eq_true, if_false]
        cases (x.id == id)
        · exact ih
        · rfl
  · simp only [List.find?_append, List.find?_cons, hq, List.find?_nil, Option.or_none]

/-- **4.** the position `posId` after `UpdatePosition`: its liquidity becomes `liq + delta` (never negative); the record is
    deleted when that is 0 and otherwise rewritten with the same pool / owner / bounds; every other position id reads the
    same.  No distinctness of position ids is needed. -/
theorem updatePosition_position {s s' : St} {pool : Nat} {lo hi : Int} {delta : Dec} {posId : Nat} {ab aq : Int}
    {loE hiE : Bool} (h : updatePosition s pool lo hi delta posId = .ok (s', ab, aq, loE, hiE)) :
    ∃ pos, getPosition s posId = some pos ∧ pos.id = posId ∧ 0 ≤ pos.liq.raw + delta.raw ∧
      (pos.liq.raw + delta.raw = 0 → getPosition s' posId = none) ∧
      (pos.liq.raw + delta.raw ≠ 0 →
        getPosition s' posId = some { pos with liq := ⟨pos.liq.raw + delta.raw⟩ }) ∧
      (∀ id, id ≠ posId → getPosition s' id = getPosition s id) := by
  obtain ⟨s1, s2, p0, pos, _, _, _, hq, hneg, _, hposs2, _, _, _, hposs, _⟩ := updatePosition_frames h
  have hid : pos.id = posId := by
    have := List.find?_some hq
    simpa using this
  have hnn : 0 ≤ pos.liq.raw + delta.raw := by
    simp only [Dec.isNegative, Dec.add] at hneg
    have := of_decide_eq_false hneg
    omega
  refine ⟨pos, hq, hid, hnn, ?_, ?_, ?_⟩
  · intro hz
    have hz' : (Dec.add pos.liq delta).isZero = true := by simp [Dec.isZero, Dec.add, hz]
    rw [getPosition_congr hposs]
    unfold s3Of; rw [if_pos hz']
    exact getPosition_removePosition_self s2 posId
  · intro hz
    have hz' : ¬ (Dec.add pos.liq delta).isZero = true := by simp [Dec.isZero, Dec.add, hz]
    rw [getPosition_congr hposs]
    unfold s3Of; rw [if_neg hz']
    have := getPosition_setPosition s2 { pos with liq := Dec.add pos.liq delta }
    rw [← hid]
    exact this
  · intro id hne
    rw [getPosition_congr hposs]
    unfold s3Of
    split
    · rw [getPosition_removePosition_other s2 posId id hne]; exact getPosition_congr hposs2 id
    · rw [getPosition_setPosition_other s2 _ id (by simp only [hid]; exact hne)]; exact getPosition_congr hposs2 id


/-- 1 + 5 combined, as used by `decreaseLiquidity`: when `UpsertTick` reports the tick empty, deleting it afterwards is
    invisible to the abstraction -/
theorem upsertTick_then_remove {s s' : St} {pool : Nat} {t : Int} {delta : Dec} {upper : Bool}
    (h : upsertTick s pool t delta upper = .ok (s', true)) :
    ∀ pool' t', grossOf (removeTick s' pool t) pool' t' = grossOf s' pool' t' ∧
      netOf (removeTick s' pool t) pool' t' = netOf s' pool' t' :=
  removeTick_empty_abs ((upsertTick_effect h).2.2.2.2.mp rfl)

/-! ### 6. crossing a tick in the swap loop -/

/-- shape of a successful `crossTick` -/
theorem crossTick_shape {s s' : St} {ss ss' : SwapState} {bfq : Bool} {lim fee : Dec} {ti : TickInfo} {accVal : DecCoins}
    {denomIn : Denom} {upd : Bool} (h : crossTick s ss bfq lim fee ti accVal denomIn upd = .ok (s', ss')) :
    (s' = s ∨ ∃ g, s' = setTick s { ti with feeGrowth := g }) ∧
    ss' = { ss with liq := Dec.add ss.liq (if bfq then bfq_GetLiquidityDeltaSign lim fee ti.net else qfb_GetLiquidityDeltaSign lim fee ti.net),
                    tick := (if bfq then bfq_NextTickAfterCrossing lim fee ti.tick else qfb_NextTickAfterCrossing lim fee ti.tick),
                    trace := ss.trace ++ [.cross (!bfq) ti.tick] } := by
  unfold crossTick at h
  cases upd
  · have e := res_ok_inj h
    exact ⟨Or.inl (congrArg Prod.fst e).symm, (congrArg Prod.snd e).symm⟩
  · simp -zeta only [if_true] at h
    cases hg : (DecCoins.sub (DecCoins.add accVal [(denomIn, ss.growthPerLiq)]) ti.feeGrowth) with
    | ok g =>
      rw [hg] at h
      have e := res_ok_inj h
      exact ⟨Or.inr ⟨g, (congrArg Prod.fst e).symm⟩, (congrArg Prod.snd e).symm⟩
    | err c => rw [hg] at h; cases h
    | panic k => rw [hg] at h; cases h

/-- **6.** crossing the initialised tick `ti`: the active liquidity gets `+net` going up (quote-for-base) and `−net` going
    down (base-for-quote), the cursor becomes `ti.tick` resp. `ti.tick − 1` (`CLBook.crossUp / crossDown`), the price is
    untouched, and — `ti` being the stored entry of its key, which is how the loop's iterator obtains it — gross/net of
    every tick are unchanged (only `feeGrowth` of that entry is rewritten). -/
theorem crossTick_effect {s s' : St} {ss ss' : SwapState} {bfq : Bool} {lim fee : Dec} {ti : TickInfo} {accVal : DecCoins}
    {denomIn : Denom} {upd : Bool} (h : crossTick s ss bfq lim fee ti accVal denomIn upd = .ok (s', ss')) :
    ss'.liq.raw = ss.liq.raw + (if bfq then -ti.net.raw else ti.net.raw) ∧
    ss'.tick = (if bfq then ti.tick - 1 else ti.tick) ∧
    ss'.sqrtP = ss.sqrtP ∧
    (s'.pools = s.pools ∧ s'.positions = s.positions ∧ s'.bank = s.bank) ∧
    (findTick s ti.pool ti.tick = some ti →
      ∀ pool' t', grossOf s' pool' t' = grossOf s pool' t' ∧ netOf s' pool' t' = netOf s pool' t') := by
  obtain ⟨hs, hss⟩ := crossTick_shape h
  refine ⟨?_, ?_, ?_, ?_, ?_⟩
  · rw [hss]; cases bfq <;> simp [Dec.add, Dec.neg, bfq_GetLiquidityDeltaSign, qfb_GetLiquidityDeltaSign]
  · rw [hss]; cases bfq <;> simp [bfq_NextTickAfterCrossing, qfb_NextTickAfterCrossing]
  · rw [hss]
  · rcases hs with hs | ⟨g, hs⟩ <;> rw [hs] <;> exact ⟨rfl, rfl, rfl⟩
  · intro hti pool' t'
    rcases hs with hs | ⟨g, hs⟩
    · rw [hs]; exact ⟨rfl, rfl⟩
    · rw [hs, grossOf_setTick, netOf_setTick]
      cases hk : key pool' t' { ti with feeGrowth := g } with
      | false => exact ⟨rfl, rfl⟩
      | true =>
        have hk' := key_iff.mp hk
        simp only [] at hk'
        have hf : findTick s pool' t' = some ti := by rw [← hk'.1, ← hk'.2]; exact hti
        unfold grossOf netOf
        rw [hf]
        exact ⟨rfl, rfl⟩

/-! ### corollary: `UpdatePosition` refines `CLBook.applyDelta` -/

/-- the bookkeeping abstraction of pool `pool` with pool record `p` (positions left out: `applyDelta` takes the new list as
    an argument and never reads the old one) — the `book` component of `CLCustodyAbs.absC` -/
def bookOf (s : St) (pool : Nat) (p : Pool) : CLBook.St :=
  { pos := [], gross := grossOf s pool, net := netOf s pool, tick := p.tick, active := p.liq.raw }

/-- **corollary (2 + 3).** when the pool still has a position after `UpdatePosition`, the abstraction of the state after
    is `CLBook.applyDelta` of the abstraction of the state before, component by component -/
theorem updatePosition_refines_applyDelta {s s' : St} {pool : Nat} {lo hi : Int} {delta : Dec} {posId : Nat} {ab aq : Int}
    {loE hiE : Bool} {p : Pool} (h : updatePosition s pool lo hi delta posId = .ok (s', ab, aq, loE, hiE))
    (hp : getPool s pool = some p) (hhas : poolHasPosition s' pool = true) :
    ∃ p', getPool s' pool = some p' ∧
      (bookOf s' pool p').gross = (CLBook.applyDelta (bookOf s pool p) lo hi delta.raw []).gross ∧
      (bookOf s' pool p').net = (CLBook.applyDelta (bookOf s pool p) lo hi delta.raw []).net ∧
      (bookOf s' pool p').tick = (CLBook.applyDelta (bookOf s pool p) lo hi delta.raw []).tick ∧
      (bookOf s' pool p').active = (CLBook.applyDelta (bookOf s pool p) lo hi delta.raw []).active := by
  obtain ⟨p', hp', _, hlive, _⟩ := updatePosition_pool h hp
  obtain ⟨ht, _, hl⟩ := hlive hhas
  have hticks := (updatePosition_ticks h).1
  refine ⟨p', hp', ?_, ?_, ?_, ?_⟩
  · funext t; exact (hticks t).1
  · funext t; exact (hticks t).2
  · exact ht
  · exact hl

/-- the same when the last position of the pool is withdrawn: gross/net still follow `applyDelta`; cursor, price and
    active liquidity are reset to 0 (the abstraction's `active` is then 0 as well whenever the C04 invariant held before:
    no position is left in range) -/
theorem updatePosition_refines_applyDelta_last {s s' : St} {pool : Nat} {lo hi : Int} {delta : Dec} {posId : Nat} {ab aq : Int}
    {loE hiE : Bool} {p : Pool} (h : updatePosition s pool lo hi delta posId = .ok (s', ab, aq, loE, hiE))
    (hp : getPool s pool = some p) (hhas : poolHasPosition s' pool = false) :
    ∃ p', getPool s' pool = some p' ∧
      (bookOf s' pool p').gross = (CLBook.applyDelta (bookOf s pool p) lo hi delta.raw []).gross ∧
      (bookOf s' pool p').net = (CLBook.applyDelta (bookOf s pool p) lo hi delta.raw []).net ∧
      (bookOf s' pool p').tick = 0 ∧ (bookOf s' pool p').active = 0 := by
  obtain ⟨p', hp', _, _, hdead⟩ := updatePosition_pool h hp
  obtain ⟨hl, ht, _⟩ := hdead hhas
  have hticks := (updatePosition_ticks h).1
  refine ⟨p', hp', ?_, ?_, ht, ?_⟩
  · funext t; exact (hticks t).1
  · funext t; exact (hticks t).2
  · show p'.liq.raw = 0
    rw [hl]; rfl

/-- crossing refines `CLBook.crossUp / crossDown` on (active, cursor) when `ti` is the stored entry of its key -/
theorem crossTick_refines_cross {s s' : St} {ss ss' : SwapState} {bfq : Bool} {lim fee : Dec} {ti : TickInfo}
    {accVal : DecCoins} {denomIn : Denom} {upd : Bool} (b : CLBook.St)
    (h : crossTick s ss bfq lim fee ti accVal denomIn upd = .ok (s', ss'))
    (hti : findTick s ti.pool ti.tick = some ti)
    (hnet : b.net = netOf s ti.pool) (hact : b.active = ss.liq.raw) :
    ss'.liq.raw = (CLBook.step b (if bfq then .crossDown ti.tick else .crossUp ti.tick)).active ∧
    ss'.tick = (CLBook.step b (if bfq then .crossDown ti.tick else .crossUp ti.tick)).tick := by
  obtain ⟨hl, ht, _, _, _⟩ := crossTick_effect h
  have hn : b.net ti.tick = ti.net.raw := by
    rw [hnet]; unfold netOf; rw [hti]
  cases bfq
  · simp only [Bool.false_eq_true, if_false] at hl ht ⊢
    simp only [CLBook.step]
    rw [hl, ht, hn, hact]
    exact ⟨rfl, rfl⟩
  · simp only [if_true] at hl ht ⊢
    simp only [CLBook.step]
    rw [hl, ht, hn, hact]
    exact ⟨by omega, rfl⟩

/-! ### axioms -/
#print axioms upsertTick_effect
#print axioms updatePosition_ticks
#print axioms updatePosition_pool
#print axioms updatePosition_other_pools
#print axioms updatePosition_position
#print axioms removeTick_empty_abs
#print axioms upsertTick_then_remove
#print axioms crossTick_effect
#print axioms crossTick_refines_cross
#print axioms updatePosition_refines_applyDelta
#print axioms updatePosition_refines_applyDelta_last

end Sunrise.C04Refine
