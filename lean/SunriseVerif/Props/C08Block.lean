import SunriseVerif.Props.C08Payout
import SunriseVerif.Props.C07
/-!
C08 (whole block) — the composition of the per-item payout statements of `Props/C08Payout.lean` over all the items
that one end-block resolves, and over whole histories.

`Resolved` is one resolution event: the item as it was stored when it was resolved, the challengers recorded for it at
that moment, and the way it was resolved (`expired` = verified by expiry of the challenge period, `rejected` /
`verified safe` = verdict of the tally). `Resolved.pay / coll / dust` are LITERALLY the per-recipient amounts, the total
collateral and the division remainder of `C08Payout.ExpiryPayout / RejectedPayout / VerifiedPayout`.
`blockEvents env s` lists the events of `endBlock env s` in the model's processing order (to-verified scan, then tally
scan; each step is evaluated in the state its predecessors left).

* `block_payouts_sum`  — every balance changes over the block by the SUM of the events' amounts; the module account
  drops by the total collateral of the resolved items minus the block's dust; the dust is bounded per item.
* `block_no_double_pay` — after the block a resolved item is terminal, has no records, and no later block has an event for it.
* `blockEvents_at_start` — the challengers / publisher / collateral of every event are those of the block-START state.
* `run_payouts_sum` — over any operation list: balance = initial + net effect of the messages + Σ events' amounts;
  `msg_never_pays` / `runMsg_nonpos`: the message term is `≤ 0` for ordinary accounts (messages only collect collateral).
* non-vacuity: a reachable-derived state whose REAL `endBlock` resolves two items (one verified by expiry, one rejected
  with two challengers and dust 1), `blockEvents_sB`, with all numbers checked.
-/
set_option linter.unusedSimpArgs false
set_option linter.unusedVariables false
namespace Sunrise.C08Block
open Sunrise Sunrise.Bank Sunrise.DA Sunrise.C01DA Sunrise.C08Payout

/-! ### resolution events and their amounts -/
inductive Kind
  | expired
  | rejected
  | verified (safe : List Int)
deriving Repr

def Kind.isRej : Kind → Bool
  | .rejected => true
  | _ => false

/-- one item resolved: the stored item, its recorded challengers at that moment, how it was resolved -/
structure Resolved where
  it : Item
  L : List Inval
  kind : Kind

/-- amount received by the ordinary account `a` in denom `d` for this item (the `bal` clauses of `C08Payout`) -/
def Resolved.pay (e : Resolved) (a : Addr) (d : Denom) : Int :=
  match e.kind with
  | .expired => (if a = e.it.publisher then amt e.it.pubColl d else 0) + recs e.L a * amt e.it.invColl d
  | .rejected => recs e.L a * (amt e.it.invColl d + amt (rewardShare e.it.pubColl (e.L.length : Int)) d)
  | .verified safe =>
      recs (correctOf safe e.L) a * amt e.it.invColl d
      + (if a = e.it.publisher then amt e.it.pubColl d + ((wrongOf safe e.L).length : Int) * amt e.it.invColl d else 0)

/-- total collateral posted for the item: the publisher's plus one per recorded challenger -/
def Resolved.coll (e : Resolved) (d : Denom) : Int := amt e.it.pubColl d + (e.L.length : Int) * amt e.it.invColl d

/-- division remainder kept by the module account (rejections only) -/
def Resolved.dust (e : Resolved) (d : Denom) : Int :=
  match e.kind with
  | .rejected => amt e.it.pubColl d - (e.L.length : Int) * amt (rewardShare e.it.pubColl (e.L.length : Int)) d
  | _ => 0

def sumOver (f : Resolved → Int) : List Resolved → Int
  | [] => 0
  | e :: l => f e + sumOver f l

theorem sumOver_append (f : Resolved → Int) (l1 l2 : List Resolved) :
    sumOver f (l1 ++ l2) = sumOver f l1 + sumOver f l2 := by
  induction l1 with
  | nil => simp [sumOver]
  | cons e l ih => simp only [List.cons_append, sumOver, ih]; omega

/-- the event (if any) of the to-verified step on `u` in state `s` -/
def expEvent (s : St) (u : String) : List Resolved :=
  match findItem s u with
  | some it => if it.status = .cp then [⟨it, invsOf s u, .expired⟩] else []
  | none => []

/-- the event (if any) of the tally step on `u` in state `s` -/
def tallyEvent (env : Env) (s : St) (u : String) : List Resolved :=
  match findItem s u with
  | some it =>
    if it.status = .ch then
      let o := tallyOutcome s.params.rf it (proofsOf s u) env.active (env.assign u)
      [⟨it, invsOf s u, if o.rejected then .rejected else .verified o.safe⟩]
    else []
  | none => []

def expEvents : List String → St → List Resolved
  | [], _ => []
  | u :: l, s => expEvent s u ++ expEvents l (toVerifiedOne s u)

def tallyEvents (env : Env) : List String → St → List Resolved
  | [], _ => []
  | u :: l, s =>
    match tallyOne env s u with
    | .ok s1 => tallyEvent env s u ++ tallyEvents env l s1
    | _ => []

/-- the items resolved by `endBlock env s`, in processing order -/
def blockEvents (env : Env) (s : St) : List Resolved :=
  expEvents (indexScan (preVerified s) .cp (some (unix ((preVerified s).now - (preVerified s).params.cp)))) (preVerified s)
  ++ tallyEvents env (indexScan (preTally s) .ch (some (unix ((preTally s).now - (preTally s).params.pp)))) (preTally s)

/-! ### the effect of a list of events on the balances -/
structure Delta (s s' : St) (es : List Resolved) : Prop where
  bal : ∀ a d, a ≠ daAcc → s'.bank.bal a d = s.bank.bal a d + sumOver (fun e => e.pay a d) es
  module : ∀ d, s'.bank.bal daAcc d
      = s.bank.bal daAcc d - sumOver (fun e => e.coll d) es + sumOver (fun e => e.dust d) es
  dust : ∀ d, s'.dust d = s.dust d + sumOver (fun e => e.dust d) es

theorem Delta.of_eq {s s' : St} (hb : s'.bank = s.bank) (hd : s'.dust = s.dust) : Delta s s' [] :=
  ⟨fun a d _ => by simp [sumOver, hb], fun d => by simp [sumOver, hb], fun d => by simp [sumOver, hd]⟩

theorem Delta.trans {s s1 s2 : St} {e1 e2 : List Resolved} (h1 : Delta s s1 e1) (h2 : Delta s1 s2 e2) :
    Delta s s2 (e1 ++ e2) := by
  refine ⟨?_, ?_, ?_⟩
  · intro a d ha; rw [h2.bal a d ha, h1.bal a d ha, sumOver_append]; omega
  · intro d; rw [h2.module d, h1.module d, sumOver_append, sumOver_append]; omega
  · intro d; rw [h2.dust d, h1.dust d, sumOver_append]; omega

/-- one to-verified step is the effect of its event -/
theorem delta_expStep {s : St} (hg : Good s) (u : String) : Delta s (toVerifiedOne s u) (expEvent s u) := by
  unfold expEvent
  cases hf : findItem s u with
  | none =>
    rw [toVerifiedOne_other (by intro it h; rw [hf] at h; cases h)]
    exact Delta.of_eq rfl rfl
  | some it =>
    by_cases hcp : it.status = .cp
    · have huri := (findItem_some8 hf).2
      have p := expiry_pays_exactly hg.inv hf hcp
      simp only [hcp, if_true]
      subst huri
      refine ⟨?_, ?_, ?_⟩
      · intro a d ha
        rw [p.bal a d ha]; simp only [sumOver, Resolved.pay]; omega
      · intro d
        rw [p.module d]; simp only [sumOver, Resolved.coll, Resolved.dust]; omega
      · intro d; rw [p.dust]; simp [sumOver, Resolved.dust]
    · simp only [hcp, if_false]
      rw [toVerifiedOne_other (by intro it' h; rw [hf] at h; cases h; exact hcp)]
      exact Delta.of_eq rfl rfl

/-- one tally step is the effect of its event -/
theorem delta_tallyStep {env : Env} {s s' : St} (hg : Good s) {u : String} (h : tallyOne env s u = .ok s') :
    Delta s s' (tallyEvent env s u) := by
  unfold tallyEvent
  cases hf : findItem s u with
  | none =>
    rw [tallyOne_other (by intro it h'; rw [hf] at h'; cases h')] at h
    cases h
    exact Delta.of_eq rfl rfl
  | some it =>
    by_cases hch : it.status = .ch
    · have huri := (findItem_some8 hf).2
      simp only [hch, if_true]
      cases hrej : (tallyOutcome s.params.rf it (proofsOf s u) env.active (env.assign u)).rejected with
      | true =>
        have p := tally_rejected_pays_exactly hg.inv hf hch hrej h
        subst huri
        simp only [if_true]
        refine ⟨?_, ?_, ?_⟩
        · intro a d ha
          rw [p.bal a d ha]; simp only [sumOver, Resolved.pay]; omega
        · intro d
          rw [p.module d]; simp only [sumOver, Resolved.coll, Resolved.dust]
          rw [Int.mul_add]; omega
        · intro d; rw [p.dust d]; simp only [sumOver, Resolved.dust]; omega
      | false =>
        have p := tally_verified_pays_exactly hg.inv hf hch hrej h
        subst huri
        simp only [Bool.false_eq_true, if_false]
        refine ⟨?_, ?_, ?_⟩
        · intro a d ha
          rw [p.bal a d ha]; simp only [sumOver, Resolved.pay]; omega
        · intro d
          rw [p.module d]; simp only [sumOver, Resolved.coll, Resolved.dust]; omega
        · intro d; rw [p.dust]; simp [sumOver, Resolved.dust]
    · simp only [hch, if_false]
      rw [tallyOne_other (by intro it' h'; rw [hf] at h'; cases h'; exact hch)] at h
      cases h
      exact Delta.of_eq rfl rfl

theorem delta_expFold : ∀ (l : List String) {s : St}, Good s → Delta s (l.foldl toVerifiedOne s) (expEvents l s) := by
  intro l
  induction l with
  | nil => intro s _; exact Delta.of_eq rfl rfl
  | cons u l ih =>
    intro s hg
    simp only [List.foldl_cons, expEvents]
    exact (delta_expStep hg u).trans (ih (good_toVerifiedOne s u hg))

theorem delta_tallyList {env : Env} : ∀ (l : List String) {s s' : St}, Good s → tallyList env l s = .ok s' →
    Delta s s' (tallyEvents env l s) := by
  intro l
  induction l with
  | nil => intro s s' _ h; simp only [tallyList, Res.ok.injEq] at h; subst h; exact Delta.of_eq rfl rfl
  | cons u l ih =>
    intro s s' hg h
    simp only [tallyList] at h
    obtain ⟨s1, h1, h2⟩ := bind_ok h
    simp only [tallyEvents, h1]
    exact (delta_tallyStep hg h1).trans (ih (good_tallyOne hg h1) h2)

/-! ### phases that move no money -/
theorem pruneOne_bank (st : Status) (s : St) (u : String) :
    (pruneOne st s u).bank = s.bank ∧ (pruneOne st s u).dust = s.dust := by
  unfold pruneOne
  split
  · split <;> exact ⟨rfl, rfl⟩
  · exact ⟨rfl, rfl⟩

theorem toChallengingOne_bank (s : St) (u : String) :
    (toChallengingOne s u).bank = s.bank ∧ (toChallengingOne s u).dust = s.dust := by
  unfold toChallengingOne
  split
  · split
    · dsimp only; split <;> exact ⟨rfl, rfl⟩
    · exact ⟨rfl, rfl⟩
  · exact ⟨rfl, rfl⟩

theorem foldl_bank {f : St → String → St} (hf : ∀ s u, (f s u).bank = s.bank ∧ (f s u).dust = s.dust) :
    ∀ (l : List String) (s : St), (l.foldl f s).bank = s.bank ∧ (l.foldl f s).dust = s.dust := by
  intro l
  induction l with
  | nil => intro s; exact ⟨rfl, rfl⟩
  | cons u l ih =>
    intro s
    simp only [List.foldl_cons]
    obtain ⟨a, b⟩ := ih (f s u)
    obtain ⟨c, d⟩ := hf s u
    exact ⟨a.trans c, b.trans d⟩

theorem preVerified_bank (s : St) : (preVerified s).bank = s.bank ∧ (preVerified s).dust = s.dust := by
  unfold preVerified toChallenging prune
  obtain ⟨a1, b1⟩ := foldl_bank (pruneOne_bank .rej) (indexScan s .rej (some (unix (s.now - s.params.rrp)))) s
  obtain ⟨a2, b2⟩ := foldl_bank (pruneOne_bank .ver)
    (indexScan ((indexScan s .rej (some (unix (s.now - s.params.rrp)))).foldl (pruneOne .rej) s) .ver
      (some (unix (((indexScan s .rej (some (unix (s.now - s.params.rrp)))).foldl (pruneOne .rej) s).now - s.params.vrp))))
    ((indexScan s .rej (some (unix (s.now - s.params.rrp)))).foldl (pruneOne .rej) s)
  obtain ⟨a3, b3⟩ := foldl_bank toChallengingOne_bank
    (indexScan ((indexScan ((indexScan s .rej (some (unix (s.now - s.params.rrp)))).foldl (pruneOne .rej) s) .ver
      (some (unix (((indexScan s .rej (some (unix (s.now - s.params.rrp)))).foldl (pruneOne .rej) s).now - s.params.vrp)))).foldl
        (pruneOne .ver) ((indexScan s .rej (some (unix (s.now - s.params.rrp)))).foldl (pruneOne .rej) s)) .cp none)
    ((indexScan ((indexScan s .rej (some (unix (s.now - s.params.rrp)))).foldl (pruneOne .rej) s) .ver
      (some (unix (((indexScan s .rej (some (unix (s.now - s.params.rrp)))).foldl (pruneOne .rej) s).now - s.params.vrp)))).foldl
        (pruneOne .ver) ((indexScan s .rej (some (unix (s.now - s.params.rrp)))).foldl (pruneOne .rej) s))
  exact ⟨a3.trans (a2.trans a1), b3.trans (b2.trans b1)⟩

/-- the state after the tally phase of a successful end-block, and the final state's bank and dust -/
theorem endBlock_split {env : Env} {s s' : St} {sl : List Addr} (h : endBlock env s = .ok (s', sl)) :
    ∃ s5, tally env (preTally s) = .ok s5 ∧ s'.bank = s5.bank ∧ s'.dust = s5.dust ∧ s'.items = s5.items
      ∧ s'.invs = s5.invs := by
  rw [C08Payout.endBlock_phases] at h
  obtain ⟨s5, h5, h6⟩ := bind_ok h
  refine ⟨s5, h5, ?_⟩
  split at h6
  · cases h6
  split at h6
  · simp only [Res.ok.injEq] at h6
    have : s' = (slashEpoch env s5).1 := by rw [h6]
    subst this
    exact ⟨rfl, rfl, rfl, rfl⟩
  · simp only [Res.ok.injEq, Prod.mk.injEq] at h6
    rw [← h6.1]; exact ⟨rfl, rfl, rfl, rfl⟩

theorem delta_endBlock {env : Env} {s s' : St} {sl : List Addr} (hg : Good s) (h : endBlock env s = .ok (s', sl)) :
    Delta s s' (blockEvents env s) := by
  obtain ⟨s5, h5, hb, hd, _, _⟩ := endBlock_split h
  obtain ⟨pb, pd⟩ := preVerified_bank s
  have d0 : Delta s (preVerified s) [] := Delta.of_eq pb pd
  have d1 : Delta (preVerified s) (preTally s) _ := delta_expFold _ (good_preVerified hg)
  have d2 : Delta (preTally s) s5 _ := delta_tallyList _ (good_preTally hg) h5
  have d3 : Delta s5 s' [] := Delta.of_eq hb hd
  have := ((d0.trans d1).trans d2).trans d3
  simpa [blockEvents] using this

/-! ### what an event is: an unresolved item of a good intermediate state with its records -/
structure EvWF (e : Resolved) : Prop where
  at_ : ∃ sp, Good sp ∧ findItem sp e.it.uri = some e.it ∧ e.L = invsOf sp e.it.uri
  unres : e.it.status.unresolved = true
  rejCh : e.kind.isRej = true → e.it.status = .ch

theorem expEvent_wf {s : St} (hg : Good s) (u : String) : ∀ e ∈ expEvent s u, EvWF e := by
  intro e he
  unfold expEvent at he
  cases hf : findItem s u with
  | none => simp [hf] at he
  | some it =>
    by_cases hcp : it.status = .cp
    · have huri := (findItem_some8 hf).2
      simp only [hf, hcp, if_true, List.mem_singleton] at he
      subst he
      subst huri
      exact ⟨⟨s, hg, hf, rfl⟩, by show it.status.unresolved = true; rw [hcp]; rfl,
        fun h => by simp [Kind.isRej] at h⟩
    · simp [hf, hcp] at he

theorem tallyEvent_wf {env : Env} {s : St} (hg : Good s) (u : String) : ∀ e ∈ tallyEvent env s u, EvWF e := by
  intro e he
  unfold tallyEvent at he
  cases hf : findItem s u with
  | none => simp [hf] at he
  | some it =>
    by_cases hch : it.status = .ch
    · have huri := (findItem_some8 hf).2
      simp only [hf, hch, if_true, List.mem_singleton] at he
      subst he
      subst huri
      exact ⟨⟨s, hg, hf, rfl⟩, by show it.status.unresolved = true; rw [hch]; rfl, fun _ => hch⟩
    · simp [hf, hch] at he

theorem expEvents_wf : ∀ (l : List String) {s : St}, Good s → ∀ e ∈ expEvents l s, EvWF e := by
  intro l
  induction l with
  | nil => intro s _ e he; simp [expEvents] at he
  | cons u l ih =>
    intro s hg e he
    simp only [expEvents, List.mem_append] at he
    rcases he with he | he
    · exact expEvent_wf hg u e he
    · exact ih (good_toVerifiedOne s u hg) e he

theorem tallyEvents_wf {env : Env} : ∀ (l : List String) {s : St}, Good s → ∀ e ∈ tallyEvents env l s, EvWF e := by
  intro l
  induction l with
  | nil => intro s _ e he; simp [tallyEvents] at he
  | cons u l ih =>
    intro s hg e he
    simp only [tallyEvents] at he
    cases h1 : tallyOne env s u with
    | ok s1 =>
      simp only [h1, List.mem_append] at he
      rcases he with he | he
      · exact tallyEvent_wf hg u e he
      · exact ih (good_tallyOne hg h1) e he
    | err c => simp [h1] at he
    | panic k => simp [h1] at he

theorem blockEvents_wf {env : Env} {s : St} (hg : Good s) : ∀ e ∈ blockEvents env s, EvWF e := by
  intro e he
  simp only [blockEvents, List.mem_append] at he
  rcases he with he | he
  · exact expEvents_wf _ (good_preVerified hg) e he
  · exact tallyEvents_wf _ (good_preTally hg) e he

/-- **Dust bound per event**: nothing is retained unless the item is rejected; a rejection has at least one challenger
    and retains exactly `pub(d) mod n`, which is `< n`, in every denom -/
theorem event_dust_bound {e : Resolved} (h : EvWF e) (d : Denom) :
    0 ≤ e.dust d
    ∧ (e.kind.isRej = false → e.dust d = 0)
    ∧ (e.kind.isRej = true → 0 < (e.L.length : Int) ∧ e.dust d = amt e.it.pubColl d % (e.L.length : Int)
        ∧ e.dust d < (e.L.length : Int)) := by
  obtain ⟨sp, hg, hf, hL⟩ := h.at_
  cases hk : e.kind with
  | expired => simp [Resolved.dust, hk, Kind.isRej]
  | verified safe => simp [Resolved.dust, hk, Kind.isRej]
  | rejected =>
    have hch := h.rejCh (by rw [hk]; rfl)
    obtain ⟨hmem, _⟩ := findItem_some8 hf
    have hne : invsOf sp e.it.uri ≠ [] := hg.chal e.it hmem hch
    rw [← hL] at hne
    have hn : 0 < (e.L.length : Int) := by
      have : e.L.length ≠ 0 := fun h0 => hne (List.eq_nil_of_length_eq_zero h0)
      omega
    have hv := (hg.coll.items e.it hmem).1
    have hfl := rewardShare_floor hv hn d
    have hd : e.dust d = amt e.it.pubColl d % (e.L.length : Int) := by
      simp only [Resolved.dust, hk]
      rw [hfl, Int.emod_def]
    have h1 := Int.emod_nonneg (amt e.it.pubColl d) (by omega : (e.L.length : Int) ≠ 0)
    have h2 := Int.emod_lt_of_pos (amt e.it.pubColl d) hn
    refine ⟨by omega, fun hc => by simp [Kind.isRej] at hc, fun _ => ⟨hn, hd, by omega⟩⟩

/-! ### 1. the whole-block sum -/
/-- **Whole-block payout sum.** For the end-block of the model in any `Good` state (every reachable state, at any
    block time), with any number of items resolving in the block: every ordinary account's balance in every denom
    changes by exactly the sum over the resolved items of the per-item amounts of `C08Payout`; the module account drops
    by the total collateral of the resolved items minus the block's dust; the ghost dust grows by the block's dust; every
    event is an unresolved stored item of a good intermediate state with its records, and its dust is `0` unless it
    is a rejection, where it is `pub(d) mod n < n` for its `n ≥ 1` challengers. -/
theorem block_payouts_sum {env : Env} {s s' : St} {sl : List Addr} (hg : Good s)
    (h : endBlock env s = .ok (s', sl)) :
    (∀ a d, a ≠ daAcc →
        s'.bank.bal a d = s.bank.bal a d + sumOver (fun e => e.pay a d) (blockEvents env s))
    ∧ (∀ d, s'.bank.bal daAcc d = s.bank.bal daAcc d
        - (sumOver (fun e => e.coll d) (blockEvents env s) - sumOver (fun e => e.dust d) (blockEvents env s)))
    ∧ (∀ d, s'.dust d = s.dust d + sumOver (fun e => e.dust d) (blockEvents env s))
    ∧ (∀ e ∈ blockEvents env s, EvWF e ∧ ∀ d, 0 ≤ e.dust d ∧ (e.kind.isRej = false → e.dust d = 0)
        ∧ (e.kind.isRej = true → 0 < (e.L.length : Int) ∧ e.dust d = amt e.it.pubColl d % (e.L.length : Int)
            ∧ e.dust d < (e.L.length : Int))) := by
  have dl := delta_endBlock hg h
  refine ⟨dl.bal, fun d => by rw [dl.module d]; omega, dl.dust, ?_⟩
  intro e he
  have hw := blockEvents_wf hg e he
  exact ⟨hw, event_dust_bound hw⟩

/-- the same for a block of a reachable state (time advanced by any `dt`) -/
theorem reachable_block_payouts_sum {env : Env} {s s' : St} {sl : List Addr} {dt : Int} (hr : Reachable s)
    (h : block env s dt = .ok (s', sl)) :
    let s0 : St := { s with now := s.now + dt, height := s.height + 1 }
    (∀ a d, a ≠ daAcc → s'.bank.bal a d = s.bank.bal a d + sumOver (fun e => e.pay a d) (blockEvents env s0))
    ∧ (∀ d, s'.bank.bal daAcc d = s.bank.bal daAcc d
        - (sumOver (fun e => e.coll d) (blockEvents env s0) - sumOver (fun e => e.dust d) (blockEvents env s0))) := by
  intro s0
  have := block_payouts_sum (block_start_good hr dt) h
  exact ⟨this.1, this.2.1⟩

/-! ### 2. no double pay -/
/-- every stored item with uri `u` is in a terminal status -/
def Settled (s : St) (u : String) : Prop := ∀ it ∈ s.items, it.uri = u → it.status.unresolved = false

theorem setItem_settle {items : List Item} {it : Item} (st : Status) (t : Int) (hst : st.unresolved = false) :
    (∀ x ∈ setItem items { it with status := st, ts := t }, x ∈ items ∨ x.status.unresolved = false)
    ∧ (∀ x ∈ setItem items { it with status := st, ts := t }, x.uri = it.uri → x.status.unresolved = false) := by
  refine ⟨?_, ?_⟩
  · intro x hx
    rcases mem_setItem hx with e | ⟨hm, _⟩
    · right; rw [e]; exact hst
    · left; exact hm
  · intro x hx hu
    rcases mem_setItem hx with e | ⟨_, hne⟩
    · rw [e]; exact hst
    · exact absurd hu hne

/-- the items of a to-verified step: old ones or terminal ones; the event's uri is settled afterwards -/
theorem items_toVerifiedOne {s : St} (hg : Good s) (v : String) :
    (∀ x ∈ (toVerifiedOne s v).items, x ∈ s.items ∨ x.status.unresolved = false)
    ∧ (∀ e ∈ expEvent s v, Settled (toVerifiedOne s v) e.it.uri) := by
  unfold expEvent
  cases hf : findItem s v with
  | none =>
    rw [toVerifiedOne_other (by intro it h; rw [hf] at h; cases h)]
    exact ⟨fun x hx => Or.inl hx, by intro e he; simp at he⟩
  | some it =>
    by_cases hcp : it.status = .cp
    · have p := expiry_pays_exactly hg.inv hf hcp
      have huri := (findItem_some8 hf).2
      subst huri
      obtain ⟨a, b⟩ := setItem_settle (items := s.items) (it := it) .ver s.now rfl
      rw [p.items]
      refine ⟨a, ?_⟩
      intro e he
      simp only [hcp, if_true, List.mem_singleton] at he
      subst he
      intro x hx hu
      rw [p.items] at hx
      exact b x hx hu
    · rw [toVerifiedOne_other (by intro it' h; rw [hf] at h; cases h; exact hcp)]
      exact ⟨fun x hx => Or.inl hx, by intro e he; simp [hcp] at he⟩

theorem items_tallyOne {env : Env} {s s' : St} (hg : Good s) {v : String} (h : tallyOne env s v = .ok s') :
    (∀ x ∈ s'.items, x ∈ s.items ∨ x.status.unresolved = false)
    ∧ (∀ e ∈ tallyEvent env s v, Settled s' e.it.uri) := by
  unfold tallyEvent
  cases hf : findItem s v with
  | none =>
    rw [tallyOne_other (by intro it h'; rw [hf] at h'; cases h')] at h
    cases h
    exact ⟨fun x hx => Or.inl hx, by intro e he; simp at he⟩
  | some it =>
    by_cases hch : it.status = .ch
    · have huri := (findItem_some8 hf).2
      have hitems : ∃ st, st.unresolved = false ∧ s'.items = setItem s.items { it with status := st, ts := s.now } := by
        cases hrej : (tallyOutcome s.params.rf it (proofsOf s v) env.active (env.assign v)).rejected with
        | true => exact ⟨.rej, rfl, (tally_rejected_pays_exactly hg.inv hf hch hrej h).items⟩
        | false => exact ⟨.ver, rfl, (tally_verified_pays_exactly hg.inv hf hch hrej h).items⟩
      obtain ⟨st, hst, hit⟩ := hitems
      subst huri
      obtain ⟨a, b⟩ := setItem_settle (items := s.items) (it := it) st s.now hst
      rw [hit]
      refine ⟨a, ?_⟩
      intro e he
      simp only [hch, if_true, List.mem_singleton] at he
      subst he
      intro x hx hu
      rw [hit] at hx
      exact b x hx hu
    · rw [tallyOne_other (by intro it' h'; rw [hf] at h'; cases h'; exact hch)] at h
      cases h
      exact ⟨fun x hx => Or.inl hx, by intro e he; simp [hch] at he⟩

theorem Settled.mono {s s' : St} {u : String} (h : Settled s u)
    (hi : ∀ x ∈ s'.items, x ∈ s.items ∨ x.status.unresolved = false) : Settled s' u := by
  intro x hx hu
  rcases hi x hx with h1 | h1
  · exact h x h1 hu
  · exact h1

theorem settled_expFold {u : String} : ∀ (l : List String) {s : St}, Good s → Settled s u →
    Settled (l.foldl toVerifiedOne s) u := by
  intro l
  induction l with
  | nil => intro s _ h; exact h
  | cons v l ih =>
    intro s hg h
    simp only [List.foldl_cons]
    exact ih (good_toVerifiedOne s v hg) (h.mono (items_toVerifiedOne hg v).1)

theorem settled_tallyList {env : Env} {u : String} : ∀ (l : List String) {s s' : St}, Good s → Settled s u →
    tallyList env l s = .ok s' → Settled s' u := by
  intro l
  induction l with
  | nil => intro s s' _ h ht; simp only [tallyList, Res.ok.injEq] at ht; subst ht; exact h
  | cons v l ih =>
    intro s s' hg h ht
    simp only [tallyList] at ht
    obtain ⟨s1, h1, h2⟩ := bind_ok ht
    exact ih (good_tallyOne hg h1) (h.mono (items_tallyOne hg h1).1) h2

theorem expEvents_settled : ∀ (l : List String) {s : St}, Good s →
    ∀ e ∈ expEvents l s, Settled (l.foldl toVerifiedOne s) e.it.uri := by
  intro l
  induction l with
  | nil => intro s _ e he; simp [expEvents] at he
  | cons v l ih =>
    intro s hg e he
    simp only [expEvents, List.mem_append] at he
    simp only [List.foldl_cons]
    rcases he with he | he
    · exact settled_expFold l (good_toVerifiedOne s v hg) ((items_toVerifiedOne hg v).2 e he)
    · exact ih (good_toVerifiedOne s v hg) e he

theorem tallyEvents_settled {env : Env} : ∀ (l : List String) {s s' : St}, Good s → tallyList env l s = .ok s' →
    ∀ e ∈ tallyEvents env l s, Settled s' e.it.uri := by
  intro l
  induction l with
  | nil => intro s s' _ _ e he; simp [tallyEvents] at he
  | cons v l ih =>
    intro s s' hg ht e he
    simp only [tallyList] at ht
    obtain ⟨s1, h1, h2⟩ := bind_ok ht
    simp only [tallyEvents, h1, List.mem_append] at he
    rcases he with he | he
    · exact settled_tallyList l (good_tallyOne hg h1) ((items_tallyOne hg h1).2 e he) h2
    · exact ih (good_tallyOne hg h1) h2 e he

/-- a settled uri has no records (the records of `Inv` belong to unresolved items) -/
theorem settled_no_records {s : St} (hi : Inv s) {u : String} (h : Settled s u) : invsOf s u = [] := by
  unfold invsOf
  rw [List.filter_eq_nil_iff]
  intro x hx hxu
  have hxu' : x.uri = u := by simpa using hxu
  obtain ⟨it, hm, hu, hun⟩ := hi.owner x hx
  have := h it hm (hu.trans hxu')
  rw [this] at hun
  cases hun

/-! #### a settled uri produces no event in any (later) end-block -/
theorem settled_pruneOne {u : String} (st : Status) (s : St) (v : String) (h : Settled s u) :
    Settled (pruneOne st s v) u := by
  apply h.mono
  intro x hx
  left
  unfold pruneOne at hx
  split at hx
  · split at hx
    · exact (List.mem_filter.1 hx).1
    · exact hx
  · exact hx

theorem settled_toChallengingOne {u : String} (s : St) (v : String) (h : Settled s u) :
    Settled (toChallengingOne s v) u := by
  unfold toChallengingOne
  cases hf : findItem s v with
  | none => exact h
  | some it =>
    obtain ⟨hmem, huri⟩ := findItem_some8 hf
    dsimp only
    by_cases hcp : it.status = .cp
    · simp only [hcp, if_true]
      split
      · intro x hx hu
        rcases mem_setItem hx with e | ⟨hm, _⟩
        · have : it.uri = u := by rw [e] at hu; exact hu
          have := h it hmem this
          rw [hcp] at this
          cases this
        · exact h x hm hu
      · exact h
    · simp only [hcp, if_false]; exact h

theorem settled_foldl {u : String} {f : St → String → St} (hf : ∀ s v, Settled s u → Settled (f s v) u) :
    ∀ (l : List String) (s : St), Settled s u → Settled (l.foldl f s) u := by
  intro l
  induction l with
  | nil => intro s h; exact h
  | cons v l ih => intro s h; exact ih _ (hf s v h)

theorem settled_preVerified {s : St} {u : String} (h : Settled s u) : Settled (preVerified s) u := by
  unfold preVerified toChallenging prune
  exact settled_foldl settled_toChallengingOne _ _
    (settled_foldl (settled_pruneOne .ver) _ _ (settled_foldl (settled_pruneOne .rej) _ _ h))

theorem expEvents_ne {u : String} : ∀ (l : List String) {s : St}, Good s → Settled s u →
    ∀ e ∈ expEvents l s, e.it.uri ≠ u := by
  intro l
  induction l with
  | nil => intro s _ _ e he; simp [expEvents] at he
  | cons v l ih =>
    intro s hg h e he
    simp only [expEvents, List.mem_append] at he
    rcases he with he | he
    · have hw := expEvent_wf hg v e he
      obtain ⟨sp, _, _, _⟩ := hw.at_
      unfold expEvent at he
      cases hf : findItem s v with
      | none => simp [hf] at he
      | some it =>
        by_cases hcp : it.status = .cp
        · simp only [hf, hcp, if_true, List.mem_singleton] at he
          subst he
          intro hu
          have := h it (findItem_some8 hf).1 hu
          rw [hcp] at this
          cases this
        · simp [hf, hcp] at he
    · exact ih (good_toVerifiedOne s v hg) (h.mono (items_toVerifiedOne hg v).1) e he

theorem tallyEvents_ne {env : Env} {u : String} : ∀ (l : List String) {s : St}, Good s → Settled s u →
    ∀ e ∈ tallyEvents env l s, e.it.uri ≠ u := by
  intro l
  induction l with
  | nil => intro s _ _ e he; simp [tallyEvents] at he
  | cons v l ih =>
    intro s hg h e he
    simp only [tallyEvents] at he
    cases h1 : tallyOne env s v with
    | ok s1 =>
      simp only [h1, List.mem_append] at he
      rcases he with he | he
      · unfold tallyEvent at he
        cases hf : findItem s v with
        | none => simp [hf] at he
        | some it =>
          by_cases hch : it.status = .ch
          · simp only [hf, hch, if_true, List.mem_singleton] at he
            subst he
            intro hu
            have := h it (findItem_some8 hf).1 hu
            rw [hch] at this
            cases this
          · simp [hf, hch] at he
      · exact ih (good_tallyOne hg h1) (h.mono (items_tallyOne hg h1).1) e he
    | err c => simp [h1] at he
    | panic k => simp [h1] at he

/-- a settled uri has no event in an end-block, and stays settled -/
theorem settled_block_silent {env : Env} {s : St} {u : String} (hg : Good s) (h : Settled s u) :
    (∀ e ∈ blockEvents env s, e.it.uri ≠ u)
    ∧ (∀ s' sl, endBlock env s = .ok (s', sl) → Settled s' u) := by
  have h1 := settled_preVerified h
  have h2 : Settled (preTally s) u := by
    unfold preTally toVerified
    exact settled_expFold _ (good_preVerified hg) h1
  refine ⟨?_, ?_⟩
  · intro e he
    simp only [blockEvents, List.mem_append] at he
    rcases he with he | he
    · exact expEvents_ne _ (good_preVerified hg) h1 e he
    · exact tallyEvents_ne _ (good_preTally hg) h2 e he
  · intro s' sl hb
    obtain ⟨s5, h5, _, _, hit, _⟩ := endBlock_split hb
    have := settled_tallyList _ (good_preTally hg) h2 h5
    intro x hx
    rw [hit] at hx
    exact this x hx

/-- **No double pay.** Every item resolved in this block is, after the block, in a terminal status (every stored item
    of its uri, and `findItem` in particular), its invalidity records are gone, and — being `verified`/`rejected` —
    it is final: any next operation leaves it exactly as it is or prunes it (`C07.terminal_is_final`), and a next
    end-block (any boundary inputs, any time step) has no event for it, i.e. pays nothing for it again. -/
theorem block_no_double_pay {env : Env} {s s' : St} {sl : List Addr} (hg : Good s)
    (h : endBlock env s = .ok (s', sl)) :
    ∀ e ∈ blockEvents env s,
      Settled s' e.it.uri
      ∧ invsOf s' e.it.uri = []
      ∧ (∀ it', findItem s' e.it.uri = some it' → (it'.status = .ver ∨ it'.status = .rej)
          ∧ ∀ op, findItem (step s' op).1 e.it.uri = some it' ∨ findItem (step s' op).1 e.it.uri = none)
      ∧ (∀ env' dt, ∀ e' ∈ blockEvents env' { s' with now := s'.now + dt, height := s'.height + 1 },
          e'.it.uri ≠ e.it.uri) := by
  intro e he
  have hg' : Good s' := good_endBlock hg h
  obtain ⟨s5, h5, _, _, hit, _⟩ := endBlock_split h
  have hset : Settled s' e.it.uri := by
    have h5s : Settled s5 e.it.uri := by
      simp only [blockEvents, List.mem_append] at he
      rcases he with he | he
      · have := expEvents_settled _ (good_preVerified hg) e he
        exact settled_tallyList _ (good_preTally hg) this h5
      · exact tallyEvents_settled _ (good_preTally hg) h5 e he
    intro x hx
    rw [hit] at hx
    exact h5s x hx
  refine ⟨hset, settled_no_records hg'.inv hset, ?_, ?_⟩
  · intro it' hf
    have hun := hset it' (findItem_some8 hf).1 (findItem_some8 hf).2
    have hterm : it'.status = .ver ∨ it'.status = .rej := by
      cases hs : it'.status <;> simp [hs, Status.unresolved] at hun ⊢
    refine ⟨hterm, fun op => ?_⟩
    rcases C07.terminal_is_final s' op hg'.inv.nodup e.it.uri it' hf hterm with a | ⟨a, _⟩
    · exact Or.inl a
    · exact Or.inr a
  · intro env' dt e' he'
    have hset' : Settled { s' with now := s'.now + dt, height := s'.height + 1 } e.it.uri := hset
    exact (settled_block_silent (good_time hg' _ _) hset').1 e' he'

/-! ### the events in terms of the state at the START of the block
Each event was described in the intermediate state in which its step ran. Steps on other uris do not touch the records
or the frozen fields of an item, so the challengers of an event are exactly the records the block-start state holds for
its uri, and its publisher / collateral are those of the block-start item. -/
/-- same uri, publisher and frozen collateral -/
def Same (y x : Item) : Prop :=
  y.uri = x.uri ∧ y.publisher = x.publisher ∧ y.pubColl = x.pubColl ∧ y.invColl = x.invColl

def ItemsFrom (s0 s : St) : Prop := ∀ x ∈ s.items, ∃ y ∈ s0.items, Same y x
def InvsFrame (s0 s : St) : Prop := ∀ u, invsOf s u = invsOf s0 u ∨ Settled s u

/-- the items after a step: old ones, or an old one with a new status and time -/
def StepItems (s s' : St) : Prop :=
  ∀ x ∈ s'.items, x ∈ s.items ∨ ∃ it ∈ s.items, ∃ st t, x = { it with status := st, ts := t }

theorem StepItems.refl (s : St) : StepItems s s := fun x hx => Or.inl hx

theorem stepItems_setItem {s : St} {it : Item} (hm : it ∈ s.items) (st : Status) (t : Int) {s' : St}
    (h : s'.items = setItem s.items { it with status := st, ts := t }) : StepItems s s' := by
  intro x hx
  rw [h] at hx
  rcases mem_setItem hx with e | ⟨hm', _⟩
  · exact Or.inr ⟨it, hm, st, t, e⟩
  · exact Or.inl hm'

theorem ItemsFrom.step {s0 s s' : St} (h : ItemsFrom s0 s) (hs : StepItems s s') : ItemsFrom s0 s' := by
  intro x hx
  rcases hs x hx with h1 | ⟨it, hm, st, t, e⟩
  · exact h x h1
  · obtain ⟨y, hy, a, b, c, d⟩ := h it hm
    exact ⟨y, hy, by rw [e]; exact ⟨a, b, c, d⟩⟩

theorem invsOf_filter_other (invs : List Inval) {u v : String} (huv : u ≠ v) :
    (invs.filter (fun x => !(x.uri == v))).filter (fun x => x.uri == u) = invs.filter (fun x => x.uri == u) := by
  apply filter_uri_keep
  intro x _ hxu
  have : x.uri ≠ v := by rw [hxu]; exact huv
  simp [this]

theorem InvsFrame.step {s0 s s' : St} {v : String} (h : InvsFrame s0 s)
    (hmono : ∀ x ∈ s'.items, x ∈ s.items ∨ x.status.unresolved = false)
    (hinv : s'.invs = s.invs ∨ (s'.invs = s.invs.filter (fun x => !(x.uri == v)) ∧ Settled s' v)) :
    InvsFrame s0 s' := by
  intro u
  rcases h u with h1 | h1
  · rcases hinv with e | ⟨e, hs⟩
    · left; unfold invsOf at *; rw [e]; exact h1
    · by_cases huv : u = v
      · right; rw [huv]; exact hs
      · left; unfold invsOf at *; rw [e, invsOf_filter_other _ huv]; exact h1
  · right; exact h1.mono hmono

theorem step_toVerifiedOne {s : St} (hg : Good s) (v : String) :
    StepItems s (toVerifiedOne s v)
    ∧ ((toVerifiedOne s v).invs = s.invs
        ∨ ((toVerifiedOne s v).invs = s.invs.filter (fun x => !(x.uri == v)) ∧ Settled (toVerifiedOne s v) v)) := by
  cases hf : findItem s v with
  | none =>
    rw [toVerifiedOne_other (by intro it h; rw [hf] at h; cases h)]
    exact ⟨StepItems.refl s, Or.inl rfl⟩
  | some it =>
    by_cases hcp : it.status = .cp
    · have p := expiry_pays_exactly hg.inv hf hcp
      obtain ⟨hm, huri⟩ := findItem_some8 hf
      subst huri
      refine ⟨stepItems_setItem hm .ver s.now p.items, Or.inr ⟨p.records, ?_⟩⟩
      intro x hx hu
      rw [p.items] at hx
      exact (setItem_settle (items := s.items) (it := it) .ver s.now rfl).2 x hx hu
    · rw [toVerifiedOne_other (by intro it' h; rw [hf] at h; cases h; exact hcp)]
      exact ⟨StepItems.refl s, Or.inl rfl⟩

theorem step_tallyOne {env : Env} {s s' : St} (hg : Good s) {v : String} (h : tallyOne env s v = .ok s') :
    StepItems s s'
    ∧ (s'.invs = s.invs ∨ (s'.invs = s.invs.filter (fun x => !(x.uri == v)) ∧ Settled s' v)) := by
  cases hf : findItem s v with
  | none =>
    rw [tallyOne_other (by intro it h'; rw [hf] at h'; cases h')] at h
    cases h
    exact ⟨StepItems.refl s, Or.inl rfl⟩
  | some it =>
    by_cases hch : it.status = .ch
    · obtain ⟨hm, huri⟩ := findItem_some8 hf
      have hitems : ∃ st, st.unresolved = false ∧ s'.items = setItem s.items { it with status := st, ts := s.now }
          ∧ s'.invs = s.invs.filter (fun x => !(x.uri == it.uri)) := by
        cases hrej : (tallyOutcome s.params.rf it (proofsOf s v) env.active (env.assign v)).rejected with
        | true =>
          have p := tally_rejected_pays_exactly hg.inv hf hch hrej h
          exact ⟨.rej, rfl, p.items, p.records⟩
        | false =>
          have p := tally_verified_pays_exactly hg.inv hf hch hrej h
          exact ⟨.ver, rfl, p.items, p.records⟩
      obtain ⟨st, hst, hit, hrec⟩ := hitems
      subst huri
      refine ⟨stepItems_setItem hm st s.now hit, Or.inr ⟨hrec, ?_⟩⟩
      intro x hx hu
      rw [hit] at hx
      exact (setItem_settle (items := s.items) (it := it) st s.now hst).2 x hx hu
    · rw [tallyOne_other (by intro it' h'; rw [hf] at h'; cases h'; exact hch)] at h
      cases h
      exact ⟨StepItems.refl s, Or.inl rfl⟩

/-- what the frames give for the event of a step in `s` -/
theorem event_at_start {s0 s : St} (hI : ItemsFrom s0 s) (hF : InvsFrame s0 s) {u : String} {it : Item}
    (hf : findItem s u = some it) (hun : it.status.unresolved = true) :
    invsOf s u = invsOf s0 it.uri ∧ ∃ y ∈ s0.items, Same y it := by
  obtain ⟨hm, huri⟩ := findItem_some8 hf
  subst huri
  refine ⟨?_, hI it hm⟩
  rcases hF it.uri with h1 | h1
  · exact h1
  · have := h1 it hm rfl
    rw [this] at hun; cases hun

def AtStart (s0 : St) (e : Resolved) : Prop := e.L = invsOf s0 e.it.uri ∧ ∃ y ∈ s0.items, Same y e.it

theorem expEvents_at_start {s0 : St} : ∀ (l : List String) {s : St}, Good s → ItemsFrom s0 s → InvsFrame s0 s →
    (∀ e ∈ expEvents l s, AtStart s0 e)
    ∧ ItemsFrom s0 (l.foldl toVerifiedOne s) ∧ InvsFrame s0 (l.foldl toVerifiedOne s) := by
  intro l
  induction l with
  | nil => intro s _ hI hF; exact ⟨by intro e he; simp [expEvents] at he, hI, hF⟩
  | cons v l ih =>
    intro s hg hI hF
    obtain ⟨sa, sb⟩ := step_toVerifiedOne hg v
    obtain ⟨i1, i2, i3⟩ := ih (good_toVerifiedOne s v hg) (hI.step sa) (hF.step (items_toVerifiedOne hg v).1 sb)
    simp only [List.foldl_cons]
    refine ⟨?_, i2, i3⟩
    intro e he
    simp only [expEvents, List.mem_append] at he
    rcases he with he | he
    · unfold expEvent at he
      cases hf : findItem s v with
      | none => simp [hf] at he
      | some it =>
        by_cases hcp : it.status = .cp
        · simp only [hf, hcp, if_true, List.mem_singleton] at he
          subst he
          exact event_at_start hI hF hf (by rw [hcp]; rfl)
        · simp [hf, hcp] at he
    · exact i1 e he

theorem tallyEvents_at_start {env : Env} {s0 : St} : ∀ (l : List String) {s : St}, Good s → ItemsFrom s0 s →
    InvsFrame s0 s → ∀ e ∈ tallyEvents env l s, AtStart s0 e := by
  intro l
  induction l with
  | nil => intro s _ _ _ e he; simp [tallyEvents] at he
  | cons v l ih =>
    intro s hg hI hF e he
    simp only [tallyEvents] at he
    cases h1 : tallyOne env s v with
    | ok s1 =>
      obtain ⟨sa, sb⟩ := step_tallyOne hg h1
      simp only [h1, List.mem_append] at he
      rcases he with he | he
      · unfold tallyEvent at he
        cases hf : findItem s v with
        | none => simp [hf] at he
        | some it =>
          by_cases hch : it.status = .ch
          · simp only [hf, hch, if_true, List.mem_singleton] at he
            subst he
            exact event_at_start hI hF hf (by rw [hch]; rfl)
          · simp [hf, hch] at he
      · exact ih (good_tallyOne hg h1) (hI.step sa) (hF.step (items_tallyOne hg h1).1 sb) e he
    | err c => simp [h1] at he
    | panic k => simp [h1] at he

theorem stepItems_pruneOne (st : Status) (s : St) (v : String) : StepItems s (pruneOne st s v) := by
  intro x hx
  left
  unfold pruneOne at hx
  split at hx
  · split at hx
    · exact (List.mem_filter.1 hx).1
    · exact hx
  · exact hx

theorem stepItems_toChallengingOne (s : St) (v : String) : StepItems s (toChallengingOne s v) := by
  unfold toChallengingOne
  cases hf : findItem s v with
  | none => exact StepItems.refl s
  | some it =>
    dsimp only
    split
    · split
      · exact stepItems_setItem (findItem_some8 hf).1 .ch s.now rfl
      · exact StepItems.refl s
    · exact StepItems.refl s

theorem frames_foldl {s0 : St} {f : St → String → St} (hi : ∀ s v, StepItems s (f s v))
    (hv : ∀ s v, (f s v).invs = s.invs) :
    ∀ (l : List String) (s : St), ItemsFrom s0 s → s.invs = s0.invs →
      ItemsFrom s0 (l.foldl f s) ∧ (l.foldl f s).invs = s0.invs := by
  intro l
  induction l with
  | nil => intro s a b; exact ⟨a, b⟩
  | cons v l ih => intro s a b; exact ih _ (a.step (hi s v)) ((hv s v).trans b)

theorem frames_preVerified (s : St) : ItemsFrom s (preVerified s) ∧ (preVerified s).invs = s.invs := by
  have h0 : ItemsFrom s s := fun x hx => ⟨x, hx, rfl, rfl, rfl, rfl⟩
  unfold preVerified toChallenging prune
  obtain ⟨a1, b1⟩ := frames_foldl (s0 := s) (stepItems_pruneOne .rej) (pruneOne_invs .rej) _ s h0 rfl
  obtain ⟨a2, b2⟩ := frames_foldl (s0 := s) (stepItems_pruneOne .ver) (pruneOne_invs .ver) _ _ a1 b1
  exact frames_foldl (s0 := s) stepItems_toChallengingOne toChallengingOne_invs _ _ a2 b2

/-- **The events of a block, read off the block-start state**: the challengers of every item resolved in the block are
    exactly the records the state at the start of the block holds for its uri, and the item's publisher and collateral
    are those of the block-start item of that uri (unique: uris are distinct). So the sums of `block_payouts_sum` are sums
    over items and records of the START state. -/
theorem blockEvents_at_start {env : Env} {s : St} (hg : Good s) :
    ∀ e ∈ blockEvents env s, e.L = invsOf s e.it.uri ∧ ∃ y ∈ s.items, Same y e.it := by
  obtain ⟨f1, f2⟩ := frames_preVerified s
  have hF : InvsFrame s (preVerified s) := fun u => Or.inl (by unfold invsOf; rw [f2])
  obtain ⟨e1, i2, i3⟩ := expEvents_at_start
    (indexScan (preVerified s) .cp (some (unix ((preVerified s).now - (preVerified s).params.cp))))
    (good_preVerified hg) f1 hF
  intro e he
  simp only [blockEvents, List.mem_append] at he
  rcases he with he | he
  · exact e1 e he
  · exact tallyEvents_at_start _ (good_preTally hg) i2 i3 e he

/-! ### 3. whole histories -/
/-- the items resolved by one operation (only a block that does not halt resolves anything) -/
def opEvents (s : St) : Op → List Resolved
  | .block env dt =>
    match block env s dt with
    | .ok _ => blockEvents env { s with now := s.now + dt, height := s.height + 1 }
    | _ => []
  | _ => []

/-- net effect of a MESSAGE on the balance of `a` (collateral posted by `a`; `≤ 0` for ordinary accounts,
    `msg_never_pays`); blocks contribute nothing here -/
def opMsg (s : St) (op : Op) (a : Addr) (d : Denom) : Int :=
  match op with
  | .block _ _ => 0
  | _ => (step s op).1.bank.bal a d - s.bank.bal a d

def runEvents : List Op → St → List Resolved
  | [], _ => []
  | op :: l, s => opEvents s op ++ runEvents l (step s op).1

def runMsg : List Op → St → Addr → Denom → Int
  | [], _, _, _ => 0
  | op :: l, s, a, d => opMsg s op a d + runMsg l (step s op).1 a d

/-- one operation: message effect plus the payouts of the items it resolves -/
theorem step_payouts_sum {s : St} (hg : Good s) (op : Op) :
    (∀ a d, a ≠ daAcc → (step s op).1.bank.bal a d
        = s.bank.bal a d + opMsg s op a d + sumOver (fun e => e.pay a d) (opEvents s op))
    ∧ (∀ d, (step s op).1.bank.bal daAcc d = s.bank.bal daAcc d + opMsg s op daAcc d
        - (sumOver (fun e => e.coll d) (opEvents s op) - sumOver (fun e => e.dust d) (opEvents s op))) := by
  cases op with
  | block env dt =>
    simp only [step, opEvents, opMsg]
    cases hb : block env s dt with
    | ok r =>
      obtain ⟨s', sl⟩ := r
      have := block_payouts_sum (good_time hg (s.now + dt) (s.height + 1)) hb
      refine ⟨fun a d ha => ?_, fun d => ?_⟩
      · have := this.1 a d ha; simp only [] at this ⊢; omega
      · have := this.2.1 d; simp only [] at this ⊢; omega
    | err c => simp [sumOver]
    | panic k => simp [sumOver]
  | publish a u n p => exact ⟨fun a d _ => by simp only [opMsg, opEvents, sumOver]; omega,
      fun d => by simp only [opMsg, opEvents, sumOver]; omega⟩
  | invalid a u ix => exact ⟨fun a d _ => by simp only [opMsg, opEvents, sumOver]; omega,
      fun d => by simp only [opMsg, opEvents, sumOver]; omega⟩
  | proof a v u ixs e x b => exact ⟨fun a d _ => by simp only [opMsg, opEvents, sumOver]; omega,
      fun d => by simp only [opMsg, opEvents, sumOver]; omega⟩
  | regdep a d' => exact ⟨fun a d _ => by simp only [opMsg, opEvents, sumOver]; omega,
      fun d => by simp only [opMsg, opEvents, sumOver]; omega⟩
  | unregdep a => exact ⟨fun a d _ => by simp only [opMsg, opEvents, sumOver]; omega,
      fun d => by simp only [opMsg, opEvents, sumOver]; omega⟩
  | setParams p => exact ⟨fun a d _ => by simp only [opMsg, opEvents, sumOver]; omega,
      fun d => by simp only [opMsg, opEvents, sumOver]; omega⟩

/-- **Run-level payout sum.** Over ANY list of well-formed operations from a good state (e.g. genesis, or any reachable
    state): the balance of every ordinary account is its initial balance, plus the net effect of the messages (the
    collateral it posted), plus the SUM over all items resolved during the history of the per-item amounts of
    `C08Payout`; the module account holds its initial balance plus what the messages brought in, minus the total
    collateral of all resolved items, plus their division dust. -/
theorem run_payouts_sum : ∀ (ops : List Op) {s : St}, Good s → (∀ op ∈ ops, op.wf) →
    (∀ a d, a ≠ daAcc → (C08.run s ops).bank.bal a d
        = s.bank.bal a d + runMsg ops s a d + sumOver (fun e => e.pay a d) (runEvents ops s))
    ∧ (∀ d, (C08.run s ops).bank.bal daAcc d = s.bank.bal daAcc d + runMsg ops s daAcc d
        - (sumOver (fun e => e.coll d) (runEvents ops s) - sumOver (fun e => e.dust d) (runEvents ops s)))
    ∧ (∀ e ∈ runEvents ops s, EvWF e) := by
  intro ops
  induction ops with
  | nil =>
    intro s _ _
    exact ⟨fun a d _ => by simp [C08.run, runMsg, runEvents, sumOver],
      fun d => by simp [C08.run, runMsg, runEvents, sumOver], by intro e he; simp [runEvents] at he⟩
  | cons op l ih =>
    intro s hg hwf
    have hg1 : Good (step s op).1 := good_step op hg (hwf op (List.mem_cons_self ..))
    obtain ⟨i1, i2, i3⟩ := ih hg1 (fun o ho => hwf o (List.mem_cons_of_mem _ ho))
    obtain ⟨p1, p2⟩ := step_payouts_sum hg op
    have hrun : C08.run s (op :: l) = C08.run (step s op).1 l := rfl
    rw [hrun]
    refine ⟨fun a d ha => ?_, fun d => ?_, ?_⟩
    · rw [i1 a d ha, p1 a d ha]; simp only [runMsg, runEvents, sumOver_append]; omega
    · rw [i2 d, p2 d]; simp only [runMsg, runEvents, sumOver_append]; omega
    · intro e he
      simp only [runEvents, List.mem_append] at he
      rcases he with he | he
      · cases op with
        | block env dt =>
          simp only [opEvents] at he
          cases hb : block env s dt with
          | ok r => rw [hb] at he; exact blockEvents_wf (good_time hg _ _) e he
          | err c => rw [hb] at he; simp at he
          | panic k => rw [hb] at he; simp at he
        | publish a u n p => simp [opEvents] at he
        | invalid a u ix => simp [opEvents] at he
        | proof a v u ixs e x b => simp [opEvents] at he
        | regdep a d' => simp [opEvents] at he
        | unregdep a => simp [opEvents] at he
        | setParams p => simp [opEvents] at he
      · exact i3 e he

/-- from genesis -/
theorem reachable_run_payouts_sum {s : St} (hr : Reachable s) (ops : List Op) (hwf : ∀ op ∈ ops, op.wf) :
    (∀ a d, a ≠ daAcc → (C08.run s ops).bank.bal a d
        = s.bank.bal a d + runMsg ops s a d + sumOver (fun e => e.pay a d) (runEvents ops s))
    ∧ (∀ d, (C08.run s ops).bank.bal daAcc d = s.bank.bal daAcc d + runMsg ops s daAcc d
        - (sumOver (fun e => e.coll d) (runEvents ops s) - sumOver (fun e => e.dust d) (runEvents ops s))) :=
  let h := run_payouts_sum ops (good_reachable hr) hwf
  ⟨h.1, h.2.1⟩

/-! #### messages never pay out: the `runMsg` term of `run_payouts_sum` only collects collateral -/
theorem send_in_le {t : Addr} (ht : t ≠ daAcc) {cs : Coins} (hc : ∀ c ∈ cs, 0 ≤ c.2) {b b' : Bank}
    (h : sendCoins b t daAcc cs = .ok b') (a : Addr) (ha : a ≠ daAcc) (d : Denom) : b'.bal a d ≤ b.bal a d := by
  obtain ⟨h1, _, h3⟩ := sendCoins_ok ht cs b b' h
  by_cases hat : a = t
  · subst hat; rw [h1 d]; have := amt_nonneg hc d; omega
  · rw [h3 a d hat ha]; omega

theorem publish_le {s s' : St} {t : Addr} {u : String} {n p : Nat} (hi : Inv s) (ht : t ≠ daAcc)
    (hr : publish s t u n p = .ok s') (a : Addr) (ha : a ≠ daAcc) (d : Denom) :
    s'.bank.bal a d ≤ s.bank.bal a d := by
  have hc := coinsPos_nonneg (valid_coins hi.params).1
  unfold publish at hr
  split at hr
  · cases hr
  split at hr
  · cases hr
  simp only [] at hr
  split at hr
  · obtain ⟨b, hs, hb⟩ := bind_ok hr
    simp only [Res.ok.injEq] at hb
    subst hb
    exact send_in_le ht hc hs a ha d
  · simp only [Res.ok.injEq] at hr
    subst hr; exact Int.le_refl _

theorem submitInvalidity_le {s s' : St} {t : Addr} {u : String} {ix : List Int} (hi : Inv s) (ht : t ≠ daAcc)
    (hr : submitInvalidity s t u ix = .ok s') (a : Addr) (ha : a ≠ daAcc) (d : Denom) :
    s'.bank.bal a d ≤ s.bank.bal a d := by
  unfold submitInvalidity at hr
  split at hr
  · cases hr
  split at hr
  · cases hr
  rename_i it hf
  have hc := coinsPos_nonneg (hi.coins it (findItem_some8 hf).1).2
  split at hr
  · cases hr
  split at hr
  · cases hr
  split at hr
  · cases hr
  simp only [] at hr
  split at hr
  · obtain ⟨b, hs, hb⟩ := bind_ok hr
    simp only [Res.ok.injEq] at hb
    subst hb
    exact send_in_le ht hc hs a ha d
  · simp only [Res.ok.injEq] at hr
    subst hr; exact Int.le_refl _

/-- a message never increases the balance of an ordinary account: everything an ordinary account ever RECEIVES from
    x/da is in the `pay` sum of the resolved items -/
theorem msg_never_pays {s : St} (hi : Inv s) (op : Op) (hwf : op.wf) (a : Addr) (ha : a ≠ daAcc) (d : Denom) :
    opMsg s op a d ≤ 0 := by
  cases op with
  | block env dt => simp [opMsg]
  | publish t u n p =>
    simp only [opMsg, step]
    cases hr : publish s t u n p with
    | ok s' => have := publish_le hi hwf hr a ha d; simp only [applyMsg]; omega
    | err c => simp [applyMsg]
    | panic k => simp [applyMsg]
  | invalid t u ix =>
    simp only [opMsg, step]
    cases hr : submitInvalidity s t u ix with
    | ok s' => have := submitInvalidity_le hi hwf hr a ha d; simp only [applyMsg]; omega
    | err c => simp [applyMsg]
    | panic k => simp [applyMsg]
  | proof t v u ixs e x b =>
    simp only [opMsg, step]
    cases hr : submitProof s t v u ixs e x b with
    | ok s' => simp only [applyMsg]; rw [(submitProof_fields hr).1]; omega
    | err c => simp [applyMsg]
    | panic k => simp [applyMsg]
  | regdep t d' => simp [opMsg, step, registerDeputy]
  | unregdep t =>
    simp only [opMsg, step]
    unfold unregisterDeputy
    split <;> simp [applyMsg]
  | setParams p =>
    simp only [opMsg, step]
    unfold updateParams
    split <;> simp [applyMsg]

theorem runMsg_nonpos : ∀ (ops : List Op) {s : St}, Good s → (∀ op ∈ ops, op.wf) →
    ∀ a, a ≠ daAcc → ∀ d, runMsg ops s a d ≤ 0 := by
  intro ops
  induction ops with
  | nil => intro s _ _ a _ d; simp [runMsg]
  | cons op l ih =>
    intro s hg hwf a ha d
    have h0 := hwf op (List.mem_cons_self ..)
    have h1 := msg_never_pays hg.inv op h0 a ha d
    have h2 := ih (good_step op hg h0) (fun o ho => hwf o (List.mem_cons_of_mem _ ho)) a ha d
    simp only [runMsg]; omega

/-! ### non-vacuity: two items resolve in ONE block — `u` verified by expiry, `v` rejected with two challengers -/
def pX : Params :=
  { thr := 330000000000000000, rf := PREC, epoch := 5, sft := 0, frac := 0, cp := 4 * SEC, pp := 6 * SEC,
    rrp := 9 * SEC, vrp := 12 * SEC, pub := [("urise", 1001)], inv := [("urise", 100)] }
def gX : St :=
  { (default : St) with params := pX, now := 1000 * SEC,
                        bank := ((Bank.empty.credit "a0" "urise" 5000).credit "a1" "urise" 5000).credit "a2" "urise" 5000 }
/-- `v` published by `a0` (collateral 1001), challenged by `a1` and `a2` (100 each) -/
def sA : St := C08.run gX [.publish "a0" "v" 3 1, .invalid "a1" "v" [0], .invalid "a2" "v" [0]]
theorem reach_sA : Reachable sA :=
  Reachable.step (.invalid "a2" "v" [0])
    (Reachable.step (.invalid "a1" "v" [0])
      (Reachable.step (.publish "a0" "v" 3 1)
        (Reachable.init ⟨by decide, rfl, rfl, rfl, rfl, fun _ => rfl, fun _ => rfl, fun _ => rfl⟩)
        (by show "a0" ≠ daAcc; decide))
      (by show "a1" ≠ daAcc; decide))
    (by show "a2" ≠ daAcc; decide)
/-- `v` goes to `challenging` at t = 1001 s; `u` is published at t = 1003 s; the block at t = 1008 s finds the challenge
    period of `u` (4 s) and the proof period of `v` (6 s) both over -/
def sA1 : St := toChallengingOne { sA with now := 1001 * SEC } "v"
def sA2 : St := (step { sA1 with now := 1003 * SEC } (.publish "a0" "u" 3 1)).1
def sB : St := { sA2 with now := 1008 * SEC }
theorem good_sB : Good sB :=
  good_time (good_step (.publish "a0" "u" 3 1)
    (good_time (good_toChallengingOne _ _ (good_time (good_reachable reach_sA) _ _)) _ _)
    (by show "a0" ≠ daAcc; decide)) _ _

example : sB.items.map (fun i => (i.uri, i.status, i.ts)) = [("u", .cp, 1003 * SEC), ("v", .ch, 1001 * SEC)]
    ∧ sB.invs.map (fun x => (x.uri, x.sender)) = [("v", "a1"), ("v", "a2")] := by decide

/-- the block's two phases on this state (scan lists written out: the kernel does not unfold `mergeSort`) -/
def sB1 : St := ["u"].foldl toVerifiedOne sB
def evB : List Resolved := expEvents ["u"] sB ++ tallyEvents C08.env0 ["v"] sB1
def obs (e : Resolved) : String × Bool × Nat × List Int :=
  (e.it.uri, e.kind.isRej, e.L.length, [e.pay "a0" "urise", e.pay "a1" "urise", e.pay "a2" "urise",
    e.coll "urise", e.dust "urise"])
/-- two events: `u` expired (publisher `a0` gets 1001), `v` rejected with n = 2 (each challenger 100 + ⌊1001/2⌋ = 600,
    dust 1001 mod 2 = 1 < 2) -/
example : evB.map obs = [("u", false, 0, [1001, 0, 0, 1001, 0]), ("v", true, 2, [0, 600, 600, 1201, 1])] := by decide

/-- the composition theorem instantiated on this block, and the balances computed independently -/
example (s5 : St) (h : tallyList C08.env0 ["v"] sB1 = .ok s5) : Delta sB s5 evB :=
  (delta_expFold ["u"] good_sB).trans (delta_tallyList ["v"] (good_foldl good_toVerifiedOne _ _ good_sB) h)
def obsEnd : Option (List Int × List Status × Nat) :=
  match tallyList C08.env0 ["v"] sB1 with
  | .ok s5 => some ([s5.bank.bal "a0" "urise", s5.bank.bal "a1" "urise", s5.bank.bal "a2" "urise",
      s5.bank.bal daAcc "urise", s5.dust "urise"], s5.items.map (·.status), s5.invs.length)
  | _ => none
example : [sB.bank.bal "a0" "urise", sB.bank.bal "a1" "urise", sB.bank.bal "a2" "urise", sB.bank.bal daAcc "urise"]
    = [2998, 4900, 4900, 2202] := by decide
example : obsEnd = some ([2998 + (1001 + 0), 4900 + (0 + 600), 4900 + (0 + 600), 2202 - ((1001 + 1201) - (0 + 1)), 1],
    [.ver, .rej], 0) := by decide

theorem scan_eq (s : St) (status : Status) (cutoff : Option Int) (l : List Item)
    (h : s.items.filter (fun it => it.status == status && (match cutoff with | none => true | some c => decide (unix it.ts ≤ c))) = l) :
    indexScan s status cutoff
      = (l.mergeSort (fun a b => decide (unix a.ts < unix b.ts) || (unix a.ts == unix b.ts && decide (a.uri ≤ b.uri)))).map (·.uri) := by
  subst h; rfl

def itUx : Item := ⟨"u", .cp, 1003 * SEC, "a0", 3, 1, [("urise", 1001)], [("urise", 100)]⟩
def itVx : Item := ⟨"v", .ch, 1001 * SEC, "a0", 3, 1, [("urise", 1001)], [("urise", 100)]⟩

theorem pre_sB : preVerified sB = sB := by
  unfold preVerified prune
  rw [scan_eq sB .rej _ [] (by rfl)]
  simp only [List.mergeSort_nil, List.map_nil, List.foldl_nil]
  rw [scan_eq sB .ver _ [] (by rfl)]
  simp only [List.mergeSort_nil, List.map_nil, List.foldl_nil]
  unfold toChallenging
  rw [scan_eq sB .cp none [itUx] (by rfl)]
  simp only [List.mergeSort_singleton, List.map_cons, List.map_nil, List.foldl_cons, List.foldl_nil]
  rfl

theorem scanV_sB : indexScan sB .cp (some (unix (sB.now - sB.params.cp))) = ["u"] := by
  rw [scan_eq sB .cp _ [itUx] (by rfl)]
  simp only [List.mergeSort_singleton, List.map_cons, List.map_nil]
  rfl

theorem preTally_sB : preTally sB = sB1 := by
  unfold preTally toVerified
  rw [pre_sB, scanV_sB]
  rfl

theorem scanT_sB : indexScan sB1 .ch (some (unix (sB1.now - sB1.params.pp))) = ["v"] := by
  rw [scan_eq sB1 .ch _ [{ itVx with status := .ch }] (by rfl)]
  simp only [List.mergeSort_singleton, List.map_cons, List.map_nil]
  rfl

/-- the events of the REAL end-block on `sB` are the two events above -/
theorem blockEvents_sB : blockEvents C08.env0 sB = evB := by
  unfold blockEvents
  rw [preTally_sB, pre_sB, scanV_sB, scanT_sB]
  rfl

/-- the whole-block theorems on the REAL `endBlock` of this state: it returns, and the final balances are the start
    balances plus the sums over the two events — publisher `a0` +1001, challengers `a1`, `a2` +600 each, module account
    2202 − (1001 + 1201) + 1 = 1 (the dust); afterwards both items are terminal without records -/
example : ∃ r, endBlock C08.env0 sB = .ok r := by
  obtain ⟨r, h, _⟩ := endBlock_ok (env := C08.env0) good_sB.nohalt
  exact ⟨r, h⟩
example (s' : St) (sl : List Addr) (h : endBlock C08.env0 sB = .ok (s', sl)) :
    s'.bank.bal "a0" "urise" = 2998 + 1001 ∧ s'.bank.bal "a1" "urise" = 4900 + 600
    ∧ s'.bank.bal "a2" "urise" = 4900 + 600 ∧ s'.bank.bal daAcc "urise" = 1 ∧ s'.dust "urise" = 1
    ∧ invsOf s' "u" = [] ∧ invsOf s' "v" = [] ∧ Settled s' "u" ∧ Settled s' "v" := by
  obtain ⟨p1, p2, p3, _⟩ := block_payouts_sum good_sB h
  have nd := block_no_double_pay good_sB h
  rw [blockEvents_sB] at p1 p2 p3 nd
  have hev : evB = [⟨itUx, invsOf sB "u", .expired⟩, ⟨itVx, invsOf sB1 "v", .rejected⟩] := by rfl
  have eu := nd ⟨itUx, invsOf sB "u", .expired⟩ (by rw [hev]; exact List.mem_cons_self ..)
  have ev := nd ⟨itVx, invsOf sB1 "v", .rejected⟩
    (by rw [hev]; exact List.mem_cons_of_mem _ (List.mem_cons_self ..))
  exact ⟨(p1 "a0" "urise" (by decide)).trans (by decide), (p1 "a1" "urise" (by decide)).trans (by decide),
    (p1 "a2" "urise" (by decide)).trans (by decide), (p2 "urise").trans (by decide), (p3 "urise").trans (by decide),
    eu.2.1, ev.2.1, eu.1, ev.1⟩

/-! ### axioms -/
#print axioms block_payouts_sum
#print axioms reachable_block_payouts_sum
#print axioms block_no_double_pay
#print axioms blockEvents_at_start
#print axioms run_payouts_sum
#print axioms reachable_run_payouts_sum
#print axioms msg_never_pays
#print axioms runMsg_nonpos

end Sunrise.C08Block
