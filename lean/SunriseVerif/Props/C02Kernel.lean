import SunriseVerif.Lemmas.Dec
import SunriseVerif.Gen.KernelsCL
import SunriseVerif.Model.CLCustody
import Mathlib.Tactic.Linarith
import Mathlib.Tactic.Ring
import Mathlib.Tactic.FieldSimp
import Mathlib.Tactic.Positivity
import Mathlib.Tactic.NormNum
import Mathlib.Algebra.Order.Field.Rat
import Mathlib.Algebra.Order.Field.Basic
import Mathlib.Algebra.Order.Ring.Cast
/-!
C02 (kernel rounding) — explicit rounding-error bounds, against the EXACT rational value, for the two amount kernels of
the concentrated-liquidity pool REGENERATED from x/liquiditypool/types/math.go (Gen/KernelsCL.lean):
`CalcAmountQuoteDelta` and `CalcAmountBaseDelta`.  They discharge the `e`-guards of the custody abstraction
(Model/CLCustody.lean: amounts paid INTO the pool ≥ exact − e, amounts paid OUT ≤ exact + e).

`q d = d.raw / 10^18` is the rational value of a `LegacyDec`, `u = 10^-18` one ulp, `εq = u/2 + u·u`.

* `q_mul_bounds`   `|q (Mul x y) − q x · q y| ≤ u/2`                                  (non-negative product)
* `q_quo_bounds`   `q x / q d − (u/2 + u·u) < q (Quo x d) ≤ q x / q d + u/2`           (0 ≤ x, 0 < d); `q_quo_abs` the |·| form.
                   `Quo` is half-even rounding of the quotient TRUNCATED at 36 decimals, so it is NOT within u/2 below
                   (counterexample at the end); the truncation costs strictly less than `u·u = 10^-36`.
* `quote_down`     `exactQ − u/2 ≤ q (CalcAmountQuoteDelta liq a b false) ≤ exactQ + u/2`
* `quote_up`       `exactQ − u/2 ≤ q (CalcAmountQuoteDelta liq a b true) < exactQ + u/2 + 1`, result a whole number
* `base_down`      `exactB − E < q (CalcAmountBaseDelta liq a b false) ≤ exactB + Eup`   (`base_down_le`: `≤ exactB + E`)
* `base_up`        `exactB − E < q (CalcAmountBaseDelta liq a b true) < exactB + Eup + 1`, result a whole number
     with  `exactQ = q liq · (q b − q a)`,  `exactB = q liq · (q b − q a) / (q a · q b)`,
           `E   = (u/2)/(q a · q b) + εq / q a + εq`,   `Eup = (u/2)/(q a · q b) + (u/2)/q a + u/2 ≤ E`,
     for `0 ≤ liq.raw`, `0 < a.raw ≤ b.raw`; `base_*_swapped` for `b < a` (the kernel exchanges the prices), `quote_symm`.
* `base_down_le'`, `base_up_ge'`: the same with the runtime tolerance `E' = u·(1/(q a·q b) + 1/q a + 1) ≥ E` (`errTol`).
* `base_in_custody`, `base_out_custody`, `quote_in_custody`, `quote_out_custody`, `deposit_*_guard`, `withdraw_*_guard`:
  the guards of `CLCustody.Op.guard` (deposit / withdraw / swap steps) with `e := E'` (base) and `e := u/2` (quote).
* examples: roundUp = false really exceeds the exact value (so e > 0 is needed); with prices ≈ 10^-11 the base kernel
  pays 222 whole units more than the exact amount — `E` is a few ulps only when the sqrt prices are bounded below.
-/
namespace Sunrise.C02Kernel
open Sunrise Sunrise.Dec Sunrise.Gen.KernelsCL

/-- rational value of a `LegacyDec` -/
def q (d : Dec) : Rat := (d.raw : Rat) / 10 ^ 18
/-- one unit in the last place, 10^-18 -/
def u : Rat := 1 / 10 ^ 18
/-- error bound of one `Quo`: half an ulp of the final rounding plus the truncation at 36 decimals -/
def εq : Rat := u / 2 + u * u

theorem PREC_cast : ((PREC : Int) : Rat) = 10 ^ 18 := by norm_num [PREC]
theorem HALF_cast : ((HALF : Int) : Rat) = 10 ^ 18 / 2 := by norm_num [HALF]
theorem u_pos : 0 < u := by unfold u; positivity
theorem εq_pos : 0 < εq := by unfold εq; have := u_pos; positivity
theorem εq_le_u : εq ≤ u := by unfold εq u; norm_num

theorem q_sub (a b : Dec) : q (Dec.sub b a) = q b - q a := by
  simp only [q, Dec.sub]; push_cast; ring

theorem q_nonneg {d : Dec} (h : 0 ≤ d.raw) : 0 ≤ q d := by
  unfold q; have : (0:Rat) ≤ (d.raw : Rat) := by exact_mod_cast h
  positivity

theorem q_pos {d : Dec} (h : 0 < d.raw) : 0 < q d := by
  unfold q; have : (0:Rat) < (d.raw : Rat) := by exact_mod_cast h
  positivity

theorem q_le {a b : Dec} (h : a.raw ≤ b.raw) : q a ≤ q b := by
  unfold q; have : (a.raw : Rat) ≤ (b.raw : Rat) := by exact_mod_cast h
  exact div_le_div_of_nonneg_right this (by positivity)

/-! ### pure rational steps (P = 10^18 abstract) -/

theorem rat_mul_upper (P M x y : Rat) (hP : 0 < P) (h : P * M ≤ x * y + P / 2) :
    M / P ≤ x / P * (y / P) + 1 / P / 2 := by
  have e : x / P * (y / P) + 1 / P / 2 - M / P = (x * y + P / 2 - P * M) / (P * P) := by
    field_simp
  have : 0 ≤ (x * y + P / 2 - P * M) / (P * P) := div_nonneg (by linarith) (by positivity)
  linarith

theorem rat_mul_lower (P M x y : Rat) (hP : 0 < P) (h : x * y ≤ P * M + P / 2) :
    x / P * (y / P) - 1 / P / 2 ≤ M / P := by
  have e : M / P - (x / P * (y / P) - 1 / P / 2) = (P * M + P / 2 - x * y) / (P * P) := by
    field_simp; ring
  have : 0 ≤ (P * M + P / 2 - x * y) / (P * P) := div_nonneg (by linarith) (by positivity)
  linarith

theorem rat_quo_upper (P R x d : Rat) (hP : 0 < P) (hd : 0 < d)
    (h : P * R * d ≤ x * P * P + P / 2 * d) :
    R / P ≤ x / P / (d / P) + 1 / P / 2 := by
  have e : x / P / (d / P) + 1 / P / 2 - R / P = (x * P * P + P / 2 * d - P * R * d) / (P * P * d) := by
    field_simp
  have : 0 ≤ (x * P * P + P / 2 * d - P * R * d) / (P * P * d) := div_nonneg (by linarith) (by positivity)
  linarith

theorem rat_quo_lower (P R x d : Rat) (hP : 0 < P) (hd : 0 < d)
    (h : x * P * P < P * R * d + P / 2 * d + d) :
    x / P / (d / P) - (1 / P / 2 + 1 / P * (1 / P)) < R / P := by
  have e : R / P - (x / P / (d / P) - (1 / P / 2 + 1 / P * (1 / P)))
      = (P * R * d + P / 2 * d + d - x * P * P) / (P * P * d) := by
    field_simp; ring
  have : 0 < (P * R * d + P / 2 * d + d - x * P * P) / (P * P * d) := div_pos (by linarith) (by positivity)
  linarith

/-! ### `Mul`, `Quo`, `Ceil` against the exact rational value -/

/-- `Mul` of two decimals with non-negative product: within half an ulp of the exact product -/
theorem q_mul_bounds (x y : Dec) (h : 0 ≤ x.raw * y.raw) :
    q x * q y - u / 2 ≤ q (Dec.mul x y) ∧ q (Dec.mul x y) ≤ q x * q y + u / 2 ∧ 0 ≤ (Dec.mul x y).raw := by
  have hb := mul_nonneg_bounds x y h
  have h1 : ((PREC : Int) : Rat) * ((Dec.mul x y).raw : Rat) ≤ (x.raw : Rat) * (y.raw : Rat) + ((HALF : Int) : Rat) := by
    exact_mod_cast hb.1
  have h2 : (x.raw : Rat) * (y.raw : Rat) ≤ ((PREC : Int) : Rat) * ((Dec.mul x y).raw : Rat) + ((HALF : Int) : Rat) := by
    exact_mod_cast hb.2.1
  rw [PREC_cast, HALF_cast] at h1 h2
  refine ⟨?_, ?_, hb.2.2⟩
  · exact rat_mul_lower (10 ^ 18) _ _ _ (by positivity) h2
  · exact rat_mul_upper (10 ^ 18) _ _ _ (by positivity) h1

/-- integer form of the `Quo` bound: `Quo` = half-even rounding (to 18 decimals) of the quotient TRUNCATED at 36 decimals -/
theorem quo_int_bounds (x d : Dec) (hx : 0 ≤ x.raw) (hd : 0 < d.raw) :
    PREC * (Dec.quo x d).raw * d.raw ≤ x.raw * PREC * PREC + HALF * d.raw
    ∧ x.raw * PREC * PREC < PREC * (Dec.quo x d).raw * d.raw + HALF * d.raw + d.raw
    ∧ 0 ≤ (Dec.quo x d).raw := by
  have hn : 0 ≤ x.raw * PREC * PREC := Int.mul_nonneg (Int.mul_nonneg hx (by decide)) (by decide)
  unfold Dec.quo
  simp only [tquo_nonneg_eq hn (Int.le_of_lt hd)]
  generalize hN : x.raw * PREC * PREC = N at hn ⊢
  have hT0 : 0 ≤ N / d.raw := Int.ediv_nonneg hn (Int.le_of_lt hd)
  have hm := Int.emod_nonneg N (Int.ne_of_gt hd)
  have hm2 := Int.emod_lt_of_pos N hd
  have hdm := Int.mul_ediv_add_emod N d.raw
  have hR := chopRound_nonneg_bounds (N / d.raw) hT0
  generalize N / d.raw = T at *
  generalize chopRound T = R at *
  have e1 : PREC * R * d.raw ≤ (T + HALF) * d.raw := Int.mul_le_mul_of_nonneg_right hR.1 (Int.le_of_lt hd)
  have e2 : T * d.raw ≤ (PREC * R + HALF) * d.raw := Int.mul_le_mul_of_nonneg_right hR.2.1 (Int.le_of_lt hd)
  refine ⟨?_, ?_, hR.2.2⟩ <;> nlinarith

/-- `Quo` of a non-negative by a positive decimal: at most half an ulp above, less than half an ulp + 10^-36 below -/
theorem q_quo_bounds (x d : Dec) (hx : 0 ≤ x.raw) (hd : 0 < d.raw) :
    q x / q d - εq < q (Dec.quo x d) ∧ q (Dec.quo x d) ≤ q x / q d + u / 2 ∧ 0 ≤ (Dec.quo x d).raw := by
  have hb := quo_int_bounds x d hx hd
  have hdr : (0:Rat) < (d.raw : Rat) := by exact_mod_cast hd
  have h1 : ((PREC : Int) : Rat) * ((Dec.quo x d).raw : Rat) * (d.raw : Rat)
      ≤ (x.raw : Rat) * ((PREC : Int) : Rat) * ((PREC : Int) : Rat) + ((HALF : Int) : Rat) * (d.raw : Rat) := by
    exact_mod_cast hb.1
  have h2 : (x.raw : Rat) * ((PREC : Int) : Rat) * ((PREC : Int) : Rat)
      < ((PREC : Int) : Rat) * ((Dec.quo x d).raw : Rat) * (d.raw : Rat) + ((HALF : Int) : Rat) * (d.raw : Rat) + (d.raw : Rat) := by
    exact_mod_cast hb.2.1
  rw [PREC_cast, HALF_cast] at h1 h2
  refine ⟨?_, ?_, hb.2.2⟩
  · exact rat_quo_lower (10 ^ 18) _ _ _ (by positivity) hdr h2
  · exact rat_quo_upper (10 ^ 18) _ _ _ (by positivity) hdr h1

/-- the task's two-sided form -/
theorem q_quo_abs (x d : Dec) (hx : 0 ≤ x.raw) (hd : 0 < d.raw) :
    |q (Dec.quo x d) - q x / q d| ≤ u / 2 + u * u := by
  have h := q_quo_bounds x d hx hd
  have hu := u_pos
  rw [abs_le]; unfold εq at h
  constructor <;> nlinarith [h.1, h.2.1, mul_pos hu hu]

theorem q_ceil_bounds (x : Dec) (hx : 0 ≤ x.raw) :
    q x ≤ q (Dec.ceil x) ∧ q (Dec.ceil x) < q x + 1 ∧ (Dec.ceil x).raw % PREC = 0 := by
  have hb := ceil_nonneg_bounds x hx
  have h1 : (x.raw : Rat) ≤ ((Dec.ceil x).raw : Rat) := by exact_mod_cast hb.1
  have h2 : ((Dec.ceil x).raw : Rat) < (x.raw : Rat) + ((PREC : Int) : Rat) := by exact_mod_cast hb.2.1
  rw [PREC_cast] at h2
  refine ⟨?_, ?_, hb.2.2⟩
  · unfold q; exact div_le_div_of_nonneg_right h1 (by positivity)
  · unfold q
    have : (x.raw : Rat) / 10 ^ 18 + 1 = ((x.raw : Rat) + 10 ^ 18) / 10 ^ 18 := by field_simp
    rw [this]; exact div_lt_div_of_pos_right h2 (by positivity)

/-! ### 1. quote kernel -/

/-- exact quote amount `L · (√p_b − √p_a)` -/
def exactQ (liq a b : Dec) : Rat := q liq * (q b - q a)

theorem quote_diff_eq (a b : Dec) (hab : a.raw ≤ b.raw) : Dec.abs (Dec.sub b a) = Dec.sub b a := by
  unfold Dec.abs
  have : ¬ (Dec.sub b a).raw < 0 := by simp only [Dec.sub]; omega
  simp only [this, if_false]

/-- roundUp = false (amount paid OUT): within half an ulp of the exact value, on both sides -/
theorem quote_down (liq a b : Dec) (hl : 0 ≤ liq.raw) (hab : a.raw ≤ b.raw) :
    exactQ liq a b - u / 2 ≤ q (CalcAmountQuoteDelta liq a b false)
    ∧ q (CalcAmountQuoteDelta liq a b false) ≤ exactQ liq a b + u / 2 := by
  simp only [CalcAmountQuoteDelta, Bool.false_eq_true, if_false, quote_diff_eq a b hab]
  have hd : 0 ≤ (Dec.sub b a).raw := by simp only [Dec.sub]; omega
  have hM := q_mul_bounds (Dec.sub b a) liq (Int.mul_nonneg hd hl)
  rw [q_sub] at hM
  unfold exactQ
  constructor <;> nlinarith [hM.1, hM.2.1]

/-- roundUp = true (amount paid IN): at least the exact value minus half an ulp, less than one whole unit above
    exact + ½ulp, and a whole number -/
theorem quote_up (liq a b : Dec) (hl : 0 ≤ liq.raw) (hab : a.raw ≤ b.raw) :
    exactQ liq a b - u / 2 ≤ q (CalcAmountQuoteDelta liq a b true)
    ∧ q (CalcAmountQuoteDelta liq a b true) < exactQ liq a b + u / 2 + 1
    ∧ (CalcAmountQuoteDelta liq a b true).raw % PREC = 0 := by
  simp only [CalcAmountQuoteDelta, if_true, quote_diff_eq a b hab]
  have hd : 0 ≤ (Dec.sub b a).raw := by simp only [Dec.sub]; omega
  have hM := q_mul_bounds (Dec.sub b a) liq (Int.mul_nonneg hd hl)
  have hC := q_ceil_bounds _ hM.2.2
  rw [q_sub] at hM
  unfold exactQ
  refine ⟨?_, ?_, hC.2.2⟩ <;> nlinarith [hM.1, hM.2.1, hC.1, hC.2.1]

/-- the quote kernel is symmetric in its two prices -/
theorem quote_symm (liq a b : Dec) (r : Bool) : CalcAmountQuoteDelta liq a b r = CalcAmountQuoteDelta liq b a r := by
  have : Dec.abs (Dec.sub b a) = Dec.abs (Dec.sub a b) := by
    unfold Dec.abs Dec.sub; simp only
    by_cases h1 : b.raw - a.raw < 0 <;> by_cases h2 : a.raw - b.raw < 0 <;>
      simp only [h1, h2, if_true, if_false, Dec.mk.injEq] <;> omega
  simp only [CalcAmountQuoteDelta, this]

/-! ### 3. base kernel -/

/-- exact base amount `L · (√p_b − √p_a) / (√p_a · √p_b)`  ( = L · (1/√p_a − 1/√p_b) ) -/
def exactB (liq a b : Dec) : Rat := q liq * (q b - q a) / (q a * q b)

/-- explicit error bound of the base kernel: the error of the `Mul` divided by both prices, the error of the first
    `Quo` divided by the second price, the error of the second `Quo` -/
def E (a b : Dec) : Rat := u / 2 / (q a * q b) + εq / q a + εq
/-- the upward error alone (no 36-decimal truncation term: truncation only lowers the result) -/
def Eup (a b : Dec) : Rat := u / 2 / (q a * q b) + u / 2 / q a + u / 2
/-- the tolerance of the project's runtime check (`CLCustodyAbs.errTol`) -/
def E' (a b : Dec) : Rat := u * (1 / (q a * q b) + 1 / q a + 1)

theorem exactB_eq (liq a b : Dec) (ha : 0 < a.raw) (hb : 0 < b.raw) :
    exactB liq a b = q liq * (1 / q a - 1 / q b) := by
  have := q_pos ha; have := q_pos hb
  unfold exactB; field_simp

theorem Eup_le_E (a b : Dec) (ha : 0 < a.raw) : Eup a b ≤ E a b := by
  have hqa := q_pos ha
  have h : u / 2 ≤ εq := by unfold εq; nlinarith [mul_pos u_pos u_pos]
  have := div_le_div_of_nonneg_right h (le_of_lt hqa)
  unfold Eup E; linarith

theorem E_le_E' (a b : Dec) (ha : 0 < a.raw) (hb : 0 < b.raw) : E a b ≤ E' a b := by
  have hqa := q_pos ha; have hqb := q_pos hb
  have hab : 0 < q a * q b := mul_pos hqa hqb
  have h1 := div_le_div_of_nonneg_right εq_le_u (le_of_lt hqa)
  have h2 : u / 2 / (q a * q b) ≤ u / (q a * q b) :=
    div_le_div_of_nonneg_right (by linarith [u_pos]) (le_of_lt hab)
  have e : E' a b = u / (q a * q b) + u / q a + u := by unfold E'; field_simp
  rw [e]; unfold E; linarith [εq_le_u]

/-- the kernel without the argument swap and without the final `Ceil` -/
def baseCore (liq a b : Dec) : Dec := Dec.quo (Dec.quo (Dec.mul (Dec.sub b a) liq) b) a

theorem base_unfold_le (liq a b : Dec) (r : Bool) (hab : a.raw ≤ b.raw) :
    CalcAmountBaseDelta liq a b r = if r then Dec.ceil (baseCore liq a b) else baseCore liq a b := by
  have : Dec.gt a b = false := by simp [Dec.gt]; omega
  simp only [CalcAmountBaseDelta, this, Bool.false_eq_true, if_false, baseCore]

/-- when the first price is the larger one the kernel swaps its arguments -/
theorem base_swap (liq a b : Dec) (r : Bool) (hba : b.raw < a.raw) :
    CalcAmountBaseDelta liq a b r = CalcAmountBaseDelta liq b a r := by
  have h1 : Dec.gt a b = true := by simp [Dec.gt]; omega
  have h2 : Dec.gt b a = false := by simp [Dec.gt]; omega
  simp only [CalcAmountBaseDelta, h1, h2, if_true, Bool.false_eq_true, if_false]

/-- the three rounded operations, chained -/
theorem baseCore_bounds (liq a b : Dec) (hl : 0 ≤ liq.raw) (ha : 0 < a.raw) (hab : a.raw ≤ b.raw) :
    exactB liq a b - E a b < q (baseCore liq a b) ∧ q (baseCore liq a b) ≤ exactB liq a b + Eup a b
    ∧ 0 ≤ (baseCore liq a b).raw := by
  have hb : 0 < b.raw := by omega
  have hqa := q_pos ha; have hqb := q_pos hb
  have hd : 0 ≤ (Dec.sub b a).raw := by simp only [Dec.sub]; omega
  have hM := q_mul_bounds (Dec.sub b a) liq (Int.mul_nonneg hd hl)
  have hQ1 := q_quo_bounds (Dec.mul (Dec.sub b a) liq) b hM.2.2 hb
  have hQ2 := q_quo_bounds (Dec.quo (Dec.mul (Dec.sub b a) liq) b) a hQ1.2.2 ha
  rw [q_sub] at hM
  unfold baseCore
  generalize q (Dec.mul (Dec.sub b a) liq) = m at hM hQ1 hQ2
  generalize q (Dec.quo (Dec.mul (Dec.sub b a) liq) b) = x1 at hQ1 hQ2
  generalize q (Dec.quo (Dec.quo (Dec.mul (Dec.sub b a) liq) b) a) = x2 at hQ2
  -- divide the first two estimates by the (positive) prices
  have d1u : m / q b ≤ ((q b - q a) * q liq + u / 2) / q b := div_le_div_of_nonneg_right hM.2.1 (le_of_lt hqb)
  have d1l : ((q b - q a) * q liq - u / 2) / q b ≤ m / q b := div_le_div_of_nonneg_right hM.1 (le_of_lt hqb)
  have d2u : x1 / q a ≤ (((q b - q a) * q liq + u / 2) / q b + u / 2) / q a :=
    div_le_div_of_nonneg_right (by linarith [hQ1.2.1]) (le_of_lt hqa)
  have d2l : (((q b - q a) * q liq - u / 2) / q b - εq) / q a < x1 / q a :=
    div_lt_div_of_pos_right (by linarith [hQ1.1]) hqa
  have eu : (((q b - q a) * q liq + u / 2) / q b + u / 2) / q a + u / 2 = exactB liq a b + Eup a b := by
    unfold exactB Eup; field_simp; ring
  have el : (((q b - q a) * q liq - u / 2) / q b - εq) / q a - εq = exactB liq a b - E a b := by
    unfold exactB E; field_simp; ring
  refine ⟨?_, ?_, hQ2.2.2⟩
  · linarith [hQ2.1]
  · linarith [hQ2.2.1]

/-- roundUp = false (amount paid OUT), prices in kernel order `a ≤ b` -/
theorem base_down (liq a b : Dec) (hl : 0 ≤ liq.raw) (ha : 0 < a.raw) (hab : a.raw ≤ b.raw) :
    exactB liq a b - E a b < q (CalcAmountBaseDelta liq a b false)
    ∧ q (CalcAmountBaseDelta liq a b false) ≤ exactB liq a b + Eup a b := by
  rw [base_unfold_le liq a b false hab]
  have h := baseCore_bounds liq a b hl ha hab
  simp only [Bool.false_eq_true, if_false]
  exact ⟨h.1, h.2.1⟩

/-- roundUp = false: the bound asked for, `≤ exact + E` -/
theorem base_down_le (liq a b : Dec) (hl : 0 ≤ liq.raw) (ha : 0 < a.raw) (hab : a.raw ≤ b.raw) :
    q (CalcAmountBaseDelta liq a b false) ≤ exactB liq a b + E a b := by
  linarith [(base_down liq a b hl ha hab).2, Eup_le_E a b ha]

/-- roundUp = true (amount paid IN): at least exact − E, less than one whole unit above exact + Eup, a whole number -/
theorem base_up (liq a b : Dec) (hl : 0 ≤ liq.raw) (ha : 0 < a.raw) (hab : a.raw ≤ b.raw) :
    exactB liq a b - E a b < q (CalcAmountBaseDelta liq a b true)
    ∧ q (CalcAmountBaseDelta liq a b true) < exactB liq a b + Eup a b + 1
    ∧ (CalcAmountBaseDelta liq a b true).raw % PREC = 0 := by
  rw [base_unfold_le liq a b true hab]
  have h := baseCore_bounds liq a b hl ha hab
  have hC := q_ceil_bounds _ h.2.2
  simp only [if_true]
  refine ⟨?_, ?_, hC.2.2⟩ <;> linarith [h.1, h.2.1, hC.1, hC.2.1]

/-- the same with the runtime tolerance `E' = u·(1/(√p_a·√p_b) + 1/√p_a + 1)` -/
theorem base_down_le' (liq a b : Dec) (hl : 0 ≤ liq.raw) (ha : 0 < a.raw) (hab : a.raw ≤ b.raw) :
    q (CalcAmountBaseDelta liq a b false) ≤ exactB liq a b + E' a b := by
  linarith [base_down_le liq a b hl ha hab, E_le_E' a b ha (by omega)]

theorem base_up_ge' (liq a b : Dec) (hl : 0 ≤ liq.raw) (ha : 0 < a.raw) (hab : a.raw ≤ b.raw) :
    exactB liq a b - E' a b ≤ q (CalcAmountBaseDelta liq a b true) := by
  linarith [(base_up liq a b hl ha hab).1, E_le_E' a b ha (by omega)]

/-- swapped arguments (`b < a`): the kernel evaluates the same formula with the prices exchanged -/
theorem base_down_le_swapped (liq a b : Dec) (hl : 0 ≤ liq.raw) (hb : 0 < b.raw) (hba : b.raw < a.raw) :
    q (CalcAmountBaseDelta liq a b false) ≤ exactB liq b a + E b a := by
  rw [base_swap liq a b false hba]; exact base_down_le liq b a hl hb (by omega)

theorem base_up_ge_swapped (liq a b : Dec) (hl : 0 ≤ liq.raw) (hb : 0 < b.raw) (hba : b.raw < a.raw) :
    exactB liq b a - E b a < q (CalcAmountBaseDelta liq a b true) := by
  rw [base_swap liq a b true hba]; exact (base_up liq b a hl hb (by omega)).1

/-! ### 4. the same bounds in the vocabulary of the custody abstraction (`CLCustody`) -/

open Sunrise.CLCustody in
theorem q_mk (n : Int) : q ⟨n⟩ = (n : Rat) / PRECQ := by unfold q PRECQ; norm_num

theorem q_lt {a b : Dec} (h : a.raw < b.raw) : q a < q b := by
  unfold q; have : (a.raw : Rat) < (b.raw : Rat) := by exact_mod_cast h
  exact div_lt_div_of_pos_right this (by positivity)

theorem raw_le_of_q_le {a b : Dec} (h : q a ≤ q b) : a.raw ≤ b.raw := by
  by_contra hc
  have := q_lt (show b.raw < a.raw by omega)
  linarith

theorem raw_pos_of_q_pos {a : Dec} (h : 0 < q a) : 0 < a.raw := by
  by_contra hc
  have h0 : q a ≤ q ⟨0⟩ := q_le (show a.raw ≤ (⟨0⟩ : Dec).raw by simp only; omega)
  have : q ⟨0⟩ = 0 := by unfold q; norm_num
  linarith

section custody
open Sunrise.CLCustody

/-- base paid INTO the pool (deposit, base-for-quote swap step): `n/PRECQ · (1/√p_a − 1/√p_b) ≤ amount + E'` -/
theorem base_in_custody (n : Int) (a b : Dec) (hn : 0 ≤ n) (ha : 0 < a.raw) (hab : a.raw ≤ b.raw) :
    (n : Rat) / PRECQ * (1 / q a - 1 / q b) ≤ q (CalcAmountBaseDelta ⟨n⟩ a b true) + E' a b := by
  have h := base_up_ge' ⟨n⟩ a b hn ha hab
  rw [exactB_eq _ a b ha (by omega), q_mk] at h
  linarith

/-- base paid OUT (withdrawal, quote-for-base swap step): `amount ≤ n/PRECQ · (1/√p_a − 1/√p_b) + E'` -/
theorem base_out_custody (n : Int) (a b : Dec) (hn : 0 ≤ n) (ha : 0 < a.raw) (hab : a.raw ≤ b.raw) :
    q (CalcAmountBaseDelta ⟨n⟩ a b false) ≤ (n : Rat) / PRECQ * (1 / q a - 1 / q b) + E' a b := by
  have h := base_down_le' ⟨n⟩ a b hn ha hab
  rw [exactB_eq _ a b ha (by omega), q_mk] at h
  exact h

/-- quote paid INTO the pool: `n/PRECQ · (√p_b − √p_a) ≤ amount + u/2` -/
theorem quote_in_custody (n : Int) (a b : Dec) (hn : 0 ≤ n) (hab : a.raw ≤ b.raw) :
    (n : Rat) / PRECQ * (q b - q a) ≤ q (CalcAmountQuoteDelta ⟨n⟩ a b true) + u / 2 := by
  have h := (quote_up ⟨n⟩ a b hn hab).1
  unfold exactQ at h; rw [q_mk] at h
  linarith

/-- quote paid OUT: `amount ≤ n/PRECQ · (√p_b − √p_a) + u/2` -/
theorem quote_out_custody (n : Int) (a b : Dec) (hn : 0 ≤ n) (hab : a.raw ≤ b.raw) :
    q (CalcAmountQuoteDelta ⟨n⟩ a b false) ≤ (n : Rat) / PRECQ * (q b - q a) + u / 2 := by
  have h := (quote_down ⟨n⟩ a b hn hab).2
  unfold exactQ at h; rw [q_mk] at h
  exact h

/-- the clamped price lies in `[sp lo, sp hi]` -/
theorem clamp_mem (x lo hi : Rat) (h : lo ≤ hi) : lo ≤ clamp x lo hi ∧ clamp x lo hi ≤ hi := by
  unfold clamp
  by_cases h1 : x < lo
  · simp only [h1, if_true]; exact ⟨le_refl _, h⟩
  · by_cases h2 : hi < x
    · simp only [h1, h2, if_true, if_false]; exact ⟨h, le_refl _⟩
    · simp only [h1, h2, if_false]; exact ⟨not_lt.mp h1, not_lt.mp h2⟩

/-- deposit guard, base side: `CalcActualAmounts` evaluates the base kernel at `a` = the current price clamped into the
    position's range (the current price when in range, `sp lo` when the price is below the range), `b = sp hi` -/
theorem deposit_base_guard (sp : Int → Rat) (P : Rat) (lo hi δ : Int) (a b : Dec)
    (hδ : 0 ≤ δ) (hlo : 0 < sp lo) (hlh : sp lo ≤ sp hi)
    (hqa : q a = clamp P (sp lo) (sp hi)) (hqb : q b = sp hi) :
    entBase sp P ⟨lo, hi, δ⟩ ≤ q (CalcAmountBaseDelta ⟨δ⟩ a b true) + E' a b := by
  have hc := clamp_mem P (sp lo) (sp hi) hlh
  have ha : 0 < a.raw := raw_pos_of_q_pos (by rw [hqa]; linarith [hc.1])
  have hab : a.raw ≤ b.raw := raw_le_of_q_le (by rw [hqa, hqb]; exact hc.2)
  have h := base_in_custody δ a b hδ ha hab
  unfold entBase; simp only []
  rw [← hqa, ← hqb]; exact h

/-- withdrawal guard, base side -/
theorem withdraw_base_guard (sp : Int → Rat) (P : Rat) (lo hi δ : Int) (a b : Dec)
    (hδ : 0 ≤ δ) (hlo : 0 < sp lo) (hlh : sp lo ≤ sp hi)
    (hqa : q a = clamp P (sp lo) (sp hi)) (hqb : q b = sp hi) :
    q (CalcAmountBaseDelta ⟨δ⟩ a b false) ≤ entBase sp P ⟨lo, hi, δ⟩ + E' a b := by
  have hc := clamp_mem P (sp lo) (sp hi) hlh
  have ha : 0 < a.raw := raw_pos_of_q_pos (by rw [hqa]; linarith [hc.1])
  have hab : a.raw ≤ b.raw := raw_le_of_q_le (by rw [hqa, hqb]; exact hc.2)
  have h := base_out_custody δ a b hδ ha hab
  unfold entBase; simp only []
  rw [← hqa, ← hqb]; exact h

/-- deposit guard, quote side: the quote kernel is evaluated at `a = sp lo`, `b` = the clamped current price -/
theorem deposit_quote_guard (sp : Int → Rat) (P : Rat) (lo hi δ : Int) (a b : Dec)
    (hδ : 0 ≤ δ) (hlh : sp lo ≤ sp hi)
    (hqa : q a = sp lo) (hqb : q b = clamp P (sp lo) (sp hi)) :
    entQuote sp P ⟨lo, hi, δ⟩ ≤ q (CalcAmountQuoteDelta ⟨δ⟩ a b true) + u / 2 := by
  have hc := clamp_mem P (sp lo) (sp hi) hlh
  have hab : a.raw ≤ b.raw := raw_le_of_q_le (by rw [hqa, hqb]; exact hc.1)
  have h := quote_in_custody δ a b hδ hab
  unfold entQuote; simp only []
  rw [hqa, hqb] at h; exact h

/-- withdrawal guard, quote side -/
theorem withdraw_quote_guard (sp : Int → Rat) (P : Rat) (lo hi δ : Int) (a b : Dec)
    (hδ : 0 ≤ δ) (hlh : sp lo ≤ sp hi)
    (hqa : q a = sp lo) (hqb : q b = clamp P (sp lo) (sp hi)) :
    q (CalcAmountQuoteDelta ⟨δ⟩ a b false) ≤ entQuote sp P ⟨lo, hi, δ⟩ + u / 2 := by
  have hc := clamp_mem P (sp lo) (sp hi) hlh
  have hab : a.raw ≤ b.raw := raw_le_of_q_le (by rw [hqa, hqb]; exact hc.1)
  have h := quote_out_custody δ a b hδ hab
  unfold entQuote; simp only []
  rw [hqa, hqb] at h; exact h

end custody

/-! ### 5. non-vacuity and tightness: a positive error term is really needed -/

/-- quote, roundUp = false: 0.6·10^-18 exact, 10^-18 paid -/
example : exactQ ⟨1⟩ ⟨1000000000000000000⟩ ⟨1600000000000000000⟩
    < q (CalcAmountQuoteDelta ⟨1⟩ ⟨1000000000000000000⟩ ⟨1600000000000000000⟩ false) := by
  have h : CalcAmountQuoteDelta ⟨1⟩ ⟨1000000000000000000⟩ ⟨1600000000000000000⟩ false = ⟨1⟩ := by decide
  rw [h]; unfold exactQ q; norm_num

/-- base, roundUp = false, prices 1 and 3: ⅔·10^-18 exact, 10^-18 paid -/
example : exactB ⟨1⟩ ⟨1000000000000000000⟩ ⟨3000000000000000000⟩
    < q (CalcAmountBaseDelta ⟨1⟩ ⟨1000000000000000000⟩ ⟨3000000000000000000⟩ false) := by
  have h : CalcAmountBaseDelta ⟨1⟩ ⟨1000000000000000000⟩ ⟨3000000000000000000⟩ false = ⟨1⟩ := by decide
  rw [h]; unfold exactB q; norm_num

/-- base, roundUp = false, tiny prices (3·10^-11 and 6·10^-11, liquidity 2·10^-8): the half-ulp error of the `Mul` is
    divided by both prices — the kernel pays 555.55… where the exact amount is 333.33…, MORE THAN 222 WHOLE UNITS too
    much (and within `E`, which is ≈ 277.8 here).  `E` is not "a few ulps" unless the prices are bounded below. -/
example : exactB ⟨20000000000⟩ ⟨30000000⟩ ⟨60000000⟩ + 222
      < q (CalcAmountBaseDelta ⟨20000000000⟩ ⟨30000000⟩ ⟨60000000⟩ false)
    ∧ q (CalcAmountBaseDelta ⟨20000000000⟩ ⟨30000000⟩ ⟨60000000⟩ false)
      ≤ exactB ⟨20000000000⟩ ⟨30000000⟩ ⟨60000000⟩ + Eup ⟨30000000⟩ ⟨60000000⟩
    ∧ Eup ⟨30000000⟩ ⟨60000000⟩ < 278 := by
  have h : CalcAmountBaseDelta ⟨20000000000⟩ ⟨30000000⟩ ⟨60000000⟩ false = ⟨555555555566666666667⟩ := by decide
  rw [h]; unfold exactB Eup q u; norm_num

/-- `Quo` is NOT within half an ulp below: 0.5 / (1 − 10^-36·…): the quotient truncated at 36 decimals is exactly
    0.5 ulp, half-even sends it to 0, the exact quotient is slightly above 0.5 ulp.  Hence the `u·u` term of `εq`. -/
example : q (Dec.quo ⟨500000000000000000⟩ ⟨999999999999999999999999999999999999⟩)
    < q ⟨500000000000000000⟩ / q ⟨999999999999999999999999999999999999⟩ - u / 2 := by
  have h : Dec.quo ⟨500000000000000000⟩ ⟨999999999999999999999999999999999999⟩ = ⟨0⟩ := by decide
  rw [h]; unfold q u; norm_num

/-- the hypotheses of the main theorems are satisfiable -/
example : (0:Int) ≤ (⟨20000000000⟩ : Dec).raw ∧ (0:Int) < (⟨30000000⟩ : Dec).raw
    ∧ (⟨30000000⟩ : Dec).raw ≤ (⟨60000000⟩ : Dec).raw := by decide

end Sunrise.C02Kernel

#print axioms Sunrise.C02Kernel.q_mul_bounds
#print axioms Sunrise.C02Kernel.q_quo_bounds
#print axioms Sunrise.C02Kernel.q_quo_abs
#print axioms Sunrise.C02Kernel.quote_down
#print axioms Sunrise.C02Kernel.quote_up
#print axioms Sunrise.C02Kernel.quote_symm
#print axioms Sunrise.C02Kernel.base_down
#print axioms Sunrise.C02Kernel.base_down_le
#print axioms Sunrise.C02Kernel.base_up
#print axioms Sunrise.C02Kernel.base_down_le'
#print axioms Sunrise.C02Kernel.base_up_ge'
#print axioms Sunrise.C02Kernel.base_down_le_swapped
#print axioms Sunrise.C02Kernel.base_up_ge_swapped
#print axioms Sunrise.C02Kernel.base_in_custody
#print axioms Sunrise.C02Kernel.base_out_custody
#print axioms Sunrise.C02Kernel.quote_in_custody
#print axioms Sunrise.C02Kernel.quote_out_custody
#print axioms Sunrise.C02Kernel.deposit_base_guard
#print axioms Sunrise.C02Kernel.withdraw_base_guard
#print axioms Sunrise.C02Kernel.deposit_quote_guard
#print axioms Sunrise.C02Kernel.withdraw_quote_guard
