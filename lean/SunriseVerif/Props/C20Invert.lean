import SunriseVerif.Props.C20Field
import Mathlib.LinearAlgebra.Matrix.NonsingularInverse
import Mathlib.LinearAlgebra.Matrix.ToLinearEquiv
/-!
C20 — the executable Gauss–Jordan inversion `Mat.invert` of `Model/RS.lean` is CORRECT (sound and complete) over the
executable field `GF256` of `Props/C20Field.lean`, and with it the property "DA data is recoverable from any sufficient
shard subset" is proved END TO END for the executable model (no certificate, no trusted inversion).

§1  array access lemmas (`set!`, `rowScale`, `rowAddScaled`).
§2  soundness. Row-wise invariant on the augmented matrix `[L | R]`: `RowOK M row` = "`row` has `2k` bytes and
    `R_row · M = L_row`" (linear in the row, so swap / scale / add-scaled keep it: `RowOK_scale`, `RowOK_add`, `Inv_set`),
    plus `ColsOK k a r` = "columns `< r` of the left block are unit vectors". One pivot step = `swapPhase`, `scalePhase`,
    `elimPhase` (`pivot_eq`, by `rfl`); the elimination loop is characterised row by row (`elim_fold`).
    `invert_sound : Mat.invert m = some m' → Square m' k ∧ toMatrix m' k k * toMatrix m k k = 1`.
§3  completeness. Second row-wise invariant `KerSub M a` = "`ker L ⊆ ker M`" (old rows are combinations of new rows);
    without a pivot the left block kills `e_r + Σ_{c<r} L_{c r} e_c ≠ 0` (`no_pivot_kernel`), impossible for invertible `M`.
    `invert_complete`, `invert_eq_inv` (`Mat.invert m = some (m⁻¹)`), `invert_isSome_iff` (`some` ⇔ invertible).
§4  `codeShards_invert_decode`, `buildMatrix_sound`, `buildMatrix_complete`, `buildMatrix_eq_gen`: the certificate
    hypotheses of `C20Field` §10 are gone; `buildMatrix k n` IS `gen (node n) hk` and never fails for `n ≤ 256`.
§5  plumbing of `RS.reconstruct` (`firstSize`, `firstPresent`, `getD`, `dataFilled`, `parFilled`) ↔ matrices:
    `decode_core`, `fill_core`, `reconstruct_executable_exact` (any `k` surviving rows of `gen · D` ⇒ all `n` rows back),
    `encodeParity_agrees` (the executable encoder outputs the rows of `gen · D`),
    `erasure_then_reconstruct_exact`, `erasureCode_ok`, `da_data_recoverable` (total end-to-end statement).

Boundary assumptions that remain (all explicit in the statements): at most 256 shards (`d + p ≤ 256`, beyond that the Go
library switches to Leopard-RS, unmodelled); non-empty blob (finding C20-empty-blob); surviving shards are UNMODIFIED
(`ErasedFrom`: Reed–Solomon erasure decoding does not detect corrupted shards; integrity is the job of the shard hashes).
-/
set_option linter.unusedSimpArgs false
set_option linter.unusedVariables false
namespace Sunrise.C20Invert
open Sunrise Sunrise.RS Sunrise.C20Field Matrix

/-! ## 1. array access lemmas -/

theorem get_set! (a : Mat) (i j : Nat) (v : Array UInt8) (hi : i < a.size) :
    (a.set! i v)[j]! = if i = j then v else a[j]! := by
  rw [getElem!_def, Array.set!_eq_setIfInBounds, Array.getElem?_setIfInBounds]
  by_cases h : i = j
  · rw [if_pos h, if_pos hi, if_pos h]
  · rw [if_neg h, if_neg h, getElem!_def]

theorem size_set! (a : Mat) (i : Nat) (v : Array UInt8) : (a.set! i v).size = a.size := by
  simp [Array.set!_eq_setIfInBounds]

theorem rowScale_size (row : Array UInt8) (f : UInt8) : (rowScale row f).size = row.size := by
  simp [rowScale]

theorem rowScale_get (row : Array UInt8) (f : UInt8) {j : Nat} (h : j < row.size) :
    (rowScale row f)[j]! = gmul f row[j]! := by
  unfold rowScale
  rw [getElem!_def, Array.getElem?_map, getElem!_def, Array.getElem?_eq_getElem h]
  rfl

theorem rowAddScaled_size (dst src : Array UInt8) (f : UInt8) : (rowAddScaled dst src f).size = dst.size := by
  simp [rowAddScaled]

theorem rowAddScaled_get (dst src : Array UInt8) (f : UInt8) {j : Nat} (h : j < dst.size) :
    (rowAddScaled dst src f)[j]! = dst[j]! ^^^ gmul f src[j]! := by
  unfold rowAddScaled
  rw [ofFn_get! _ h]
  have : dst[j]! = dst[j] := by rw [getElem!_def, Array.getElem?_eq_getElem h]
  rw [this]
  rfl

/-! ## 2. the row-wise invariant of Gauss–Jordan on the augmented matrix `[L | R]`: every row satisfies `R_i · M = L_i` -/

section Sound
variable {k : ℕ} (M : Matrix (Fin k) (Fin k) GF256)

/-- a row `[l | r]` of the augmented matrix (`2k` bytes) with `r · M = l` over `GF256` -/
def RowOK (row : Array UInt8) : Prop :=
  row.size = 2 * k ∧ ∀ j : Fin k, ∑ c : Fin k, (⟨row[k + c.val]!⟩ : GF256) * M c j = ⟨row[j.val]!⟩

/-- all `k` rows of the augmented matrix satisfy `RowOK` -/
def Inv (a : Mat) : Prop := a.size = k ∧ ∀ i < k, RowOK M a[i]!

/-- columns `c < r` of the left block are unit vectors -/
def ColsOK (k : ℕ) (a : Mat) (r : ℕ) : Prop := ∀ i < k, ∀ c < r, (a[i]!)[c]! = if i = c then 1 else 0

theorem RowOK_scale {row : Array UInt8} (h : RowOK M row) (f : UInt8) : RowOK M (rowScale row f) := by
  refine ⟨by rw [rowScale_size]; exact h.1, fun j => ?_⟩
  have e : ∀ c : Fin k, (⟨(rowScale row f)[k + c.val]!⟩ : GF256) * M c j = ⟨f⟩ * (⟨row[k + c.val]!⟩ * M c j) := by
    intro c
    rw [rowScale_get _ _ (by rw [h.1]; have := c.isLt; omega), ← mul_assoc]
    rfl
  rw [Finset.sum_congr rfl (fun c _ => e c), ← Finset.mul_sum, h.2 j,
    rowScale_get _ _ (by rw [h.1]; have := j.isLt; omega)]
  rfl

theorem RowOK_add {dst src : Array UInt8} (hd : RowOK M dst) (hs : RowOK M src) (f : UInt8) :
    RowOK M (rowAddScaled dst src f) := by
  refine ⟨by rw [rowAddScaled_size]; exact hd.1, fun j => ?_⟩
  have e : ∀ c : Fin k, (⟨(rowAddScaled dst src f)[k + c.val]!⟩ : GF256) * M c j =
      ⟨dst[k + c.val]!⟩ * M c j + ⟨f⟩ * (⟨src[k + c.val]!⟩ * M c j) := by
    intro c
    rw [rowAddScaled_get _ _ _ (by rw [hd.1]; have := c.isLt; omega), ← mul_assoc, ← add_mul]
    rfl
  rw [Finset.sum_congr rfl (fun c _ => e c), Finset.sum_add_distrib, ← Finset.mul_sum, hd.2 j, hs.2 j,
    rowAddScaled_get _ _ _ (by rw [hd.1]; have := j.isLt; omega)]
  rfl

theorem Inv_set {a : Mat} (h : Inv M a) {i : Nat} (hi : i < k) {v : Array UInt8} (hv : RowOK M v) :
    Inv M (a.set! i v) := by
  refine ⟨by rw [size_set!]; exact h.1, fun j hj => ?_⟩
  rw [get_set! _ _ _ _ (by rw [h.1]; exact hi)]
  split
  · exact hv
  · exact h.2 j hj

end Sound

theorem foldl_pres {α β : Type} (P : β → Prop) (f : β → α → β) : ∀ (l : List α),
    (∀ b, P b → ∀ x ∈ l, P (f b x)) → ∀ b, P b → P (l.foldl f b)
  | [], _, b, hb => hb
  | x :: l, h, b, hb => by
    rw [List.foldl_cons]
    exact foldl_pres P f l (fun b hb y hy => h b hb y (List.mem_cons_of_mem _ hy)) _ (h b hb x List.mem_cons_self)

/-! ### the three phases of one pivot step -/

def swapPhase (k r : Nat) (a : Mat) : Mat :=
  if a.get r r = 0 then (List.range' (r + 1) (k - (r + 1))).foldl (swapStep r) a else a

def scalePhase (r : Nat) (a1 : Mat) : Mat := a1.set! r (rowScale a1[r]! (ginv (a1.get r r)))

def elimPhase (k r : Nat) (a2 : Mat) : Mat := (List.range' 0 k).foldl (elimStep r) a2

theorem pivot_eq (k r : Nat) (a : Mat) : pivot k r a =
    if (swapPhase k r a).get r r = 0 then none else some (elimPhase k r (scalePhase r (swapPhase k r a))) := rfl

section Sound2
variable {k : ℕ} (M : Matrix (Fin k) (Fin k) GF256)

theorem swapStep_pres {a : Mat} {r r2 : Nat} (hI : Inv M a) (hC : ColsOK k a r) (hr : r < k) (h12 : r < r2)
    (h2 : r2 < k) : Inv M (swapStep r a r2) ∧ ColsOK k (swapStep r a r2) r := by
  unfold swapStep
  split
  · have hs1 : r < a.size := by rw [hI.1]; exact hr
    have hs2 : r2 < (a.set! r a[r2]!).size := by rw [size_set!, hI.1]; exact h2
    refine ⟨Inv_set M (Inv_set M hI hr (hI.2 r2 h2)) h2 (hI.2 r hr), ?_⟩
    intro i hi c hc
    rw [get_set! _ _ _ _ hs2, get_set! _ _ _ _ hs1]
    by_cases e2 : r2 = i
    · rw [if_pos e2, hC r hr c hc, if_neg (by omega), if_neg (by omega)]
    · rw [if_neg e2]
      by_cases e1 : r = i
      · rw [if_pos e1, hC r2 h2 c hc, if_neg (by omega), if_neg (by omega)]
      · rw [if_neg e1]; exact hC i hi c hc
  · exact ⟨hI, hC⟩

theorem swapPhase_pres {a : Mat} {r : Nat} (hI : Inv M a) (hC : ColsOK k a r) (hr : r < k) :
    Inv M (swapPhase k r a) ∧ ColsOK k (swapPhase k r a) r := by
  unfold swapPhase
  split
  · exact foldl_pres (fun b => Inv M b ∧ ColsOK k b r) (swapStep r) _ (fun b hb x hx => by
      rw [List.mem_range'_1] at hx
      exact swapStep_pres M hb.1 hb.2 hr (by omega) (by omega)) a ⟨hI, hC⟩
  · exact ⟨hI, hC⟩

theorem scalePhase_pres {a : Mat} {r : Nat} (hI : Inv M a) (hC : ColsOK k a r) (hr : r < k) (hp : a.get r r ≠ 0) :
    Inv M (scalePhase r a) ∧ ColsOK k (scalePhase r a) r ∧ ((scalePhase r a)[r]!)[r]! = 1 := by
  have hs : r < a.size := by rw [hI.1]; exact hr
  have hrow := hI.2 r hr
  refine ⟨Inv_set M hI hr (RowOK_scale M hrow _), ?_, ?_⟩
  · intro i hi c hc
    unfold scalePhase
    rw [get_set! _ _ _ _ hs]
    by_cases e : r = i
    · rw [if_pos e, rowScale_get _ _ (by rw [hrow.1]; omega), hC r hr c hc, if_neg (by omega), if_neg (by omega),
        gmul_zero_right]
    · rw [if_neg e]; exact hC i hi c hc
  · unfold scalePhase
    rw [get_set! _ _ _ _ hs, if_pos rfl, rowScale_get _ _ (by rw [hrow.1]; omega), gmul_comm]
    exact gmul_ginv hp

end Sound2

/-! ### the elimination loop, row by row -/

def elimRow (r : Nat) (row prow : Array UInt8) (i : Nat) : Array UInt8 :=
  if (decide (i ≠ r) && decide (row[r]! ≠ 0)) = true then rowAddScaled row prow row[r]! else row

theorem elimStep_size (r : Nat) (a : Mat) (x : Nat) : (elimStep r a x).size = a.size := by
  unfold elimStep
  split
  · exact size_set! _ _ _
  · rfl

theorem elimStep_get (r : Nat) (a : Mat) (x i : Nat) (hx : x < a.size) :
    (elimStep r a x)[i]! = if x = i then elimRow r a[x]! a[r]! x else a[i]! := by
  unfold elimStep elimRow Mat.get
  split
  · rw [get_set! _ _ _ _ hx]
  · rename_i hc
    by_cases e : x = i
    · subst e; rw [if_pos rfl]
    · rw [if_neg e]

theorem elimRow_self (r : Nat) (row prow : Array UInt8) : elimRow r row prow r = row := by
  simp [elimRow]

theorem elim_fold (r : Nat) : ∀ (l : List Nat) (a : Mat), l.Nodup → (∀ x ∈ l, x < a.size) →
    (l.foldl (elimStep r) a).size = a.size ∧
    ∀ i, (l.foldl (elimStep r) a)[i]! = if i ∈ l then elimRow r a[i]! a[r]! i else a[i]!
  | [], a, _, _ => ⟨rfl, fun i => by simp⟩
  | x :: l, a, hnd, hlt => by
    rw [List.nodup_cons] at hnd
    have hx : x < a.size := hlt x List.mem_cons_self
    have ih := elim_fold r l (elimStep r a x) hnd.2 (fun y hy => by
      rw [elimStep_size]; exact hlt y (List.mem_cons_of_mem _ hy))
    rw [List.foldl_cons]
    refine ⟨by rw [ih.1, elimStep_size], fun i => ?_⟩
    rw [ih.2 i]
    have hr : (elimStep r a x)[r]! = a[r]! := by
      rw [elimStep_get r a x r hx]
      split
      · next e => subst e; exact elimRow_self _ _ _
      · rfl
    by_cases hil : i ∈ l
    · have hxi : x ≠ i := fun e => hnd.1 (e ▸ hil)
      rw [if_pos hil, if_pos (List.mem_cons_of_mem _ hil), hr, elimStep_get r a x i hx, if_neg hxi]
    · rw [if_neg hil, elimStep_get r a x i hx]
      by_cases hxi : x = i
      · subst hxi; rw [if_pos rfl, if_pos List.mem_cons_self]
      · rw [if_neg hxi, if_neg (by simp [hil, Ne.symm hxi])]

theorem elimPhase_get {k r : Nat} {a : Mat} (hs : a.size = k) {i : Nat} (hi : i < k) :
    (elimPhase k r a).size = k ∧ (elimPhase k r a)[i]! = elimRow r a[i]! a[r]! i := by
  have := elim_fold r (List.range' 0 k) a (List.nodup_range' ..) (fun x hx => by
    rw [List.mem_range'_1] at hx; omega)
  refine ⟨this.1.trans hs, ?_⟩
  unfold elimPhase
  rw [this.2 i, if_pos (by rw [List.mem_range'_1]; omega)]

section Sound3
variable {k : ℕ} (M : Matrix (Fin k) (Fin k) GF256)

theorem elimPhase_pres {a : Mat} {r : Nat} (hI : Inv M a) (hC : ColsOK k a r) (hr : r < k) (h1 : (a[r]!)[r]! = 1) :
    Inv M (elimPhase k r a) ∧ ColsOK k (elimPhase k r a) (r + 1) := by
  refine ⟨⟨(elimPhase_get hI.1 hr).1, fun i hi => ?_⟩, fun i hi c hc => ?_⟩
  · rw [(elimPhase_get hI.1 hi).2]
    unfold elimRow
    split
    · exact RowOK_add M (hI.2 i hi) (hI.2 r hr) _
    · exact hI.2 i hi
  · rw [(elimPhase_get hI.1 hi).2]
    unfold elimRow
    have hsz := (hI.2 i hi).1
    split
    · next hcond =>
      simp only [Bool.and_eq_true, decide_eq_true_eq] at hcond
      rw [rowAddScaled_get _ _ _ (by rw [hsz]; omega)]
      by_cases hcr : c = r
      · subst hcr
        rw [h1, gmul_one, UInt8.xor_self, if_neg hcond.1]
      · have hc' : c < r := by omega
        rw [hC r hr c hc', if_neg (by omega), gmul_zero_right, UInt8.xor_zero]
        exact hC i hi c hc'
    · next hcond =>
      simp only [Bool.and_eq_true, decide_eq_true_eq, not_and, not_not] at hcond
      by_cases hcr : c = r
      · subst hcr
        by_cases hic : i = c
        · subst hic; rw [h1, if_pos rfl]
        · rw [hcond hic, if_neg hic]
      · exact hC i hi c (by omega)

theorem pivot_sound {a a' : Mat} {r : Nat} (hI : Inv M a) (hC : ColsOK k a r) (hr : r < k)
    (hp : pivot k r a = some a') : Inv M a' ∧ ColsOK k a' (r + 1) := by
  rw [pivot_eq] at hp
  split at hp
  · exact absurd hp (by simp)
  · next hne =>
    simp only [Option.some.injEq] at hp
    subst hp
    have h1 := swapPhase_pres M hI hC hr
    have h2 := scalePhase_pres M h1.1 h1.2 hr hne
    exact elimPhase_pres M h2.1 h2.2.1 hr h2.2.2

theorem pivots_sound : ∀ (n r : Nat) (a a' : Mat), r + n ≤ k → Inv M a → ColsOK k a r →
    pivots k (List.range' r n) a = some a' → Inv M a' ∧ ColsOK k a' (r + n)
  | 0, r, a, a', _, hI, hC, hp => by
    simp only [List.range'_zero, pivots, Option.some.injEq] at hp
    subst hp; exact ⟨hI, hC⟩
  | n + 1, r, a, a', hle, hI, hC, hp => by
    rw [List.range'_succ, pivots] at hp
    split at hp
    · exact absurd hp (by simp)
    · next a1 h1 =>
      have := pivot_sound M hI hC (by omega) h1
      have := pivots_sound n (r + 1) a1 a' (by omega) this.1 this.2 hp
      rwa [show r + 1 + n = r + (n + 1) by omega] at this

end Sound3

/-! ### the initial augmented matrix `[m | I]` -/

theorem append_get_left (x y : Array UInt8) {j : Nat} (h : j < x.size) : (x ++ y)[j]! = x[j]! := by
  rw [getElem!_def, getElem!_def, Array.getElem?_append_left h]

theorem append_get_right (x y : Array UInt8) (j : Nat) : (x ++ y)[x.size + j]! = y[j]! := by
  rw [getElem!_def, getElem!_def, Array.getElem?_append_right (by omega)]
  simp

theorem identity_get {k i j : Nat} (hi : i < k) (hj : j < k) :
    ((Mat.identity k)[i]!)[j]! = if i = j then 1 else 0 := by
  rw [Mat.identity, ofFn_get! _ hi, ofFn_get! _ hj]

theorem identity_row_size {k i : Nat} (hi : i < k) : ((Mat.identity k)[i]!).size = k := by
  rw [Mat.identity, ofFn_get! _ hi]; simp

theorem augment_get {m : Mat} {i : Nat} (hi : i < m.size) :
    (augment m)[i]! = m[i]! ++ (Mat.identity m.size)[i]! := by
  rw [augment, ofFn_get! _ hi]
  have : m[i]! = m[i] := by rw [getElem!_def, Array.getElem?_eq_getElem hi]
  rw [this]
  rfl

theorem augment_inv {m : Mat} {k : Nat} (hm : Square m k) : Inv (toMatrix m k k) (augment m) := by
  obtain ⟨rfl, hrows⟩ := hm
  refine ⟨by simp [augment], fun i hi => ?_⟩
  rw [augment_get hi]
  have hsz := hrows i hi
  refine ⟨by rw [Array.size_append, hsz, identity_row_size hi]; omega, fun j => ?_⟩
  rw [append_get_left _ _ (by rw [hsz]; exact j.isLt)]
  have e : ∀ c : Fin m.size, (⟨(m[i]! ++ (Mat.identity m.size)[i]!)[m.size + c.val]!⟩ : GF256) *
      toMatrix m m.size m.size c j = if c = ⟨i, hi⟩ then toMatrix m m.size m.size c j else 0 := by
    intro c
    have : (m[i]! ++ (Mat.identity m.size)[i]!)[m.size + c.val]! = ((Mat.identity m.size)[i]!)[c.val]! := by
      have := append_get_right m[i]! (Mat.identity m.size)[i]! c.val
      rwa [hsz] at this
    rw [this, identity_get hi c.isLt]
    by_cases h : c = ⟨i, hi⟩
    · subst h; simp only [if_true]; exact one_mul _
    · have : ¬ i = c.val := fun e => h (Fin.ext e.symm)
      rw [if_neg this, if_neg h]; exact zero_mul _
  rw [Finset.sum_congr rfl (fun c _ => e c), Finset.sum_ite_eq' Finset.univ (⟨i, hi⟩ : Fin m.size)]
  simp only [Finset.mem_univ, if_true]
  rfl

/-! ### `invert_sound` -/

theorem extract_get (row : Array UInt8) {k j : Nat} (hs : row.size = 2 * k) (hj : j < k) :
    (row.extract k (2 * k))[j]! = row[k + j]! := by
  rw [getElem!_def, getElem!_def, Array.getElem?_extract, if_pos (by rw [hs]; omega)]

/-- **soundness of the executable Gauss–Jordan inversion** — whenever `Mat.invert m` (klauspost `matrix.Invert`, with
    its nested loops, swaps, early exit) returns `some m'` on a square `k × k` byte matrix, `m'` is square and is a LEFT
    INVERSE of `m` as matrices over the executable field `GF256` (hence THE inverse). -/
theorem invert_sound (m m' : Mat) (k : ℕ) (hm : Square m k) (h : Mat.invert m = some m') :
    Square m' k ∧ toMatrix m' k k * toMatrix m k k = 1 := by
  rw [invert_eq_spec, invertSpec] at h
  have hk := hm.1
  cases hp : pivots m.size (List.range' 0 m.size) (augment m) with
  | none => rw [hp] at h; simp at h
  | some a =>
    rw [hp, Option.map_some, Option.some.injEq] at h
    rw [hk] at hp h
    have := pivots_sound (toMatrix m k k) k 0 (augment m) a (by omega) (augment_inv hm)
      (fun i _ c hc => absurd hc (by omega)) hp
    rw [Nat.zero_add] at this
    obtain ⟨hI, hC⟩ := this
    have hrow : ∀ i < k, m'[i]! = (a[i]!).extract k (2 * k) := by
      intro i hi
      rw [← h, getElem!_def, Array.getElem?_map, getElem!_def, Array.getElem?_eq_getElem (by rw [hI.1]; exact hi)]
      rfl
    have hsq : Square m' k := by
      refine ⟨by rw [← h, Array.size_map, hI.1], fun i hi => ?_⟩
      rw [hrow i hi, Array.size_extract, (hI.2 i hi).1]; omega
    refine ⟨hsq, ?_⟩
    apply Matrix.ext; intro i j
    rw [Matrix.mul_apply]
    have e : ∀ c : Fin k, toMatrix m' k k i c * toMatrix m k k c j =
        (⟨(a[i.val]!)[k + c.val]!⟩ : GF256) * toMatrix m k k c j := by
      intro c
      simp only [toMatrix, Matrix.of_apply, Mat.get]
      rw [hrow i i.isLt, extract_get _ (hI.2 i i.isLt).1 c.isLt]
    rw [Finset.sum_congr rfl (fun c _ => e c), (hI.2 i i.isLt).2 j, hC i i.isLt j j.isLt, Matrix.one_apply]
    by_cases hij : i = j
    · subst hij; simp; rfl
    · have : ¬ i.val = j.val := fun e => hij (Fin.ext e)
      rw [if_neg this, if_neg hij]; rfl

/-! ## 3. completeness: on an invertible matrix a pivot is always found

Second invariant, again row-wise and without elementary matrices: **`ker L ⊆ ker M`** (`L` = left block of the augmented
matrix): every vector killed by all rows of the left block is killed by `M`. It holds initially (`L = M`), and every row
operation keeps it because the OLD rows are linear combinations of the NEW rows. If no pivot is found at step `r`
(column `r` is zero from row `r` down, columns `< r` are unit vectors) the left block kills the non-zero vector
`e_r + Σ_{c<r} L_{c r} e_c`, hence so does `M`, which is impossible for an invertible `M`. -/

section Complete
variable {k : ℕ} (M : Matrix (Fin k) (Fin k) GF256)

def Kills (row : Array UInt8) (v : Fin k → GF256) : Prop := ∑ j : Fin k, (⟨row[j.val]!⟩ : GF256) * v j = 0

def KerSub (a : Mat) : Prop := ∀ v : Fin k → GF256, (∀ i < k, Kills a[i]! v) → M.mulVec v = 0

theorem Kills_scale {row : Array UInt8} {f : UInt8} {v : Fin k → GF256} (hs : k ≤ row.size) (hf : f ≠ 0)
    (h : Kills (rowScale row f) v) : Kills row v := by
  unfold Kills at h ⊢
  have e : ∀ j : Fin k, (⟨(rowScale row f)[j.val]!⟩ : GF256) * v j = ⟨f⟩ * (⟨row[j.val]!⟩ * v j) := by
    intro j
    rw [rowScale_get _ _ (by have := j.isLt; omega), ← mul_assoc]
    rfl
  rw [Finset.sum_congr rfl (fun c _ => e c), ← Finset.mul_sum] at h
  rcases mul_eq_zero.mp h with h0 | h0
  · exact absurd (congrArg GF256.val h0) hf
  · exact h0

theorem Kills_add {dst src : Array UInt8} {f : UInt8} {v : Fin k → GF256} (hs : k ≤ dst.size)
    (h : Kills (rowAddScaled dst src f) v) (h' : Kills src v) : Kills dst v := by
  unfold Kills at h h' ⊢
  have e : ∀ j : Fin k, (⟨(rowAddScaled dst src f)[j.val]!⟩ : GF256) * v j =
      ⟨dst[j.val]!⟩ * v j + ⟨f⟩ * (⟨src[j.val]!⟩ * v j) := by
    intro j
    rw [rowAddScaled_get _ _ _ (by have := j.isLt; omega), ← mul_assoc, ← add_mul]
    rfl
  rw [Finset.sum_congr rfl (fun c _ => e c), Finset.sum_add_distrib, ← Finset.mul_sum, h', mul_zero, add_zero] at h
  exact h

theorem swapStep_ker {a : Mat} {r x : Nat} (hs : a.size = k) (hK : KerSub M a) (hr : r < k) (hx : x < k)
    (hrx : r ≠ x) : (swapStep r a x).size = k ∧ KerSub M (swapStep r a x) := by
  unfold swapStep
  split
  · have hs1 : r < a.size := by rw [hs]; exact hr
    have hs2 : x < (a.set! r a[x]!).size := by rw [size_set!, hs]; exact hx
    refine ⟨by rw [size_set!, size_set!]; exact hs, fun v hv => hK v (fun i hi => ?_)⟩
    by_cases e1 : i = r
    · have := hv x hx
      rw [get_set! _ _ _ _ hs2, if_pos rfl] at this
      rw [e1]; exact this
    · by_cases e2 : i = x
      · have := hv r hr
        rw [get_set! _ _ _ _ hs2, if_neg (Ne.symm hrx), get_set! _ _ _ _ hs1, if_pos rfl] at this
        rw [e2]; exact this
      · have := hv i hi
        rwa [get_set! _ _ _ _ hs2, if_neg (Ne.symm e2), get_set! _ _ _ _ hs1, if_neg (Ne.symm e1)] at this
  · exact ⟨hs, hK⟩

theorem swapPhase_ker {a : Mat} {r : Nat} (hs : a.size = k) (hK : KerSub M a) (hr : r < k) :
    KerSub M (swapPhase k r a) := by
  unfold swapPhase
  split
  · exact (foldl_pres (fun b => b.size = k ∧ KerSub M b) (swapStep r) _ (fun b hb x hx => by
      rw [List.mem_range'_1] at hx
      exact swapStep_ker M hb.1 hb.2 hr (by omega) (by omega)) a ⟨hs, hK⟩).2
  · exact hK

theorem scalePhase_ker {a : Mat} {r : Nat} (hI : ∀ i < k, k ≤ (a[i]!).size) (hs : a.size = k) (hK : KerSub M a)
    (hr : r < k) : KerSub M (scalePhase r a) := by
  intro v hv
  refine hK v (fun i hi => ?_)
  have := hv i hi
  unfold scalePhase at this
  rw [get_set! _ _ _ _ (by rw [hs]; exact hr)] at this
  by_cases e : r = i
  · rw [if_pos e] at this
    rw [← e]
    exact Kills_scale (hI r hr) (ginv_ne_zero _) this
  · rwa [if_neg e] at this

theorem elimPhase_ker {a : Mat} {r : Nat} (hI : ∀ i < k, k ≤ (a[i]!).size) (hs : a.size = k) (hK : KerSub M a)
    (hr : r < k) : KerSub M (elimPhase k r a) := by
  intro v hv
  have hrow : Kills a[r]! v := by
    have := hv r hr
    rwa [(elimPhase_get hs hr).2, elimRow_self] at this
  refine hK v (fun i hi => ?_)
  have := hv i hi
  rw [(elimPhase_get hs hi).2] at this
  unfold elimRow at this
  split at this
  · exact Kills_add (hI i hi) this hrow
  · exact this

/-- if the swap loop leaves a zero pivot, it changed nothing and the whole column below the diagonal is zero -/
theorem swap_fold_zero (r : Nat) : ∀ (l : List Nat) (a : Mat), r < a.size → (∀ x ∈ l, x < a.size ∧ r ≠ x) →
    ((l.foldl (swapStep r) a)[r]!)[r]! = 0 → l.foldl (swapStep r) a = a ∧ ∀ x ∈ l, (a[x]!)[r]! = 0
  | [], a, _, _, _ => ⟨rfl, fun x hx => by simp at hx⟩
  | x :: l, a, hr, hl, h0 => by
    rw [List.foldl_cons] at h0 ⊢
    have hx := hl x List.mem_cons_self
    have hsz : (swapStep r a x).size = a.size := by
      unfold swapStep; split
      · rw [size_set!, size_set!]
      · rfl
    have ih := swap_fold_zero r l (swapStep r a x) (by rw [hsz]; exact hr)
      (fun y hy => by rw [hsz]; exact hl y (List.mem_cons_of_mem _ hy)) h0
    rw [ih.1] at h0 ⊢
    have hb : ((decide (a.get r r = 0) && decide (a.get x r ≠ 0)) = true) ↔ ((a[r]!)[r]! = 0 ∧ (a[x]!)[r]! ≠ 0) := by
      unfold Mat.get
      rw [Bool.and_eq_true]
      exact ⟨fun h => ⟨of_decide_eq_true h.1, of_decide_eq_true h.2⟩, fun h => ⟨decide_eq_true h.1, decide_eq_true h.2⟩⟩
    by_cases hc : (a[r]!)[r]! = 0 ∧ (a[x]!)[r]! ≠ 0
    · exfalso
      have e : swapStep r a x = (a.set! r a[x]!).set! x a[r]! := by unfold swapStep; rw [if_pos (hb.mpr hc)]
      rw [e, get_set! _ _ _ _ (by rw [size_set!]; exact hx.1), if_neg (Ne.symm hx.2), get_set! _ _ _ _ hr,
        if_pos rfl] at h0
      exact hc.2 h0
    · have e : swapStep r a x = a := by unfold swapStep; rw [if_neg (fun h => hc (hb.mp h))]
      rw [e] at h0 ih ⊢
      refine ⟨rfl, fun y hy => ?_⟩
      rcases List.mem_cons.mp hy with rfl | hy'
      · exact Classical.byContradiction (fun hne => hc ⟨h0, hne⟩)
      · exact ih.2 y hy'

theorem swapPhase_zero {a : Mat} {r : Nat} (hs : a.size = k) (hr : r < k) (h0 : (swapPhase k r a).get r r = 0) :
    ∀ i < k, r ≤ i → (a[i]!)[r]! = 0 := by
  unfold swapPhase at h0
  split at h0
  · next hrr =>
    have := (swap_fold_zero r _ a (by rw [hs]; exact hr) (fun x hx => by
      rw [List.mem_range'_1] at hx; rw [hs]; omega) h0).2
    intro i hi hri
    by_cases e : i = r
    · rw [e]; exact hrr
    · exact this i (by rw [List.mem_range'_1]; omega)
  · next hrr => exact absurd h0 hrr

/-- the kernel vector of a left block whose column `r` has no pivot -/
theorem no_pivot_kernel {a : Mat} {r : Nat} (hC : ColsOK k a r) (hr : r < k)
    (hz : ∀ i < k, r ≤ i → (a[i]!)[r]! = 0) :
    ∃ v : Fin k → GF256, v ⟨r, hr⟩ = 1 ∧ ∀ i < k, Kills a[i]! v := by
  refine ⟨fun j => if j.val = r then 1 else if j.val < r then ⟨(a[j.val]!)[r]!⟩ else 0, by simp, fun i hi => ?_⟩
  unfold Kills
  have e : ∀ j : Fin k, (⟨(a[i]!)[j.val]!⟩ : GF256) *
      (if j.val = r then 1 else if j.val < r then ⟨(a[j.val]!)[r]!⟩ else 0) =
      (if j = ⟨i, hi⟩ then (if i < r then (⟨(a[i]!)[r]!⟩ : GF256) else 0) else 0) +
      (if j = ⟨r, hr⟩ then (⟨(a[i]!)[r]!⟩ : GF256) else 0) := by
    intro j
    by_cases h1 : j.val = r
    · have hj : j = ⟨r, hr⟩ := Fin.ext h1
      subst hj
      simp only [if_true, mul_one]
      by_cases h2 : (⟨r, hr⟩ : Fin k) = ⟨i, hi⟩
      · have : r = i := congrArg Fin.val h2
        subst this
        simp
      · rw [if_neg h2, zero_add]
    · have hj : j ≠ ⟨r, hr⟩ := fun e => h1 (congrArg Fin.val e)
      rw [if_neg h1, if_neg hj, add_zero]
      by_cases h2 : j.val < r
      · rw [if_pos h2, hC i hi j.val h2]
        by_cases h3 : j = ⟨i, hi⟩
        · subst h3
          simp only [if_true, if_pos h2]
          exact one_mul _
        · have : ¬ i = j.val := fun e => h3 (Fin.ext e.symm)
          rw [if_neg this, if_neg h3]
          exact zero_mul _
      · rw [if_neg h2, mul_zero]
        by_cases h3 : j = ⟨i, hi⟩
        · subst h3
          rw [if_pos rfl, if_neg h2]
        · rw [if_neg h3]
  rw [Finset.sum_congr rfl (fun c _ => e c), Finset.sum_add_distrib, Finset.sum_ite_eq' Finset.univ (⟨i, hi⟩ : Fin k),
    Finset.sum_ite_eq' Finset.univ (⟨r, hr⟩ : Fin k)]
  simp only [Finset.mem_univ, if_true]
  by_cases h : i < r
  · rw [if_pos h]
    exact GF256.ext UInt8.xor_self
  · rw [if_neg h, hz i hi (by omega), zero_add]
    rfl

theorem pivot_complete {a : Mat} {r : Nat} (hdet : IsUnit M.det) (hI : Inv M a) (hC : ColsOK k a r) (hK : KerSub M a)
    (hr : r < k) : ∃ a', pivot k r a = some a' ∧ KerSub M a' := by
  rw [pivot_eq]
  have h1 := swapPhase_pres M hI hC hr
  have hK1 := swapPhase_ker M hI.1 hK hr
  split
  · next h0 =>
    exfalso
    -- `swapPhase` returned a matrix with a zero pivot: column `r` of it is zero from row `r` down
    have hz : ∀ i < k, r ≤ i → ((swapPhase k r a)[i]!)[r]! = 0 := by
      intro i hi hri
      have hz0 := swapPhase_zero hI.1 hr h0
      have : swapPhase k r a = a := by
        unfold swapPhase
        split
        · next hrr =>
          unfold swapPhase at h0
          rw [if_pos hrr] at h0
          exact (swap_fold_zero r _ a (by rw [hI.1]; exact hr) (fun x hx => by
            rw [List.mem_range'_1] at hx; rw [hI.1]; omega) h0).1
        · rfl
      rw [this]; exact hz0 i hi hri
    obtain ⟨v, hv1, hv⟩ := no_pivot_kernel h1.2 hr hz
    have hMv := hK1 v hv
    have : v = 0 := by
      have := congrArg (M⁻¹.mulVec) hMv
      rwa [Matrix.mulVec_mulVec, Matrix.nonsing_inv_mul M hdet, Matrix.one_mulVec, Matrix.mulVec_zero] at this
    rw [this] at hv1
    exact zero_ne_one hv1
  · next hne =>
    refine ⟨_, rfl, ?_⟩
    have h2 := scalePhase_pres M h1.1 h1.2 hr hne
    have hsz : ∀ {b : Mat}, Inv M b → ∀ i < k, k ≤ (b[i]!).size := fun hb i hi => by rw [(hb.2 i hi).1]; omega
    exact elimPhase_ker M (hsz h2.1) h2.1.1 (scalePhase_ker M (hsz h1.1) h1.1.1 hK1 hr) hr

theorem pivots_complete (hdet : IsUnit M.det) : ∀ (n r : Nat) (a : Mat), r + n ≤ k → Inv M a → ColsOK k a r →
    KerSub M a → pivots k (List.range' r n) a ≠ none
  | 0, r, a, _, _, _, _ => by simp [pivots]
  | n + 1, r, a, hle, hI, hC, hK => by
    obtain ⟨a1, h1, hK1⟩ := pivot_complete M hdet hI hC hK (by omega)
    rw [List.range'_succ, pivots, h1]
    have := pivot_sound M hI hC (by omega) h1
    exact pivots_complete hdet n (r + 1) a1 (by omega) this.1 this.2 hK1

end Complete

theorem augment_ker {m : Mat} {k : Nat} (hm : Square m k) : KerSub (toMatrix m k k) (augment m) := by
  obtain ⟨rfl, hrows⟩ := hm
  intro v hv
  funext i
  have := hv i.val i.isLt
  unfold Kills at this
  rw [augment_get i.isLt] at this
  rw [Matrix.mulVec, dotProduct, Pi.zero_apply, ← this]
  refine Finset.sum_congr rfl (fun j _ => ?_)
  rw [append_get_left _ _ (by rw [hrows i.val i.isLt]; exact j.isLt)]
  rfl

/-- **completeness of the executable Gauss–Jordan inversion** — on a square byte matrix that is invertible over the
    executable field `GF256`, `Mat.invert` never reports "singular". -/
theorem invert_complete (m : Mat) (k : ℕ) (hm : Square m k) (hdet : IsUnit (toMatrix m k k).det) :
    Mat.invert m ≠ none := by
  rw [invert_eq_spec, invertSpec]
  have hk := hm.1
  have := pivots_complete (toMatrix m k k) hdet k 0 (augment m) (by omega) (augment_inv hm)
    (fun i _ c hc => absurd hc (by omega)) (augment_ker hm)
  rw [hk]
  cases hp : pivots k (List.range' 0 k) (augment m) with
  | none => exact absurd hp this
  | some a => simp

/-- `Mat.invert` computes exactly the field inverse on invertible matrices (soundness + completeness) -/
theorem invert_eq_inv (m : Mat) (k : ℕ) (hm : Square m k) (hdet : IsUnit (toMatrix m k k).det) :
    ∃ m', Mat.invert m = some m' ∧ Square m' k ∧ toMatrix m' k k = (toMatrix m k k)⁻¹ := by
  cases h : Mat.invert m with
  | none => exact absurd h (invert_complete m k hm hdet)
  | some m' =>
    have := invert_sound m m' k hm h
    exact ⟨m', rfl, this.1, (Matrix.inv_eq_left_inv this.2).symm⟩

/-- conversely `none` is only returned on singular matrices, and `some` only on invertible ones -/
theorem invert_isSome_iff (m : Mat) (k : ℕ) (hm : Square m k) :
    (Mat.invert m).isSome = true ↔ IsUnit (toMatrix m k k).det := by
  constructor
  · intro h
    obtain ⟨m', hm'⟩ := Option.isSome_iff_exists.mp h
    have := (invert_sound m m' k hm hm').2
    exact (Matrix.isUnit_det_of_left_inverse this)
  · intro h
    obtain ⟨m', hm', -⟩ := invert_eq_inv m k hm h
    rw [hm']; rfl

/-! ## 4. the certificate hypothesis of `C20Field` §10 removed -/

/-- **`reconstruct`'s data recomputation = the abstract decoding** (`codeShards_certified_decode_partial` of `C20Field`
    with the certificate replaced by what the model actually does): if `Mat.invert sub = some dec` for the `k × k`
    matrix `sub` of selected generator rows, the bytes `codeShards dec S size` are `sub⁻¹ · S` over `GF256`. -/
theorem codeShards_invert_decode (dec sub S : Mat) (k size : ℕ) (hsub : Square sub k)
    (hinv : Mat.invert sub = some dec) :
    toMatrix (codeShards dec S size) k size = (toMatrix sub k k)⁻¹ * toMatrix S k size := by
  obtain ⟨hdec, hmul⟩ := invert_sound sub dec k hsub hinv
  rw [Matrix.inv_eq_left_inv hmul]
  have := codeShards_eq dec S k size (fun i hi => hdec.2 i (by rw [← hdec.1]; exact hi))
  obtain ⟨hs, -⟩ := hdec
  subst hs
  exact this

theorem top_square (n k : ℕ) (hk : k ≤ n) : Square ((RS.vandermonde n k).extract 0 k) k ∧
    toMatrix ((RS.vandermonde n k).extract 0 k) k k = (Sunrise.C20.vand (node n) k).submatrix (Fin.castLE hk) id := by
  constructor
  · constructor
    · simp [vandermonde_size]; omega
    · intro i hi
      have : ((RS.vandermonde n k).extract 0 k)[i]! = (RS.vandermonde n k)[i]! :=
        extract_get! _ hi (by rw [vandermonde_size]; exact hk)
      rw [this]; exact vandermonde_row_size (by omega)
  · apply Matrix.ext; intro i j
    apply GF256.ext
    have : ((RS.vandermonde n k).extract 0 k)[i.val]! = (RS.vandermonde n k)[i.val]! :=
      extract_get! _ i.isLt (by rw [vandermonde_size]; exact hk)
    simp only [toMatrix, Matrix.of_apply, Mat.get, this, Matrix.submatrix_apply, id_eq]
    exact vandermonde_get (Fin.castLE hk i) j

theorem mul_shape (a b : Mat) (c : ℕ) (hb : 0 < b.size) (hc : (b[0]!).size = c) :
    (Mat.mul a b).size = a.size ∧ ∀ i < a.size, ((Mat.mul a b)[i]!).size = c := by
  have hcols : (if h : 0 < b.size then b[0].size else 0) = c := by
    rw [dif_pos hb]; rwa [getElem!_def, Array.getElem?_eq_getElem hb] at hc
  refine ⟨by simp [Mat.mul], fun i hi => ?_⟩
  unfold Mat.mul
  rw [getElem!_def, Array.getElem?_map, Array.getElem?_eq_getElem hi]
  simp only [Option.map_some, Array.size_ofFn]
  exact hcols

/-- **the executable generator matrix is the abstract `gen`** (`buildMatrix_certified_partial` without certificate):
    whatever `buildMatrix k n` returns is `n × k` and IS `Sunrise.C20.gen (node n) hk` over `GF256`. -/
theorem buildMatrix_sound (n k : ℕ) (hk : k ≤ n) (hk0 : 0 < k) (g : Mat) (h : buildMatrix k n = some g) :
    g.size = n ∧ (∀ i < n, (g[i]!).size = k) ∧ toMatrix g n k = Sunrise.C20.gen (node n) hk := by
  unfold buildMatrix at h
  simp only at h
  split at h
  · next ti hti =>
    simp only [Option.some.injEq] at h
    subst h
    obtain ⟨htopsq, htop⟩ := top_square n k hk
    obtain ⟨htisq, hmul⟩ := invert_sound _ ti k htopsq hti
    have hinv := Matrix.inv_eq_left_inv hmul
    have hsh := mul_shape (RS.vandermonde n k) ti k (by rw [htisq.1]; exact hk0) (htisq.2 0 hk0)
    rw [vandermonde_size] at hsh
    refine ⟨hsh.1, hsh.2, ?_⟩
    have hcols : (if h : 0 < ti.size then ti[0].size else 0) = k := by
      have h0 : 0 < ti.size := by rw [htisq.1]; exact hk0
      rw [dif_pos h0]
      have := htisq.2 0 hk0
      rwa [getElem!_def, Array.getElem?_eq_getElem h0] at this
    have hm := Mat.mul_eq (RS.vandermonde n k) ti k (fun i hi => vandermonde_row_size (by rwa [vandermonde_size] at hi))
    rw [hcols] at hm
    have hsz := vandermonde_size n k
    unfold Sunrise.C20.gen
    rw [← htop, hinv, ← toMatrix_vandermonde]
    revert hm
    generalize RS.vandermonde n k = vm at hsz ⊢
    subst hsz
    exact fun h => h
  · simp at h

/-- for at most 256 shards `buildMatrix` never fails (the top square of the Vandermonde matrix is invertible and
    `Mat.invert` is complete) -/
theorem buildMatrix_complete (n k : ℕ) (hn : n ≤ 256) (hk : k ≤ n) : buildMatrix k n ≠ none := by
  unfold buildMatrix
  simp only
  obtain ⟨htopsq, htop⟩ := top_square n k hk
  have hdet : IsUnit (toMatrix ((RS.vandermonde n k).extract 0 k) k k).det := by
    rw [htop, isUnit_iff_ne_zero]
    exact Sunrise.C20.det_rows_ne_zero (node n) (node_injective hn) (Fin.castLE hk) (Fin.castLE_injective hk)
  obtain ⟨ti, hti, -⟩ := invert_eq_inv _ k htopsq hdet
  rw [hti]
  simp

theorem buildMatrix_eq_gen (n k : ℕ) (hn : n ≤ 256) (hk : k ≤ n) (hk0 : 0 < k) :
    ∃ g, buildMatrix k n = some g ∧ g.size = n ∧ (∀ i < n, (g[i]!).size = k) ∧
      toMatrix g n k = Sunrise.C20.gen (node n) hk := by
  cases h : buildMatrix k n with
  | none => exact absurd h (buildMatrix_complete n k hn hk)
  | some g => exact ⟨g, rfl, buildMatrix_sound n k hk hk0 g h⟩

/-! ## 5. plumbing of `RS.reconstruct`: lists of byte rows ↔ matrices over `GF256` -/

section Plumbing
variable {size : ℕ}

/-- a byte row (array) spells the vector `v` over `GF256` -/
def AgreesA (row : Array UInt8) (v : Fin size → GF256) : Prop :=
  row.size = size ∧ ∀ j : Fin size, row[j.val]! = (v j).val

/-- a byte list spells the vector `v` over `GF256` (exact length, every byte) -/
def Agrees (l : List UInt8) (v : Fin size → GF256) : Prop := AgreesA l.toArray v

theorem AgreesA_unique {a b : Array UInt8} {v : Fin size → GF256} (ha : AgreesA a v) (hb : AgreesA b v) : a = b := by
  apply Array.ext (ha.1.trans hb.1.symm)
  intro i h1 h2
  have e1 := ha.2 ⟨i, by rw [← ha.1]; exact h1⟩
  have e2 := hb.2 ⟨i, by rw [← ha.1]; exact h1⟩
  simp only [getElem!_def, Array.getElem?_eq_getElem h1, Array.getElem?_eq_getElem h2] at e1 e2
  exact e1.trans e2.symm

theorem Agrees_unique {a b : List UInt8} {v : Fin size → GF256} (ha : Agrees a v) (hb : Agrees b v) : a = b := by
  have := AgreesA_unique ha hb
  simpa using congrArg Array.toList this

theorem Agrees_toList {a : Array UInt8} {v : Fin size → GF256} (h : AgreesA a v) : Agrees a.toList v := by
  unfold Agrees; rwa [Array.toArray_toList]

theorem Agrees_length {l : List UInt8} {v : Fin size → GF256} (h : Agrees l v) : l.length = size := by
  have := h.1; simpa using this

theorem toMatrix_of_agrees (arr : Mat) (r : ℕ) (A : Matrix (Fin r) (Fin size) GF256)
    (h : ∀ i : Fin r, AgreesA arr[i.val]! (A i)) : toMatrix arr r size = A := by
  apply Matrix.ext; intro i j
  apply GF256.ext
  simp only [toMatrix, Matrix.of_apply, Mat.get]
  exact (h i).2 j

theorem codeShards_agrees (rows inputs : Mat) (r k : ℕ) (hr : rows.size = r) (hrows : ∀ i < r, (rows[i]!).size = k)
    (i : Fin r) : AgreesA (codeShards rows inputs size)[i.val]! ((toMatrix rows r k * toMatrix inputs k size) i) := by
  subst hr
  have h := codeShards_eq rows inputs k size hrows
  constructor
  · unfold codeShards
    rw [getElem!_def, Array.getElem?_map, Array.getElem?_eq_getElem i.isLt]
    simp
  · intro j
    rw [← h]
    rfl

theorem codeShards_size (rows inputs : Mat) : (codeShards rows inputs size).size = rows.size := by
  simp [codeShards]

theorem rows_getD (arr : Mat) {i : Nat} (hi : i < arr.size) :
    (arr.toList.map Array.toList).getD i [] = (arr[i]!).toList := by
  simp [hi]

theorem range_map_getD {m i : Nat} (f : Nat → List UInt8) (hi : i < m) : ((List.range m).map f).getD i [] = f i := by
  simp [hi]

theorem toArray_map_get (l : List Nat) (f : Nat → Array UInt8) {c : Nat} (hc : c < l.length) :
    ((l.map f).toArray)[c]! = f l[c] := by
  simp [hc]

theorem listRows_get (l : List (List UInt8)) {i : Nat} (hi : i < l.length) :
    ((l.map List.toArray).toArray)[i]! = (l.getD i []).toArray := by
  simp [hi]

theorem Shard.len_eq (s : Shard) : s.len = s.bytes.length := by
  cases s <;> rfl

theorem range_map_getD_eq (l : List Shard) (d : Shard) : (List.range l.length).map (fun i => l.getD i d) = l := by
  apply List.ext_getElem
  · simp
  · intro i h1 h2; simp [h2]

theorem filter_range_length (l : List Shard) (p : Shard → Bool) :
    ((List.range l.length).filter fun i => p (l.getD i none)).length = (l.filter p).length := by
  conv => rhs; rw [← range_map_getD_eq l none, List.filter_map, List.length_map]
  rfl

theorem firstSize_eq : ∀ (l : List Shard), (∀ s ∈ l, s.len = 0 ∨ s.len = size) → (∃ s ∈ l, s.len ≠ 0) →
    firstSize l = size
  | [], _, h => by obtain ⟨s, hs, _⟩ := h; simp at hs
  | s :: rest, hall, hex => by
    unfold firstSize
    split
    · next hne =>
      rcases hall s List.mem_cons_self with h | h
      · exact absurd h hne
      · exact h
    · next hz =>
      simp only [ne_eq, not_not] at hz
      refine firstSize_eq rest (fun t ht => hall t (List.mem_cons_of_mem _ ht)) ?_
      obtain ⟨t, ht, htn⟩ := hex
      rcases List.mem_cons.mp ht with rfl | ht'
      · exact absurd hz htn
      · exact ⟨t, ht', htn⟩

/-- facts about `validIndices` -/
theorem firstPresent_spec (shards : List Shard) (k : Nat)
    (hpres : k ≤ (shards.filter fun s => s.len ≠ 0).length) :
    (firstPresent shards k).length = k ∧ (firstPresent shards k).Nodup ∧
    ∀ x ∈ firstPresent shards k, x < shards.length ∧ (shards.getD x none).len ≠ 0 := by
  unfold firstPresent
  refine ⟨?_, ?_, ?_⟩
  · rw [List.length_take, filter_range_length shards (fun s => decide (s.len ≠ 0))]
    omega
  · exact (List.take_sublist _ _).nodup (List.filter_sublist.nodup List.nodup_range)
  · intro x hx
    have := List.mem_of_mem_take hx
    rw [List.mem_filter, List.mem_range] at this
    exact ⟨this.1, by simpa using this.2⟩

end Plumbing

section Core
open Sunrise.C20

/-- the decoding step of `reconstruct` on ANY list `valid` of `k` distinct shard indices whose byte rows are rows of the
    encoding of `D`: the sub-matrix of generator rows is inverted successfully and `codeShards` returns the rows of `D` -/
theorem decode_core {n k size : ℕ} (hn : n ≤ 256) (hk : k ≤ n) (g : Mat)
    (hgr : ∀ i < n, (g[i]!).size = k) (hg : toMatrix g n k = gen (node n) hk) (D : Matrix (Fin k) (Fin size) GF256)
    (valid : List Nat) (hlen : valid.length = k) (hnd : valid.Nodup) (hlt : ∀ x ∈ valid, x < n)
    (rowsB : Nat → List UInt8)
    (hB : ∀ x ∈ valid, ∀ hx : x < n, Agrees (rowsB x) (encode (node n) hk D ⟨x, hx⟩)) :
    ∃ dec, Mat.invert (valid.map fun i => g[i]!).toArray = some dec ∧ dec.size = k ∧
      ∀ i : Fin k, AgreesA (codeShards dec (valid.map fun i => (rowsB i).toArray).toArray size)[i.val]! (D i) := by
  have hc : ∀ c : Fin k, c.val < valid.length := fun c => by rw [hlen]; exact c.isLt
  let rows : Fin k → Fin n := fun c => ⟨valid[c.val]'(hc c), hlt _ (List.getElem_mem _)⟩
  have hinj : Function.Injective rows := by
    intro c c' h
    have e : valid[c.val]'(hc c) = valid[c'.val]'(hc c') := congrArg Fin.val h
    have := (List.Nodup.get_inj_iff hnd (i := ⟨c.val, hc c⟩) (j := ⟨c'.val, hc c'⟩)).mp e
    exact Fin.ext (Fin.mk.inj this)
  have hsq : Square (valid.map fun i => g[i]!).toArray k := by
    refine ⟨by simp [hlen], fun i hi => ?_⟩
    rw [toArray_map_get _ _ (by omega)]
    exact hgr _ (hlt _ (List.getElem_mem _))
  have hsubM : toMatrix (valid.map fun i => g[i]!).toArray k k = (gen (node n) hk).submatrix rows id := by
    apply Matrix.ext; intro c j
    rw [← hg]
    simp only [toMatrix, Matrix.of_apply, Mat.get, Matrix.submatrix_apply, id_eq]
    rw [toArray_map_get _ _ (hc c)]
  have hdet := gf256_any_k_rows_invertible hn hk rows hinj
  rw [← hsubM] at hdet
  obtain ⟨dec, hdec, hdsq, hdM⟩ := invert_eq_inv _ k hsq hdet
  have hS : toMatrix (valid.map fun i => (rowsB i).toArray).toArray k size =
      (encode (node n) hk D).submatrix rows id :=
    toMatrix_of_agrees _ k _ (fun c => by
      rw [toArray_map_get _ _ (hc c)]
      exact hB _ (List.getElem_mem _) _)
  refine ⟨dec, hdec, hdsq.1, fun i => ?_⟩
  have := codeShards_agrees (size := size) dec (valid.map fun i => (rowsB i).toArray).toArray k k hdsq.1 hdsq.2 i
  rw [hdM, hS, hsubM] at this
  have hrec := gf256_reconstruct_exact hn hk rows hinj D
  unfold decode at hrec
  rw [hrec] at this
  exact this

end Core

theorem getD_append_left' (a b : List (List UInt8)) {i : Nat} (h : i < a.length) :
    (a ++ b).getD i [] = a.getD i [] := by
  simp [List.getD_eq_getElem?_getD, List.getElem?_append_left h]

theorem getD_append_right' (a b : List (List UInt8)) {i : Nat} (h : a.length ≤ i) :
    (a ++ b).getD i [] = b.getD (i - a.length) [] := by
  simp [List.getD_eq_getElem?_getD, List.getElem?_append_right h]

theorem extract_row (g : Mat) {k n i : Nat} (hn : n ≤ g.size) (hi : k + i < n) : (g.extract k n)[i]! = g[k + i]! := by
  rw [getElem!_def, getElem!_def, Array.getElem?_extract, if_pos (by omega)]

section Fill
open Sunrise.C20

/-- the part of `reconstruct` after decoding: present shards are kept, missing data shards are taken from the decoded
    rows, missing parity shards are re-encoded from the completed data — every resulting row is a row of the encoding -/
theorem fill_core (shards : List Shard) (k size : ℕ) (hk : k ≤ shards.length) (hn : shards.length ≤ 256) (g : Mat)
    (hgs : g.size = shards.length) (hgr : ∀ i < shards.length, (g[i]!).size = k)
    (hgM : toMatrix g shards.length k = gen (node shards.length) hk) (D : Matrix (Fin k) (Fin size) GF256)
    (hagree : ∀ i : Fin shards.length, (shards.getD i.val none).len ≠ 0 →
      Agrees (shards.getD i.val none).bytes (encode (node shards.length) hk D i))
    (dataArr : Mat) (hds : dataArr.size = k) (hdata : ∀ i : Fin k, AgreesA dataArr[i.val]! (D i)) :
    let data := dataArr.toList.map Array.toList
    let dataFilled := (List.range k).map fun i =>
      if (shards.getD i none).len ≠ 0 then (shards.getD i none).bytes else data.getD i []
    let par := (codeShards (g.extract k shards.length) (dataFilled.map List.toArray).toArray size).toList.map Array.toList
    let parFilled := (List.range (shards.length - k)).map fun i =>
      if (shards.getD (k + i) none).len ≠ 0 then (shards.getD (k + i) none).bytes else par.getD i []
    (dataFilled ++ parFilled).length = shards.length ∧
      ∀ i : Fin shards.length, Agrees ((dataFilled ++ parFilled).getD i.val []) (encode (node shards.length) hk D i) := by
  intro data dataFilled par parFilled
  have htop : ∀ i : Fin k, encode (node shards.length) hk D (Fin.castLE hk i) = D i :=
    fun i => congrFun (gf256_encode_top hn hk D) i
  have hDFlen : dataFilled.length = k := by simp [dataFilled]
  have hPFlen : parFilled.length = shards.length - k := by simp [parFilled]
  have hDF : ∀ i : Fin k, Agrees (dataFilled.getD i.val []) (D i) := by
    intro i
    have e : dataFilled.getD i.val [] = (if (shards.getD i.val none).len ≠ 0 then (shards.getD i.val none).bytes
        else data.getD i.val []) := range_map_getD _ i.isLt
    rw [e]
    split
    · next hp =>
      have := hagree (Fin.castLE hk i) hp
      rwa [htop i] at this
    · have e2 : data.getD i.val [] = (dataArr[i.val]!).toList := rows_getD dataArr (by rw [hds]; exact i.isLt)
      rw [e2]
      exact Agrees_toList (hdata i)
  have hDM : toMatrix (dataFilled.map List.toArray).toArray k size = D :=
    toMatrix_of_agrees _ k D (fun i => by
      rw [listRows_get _ (by rw [hDFlen]; exact i.isLt)]
      exact hDF i)
  have hrs : (g.extract k shards.length).size = shards.length - k := by
    rw [Array.size_extract, hgs]; omega
  have hpar : ∀ (i : Nat) (hi : k + i < shards.length),
      Agrees (par.getD i []) (encode (node shards.length) hk D ⟨k + i, hi⟩) := by
    intro i hi
    have hi' : i < shards.length - k := by omega
    have e : par.getD i [] =
        ((codeShards (g.extract k shards.length) (dataFilled.map List.toArray).toArray size)[i]!).toList :=
      rows_getD _ (by rw [codeShards_size, hrs]; exact hi')
    rw [e]
    apply Agrees_toList
    have := codeShards_agrees (size := size) (g.extract k shards.length) (dataFilled.map List.toArray).toArray
      (shards.length - k) k hrs (fun j hj => by
        rw [extract_row g (by omega) (by omega)]; exact hgr _ (by omega)) ⟨i, hi'⟩
    rw [hDM] at this
    have e3 : (toMatrix (g.extract k shards.length) (shards.length - k) k * D) ⟨i, hi'⟩ =
        encode (node shards.length) hk D ⟨k + i, hi⟩ := by
      funext j
      unfold encode
      rw [Matrix.mul_apply, Matrix.mul_apply, ← hgM]
      refine Finset.sum_congr rfl (fun c _ => ?_)
      simp only [toMatrix, Matrix.of_apply, Mat.get]
      rw [extract_row g (by omega) hi]
    rwa [e3] at this
  refine ⟨by rw [List.length_append, hDFlen, hPFlen]; omega, fun i => ?_⟩
  by_cases hik : i.val < k
  · rw [getD_append_left' _ _ (by rw [hDFlen]; exact hik)]
    have := hDF ⟨i.val, hik⟩
    rwa [← htop ⟨i.val, hik⟩] at this
  · rw [getD_append_right' _ _ (by rw [hDFlen]; omega), hDFlen]
    have hi' : i.val - k < shards.length - k := by have := i.isLt; omega
    have hki : k + (i.val - k) = i.val := by omega
    have e : parFilled.getD (i.val - k) [] = (if (shards.getD (k + (i.val - k)) none).len ≠ 0
        then (shards.getD (k + (i.val - k)) none).bytes else par.getD (i.val - k) []) := range_map_getD _ hi'
    rw [e]
    have hfin : (⟨k + (i.val - k), by rw [hki]; exact i.isLt⟩ : Fin shards.length) = i := Fin.ext hki
    split
    · next hp =>
      rw [hki] at hp ⊢
      exact hagree i hp
    · have := hpar (i.val - k) (by rw [hki]; exact i.isLt)
      rwa [hfin] at this

end Fill

section EndToEnd
open Sunrise.C20

/-- a shard slot is either missing (Go `nil` / empty) or spells the given row of the encoding -/
def ShardOK {size : ℕ} (s : Shard) (v : Fin size → GF256) : Prop := s.len = 0 ∨ Agrees s.bytes v

/-- **`reconstruct_executable_exact` — DA data is recoverable from any sufficient shard subset, for the EXECUTABLE
    model.** Let `shards` be `n ≤ 256` shard slots for `k` data shards (`0 < k ≤ n`), `D` any `k × size` data block over
    `GF256` (`size > 0`). If every slot is either missing or carries the corresponding row of the encoding
    `gen · D` (klauspost's generator `vandermonde · top⁻¹`, all arithmetic the executable `gmul`/`gadd`), and at least `k`
    slots are present, then `RS.reconstruct` (library `Reconstruct`: `validIndices`, sub-matrix, Gauss–Jordan
    `Mat.invert`, `codeSomeShards`, re-encoding of missing parity) succeeds and returns ALL `n` rows of the encoding —
    whichever shards were lost. No certificate, no assumption on `Mat.invert`. -/
theorem reconstruct_executable_exact (shards : List Shard) (k size : ℕ) (hk0 : 0 < k) (hk : k ≤ shards.length)
    (hn : shards.length ≤ 256) (hsize : 0 < size) (D : Matrix (Fin k) (Fin size) GF256)
    (hsh : ∀ i : Fin shards.length, ShardOK (shards.getD i.val none) (encode (node shards.length) hk D i))
    (hpres : k ≤ (shards.filter fun s => s.len ≠ 0).length) :
    ∃ full, reconstruct shards k = .ok full ∧ full.length = shards.length ∧
      ∀ i : Fin shards.length, Agrees (full.getD i.val []) (encode (node shards.length) hk D i) := by
  have hlenOK : ∀ s ∈ shards, s.len = 0 ∨ s.len = size := by
    intro s hs
    obtain ⟨i, hi, rfl⟩ := List.getElem_of_mem hs
    have := hsh ⟨i, hi⟩
    have e : shards.getD i none = shards[i] := by simp [hi]
    rw [e] at this
    rcases this with h | h
    · exact Or.inl h
    · exact Or.inr (by rw [Shard.len_eq]; exact Agrees_length h)
  have hex : ∃ s ∈ shards, s.len ≠ 0 := by
    have : 0 < (shards.filter fun s => decide (s.len ≠ 0)).length := by omega
    obtain ⟨s, hs⟩ := List.exists_mem_of_length_pos this
    rw [List.mem_filter] at hs
    exact ⟨s, hs.1, by simpa using hs.2⟩
  have hfs := firstSize_eq shards hlenOK hex
  have hany : (shards.any fun s => decide (s.len ≠ size) && decide (s.len ≠ 0)) = false := by
    rw [List.any_eq_false]
    intro s hs
    rcases hlenOK s hs with h | h <;> simp [h]
  have hagree : ∀ i : Fin shards.length, (shards.getD i.val none).len ≠ 0 →
      Agrees (shards.getD i.val none).bytes (encode (node shards.length) hk D i) :=
    fun i hne => (hsh i).resolve_left hne
  unfold reconstruct
  simp only [hfs, Nat.ne_of_gt hsize, if_false, hany, Bool.false_eq_true]
  by_cases hall : (shards.filter fun s => decide (s.len ≠ 0)).length = shards.length
  · rw [if_pos hall]
    refine ⟨_, rfl, by simp, fun i => ?_⟩
    have hp := List.length_filter_eq_length_iff.mp hall
    have e : (shards.map Shard.bytes).getD i.val [] = (shards.getD i.val none).bytes := by simp [i.isLt]
    rw [e]
    apply hagree
    have := hp (shards.getD i.val none) (by simp [i.isLt])
    simpa using this
  · rw [if_neg hall, if_neg (by omega)]
    obtain ⟨g, hg, hgs, hgr, hgM⟩ := buildMatrix_eq_gen shards.length k hn hk hk0
    rw [hg]
    simp only
    obtain ⟨hvl, hvn, hvp⟩ := firstPresent_spec shards k hpres
    obtain ⟨dec, hdec, hdsz, hrows⟩ := decode_core (size := size) hn hk g hgr hgM D (firstPresent shards k) hvl hvn
      (fun x hx => (hvp x hx).1) (fun i => (shards.getD i none).bytes)
      (fun x hx hxn => hagree ⟨x, hxn⟩ (hvp x hx).2)
    rw [hdec]
    simp only
    have := fill_core shards k size hk hn g hgs hgr hgM D hagree _ (by rw [codeShards_size]; exact hdsz) hrows
    exact ⟨_, rfl, this⟩

end EndToEnd

section Encoder
open Sunrise.C20

/-- the data block of a list of byte rows -/
def Dmat (data : List (List UInt8)) (k size : ℕ) : Matrix (Fin k) (Fin size) GF256 :=
  Matrix.of fun i j => ⟨(data.getD i.val []).getD j.val 0⟩

theorem toArray_get (l : List UInt8) (j : Nat) : (l.toArray)[j]! = l.getD j 0 := by
  simp [getElem!_def, List.getD_eq_getElem?_getD]
  rfl

theorem Dmat_agrees (data : List (List UInt8)) (k size : ℕ) (hdl : data.length = k)
    (hds : ∀ s ∈ data, s.length = size) (i : Fin k) : Agrees (data.getD i.val []) (Dmat data k size i) := by
  constructor
  · have : data.getD i.val [] ∈ data := by simp [hdl, i.isLt]
    simpa using hds _ this
  · intro j
    rw [toArray_get]
    rfl

/-- parity rows computed by `codeShards` from the lower generator rows are the lower rows of the encoding -/
theorem parity_agrees {n k size : ℕ} (hk : k ≤ n) (g : Mat) (hgs : g.size = n) (hgr : ∀ i < n, (g[i]!).size = k)
    (hgM : toMatrix g n k = gen (node n) hk) (D : Matrix (Fin k) (Fin size) GF256)
    (DF : List (List UInt8)) (hDFlen : DF.length = k) (hDF : ∀ i : Fin k, Agrees (DF.getD i.val []) (D i))
    (i : Nat) (hi : k + i < n) :
    Agrees (((codeShards (g.extract k n) (DF.map List.toArray).toArray size).toList.map Array.toList).getD i [])
      (encode (node n) hk D ⟨k + i, hi⟩) := by
  have hDM : toMatrix (DF.map List.toArray).toArray k size = D :=
    toMatrix_of_agrees _ k D (fun i => by
      rw [listRows_get _ (by rw [hDFlen]; exact i.isLt)]
      exact hDF i)
  have hrs : (g.extract k n).size = n - k := by
    rw [Array.size_extract, hgs]; omega
  have hi' : i < n - k := by omega
  rw [rows_getD _ (by rw [codeShards_size, hrs]; exact hi')]
  apply Agrees_toList
  have := codeShards_agrees (size := size) (g.extract k n) (DF.map List.toArray).toArray
    (n - k) k hrs (fun j hj => by
      rw [extract_row g (by omega) (by omega)]; exact hgr _ (by omega)) ⟨i, hi'⟩
  rw [hDM] at this
  have e3 : (toMatrix (g.extract k n) (n - k) k * D) ⟨i, hi'⟩ = encode (node n) hk D ⟨k + i, hi⟩ := by
    funext j
    unfold encode
    rw [Matrix.mul_apply, Matrix.mul_apply, ← hgM]
    refine Finset.sum_congr rfl (fun c _ => ?_)
    simp only [toMatrix, Matrix.of_apply, Mat.get]
    rw [extract_row g (by omega) hi]
  rwa [e3] at this

/-- **the executable encoder computes the abstract encoding**: the `k` data shards followed by the parity shards that
    `encodeParity` (library `Encode`) returns are exactly the `k+p` rows of `gen · D` over `GF256`. -/
theorem encodeParity_agrees (k p size : ℕ) (hk0 : 0 < k) (hn : k + p ≤ 256) (data : List (List UInt8))
    (hdl : data.length = k) (hds : ∀ s ∈ data, s.length = size) (par : List (List UInt8))
    (h : encodeParity k p data size = some par) :
    (data ++ par).length = k + p ∧ ∀ i : Fin (k + p),
      Agrees ((data ++ par).getD i.val []) (encode (node (k + p)) (Nat.le_add_right k p) (Dmat data k size) i) := by
  have hpl := Sunrise.C20.encodeParity_length k p data size par h
  have hD := Dmat_agrees data k size hdl hds
  have htop : ∀ i : Fin k, encode (node (k + p)) (Nat.le_add_right k p) (Dmat data k size)
      (Fin.castLE (Nat.le_add_right k p) i) = Dmat data k size i :=
    fun i => congrFun (gf256_encode_top hn (Nat.le_add_right k p) (Dmat data k size)) i
  refine ⟨by rw [List.length_append, hdl, hpl], fun i => ?_⟩
  by_cases hik : i.val < k
  · rw [getD_append_left' _ _ (by rw [hdl]; exact hik)]
    have := hD ⟨i.val, hik⟩
    rwa [← htop ⟨i.val, hik⟩] at this
  · rw [getD_append_right' _ _ (by rw [hdl]; omega), hdl]
    have hki : k + (i.val - k) = i.val := by omega
    have hfin : (⟨k + (i.val - k), by rw [hki]; exact i.isLt⟩ : Fin (k + p)) = i := Fin.ext hki
    unfold encodeParity at h
    split at h
    · next hp0 => exact absurd i.isLt (by omega)
    · split at h
      · simp at h
      · next g hg =>
        simp only [Option.some.injEq] at h
        subst h
        obtain ⟨hgs, hgr, hgM⟩ := buildMatrix_sound (k + p) k (Nat.le_add_right k p) hk0 g hg
        have := parity_agrees (Nat.le_add_right k p) g hgs hgr hgM (Dmat data k size) data hdl hD (i.val - k)
          (by rw [hki]; exact i.isLt)
        rwa [hfin] at this

end Encoder

section Final
open Sunrise.C20

theorem reconstruct_executable_exact' (shards : List Shard) (n k size : ℕ) (hlen : shards.length = n) (hk0 : 0 < k)
    (hk : k ≤ n) (hn : n ≤ 256) (hsize : 0 < size) (D : Matrix (Fin k) (Fin size) GF256)
    (hsh : ∀ i : Fin n, ShardOK (shards.getD i.val none) (encode (node n) hk D i))
    (hpres : k ≤ (shards.filter fun s => s.len ≠ 0).length) :
    ∃ full, reconstruct shards k = .ok full ∧ full.length = n ∧
      ∀ i : Fin n, Agrees (full.getD i.val []) (encode (node n) hk D i) := by
  subst hlen
  exact reconstruct_executable_exact shards k size hk0 hk hn hsize D hsh hpres

theorem ext_getD {a b : List (List UInt8)} (hl : a.length = b.length)
    (h : ∀ i < a.length, a.getD i [] = b.getD i []) : a = b := by
  apply List.ext_getElem hl
  intro i h1 h2
  have := h i h1
  simpa [h1, h2] using this

/-- an erased copy of the shard list: same number of slots, every slot is the original shard or missing (Go `nil`, or
    an empty slice) -/
def ErasedFrom (orig : List (List UInt8)) (shards : List Shard) : Prop :=
  shards.length = orig.length ∧
    ∀ i < orig.length, (shards.getD i none).len = 0 ∨ shards.getD i none = some (orig.getD i [])

/-- **C20 end to end on the executable model, WITH erasures** — whenever `ErasureCode(blob, d, p)` succeeds with shards
    `e.shards`, then for EVERY erased copy `shards` of them in which at least `d` shards survive (any subset, data or
    parity), `Reconstruct` rebuilds exactly the original `d+p` shards and `ReconstructAndJoinShards(shards, d, len(blob))`
    returns the blob. Everything is the executable model of `Model/RS.lean` (table arithmetic, Gauss–Jordan loops, list
    plumbing); no certificate and no trusted inversion. -/
theorem erasure_then_reconstruct_exact (blob : List UInt8) (d p : Int) (e : Encoded)
    (h : erasureCode blob d p = .ok e) (shards : List Shard) (her : ErasedFrom e.shards shards)
    (hpres : d.toNat ≤ (shards.filter fun s => s.len ≠ 0).length) :
    reconstruct shards d.toNat = .ok e.shards ∧ reconstructAndJoin shards d blob.length = .ok blob := by
  obtain ⟨hc, hl, hsz, htake, hj⟩ := encode_then_join_partial blob d p e h
  have h' := h
  unfold erasureCode at h'
  cases hne : newEncoder d p with
  | err => rw [hne] at h'; simp at h'
  | unmodelled => rw [hne] at h'; simp at h'
  | ok =>
    rw [hne] at h'
    simp only at h'
    have hd : 0 < d ∧ 0 ≤ p ∧ d + p ≤ 256 := by
      unfold newEncoder at hne
      split at hne
      · split at hne <;> simp at hne
      · split at hne
        · simp at hne
        · rename_i h1 h2
          simp only [Bool.or_eq_true, decide_eq_true_eq, not_or, not_le, not_lt] at h2
          omega
    split at h'
    · simp at h'
    · rename_i hsize
      split at h'
      · simp at h'
      · rename_i par hp
        simp only [Res.ok.injEq] at h'
        subst h'
        have hk0 : 0 < d.toNat := by omega
        have hn : d.toNat + p.toNat ≤ 256 := by omega
        have hdl := splitSized_length (pad blob d.toNat) d.toNat (shardSize blob.length d.toNat)
        have hds : ∀ s ∈ splitSized (pad blob d.toNat) d.toNat (shardSize blob.length d.toNat),
            s.length = shardSize blob.length d.toNat :=
          splitSized_lens _ _ _ (by rw [pad_length _ _ hk0, Nat.mul_comm])
        obtain ⟨hfl, hfa⟩ := encodeParity_agrees d.toNat p.toNat (shardSize blob.length d.toNat) hk0 hn _ hdl hds par hp
        simp only at her hl hc ⊢
        obtain ⟨hsl, hse⟩ := her
        rw [hfl] at hsl hse
        obtain ⟨full, hrec, hfull, hfag⟩ := reconstruct_executable_exact' shards (d.toNat + p.toNat) d.toNat
          (shardSize blob.length d.toNat) hsl hk0 (Nat.le_add_right _ _) hn (Nat.pos_of_ne_zero hsize)
          (Dmat _ d.toNat (shardSize blob.length d.toNat)) (fun i => by
            rcases hse i.val i.isLt with h0 | h1
            · exact Or.inl h0
            · refine Or.inr ?_
              rw [h1]
              exact hfa i) hpres
        have hfe : full = splitSized (pad blob d.toNat) d.toNat (shardSize blob.length d.toNat) ++ par :=
          ext_getD (hfull.trans hfl.symm) (fun i hi => by
            rw [hfull] at hi
            exact Agrees_unique (hfag ⟨i, hi⟩) (hfa ⟨i, hi⟩))
        rw [hfe] at hrec
        refine ⟨hrec, ?_⟩
        unfold reconstructAndJoin
        have hlen : ((shards.length : Nat) : Int) - d = p := by rw [hsl]; omega
        rw [hlen, hne]
        simp only
        rw [hrec]
        exact hj

end Final

section Total
open Sunrise.C20

theorem encodeParity_ne_none (k p : ℕ) (data : List (List UInt8)) (size : ℕ) (hn : k + p ≤ 256) :
    encodeParity k p data size ≠ none := by
  unfold encodeParity
  split
  · simp
  · cases hb : buildMatrix k (k + p) with
    | none => exact absurd hb (buildMatrix_complete (k + p) k hn (Nat.le_add_right k p))
    | some g => simp

/-- `ErasureCode` succeeds for EVERY non-empty blob and every valid shard configuration with at most 256 shards (the
    model's `.err "matrix"` branch is dead: the generator matrix can always be built) -/
theorem erasureCode_ok (blob : List UInt8) (d p : Int) (hd : 0 < d) (hp : 0 ≤ p) (hdp : d + p ≤ 256)
    (hb : blob ≠ []) : ∃ e, erasureCode blob d p = .ok e := by
  have hne : newEncoder d p = .ok := by
    unfold newEncoder
    rw [if_neg (by omega), if_neg (by simp; omega)]
  have hk0 : 0 < d.toNat := by omega
  have hsize : shardSize blob.length d.toNat ≠ 0 := by
    intro h0
    have h1 := shardSize_mul blob.length d.toNat hk0
    have h2 := (paddedLen_spec blob.length d.toNat hk0).2.1
    have h3 : 0 < blob.length := List.length_pos_iff.mpr hb
    rw [h0] at h1
    omega
  unfold erasureCode
  rw [hne]
  simp only
  rw [if_neg hsize]
  cases hpar : encodeParity d.toNat p.toNat (splitSized (pad blob d.toNat) d.toNat (shardSize blob.length d.toNat))
      (shardSize blob.length d.toNat) with
  | none => exact absurd hpar (encodeParity_ne_none _ _ _ _ (by omega))
  | some par => exact ⟨_, rfl⟩

/-- **C20, executable model, total form** — for every non-empty blob and every configuration `0 < d`, `0 ≤ p`,
    `d + p ≤ 256`: `ErasureCode` succeeds, and from EVERY erased copy of its output that keeps at least `d` of the `d+p`
    shards `ReconstructAndJoinShards` returns the blob. -/
theorem da_data_recoverable (blob : List UInt8) (d p : Int) (hd : 0 < d) (hp : 0 ≤ p) (hdp : d + p ≤ 256)
    (hb : blob ≠ []) :
    ∃ e, erasureCode blob d p = .ok e ∧ ∀ shards : List Shard, ErasedFrom e.shards shards →
      d.toNat ≤ (shards.filter fun s => s.len ≠ 0).length →
      reconstruct shards d.toNat = .ok e.shards ∧ reconstructAndJoin shards d blob.length = .ok blob := by
  obtain ⟨e, he⟩ := erasureCode_ok blob d p hd hp hdp hb
  exact ⟨e, he, fun shards her hpres => erasure_then_reconstruct_exact blob d p e he shards her hpres⟩

end Total

/-! ## non-vacuity: concrete executable instances -/

/-- Gauss–Jordan on concrete byte matrices (kernel evaluation of the executable loops): one needing a row swap, one
    singular -/
theorem ex_swap : Mat.invert #[#[0, 1], #[1, 0]] = some #[#[0, 1], #[1, 0]] := by decide +kernel
theorem ex_singular : Mat.invert #[#[2, 3], #[2, 3]] = none := by decide +kernel
example : Square #[#[0, 1], #[1, 0]] 2 := ⟨rfl, by decide⟩
/-- hence (by `invert_isSome_iff`) the first is invertible over `GF256` and the second is singular -/
example : IsUnit (toMatrix #[#[0, 1], #[1, 0]] 2 2).det :=
  (invert_isSome_iff _ 2 ⟨rfl, by decide⟩).mp (by rw [ex_swap]; rfl)
example : ¬ IsUnit (toMatrix #[#[2, 3], #[2, 3]] 2 2).det := fun h =>
  absurd ((invert_isSome_iff _ 2 ⟨rfl, by decide⟩).mpr h) (by rw [ex_singular]; simp)

/-- the hypotheses of `erasure_then_reconstruct_exact` are satisfiable with real erasures: blob `01 02 03 04 05`, 3 data
    + 2 parity shards, data shards 0 and 2 lost — the theorem (not evaluation) gives the blob back -/
example : reconstructAndJoin [none, some [3, 4], none, some [7, 6], some [9, 0x3e]] 3 5 = .ok [1, 2, 3, 4, 5] := by
  obtain ⟨e, he⟩ := Sunrise.C20.erasureCode_example
  have hs : e.shards = [[1, 2], [3, 4], [5, 0], [7, 6], [9, 0x3e]] := by
    have h : (match RS.erasureCode [1, 2, 3, 4, 5] 3 2 with
        | .ok e => e.shards == [[1, 2], [3, 4], [5, 0], [7, 6], [9, 0x3e]] | _ => false) = true := by decide +kernel
    rw [he] at h
    simpa using h
  exact (erasure_then_reconstruct_exact [1, 2, 3, 4, 5] 3 2 e he
    [none, some [3, 4], none, some [7, 6], some [9, 0x3e]] ⟨by rw [hs]; rfl, by rw [hs]; decide⟩ (by decide)).2

end Sunrise.C20Invert

#print axioms Sunrise.C20Invert.invert_sound
#print axioms Sunrise.C20Invert.invert_complete
#print axioms Sunrise.C20Invert.invert_eq_inv
#print axioms Sunrise.C20Invert.invert_isSome_iff
#print axioms Sunrise.C20Invert.codeShards_invert_decode
#print axioms Sunrise.C20Invert.buildMatrix_eq_gen
#print axioms Sunrise.C20Invert.reconstruct_executable_exact
#print axioms Sunrise.C20Invert.encodeParity_agrees
#print axioms Sunrise.C20Invert.erasure_then_reconstruct_exact
#print axioms Sunrise.C20Invert.erasureCode_ok
#print axioms Sunrise.C20Invert.da_data_recoverable
