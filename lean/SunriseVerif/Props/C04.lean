import SunriseVerif.Model.CLBook
import SunriseVerif.Spec.C04
import SunriseVerif.Model.TickKey
/-!
C04 — pool liquidity bookkeeping matches the set of open positions.
Theorems over the bookkeeping abstraction `CLBook` (unbounded operation sequences, arbitrary integers):
in every reachable state the pool's active liquidity equals the summed liquidity of the positions whose range
contains the cursor tick; every tick's gross / net liquidity equal the sums over the positions bounded by it; a tick
bounding no open liquidity has gross 0 (and is therefore removed from the store by DecreaseLiquidity).
The abstraction is tied to the code by the `cl` correspondence suite (per-operation dumps of pool, ticks, positions)
and by the same sums evaluated on the implementation's queried state (oracles active_liquidity_eq, tick_gross_net_eq).
-/
namespace Sunrise.C04
open Sunrise.CLBook

def ind (b : Bool) : Int := if b then 1 else 0

theorem sumIf_nonneg (p : Pos → Bool) (l : List Pos) (h : ∀ x ∈ l, 0 ≤ x.liq) : 0 ≤ sumIf p l := by
  induction l with
  | nil => simp [sumIf]
  | cons x xs ih =>
    have hx := h x (List.mem_cons_self)
    have := ih (fun y hy => h y (List.mem_cons_of_mem _ hy))
    simp only [sumIf]; split <;> omega

theorem sumIf_zero_elim (p : Pos → Bool) (l : List Pos) (h : ∀ x ∈ l, 0 ≤ x.liq) (hz : sumIf p l = 0) :
    ∀ x ∈ l, p x = true → x.liq = 0 := by
  induction l with
  | nil => intro x hx; cases hx
  | cons y ys ih =>
    have hy := h y (List.mem_cons_self)
    have hn := sumIf_nonneg p ys (fun z hz => h z (List.mem_cons_of_mem _ hz))
    simp only [sumIf] at hz
    intro x hx hp
    rcases List.mem_cons.mp hx with rfl | hx'
    · simp only [hp, if_true] at hz; omega
    · have : sumIf p ys = 0 := by split at hz <;> omega
      exact ih (fun z hz => h z (List.mem_cons_of_mem _ hz)) this x hx' hp

/-- per-element indicator identity ⇒ identity of the sums (elements with zero liquidity are irrelevant) -/
theorem sumIf_diff (l : List Pos) (p q a b : Pos → Bool)
    (h : ∀ x ∈ l, x.liq = 0 ∨ ind (p x) - ind (q x) = ind (a x) - ind (b x)) :
    sumIf p l - sumIf q l = sumIf a l - sumIf b l := by
  induction l with
  | nil => simp [sumIf]
  | cons x xs ih =>
    have hx := h x (List.mem_cons_self)
    have := ih (fun y hy => h y (List.mem_cons_of_mem _ hy))
    simp only [sumIf]
    rcases hx with hz | hi
    · simp only [hz]; simp; omega
    · revert hi
      cases p x <;> cases q x <;> cases a x <;> cases b x <;> simp [ind] <;> omega

theorem sumIf_const_false (l : List Pos) : sumIf (fun _ => false) l = 0 := by
  induction l with
  | nil => rfl
  | cons x xs ih => simp [sumIf, ih]

theorem sumIf_eq' (l : List Pos) (p q : Pos → Bool) (h : ∀ x ∈ l, x.liq = 0 ∨ p x = q x) : sumIf p l = sumIf q l := by
  have h1 := sumIf_diff l p q (fun _ => false) (fun _ => false)
    (fun x hx => by
      rcases h x hx with hz | he
      · exact Or.inl hz
      · exact Or.inr (by simp [he, ind]))
  have h2 := sumIf_const_false l
  omega

/-- effect of decreasing position i on a sum whose predicate ignores the liquidity field -/
theorem sumIf_decAt (p : Pos → Bool) (hp : ∀ x δ, p { x with liq := x.liq - δ } = p x) :
    ∀ (l : List Pos) (i : Nat) (δ : Int) (x : Pos), l[i]? = some x →
      sumIf p (decAt l i δ) = sumIf p l - (if p x then δ else 0) := by
  intro l
  induction l with
  | nil => intro i δ x h; simp at h
  | cons y ys ih =>
    intro i δ x h
    cases i with
    | zero =>
      simp at h; subst h
      simp only [decAt, sumIf, hp]
      split <;> omega
    | succ j =>
      simp at h
      simp only [decAt, sumIf, ih j δ x h]
      omega

theorem decAt_wf (l : List Pos) (i : Nat) (δ : Int) (x : Pos) (hx : l[i]? = some x) (hδ : δ ≤ x.liq)
    (h : ∀ y ∈ l, 0 ≤ y.liq ∧ y.lo < y.hi) : ∀ y ∈ decAt l i δ, 0 ≤ y.liq ∧ y.lo < y.hi := by
  induction l generalizing i with
  | nil => intro y hy; simp [decAt] at hy
  | cons z zs ih =>
    cases i with
    | zero =>
      simp at hx; subst hx
      intro y hy
      simp only [decAt, List.mem_cons] at hy
      rcases hy with rfl | hy
      · have := h z (List.mem_cons_self); exact ⟨by simp; omega, this.2⟩
      · exact h y (List.mem_cons_of_mem _ hy)
    | succ j =>
      simp at hx
      intro y hy
      simp only [decAt, List.mem_cons] at hy
      rcases hy with rfl | hy
      · exact h y (List.mem_cons_self)
      · exact ih j hx (fun w hw => h w (List.mem_cons_of_mem _ hw)) y hy

theorem mem_of_getElem? {l : List Pos} {i : Nat} {x : Pos} (h : l[i]? = some x) : x ∈ l := by
  exact List.mem_of_getElem? h

/-- a tick with zero gross liquidity bounds no open liquidity -/
theorem gross_zero_elim (s : St) (hI : Inv s) (u : Int) (hz : s.gross u = 0) :
    ∀ x ∈ s.pos, x.liq = 0 ∨ (x.lo ≠ u ∧ x.hi ≠ u) := by
  have hn := fun x hx => (hI.wf x hx).1
  have g := hI.gross_eq u
  have n1 := sumIf_nonneg (lowerAt u) s.pos hn
  have n2 := sumIf_nonneg (upperAt u) s.pos hn
  have z1 : sumIf (lowerAt u) s.pos = 0 := by omega
  have z2 : sumIf (upperAt u) s.pos = 0 := by omega
  intro x hx
  by_cases h1 : x.lo = u
  · exact Or.inl (sumIf_zero_elim _ _ hn z1 x hx (by simp [lowerAt, h1]))
  · by_cases h2 : x.hi = u
    · exact Or.inl (sumIf_zero_elim _ _ hn z2 x hx (by simp [upperAt, h2]))
    · exact Or.inr ⟨h1, h2⟩

/-- applying ±δ on a range keeps the three sum equations when the position list changes accordingly -/
theorem applyDelta_inv (s : St) (hI : Inv s) (lo hi δ : Int) (pos' : List Pos) (hlt : lo < hi)
    (hsum : ∀ p : Pos → Bool, (∀ x d, p { x with liq := x.liq - d } = p x) →
        sumIf p pos' = sumIf p s.pos + (if p ⟨lo, hi, 0⟩ then δ else 0))
    (hwf : ∀ x ∈ pos', 0 ≤ x.liq ∧ x.lo < x.hi) : Inv (applyDelta s lo hi δ pos') := by
  have hA := hsum (inRange s.tick) (by intro x d; rfl)
  refine ⟨?_, ?_, ?_, hwf⟩
  · simp only [applyDelta]
    rw [hA, ← hI.active_eq]
    simp only [inRange]
    by_cases hc : lo ≤ s.tick ∧ s.tick < hi
    · simp [hc]
    · simp [hc]
  · intro t
    have hL := hsum (lowerAt t) (by intro x d; rfl)
    have hU := hsum (upperAt t) (by intro x d; rfl)
    simp only [applyDelta]
    rw [hL, hU, hI.gross_eq t]
    simp only [lowerAt, upperAt]
    by_cases h1 : t = lo <;> by_cases h2 : t = hi <;> simp [h1, h2, eq_comm] <;> omega
  · intro t
    have hL := hsum (lowerAt t) (by intro x d; rfl)
    have hU := hsum (upperAt t) (by intro x d; rfl)
    simp only [applyDelta]
    rw [hL, hU, hI.net_eq t]
    simp only [lowerAt, upperAt]
    by_cases h1 : t = lo <;> by_cases h2 : t = hi <;> simp [h1, h2, eq_comm] <;> omega

/-- every guarded step preserves the bookkeeping invariant -/
theorem step_inv (s : St) (op : Op) (hI : Inv s) (hg : op.guard s) : Inv (step s op) := by
  cases op with
  | add lo hi δ =>
    obtain ⟨hlt, hδ⟩ := hg
    simp only [step]
    apply applyDelta_inv s hI lo hi δ _ hlt
    · intro p hp
      have e : p ⟨lo, hi, 0⟩ = p ⟨lo, hi, δ⟩ := by
        have := hp ⟨lo, hi, δ⟩ δ
        simpa using this
      simp only [sumIf, e]; split <;> omega
    · intro x hx
      rcases List.mem_cons.mp hx with rfl | hx'
      · exact ⟨hδ, hlt⟩
      · exact hI.wf x hx'
  | decrease i δ =>
    obtain ⟨x, hx, h0, hle⟩ := hg
    simp only [step, hx]
    have hxm := mem_of_getElem? hx
    have hxw := hI.wf x hxm
    apply applyDelta_inv s hI x.lo x.hi (-δ) _ hxw.2
    · intro p hp
      rw [sumIf_decAt p hp s.pos i δ x hx]
      have : p ⟨x.lo, x.hi, 0⟩ = p x := by
        have := hp x x.liq
        simpa using this
      rw [this]; split <;> omega
    · exact decAt_wf s.pos i δ x hx hle hI.wf
  | crossUp t =>
    obtain ⟨hlt, hfree⟩ := hg
    simp only [step]
    refine ⟨?_, hI.gross_eq, hI.net_eq, hI.wf⟩
    simp only []
    have key : sumIf (inRange t) s.pos - sumIf (inRange s.tick) s.pos = sumIf (lowerAt t) s.pos - sumIf (upperAt t) s.pos := by
      apply sumIf_diff
      intro x hx
      by_cases hz : x.liq = 0
      · exact Or.inl hz
      · right
        have hw := (hI.wf x hx).2
        -- x bounds no tick strictly between the old cursor and t
        have hlo : ¬ (s.tick < x.lo ∧ x.lo < t) := by
          intro ⟨a, b⟩
          rcases gross_zero_elim s hI x.lo (hfree x.lo a b) x hx with h | h
          · exact hz h
          · exact h.1 rfl
        have hhi : ¬ (s.tick < x.hi ∧ x.hi < t) := by
          intro ⟨a, b⟩
          rcases gross_zero_elim s hI x.hi (hfree x.hi a b) x hx with h | h
          · exact hz h
          · exact h.2 rfl
        simp only [ind, inRange, lowerAt, upperAt]
        by_cases c1 : x.lo ≤ t <;> by_cases c2 : t < x.hi <;> by_cases c3 : x.lo ≤ s.tick <;> by_cases c4 : s.tick < x.hi <;>
          by_cases c5 : x.lo = t <;> by_cases c6 : x.hi = t <;> simp [c1, c2, c3, c4, c5, c6] <;> omega
    have := hI.active_eq
    have := hI.net_eq t
    omega
  | crossDown t =>
    obtain ⟨hle, hfree⟩ := hg
    simp only [step]
    refine ⟨?_, hI.gross_eq, hI.net_eq, hI.wf⟩
    simp only []
    have key : sumIf (inRange s.tick) s.pos - sumIf (inRange (t - 1)) s.pos = sumIf (lowerAt t) s.pos - sumIf (upperAt t) s.pos := by
      apply sumIf_diff
      intro x hx
      by_cases hz : x.liq = 0
      · exact Or.inl hz
      · right
        have hw := (hI.wf x hx).2
        have hlo : ¬ (t < x.lo ∧ x.lo ≤ s.tick) := by
          intro ⟨a, b⟩
          rcases gross_zero_elim s hI x.lo (hfree x.lo a b) x hx with h | h
          · exact hz h
          · exact h.1 rfl
        have hhi : ¬ (t < x.hi ∧ x.hi ≤ s.tick) := by
          intro ⟨a, b⟩
          rcases gross_zero_elim s hI x.hi (hfree x.hi a b) x hx with h | h
          · exact hz h
          · exact h.2 rfl
        simp only [ind, inRange, lowerAt, upperAt]
        by_cases c1 : x.lo ≤ t - 1 <;> by_cases c2 : t - 1 < x.hi <;> by_cases c3 : x.lo ≤ s.tick <;> by_cases c4 : s.tick < x.hi <;>
          by_cases c5 : x.lo = t <;> by_cases c6 : x.hi = t <;> simp [c1, c2, c3, c4, c5, c6] <;> omega
    have := hI.active_eq
    have := hI.net_eq t
    omega
  | moveWithin t' =>
    simp only [step]
    refine ⟨?_, hI.gross_eq, hI.net_eq, hI.wf⟩
    simp only []
    rw [hI.active_eq]
    apply sumIf_eq'
    intro x hx
    by_cases hz : x.liq = 0
    · exact Or.inl hz
    · right
      have hw := (hI.wf x hx).2
      rcases hg with ⟨hle, hfree⟩ | ⟨hle, hfree⟩
      · have hlo : ¬ (s.tick < x.lo ∧ x.lo ≤ t') := by
          intro ⟨a, b⟩
          rcases gross_zero_elim s hI x.lo (hfree x.lo a b) x hx with h | h
          · exact hz h
          · exact h.1 rfl
        have hhi : ¬ (s.tick < x.hi ∧ x.hi ≤ t') := by
          intro ⟨a, b⟩
          rcases gross_zero_elim s hI x.hi (hfree x.hi a b) x hx with h | h
          · exact hz h
          · exact h.2 rfl
        simp only [inRange]
        by_cases c1 : x.lo ≤ t' <;> by_cases c2 : t' < x.hi <;> by_cases c3 : x.lo ≤ s.tick <;> by_cases c4 : s.tick < x.hi <;>
          simp [c1, c2, c3, c4] <;> omega
      · have hlo : ¬ (t' < x.lo ∧ x.lo ≤ s.tick) := by
          intro ⟨a, b⟩
          rcases gross_zero_elim s hI x.lo (hfree x.lo a b) x hx with h | h
          · exact hz h
          · exact h.1 rfl
        have hhi : ¬ (t' < x.hi ∧ x.hi ≤ s.tick) := by
          intro ⟨a, b⟩
          rcases gross_zero_elim s hI x.hi (hfree x.hi a b) x hx with h | h
          · exact hz h
          · exact h.2 rfl
        simp only [inRange]
        by_cases c1 : x.lo ≤ t' <;> by_cases c2 : t' < x.hi <;> by_cases c3 : x.lo ≤ s.tick <;> by_cases c4 : s.tick < x.hi <;>
          simp [c1, c2, c3, c4] <;> omega

theorem init_inv (t : Int) : Inv (init t) := by
  refine ⟨by simp [init, sumIf], ?_, ?_, ?_⟩
  · intro u; simp [init, sumIf]
  · intro u; simp [init, sumIf]
  · intro x hx; simp [init] at hx

/-- C04 main theorem: in EVERY reachable state (any number of operations) the active liquidity equals the summed
    liquidity of the positions whose range contains the cursor, and each tick's gross/net equal the sums over the
    positions it bounds -/
theorem inv_reachable (s : St) (h : Reachable s) : Inv s := by
  induction h with
  | init t => exact init_inv t
  | step op _ hg ih => exact step_inv _ op ih hg

theorem active_liquidity_eq (s : St) (h : Reachable s) : s.active = sumIf (inRange s.tick) s.pos :=
  (inv_reachable s h).active_eq

theorem tick_gross_net_eq (s : St) (h : Reachable s) (t : Int) :
    s.gross t = sumIf (lowerAt t) s.pos + sumIf (upperAt t) s.pos ∧
    s.net t = sumIf (lowerAt t) s.pos - sumIf (upperAt t) s.pos :=
  ⟨(inv_reachable s h).gross_eq t, (inv_reachable s h).net_eq t⟩

/-- a tick whose gross liquidity is zero bounds no open liquidity (so removing it from the store loses nothing), and
    conversely a tick bounding only closed positions has gross (and net) zero -/
theorem tick_absent_iff (s : St) (h : Reachable s) (t : Int) :
    s.gross t = 0 ↔ ∀ x ∈ s.pos, (x.lo = t ∨ x.hi = t) → x.liq = 0 := by
  have hI := inv_reachable s h
  constructor
  · intro hz x hx hb
    rcases gross_zero_elim s hI t hz x hx with h0 | hne
    · exact h0
    · rcases hb with hb | hb
      · exact absurd hb hne.1
      · exact absurd hb hne.2
  · intro hall
    rw [hI.gross_eq t]
    have e1 : sumIf (lowerAt t) s.pos = sumIf (fun _ => false) s.pos :=
      sumIf_eq' _ _ _ (fun x hx => by
        by_cases c : x.lo = t
        · exact Or.inl (hall x hx (Or.inl c))
        · exact Or.inr (by simp [lowerAt, c]))
    have e2 : sumIf (upperAt t) s.pos = sumIf (fun _ => false) s.pos :=
      sumIf_eq' _ _ _ (fun x hx => by
        by_cases c : x.hi = t
        · exact Or.inl (hall x hx (Or.inr c))
        · exact Or.inr (by simp [upperAt, c]))
    rw [e1, e2, sumIf_const_false]; rfl

/-- active liquidity is never negative -/
theorem active_nonneg (s : St) (h : Reachable s) : 0 ≤ s.active := by
  have hI := inv_reachable s h
  rw [hI.active_eq]
  exact sumIf_nonneg _ _ (fun x hx => (hI.wf x hx).1)

/-- when every position has been fully withdrawn, active liquidity and every tick are zero (the pool is empty) -/
theorem all_closed_empty (s : St) (h : Reachable s) (hc : ∀ x ∈ s.pos, x.liq = 0) :
    s.active = 0 ∧ ∀ t, s.gross t = 0 ∧ s.net t = 0 := by
  have hI := inv_reachable s h
  have z : ∀ p, sumIf p s.pos = 0 := fun p => by
    have := sumIf_eq' s.pos p (fun _ => false) (fun x hx => Or.inl (hc x hx))
    rw [this, sumIf_const_false]
  refine ⟨by rw [hI.active_eq, z], fun t => ⟨by rw [hI.gross_eq, z, z]; rfl, by rw [hI.net_eq, z, z]; rfl⟩⟩

/-- the regenerated `Pool.IsCurrentTickInRange` is exactly the abstraction's in-range test -/
theorem inRange_spec (cur lo hi : Int) : S_inRange_spec cur lo hi := by
  unfold S_inRange_spec Sunrise.Gen.KernelsCL.IsCurrentTickInRange
  by_cases h1 : lo ≤ cur <;> by_cases h2 : cur < hi <;> simp [h1, h2] <;> omega

/-- the regenerated swap helpers apply +net / cursor t going up and −net / cursor t−1 going down, as CLBook does -/
theorem cross_conventions (lim fee net : Sunrise.Dec) (t : Int) : S_cross_conventions lim fee net t := by
  simp [S_cross_conventions, Sunrise.Gen.KernelsCL.qfb_GetLiquidityDeltaSign, Sunrise.Gen.KernelsCL.qfb_NextTickAfterCrossing,
    Sunrise.Gen.KernelsCL.bfq_GetLiquidityDeltaSign, Sunrise.Gen.KernelsCL.bfq_NextTickAfterCrossing, Sunrise.Dec.neg]

open Sunrise.TickKey in
/-- the tick key encoding is strictly order-preserving on the whole int64 range, so the store's byte-ordered iterators
    visit initialised ticks in tick order (what the swap loop's NextTickIterator relies on) -/
theorem tick_key_order (a b : Int) (ha : I64_MIN ≤ a ∧ a ≤ I64_MAX) (hb : I64_MIN ≤ b ∧ b ≤ I64_MAX) :
    a < b ↔ keyLt (encode a) (encode b) := by
  unfold keyLt encode I64_MIN I64_MAX TWO64 at *
  by_cases h1 : a < 0 <;> by_cases h2 : b < 0 <;> simp only [h1, h2, if_true, if_false]
  · -- both negative: same prefix, payload a + 2^64 vs b + 2^64
    have ea : (((a + 18446744073709551616).toNat : Nat) : Int) = a + 18446744073709551616 := Int.toNat_of_nonneg (by omega)
    have eb : (((b + 18446744073709551616).toNat : Nat) : Int) = b + 18446744073709551616 := Int.toNat_of_nonneg (by omega)
    constructor
    · intro h; right; exact ⟨trivial, by omega⟩
    · intro h; rcases h with h | ⟨_, h⟩
      · omega
      · omega
  · -- a negative, b non-negative: 'N' < 'P'
    constructor
    · intro _; left; decide
    · intro _; omega
  · -- a non-negative, b negative: never
    constructor
    · intro h; omega
    · intro h; rcases h with h | ⟨h, _⟩
      · exact absurd h (by decide)
      · exact absurd h (by decide)
  · have ea : ((a.toNat : Nat) : Int) = a := Int.toNat_of_nonneg (by omega)
    have eb : ((b.toNat : Nat) : Int) = b := Int.toNat_of_nonneg (by omega)
    constructor
    · intro h; right; exact ⟨trivial, by omega⟩
    · intro h; rcases h with h | ⟨_, h⟩
      · omega
      · omega

open Sunrise.TickKey in
/-- decoding inverts encoding on the int64 range -/
theorem tick_key_roundtrip (a : Int) (ha : I64_MIN ≤ a ∧ a ≤ I64_MAX) : decode (encode a) = some a := by
  unfold decode encode I64_MIN I64_MAX TWO64 at *
  by_cases h1 : a < 0
  · simp only [h1, if_true]
    have e : (((a + 18446744073709551616).toNat : Nat) : Int) = a + 18446744073709551616 := Int.toNat_of_nonneg (by omega)
    simp only [e]
    have : a + 18446744073709551616 ≥ 9223372036854775808 := by omega
    simp only [this, if_true]
    have h3 : ¬ (a + 18446744073709551616 - 18446744073709551616 ≥ 0) := by omega
    have h4 : a + 18446744073709551616 - 18446744073709551616 = a := by omega
    simp [h3, h4]
    exact h1
  · simp only [h1, if_false]
    have e : ((a.toNat : Nat) : Int) = a := Int.toNat_of_nonneg (by omega)
    simp only [e]
    have : ¬ (a ≥ 9223372036854775808) := by omega
    simp only [this, if_false]
    simp [h1]

/-- non-vacuity: a reachable state with two overlapping positions, a crossing and a partial withdrawal -/
example : Reachable (step (step (step (step (init 0) (.add (-5) 5 100)) (.add 3 9 40)) (.crossUp 3)) (.decrease 1 30)) := by
  refine Reachable.step _ (Reachable.step _ (Reachable.step _ (Reachable.step _ (Reachable.init 0) ?_) ?_) ?_) ?_
  · exact ⟨by decide, by decide⟩
  · exact ⟨by decide, by decide⟩
  · refine ⟨by decide, ?_⟩
    intro u h1 h2
    simp [step, applyDelta, init] at *
    omega
  · exact ⟨⟨-5, 5, 100⟩, by simp [step, applyDelta, init], by decide, by decide⟩

end Sunrise.C04
