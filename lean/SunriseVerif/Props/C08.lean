import SunriseVerif.Lemmas.DA08Block
/-!
C08 — DA collateral is conserved: held while open, fully paid out on resolution.

Model: `Model/DA.lean` (follows the code after the `fix:` commits for S13 and S14), tied to the real application by the
`da` correspondence suite. `Reachable` = any unbounded list of operations (messages by arbitrary non-module signers,
blocks with arbitrary time steps and arbitrary boundary inputs, parameter changes) from a genesis with empty DA stores.
`dust` is ghost state: the division remainders that rejections leave in the module account.
-/
set_option linter.unusedSimpArgs false
set_option linter.unusedVariables false
namespace Sunrise.C08
open Sunrise Sunrise.Bank Sunrise.DA

/-- **Escrow equation** in every reachable state, for every denom: the module account holds exactly the publish
    collateral of every unresolved item plus one invalidity collateral per recorded challenger of it (amounts frozen in
    the item), plus the accumulated division dust. -/
theorem escrow_inv {s : St} (h : Reachable s) (d : Denom) :
    s.bank.bal daAcc d = escrowSum s.invs s.items d + s.dust d :=
  (inv_reachable h).escrow d

/-- challenge records exist only for unresolved items (so no collateral is held for a record that can never be settled) -/
theorem records_only_for_unresolved {s : St} (h : Reachable s) :
    ∀ x ∈ s.invs, ∃ it ∈ s.items, it.uri = x.uri ∧ it.status.unresolved = true :=
  (inv_reachable h).owner

/-- a resolved (verified / rejected) item holds nothing: every unit posted for it has left the module account, except dust -/
theorem resolved_holds_nothing (invs : List Inval) (it : Item) (d : Denom) (h : it.status.unresolved = false) :
    escrowOf invs it d = 0 := by
  unfold escrowOf; simp [h]

/-- dust never becomes negative and uris stay unique in every reachable state -/
theorem dust_nonneg {s : St} (h : Reachable s) (d : Denom) : 0 ≤ s.dust d := (inv_reachable h).dustNN d

theorem uris_unique {s : St} (h : Reachable s) : urisNodup s.items := (inv_reachable h).nodup

/-- the invariant is inductive for EVERY state, not only from genesis: one operation preserves it (this is what makes the
    statement hold along unbounded histories and for arbitrary parameter changes between publication and resolution) -/
theorem escrow_step {s : St} (op : Op) (hi : Inv s) (hwf : op.wf) : Inv (step s op).1 := inv_step op hi hwf

/-- a successful challenge charges exactly the collateral frozen in the item and records exactly one challenger;
    a failing message changes nothing (atomicity) -/
theorem challenge_charges_frozen_collateral {s s' : St} {a : Addr} {u : String} {ix : List Int} {it : Item}
    (ha : a ≠ daAcc) (hf : findItem s u = some it) (hpos : coinsPos it.invColl)
    (h : submitInvalidity s a u ix = .ok s') (d : Denom) :
    s'.bank.bal daAcc d = s.bank.bal daAcc d + amt it.invColl d
    ∧ s'.bank.bal a d = s.bank.bal a d - amt it.invColl d
    ∧ cnt s'.invs u = cnt s.invs u + 1 ∧ hasInval s u a = false := by
  unfold submitInvalidity at h
  split at h
  · cases h
  rw [hf] at h
  simp only [] at h
  split at h
  · cases h
  split at h
  · cases h
  split at h
  · cases h
  rename_i hno
  have hcnt : ∀ b : Bank, cnt (insertBy (fun a b => keyLt a.uri a.sender b.uri b.sender) (Inval.mk u a ix) s.invs) u = cnt s.invs u + 1 := by
    intro _; unfold cnt; rw [filter_length_insertBy]; simp
  split at h
  · obtain ⟨b, hs, hb⟩ := bind_ok h
    simp only [Res.ok.injEq] at hb
    subst hb
    obtain ⟨h1, h2, _⟩ := sendCoins_ok ha _ _ _ hs
    exact ⟨h2 d, h1 d, hcnt b, by simpa using hno⟩
  · rename_i hnp
    simp only [Res.ok.injEq] at h
    subst h
    have : it.invColl = [] := not_allPositive_nil hpos hnp
    exact ⟨by simp [this, amt_nil], by simp [this, amt_nil], hcnt s.bank, by simpa using hno⟩

/-- a repeated challenge by the same sender is rejected (S13): nobody is charged a collateral that has no record -/
theorem repeated_challenge_rejected (s : St) (a : Addr) (u : String) (ix : List Int) (h : hasInval s u a = true) :
    (submitInvalidity s a u ix).isOk = false := by
  unfold submitInvalidity
  split
  · rfl
  split
  · rfl
  · split
    · rfl
    split
    · rfl
    · simp [h, Res.isOk]

/-- **Reward rule**: the code's `LegacyNewDecFromInt(a).QuoInt64(n).TruncateInt()` is exactly `⌊a / n⌋` -/
theorem reward_is_floor {a n : Int} (ha : 0 ≤ a) (hn : 0 < n) :
    rewardShare [("x", a)] n = [("x", a / n)] := by
  simp [rewardShare, share_eq_div ha hn]

/-- **Dust bound**: a rejection with `n > 0` challengers retains, per coin entry of the publish collateral, a
    non-negative remainder smaller than `n` (valid coins have one entry per denom, hence `< n` per denom) -/
theorem dust_bound {pub : Coins} {n : Int} (hp : ∀ c ∈ pub, 0 ≤ c.2) (hn : 0 < n) (dust : Denom → Int) (d : Denom) :
    0 ≤ addDust dust pub (rewardShare pub n) n d - dust d
    ∧ addDust dust pub (rewardShare pub n) n d - dust d
        < n * ((pub.filter (fun c => c.1 == d)).length : Int) + (if pub.any (fun c => c.1 == d) then 0 else 1) := by
  have := rewardShare_amt hp hn d
  unfold addDust
  omega

/-- single-entry instance of the dust bound, as the property states it: retained `< n` -/
theorem dust_bound_single {a n : Int} (ha : 0 ≤ a) (hn : 0 < n) :
    0 ≤ a - n * (a / n) ∧ a - n * (a / n) < n := by
  have := share_bounds ha hn; omega

/-- **Payout on unchallenged expiry** (module side): the item's whole escrow leaves the module account — publisher's
    collateral and one refund per recorded challenger (S13) — and the invariant is kept -/
theorem expiry_pays_out {s : St} (hi : Inv s) (u : String) : Inv (toVerifiedOne s u) := inv_toVerifiedOne hi u

/-- **Payout at the tally** (module side): whatever the verdict, the item's whole escrow leaves the module account
    except the dust, all sends succeed, and the invariant is kept — for any boundary inputs -/
theorem tally_pays_out {env : Env} {s s' : St} {u : String} (hi : Inv s) (h : tallyOne env s u = .ok s') : Inv s' :=
  inv_tallyOne hi h

/-- a whole end-block keeps the invariant (prune, to-challenging, to-verified, tally, slash epoch in code order) -/
theorem endBlock_conserves {env : Env} {s s' : St} {sl : List Addr} (hi : Inv s) (h : endBlock env s = .ok (s', sl)) :
    Inv s' := inv_endBlock hi h

/-- **Params change safe**: the refund on expiry reads no parameter at all — it pays the amounts stored in the item -/
theorem expiry_ignores_params (s : St) (u : String) (p : Params) :
    (toVerifiedOne { s with params := p } u).bank = (toVerifiedOne s u).bank
    ∧ (toVerifiedOne { s with params := p } u).items = (toVerifiedOne s u).items
    ∧ (toVerifiedOne { s with params := p } u).invs = (toVerifiedOne s u).invs := by
  have key : ∀ (coll : Coins) (L : List Inval) (s1 : St),
      (L.foldl (refundChallenger coll) { s1 with params := p }) = { (L.foldl (refundChallenger coll) s1) with params := p } := by
    intro coll L
    induction L with
    | nil => intro s1; rfl
    | cons y L ih =>
      intro s1
      simp only [List.foldl_cons]
      have : refundChallenger coll { s1 with params := p } y = { (refundChallenger coll s1 y) with params := p } := by
        unfold refundChallenger
        dsimp only
        cases sendCoins s1.bank daAcc y.sender coll <;> rfl
      rw [this, ih]
  have hf : findItem { s with params := p } u = findItem s u := rfl
  unfold toVerifiedOne
  rw [hf]
  cases findItem s u with
  | none => exact ⟨rfl, rfl, rfl⟩
  | some it =>
    dsimp only
    by_cases hs : it.status = .cp
    · simp only [hs, if_true]
      cases hsend : sendCoins s.bank daAcc it.publisher it.pubColl with
      | ok b =>
        dsimp only
        have := key it.invColl (s.invs.filter (fun x => x.uri == u))
          { s with items := setItem s.items { it with status := .ver, ts := s.now }, bank := b }
        simp only [invsOf]
        exact ⟨by simpa using congrArg St.bank this, by simpa using congrArg St.items this, by simpa using congrArg St.invs this⟩
      | err c => exact ⟨rfl, rfl, rfl⟩
      | panic k => exact ⟨rfl, rfl, rfl⟩
    · simp [hs]

/-! ### non-vacuity -/
def p0 : Params :=
  { thr := 330000000000000000, rf := PREC, epoch := 5, sft := 0, frac := 0, cp := 4 * SEC, pp := 6 * SEC,
    rrp := 9 * SEC, vrp := 12 * SEC, pub := [("urise", 1000)], inv := [("urise", 100)] }
def g0 : St :=
  { (default : St) with params := p0, now := 1000 * SEC,
                        bank := (Bank.empty.credit "a0" "urise" 5000).credit "a1" "urise" 5000 }
def env0 : Env := { active := ["a0"], valInfo := fun _ => some (true, false), assign := fun _ _ => [0], owners := ["a0", "a1"] }
def run (s : St) (ops : List Op) : St := ops.foldl (fun s op => (step s op).1) s
/-- publish and challenge (1 of 3 shards ≥ 33 %) -/
def s2 : St := run g0 [.publish "a0" "u" 3 1, .invalid "a1" "u" [0]]
/-- the end-block phases on the item (evaluated phase by phase: `indexScan` uses a well-founded `mergeSort`, which the
    kernel does not unfold; the whole-block runs are exercised by the correspondence suite) -/
def s3 : St := toChallengingOne { s2 with now := 1001 * SEC } "u"
def s4 : Res St := tallyOne env0 { s3 with now := 1008 * SEC } "u"
def s3' : St := toVerifiedOne { s2 with now := 1005 * SEC } "u"

example : Init g0 := ⟨by decide, rfl, rfl, rfl, rfl, fun _ => rfl, fun _ => rfl, fun _ => rfl⟩
example : s2.bank.bal daAcc "urise" = 1100 ∧ s2.bank.bal "a0" "urise" = 4000 ∧ s2.bank.bal "a1" "urise" = 4900 := by decide
example : s3.items.map (·.status) = [Status.ch] := by decide
def obs4 : Option (List Status × Int × Int × Nat) :=
  match s4 with
  | .ok s => some (s.items.map (·.status), s.bank.bal daAcc "urise", s.bank.bal "a1" "urise", s.invs.length)
  | _ => none
example : obs4 = some ([Status.rej], 0, 6000, 0) := by decide
example : s3'.items.map (·.status) = [Status.ver] ∧ s3'.bank.bal daAcc "urise" = 0 ∧ s3'.bank.bal "a0" "urise" = 5000
    ∧ s3'.bank.bal "a1" "urise" = 5000 ∧ s3'.invs.length = 0 := by decide
example : rewardShare [("urise", 1000)] 3 = [("urise", 333)] ∧ addDust (fun _ => 0) [("urise", 1000)] [("urise", 333)] 3 "urise" = 1 := by decide
example : (submitInvalidity s2 "a1" "u" [1]).isOk = false := by decide

end Sunrise.C08
