import SunriseVerif.Model.ShareClass
import SunriseVerif.Spec.C10
import Mathlib.Tactic.Linarith
/-!
C10 — non-voting delegation accounting.  Kernel theorems about the kernels REGENERATED from
x/shareclass/types/types.go (Gen/KernelsShare.lean) over Model/Dec34.lean, and state-machine theorems about
Model/ShareClass.lean (tied to the real application by the `share` correspondence suite).
-/
set_option linter.unusedSimpArgs false
set_option linter.unusedVariables false
namespace Sunrise.C10
open Sunrise Sunrise.Bank Sunrise.ShareClass Sunrise.Gen.KernelsShare

/-! ## kernels -/

theorem roundMag_zero (e : Int) : D34.roundMag 0 e = (0, e) := by
  unfold D34.roundMag
  simp [D34.P34]

/-- K1: nothing accrued since the checkpoint ⇒ nothing claimable, for every multiplier and every share balance -/
theorem reward_zero_of_no_accrual (M : D34) (share : Int) : CalculateReward M M share = 0 := by
  simp only [CalculateReward, D34.sub, D34.mul, D34.round, D34.ofInt, Int.sub_self, Int.zero_mul, Int.natAbs_zero,
    roundMag_zero, D34.sgn, D34.sdkIntTrim]
  simp

theorem reward_zero_no_accrual (c : Int) (k : Nat) (share : Int) : S_reward_zero_no_accrual c k share :=
  reward_zero_of_no_accrual _ _

example : CalculateReward ⟨16647800000000000000000000000000000, -37⟩ ⟨16647800000000000000000000000000000, -37⟩ 50000000 = 0 := by decide

theorem roundMag_small (n : Nat) (e : Int) (h : n < D34.P34) : D34.roundMag n e = (n, e) := by
  unfold D34.roundMag
  simp [h]

/-- K2 (general form): while the exact product (M−m)·share has at most 34 digits, `Mul` does not round and the
    reward is the truncation of the exact product. -/
theorem reward_exact (M m : D34) (share : Int) (hd : 0 ≤ (D34.sub M m).c) (hs : 0 ≤ share)
    (hfit : (D34.sub M m).c * share < (D34.P34 : Int)) :
    CalculateReward M m share = D34.sdkIntTrim ⟨(D34.sub M m).c * share, (D34.sub M m).e⟩ := by
  have hp : 0 ≤ (D34.sub M m).c * share := Int.mul_nonneg hd hs
  have hn : ((D34.sub M m).c * share).natAbs < D34.P34 := by omega
  simp only [CalculateReward, D34.mul, D34.round, D34.ofInt, roundMag_small _ _ hn, D34.sgn]
  have : ¬ ((D34.sub M m).c * share < 0) := by omega
  simp [this, Int.natAbs_of_nonneg hp]

theorem sub_zero_mk (c : Int) (k : Nat) : D34.sub (mk c k) D34.zero = mk c k := by
  simp only [D34.sub, mk, D34.zero]
  have h1 : min (-((k % 60 : Nat) : Int)) 0 = -((k % 60 : Nat) : Int) := by omega
  rw [h1]
  simp

/-- K2: … i.e. exactly ⌊(M−m)·share⌋ -/
theorem reward_exact_floor (c : Int) (k : Nat) (share : Int) : S_reward_exact_floor c k share := by
  intro hc hs hfit
  have h := reward_exact (mk c k) D34.zero share (by rw [sub_zero_mk]; exact hc) hs (by rw [sub_zero_mk]; exact hfit)
  rw [h, sub_zero_mk]
  have hp : 0 ≤ c * share := Int.mul_nonneg hc hs
  simp only [D34.sdkIntTrim, mk]
  by_cases hk : (k % 60) = 0
  · simp [hk]
  · have : ¬ (-((k % 60 : Nat) : Int) ≥ 0) := by omega
    simp only [this, if_false, Int.neg_neg, Int.toNat_natCast]
    exact Int.tdiv_eq_ediv_of_nonneg hp

/-- K3: in that range the reward is monotone in the share balance -/
theorem reward_mono (c : Int) (k : Nat) (s1 s2 : Int) : S_reward_mono c k s1 s2 := by
  intro hc h1 h12 hfit
  have hfit1 : c * s1 < (D34.P34 : Int) := lt_of_le_of_lt (Int.mul_le_mul_of_nonneg_left h12 hc) hfit
  rw [reward_exact_floor c k s1 hc h1 hfit1, reward_exact_floor c k s2 hc (le_trans h1 h12) hfit]
  exact Int.ediv_le_ediv (by positivity) (Int.mul_le_mul_of_nonneg_left h12 hc)

theorem sgn_false_nonneg (n : Nat) : 0 ≤ D34.sgn false n := by simp [D34.sgn]

theorem quo_nonneg (R T : Int) (hR : 0 ≤ R) (hT : 0 < T) : 0 ≤ (D34.quo (D34.ofInt R) (D34.ofInt T)).c := by
  have hT0 : ¬ (T = 0) := by omega
  have hT1 : ¬ (T < 0) := by omega
  have hR1 : ¬ (R < 0) := by omega
  by_cases hR0 : R = 0
  · simp [D34.quo, D34.ofInt, hR0, hT0]
  · simp only [D34.quo, D34.ofInt, hT0, hR0, if_false, hR1, hT1, decide_false, bne_self_eq_false]
    exact sgn_false_nonneg _

theorem add_sub_nonneg (M q : D34) (hq : 0 ≤ q.c) : 0 ≤ (D34.sub (D34.add M q) M).c := by
  simp only [D34.sub, D34.add]
  have h1 : min (min M.e q.e) M.e = min M.e q.e := by omega
  rw [h1]
  simp only [Int.sub_self, Int.toNat_zero, Int.pow_zero, Int.mul_one]
  have : 0 ≤ q.c * 10 ^ (q.e - min M.e q.e).toNat := Int.mul_nonneg hq (by positivity)
  omega

/-- K4: the reward multiplier never decreases (rewards are non-negative, the share supply positive) -/
theorem multiplier_monotone (c : Int) (k : Nat) (reward total : Int) : S_multiplier_monotone c k reward total := by
  intro hr ht
  have h := add_sub_nonneg (mk c k) _ (quo_nonneg reward total hr ht)
  simp only [D34.lt, CalculateRewardMultiplierNew]
  exact decide_eq_false (by omega)

theorem multiplier_monotone_gen (M : D34) (reward total : Int) (hr : 0 ≤ reward) (ht : 0 < total) :
    0 ≤ (D34.sub (CalculateRewardMultiplierNew M reward total) M).c :=
  add_sub_nonneg _ _ (quo_nonneg reward total hr ht)

example : CalculateReward ⟨3333333333333333333333333333333333, -34⟩ D34.zero 3 = 0 := by decide
example : CalculateRewardMultiplierNew D34.zero 2 3 = ⟨6666666666666666666666666666666667, -34⟩ := by decide
example : S_reward_mono 25 1 3 4 := by decide

end Sunrise.C10
