import SunriseVerif.Model.ShareClass
import SunriseVerif.Spec.C10
import Mathlib.Tactic.Linarith
/-!
C10 — non-voting delegation accounting.  Kernel theorems about the kernels REGENERATED from
x/shareclass/types/types.go (Gen/KernelsShare.lean) over Model/Dec34.lean, and state-machine theorems about
Model/ShareClass.lean (tied to the real application by the `share` correspondence suite).
-/
set_option linter.unusedSimpArgs false
set_option linter.unusedVariables false
namespace Sunrise.C10
open Sunrise Sunrise.Bank Sunrise.ShareClass Sunrise.Gen.KernelsShare

/-! ## kernels -/

theorem roundMag_zero (e : Int) : D34.roundMag 0 e = (0, e) := by
  unfold D34.roundMag
  simp [D34.P34]

/-- K1: nothing accrued since the checkpoint ⇒ nothing claimable, for every multiplier and every share balance -/
theorem reward_zero_of_no_accrual (M : D34) (share : Int) : CalculateReward M M share = 0 := by
  simp only [CalculateReward, D34.sub, D34.mul, D34.round, D34.ofInt, Int.sub_self, Int.zero_mul, Int.natAbs_zero,
    roundMag_zero, D34.sgn, D34.sdkIntTrim]
  simp

theorem reward_zero_no_accrual (c : Int) (k : Nat) (share : Int) : S_reward_zero_no_accrual c k share :=
  reward_zero_of_no_accrual _ _

example : CalculateReward ⟨16647800000000000000000000000000000, -37⟩ ⟨16647800000000000000000000000000000, -37⟩ 50000000 = 0 := by decide

theorem roundMag_small (n : Nat) (e : Int) (h : n < D34.P34) : D34.roundMag n e = (n, e) := by
  unfold D34.roundMag
  simp [h]

/-- K2 (general form): while the exact product (M−m)·share has at most 34 digits, `Mul` does not round and the
    reward is the truncation of the exact product. -/
theorem reward_exact (M m : D34) (share : Int) (hd : 0 ≤ (D34.sub M m).c) (hs : 0 ≤ share)
    (hfit : (D34.sub M m).c * share < (D34.P34 : Int)) :
    CalculateReward M m share = D34.sdkIntTrim ⟨(D34.sub M m).c * share, (D34.sub M m).e⟩ := by
  have hp : 0 ≤ (D34.sub M m).c * share := Int.mul_nonneg hd hs
  have hn : ((D34.sub M m).c * share).natAbs < D34.P34 := by omega
  simp only [CalculateReward, D34.mul, D34.round, D34.ofInt, roundMag_small _ _ hn, D34.sgn]
  have : ¬ ((D34.sub M m).c * share < 0) := by omega
  simp [this, Int.natAbs_of_nonneg hp]

theorem sub_zero_mk (c : Int) (k : Nat) : D34.sub (mk c k) D34.zero = mk c k := by
  simp only [D34.sub, mk, D34.zero]
  have h1 : min (-((k % 60 : Nat) : Int)) 0 = -((k % 60 : Nat) : Int) := by omega
  rw [h1]
  simp

/-- K2: … i.e. exactly ⌊(M−m)·share⌋ -/
theorem reward_exact_floor (c : Int) (k : Nat) (share : Int) : S_reward_exact_floor c k share := by
  intro hc hs hfit
  have h := reward_exact (mk c k) D34.zero share (by rw [sub_zero_mk]; exact hc) hs (by rw [sub_zero_mk]; exact hfit)
  rw [h, sub_zero_mk]
  have hp : 0 ≤ c * share := Int.mul_nonneg hc hs
  simp only [D34.sdkIntTrim, mk]
  by_cases hk : (k % 60) = 0
  · simp [hk]
  · have : ¬ (-((k % 60 : Nat) : Int) ≥ 0) := by omega
    simp only [this, if_false, Int.neg_neg, Int.toNat_natCast]
    exact Int.tdiv_eq_ediv_of_nonneg hp

/-- K3: in that range the reward is monotone in the share balance -/
theorem reward_mono (c : Int) (k : Nat) (s1 s2 : Int) : S_reward_mono c k s1 s2 := by
  intro hc h1 h12 hfit
  have hfit1 : c * s1 < (D34.P34 : Int) := lt_of_le_of_lt (Int.mul_le_mul_of_nonneg_left h12 hc) hfit
  rw [reward_exact_floor c k s1 hc h1 hfit1, reward_exact_floor c k s2 hc (le_trans h1 h12) hfit]
  exact Int.ediv_le_ediv (by positivity) (Int.mul_le_mul_of_nonneg_left h12 hc)

theorem sgn_false_nonneg (n : Nat) : 0 ≤ D34.sgn false n := by simp [D34.sgn]

theorem quo_nonneg (R T : Int) (hR : 0 ≤ R) (hT : 0 < T) : 0 ≤ (D34.quo (D34.ofInt R) (D34.ofInt T)).c := by
  have hT0 : ¬ (T = 0) := by omega
  have hT1 : ¬ (T < 0) := by omega
  have hR1 : ¬ (R < 0) := by omega
  by_cases hR0 : R = 0
  · simp [D34.quo, D34.ofInt, hR0, hT0]
  · simp only [D34.quo, D34.ofInt, hT0, hR0, if_false, hR1, hT1, decide_false, bne_self_eq_false]
    exact sgn_false_nonneg _

theorem add_sub_nonneg (M q : D34) (hq : 0 ≤ q.c) : 0 ≤ (D34.sub (D34.add M q) M).c := by
  simp only [D34.sub, D34.add]
  have h1 : min (min M.e q.e) M.e = min M.e q.e := by omega
  rw [h1]
  simp only [Int.sub_self, Int.toNat_zero, Int.pow_zero, Int.mul_one]
  have : 0 ≤ q.c * 10 ^ (q.e - min M.e q.e).toNat := Int.mul_nonneg hq (by positivity)
  omega

/-- K4: the reward multiplier never decreases (rewards are non-negative, the share supply positive) -/
theorem multiplier_monotone (c : Int) (k : Nat) (reward total : Int) : S_multiplier_monotone c k reward total := by
  intro hr ht
  have h := add_sub_nonneg (mk c k) _ (quo_nonneg reward total hr ht)
  simp only [D34.lt, CalculateRewardMultiplierNew]
  exact decide_eq_false (by omega)

theorem multiplier_monotone_gen (M : D34) (reward total : Int) (hr : 0 ≤ reward) (ht : 0 < total) :
    0 ≤ (D34.sub (CalculateRewardMultiplierNew M reward total) M).c :=
  add_sub_nonneg _ _ (quo_nonneg reward total hr ht)

example : CalculateReward ⟨3333333333333333333333333333333333, -34⟩ D34.zero 3 = 0 := by decide
example : CalculateRewardMultiplierNew D34.zero 2 3 = ⟨6666666666666666666666666666666667, -34⟩ := by decide
example : S_reward_mono 25 1 3 4 := by decide

/-! ## bank frames -/

/-- only the listed accounts' balances may differ -/
def Frame (l : List Addr) (b b' : Bank) : Prop := ∀ a, a ∉ l → ∀ d, b'.bal a d = b.bal a d
/-- only the listed denoms' supplies may differ -/
def SupFrame (l : List Denom) (b b' : Bank) : Prop := ∀ d, d ∉ l → b'.sup d = b.sup d

theorem Frame.refl (l : List Addr) (b : Bank) : Frame l b b := fun _ _ _ => rfl
theorem SupFrame.refl (l : List Denom) (b : Bank) : SupFrame l b b := fun _ _ => rfl
theorem Frame.trans {l : List Addr} {b1 b2 b3 : Bank} (h1 : Frame l b1 b2) (h2 : Frame l b2 b3) : Frame l b1 b3 :=
  fun a ha d => (h2 a ha d).trans (h1 a ha d)
theorem SupFrame.trans {l : List Denom} {b1 b2 b3 : Bank} (h1 : SupFrame l b1 b2) (h2 : SupFrame l b2 b3) : SupFrame l b1 b3 :=
  fun d hd => (h2 d hd).trans (h1 d hd)
theorem Frame.mono {l l' : List Addr} {b b' : Bank} (h : Frame l b b') (hs : ∀ a, a ∈ l → a ∈ l') : Frame l' b b' :=
  fun a ha d => h a (fun hm => ha (hs a hm)) d
theorem SupFrame.mono {l l' : List Denom} {b b' : Bank} (h : SupFrame l b b') (hs : ∀ a, a ∈ l → a ∈ l') : SupFrame l' b b' :=
  fun a ha => h a (fun hm => ha (hs a hm))

theorem credit_frame (b : Bank) (a : Addr) (d : Denom) (x : Int) : Frame [a] b (b.credit a d x) ∧ SupFrame [] b (b.credit a d x) := by
  refine ⟨fun a' ha d' => ?_, fun _ _ => rfl⟩
  have : a' ≠ a := by simpa using ha
  simp [this]

theorem send_frame {b b' : Bank} {s t : Addr} {d : Denom} {x : Int} (h : b.send s t d x = .ok b') :
    Frame [s, t] b b' ∧ SupFrame [] b b' := by
  obtain ⟨_, _, e⟩ := send_ok h
  subst e
  refine ⟨fun a ha d' => ?_, fun _ _ => rfl⟩
  have h1 : a ≠ s ∧ a ≠ t := by simpa using ha
  simp [h1.1, h1.2]

theorem mint_frame {b b' : Bank} {m : Addr} {d : Denom} {x : Int} (h : b.mint m d x = .ok b') :
    Frame [m] b b' ∧ SupFrame [d] b b' := by
  obtain ⟨_, e⟩ := mint_ok h
  subst e
  refine ⟨fun a ha d' => ?_, fun d' hd => ?_⟩
  · have h1 : a ≠ m := by simpa using ha
    simp [h1]
  · have h1 : d' ≠ d := by simpa using hd
    simp [h1]

theorem burn_frame {b b' : Bank} {m : Addr} {d : Denom} {x : Int} (h : b.burn m d x = .ok b') :
    Frame [m] b b' ∧ SupFrame [d] b b' := by
  obtain ⟨_, _, e⟩ := burn_ok h
  subst e
  refine ⟨fun a ha d' => ?_, fun d' hd => ?_⟩
  · have h1 : a ≠ m := by simpa using ha
    simp [h1]
  · have h1 : d' ≠ d := by simpa using hd
    simp [h1]

theorem swap_frame {b b' : Bank} {holder : Addr} {dIn dOut : Denom} {x : Int}
    (h : Convert.swapDenoms b holder dIn dOut x = .ok b') :
    Frame [holder, Convert.moduleAcc] b b' ∧ SupFrame [dIn, dOut] b b' := by
  unfold Convert.swapDenoms at h
  by_cases hn : x < 0
  · simp [hn] at h
  · simp only [hn, if_false] at h
    obtain ⟨b1, h1, h⟩ := bind_ok h
    obtain ⟨b2, h2, h⟩ := bind_ok h
    obtain ⟨b3, h3, h⟩ := bind_ok h
    have f1 := send_frame h1
    have f2 := burn_frame h2
    have f3 := mint_frame h3
    have f4 := send_frame h
    refine ⟨?_, ?_⟩
    · exact ((f1.1.mono (by simp)).trans (f2.1.mono (by simp))).trans ((f3.1.mono (by simp)).trans (f4.1.mono (by simp)))
    · exact ((f1.2.mono (by simp)).trans (f2.2.mono (by simp))).trans ((f3.2.mono (by simp)).trans (f4.2.mono (by simp)))

theorem creditCoins_frame (cs : Coins) (b : Bank) (a : Addr) : Frame [a] b (creditCoins b a cs) ∧ SupFrame [] b (creditCoins b a cs) := by
  induction cs generalizing b with
  | nil => exact ⟨Frame.refl _ _, SupFrame.refl _ _⟩
  | cons c cs ih =>
    have h1 := credit_frame b a c.1 c.2
    have h2 := ih (b.credit a c.1 c.2)
    exact ⟨h1.1.trans h2.1, h1.2.trans h2.2⟩

theorem sendCoins_frame (cs : Coins) {b b' : Bank} {s t : Addr} (h : sendCoins b s t cs = .ok b') :
    Frame [s, t] b b' ∧ SupFrame [] b b' := by
  induction cs generalizing b with
  | nil =>
    simp [sendCoins, List.foldlM, pure] at h
    subst h
    exact ⟨Frame.refl _ _, SupFrame.refl _ _⟩
  | cons c cs ih =>
    simp only [sendCoins, List.foldlM] at h
    obtain ⟨b1, h1, h⟩ := bind_ok h
    have f1 := send_frame h1
    have f2 := ih h
    exact ⟨f1.1.trans f2.1, f1.2.trans f2.2⟩

/-! ## handlers: what a successful message may change -/

theorem claim_ok {s s1 : St} {u : Addr} {v : Val} {t : Coins} (h : claimRewards s u v = .ok (s1, t)) :
    claimable s u v = .ok t ∧ sendCoins s.bank (saver v) u t = .ok s1.bank
    ∧ s1.mult = s.mult ∧ s1.hasMult = s.hasMult ∧ s1.unb = s.unb ∧ s1.nextId = s.nextId ∧ s1.sendOff = s.sendOff
    ∧ s1.received = s.received ∧ s1.paidOut = s.paidOut ∧ s1.claimed = addClaimed s.claimed v t
    ∧ s1.last = (fun u' v' d' => if u' = u ∧ v' = v ∧ s.hasMult v d' then s.mult v d' else s.last u' v' d') := by
  unfold claimRewards at h
  obtain ⟨t', h1, h⟩ := bind_ok h
  obtain ⟨b, h2, h⟩ := bind_ok h
  simp only [Res.ok.injEq, Prod.mk.injEq] at h
  obtain ⟨e1, e2⟩ := h
  subst e2 e1
  exact ⟨h1, h2, rfl, rfl, rfl, rfl, rfl, rfl, rfl, rfl, rfl⟩

/-- Msg/NonVotingDelegate, when it succeeds: a claim, then only bank movements among the sender, the module accounts
    and the staking pool, supply changes only in fee/bond/this validator's share denom. -/
theorem delegate_ok {s s' : St} {u : Addr} {v : Val} {a : Int} {d : Denom} {x : StakeExt}
    (h : delegate s u v a d x = .ok s') :
    ∃ s1 t, claimRewards s u v = .ok (s1, t)
      ∧ Frame [u, moduleAcc, Convert.moduleAcc, "module:bonded_pool"] s1.bank s'.bank
      ∧ SupFrame [feeDenom, bondDenom, shareDenom v] s1.bank s'.bank
      ∧ s'.mult = s1.mult ∧ s'.hasMult = s1.hasMult ∧ s'.last = s1.last ∧ s'.unb = s1.unb ∧ s'.nextId = s1.nextId
      ∧ s'.received = s1.received ∧ s'.claimed = s1.claimed ∧ s'.paidOut = s1.paidOut
      ∧ s'.sendOff (shareDenom v) = true ∧ (∀ d', s1.sendOff d' = true → s'.sendOff d' = true) := by
  unfold delegate at h
  by_cases hd : d ≠ feeDenom
  · simp [hd] at h
  simp only [hd, if_false] at h
  obtain ⟨⟨s1, t⟩, hc, h⟩ := bind_ok h
  obtain ⟨share, hs, h⟩ := bind_ok h
  by_cases ha : a < 0
  · simp [ha] at h
  simp only [ha, if_false] at h
  obtain ⟨b1, h1, h⟩ := bind_ok h
  obtain ⟨b2, h2, h⟩ := bind_ok h
  by_cases hk : x.stakeOk
  swap
  · simp [hk] at h
  simp only [hk, Bool.not_true, Bool.false_eq_true, if_false] at h
  obtain ⟨b3, h3, h⟩ := bind_ok h
  by_cases hsh : share < 0
  · simp [hsh] at h
  simp only [hsh, if_false] at h
  obtain ⟨b5, h5, h⟩ := bind_ok h
  obtain ⟨b6, h6, h⟩ := bind_ok h
  simp only [Res.ok.injEq] at h
  subst h
  have f1 := send_frame h1
  have f2 := swap_frame h2
  have f3 := send_frame h3
  have f4 := creditCoins_frame x.hook b3 moduleAcc
  have f5 := mint_frame h5
  have f6 := send_frame h6
  refine ⟨s1, t, hc, ?_, ?_, rfl, rfl, rfl, rfl, rfl, rfl, rfl, rfl, by simp, ?_⟩
  · exact (((f1.1.mono (by simp)).trans (f2.1.mono (by simp))).trans ((f3.1.mono (by simp)).trans (f4.1.mono (by simp)))).trans
      ((f5.1.mono (by simp)).trans (f6.1.mono (by simp)))
  · exact (((f1.2.mono (by simp)).trans (f2.2.mono (by simp [Convert.convertReverse]))).trans ((f3.2.mono (by simp)).trans (f4.2.mono (by simp)))).trans
      ((f5.2.mono (by simp)).trans (f6.2.mono (by simp)))
  · intro d' hd'
    by_cases e : d' = shareDenom v <;> simp [e, hd']

/-- Msg/NonVotingUndelegate, when it succeeds: a claim, the sender's shares burnt, one queue entry appended. -/
theorem undelegate_ok {s s' : St} {u : Addr} {v : Val} {a : Int} {rc : Addr} {x : StakeExt}
    (h : undelegate s u v a rc x = .ok s') :
    ∃ s1 t, claimRewards s u v = .ok (s1, t)
      ∧ Frame [u, moduleAcc] s1.bank s'.bank ∧ SupFrame [shareDenom v] s1.bank s'.bank
      ∧ s'.mult = s1.mult ∧ s'.hasMult = s1.hasMult ∧ s'.last = s1.last
      ∧ s'.unb = s1.unb ++ [⟨s1.nextId, rc, a, x.completion⟩] ∧ s'.nextId = s1.nextId + 1
      ∧ s'.received = s1.received ∧ s'.claimed = s1.claimed ∧ s'.paidOut = s1.paidOut ∧ s'.sendOff = s1.sendOff
      ∧ 0 < a := by
  unfold undelegate at h
  by_cases ha : a ≤ 0
  · simp [ha] at h
  simp only [ha, if_false] at h
  obtain ⟨⟨s1, t⟩, hc, h⟩ := bind_ok h
  obtain ⟨share, hs, h⟩ := bind_ok h
  by_cases hsh : share < 0
  · simp [hsh] at h
  simp only [hsh, if_false] at h
  obtain ⟨b1, h1, h⟩ := bind_ok h
  obtain ⟨b2, h2, h⟩ := bind_ok h
  by_cases hk : x.stakeOk
  swap
  · simp [hk] at h
  simp only [hk, Bool.not_true, Bool.false_eq_true, if_false, Res.ok.injEq] at h
  subst h
  have f1 := send_frame h1
  have f2 := burn_frame h2
  have f3 := creditCoins_frame x.hook b2 moduleAcc
  refine ⟨s1, t, hc, ?_, ?_, rfl, rfl, rfl, rfl, rfl, rfl, rfl, rfl, rfl, by omega⟩
  · exact ((f1.1.mono (by simp)).trans (f2.1.mono (by simp))).trans (f3.1.mono (by simp))
  · exact ((f1.2.mono (by simp)).trans (f2.2.mono (by simp))).trans (f3.2.mono (by simp))

/-! ## state-machine theorems -/

/-- A rejected message changes nothing at all (so one user's failing message cannot affect anybody). -/
theorem step_atomic (s : St) (op : Op) (u : Addr) (v : Val) (hop : op.sender = some (u, v))
    (hfail : (step s op).2.cls ≠ "ok") : (step s op).1 = s := by
  cases op with
  | delegate u' v' a d x =>
    simp only [step] at hfail ⊢
    cases hr : delegate s u' v' a d x <;> simp_all
  | undelegate u' v' a rc x =>
    simp only [step] at hfail ⊢
    cases hr : undelegate s u' v' a rc x <;> simp_all
  | claim u' v' =>
    simp only [step] at hfail ⊢
    cases hr : claimRewards s u' v' <;> simp_all
  | block _ _ _ => simp [Op.sender] at hop

/-- what every message leaves alone: multipliers, other users' checkpoints, other accounts' balances -/
theorem message_frame (s : St) (op : Op) (u : Addr) (v : Val) (hop : op.sender = some (u, v)) :
    (step s op).1.mult = s.mult ∧ (step s op).1.hasMult = s.hasMult
    ∧ (∀ w, w ≠ u → (step s op).1.last w = s.last w)
    ∧ Frame (touched u v) s.bank (step s op).1.bank := by
  have claimFrame : ∀ {s1 : St} {t : Coins}, claimRewards s u v = .ok (s1, t) →
      s1.mult = s.mult ∧ s1.hasMult = s.hasMult ∧ (∀ w, w ≠ u → s1.last w = s.last w) ∧ Frame (touched u v) s.bank s1.bank := by
    intro s1 t hc
    obtain ⟨_, hs, hm, hh, _, _, _, _, _, _, hl⟩ := claim_ok hc
    refine ⟨hm, hh, ?_, (sendCoins_frame t hs).1.mono (by simp [touched])⟩
    intro w hw
    rw [hl]
    funext v' d'
    simp [hw]
  cases op with
  | delegate u' v' a d x =>
    simp only [Op.sender, Option.some.injEq, Prod.mk.injEq] at hop
    obtain ⟨rfl, rfl⟩ := hop
    simp only [step]
    cases hr : delegate s u' v' a d x with
    | ok s' =>
      obtain ⟨s1, t, hc, hf, _, hm, hh, hl, _⟩ := delegate_ok hr
      obtain ⟨cm, ch, cl, cf⟩ := claimFrame hc
      exact ⟨hm.trans cm, hh.trans ch, fun w hw => by rw [hl]; exact cl w hw, cf.trans (hf.mono (by simp [touched]))⟩
    | err c => exact ⟨rfl, rfl, fun _ _ => rfl, Frame.refl _ _⟩
    | panic k => exact ⟨rfl, rfl, fun _ _ => rfl, Frame.refl _ _⟩
  | undelegate u' v' a rc x =>
    simp only [Op.sender, Option.some.injEq, Prod.mk.injEq] at hop
    obtain ⟨rfl, rfl⟩ := hop
    simp only [step]
    cases hr : undelegate s u' v' a rc x with
    | ok s' =>
      obtain ⟨s1, t, hc, hf, _, hm, hh, hl, _⟩ := undelegate_ok hr
      obtain ⟨cm, ch, cl, cf⟩ := claimFrame hc
      exact ⟨hm.trans cm, hh.trans ch, fun w hw => by rw [hl]; exact cl w hw, cf.trans (hf.mono (by simp [touched]))⟩
    | err c => exact ⟨rfl, rfl, fun _ _ => rfl, Frame.refl _ _⟩
    | panic k => exact ⟨rfl, rfl, fun _ _ => rfl, Frame.refl _ _⟩
  | claim u' v' =>
    simp only [Op.sender, Option.some.injEq, Prod.mk.injEq] at hop
    obtain ⟨rfl, rfl⟩ := hop
    simp only [step]
    cases hr : claimRewards s u' v' with
    | ok r =>
      obtain ⟨s1, t⟩ := r
      exact claimFrame hr
    | err c => exact ⟨rfl, rfl, fun _ _ => rfl, Frame.refl _ _⟩
    | panic k => exact ⟨rfl, rfl, fun _ _ => rfl, Frame.refl _ _⟩
  | block _ _ _ => simp [Op.sender] at hop

/-- no_cross_blocking: whatever message user `u` sends (accepted or rejected), any other account `w` that is not a
    module account keeps its share balances, its checkpoints and therefore exactly the same claimable reward at
    every validator and denom. -/
theorem no_cross_blocking (s : St) (op : Op) (u : Addr) (v : Val) (hop : op.sender = some (u, v))
    (w : Addr) (hw : w ∉ touched u v) (v' : Val) (d : Denom) :
    claimableByDenom (step s op).1 w v' d = claimableByDenom s w v' d
    ∧ (step s op).1.bank.bal w (shareDenom v') = s.bank.bal w (shareDenom v') := by
  obtain ⟨hm, _, hl, hf⟩ := message_frame s op u v hop
  have hwu : w ≠ u := by
    intro e; apply hw; simp [touched, e]
  have hb := hf w hw (shareDenom v')
  refine ⟨?_, hb⟩
  simp only [claimableByDenom, hm, hl w hwu, hb]

/-- store well-formedness: a checkpoint exists only where a multiplier exists (absent entries read as 0) -/
def WF (s : St) : Prop := ∀ v d, s.hasMult v d = false → s.mult v d = D34.zero ∧ ∀ u, s.last u v d = D34.zero

/-- after a successful claim the claimer's checkpoint equals the multiplier in EVERY denom (the S10 fix) -/
theorem claim_checkpoint {s s1 : St} {u : Addr} {v : Val} {t : Coins} (hwf : WF s)
    (h : claimRewards s u v = .ok (s1, t)) : ∀ d, s1.last u v d = s1.mult v d := by
  obtain ⟨_, _, hm, _, _, _, _, _, _, _, hl⟩ := claim_ok h
  intro d
  rw [hl, hm]
  cases hh : s.hasMult v d with
  | true => simp [hh]
  | false =>
    obtain ⟨h1, h2⟩ := hwf v d hh
    simp [hh, h1, h2 u]

/-- with checkpoint = multiplier in every denom a claim succeeds and pays nothing -/
theorem claim_zero_of_checkpoint (s : St) (u : Addr) (v : Val) (h : ∀ d, s.last u v d = s.mult v d) :
    ∃ s', claimRewards s u v = .ok (s', []) := by
  have hz : ∀ d, claimableByDenom s u v d = 0 := by
    intro d
    simp only [claimableByDenom, h d]
    exact reward_zero_of_no_accrual _ _
  have hc : claimable s u v = .ok [] := by
    simp only [claimable, rewardDenoms, List.foldlM, hz]
    by_cases h1 : s.bank.bal (saver v) feeDenom ≤ 0 <;> by_cases h2 : s.bank.bal (saver v) bondDenom ≤ 0 <;>
      simp [h1, h2, bind, Res.bind, pure]
  simp only [claimRewards, hc, Res.bind, sendCoins, List.foldlM, pure]
  exact ⟨_, rfl⟩

/-- messages of other users keep `checkpoint = multiplier` of user `u` -/
theorem checkpoint_kept (s : St) (op : Op) (w : Addr) (v' : Val) (hop : op.sender = some (w, v')) (u : Addr) (hne : u ≠ w)
    (v : Val) (h : ∀ d, s.last u v d = s.mult v d) : ∀ d, (step s op).1.last u v d = (step s op).1.mult v d := by
  obtain ⟨hm, _, hl, _⟩ := message_frame s op w v' hop
  intro d
  rw [hm, hl u hne]
  exact h d

/-- second_claim_zero: after a successful claim of `u` at `v`, and after ANY sequence of messages of other users
    (no block in between, so no new reward), a further claim of `u` at `v` succeeds and pays nothing. -/
theorem second_claim_zero (s : St) (hwf : WF s) (u : Addr) (v : Val) (s1 : St) (t : Coins)
    (h1 : claimRewards s u v = .ok (s1, t))
    (ops : List Op) (hops : ∀ op ∈ ops, ∃ w v', op.sender = some (w, v') ∧ w ≠ u) :
    ∃ s2, claimRewards (run s1 ops) u v = .ok (s2, []) := by
  have hk : ∀ (ops : List Op) (s : St), (∀ op ∈ ops, ∃ w v', op.sender = some (w, v') ∧ w ≠ u) →
      (∀ d, s.last u v d = s.mult v d) → ∀ d, (run s ops).last u v d = (run s ops).mult v d := by
    intro ops
    induction ops with
    | nil => intro s _ h; exact h
    | cons op ops ih =>
      intro s hops h
      obtain ⟨w, v', hs, hne⟩ := hops op (by simp)
      simp only [run]
      exact ih _ (fun o ho => hops o (by simp [ho])) (checkpoint_kept s op w v' hs u (fun e => hne e.symm) v h)
  exact claim_zero_of_checkpoint _ u v (hk ops s1 hops (claim_checkpoint hwf h1))

/-! ### the end-blocker -/

/-- the garbage collector touches only the bank, the queue and the paid-out ledger; it pays an entry only if its
    completion time has been reached (never early — the S9 fix), exactly its amount, and removes it. -/
theorem gc_ok (now : Int) (l : List Unb) : ∀ (s s' : St), gc now l s = .ok s' →
    s'.mult = s.mult ∧ s'.hasMult = s.hasMult ∧ s'.last = s.last ∧ s'.received = s.received ∧ s'.claimed = s.claimed
    ∧ s'.nextId = s.nextId ∧ s'.sendOff = s.sendOff
    ∧ SupFrame [feeDenom, bondDenom] s.bank s'.bank
    ∧ (∀ i, s'.paidOut i ≠ s.paidOut i → ∃ e ∈ l, e.id = i ∧ e.completion ≤ now)
    ∧ (∀ x ∈ s'.unb, x ∈ s.unb) := by
  induction l with
  | nil =>
    intro s s' h
    simp only [gc, Res.ok.injEq] at h
    subst h
    exact ⟨rfl, rfl, rfl, rfl, rfl, rfl, rfl, SupFrame.refl _ _, fun i hi => absurd rfl hi, fun x hx => hx⟩
  | cons e rest ih =>
    intro s s' h
    simp only [gc] at h
    by_cases h1 : unixSec e.completion > unixSec now
    · simp only [h1, if_true, Res.ok.injEq] at h
      subst h
      exact ⟨rfl, rfl, rfl, rfl, rfl, rfl, rfl, SupFrame.refl _ _, fun i hi => absurd rfl hi, fun x hx => hx⟩
    · simp only [h1, if_false] at h
      by_cases h2 : e.completion > now
      · simp only [h2, if_true] at h
        obtain ⟨a1, a2, a3, a4, a5, a6, a7, a8, a9, a10⟩ := ih s s' h
        refine ⟨a1, a2, a3, a4, a5, a6, a7, a8, ?_, a10⟩
        intro i hi
        obtain ⟨x, hx, hxi⟩ := a9 i hi
        exact ⟨x, by simp [hx], hxi⟩
      · simp only [h2, if_false] at h
        cases hb : withdrawUnbonded s.bank e with
        | err _ | panic _ =>
          -- a payout that fails is skipped: the collector goes on with the unchanged state
          rw [hb] at h
          obtain ⟨a1, a2, a3, a4, a5, a6, a7, a8, a9, a10⟩ := ih s s' h
          refine ⟨a1, a2, a3, a4, a5, a6, a7, a8, ?_, a10⟩
          intro i hi
          obtain ⟨x, hx, hxi⟩ := a9 i hi
          exact ⟨x, by simp [hx], hxi⟩
        | ok b =>
          rw [hb] at h
          obtain ⟨a1, a2, a3, a4, a5, a6, a7, a8, a9, a10⟩ := ih _ s' h
          simp only at a1 a2 a3 a4 a5 a6 a7 a8 a9 a10
          have hsup : SupFrame [feeDenom, bondDenom] s.bank b := by
            unfold withdrawUnbonded at hb
            obtain ⟨b1, hb1, hb2⟩ := bind_ok hb
            have f1 := swap_frame hb1
            have f2 := send_frame hb2
            exact (f1.2.mono (by simp [Convert.convert])).trans (f2.2.mono (by simp))
          refine ⟨a1, a2, a3, a4, a5, a6, a7, hsup.trans a8, ?_, ?_⟩
          · intro i hi
            by_cases hie : i = e.id
            · exact ⟨e, by simp, hie.symm, by omega⟩
            · have : s'.paidOut i ≠ (if i = e.id then s.paidOut i + e.amount else s.paidOut i) := by simpa [hie] using hi
              obtain ⟨x, hx, hxi⟩ := a9 i this
              exact ⟨x, by simp [hx], hxi⟩
          · intro x hx
            have := a10 x hx
            exact (List.mem_filter.1 this).1

/-! ### the end-blocker cannot stop the chain

  `GarbageCollectUnbonded` runs every payout on a branch of the state; a payout that cannot be made (staking released
  fewer bond tokens than recorded after a slash, or the bank refuses to credit the recipient) is dropped and logged,
  its record stays.  Hence the collector, the end-blocker and a `.block` step are TOTAL: for every state whatsoever
  (no reachability hypothesis) and every boundary input they answer "ok". -/

theorem gc_total (now : Int) (l : List Unb) : ∀ s : St, ∃ s', gc now l s = .ok s' := by
  induction l with
  | nil => intro s; exact ⟨s, rfl⟩
  | cons e rest ih =>
    intro s
    simp only [gc]
    by_cases h1 : unixSec e.completion > unixSec now
    · simp only [h1, if_true]; exact ⟨s, rfl⟩
    · simp only [h1, if_false]
      by_cases h2 : e.completion > now
      · simp only [h2, if_true]; exact ih s
      · simp only [h2, if_false]
        cases withdrawUnbonded s.bank e with
        | ok b => exact ih _
        | err _ | panic _ => exact ih s

/-- the share-class end-blocker never fails, whatever the state, the time, the tokens staking released and the
    rewards distribution paid -/
theorem endBlock_total (s : St) (now m : Int) (rw : List (Val × Coins)) : ∃ s', endBlock s now m rw = .ok s' :=
  gc_total now _ _

/-- no_halt: a block step never answers "halt" — for EVERY state and every input -/
theorem block_never_halts (s : St) (now m : Int) (rw : List (Val × Coins)) : (step s (.block now m rw)).2.cls = "ok" := by
  obtain ⟨s', h⟩ := endBlock_total s now m rw
  simp only [step, h]

theorem wf_update (s : St) (hwf : WF s) (v : Val) (d : Denom) (m : D34) (b : Bank) (r : Val → Denom → Int) :
    WF { s with bank := b, received := r,
                mult := fun v' d' => if v' = v ∧ d' = d then m else s.mult v' d',
                hasMult := fun v' d' => if v' = v ∧ d' = d then true else s.hasMult v' d' } := by
  intro v' d' h
  by_cases hk : v' = v ∧ d' = d
  · simp [hk] at h
  · simp only [hk, if_false] at h ⊢
    exact hwf v' d' h

theorem handleRewards_wf (s : St) (hwf : WF s) (v : Val) (coins : Coins) : WF (handleRewards s v coins) := by
  unfold handleRewards
  by_cases h0 : coins.all (fun c => c.2 = 0) = true
  · simp only [h0, if_true]; exact hwf
  simp only [h0]
  cases hs : sendCoins (creditCoins s.bank moduleAcc coins) moduleAcc (saver v) coins with
  | ok b1 =>
    simp only [Bool.false_eq_true, if_false]
    by_cases ht : b1.sup (shareDenom v) = 0
    · simp only [ht, if_true]; exact hwf
    · simp only [ht, if_false]
      have key : ∀ (cs : Coins) (s0 : St), WF s0 → WF (cs.foldl (fun s c =>
          { s with mult := fun v' d' => if v' = v ∧ d' = c.1 then D34.reparse (CalculateRewardMultiplierNew (s.mult v c.1) c.2 (b1.sup (shareDenom v))) else s.mult v' d',
                   hasMult := fun v' d' => if v' = v ∧ d' = c.1 then true else s.hasMult v' d' }) s0) := by
        intro cs
        induction cs with
        | nil => intro s0 h; exact h
        | cons c cs ih =>
          intro s0 h
          simp only [List.foldl]
          exact ih _ (wf_update s0 h v c.1 _ s0.bank s0.received)
      exact key coins _ hwf
  | err c => simp only [Bool.false_eq_true, if_false]; exact hwf
  | panic k => simp only [Bool.false_eq_true, if_false]; exact hwf

/-- WF is an invariant of every operation -/
theorem wf_step (s : St) (op : Op) (hwf : WF s) : WF (step s op).1 := by
  have wf_claim : ∀ {u v s1 t}, claimRewards s u v = .ok (s1, t) → WF s1 := by
    intro u v s1 t hc
    obtain ⟨_, _, hm, hh, _, _, _, _, _, _, hl⟩ := claim_ok hc
    intro v' d' h
    rw [hh] at h
    obtain ⟨h1, h2⟩ := hwf v' d' h
    refine ⟨by rw [hm]; exact h1, fun w => ?_⟩
    rw [hl]
    by_cases hk : w = u ∧ v' = v ∧ s.hasMult v d' = true
    · obtain ⟨_, rfl, hx⟩ := hk
      rw [h] at hx; exact absurd hx (by simp)
    · simp only [hk, if_false]; exact h2 w
  cases op with
  | delegate u v a d x =>
    simp only [step]
    cases hr : delegate s u v a d x with
    | ok s' =>
      obtain ⟨s1, t, hc, _, _, hm, hh, hl, _⟩ := delegate_ok hr
      have := wf_claim hc
      intro v' d' h
      rw [hh] at h
      rw [hm, hl]; exact this v' d' h
    | err c => exact hwf
    | panic k => exact hwf
  | undelegate u v a rc x =>
    simp only [step]
    cases hr : undelegate s u v a rc x with
    | ok s' =>
      obtain ⟨s1, t, hc, _, _, hm, hh, hl, _⟩ := undelegate_ok hr
      have := wf_claim hc
      intro v' d' h
      rw [hh] at h
      rw [hm, hl]; exact this v' d' h
    | err c => exact hwf
    | panic k => exact hwf
  | claim u v =>
    simp only [step]
    cases hr : claimRewards s u v with
    | ok r => obtain ⟨s1, t⟩ := r; exact wf_claim hr
    | err c => exact hwf
    | panic k => exact hwf
  | block now m rw =>
    simp only [step]
    cases hr : endBlock s now m rw with
    | ok s' =>
      unfold endBlock at hr
      have key : ∀ (l : List (Val × Coins)) (s0 : St), WF s0 → WF (l.foldl (fun s r => handleRewards s r.1 r.2) s0) := by
        intro l
        induction l with
        | nil => intro s0 h; exact h
        | cons r l ih => intro s0 h; exact ih _ (handleRewards_wf s0 h r.1 r.2)
      have h0 : WF { s with bank := s.bank.credit moduleAcc bondDenom m } := hwf
      have h1 := key rw _ h0
      obtain ⟨a1, a2, a3, _⟩ := gc_ok now _ _ s' hr
      intro v' d' h
      rw [a2] at h
      rw [a1, a3]; exact h1 v' d' h
    | err c => exact hwf
    | panic k => exact hwf

/-! ### reachable states -/

inductive Reachable (b0 : Bank) : St → Prop
  | init : Reachable b0 (St.init b0)
  | step (s : St) (op : Op) : Reachable b0 s → Reachable b0 (ShareClass.step s op).1

theorem wf_reachable (b0 : Bank) (s : St) (h : Reachable b0 s) : WF s := by
  induction h with
  | init => intro v d _; exact ⟨rfl, fun _ => rfl⟩
  | step s op _ ih => exact wf_step s op ih

/-- second_claim_zero on reachable states, at the level of `step`: the second claim is accepted and pays nothing -/
theorem second_claim_zero_reachable (b0 : Bank) (s : St) (hr : Reachable b0 s) (u : Addr) (v : Val)
    (h1 : (step s (.claim u v)).2.cls = "ok") :
    (step (step s (.claim u v)).1 (.claim u v)).2.cls = "ok" ∧ (step (step s (.claim u v)).1 (.claim u v)).2.paid = [] := by
  simp only [step] at h1 ⊢
  cases hc : claimRewards s u v with
  | ok r =>
    obtain ⟨s1, t⟩ := r
    obtain ⟨s2, h2⟩ := second_claim_zero s (wf_reachable b0 s hr) u v s1 t hc [] (by simp)
    simp only [run] at h2
    simp [h2]
  | err c => simp [hc, Res.cls] at h1
  | panic k => simp [hc, Res.cls] at h1

theorem shareDenom_ne_fee (v : Val) : shareDenom v ≠ feeDenom := by
  intro h
  have := congrArg String.toList h
  simp only [shareDenom, feeDenom, String.toList_append] at this
  have h2 : "share/".toList = ['s','h','a','r','e','/'] := by decide
  have h4 : "urise".toList = ['u','r','i','s','e'] := by decide
  rw [h2, h4] at this
  simp at this

theorem shareDenom_ne_bond (v : Val) : shareDenom v ≠ bondDenom := by
  intro h
  have := congrArg String.toList h
  simp only [shareDenom, bondDenom, String.toList_append] at this
  have h2 : "share/".toList = ['s','h','a','r','e','/'] := by decide
  have h4 : "uvrise".toList = ['u','v','r','i','s','e'] := by decide
  rw [h2, h4] at this
  simp at this

theorem handleRewards_sup (s : St) (v : Val) (coins : Coins) : (handleRewards s v coins).bank.sup = s.bank.sup := by
  unfold handleRewards
  by_cases h0 : coins.all (fun c => c.2 = 0) = true
  · simp only [h0, if_true]
  simp only [h0]
  have hc : (creditCoins s.bank moduleAcc coins).sup = s.bank.sup := by
    funext d; exact (creditCoins_frame coins s.bank moduleAcc).2 d (by simp)
  cases hs : sendCoins (creditCoins s.bank moduleAcc coins) moduleAcc (saver v) coins with
  | ok b1 =>
    simp only [Bool.false_eq_true, if_false]
    have hb : b1.sup = s.bank.sup := by
      funext d; rw [← hc]; exact (sendCoins_frame coins hs).2 d (by simp)
    by_cases ht : b1.sup (shareDenom v) = 0
    · simp only [ht, if_true]; exact hb
    · simp only [ht, if_false]
      have key : ∀ (cs : Coins) (s0 : St), (cs.foldl (fun s c =>
          { s with mult := fun v' d' => if v' = v ∧ d' = c.1 then D34.reparse (CalculateRewardMultiplierNew (s.mult v c.1) c.2 (b1.sup (shareDenom v))) else s.mult v' d',
                   hasMult := fun v' d' => if v' = v ∧ d' = c.1 then true else s.hasMult v' d' }) s0).bank = s0.bank := by
        intro cs
        induction cs with
        | nil => intro s0; rfl
        | cons c cs ih => intro s0; simp only [List.foldl]; rw [ih]
      rw [key]; exact hb
  | err c => simp only [Bool.false_eq_true, if_false]; exact hc
  | panic k => simp only [Bool.false_eq_true, if_false]; exact hc

/-- shares_only_delegate_undelegate: the supply of every share denom is changed by no operation other than a
    NonVotingDelegate / NonVotingUndelegate of that validator: not by claims, not by the end-blocker, not by messages at
    other validators. -/
theorem share_supply_only_delegate_undelegate (s : St) (op : Op) (v : Val)
    (hop : ∀ u a d x, op ≠ .delegate u v a d x) (hop2 : ∀ u a rc x, op ≠ .undelegate u v a rc x) :
    (step s op).1.bank.sup (shareDenom v) = s.bank.sup (shareDenom v) := by
  have claimSup : ∀ {u v' s1 t}, claimRewards s u v' = .ok (s1, t) → s1.bank.sup = s.bank.sup := by
    intro u v' s1 t hc
    obtain ⟨_, hs, _⟩ := claim_ok hc
    funext d; exact (sendCoins_frame t hs).2 d (by simp)
  cases op with
  | delegate u v' a d x =>
    simp only [step]
    cases hr : delegate s u v' a d x with
    | ok s' =>
      obtain ⟨s1, t, hc, _, hsf, _⟩ := delegate_ok hr
      have hne : v' ≠ v := fun e => hop u a d x (by rw [e])
      have : shareDenom v ∉ [feeDenom, bondDenom, shareDenom v'] := by
        simp only [List.mem_cons, List.not_mem_nil, or_false, not_or]
        refine ⟨shareDenom_ne_fee v, shareDenom_ne_bond v, ?_⟩
        intro e; exact hne ((String.append_right_inj _).1 e).symm
      show s'.bank.sup (shareDenom v) = _
      rw [hsf _ this, claimSup hc]
    | err c => rfl
    | panic k => rfl
  | undelegate u v' a rc x =>
    simp only [step]
    cases hr : undelegate s u v' a rc x with
    | ok s' =>
      obtain ⟨s1, t, hc, _, hsf, _⟩ := undelegate_ok hr
      have hne : v' ≠ v := fun e => hop2 u a rc x (by rw [e])
      have : shareDenom v ∉ [shareDenom v'] := by
        simp only [List.mem_cons, List.not_mem_nil, or_false]
        intro e; exact hne ((String.append_right_inj _).1 e).symm
      show s'.bank.sup (shareDenom v) = _
      rw [hsf _ this, claimSup hc]
    | err c => rfl
    | panic k => rfl
  | claim u v' =>
    simp only [step]
    cases hr : claimRewards s u v' with
    | ok r => obtain ⟨s1, t⟩ := r; show s1.bank.sup _ = _; rw [claimSup hr]
    | err c => rfl
    | panic k => rfl
  | block now m rw =>
    simp only [step]
    cases hr : endBlock s now m rw with
    | ok s' =>
      unfold endBlock at hr
      have key : ∀ (l : List (Val × Coins)) (s0 : St), (l.foldl (fun s r => handleRewards s r.1 r.2) s0).bank.sup = s0.bank.sup := by
        intro l
        induction l with
        | nil => intro s0; rfl
        | cons r l ih => intro s0; simp only [List.foldl]; rw [ih, handleRewards_sup]
      obtain ⟨_, _, _, _, _, _, _, hsf, _⟩ := gc_ok now _ _ s' hr
      show s'.bank.sup (shareDenom v) = _
      rw [hsf _ (by simp [shareDenom_ne_fee, shareDenom_ne_bond]), key]
      rfl
    | err c => rfl
    | panic k => rfl

theorem handleRewards_fields (s : St) (v : Val) (coins : Coins) :
    (handleRewards s v coins).sendOff = s.sendOff ∧ (handleRewards s v coins).last = s.last
    ∧ (handleRewards s v coins).unb = s.unb ∧ (handleRewards s v coins).nextId = s.nextId
    ∧ (handleRewards s v coins).claimed = s.claimed ∧ (handleRewards s v coins).paidOut = s.paidOut := by
  unfold handleRewards
  by_cases h0 : coins.all (fun c => c.2 = 0) = true
  · simp [h0]
  simp only [h0]
  cases hs : sendCoins (creditCoins s.bank moduleAcc coins) moduleAcc (saver v) coins with
  | ok b1 =>
    simp only [Bool.false_eq_true, if_false]
    by_cases ht : b1.sup (shareDenom v) = 0
    · simp [ht]
    · simp only [ht, if_false]
      have key : ∀ (cs : Coins) (s0 : St), let r := (cs.foldl (fun s c =>
          { s with mult := fun v' d' => if v' = v ∧ d' = c.1 then D34.reparse (CalculateRewardMultiplierNew (s.mult v c.1) c.2 (b1.sup (shareDenom v))) else s.mult v' d',
                   hasMult := fun v' d' => if v' = v ∧ d' = c.1 then true else s.hasMult v' d' }) s0)
          r.sendOff = s0.sendOff ∧ r.last = s0.last ∧ r.unb = s0.unb ∧ r.nextId = s0.nextId ∧ r.claimed = s0.claimed ∧ r.paidOut = s0.paidOut := by
        intro cs
        induction cs with
        | nil => intro s0; exact ⟨rfl, rfl, rfl, rfl, rfl, rfl⟩
        | cons c cs ih => intro s0; simp only [List.foldl]; exact ih _
      exact key coins _
  | err c => simp
  | panic k => simp

/-- share tokens are made non-transferable by the delegation that mints them, and no operation re-enables them -/
theorem share_not_transferable (s : St) (op : Op) :
    (∀ d, s.sendOff d = true → (step s op).1.sendOff d = true)
    ∧ (∀ u v a d x, op = .delegate u v a d x → (step s op).2.cls = "ok" → (step s op).1.sendOff (shareDenom v) = true) := by
  refine ⟨fun d hd => ?_, fun u v a d x e hok => ?_⟩
  · cases op with
    | delegate u v a d' x =>
      simp only [step]
      cases hr : delegate s u v a d' x with
      | ok s' =>
        obtain ⟨s1, t, hc, _, _, _, _, _, _, _, _, _, _, _, hmono⟩ := delegate_ok hr
        obtain ⟨_, _, _, _, _, _, hso, _⟩ := claim_ok hc
        exact hmono d (by rw [hso]; exact hd)
      | err c => exact hd
      | panic k => exact hd
    | undelegate u v a rc x =>
      simp only [step]
      cases hr : undelegate s u v a rc x with
      | ok s' =>
        obtain ⟨s1, t, hc, _, _, _, _, _, _, _, _, _, _, hso', _⟩ := undelegate_ok hr
        obtain ⟨_, _, _, _, _, _, hso, _⟩ := claim_ok hc
        show s'.sendOff d = true
        rw [hso', hso]; exact hd
      | err c => exact hd
      | panic k => exact hd
    | claim u v =>
      simp only [step]
      cases hr : claimRewards s u v with
      | ok r =>
        obtain ⟨s1, t⟩ := r
        obtain ⟨_, _, _, _, _, _, hso, _⟩ := claim_ok hr
        show s1.sendOff d = true
        rw [hso]; exact hd
      | err c => exact hd
      | panic k => exact hd
    | block now m rw =>
      simp only [step]
      cases hr : endBlock s now m rw with
      | ok s' =>
        unfold endBlock at hr
        have key : ∀ (l : List (Val × Coins)) (s0 : St), (l.foldl (fun s r => handleRewards s r.1 r.2) s0).sendOff = s0.sendOff := by
          intro l
          induction l with
          | nil => intro s0; rfl
          | cons r l ih =>
            intro s0; simp only [List.foldl]; rw [ih]
            exact (handleRewards_fields s0 r.1 r.2).1
        obtain ⟨_, _, _, _, _, _, hso, _⟩ := gc_ok now _ _ s' hr
        show s'.sendOff d = true
        rw [hso, key]; exact hd
      | err c => exact hd
      | panic k => exact hd
  · subst e
    simp only [step] at hok ⊢
    cases hr : delegate s u v a d x with
    | ok s' =>
      obtain ⟨s1, t, hc, _, _, _, _, _, _, _, _, _, _, hon, _⟩ := delegate_ok hr
      exact hon
    | err c => simp [hr, Res.cls] at hok
    | panic k => simp [hr, Res.cls] at hok

/-! ### unbondings are paid only when complete, and leave the queue when paid -/

theorem gc_paid_removed (now : Int) (l : List Unb) : ∀ (s s' : St), gc now l s = .ok s' →
    ∀ i, s'.paidOut i ≠ s.paidOut i → ∀ x ∈ s'.unb, x.id ≠ i := by
  induction l with
  | nil =>
    intro s s' h i hi
    simp only [gc, Res.ok.injEq] at h
    subst h; exact absurd rfl hi
  | cons e rest ih =>
    intro s s' h i hi
    simp only [gc] at h
    by_cases h1 : unixSec e.completion > unixSec now
    · simp only [h1, if_true, Res.ok.injEq] at h
      subst h; exact absurd rfl hi
    · simp only [h1, if_false] at h
      by_cases h2 : e.completion > now
      · simp only [h2, if_true] at h
        exact ih s s' h i hi
      · simp only [h2, if_false] at h
        cases hb : withdrawUnbonded s.bank e with
        | err _ | panic _ =>
          rw [hb] at h
          exact ih s s' h i hi
        | ok b =>
          rw [hb] at h
          by_cases hie : i = e.id
          · intro x hx
            have hx2 := (gc_ok now rest _ s' h).2.2.2.2.2.2.2.2.2 x hx
            simp only [List.mem_filter, decide_eq_true_eq] at hx2
            rw [hie]; exact hx2.2
          · have : s'.paidOut i ≠ (if i = e.id then s.paidOut i + e.amount else s.paidOut i) := by simpa [hie] using hi
            exact ih _ s' h i this

theorem mem_insertIdx (u x : Unb) (l : List Unb) : x ∈ insertIdx u l → x = u ∨ x ∈ l := by
  induction l with
  | nil => intro h; simp [insertIdx] at h; exact Or.inl h
  | cons y ys ih =>
    intro h
    simp only [insertIdx] at h
    split at h
    · simp only [List.mem_cons] at h ⊢; tauto
    · simp only [List.mem_cons] at h ⊢
      rcases h with h | h
      · exact Or.inr (Or.inl h)
      · rcases ih h with h | h
        · exact Or.inl h
        · exact Or.inr (Or.inr h)

theorem mem_sortIdx (x : Unb) (l : List Unb) : x ∈ sortIdx l → x ∈ l := by
  induction l with
  | nil => intro h; simpa [sortIdx] using h
  | cons y ys ih =>
    intro h
    simp only [sortIdx, List.foldr] at h
    rcases mem_insertIdx _ _ _ h with h | h
    · simp [h]
    · exact List.mem_cons_of_mem _ (ih h)

/-- undelegate_paid_once (partial): an end-block at time `now` pays an unbonding only if it is in the queue and
    `completion ≤ now` (never early, whatever the sub-second offsets), and every entry it pays is removed from the
    queue, so it cannot be paid a second time.  (`undelegate_paid_exact` below adds: it is paid exactly its recorded
    amount.)

    The hypothesis `endBlock … = .ok s'` only NAMES the end-blocker's result: since the end-blocker skips a payout that
    cannot be made instead of failing, it is satisfiable for every state and every input (`endBlock_total`), so the
    statement is about every block.  What `.ok` does NOT say (and never said in this statement) is that every due
    entry IS paid: that needs the staking boundary hypothesis — when the collector reaches the entry the module account
    holds at least its amount in bond tokens (staking released everything the queue recorded) and the bank accepts the
    recipient.  Without it the entry is kept and tried again in the next block (`endBlock_unpaid_kept`,
    Witness/C10.lean `endblock_skips_when_staking_releases_less`). -/
theorem undelegate_paid_once_partial (s s' : St) (now m : Int) (rw : List (Val × Coins))
    (hok : endBlock s now m rw = .ok s') (i : Nat) (hi : s'.paidOut i ≠ s.paidOut i) :
    (∃ e ∈ s.unb, e.id = i ∧ e.completion ≤ now) ∧ (∀ x ∈ s'.unb, x.id ≠ i) := by
  unfold endBlock at hok
  have key : ∀ (l : List (Val × Coins)) (s0 : St),
      (l.foldl (fun s r => handleRewards s r.1 r.2) s0).unb = s0.unb ∧ (l.foldl (fun s r => handleRewards s r.1 r.2) s0).paidOut = s0.paidOut := by
    intro l
    induction l with
    | nil => intro s0; exact ⟨rfl, rfl⟩
    | cons r l ih =>
      intro s0; simp only [List.foldl]
      obtain ⟨_, _, hu, _, _, hp⟩ := handleRewards_fields s0 r.1 r.2
      rw [(ih _).1, (ih _).2, hu, hp]; exact ⟨rfl, rfl⟩
  obtain ⟨ku, kp⟩ := key rw { s with bank := s.bank.credit moduleAcc bondDenom m }
  have hi' : s'.paidOut i ≠ (rw.foldl (fun s r => handleRewards s r.1 r.2) { s with bank := s.bank.credit moduleAcc bondDenom m }).paidOut i := by
    rw [kp]; exact hi
  refine ⟨?_, gc_paid_removed now _ _ s' hok i hi'⟩
  obtain ⟨e, he, h1, h2⟩ := (gc_ok now _ _ s' hok).2.2.2.2.2.2.2.2.1 i hi'
  exact ⟨e, by rw [ku] at he; exact mem_sortIdx e _ he, h1, h2⟩

/-! ### a payout that cannot be made: the entry stays, nobody is paid for it -/

theorem insertIdx_perm (u : Unb) (l : List Unb) : (insertIdx u l).Perm (u :: l) := by
  induction l with
  | nil => exact List.Perm.refl _
  | cons x xs ih =>
    simp only [insertIdx]
    split
    · exact List.Perm.refl _
    · exact (List.Perm.cons x ih).trans (List.Perm.swap u x xs)

theorem sortIdx_perm (l : List Unb) : (sortIdx l).Perm l := by
  induction l with
  | nil => exact List.Perm.refl _
  | cons y ys ih =>
    simp only [sortIdx, List.foldr]
    exact (insertIdx_perm y _).trans (List.Perm.cons y ih)

/-- gc_unpaid_kept: after the collector ran over `l`, every entry of the queue is EITHER still in the queue OR was paid
    exactly its recorded amount in this run.  So an entry whose payout failed (or that is not yet due) is not lost,
    and nothing is paid for it.  Well-formedness: the ids of `l` are pairwise distinct and an id names the same entry
    in `l` and in the queue (for the end-blocker `l` is the queue in index order: `endBlock_unpaid_kept`). -/
theorem gc_unpaid_kept (now : Int) (l : List Unb) : ∀ (s s' : St), gc now l s = .ok s' →
    (l.map (·.id)).Nodup → (∀ x ∈ s.unb, ∀ y ∈ l, x.id = y.id → x = y) →
    ∀ e ∈ s.unb, e ∈ s'.unb ∨ s'.paidOut e.id = s.paidOut e.id + e.amount := by
  induction l with
  | nil =>
    intro s s' h _ _ x hx
    simp only [gc, Res.ok.injEq] at h
    subst h; exact Or.inl hx
  | cons e rest ih =>
    intro s s' h hnd hinj x hx
    simp only [List.map, List.nodup_cons] at hnd
    have hinj' : ∀ x ∈ s.unb, ∀ y ∈ rest, x.id = y.id → x = y :=
      fun x hx y hy => hinj x hx y (List.mem_cons_of_mem _ hy)
    simp only [gc] at h
    by_cases h1 : unixSec e.completion > unixSec now
    · simp only [h1, if_true, Res.ok.injEq] at h
      subst h; exact Or.inl hx
    · simp only [h1, if_false] at h
      by_cases h2 : e.completion > now
      · simp only [h2, if_true] at h
        exact ih s s' h hnd.2 hinj' x hx
      · simp only [h2, if_false] at h
        cases hb : withdrawUnbonded s.bank e with
        | err _ | panic _ =>
          rw [hb] at h
          exact ih s s' h hnd.2 hinj' x hx
        | ok b =>
          rw [hb] at h
          by_cases hxe : x.id = e.id
          · have hxe' : x = e := hinj x hx e (by simp) hxe
            subst hxe'
            refine Or.inr ?_
            have hkeep : s'.paidOut x.id = (if x.id = x.id then s.paidOut x.id + x.amount else s.paidOut x.id) := by
              by_contra hne
              obtain ⟨y, hy, hyi, _⟩ := (gc_ok now rest _ s' h).2.2.2.2.2.2.2.2.1 x.id hne
              exact hnd.1 (List.mem_map.2 ⟨y, hy, hyi⟩)
            simpa using hkeep
          · have hx1 : x ∈ s.unb.filter (fun z => z.id ≠ e.id) := by simp [hx, hxe]
            rcases ih _ s' h hnd.2 (fun a ha y hy => hinj' a (List.mem_filter.1 ha).1 y hy) x hx1 with h' | h'
            · exact Or.inl h'
            · exact Or.inr (by simpa [hxe] using h')

theorem handleRewards_foldl_fields (l : List (Val × Coins)) : ∀ (s0 : St),
    (l.foldl (fun s r => handleRewards s r.1 r.2) s0).unb = s0.unb
    ∧ (l.foldl (fun s r => handleRewards s r.1 r.2) s0).paidOut = s0.paidOut
    ∧ (l.foldl (fun s r => handleRewards s r.1 r.2) s0).nextId = s0.nextId := by
  induction l with
  | nil => intro s0; exact ⟨rfl, rfl, rfl⟩
  | cons r l ih =>
    intro s0; simp only [List.foldl]
    obtain ⟨_, _, hu, hn, _, hp⟩ := handleRewards_fields s0 r.1 r.2
    rw [(ih _).1, (ih _).2.1, (ih _).2.2, hu, hp, hn]; exact ⟨rfl, rfl, rfl⟩

theorem ids_inj (l : List Unb) (h : (l.map (·.id)).Nodup) : ∀ x ∈ l, ∀ y ∈ l, x.id = y.id → x = y := by
  induction l with
  | nil => intro x hx; simp at hx
  | cons a as ih =>
    simp only [List.map, List.nodup_cons] at h
    intro x hx y hy hxy
    rcases List.mem_cons.1 hx with hxa | hxa
    · rcases List.mem_cons.1 hy with hya | hya
      · rw [hxa, hya]
      · exact (h.1 (List.mem_map.2 ⟨y, hya, by rw [← hxy, hxa]⟩)).elim
    · rcases List.mem_cons.1 hy with hya | hya
      · exact (h.1 (List.mem_map.2 ⟨x, hxa, by rw [hxy, hya]⟩)).elim
      · exact ih h.2 x hxa y hya hxy

/-- the same for a whole end-block: if the ids in the queue are pairwise distinct (`ids_reachable`: they are, in every
    reachable state), every queued unbonding is after the block either still queued or paid exactly its amount. -/
theorem endBlock_unpaid_kept (s s' : St) (now m : Int) (rw : List (Val × Coins))
    (hok : endBlock s now m rw = .ok s') (hids : (s.unb.map (·.id)).Nodup) :
    ∀ e ∈ s.unb, e ∈ s'.unb ∨ s'.paidOut e.id = s.paidOut e.id + e.amount := by
  unfold endBlock at hok
  obtain ⟨ku, kp, _⟩ := handleRewards_foldl_fields rw { s with bank := s.bank.credit moduleAcc bondDenom m }
  have hperm := sortIdx_perm s.unb
  have hinjU : ∀ x ∈ s.unb, ∀ y ∈ s.unb, x.id = y.id → x = y :=
    fun x hx y hy => ids_inj s.unb hids x hx y hy
  intro e he
  have := gc_unpaid_kept now _ _ s' hok
    (by rw [ku]; exact (List.Perm.nodup_iff (hperm.map _)).2 hids)
    (by rw [ku]; exact fun x hx y hy => hinjU x hx y (mem_sortIdx y _ hy))
    e (by rw [ku]; exact he)
  rw [kp] at this
  exact this

/-- undelegate_paid_exact: an unbonding the end-block pays is paid EXACTLY its recorded amount (and, by
    `undelegate_paid_once_partial`, only at or after its completion time, and it leaves the queue). -/
theorem undelegate_paid_exact (s s' : St) (now m : Int) (rw : List (Val × Coins))
    (hok : endBlock s now m rw = .ok s') (hids : (s.unb.map (·.id)).Nodup) (i : Nat) (hi : s'.paidOut i ≠ s.paidOut i) :
    ∃ e ∈ s.unb, e.id = i ∧ e.completion ≤ now ∧ s'.paidOut i = s.paidOut i + e.amount ∧ e ∉ s'.unb := by
  obtain ⟨⟨e, he, hei, hc⟩, hrem⟩ := undelegate_paid_once_partial s s' now m rw hok i hi
  have hne : e ∉ s'.unb := fun h => hrem e h hei
  rcases endBlock_unpaid_kept s s' now m rw hok hids e he with h | h
  · exact absurd h hne
  · exact ⟨e, he, hei, hc, by rw [← hei]; exact h, hne⟩

/-! ### queue ids are unique in every reachable state -/

/-- the ids in the queue are pairwise distinct and below the id counter -/
def IdsWF (s : St) : Prop := (s.unb.map (·.id)).Nodup ∧ ∀ e ∈ s.unb, e.id < s.nextId

theorem gc_sublist (now : Int) (l : List Unb) : ∀ (s s' : St), gc now l s = .ok s' → s'.unb.Sublist s.unb := by
  induction l with
  | nil =>
    intro s s' h
    simp only [gc, Res.ok.injEq] at h
    subst h; exact List.Sublist.refl _
  | cons e rest ih =>
    intro s s' h
    simp only [gc] at h
    by_cases h1 : unixSec e.completion > unixSec now
    · simp only [h1, if_true, Res.ok.injEq] at h
      subst h; exact List.Sublist.refl _
    · simp only [h1, if_false] at h
      by_cases h2 : e.completion > now
      · simp only [h2, if_true] at h
        exact ih s s' h
      · simp only [h2, if_false] at h
        cases hb : withdrawUnbonded s.bank e with
        | err _ | panic _ => rw [hb] at h; exact ih s s' h
        | ok b => rw [hb] at h; exact (ih _ s' h).trans List.filter_sublist

theorem idsWF_of_sublist {s s' : St} (h : IdsWF s) (hs : s'.unb.Sublist s.unb) (hn : s'.nextId = s.nextId) : IdsWF s' :=
  ⟨(hs.map _).nodup h.1, fun e he => by rw [hn]; exact h.2 e (hs.subset he)⟩

theorem idsWF_step (s : St) (op : Op) (h : IdsWF s) : IdsWF (step s op).1 := by
  have ids_claim : ∀ {u v s1 t}, claimRewards s u v = .ok (s1, t) → IdsWF s1 := by
    intro u v s1 t hc
    obtain ⟨_, _, _, _, hu, hn, _⟩ := claim_ok hc
    exact idsWF_of_sublist h (by rw [hu]; exact List.Sublist.refl _) hn
  cases op with
  | delegate u v a d x =>
    simp only [step]
    cases hr : delegate s u v a d x with
    | ok s' =>
      obtain ⟨s1, t, hc, _, _, _, _, _, hu, hn, _⟩ := delegate_ok hr
      exact idsWF_of_sublist (ids_claim hc) (by rw [hu]; exact List.Sublist.refl _) hn
    | err c => exact h
    | panic k => exact h
  | undelegate u v a rc x =>
    simp only [step]
    cases hr : undelegate s u v a rc x with
    | ok s' =>
      obtain ⟨s1, t, hc, _, _, _, _, _, hu, hn, _⟩ := undelegate_ok hr
      obtain ⟨h1, h2⟩ := ids_claim hc
      refine ⟨?_, ?_⟩
      · show (s'.unb.map (·.id)).Nodup
        rw [hu, List.map_append, List.nodup_append]
        refine ⟨h1, by simp, ?_⟩
        intro a ha b hb
        obtain ⟨e, he, rfl⟩ := List.mem_map.1 ha
        have := h2 e he
        simp only [List.map, List.mem_singleton] at hb
        omega
      · intro e he
        show e.id < s'.nextId
        rw [hu] at he
        rw [hn]
        rcases List.mem_append.1 he with he | he
        · have := h2 e he; omega
        · simp only [List.mem_singleton] at he
          subst he; simp
    | err c => exact h
    | panic k => exact h
  | claim u v =>
    simp only [step]
    cases hr : claimRewards s u v with
    | ok r => obtain ⟨s1, t⟩ := r; exact ids_claim hr
    | err c => exact h
    | panic k => exact h
  | block now m rw =>
    simp only [step]
    cases hr : endBlock s now m rw with
    | ok s' =>
      unfold endBlock at hr
      obtain ⟨ku, _, kn⟩ := handleRewards_foldl_fields rw { s with bank := s.bank.credit moduleAcc bondDenom m }
      have hs := gc_sublist now _ _ s' hr
      have hn := (gc_ok now _ _ s' hr).2.2.2.2.2.1
      rw [ku] at hs
      rw [kn] at hn
      exact idsWF_of_sublist h hs hn
    | err c => exact h
    | panic k => exact h

theorem ids_reachable (b0 : Bank) (s : St) (h : Reachable b0 s) : IdsWF s := by
  induction h with
  | init => exact ⟨List.nodup_nil, fun e he => by simp [St.init] at he⟩
  | step s op _ ih => exact idsWF_step s op ih

/-- unpaid_kept (reachable states, at the level of `step`): a block never stops the chain, and every unbonding queued
    before it is afterwards either still queued — to be tried again — or was paid exactly its recorded amount. -/
theorem block_unpaid_kept_reachable (b0 : Bank) (s : St) (hr : Reachable b0 s) (now m : Int) (rw : List (Val × Coins)) :
    (step s (.block now m rw)).2.cls = "ok"
    ∧ ∀ e ∈ s.unb, e ∈ (step s (.block now m rw)).1.unb
        ∨ (step s (.block now m rw)).1.paidOut e.id = s.paidOut e.id + e.amount := by
  refine ⟨block_never_halts s now m rw, ?_⟩
  obtain ⟨s', h⟩ := endBlock_total s now m rw
  have := endBlock_unpaid_kept s s' now m rw h (ids_reachable b0 s hr).1
  simpa only [step, h] using this

/-! ### the staking boundary hypothesis: a funded payout of a due entry IS made

  What `endBlock … = .ok` does not give any more: that a due entry is paid.  It is paid when the collector reaches it
  with the module account holding at least its amount in bond tokens (staking released what the queue recorded); the
  other balances involved (the converter's, the module's fee balance) only have to be non-negative, as all balances of
  a reachable bank are.  The model's bank credits every address, so "the recipient can be credited" holds by itself. -/

theorem send_of_funded (b : Bank) (s t : Addr) (d : Denom) (x : Int) (h0 : 0 ≤ x) (h1 : x ≤ b.bal s d) :
    b.send s t d x = .ok ((b.credit s d (-x)).credit t d x) := by
  have n1 : ¬ (x < 0) := by omega
  have n2 : ¬ (b.bal s d < x) := by omega
  simp [Bank.send, n1, n2]

theorem burn_of_funded (b : Bank) (m : Addr) (d : Denom) (x : Int) (h0 : 0 ≤ x) (h1 : x ≤ b.bal m d) :
    b.burn m d x = .ok ((b.credit m d (-x)).addSupply d (-x)) := by
  have n1 : ¬ (x < 0) := by omega
  have n2 : ¬ (b.bal m d < x) := by omega
  simp [Bank.burn, n1, n2]

theorem mint_of_nonneg (b : Bank) (m : Addr) (d : Denom) (x : Int) (h0 : 0 ≤ x) :
    b.mint m d x = .ok ((b.credit m d x).addSupply d x) := by
  have n1 : ¬ (x < 0) := by omega
  simp [Bank.mint, n1]

theorem withdrawUnbonded_funded (b : Bank) (e : Unb) (h0 : 0 ≤ e.amount)
    (h1 : e.amount ≤ b.bal moduleAcc bondDenom) (h2 : 0 ≤ b.bal Convert.moduleAcc bondDenom)
    (h3 : 0 ≤ b.bal moduleAcc feeDenom) (h4 : 0 ≤ b.bal Convert.moduleAcc feeDenom) : ∃ b', withdrawUnbonded b e = .ok b' := by
  have n1 : ¬ (e.amount < 0) := by omega
  have d1 : Convert.moduleAcc ≠ moduleAcc := by decide
  have d2 : moduleAcc ≠ Convert.moduleAcc := by decide
  have d3 : feeDenom ≠ bondDenom := by decide
  have d4 : bondDenom ≠ feeDenom := by decide
  simp only [withdrawUnbonded, Convert.convert, Convert.swapDenoms, n1, if_false]
  rw [send_of_funded _ _ _ _ _ h0 h1]
  simp only [Res.bind]
  rw [burn_of_funded _ _ _ _ h0 (by simp [d1, d2]; omega)]
  simp only [Res.bind]
  rw [mint_of_nonneg _ _ _ _ h0]
  simp only [Res.bind]
  rw [send_of_funded _ _ _ _ _ h0 (by simp [d1, d2, d3, d4]; omega)]
  simp only [Res.bind]
  rw [send_of_funded _ _ _ _ _ h0 (by simp [d1, d2, d3, d4]; omega)]
  exact ⟨_, rfl⟩

/-- the entry at the head of the collector's list, due and funded, is paid exactly its amount and leaves the queue -/
theorem gc_head_paid_of_funded (now : Int) (e : Unb) (rest : List Unb) (s s' : St)
    (h : gc now (e :: rest) s = .ok s') (hnd : ((e :: rest).map (·.id)).Nodup) (hdue : e.completion ≤ now)
    (h0 : 0 ≤ e.amount) (h1 : e.amount ≤ s.bank.bal moduleAcc bondDenom)
    (h2 : 0 ≤ s.bank.bal Convert.moduleAcc bondDenom) (h3 : 0 ≤ s.bank.bal moduleAcc feeDenom)
    (h4 : 0 ≤ s.bank.bal Convert.moduleAcc feeDenom) :
    s'.paidOut e.id = s.paidOut e.id + e.amount ∧ ∀ x ∈ s'.unb, x.id ≠ e.id := by
  simp only [List.map, List.nodup_cons] at hnd
  obtain ⟨b, hb⟩ := withdrawUnbonded_funded s.bank e h0 h1 h2 h3 h4
  have hsec : ¬ (unixSec e.completion > unixSec now) := by
    have : unixSec e.completion ≤ unixSec now := Int.ediv_le_ediv (by decide) hdue
    omega
  have hnot : ¬ (e.completion > now) := by omega
  simp only [gc, hsec, hnot, if_false, hb] at h
  obtain ⟨_, _, _, _, _, _, _, _, a9, a10⟩ := gc_ok now rest _ s' h
  refine ⟨?_, ?_⟩
  · have hkeep : s'.paidOut e.id = (if e.id = e.id then s.paidOut e.id + e.amount else s.paidOut e.id) := by
      by_contra hne
      obtain ⟨y, hy, hyi, _⟩ := a9 e.id hne
      exact hnd.1 (List.mem_map.2 ⟨y, hy, hyi⟩)
    simpa using hkeep
  · intro x hx
    have := a10 x hx
    simp only [List.mem_filter, decide_eq_true_eq] at this
    exact this.2

/-! ### non-vacuity: a concrete history on which the hypotheses of the theorems above hold non-trivially -/

def exExt : StakeExt := ⟨none, true, 0, []⟩
/-- a3 and a4 delegate 50 each at v0, a block brings a reward of 7 urise -/
def exState : St :=
  run (St.init ((Bank.empty.credit "a3" "urise" 1000).credit "a4" "urise" 1000))
    [.delegate "a3" "v0" 50 "urise" exExt, .delegate "a4" "v0" 50 "urise" ⟨some 50, true, 0, []⟩,
     .block 5000000000 0 [("v0", [("urise", 7)])]]

example : (step exState (.claim "a3" "v0")).2.cls = "ok" ∧ (step exState (.claim "a3" "v0")).2.paid = [("urise", 3)] := by decide
example : (step (step exState (.claim "a3" "v0")).1 (.claim "a3" "v0")).2.paid = [] := by decide
example : claimableByDenom (step exState (.claim "a3" "v0")).1 "a4" "v0" "urise" = 3 := by decide
example : (step exState (.undelegate "a4" "v0" 20 "a3" ⟨some 100, true, 25000000000, []⟩)).1.unb = [⟨0, "a3", 20, 25000000000⟩] := by decide
example : "a4" ∉ touched "a3" "v0" := by decide

end Sunrise.C10
