import SunriseVerif.Lemmas.DA08Block
/-!
C01 (DA part) — the x/da end-blocker never panics in a reachable state, so a block never halts because of x/da.

Model: `Model/DA.lean`. The end-blocker model has two panic sites (both Go integer divisions by zero):
* `tallyOne`: `QuoInt64(len(shards))` for an item with `shards = 0` that has proofs;
* `endBlock`: `height % slash_epoch` with `slash_epoch = 0`.
(A third one — the reward division `pubColl / len(invalidities)` of a rejected item without recorded invalidities — is
gone with the fix of `abci.go`: nothing is divided when there is no challenger, the collateral stays in the module
account.)

`NoHalt` is the inductive invariant that rules both out: valid params and every stored item has at least one shard.
It says NOTHING about invalidity records, so it also holds in a state produced by a genesis import (which keeps the
items, `challenging` ones included, but drops the invalidities): `endBlock_ok`, `block_ok`, `run_never_halts_from`
cover every history that starts from such a state. It is independent of the escrow invariant `Inv` of C08.
-/
set_option linter.unusedSimpArgs false
set_option linter.unusedVariables false
namespace Sunrise.C01DA
open Sunrise Sunrise.Bank Sunrise.DA

/-- the no-halt invariant of x/da. It does not mention the invalidity records: a `challenging` item without a recorded
    challenger (the state a genesis import produces) satisfies it, and is tallied without a panic. -/
structure NoHalt (s : St) : Prop where
  params : s.params.valid = true
  shards : ∀ it ∈ s.items, 0 < it.shards

/-! ### generic preservation lemmas -/
theorem valid_epoch {p : Params} (h : p.valid = true) : 0 < p.epoch := by
  unfold Params.valid at h
  simp only [Bool.and_eq_true, decide_eq_true_eq] at h
  exact h.1.1.1.1.1.1.1.1.1.1.2

/-- `NoHalt` only looks at params and items; it is monotone in "fewer items" -/
theorem NoHalt.mono {s s' : St} (h : NoHalt s) (hp : s'.params = s.params) (hi : ∀ x ∈ s'.items, x ∈ s.items) :
    NoHalt s' :=
  ⟨by rw [hp]; exact h.params, fun x hx => h.shards x (hi x hx)⟩

theorem NoHalt.congr {s s' : St} (h : NoHalt s) (hp : s'.params = s.params) (hi : s'.items = s.items) : NoHalt s' :=
  h.mono hp (by rw [hi]; exact fun x hx => hx)

/-- re-tagging a stored item (status, timestamp) -/
theorem NoHalt.retag {s : St} (h : NoHalt s) {it : Item} (hmem : it ∈ s.items) (st : Status) (t : Int) :
    NoHalt { s with items := setItem s.items { it with status := st, ts := t } } := by
  refine ⟨h.params, ?_⟩
  intro x hx
  rcases mem_setItem hx with rfl | ⟨hx', _⟩
  · exact h.shards it hmem
  · exact h.shards x hx'

/-! ### messages -/
theorem nohalt_publish {s s' : St} {a : Addr} {u : String} {n p : Nat} (hi : NoHalt s)
    (h : publish s a u n p = .ok s') : NoHalt s' := by
  unfold publish at h
  split at h
  · cases h
  rename_i hpar
  split at h
  · cases h
  simp only [] at h
  have hn : 0 < n := by omega
  have common : ∀ b : Bank, NoHalt { s with
      items := insertBy itemLt ⟨u, .cp, s.now, a, n, p, s.params.pub, s.params.inv⟩ s.items, bank := b } := by
    intro b
    refine ⟨hi.params, ?_⟩
    intro y hy
    rcases (mem_insertBy8 _ _ _ _).1 hy with rfl | hy
    · exact hn
    · exact hi.shards y hy
  split at h
  · obtain ⟨b, _, hb⟩ := bind_ok h
    simp only [Res.ok.injEq] at hb
    subst hb; exact common b
  · simp only [Res.ok.injEq] at h
    subst h; exact common s.bank

theorem nohalt_submitInvalidity {s s' : St} {a : Addr} {u : String} {ix : List Int} (hi : NoHalt s)
    (h : submitInvalidity s a u ix = .ok s') : NoHalt s' := by
  unfold submitInvalidity at h
  split at h
  · cases h
  split at h
  · cases h
  split at h
  · cases h
  split at h
  · cases h
  split at h
  · cases h
  simp only [] at h
  split at h
  · obtain ⟨b, _, hb⟩ := bind_ok h
    simp only [Res.ok.injEq] at hb
    subst hb
    exact hi.congr rfl rfl
  · simp only [Res.ok.injEq] at h
    subst h
    exact hi.congr rfl rfl

/-! ### end-block phases -/
theorem nohalt_pruneOne {s : St} (st : Status) (hi : NoHalt s) (u : String) : NoHalt (pruneOne st s u) := by
  unfold pruneOne
  split
  · split
    · exact hi.mono rfl (fun x hx => (List.mem_filter.1 hx).1)
    · exact hi
  · exact hi

theorem nohalt_toChallengingOne {s : St} (hi : NoHalt s) (u : String) : NoHalt (toChallengingOne s u) := by
  unfold toChallengingOne
  split
  · rename_i it hfind
    obtain ⟨hmem, huri⟩ := findItem_some8 hfind
    split
    · simp only []
      split
      · exact hi.retag hmem _ _
      · exact hi
    · exact hi
  · exact hi

theorem refund_fold_nohalt (coll : Coins) :
    ∀ (L : List Inval) (s : St), NoHalt s → NoHalt (L.foldl (refundChallenger coll) s) := by
  intro L
  induction L with
  | nil => intro s h; exact h
  | cons y L ih =>
    intro s h
    simp only [List.foldl_cons]
    apply ih
    unfold refundChallenger
    split
    · exact h.congr rfl rfl
    · exact h

theorem nohalt_toVerifiedOne {s : St} (hi : NoHalt s) (u : String) : NoHalt (toVerifiedOne s u) := by
  unfold toVerifiedOne
  split
  · rename_i it hfind
    obtain ⟨hmem, huri⟩ := findItem_some8 hfind
    split
    · simp only []
      have h1 := hi.retag hmem .ver s.now
      split
      · apply refund_fold_nohalt
        exact h1.congr rfl rfl
      · exact h1
    · exact hi
  · exact hi

theorem nohalt_foldl {f : St → String → St} (hf : ∀ s u, NoHalt s → NoHalt (f s u)) :
    ∀ (l : List String) (s : St), NoHalt s → NoHalt (l.foldl f s) := by
  intro l
  induction l with
  | nil => intro s h; exact h
  | cons u l ih => intro s h; exact ih _ (hf s u h)

/-! ### tally -/
theorem pay_fields (C : Coins) : ∀ (L : List Inval) (s : St),
    (L.foldl (payChallenger C) s).params = s.params ∧ (L.foldl (payChallenger C) s).items = s.items
      ∧ (L.foldl (payChallenger C) s).invs = s.invs := by
  intro L
  induction L with
  | nil => intro s; exact ⟨rfl, rfl, rfl⟩
  | cons y L ih =>
    intro s
    simp only [List.foldl_cons]
    obtain ⟨a, b, c⟩ := ih (payChallenger C s y)
    have h1 : (payChallenger C s y).params = s.params ∧ (payChallenger C s y).items = s.items
        ∧ (payChallenger C s y).invs = s.invs := by
      unfold payChallenger; split <;> exact ⟨rfl, rfl, rfl⟩
    exact ⟨a.trans h1.1, b.trans h1.2.1, c.trans h1.2.2⟩

theorem settle_fields (coll : Coins) (safe : List Int) : ∀ (L : List Inval) (acc : St × Coins),
    (L.foldl (settleVerified coll safe) acc).1.params = acc.1.params
      ∧ (L.foldl (settleVerified coll safe) acc).1.items = acc.1.items
      ∧ (L.foldl (settleVerified coll safe) acc).1.invs = acc.1.invs := by
  intro L
  induction L with
  | nil => intro s; exact ⟨rfl, rfl, rfl⟩
  | cons y L ih =>
    intro acc
    simp only [List.foldl_cons]
    obtain ⟨a, b, c⟩ := ih (settleVerified coll safe acc y)
    have h1 : (settleVerified coll safe acc y).1.params = acc.1.params
        ∧ (settleVerified coll safe acc y).1.items = acc.1.items
        ∧ (settleVerified coll safe acc y).1.invs = acc.1.invs := by
      unfold settleVerified
      split
      · split <;> exact ⟨rfl, rfl, rfl⟩
      · exact ⟨rfl, rfl, rfl⟩
    exact ⟨a.trans h1.1, b.trans h1.2.1, c.trans h1.2.2⟩

/-- the state after resolving item `it`: the item is re-tagged, params are untouched -/
theorem NoHalt.resolve {s s' : St} (h : NoHalt s) {it : Item} (hmem : it ∈ s.items) (st : Status) (t : Int)
    (hp : s'.params = s.params)
    (hi : s'.items = setItem s.items { it with status := st, ts := t }) : NoHalt s' :=
  (h.retag hmem st t).congr hp hi

/-- the tally of one item returns (no panic, no error) and preserves `NoHalt` — whether or not the item has a recorded
    challenger -/
theorem tallyOne_ok {env : Env} {s : St} (hi : NoHalt s) (u : String) :
    ∃ s', tallyOne env s u = .ok s' ∧ NoHalt s' := by
  unfold tallyOne
  split
  · exact ⟨s, rfl, hi⟩
  rename_i it hfind
  obtain ⟨hmem, huri⟩ := findItem_some8 hfind
  subst huri
  split
  · exact ⟨s, rfl, hi⟩
  rename_i hs
  have hsh := hi.shards it hmem
  simp only []
  rw [if_neg (fun h => by have := h.1; omega)]
  split
  · -- rejected
    refine ⟨_, rfl, ?_⟩
    obtain ⟨f1, f2, f3⟩ := pay_fields
      (it.invColl ++ rewardShare (if ((invsOf s it.uri).length : Int) = 0 then [] else it.pubColl)
        ((invsOf s it.uri).length : Int))
      (invsOf s it.uri) { s with items := setItem s.items { it with status := .rej, ts := s.now } }
    exact hi.resolve hmem .rej s.now f1 f2
  · -- verified after challenge
    obtain ⟨f1, f2, f3⟩ := settle_fields it.invColl
      (tallyOutcome s.params.rf it (proofsOf s it.uri) env.active (env.assign it.uri)).safe (invsOf s it.uri)
      ({ s with items := setItem s.items { it with status := .ver, ts := s.now } }, it.pubColl)
    split
    · exact ⟨_, rfl, hi.resolve hmem .ver s.now f1 f2⟩
    · exact ⟨_, rfl, hi.resolve hmem .ver s.now f1 f2⟩

theorem tallyList_ok {env : Env} : ∀ (l : List String) {s : St}, NoHalt s →
    ∃ s', tallyList env l s = .ok s' ∧ NoHalt s' := by
  intro l
  induction l with
  | nil => intro s hi; exact ⟨s, rfl, hi⟩
  | cons u l ih =>
    intro s hi
    obtain ⟨s1, h1, hi1⟩ := tallyOne_ok (env := env) hi u
    obtain ⟨s2, h2, hi2⟩ := ih hi1
    refine ⟨s2, ?_, hi2⟩
    simp only [tallyList, h1, Res.bind]
    exact h2

theorem tally_ok {env : Env} {s : St} (hi : NoHalt s) : ∃ s', tally env s = .ok s' ∧ NoHalt s' := by
  unfold tally
  exact tallyList_ok _ hi

/-! ### the whole end-blocker, a block, every operation -/
theorem nohalt_slashEpoch {env : Env} {s : St} (hi : NoHalt s) : NoHalt (slashEpoch env s).1 := by
  unfold slashEpoch
  exact hi.congr rfl rfl

/-- `NoHalt` does not depend on the block time and height -/
theorem nohalt_time {s : St} (hi : NoHalt s) (t h : Int) : NoHalt { s with now := t, height := h } :=
  hi.congr rfl rfl

theorem nohalt_prune {s : St} (hi : NoHalt s) (st : Status) (period : Int) : NoHalt (prune s st period) :=
  nohalt_foldl (fun s u h => nohalt_pruneOne st h u) _ _ hi

theorem nohalt_toChallenging {s : St} (hi : NoHalt s) : NoHalt (toChallenging s) :=
  nohalt_foldl (fun s u h => nohalt_toChallengingOne h u) _ _ hi

theorem nohalt_toVerified {s : St} (hi : NoHalt s) : NoHalt (toVerified s) :=
  nohalt_foldl (fun s u h => nohalt_toVerifiedOne h u) _ _ hi

theorem endBlock_ok {env : Env} {s : St} (hi : NoHalt s) : ∃ r, endBlock env s = .ok r ∧ NoHalt r.1 := by
  unfold endBlock
  simp only []
  have h4 : NoHalt (toVerified (toChallenging (prune (prune s .rej s.params.rrp) .ver s.params.vrp))) :=
    nohalt_toVerified (nohalt_toChallenging (nohalt_prune (nohalt_prune hi _ _) _ _))
  obtain ⟨s5, h5, hi5⟩ := tally_ok (env := env) h4
  rw [h5]
  simp only [Res.bind]
  have hep := valid_epoch hi.params
  rw [if_neg (by omega)]
  split
  · exact ⟨_, rfl, nohalt_slashEpoch hi5⟩
  · exact ⟨_, rfl, hi5⟩

theorem block_ok {env : Env} {s : St} (hi : NoHalt s) (dt : Int) : ∃ r, block env s dt = .ok r ∧ NoHalt r.1 := by
  unfold block
  exact endBlock_ok (nohalt_time hi _ _)

theorem nohalt_init {s : St} (h : Init s) : NoHalt s := by
  refine ⟨h.params, ?_⟩
  rw [h.items]; intro x hx; cases hx

/-- `NoHalt` is inductive: every operation preserves it (no well-formedness of the signer is needed) -/
theorem nohalt_step {s : St} (op : Op) (hi : NoHalt s) : NoHalt (step s op).1 := by
  cases op with
  | publish a u n p =>
    simp only [step]
    cases hr : publish s a u n p with
    | ok s' => exact nohalt_publish hi hr
    | err c => exact hi
    | panic k => exact hi
  | invalid a u ix =>
    simp only [step]
    cases hr : submitInvalidity s a u ix with
    | ok s' => exact nohalt_submitInvalidity hi hr
    | err c => exact hi
    | panic k => exact hi
  | proof a v u ixs e x b =>
    simp only [step]
    cases hr : submitProof s a v u ixs e x b with
    | ok s' =>
      simp only [applyMsg]
      obtain ⟨_, a2, a3, a4, _⟩ := submitProof_fields hr
      exact hi.congr a4 a2
    | err c => exact hi
    | panic k => exact hi
  | regdep a d =>
    simp only [step, registerDeputy]
    exact hi.congr rfl rfl
  | unregdep a =>
    simp only [step]
    unfold unregisterDeputy
    split
    · exact hi
    · simp only [applyMsg]
      exact hi.congr rfl rfl
  | setParams p =>
    simp only [step]
    unfold updateParams
    split
    · rename_i hv
      simp only [applyMsg]
      exact ⟨hv, hi.shards⟩
    · exact hi
  | block env dt =>
    simp only [step]
    obtain ⟨⟨s', sl⟩, hr, hi'⟩ := block_ok (env := env) hi dt
    rw [hr]
    exact hi'

theorem nohalt_reachable {s : St} (h : Reachable s) : NoHalt s := by
  induction h with
  | init h0 => exact nohalt_init h0
  | step op _ _ ih => exact nohalt_step op ih

/-! ### main theorems -/
/-- a single tally never panics in a state satisfying `NoHalt` -/
theorem tallyOne_no_panic {s : St} (h : NoHalt s) (env : Env) (u : String) : ∃ s', tallyOne env s u = .ok s' := by
  obtain ⟨s', hs, _⟩ := tallyOne_ok (env := env) h u
  exact ⟨s', hs⟩

/-- the tally of an item WITHOUT a recorded challenger (the state after a genesis import) returns: it needs nothing but
    the item's shard count; in particular the publish collateral may be non-empty -/
theorem tallyOne_no_challenger_ok {env : Env} {s : St} {u : String} {it : Item} (hf : findItem s u = some it)
    (hsh : 0 < it.shards) (hnil : invsOf s u = []) : ∃ s', tallyOne env s u = .ok s' := by
  unfold tallyOne
  rw [hf]
  simp only []
  split
  · exact ⟨_, rfl⟩
  rw [if_neg (fun h => by have := h.1; omega)]
  split
  · exact ⟨_, rfl⟩
  · rw [hnil]
    simp only [List.foldl_nil]
    split
    · exact ⟨_, rfl⟩
    · exact ⟨_, rfl⟩

/-- **The x/da end-blocker never panics** in a reachable state, for every boundary input. -/
theorem endBlock_never_panics {s : St} (h : Reachable s) (env : Env) : ∃ r, endBlock env s = .ok r := by
  obtain ⟨r, hr, _⟩ := endBlock_ok (env := env) (nohalt_reachable h)
  exact ⟨r, hr⟩

/-- **A block never halts** because of x/da: from every reachable state, for every time step and boundary input. -/
theorem block_never_halts {s : St} (h : Reachable s) (env : Env) (dt : Int) : (step s (.block env dt)).2.1 = "ok" := by
  obtain ⟨⟨s', sl⟩, hr, _⟩ := block_ok (env := env) (nohalt_reachable h) dt
  simp only [step, hr]

/-! ### histories that start from an imported genesis
`Reachable` starts from `Init` (empty stores). A genesis import starts from ANY stored items — `challenging` ones
included — and no invalidity record. `NoHalt` (valid params, every item has a shard: both checked by the import) is all
that is needed, so the two theorems above hold for every history from such a state as well. -/
/-- the state after running the operations `ops` from `s` (halted blocks keep the state, as in `step`) -/
def run (s : St) : List Op → St
  | [] => s
  | op :: ops => run (step s op).1 ops

theorem nohalt_run {s : St} (h : NoHalt s) : ∀ ops : List Op, NoHalt (run s ops) := by
  intro ops
  induction ops generalizing s with
  | nil => exact h
  | cons op ops ih => exact ih (nohalt_step op h)

/-- from ANY state satisfying `NoHalt` — in particular an imported genesis with challenged items and no recorded
    challenger — the end-blocker never panics after any history -/
theorem endBlock_never_panics_from {s0 : St} (h : NoHalt s0) (ops : List Op) (env : Env) :
    ∃ r, endBlock env (run s0 ops) = .ok r := by
  obtain ⟨r, hr, _⟩ := endBlock_ok (env := env) (nohalt_run h ops)
  exact ⟨r, hr⟩

/-- … and no block of any history from such a state halts -/
theorem run_never_halts_from {s0 : St} (h : NoHalt s0) (ops : List Op) (env : Env) (dt : Int) :
    (step (run s0 ops) (.block env dt)).2.1 = "ok" := by
  obtain ⟨⟨s', sl⟩, hr, _⟩ := block_ok (env := env) (nohalt_run h ops) dt
  simp only [step, hr]

/-! ### non-vacuity -/
def exParams : Params := ⟨0, 1, 1, 0, 0, 1, 1, 1, 1, [("stake", 3)], [("stake", 1)]⟩
def exItem (st : Status) : Item := ⟨"u", st, 0, "alice", 2, 1, [("stake", 3)], [("stake", 1)]⟩
def exSt (st : Status) (invs : List Inval) : St :=
  ⟨default, 0, 0, exParams, [exItem st], invs, [], [], fun _ => none, 0, fun _ => 0⟩
def exEnv : Env := ⟨[], fun _ => none, fun _ _ => [], []⟩

/-- the invariant is satisfiable by a state with an item in `challenging` (one recorded invalidity) -/
example : NoHalt (exSt .ch [⟨"u", "bob", [0]⟩]) := by
  refine ⟨by decide, ?_⟩
  intro it hit
  simp only [exSt, List.mem_singleton] at hit
  subst hit; decide

/-- the to-challenging phase really produces such items: a challenged item in its challenge period moves to `challenging` -/
example : (toChallengingOne (exSt .cp [⟨"u", "bob", [0]⟩]) "u").items = [exItem .ch] := by
  have hP : (0 : Int) ≤ PREC := by decide
  simp [toChallengingOne, findItem, exSt, exItem, invsOf, distinctIndices, addDistinct, setItem, exParams, hP]

/-- an imported genesis: the item is `challenging` (time stamp 0), NO invalidity is recorded, the publish collateral is
    `3stake`, and the block time (5 s) is past the proof deadline (`proof_period` = 1 ns) -/
def exImported : St := { exSt .ch [] with now := 5 * SEC }

/-- it satisfies the invariant -/
example : NoHalt exImported := by
  refine ⟨by decide, ?_⟩
  intro it hit
  simp only [exImported, exSt, List.mem_singleton] at hit
  subst hit; decide

/-- the item is due: the tally of the end-blocker selects it -/
example : indexScan exImported .ch (some (unix (exImported.now - exImported.params.pp))) = ["u"] := by
  simp [indexScan, exImported, exSt, exItem, exParams, unix, SEC]

/-- the tally of that item RETURNS (before the fix of `abci.go` this was `.panic .divZero`: no proofs ⇒ rejected ⇒
    reward division by `len(invalidities) = 0`) … -/
example : (tallyOne exEnv exImported "u").isOk = true := by
  decide

/-- … the item is rejected, nobody is paid and the whole publish collateral is left in the module account (`dust`) -/
example : ∃ s', tallyOne exEnv exImported "u" = .ok s' ∧ s'.items = [{ exItem .rej with ts := 5 * SEC }]
    ∧ s'.bank = exImported.bank ∧ s'.dust "stake" = 3 := by
  refine ⟨_, by simp [tallyOne, findItem, exImported, exSt, exItem, invsOf, proofsOf, buildSubmitted, tallyOutcome,
    safeIndices, Res.bind]; rfl, ?_, ?_, ?_⟩
  · simp [setItem, exItem, exImported, exSt]
  · rfl
  · simp [addDust, rewardShare, amt, exItem]

/-- … and so do the whole tally and the whole end-blocker -/
example : (endBlock exEnv exImported).isOk = true := by
  obtain ⟨r, hr, _⟩ := endBlock_ok (env := exEnv) (s := exImported) ⟨by decide, by
    intro it hit
    simp only [exImported, exSt, List.mem_singleton] at hit
    subst hit; decide⟩
  rw [hr]; rfl

end Sunrise.C01DA

#print axioms Sunrise.C01DA.endBlock_never_panics
#print axioms Sunrise.C01DA.block_never_halts
