import SunriseVerif.Lemmas.DA08Block
/-!
C01 (DA part) — the x/da end-blocker never panics in a reachable state, so a block never halts because of x/da.

Model: `Model/DA.lean`. The end-blocker model has three panic sites (all Go integer divisions by zero):
* `tallyOne`: `QuoInt64(len(shards))` for an item with `shards = 0` that has proofs;
* `tallyOne`: the reward division `pubColl / len(invalidities)` of a rejected item without invalidities;
* `endBlock`: `height % slash_epoch` with `slash_epoch = 0`.

`NoHalt` is the inductive invariant that rules all three out: valid params, every stored item has at least one shard,
and every item in status `challenging` still has at least one recorded invalidity (guaranteed on entry by the guard
`0 < n` of `toChallengingOne`, and invalidities of a uri are only deleted when every item with this uri leaves
`challenging`). It is independent of the escrow invariant `Inv` of C08.
-/
set_option linter.unusedSimpArgs false
set_option linter.unusedVariables false
namespace Sunrise.C01DA
open Sunrise Sunrise.Bank Sunrise.DA

/-- the no-halt invariant of x/da -/
structure NoHalt (s : St) : Prop where
  params : s.params.valid = true
  shards : ∀ it ∈ s.items, 0 < it.shards
  challenged : ∀ it ∈ s.items, it.status = .ch → invsOf s it.uri ≠ []

/-- no item with uri `u` is in status `challenging` -/
def Term (s : St) (u : String) : Prop := ∀ it ∈ s.items, it.uri = u → it.status ≠ .ch

/-! ### generic preservation lemmas -/
theorem valid_epoch {p : Params} (h : p.valid = true) : 0 < p.epoch := by
  unfold Params.valid at h
  simp only [Bool.and_eq_true, decide_eq_true_eq] at h
  exact h.1.1.1.1.1.1.1.1.1.1.2

/-- `NoHalt` only looks at params, items and invalidities; it is monotone in "fewer items, more invalidities" -/
theorem NoHalt.mono {s s' : St} (h : NoHalt s) (hp : s'.params = s.params) (hi : ∀ x ∈ s'.items, x ∈ s.items)
    (hv : ∀ w, invsOf s w ≠ [] → invsOf s' w ≠ []) : NoHalt s' := by
  refine ⟨by rw [hp]; exact h.params, fun x hx => h.shards x (hi x hx), ?_⟩
  intro it hit hs
  exact hv _ (h.challenged it (hi it hit) hs)

theorem NoHalt.congr {s s' : St} (h : NoHalt s) (hp : s'.params = s.params) (hi : s'.items = s.items)
    (hv : s'.invs = s.invs) : NoHalt s' := by
  apply h.mono hp (by rw [hi]; exact fun x hx => hx)
  intro w hw
  unfold invsOf at *
  rw [hv]; exact hw

theorem filter_uri_keep (invs : List Inval) (p : Inval → Bool) (w : String)
    (h : ∀ x ∈ invs, x.uri = w → p x = true) :
    (invs.filter p).filter (fun x => x.uri == w) = invs.filter (fun x => x.uri == w) := by
  rw [List.filter_filter]
  apply List.filter_congr
  intro x hx
  by_cases hv : x.uri = w
  · simp [hv, h x hx hv]
  · simp [hv]

/-- deleting invalidities of a uri none of whose items is `challenging` -/
theorem NoHalt.dropRecords {s s' : St} {u : String} (h : NoHalt s) (ht : Term s u) (p : Inval → Bool)
    (hp : ∀ x ∈ s.invs, x.uri ≠ u → p x = true)
    (hpar : s'.params = s.params) (hi : s'.items = s.items) (hv : s'.invs = s.invs.filter p) : NoHalt s' := by
  refine ⟨by rw [hpar]; exact h.params, by rw [hi]; exact h.shards, ?_⟩
  intro it hit hs
  rw [hi] at hit
  have hne : it.uri ≠ u := fun e => ht it hit e hs
  have := h.challenged it hit hs
  unfold invsOf at *
  rw [hv, filter_uri_keep]
  · exact this
  · intro x hx hxu; exact hp x hx (by rw [hxu]; exact hne)

/-- re-tagging a stored item (status, timestamp); entering `challenging` needs a recorded invalidity -/
theorem NoHalt.retag {s : St} (h : NoHalt s) {it : Item} (hmem : it ∈ s.items) (st : Status) (t : Int)
    (hst : st = .ch → invsOf s it.uri ≠ []) :
    NoHalt { s with items := setItem s.items { it with status := st, ts := t } } := by
  refine ⟨h.params, ?_, ?_⟩
  · intro x hx
    rcases mem_setItem hx with rfl | ⟨hx', _⟩
    · exact h.shards it hmem
    · exact h.shards x hx'
  · intro x hx hs
    rcases mem_setItem hx with rfl | ⟨hx', _⟩
    · exact hst hs
    · exact h.challenged x hx' hs

theorem term_retag {s : St} {it : Item} (st : Status) (t : Int) (hst : st ≠ .ch) :
    Term { s with items := setItem s.items { it with status := st, ts := t } } it.uri := by
  intro x hx hu hs
  rcases mem_setItem hx with rfl | ⟨_, hne⟩
  · exact hst hs
  · exact hne hu

theorem invsOf_insert_ne_nil (lt : Inval → Inval → Bool) (r : Inval) (invs : List Inval) (w : String)
    (h : invs.filter (fun x => x.uri == w) ≠ []) : (insertBy lt r invs).filter (fun x => x.uri == w) ≠ [] := by
  intro hnil
  apply h
  rw [List.filter_eq_nil_iff] at hnil ⊢
  intro x hx
  exact hnil x ((mem_insertBy8 _ _ _ _).2 (Or.inr hx))

/-! ### messages -/
theorem nohalt_publish {s s' : St} {a : Addr} {u : String} {n p : Nat} (hi : NoHalt s)
    (h : publish s a u n p = .ok s') : NoHalt s' := by
  unfold publish at h
  split at h
  · cases h
  rename_i hpar
  split at h
  · cases h
  simp only [] at h
  have hn : 0 < n := by omega
  have common : ∀ b : Bank, NoHalt { s with
      items := insertBy itemLt ⟨u, .cp, s.now, a, n, p, s.params.pub, s.params.inv⟩ s.items, bank := b } := by
    intro b
    refine ⟨hi.params, ?_, ?_⟩
    · intro y hy
      rcases (mem_insertBy8 _ _ _ _).1 hy with rfl | hy
      · exact hn
      · exact hi.shards y hy
    · intro y hy hs
      rcases (mem_insertBy8 _ _ _ _).1 hy with rfl | hy
      · cases hs
      · exact hi.challenged y hy hs
  split at h
  · obtain ⟨b, _, hb⟩ := bind_ok h
    simp only [Res.ok.injEq] at hb
    subst hb; exact common b
  · simp only [Res.ok.injEq] at h
    subst h; exact common s.bank

theorem nohalt_submitInvalidity {s s' : St} {a : Addr} {u : String} {ix : List Int} (hi : NoHalt s)
    (h : submitInvalidity s a u ix = .ok s') : NoHalt s' := by
  unfold submitInvalidity at h
  split at h
  · cases h
  split at h
  · cases h
  split at h
  · cases h
  split at h
  · cases h
  split at h
  · cases h
  simp only [] at h
  split at h
  · obtain ⟨b, _, hb⟩ := bind_ok h
    simp only [Res.ok.injEq] at hb
    subst hb
    exact hi.mono rfl (fun x hx => hx) (fun w hw => invsOf_insert_ne_nil _ _ _ _ hw)
  · simp only [Res.ok.injEq] at h
    subst h
    exact hi.mono rfl (fun x hx => hx) (fun w hw => invsOf_insert_ne_nil _ _ _ _ hw)

/-! ### end-block phases -/
theorem nohalt_pruneOne {s : St} (st : Status) (hi : NoHalt s) (u : String) : NoHalt (pruneOne st s u) := by
  unfold pruneOne
  split
  · split
    · exact hi.mono rfl (fun x hx => (List.mem_filter.1 hx).1) (fun w hw => hw)
    · exact hi
  · exact hi

theorem nohalt_toChallengingOne {s : St} (hi : NoHalt s) (u : String) : NoHalt (toChallengingOne s u) := by
  unfold toChallengingOne
  split
  · rename_i it hfind
    obtain ⟨hmem, huri⟩ := findItem_some8 hfind
    split
    · simp only []
      split
      · rename_i hg
        apply hi.retag hmem
        intro _ hnil
        rw [huri] at hnil
        rw [hnil] at hg
        simp [distinctIndices] at hg
      · exact hi
    · exact hi
  · exact hi

theorem refund_fold_nohalt (coll : Coins) (u : String) :
    ∀ (L : List Inval) (s : St), (∀ x ∈ L, x.uri = u) → NoHalt s → Term s u →
      NoHalt (L.foldl (refundChallenger coll) s) := by
  intro L
  induction L with
  | nil => intro s _ h _; exact h
  | cons y L ih =>
    intro s hL h ht
    simp only [List.foldl_cons]
    have hyu := hL y (List.mem_cons_self ..)
    apply ih _ (fun x hx => hL x (List.mem_cons_of_mem _ hx))
    · unfold refundChallenger
      split
      · refine h.dropRecords ht _ ?_ rfl rfl rfl
        intro x _ hne
        have : x.uri ≠ y.uri := by rw [hyu]; exact hne
        simp [this]
      · exact h
    · unfold refundChallenger
      split
      · exact ht
      · exact ht

theorem nohalt_toVerifiedOne {s : St} (hi : NoHalt s) (u : String) : NoHalt (toVerifiedOne s u) := by
  unfold toVerifiedOne
  split
  · rename_i it hfind
    obtain ⟨hmem, huri⟩ := findItem_some8 hfind
    subst huri
    split
    · simp only []
      have h1 := hi.retag hmem .ver s.now (by intro e; cases e)
      have t1 := term_retag (s := s) (it := it) .ver s.now (by intro e; cases e)
      split
      · apply refund_fold_nohalt
        · intro x hx
          unfold invsOf at hx
          simpa using (List.mem_filter.1 hx).2
        · exact h1.mono rfl (fun x hx => hx) (fun w hw => hw)
        · exact t1
      · exact h1
    · exact hi
  · exact hi

theorem nohalt_foldl {f : St → String → St} (hf : ∀ s u, NoHalt s → NoHalt (f s u)) :
    ∀ (l : List String) (s : St), NoHalt s → NoHalt (l.foldl f s) := by
  intro l
  induction l with
  | nil => intro s h; exact h
  | cons u l ih => intro s h; exact ih _ (hf s u h)

/-! ### tally -/
theorem pay_fields (C : Coins) : ∀ (L : List Inval) (s : St),
    (L.foldl (payChallenger C) s).params = s.params ∧ (L.foldl (payChallenger C) s).items = s.items
      ∧ (L.foldl (payChallenger C) s).invs = s.invs := by
  intro L
  induction L with
  | nil => intro s; exact ⟨rfl, rfl, rfl⟩
  | cons y L ih =>
    intro s
    simp only [List.foldl_cons]
    obtain ⟨a, b, c⟩ := ih (payChallenger C s y)
    have h1 : (payChallenger C s y).params = s.params ∧ (payChallenger C s y).items = s.items
        ∧ (payChallenger C s y).invs = s.invs := by
      unfold payChallenger; split <;> exact ⟨rfl, rfl, rfl⟩
    exact ⟨a.trans h1.1, b.trans h1.2.1, c.trans h1.2.2⟩

theorem settle_fields (coll : Coins) (safe : List Int) : ∀ (L : List Inval) (acc : St × Coins),
    (L.foldl (settleVerified coll safe) acc).1.params = acc.1.params
      ∧ (L.foldl (settleVerified coll safe) acc).1.items = acc.1.items
      ∧ (L.foldl (settleVerified coll safe) acc).1.invs = acc.1.invs := by
  intro L
  induction L with
  | nil => intro s; exact ⟨rfl, rfl, rfl⟩
  | cons y L ih =>
    intro acc
    simp only [List.foldl_cons]
    obtain ⟨a, b, c⟩ := ih (settleVerified coll safe acc y)
    have h1 : (settleVerified coll safe acc y).1.params = acc.1.params
        ∧ (settleVerified coll safe acc y).1.items = acc.1.items
        ∧ (settleVerified coll safe acc y).1.invs = acc.1.invs := by
      unfold settleVerified
      split
      · split <;> exact ⟨rfl, rfl, rfl⟩
      · exact ⟨rfl, rfl, rfl⟩
    exact ⟨a.trans h1.1, b.trans h1.2.1, c.trans h1.2.2⟩

/-- the state after resolving item `it`: every item with its uri leaves `challenging`, its invalidities are deleted -/
theorem NoHalt.resolve {s s' : St} (h : NoHalt s) {it : Item} (hmem : it ∈ s.items) (st : Status) (t : Int)
    (hst : st ≠ .ch) (hp : s'.params = s.params)
    (hi : s'.items = setItem s.items { it with status := st, ts := t })
    (hv : s'.invs = s.invs.filter (fun x => !(x.uri == it.uri))) : NoHalt s' := by
  have h1 := h.retag hmem st t (fun e => absurd e hst)
  have t1 := term_retag (s := s) (it := it) st t hst
  exact h1.dropRecords t1 (fun x => !(x.uri == it.uri)) (by intro x _ hne; simp [hne]) hp hi hv

theorem tallyOne_ok {env : Env} {s : St} (hi : NoHalt s) (u : String) :
    ∃ s', tallyOne env s u = .ok s' ∧ NoHalt s' := by
  unfold tallyOne
  split
  · exact ⟨s, rfl, hi⟩
  rename_i it hfind
  obtain ⟨hmem, huri⟩ := findItem_some8 hfind
  subst huri
  split
  · exact ⟨s, rfl, hi⟩
  rename_i hs
  have hch : it.status = .ch := by
    cases hst : it.status <;> simp_all
  have hsh := hi.shards it hmem
  have hne := hi.challenged it hmem hch
  simp only []
  rw [if_neg (fun h => by have := h.1; omega)]
  split
  · -- rejected
    rw [if_neg (fun h => hne (List.eq_nil_of_length_eq_zero (by have := h.1; omega)))]
    refine ⟨_, rfl, ?_⟩
    obtain ⟨f1, f2, f3⟩ := pay_fields (it.invColl ++ rewardShare it.pubColl ((invsOf s it.uri).length : Int))
      (invsOf s it.uri) { s with items := setItem s.items { it with status := .rej, ts := s.now } }
    refine hi.resolve hmem .rej s.now (by decide) f1 f2 ?_
    show List.filter _ _ = _
    rw [f3]
  · -- verified after challenge
    obtain ⟨f1, f2, f3⟩ := settle_fields it.invColl
      (tallyOutcome s.params.rf it (proofsOf s it.uri) env.active (env.assign it.uri)).safe (invsOf s it.uri)
      ({ s with items := setItem s.items { it with status := .ver, ts := s.now } }, it.pubColl)
    split
    · refine ⟨_, rfl, ?_⟩
      refine hi.resolve hmem .ver s.now (by decide) f1 f2 ?_
      show List.filter _ _ = _
      rw [f3]
    · refine ⟨_, rfl, ?_⟩
      refine hi.resolve hmem .ver s.now (by decide) f1 f2 ?_
      show List.filter _ _ = _
      rw [f3]

theorem tallyList_ok {env : Env} : ∀ (l : List String) {s : St}, NoHalt s →
    ∃ s', tallyList env l s = .ok s' ∧ NoHalt s' := by
  intro l
  induction l with
  | nil => intro s hi; exact ⟨s, rfl, hi⟩
  | cons u l ih =>
    intro s hi
    obtain ⟨s1, h1, hi1⟩ := tallyOne_ok (env := env) hi u
    obtain ⟨s2, h2, hi2⟩ := ih hi1
    refine ⟨s2, ?_, hi2⟩
    simp only [tallyList, h1, Res.bind]
    exact h2

theorem tally_ok {env : Env} {s : St} (hi : NoHalt s) : ∃ s', tally env s = .ok s' ∧ NoHalt s' := by
  unfold tally
  exact tallyList_ok _ hi

/-! ### the whole end-blocker, a block, every operation -/
theorem nohalt_slashEpoch {env : Env} {s : St} (hi : NoHalt s) : NoHalt (slashEpoch env s).1 := by
  unfold slashEpoch
  exact hi.congr rfl rfl rfl

/-- `NoHalt` does not depend on the block time and height -/
theorem nohalt_time {s : St} (hi : NoHalt s) (t h : Int) : NoHalt { s with now := t, height := h } :=
  hi.congr rfl rfl rfl

theorem nohalt_prune {s : St} (hi : NoHalt s) (st : Status) (period : Int) : NoHalt (prune s st period) :=
  nohalt_foldl (fun s u h => nohalt_pruneOne st h u) _ _ hi

theorem nohalt_toChallenging {s : St} (hi : NoHalt s) : NoHalt (toChallenging s) :=
  nohalt_foldl (fun s u h => nohalt_toChallengingOne h u) _ _ hi

theorem nohalt_toVerified {s : St} (hi : NoHalt s) : NoHalt (toVerified s) :=
  nohalt_foldl (fun s u h => nohalt_toVerifiedOne h u) _ _ hi

theorem endBlock_ok {env : Env} {s : St} (hi : NoHalt s) : ∃ r, endBlock env s = .ok r ∧ NoHalt r.1 := by
  unfold endBlock
  simp only []
  have h4 : NoHalt (toVerified (toChallenging (prune (prune s .rej s.params.rrp) .ver s.params.vrp))) :=
    nohalt_toVerified (nohalt_toChallenging (nohalt_prune (nohalt_prune hi _ _) _ _))
  obtain ⟨s5, h5, hi5⟩ := tally_ok (env := env) h4
  rw [h5]
  simp only [Res.bind]
  have hep := valid_epoch hi.params
  rw [if_neg (by omega)]
  split
  · exact ⟨_, rfl, nohalt_slashEpoch hi5⟩
  · exact ⟨_, rfl, hi5⟩

theorem block_ok {env : Env} {s : St} (hi : NoHalt s) (dt : Int) : ∃ r, block env s dt = .ok r ∧ NoHalt r.1 := by
  unfold block
  exact endBlock_ok (nohalt_time hi _ _)

theorem nohalt_init {s : St} (h : Init s) : NoHalt s := by
  refine ⟨h.params, ?_, ?_⟩
  · rw [h.items]; intro x hx; cases hx
  · rw [h.items]; intro x hx; cases hx

/-- `NoHalt` is inductive: every operation preserves it (no well-formedness of the signer is needed) -/
theorem nohalt_step {s : St} (op : Op) (hi : NoHalt s) : NoHalt (step s op).1 := by
  cases op with
  | publish a u n p =>
    simp only [step]
    cases hr : publish s a u n p with
    | ok s' => exact nohalt_publish hi hr
    | err c => exact hi
    | panic k => exact hi
  | invalid a u ix =>
    simp only [step]
    cases hr : submitInvalidity s a u ix with
    | ok s' => exact nohalt_submitInvalidity hi hr
    | err c => exact hi
    | panic k => exact hi
  | proof a v u ixs e x b =>
    simp only [step]
    cases hr : submitProof s a v u ixs e x b with
    | ok s' =>
      simp only [applyMsg]
      obtain ⟨_, a2, a3, a4, _⟩ := submitProof_fields hr
      exact hi.congr a4 a2 a3
    | err c => exact hi
    | panic k => exact hi
  | regdep a d =>
    simp only [step, registerDeputy]
    exact hi.congr rfl rfl rfl
  | unregdep a =>
    simp only [step]
    unfold unregisterDeputy
    split
    · exact hi
    · simp only [applyMsg]
      exact hi.congr rfl rfl rfl
  | setParams p =>
    simp only [step]
    unfold updateParams
    split
    · rename_i hv
      simp only [applyMsg]
      exact ⟨hv, hi.shards, hi.challenged⟩
    · exact hi
  | block env dt =>
    simp only [step]
    obtain ⟨⟨s', sl⟩, hr, hi'⟩ := block_ok (env := env) hi dt
    rw [hr]
    exact hi'

theorem nohalt_reachable {s : St} (h : Reachable s) : NoHalt s := by
  induction h with
  | init h0 => exact nohalt_init h0
  | step op _ _ ih => exact nohalt_step op ih

/-! ### main theorems -/
/-- a single tally never panics in a reachable state -/
theorem tallyOne_no_panic {s : St} (h : NoHalt s) (env : Env) (u : String) : ∃ s', tallyOne env s u = .ok s' := by
  obtain ⟨s', hs, _⟩ := tallyOne_ok (env := env) h u
  exact ⟨s', hs⟩

/-- **The x/da end-blocker never panics** in a reachable state, for every boundary input. -/
theorem endBlock_never_panics {s : St} (h : Reachable s) (env : Env) : ∃ r, endBlock env s = .ok r := by
  obtain ⟨r, hr, _⟩ := endBlock_ok (env := env) (nohalt_reachable h)
  exact ⟨r, hr⟩

/-- **A block never halts** because of x/da: from every reachable state, for every time step and boundary input. -/
theorem block_never_halts {s : St} (h : Reachable s) (env : Env) (dt : Int) : (step s (.block env dt)).2.1 = "ok" := by
  obtain ⟨⟨s', sl⟩, hr, _⟩ := block_ok (env := env) (nohalt_reachable h) dt
  simp only [step, hr]

/-! ### non-vacuity -/
def exParams : Params := ⟨0, 1, 1, 0, 0, 1, 1, 1, 1, [("stake", 3)], [("stake", 1)]⟩
def exItem (st : Status) : Item := ⟨"u", st, 0, "alice", 2, 1, [("stake", 3)], [("stake", 1)]⟩
def exSt (st : Status) (invs : List Inval) : St :=
  ⟨default, 0, 0, exParams, [exItem st], invs, [], [], fun _ => none, 0, fun _ => 0⟩
def exEnv : Env := ⟨[], fun _ => none, fun _ _ => [], []⟩

/-- the invariant is satisfiable by a state with an item in `challenging` (one recorded invalidity) -/
example : NoHalt (exSt .ch [⟨"u", "bob", [0]⟩]) := by
  refine ⟨by decide, ?_, ?_⟩
  · intro it hit
    simp only [exSt, List.mem_singleton] at hit
    subst hit; decide
  · intro it hit _
    simp only [exSt, List.mem_singleton] at hit
    subst hit
    simp [invsOf, exSt, exItem]

/-- the to-challenging phase really produces such items: a challenged item in its challenge period moves to `challenging` -/
example : (toChallengingOne (exSt .cp [⟨"u", "bob", [0]⟩]) "u").items = [exItem .ch] := by
  have hP : (0 : Int) ≤ PREC := by decide
  simp [toChallengingOne, findItem, exSt, exItem, invsOf, distinctIndices, addDistinct, setItem, exParams, hP]

/-- the `challenged` field is needed: the same `challenging` item WITHOUT a recorded invalidity makes the tally panic
    (no proofs ⇒ rejected ⇒ reward division by `len(invalidities) = 0`) -/
example : tallyOne exEnv (exSt .ch []) "u" = .panic .divZero := by
  simp [tallyOne, findItem, exSt, exItem, invsOf, proofsOf, buildSubmitted, tallyOutcome, safeIndices,
    Res.bind]

end Sunrise.C01DA

#print axioms Sunrise.C01DA.endBlock_never_panics
#print axioms Sunrise.C01DA.block_never_halts
