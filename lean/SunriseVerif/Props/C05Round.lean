import SunriseVerif.Lemmas.Dec
import SunriseVerif.Gen.KernelsCL
import SunriseVerif.Spec.C05
import SunriseVerif.Props.C05
import SunriseVerif.Props.C05Loop
import Mathlib.Tactic.Linarith
import Mathlib.Tactic.Ring

/-!
C05, the two clauses that had only harness oracles: (A) the ROUND TRIP and (B) MONOTONICITY of the output,
at the level of ONE bucket (constant liquidity `L > 0`, no tick crossed) on the regenerated kernels
`qfb_/bfq_ComputeSwapWithinBucketOutGivenIn` (Gen/KernelsCL.lean).  All quantities are raw 10^18-scaled integers.

RESULT IN ONE LINE: the literal clause "trading there and back never returns more than was put in" is FALSE for the
kernels, even at one bucket and in whole tokens (`roundtrip_profit_fee0`, a checked counterexample: 39 quote units of
profit, fee 0).  What IS true and proved here:

A. `roundtrip_no_profit_bucket` : quote → base → quote.  If the first leg stops short of its (far) target and the
   second leg brings the price back to some `P''` with `P ≤ P'' ≤ P'`, then the quote paid out by the second leg is
   `≤` the after-fee input `x·(1−f) ≤ x` of the first leg — as `Dec` values BEFORE truncation, for ANY fee rates
   `f ∈ [0,1]` of leg 1 and arbitrary fee rate of leg 2, ANY base amount fed to leg 2 (not only the output of leg 1).
   `roundtrip_no_profit_bucket_fee0` (fee 0), `roundtrip_no_profit_bucket_tokens` (whole tokens after `truncateInt`).
   `return_price_ge_start` discharges `P ≤ P''` whenever the base amount fed back (after fee) is within the EXACT
   curve, `a₂·P·P' ≤ L·(P'−P)`: then the rounded-up next price of leg 2 is `≥ P`.
   So the only way to profit is to receive MORE base than the exact curve in leg 1: `CalcAmountBaseDelta … false`
   is `Quo(Quo(Mul …))` with three BANKER's roundings (not truncations), each of which can go up by ½ ulp; one
   half-ulp of base is worth `½ulp·P·P'` quote, i.e. whole quote tokens as soon as `P·P' > 2·10^18`.
B. `bucket_price_mono` : for fixed (P, L, f, far target) the after-fee input and the reached price are monotone in the
   input (exact, no slack): `afterFee_mono`, `bucket_price_mono`.
   Exact monotonicity of the `Dec` OUTPUT (before truncation) is FALSE: `bucket_output_not_mono` (checked example,
   the output drops by 1.94·10⁻⁷ base tokens = 1.94·10^11 ulps when the input grows by one ulp, at P = 10⁻⁹, L = 0.9).
   NOT proved: a slack bound `y₁ ≤ y₂ + slack` (the slack is NOT one ulp: it is ≈ (½ulp of `Mul(ΔP, L)`)/(P·P'));
   no whole-token counterexample was found by search (inputs 1…3000 whole tokens at four (P, L) settings).
NOT done (time): the symmetric round trip base → quote → base (there the favourable rounding is again the banker's
   `Quo(Quo(Mul))` of the base OUTPUT, now in leg 2, with slack `C02Kernel.E` which is unbounded as P → MinSqrtPrice).
-/
namespace Sunrise.C05Round
open Sunrise Dec Sunrise.Gen.KernelsCL Sunrise.C05 Sunrise.C05Loop

/-! ### 0. small facts -/

/-- the after-fee input `Mul(x, 1−f)` never exceeds the input (banker's rounding cannot push it above an integer raw) -/
theorem afterFee_le (x f : Dec) (hx : 0 ≤ x.raw) (hf0 : 0 ≤ f.raw) (hf1 : f.raw ≤ PREC) :
    0 ≤ (Dec.mul x (Dec.sub Dec.one f)).raw ∧ (Dec.mul x (Dec.sub Dec.one f)).raw ≤ x.raw := by
  have hone : 0 ≤ (Dec.sub Dec.one f).raw := by simp only [Dec.sub, Dec.one]; omega
  have hb := mul_nonneg_bounds x (Dec.sub Dec.one f) (Int.mul_nonneg hx hone)
  refine ⟨hb.2.2, ?_⟩
  have e : x.raw * (Dec.sub Dec.one f).raw = x.raw * PREC - x.raw * f.raw := by
    simp only [Dec.sub, Dec.one]; ring
  have hxf : 0 ≤ x.raw * f.raw := Int.mul_nonneg hx hf0
  have h1 : PREC * (Dec.mul x (Dec.sub Dec.one f)).raw ≤ x.raw * PREC + HALF := by linarith [hb.1]
  generalize (Dec.mul x (Dec.sub Dec.one f)).raw = m at h1 ⊢
  simp only [PREC_eq, HALF_eq] at h1
  omega

/-- fee 0: the after-fee input IS the input -/
theorem afterFee_zero (x : Dec) (hx : 0 ≤ x.raw) : Dec.mul x (Dec.sub Dec.one ⟨0⟩) = x := by
  have hb := mul_nonneg_bounds x (Dec.sub Dec.one ⟨0⟩) (by simp only [Dec.sub, Dec.one]; exact Int.mul_nonneg hx (by decide))
  have e : x.raw * (Dec.sub Dec.one ⟨0⟩).raw = x.raw * PREC := by simp only [Dec.sub, Dec.one]; ring
  rw [e] at hb
  have : (Dec.mul x (Dec.sub Dec.one ⟨0⟩)).raw = x.raw := by
    generalize (Dec.mul x (Dec.sub Dec.one ⟨0⟩)).raw = m at hb ⊢
    simp only [PREC_eq, HALF_eq] at hb
    omega
  cases hm : Dec.mul x (Dec.sub Dec.one ⟨0⟩) with
  | mk r => cases x with | mk xr => simp only [hm] at this; simp_all

/-! ### A. round trip quote → base → quote -/

/-- leg 1 (quote in, short of the target): the price rises by `⌊a/L⌋`, so `(P'−P)·L ≤ a` with `a` the after-fee input -/
theorem leg1_price (lim f P tU L x : Dec) (hL : 0 < L.raw) (hx : 0 ≤ x.raw) (hf0 : 0 ≤ f.raw) (hf1 : f.raw ≤ PREC)
    (hfar : Dec.gte (Dec.mul x (Dec.sub Dec.one f)) (CalcAmountQuoteDelta L tU P true) = false) :
    let r1 := qfb_ComputeSwapWithinBucketOutGivenIn lim f P tU L x
    (r1.1.raw - P.raw) * L.raw ≤ (Dec.mul x (Dec.sub Dec.one f)).raw * PREC ∧ P.raw ≤ r1.1.raw := by
  intro r1
  have hs : r1.1 = _ := qfb_outGivenIn_short lim f P tU L x hfar
  have hq := quoteIn_next_le_exact P L (Dec.mul x (Dec.sub Dec.one f))
  unfold S_quoteIn_next_le_exact at hq
  rw [hs]
  exact hq hL (afterFee_le x f hx hf0 hf1).1

/-- the quote paid out between `P''` and `P'` (rounded by banker's `Mul`) is at most `L·(P'−P'')` + ½ ulp -/
theorem quoteOut_le (L P' P'' : Dec) (hL : 0 ≤ L.raw) (h : P''.raw ≤ P'.raw) :
    PREC * (CalcAmountQuoteDelta L P'' P' false).raw ≤ (P'.raw - P''.raw) * L.raw + HALF
      ∧ 0 ≤ (CalcAmountQuoteDelta L P'' P' false).raw := by
  have hq := quoteDelta_down_le_exact L P'' P'
  unfold S_quoteDelta_down_le_exact at hq
  have ha : (Dec.abs (Dec.sub P' P'')).raw = P'.raw - P''.raw := by
    simp only [Dec.abs, Dec.sub]
    have : ¬ (P'.raw - P''.raw < 0) := by omega
    simp only [this, if_false]
  have := hq hL
  rw [ha] at this
  exact this

/-- **A (any fee).**  quote → base → quote inside one bucket.  Leg 1: `x` quote in at price `P`, fee rate `f`, target `tU`
    not reached (`hfar`), new price `P'`.  Leg 2: ANY base amount `yIn` in at `P'` with ANY fee rate `f₂` and target
    `tD`, new price `P''`.  If the price does not return below its start (`hback`) and leg 2 moved it in the direction
    of the trade (`hdir`; proved by `C05Loop.bfq_outGivenIn_facts` for `P' ≥ 1.0`, false below:
    `C05Loop.bfq_outGivenIn_against_trade`), the quote paid by leg 2 is at most the after-fee input of leg 1, hence
    at most `x` — as `Dec` values before any truncation. -/
theorem roundtrip_no_profit_bucket (lim1 lim2 f f2 P tU tD L x yIn : Dec)
    (hL : 0 < L.raw) (hx : 0 ≤ x.raw) (hf0 : 0 ≤ f.raw) (hf1 : f.raw ≤ PREC)
    (hfar : Dec.gte (Dec.mul x (Dec.sub Dec.one f)) (CalcAmountQuoteDelta L tU P true) = false) :
    let r1 := qfb_ComputeSwapWithinBucketOutGivenIn lim1 f P tU L x
    let r2 := bfq_ComputeSwapWithinBucketOutGivenIn lim2 f2 r1.1 tD L yIn
    P.raw ≤ r2.1.raw → r2.1.raw ≤ r1.1.raw →
      0 ≤ r2.2.2.1.raw ∧ r2.2.2.1.raw ≤ (Dec.mul x (Dec.sub Dec.one f)).raw ∧ r2.2.2.1.raw ≤ x.raw := by
  intro r1 r2 hback hdir
  have h1 := leg1_price lim1 f P tU L x hL hx hf0 hf1 hfar
  have hsh := (bfq_outGivenIn_shape lim2 f2 r1.1 tD L yIn).2.1
  have hsh' : r2.2.2.1 = CalcAmountQuoteDelta L r2.1 r1.1 false := hsh
  have hq := quoteOut_le L r1.1 r2.1 (le_of_lt hL) hdir
  rw [← hsh'] at hq
  have ha := afterFee_le x f hx hf0 hf1
  have hmono : (r1.1.raw - r2.1.raw) * L.raw ≤ (r1.1.raw - P.raw) * L.raw :=
    Int.mul_le_mul_of_nonneg_right (by omega) (le_of_lt hL)
  have h1' : (r1.1.raw - P.raw) * L.raw ≤ (Dec.mul x (Dec.sub Dec.one f)).raw * PREC := h1.1
  have key : PREC * r2.2.2.1.raw ≤ (Dec.mul x (Dec.sub Dec.one f)).raw * PREC + HALF := by linarith [hq.1]
  have hle : r2.2.2.1.raw ≤ (Dec.mul x (Dec.sub Dec.one f)).raw := by
    generalize (Dec.mul x (Dec.sub Dec.one f)).raw = a at key ⊢
    generalize r2.2.2.1.raw = o at key ⊢
    simp only [PREC_eq, HALF_eq] at key
    omega
  exact ⟨hq.2, hle, le_trans hle ha.2⟩

/-- **A (fee 0)**: pure rounding.  The two next-price roundings (`⌊x/L⌋` up-leg, `⌈⌈L·P'⌉/(L+⌊y·P'⌋)⌉` down-leg) and the
    quote-out rounding all go against the trader; the ONLY rounding that can favour him is the banker's rounding of the
    base output of leg 1, which enters through `hback`. -/
theorem roundtrip_no_profit_bucket_fee0 (lim1 lim2 P tU tD L x yIn : Dec)
    (hL : 0 < L.raw) (hx : 0 ≤ x.raw)
    (hfar : Dec.gte x (CalcAmountQuoteDelta L tU P true) = false) :
    let r1 := qfb_ComputeSwapWithinBucketOutGivenIn lim1 ⟨0⟩ P tU L x
    let r2 := bfq_ComputeSwapWithinBucketOutGivenIn lim2 ⟨0⟩ r1.1 tD L yIn
    P.raw ≤ r2.1.raw → r2.1.raw ≤ r1.1.raw → r2.2.2.1.raw ≤ x.raw := by
  intro r1 r2 hback hdir
  have hfar' : Dec.gte (Dec.mul x (Dec.sub Dec.one ⟨0⟩)) (CalcAmountQuoteDelta L tU P true) = false := by
    rw [afterFee_zero x hx]; exact hfar
  exact (roundtrip_no_profit_bucket lim1 lim2 ⟨0⟩ ⟨0⟩ P tU tD L x yIn hL hx (le_refl _) (by decide) hfar' hback hdir).2.2

/-- whole tokens: `X` quote tokens in, the loop's final `TruncateInt` of the quote paid by leg 2 is `≤ X` -/
theorem roundtrip_no_profit_bucket_tokens (lim1 lim2 f f2 P tU tD L yIn : Dec) (X : Int)
    (hL : 0 < L.raw) (hX : 0 ≤ X) (hf0 : 0 ≤ f.raw) (hf1 : f.raw ≤ PREC)
    (hfar : Dec.gte (Dec.mul (Dec.ofInt X) (Dec.sub Dec.one f)) (CalcAmountQuoteDelta L tU P true) = false) :
    let r1 := qfb_ComputeSwapWithinBucketOutGivenIn lim1 f P tU L (Dec.ofInt X)
    let r2 := bfq_ComputeSwapWithinBucketOutGivenIn lim2 f2 r1.1 tD L yIn
    P.raw ≤ r2.1.raw → r2.1.raw ≤ r1.1.raw → Dec.truncateInt r2.2.2.1 ≤ X := by
  intro r1 r2 hback hdir
  have hx : 0 ≤ (Dec.ofInt X).raw := by simp only [Dec.ofInt]; exact Int.mul_nonneg hX (by decide)
  have h := roundtrip_no_profit_bucket lim1 lim2 f f2 P tU tD L (Dec.ofInt X) yIn hL hx hf0 hf1 hfar hback hdir
  have ht := truncateInt_nonneg_bounds r2.2.2.1 h.1
  have h3 : r2.2.2.1.raw ≤ X * PREC := h.2.2
  generalize Dec.truncateInt r2.2.2.1 = t at ht ⊢
  generalize r2.2.2.1.raw = o at ht h3
  simp only [PREC_eq] at ht h3
  omega

/-- `hback` from the exact curve: if leg 2 stops short of its target and the base amount it consumes (after fee) is
    within the exact curve between `P` and `P'`, `a₂·P·P' ≤ L·(P'−P)` (raw: `a₂·P·P' ≤ L·(P'−P)·10^18`), then the
    rounded-up next price of leg 2 is `≥ P`. -/
theorem return_price_ge_start (lim2 f2 P P' tD L yIn : Dec)
    (hP : 0 < P.raw) (hPP : P.raw ≤ P'.raw) (hL : 0 < L.raw)
    (ha : 0 < (Dec.mul yIn (Dec.sub Dec.one f2)).raw)
    (hshort : Dec.gte (Dec.mul yIn (Dec.sub Dec.one f2)) (CalcAmountBaseDelta L tD P' true) = false)
    (hexact : (Dec.mul yIn (Dec.sub Dec.one f2)).raw * P.raw * P'.raw ≤ L.raw * (P'.raw - P.raw) * PREC) :
    P.raw ≤ (bfq_ComputeSwapWithinBucketOutGivenIn lim2 f2 P' tD L yIn).1.raw := by
  rw [bfq_outGivenIn_short lim2 f2 P' tD L yIn hshort]
  have hb := baseIn_next_ge_exact P' L (Dec.mul yIn (Dec.sub Dec.one f2))
  unfold S_baseIn_next_ge_exact at hb
  have hP' : 0 < P'.raw := by omega
  have hN := hb hP' hL ha
  generalize (GetNextSqrtPriceFromAmountBaseInRoundingUp P' L (Dec.mul yIn (Dec.sub Dec.one f2))).raw = N at hN ⊢
  generalize (Dec.mul yIn (Dec.sub Dec.one f2)).raw = a at ha hexact hN
  have hD : 0 < L.raw * PREC + a * P'.raw := by
    have h1 : 0 < L.raw * PREC := Int.mul_pos hL (by decide)
    have h2 : 0 < a * P'.raw := Int.mul_pos ha hP'
    omega
  have hPD : P.raw * (L.raw * PREC + a * P'.raw) ≤ L.raw * P'.raw * PREC := by
    have e : P.raw * (L.raw * PREC + a * P'.raw) = L.raw * P.raw * PREC + a * P.raw * P'.raw := by ring
    have e2 : L.raw * (P'.raw - P.raw) * PREC = L.raw * P'.raw * PREC - L.raw * P.raw * PREC := by ring
    linarith
  have : P.raw * (L.raw * PREC + a * P'.raw) ≤ N * (L.raw * PREC + a * P'.raw) := le_trans hPD hN
  exact le_of_mul_le_mul_right this hD

/-- **FINDING — the round trip CAN profit** (fee 0, one bucket, whole tokens).  P = 10^10, L = 2·10^10 − 8·10⁻⁹,
    X = 2·10^20 − 80 quote tokens in.  Leg 1: P' = 2·10^10 exactly, exact base out = 1 − 4·10⁻¹⁹, but the last banker's
    `Quo` of `CalcAmountBaseDelta(…, false)` rounds it UP to 1.000…0, so `TruncateInt` hands over 1 whole base token
    (exact: 0).  Leg 2: that token moves the price to P'' = 10^10 − 2·10⁻⁹ < P and pays 2·10^20 − 41 quote tokens:
    39 more than were put in (both legs pass their `_ok` guards; neither reaches its target). -/
theorem roundtrip_profit_fee0 :
    let P : Dec := ⟨10^28⟩; let L : Dec := ⟨2*10^28 - 8*10^9⟩; let X : Int := 2*10^20 - 80
    let r1 := qfb_ComputeSwapWithinBucketOutGivenIn ⟨0⟩ ⟨0⟩ P ⟨10^30⟩ L (Dec.ofInt X)
    let y := Dec.truncateInt r1.2.2.1
    let r2 := bfq_ComputeSwapWithinBucketOutGivenIn ⟨0⟩ ⟨0⟩ r1.1 ⟨1⟩ L (Dec.ofInt y)
    qfb_ComputeSwapWithinBucketOutGivenIn_ok ⟨0⟩ ⟨0⟩ P ⟨10^30⟩ L (Dec.ofInt X) = true
    ∧ bfq_ComputeSwapWithinBucketOutGivenIn_ok ⟨0⟩ ⟨0⟩ r1.1 ⟨1⟩ L (Dec.ofInt y) = true
    ∧ Dec.gte (Dec.ofInt X) (CalcAmountQuoteDelta L ⟨10^30⟩ P true) = false
    ∧ r1.1.raw = 2*10^28 ∧ r1.2.1.raw + r1.2.2.2.raw = X * PREC ∧ y = 1
    ∧ r2.1.raw = 10^28 - 2*10^9 ∧ r2.2.1.raw = 1 * PREC
    ∧ Dec.truncateInt r2.2.2.1 = X + 39 := by decide +kernel

/-! ### B. monotonicity in the input -/

theorem chopRoundNN_mono (d1 d2 : Int) (h0 : 0 ≤ d1) (h : d1 ≤ d2) : chopRoundNN d1 ≤ chopRoundNN d2 := by
  by_cases he : d1 = d2
  · subst he; exact le_refl _
  · have b1 := chopRoundNN_bounds d1 h0
    have b2 := chopRoundNN_bounds d2 (le_trans h0 h)
    generalize chopRoundNN d1 = q1 at b1 ⊢
    generalize chopRoundNN d2 = q2 at b2 ⊢
    simp only [PREC_eq, HALF_eq] at b1 b2
    omega

/-- banker's `Mul` by a non-negative factor is monotone on non-negative arguments -/
theorem mul_mono (x1 x2 c : Dec) (h0 : 0 ≤ x1.raw) (h : x1.raw ≤ x2.raw) (hc : 0 ≤ c.raw) :
    (Dec.mul x1 c).raw ≤ (Dec.mul x2 c).raw := by
  have n1 : 0 ≤ x1.raw * c.raw := Int.mul_nonneg h0 hc
  have n2 : 0 ≤ x2.raw * c.raw := Int.mul_nonneg (le_trans h0 h) hc
  have hle : x1.raw * c.raw ≤ x2.raw * c.raw := Int.mul_le_mul_of_nonneg_right h hc
  simp only [Dec.mul, chopRound]
  have m1 : ¬ (x1.raw * c.raw < 0) := by omega
  have m2 : ¬ (x2.raw * c.raw < 0) := by omega
  simp only [m1, m2, if_false]
  exact chopRoundNN_mono _ _ n1 hle

/-- the after-fee input is monotone in the input -/
theorem afterFee_mono (x1 x2 f : Dec) (h0 : 0 ≤ x1.raw) (h : x1.raw ≤ x2.raw) (hf1 : f.raw ≤ PREC) :
    (Dec.mul x1 (Dec.sub Dec.one f)).raw ≤ (Dec.mul x2 (Dec.sub Dec.one f)).raw :=
  mul_mono x1 x2 _ h0 h (by simp only [Dec.sub, Dec.one]; omega)

/-- **B (price).**  Fixed (P, L, f, far target): if the larger input `x₂` stops short of the target then so does the
    smaller `x₁`, and the reached prices are ordered `P ≤ P'₁ ≤ P'₂` — exactly, no rounding slack. -/
theorem bucket_price_mono (lim f P tU L x1 x2 : Dec)
    (hL : 0 < L.raw) (h0 : 0 ≤ x1.raw) (h : x1.raw ≤ x2.raw) (hf0 : 0 ≤ f.raw) (hf1 : f.raw ≤ PREC)
    (hfar : Dec.gte (Dec.mul x2 (Dec.sub Dec.one f)) (CalcAmountQuoteDelta L tU P true) = false) :
    Dec.gte (Dec.mul x1 (Dec.sub Dec.one f)) (CalcAmountQuoteDelta L tU P true) = false
    ∧ P.raw ≤ (qfb_ComputeSwapWithinBucketOutGivenIn lim f P tU L x1).1.raw
    ∧ (qfb_ComputeSwapWithinBucketOutGivenIn lim f P tU L x1).1.raw
        ≤ (qfb_ComputeSwapWithinBucketOutGivenIn lim f P tU L x2).1.raw := by
  have ha := afterFee_mono x1 x2 f h0 h hf1
  have hfar1 : Dec.gte (Dec.mul x1 (Dec.sub Dec.one f)) (CalcAmountQuoteDelta L tU P true) = false := by
    simp only [Dec.gte, decide_eq_false_iff_not, not_le] at hfar ⊢
    omega
  refine ⟨hfar1, (leg1_price lim f P tU L x1 hL h0 hf0 hf1 hfar1).2, ?_⟩
  rw [qfb_outGivenIn_short lim f P tU L x1 hfar1, qfb_outGivenIn_short lim f P tU L x2 hfar]
  have a1 := (afterFee_le x1 f h0 hf0 hf1).1
  have n1 : 0 ≤ (Dec.mul x1 (Dec.sub Dec.one f)).raw * PREC := Int.mul_nonneg a1 (by decide)
  have n2 : 0 ≤ (Dec.mul x2 (Dec.sub Dec.one f)).raw * PREC := Int.mul_nonneg (le_trans a1 ha) (by decide)
  simp only [GetNextSqrtPriceFromAmountQuoteInRoundingDown, Dec.add, Dec.quoTruncate,
    tquo_nonneg_eq n1 (le_of_lt hL), tquo_nonneg_eq n2 (le_of_lt hL)]
  have := Int.ediv_le_ediv hL (Int.mul_le_mul_of_nonneg_right ha (by decide : (0:Int) ≤ PREC))
  omega

/-- **FINDING — the `Dec` output of a bucket step is NOT monotone in the input.**  P = 10⁻⁹, L = 0.9, fee 0, far target;
    inputs 194 and 195 ulps of quote: `Mul(ΔP, L)` is 194 in BOTH cases (215·0.9 = 193.5 → 194 by banker's tie-to-even,
    216·0.9 = 194.4 → 194) while the divisor P' grew, so the base output FALLS from 193.99995829 to 193.999958096
    tokens (by 1.94·10^11 ulps).  Both steps pass the `_ok` guard and stop short of the target. -/
theorem bucket_output_not_mono :
    let P : Dec := ⟨10^9⟩; let L : Dec := ⟨9*10^17⟩
    let r1 := qfb_ComputeSwapWithinBucketOutGivenIn ⟨0⟩ ⟨0⟩ P ⟨10^40⟩ L ⟨194⟩
    let r2 := qfb_ComputeSwapWithinBucketOutGivenIn ⟨0⟩ ⟨0⟩ P ⟨10^40⟩ L ⟨195⟩
    qfb_ComputeSwapWithinBucketOutGivenIn_ok ⟨0⟩ ⟨0⟩ P ⟨10^40⟩ L ⟨194⟩ = true
    ∧ qfb_ComputeSwapWithinBucketOutGivenIn_ok ⟨0⟩ ⟨0⟩ P ⟨10^40⟩ L ⟨195⟩ = true
    ∧ Dec.gte ⟨195⟩ (CalcAmountQuoteDelta L ⟨10^40⟩ P true) = false
    ∧ r1.1.raw = 10^9 + 215 ∧ r2.1.raw = 10^9 + 216
    ∧ r1.2.2.1.raw = 193999958290000000000 ∧ r2.2.2.1.raw = 193999958096000000000
    ∧ r2.2.2.1.raw < r1.2.2.1.raw := by decide +kernel

/-! ### non-vacuity: the hypotheses of the positive theorems hold on a concrete bucket, and the conclusion is checked -/

/-- P = 1.0, L = 10^6, fee 0.3 %, 1000 quote tokens in, the 996 whole base tokens received go back: the price returns
    to P'' ≥ P, `P'' ≤ P'`, and 994 ≤ 1000 quote tokens come back. -/
example :
    let P : Dec := ⟨PREC⟩; let L : Dec := ⟨1000000 * PREC⟩; let f : Dec := ⟨3000000000000000⟩
    let r1 := qfb_ComputeSwapWithinBucketOutGivenIn ⟨0⟩ f P ⟨2 * PREC⟩ L (Dec.ofInt 1000)
    let y := Dec.truncateInt r1.2.2.1
    let r2 := bfq_ComputeSwapWithinBucketOutGivenIn ⟨0⟩ f r1.1 ⟨PREC / 2⟩ L (Dec.ofInt y)
    0 < L.raw ∧ 0 ≤ f.raw ∧ f.raw ≤ PREC
    ∧ Dec.gte (Dec.mul (Dec.ofInt 1000) (Dec.sub Dec.one f)) (CalcAmountQuoteDelta L ⟨2 * PREC⟩ P true) = false
    ∧ P.raw ≤ r2.1.raw ∧ r2.1.raw ≤ r1.1.raw ∧ y = 996 ∧ Dec.truncateInt r2.2.2.1 = 994 := by decide +kernel

#print axioms roundtrip_no_profit_bucket
#print axioms roundtrip_no_profit_bucket_fee0
#print axioms roundtrip_no_profit_bucket_tokens
#print axioms return_price_ge_start
#print axioms roundtrip_profit_fee0
#print axioms bucket_price_mono
#print axioms bucket_output_not_mono

end Sunrise.C05Round
