import SunriseVerif.Lemmas.C20
/-!
C20 — erasure coding, proof binding, shard assignment. PROPERTY THEOREMS (helpers: `Lemmas/C20.lean`).

* padding / split / join: `join_split_pad` (executable model of erasurecoding.go, all blobs, all k > 0)
* the code: `any_k_rows_invertible`, `reconstruct_exact`, `surviving_shards_determine_data`, `encode_top`
  (ANY field, all n, k ≤ n, all shard lengths; Mathlib `det_vandermonde_ne_zero_iff`), `too_many_erasures_err`
  (executable model: fewer than k surviving shards ⇒ error)
* shard assignment: `assign_spec`, `assign_deterministic`, `assign_pcg_spec`, `assign_panics`
* validity proof relation: `relation_binds`, `relation_complete`, `relation_bytes_mod_r`, `submit_ok_sound`
  (proof loop of `Msg/SubmitValidityProof`)
-/
namespace Sunrise.C20
open Sunrise Sunrise.RS Sunrise.Shards Sunrise.Zk Matrix

/-! ## padding / split / join -/

/-- **T1** `join (split (pad blob k) k) blob.length = blob` for every blob and every data-shard count `k > 0`,
    with the size arithmetic of `ErasureCode` / `reedSolomon.Join`. -/
theorem join_split_pad (blob : List UInt8) (k : Nat) (hk : 0 < k) :
    join (split (pad blob k) k) blob.length = .ok blob := by
  unfold join split
  rw [joinWrite_eq, splitSized_flatten]
  have hl := pad_length blob k hk
  have hdiv : (pad blob k).length / k = shardSize blob.length k := by
    rw [hl]; exact Nat.mul_div_cancel _ hk
  rw [hdiv, Nat.mul_comm, ← hl, List.take_length, pad_eq _ _ hk, List.take_left']
  rfl

example : join (split (pad [1, 2, 3, 4, 5] 3) 3) 5 = .ok [1, 2, 3, 4, 5] := by rfl


/-- **`encode_then_join_partial`** — whenever `ErasureCode(blob, d, p)` succeeds, it returns `d+p` shards, the first `d`
    of which are the split padded blob, and `JoinShards(shards, d, len(blob))` returns the blob.
    FULL statement (false, finding C20-empty-blob, `Witness/C20.lean`): "for every blob and every valid (d,p) encoding
    succeeds". The extra hypothesis here is `erasureCode blob d p = .ok e`; it fails exactly for the empty blob (shard
    size 0 ⇒ library error) — and, in the model only, if the generator matrix could not be built (never, by
    `any_k_rows_invertible` for a field; the executable GF(2^8) inversion is tied by the correspondence run). -/
theorem encode_then_join_partial (blob : List UInt8) (d p : Int) (e : Encoded)
    (h : erasureCode blob d p = .ok e) :
    e.shardCount = (d + p).toNat ∧ e.shards.length = e.shardCount ∧ e.shardSize = shardSize blob.length d.toNat ∧
    e.shards.take d.toNat = splitSized (pad blob d.toNat) d.toNat e.shardSize ∧
    joinShards (e.shards.map some) d blob.length = .ok blob := by
  unfold erasureCode at h
  cases hn : newEncoder d p with
  | err => rw [hn] at h; simp at h
  | unmodelled => rw [hn] at h; simp at h
  | ok =>
    rw [hn] at h
    simp only at h
    have hd : 0 < d ∧ 0 ≤ p ∧ d + p ≤ 256 := by
      unfold newEncoder at hn
      split at hn
      · split at hn <;> simp at hn
      · split at hn
        · simp at hn
        · rename_i h1 h2
          simp only [Bool.or_eq_true, decide_eq_true_eq, not_or, not_le, not_lt] at h2
          omega
    split at h
    · simp at h
    · split at h
      · simp at h
      · rename_i hsz par hp
        simp only [Res.ok.injEq] at h
        subst h
        have hk : 0 < d.toNat := by omega
        have hpl := encodeParity_length _ _ _ _ _ hp
        have hdl := splitSized_length (pad blob d.toNat) d.toNat (shardSize blob.length d.toNat)
        refine ⟨rfl, ?_, rfl, ?_, ?_⟩
        · simp only [List.length_append, hpl, hdl]; omega
        · simp only
          rw [List.take_left' hdl]
        · unfold joinShards
          have hlen : (((splitSized (pad blob d.toNat) d.toNat (shardSize blob.length d.toNat) ++ par).map some).length : Int) - d = p := by
            simp only [List.length_map, List.length_append, hpl, hdl]; omega
          simp only
          rw [hlen, hn]
          simp only
          unfold joinLib
          simp only [← List.map_take, List.take_left' hdl]
          rw [enough_some]
          have hfl : (splitSized (pad blob d.toNat) d.toNat (shardSize blob.length d.toNat)).flatten = pad blob d.toNat := by
            rw [splitSized_flatten, Nat.mul_comm, ← pad_length blob _ hk, List.take_length]
          have hge : (0 : Int) + (((splitSized (pad blob d.toNat) d.toNat (shardSize blob.length d.toNat)).flatten.length : Nat) : Int) ≥ (blob.length : Int) := by
            rw [hfl, pad_length blob _ hk, shardSize_mul _ _ hk]
            have := (paddedLen_spec blob.length d.toNat hk).2.1
            omega
          simp only [hge, decide_true]
          have hb : (List.map Shard.bytes (List.map some (splitSized (pad blob d.toNat) d.toNat (shardSize blob.length d.toNat)))) = splitSized (pad blob d.toNat) d.toNat (shardSize blob.length d.toNat) := by
            simp [List.map_map, Shard.bytes, Function.comp_def]
          rw [hb, joinWrite_eq, hfl, pad_eq _ _ hk, List.take_left']
          rfl

/-- **`encode_then_reconstruct_partial`** — end to end on the EXECUTABLE model, no erasures: whenever `ErasureCode`
    succeeds, `ReconstructAndJoinShards(shards, d, len(blob))` returns the blob (all shards present ⇒ `Reconstruct` leaves
    them untouched). Same extra hypothesis as `encode_then_join_partial`. With erasures the executable statement rests on
    the GF(2^8) inversion, which is tied by correspondence, and on `reconstruct_exact` for the mathematics. -/
theorem encode_then_reconstruct_partial (blob : List UInt8) (d p : Int) (e : Encoded)
    (h : erasureCode blob d p = .ok e) :
    reconstructAndJoin (e.shards.map some) d blob.length = .ok blob := by
  obtain ⟨hc, hl, hsz, htake, hj⟩ := encode_then_join_partial blob d p e h
  -- unpack once more for the shard lengths
  have h' := h
  unfold erasureCode at h'
  cases hn : newEncoder d p with
  | err => rw [hn] at h'; simp at h'
  | unmodelled => rw [hn] at h'; simp at h'
  | ok =>
    rw [hn] at h'
    simp only at h'
    have hd : 0 < d ∧ 0 ≤ p := by
      unfold newEncoder at hn
      split at hn
      · split at hn <;> simp at hn
      · split at hn
        · simp at hn
        · rename_i h1 h2
          simp only [Bool.or_eq_true, decide_eq_true_eq, not_or, not_le, not_lt] at h2
          omega
    split at h'
    · simp at h'
    · rename_i hsize
      split at h'
      · simp at h'
      · rename_i par hp
        simp only [Res.ok.injEq] at h'
        subst h'
        have hk : 0 < d.toNat := by omega
        have hall : ∀ s ∈ splitSized (pad blob d.toNat) d.toNat (shardSize blob.length d.toNat) ++ par,
            s.length = shardSize blob.length d.toNat := by
          intro s hs
          rcases List.mem_append.mp hs with h1 | h1
          · exact splitSized_lens _ _ _ (by rw [pad_length _ _ hk, Nat.mul_comm]) s h1
          · exact encodeParity_lens _ _ _ _ _ hp s h1
        have hne : splitSized (pad blob d.toNat) d.toNat (shardSize blob.length d.toNat) ++ par ≠ [] := by
          intro hnil
          have := congrArg List.length hnil
          simp [splitSized_length] at this
          omega
        unfold reconstructAndJoin
        have hlen : (((splitSized (pad blob d.toNat) d.toNat (shardSize blob.length d.toNat) ++ par).map some).length : Int) - d = p := by
          have hpl := encodeParity_length _ _ _ _ _ hp
          simp only [List.length_map, List.length_append, hpl, splitSized_length]; omega
        simp only
        rw [hlen, hn]
        simp only
        rw [reconstruct_all_present _ _ _ hsize hne hall]
        exact hj

example : ∃ e, erasureCode [1, 2, 3, 4, 5] 3 2 = .ok e := erasureCode_example

/-! ## shard assignment -/

/-- **T1 `assign_spec`** — for EVERY choice function (every random source that returns an index `≤ i` at loop
    position `i`, as `Rand.uint64n(i+1)` does), every shard count `n ≥ 0` and threshold `≥ 0`:
    `GetRandomIndicesFromSeed` returns `min(threshold, n)` indices, pairwise distinct, each in `[0,n)`. -/
theorem assign_spec (c : Nat → Nat) (n t : Int) (hn : 0 ≤ n) (ht : 0 ≤ t)
    (hc : ∀ i, 1 ≤ i → i < n.toNat → c i ≤ i) :
    ∃ l, assignWith c n t = .ok l ∧ (l.length : Int) = min t n ∧ l.Nodup ∧ ∀ x ∈ l, 0 ≤ x ∧ x < n := by
  obtain ⟨N, rfl⟩ := Int.eq_ofNat_of_zero_le hn
  unfold assignWith
  have hn' : ¬ ((N : Int) < 0) := by omega
  simp only [hn', if_false, Int.toNat_natCast]
  by_cases hN : N = 0
  · subst hN
    have e : (if t > ((0 : Nat) : Int) then ((0 : Nat) : Int) else t) = 0 := by split <;> omega
    simp only [e]
    refine ⟨[], ?_, ?_, List.nodup_nil, by simp⟩
    · simp [shuffleFrom]
    · simp; omega
  · obtain ⟨l', hs, ha⟩ := shuffleFrom_ok c N (N - 1) (List.range N) (by omega) (Arr_range N)
      (fun i h1 h2 => hc i h1 (by simp; omega))
    rw [hs]
    have ht' : ¬ ((if t > (N : Int) then (N : Int) else t) < 0) := by split <;> omega
    simp only [ht', if_false]
    refine ⟨_, rfl, ?_, ?_, ?_⟩
    · simp only [List.length_map, List.length_take, ha.1]
      split <;> omega
    · exact (Arr_take_nodup ha _).map Int.ofNat_injective
    · intro x hx
      obtain ⟨v, hv, rfl⟩ := List.mem_map.mp hx
      have hv' := List.mem_of_mem_take hv
      obtain ⟨k, hk, rfl⟩ := List.getElem_of_mem hv'
      have := ha.2.2 k l'[k] (by simp [hk])
      constructor
      · exact Int.natCast_nonneg _
      · show ((l'[k] : Nat) : Int) < (N : Int)
        exact_mod_cast this

example : assignWith (fun i => i / 2) 5 3 = .ok [4, 0, 3] := by rfl

theorem shuffleFrom_congr (c c' : Nat → Nat) : ∀ (m : Nat) (l : List Nat),
    (∀ i, 1 ≤ i → i ≤ m → c i = c' i) → shuffleFrom c m l = shuffleFrom c' m l := by
  intro m
  induction m with
  | zero => intro l _; rfl
  | succ i ih =>
    intro l h
    unfold shuffleFrom
    rw [h (i + 1) (by omega) (Nat.le_refl _), ih _ (fun k h1 h2 => h k h1 (by omega))]

/-- **T1 (function of the choices only)** — the result depends on nothing but `n`, `threshold` and the choices made at
    loop positions `1 … n-1`; in `GetRandomIndicesFromSeed` those are a function of `(seed1, seed2)` (model `assign`,
    which has no other argument), and `ShardIndicesForValidator` fixes `seed2 = 1024`, `seed1 = ValidatorSeed(addr)`. -/
theorem assign_deterministic (c c' : Nat → Nat) (n t : Int)
    (h : ∀ i, 1 ≤ i → i < n.toNat → c i = c' i) : assignWith c n t = assignWith c' n t := by
  unfold assignWith
  rw [shuffleFrom_congr c c' (n.toNat - 1) _ (fun i h1 h2 => h i h1 (by omega))]

/-- the quirks, stated rather than hidden: a negative shard count panics in `Shuffle`, a negative threshold panics in
    `arr[:threshold]` (callers pass `len(ShardDoubleHashes)` and a threshold computed from it, both ≥ 0) -/
theorem assign_panics (c : Nat → Nat) (n t : Int) :
    (n < 0 → assignWith c n t = .panic .explicit) ∧
    (0 ≤ n → t < 0 → (∀ i, 1 ≤ i → i < n.toNat → c i ≤ i) → assignWith c n t = .panic .indexRange) := by
  constructor
  · intro h; unfold assignWith; simp [h]
  · intro hn ht hc
    obtain ⟨l, hl, -⟩ := assign_spec c n 0 hn (Int.le_refl 0) hc
    unfold assignWith at hl ⊢
    have hn' : ¬ (n < 0) := by omega
    simp only [hn', if_false] at hl ⊢
    cases hs : shuffleFrom c (n.toNat - 1) (List.range n.toNat) with
    | ok l' =>
      have : (if t > n then n else t) < 0 := by split <;> omega
      simp [this]
    | err e => rw [hs] at hl; simp at hl
    | panic k => rw [hs] at hl; simp at hl

/-- **T1 for the exact PCG model** (the function compared index for index with Go): unless the unbiasing loop of
    `uint64n` exhausts its 64 retries (probability < (n/2^64)^64 per draw; then the model reports `err "pcg-fuel"`
    instead of guessing), `GetRandomIndicesFromSeed(n, threshold, seed1, seed2)` satisfies the specification. -/
theorem assign_pcg_spec (seed1 seed2 : Nat) (n t : Int) (hn : 0 ≤ n) (ht : 0 ≤ t) :
    assign seed1 seed2 n t = .err "pcg-fuel" ∨
    ∃ l, assign seed1 seed2 n t = .ok l ∧ (l.length : Int) = min t n ∧ l.Nodup ∧ ∀ x ∈ l, 0 ≤ x ∧ x < n := by
  unfold assign
  simp only
  cases h : pcgChoices (n.toNat - 1) (seed1 % two64 * two64 + seed2 % two64) with
  | none => left; rfl
  | some l =>
    right
    exact assign_spec _ n t hn ht (fun i h1 h2 => choiceFn_pcg_le _ _ l h i h1 (by omega))

example : assign 7 1024 10 4 = .ok [8, 6, 0, 2] := by rfl

/-! ## validity-proof relation -/

/-- **T1 `relation_binds`** — the public value is determined by the private shard hash: a witness `h` satisfies the
    circuit for at most one double hash (as a field element). With knowledge soundness of Groth16 (trusted) a proof made
    from `h` therefore verifies against `MiMC(h)` only. -/
theorem relation_binds {F : Type} (mimc : F → F) (h y y' : F) (h1 : R mimc h y) (h2 : R mimc h y') : y = y' := by
  unfold R at h1 h2; rw [← h1, ← h2]

/-- completeness of the relation: the honest double hash satisfies it -/
theorem relation_complete {F : Type} (mimc : F → F) (h : F) : R mimc h (mimc h) := rfl

example : R (fun x : Nat => x * x + 1) 3 10 := by decide

/-- what the CHAIN checks is the relation on `decode y = (big-endian y) mod r`: two byte strings are interchangeable
    as public input iff they decode to the same field element (so "against no other" holds for field elements, and for
    byte strings only up to this congruence — finding C20-noncanonical-double-hash, `Witness/C20.lean`) -/
theorem relation_bytes_mod_r (mimc : Nat → Nat) (h : Nat) (y y' : List UInt8) (hy : relBytes mimc h y) :
    relBytes mimc h y' ↔ decode y' = decode y := by
  unfold relBytes R at *
  constructor
  · intro h'; rw [← hy, ← h']
  · intro e; rw [e]; exact hy

/-- **handler soundness (relation level)** — if the proof loop of `Msg/SubmitValidityProof` accepts, then there are as many
    proofs as indices, every index is inside `shard_double_hashes`, and every proof's value `MiMC(h_k)` equals the
    field element of the double hash stored AT THAT INDEX (not any other). -/
theorem submit_ok_sound (idx : List Int) (ms : List Nat) (ys : List (List UInt8))
    (h : submitValidityProof idx ms ys = .ok ()) :
    idx.length = ms.length ∧
    ∀ k (hk : k < idx.length) (hk' : k < ms.length),
      0 ≤ idx[k] ∧ idx[k] < ys.length ∧ relBytes (fun _ => ms[k]) 0 (ys.getD idx[k].toNat []) := by
  unfold submitValidityProof at h
  split at h
  · simp at h
  · rename_i hl
    have hl' : idx.length = ms.length := by omega
    exact ⟨hl', fun k hk hk' => submit_go_ok ys idx ms hl' h k hk hk'⟩

example : (submitValidityProof [1, 0] [7, 5] [[5], [0, 7]]).isOk = true := by decide +kernel
example : (submitValidityProof [0] [7] [[5], [7]]).isOk = false := by decide +kernel

/-! ## the code over an arbitrary field -/

section Code
variable {F : Type*} [Field F] {n k : ℕ}

/-- **T2 `any_k_rows_invertible`** — over ANY field, for distinct nodes, EVERY choice of `k` distinct rows of the
    generator `G = V·V_top⁻¹` gives an invertible `k×k` matrix. -/
theorem any_k_rows_invertible (a : Fin n → F) (ha : Function.Injective a) (hk : k ≤ n)
    (rows : Fin k → Fin n) (hr : Function.Injective rows) :
    IsUnit ((gen a hk).submatrix rows id).det := by
  rw [gen_rows, det_mul, isUnit_iff_ne_zero]
  have htop := det_rows_ne_zero a ha (Fin.castLE hk) (Fin.castLE_injective hk)
  refine mul_ne_zero (det_rows_ne_zero a ha rows hr) ?_
  rw [det_nonsing_inv, Ring.inverse_eq_inv']
  exact inv_ne_zero htop


/-- the generator is systematic: its top `k` rows are the identity (data shards are stored unchanged) -/
theorem gen_top (a : Fin n → F) (ha : Function.Injective a) (hk : k ≤ n) :
    (gen a hk).submatrix (Fin.castLE hk) id = 1 := by
  rw [gen_rows]
  have htop := det_rows_ne_zero a ha (Fin.castLE hk) (Fin.castLE_injective hk)
  exact Matrix.mul_nonsing_inv _ (isUnit_iff_ne_zero.mpr htop)

/-- encoding of `k` data shards of `m` symbols each (rows of `D`) into `n` shards -/
noncomputable def encode (a : Fin n → F) (hk : k ≤ n) {m : ℕ} (D : Matrix (Fin k) (Fin m) F) : Matrix (Fin n) (Fin m) F :=
  gen a hk * D

/-- decoding from the `k` surviving shards `rows`: multiply by the inverse of the selected sub-matrix
    (`reedSolomon.reconstruct`: `subMatrix.Invert()` then `codeSomeShards`) -/
noncomputable def decode (a : Fin n → F) (hk : k ≤ n) (rows : Fin k → Fin n) {m : ℕ}
    (S : Matrix (Fin k) (Fin m) F) : Matrix (Fin k) (Fin m) F :=
  ((gen a hk).submatrix rows id)⁻¹ * S

/-- **T2 `reconstruct_exact`** — from ANY `k` distinct surviving shards (i.e. after losing any `n-k` = parity-count
    shards, or fewer) decoding returns exactly the data shards; all `n`, `k ≤ n`, all shard lengths `m`, any field. -/
theorem reconstruct_exact (a : Fin n → F) (ha : Function.Injective a) (hk : k ≤ n)
    (rows : Fin k → Fin n) (hr : Function.Injective rows) {m : ℕ} (D : Matrix (Fin k) (Fin m) F) :
    decode a hk rows ((encode a hk D).submatrix rows id) = D := by
  unfold decode encode
  have e : (gen a hk * D).submatrix rows id = (gen a hk).submatrix rows id * D := by
    rw [← Matrix.submatrix_mul_equiv (e₂ := Equiv.refl (Fin k))]; rfl
  rw [e, ← Matrix.mul_assoc, Matrix.nonsing_inv_mul _ (any_k_rows_invertible a ha hk rows hr), Matrix.one_mul]

/-- the surviving shards determine the data: two data blocks that agree on any `k` encoded shards are equal
    (so a decoder can never return WRONG data from `k` genuine shards) -/
theorem surviving_shards_determine_data (a : Fin n → F) (ha : Function.Injective a) (hk : k ≤ n)
    (rows : Fin k → Fin n) (hr : Function.Injective rows) {m : ℕ} (D D' : Matrix (Fin k) (Fin m) F)
    (h : (encode a hk D).submatrix rows id = (encode a hk D').submatrix rows id) : D = D' := by
  rw [← reconstruct_exact a ha hk rows hr D, ← reconstruct_exact a ha hk rows hr D', h]

/-- data shards are stored unchanged (systematic code) -/
theorem encode_top (a : Fin n → F) (ha : Function.Injective a) (hk : k ≤ n) {m : ℕ} (D : Matrix (Fin k) (Fin m) F) :
    (encode a hk D).submatrix (Fin.castLE hk) id = D := by
  unfold encode
  have e : (gen a hk * D).submatrix (Fin.castLE hk) id = (gen a hk).submatrix (Fin.castLE hk) id * D := by
    rw [← Matrix.submatrix_mul_equiv (e₂ := Equiv.refl (Fin k))]; rfl
  rw [e, gen_top a ha hk, Matrix.one_mul]

/-- **converse (why an error is the only correct answer beyond the parity count)** — from FEWER than `k` shards the
    data is not determined: for any `j < k` surviving rows there are two different data blocks with identical surviving
    shards. Hence no decoder can be right for both, and `too_many_erasures_err` (below) is the required behaviour. -/
theorem fewer_than_k_rows_ambiguous (a : Fin n → F) (hk : k ≤ n) {j : ℕ} (hj : j < k) (rows : Fin j → Fin n) :
    ∃ D D' : Matrix (Fin k) (Fin 1) F, D ≠ D' ∧
      (encode a hk D).submatrix rows id = (encode a hk D').submatrix rows id := by
  obtain ⟨v, hv0, hv⟩ := exists_ker_of_lt ((gen a hk).submatrix rows id) hj
  refine ⟨Matrix.of fun i _ => v i, 0, ?_, ?_⟩
  · intro h
    apply hv0
    funext i
    have := congrFun (congrFun h i) 0
    simpa using this
  · unfold encode
    ext i c
    have := congrFun hv i
    simp only [Matrix.mulVec, dotProduct, Matrix.submatrix_apply, id_eq, Pi.zero_apply] at this
    simp [Matrix.mul_apply, this]

end Code

/-- non-vacuity: GF(5)-like instance over ℚ — 4 shards, 2 data, nodes 0,1,2,3; rows 2 and 3 (both data shards lost) -/
example : IsUnit ((gen (n := 4) (k := 2) (fun i : Fin 4 => ((i : ℕ) : ℚ)) (by decide)).submatrix ![2, 3] id).det :=
  any_k_rows_invertible _ (fun i j h => by exact Fin.ext (by exact_mod_cast h)) _ _
    (by intro i j h; fin_cases i <;> fin_cases j <;> simp_all)

/-! ## too many erasures ⇒ error (executable model of `ReconstructAndJoinShards`) -/

theorem reconstruct_too_few (shards : List Shard) (k : Nat) (hk : k ≤ shards.length)
    (h : (shards.filter fun s => s.len ≠ 0).length < k) : ∃ e, reconstruct shards k = .err e := by
  unfold reconstruct
  simp only
  split
  · exact ⟨_, rfl⟩
  · split
    · exact ⟨_, rfl⟩
    · have hne : ¬ ((shards.filter fun s => s.len ≠ 0).length = shards.length) := by omega
      rw [if_neg hne]; exact ⟨_, rfl⟩

/-- **`too_many_erasures_err`** — if fewer than `dataShardCount` shards survive (more than `parity` were lost),
    `ReconstructAndJoinShards` returns an error for every blob size — never bytes. -/
theorem too_many_erasures_err (shards : List Shard) (d blobSize : Int)
    (h : ((shards.filter fun s => s.len ≠ 0).length : Int) < d) :
    ∃ e, reconstructAndJoin shards d blobSize = .err e := by
  unfold reconstructAndJoin
  cases hn : newEncoder d (shards.length - d) with
  | err => exact ⟨_, rfl⟩
  | unmodelled => exact ⟨_, rfl⟩
  | ok =>
    simp only
    have hd : 0 < d ∧ d ≤ shards.length := by
      unfold newEncoder at hn
      split at hn
      · split at hn <;> simp at hn
      · split at hn
        · simp at hn
        · rename_i h1 h2
          simp only [Bool.or_eq_true, decide_eq_true_eq, not_or, not_le, not_lt] at h2
          omega
    obtain ⟨e, he⟩ := reconstruct_too_few shards d.toNat (by omega) (by omega)
    rw [he]
    exact ⟨_, rfl⟩

example : ∃ e, reconstructAndJoin [some [1, 2], none, none, some [3, 4]] 3 6 = .err e :=
  too_many_erasures_err _ _ _ (by decide)

end Sunrise.C20
