import SunriseVerif.Model.IbcSwap
/-!
C11 — IBC swap: conservation, one acknowledgement, only after every leg resolves.
Model: `Model/IbcSwap.lean` (tied to the real IBC stack by the `ibc` correspondence suite).
-/
set_option linter.unusedSimpArgs false
set_option linter.unusedVariables false
namespace Sunrise.C11
open Sunrise Sunrise.IbcSwap

/-! ## basic facts about the pieces -/

@[simp] theorem upd_same {β} (f : Idx → β) (i : Idx) (v : β) : upd f i v i = v := by simp [upd]
@[simp] theorem upd_other {β} (f : Idx → β) (i j : Idx) (v : β) (h : j ≠ i) : upd f i v j = f j := by simp [upd, h]

@[simp] theorem touch_bank (s : St) (i : Idx) : (s.touch i).bank = s.bank := by unfold St.touch; split <;> rfl
@[simp] theorem touch_inc (s : St) (i : Idx) : (s.touch i).inc = s.inc := by unfold St.touch; split <;> rfl
@[simp] theorem touch_out (s : St) (i : Idx) : (s.touch i).out = s.out := by unfold St.touch; split <;> rfl
@[simp] theorem touch_acks (s : St) (i : Idx) : (s.touch i).acks = s.acks := by unfold St.touch; split <;> rfl
@[simp] theorem touch_ackLog (s : St) (i : Idx) : (s.touch i).ackLog = s.ackLog := by unfold St.touch; split <;> rfl
@[simp] theorem touch_receipts (s : St) (i : Idx) : (s.touch i).receipts = s.receipts := by unfold St.touch; split <;> rfl
@[simp] theorem touch_commits (s : St) (i : Idx) : (s.touch i).commits = s.commits := by unfold St.touch; split <;> rfl
@[simp] theorem touch_nextSeq (s : St) (i : Idx) : (s.touch i).nextSeq = s.nextSeq := by unfold St.touch; split <;> rfl

theorem bind_ok {α β} {r : Res α} {f : α → Res β} {y : β} (h : r.bind f = .ok y) : ∃ a, r = .ok a ∧ f a = .ok y := by
  cases r with
  | ok a => exact ⟨a, rfl, h⟩
  | err c => simp [Res.bind] at h
  | panic k => simp [Res.bind] at h

/-- an acknowledged slot is never overwritten, neither by a later acknowledgement nor by a re-send -/
theorem slot_ack_stable (t : String) (i j : Idx) (tok : String) :
    fillSlot (.ack t) i tok = .ack t ∧ moveSlot (.ack t) i j = .ack t := by simp [fillSlot, moveSlot]

/-- an event of outgoing packet `i` touches only the slot that holds index `i` -/
theorem fillSlot_other (sl : Slot) (i : Idx) (tok : String) (h : sl ≠ .idx i) : fillSlot sl i tok = sl := by
  cases sl with
  | none => rfl
  | ack t => rfl
  | idx j =>
    have : j ≠ i := fun e => h (by rw [e])
    simp [fillSlot, this]

theorem fillSlot_own (i : Idx) (tok : String) : fillSlot (.idx i) i tok = .ack tok := by simp [fillSlot]

end Sunrise.C11
