import SunriseVerif.Lemmas.IbcSwap
/-!
C11 — IBC swap: conservation, one acknowledgement, only after every leg resolves.

Model: `Model/IbcSwap.lean` (the swap middleware, its keeper, both in-flight stores, ibc core's receive/ack/timeout
semantics, the transfer application) — tied to the real IBC stack by the `ibc` correspondence suite on every run.
Histories: arbitrary lists of user transfers and relayer messages (`Op`), any order, any length (`run`).
Spec reading: an incoming swap packet has up to two legs (change, forward); a leg is outstanding while its slot
holds an outgoing index and has its outcome once the slot holds an acknowledgement.
-/
set_option linter.unusedSimpArgs false
set_option linter.unusedVariables false
namespace Sunrise.C11
open Sunrise Sunrise.IbcSwap

/-- start of a history: no in-flight record, no receipt, no acknowledgement (bank, sequences, commitments arbitrary) -/
def Fresh (s : St) : Prop :=
  s.inc = (fun _ => none) ∧ s.acks = (fun _ => none) ∧ s.ackLog = [] ∧ s.receipts = (fun _ => false)

theorem fresh_inv {s : St} (h : Fresh s) : Inv s := by
  obtain ⟨h1, h2, h3, h4⟩ := h
  constructor <;> simp [h1, h2, h3, h4]

/-- a leg of the waiting record is still outstanding -/
def Outstanding (r : IncRec) : Prop := (r.change.isIdx || r.forward.isIdx) = true

/-! ## one acknowledgement, only after every leg has its outcome, records gone -/

/-- ONE_ACK. After ANY history, `WriteAcknowledgement` has been called at most once per incoming packet (the log of all
    calls has no repeated packet), and the log is exactly the set of acknowledgements in the channel store. -/
theorem one_ack (s0 : St) (os : List Op) (h0 : Fresh s0) :
    ((run s0 os).ackLog.map Prod.fst).Nodup ∧
    ∀ i a, (i, a) ∈ (run s0 os).ackLog ↔ (run s0 os).acks i = some a := by
  have hi := run_inv os (fresh_inv h0)
  exact ⟨hi.logNodup, fun i a => ⟨hi.logAcks i a, hi.acksLog i a⟩⟩

/-- ONLY AFTER ALL LEGS. After any history: while an incoming packet still has a waiting record, (a) some leg is still
    outstanding — a record whose legs all have outcomes never stays in the store — and (b) no acknowledgement for that
    packet has been written. Hence an acknowledgement exists only when no slot holds an outgoing index any more. -/
theorem ack_only_after_all_legs (s0 : St) (os : List Op) (h0 : Fresh s0) (i : Idx) (r : IncRec)
    (hr : (run s0 os).inc i = some r) :
    Outstanding r ∧ r.index = i ∧ (run s0 os).acks i = none ∧ ∀ a, (i, a) ∉ (run s0 os).ackLog := by
  have hi := run_inv os (fresh_inv h0)
  refine ⟨hi.wait i r hr, hi.key i r hr, hi.noack i r hr, ?_⟩
  intro a hm
  have := hi.logAcks i a hm
  rw [hi.noack i r hr] at this
  cases this

/-- RECORDS GONE (incoming). After any history: once the acknowledgement of an incoming packet is written, no waiting
    record of that packet remains. -/
theorem records_gone (s0 : St) (os : List Op) (h0 : Fresh s0) (i : Idx) (a : Ack)
    (ha : (i, a) ∈ (run s0 os).ackLog) : (run s0 os).inc i = none := by
  have hi := run_inv os (fresh_inv h0)
  cases hq : (run s0 os).inc i with
  | none => rfl
  | some r =>
    have h1 := hi.noack i r hq
    rw [hi.logAcks i a ha] at h1
    cases h1

/-- RECORDS GONE (outgoing). An acknowledgement of an outgoing packet whose waiting record exists removes the
    outgoing record; so does its timeout (the re-sent packet gets a record under its NEW index only). -/
theorem outgoing_record_removed (s s' : St) (o : OutRec) (tok : String) (r : IncRec)
    (hr : s.inc o.wait = some r)
    (h : keeperOnAck s o tok = .ok s') : s'.out o.index = none := by
  unfold keeperOnAck at h
  rw [hr] at h
  simp only at h
  unfold finishWaiting shouldDelete at h
  split at h
  · simp only [Res.bind, Bool.false_eq_true, if_false, Res.ok.injEq] at h; subst h; simp
  · split at h
    · simp only [Res.bind, Bool.false_eq_true, if_false, Res.ok.injEq] at h; subst h; simp
    · obtain ⟨⟨s2, d⟩, h1, h2⟩ := bind_ok h
      obtain ⟨s1, hw, h3⟩ := bind_ok h1
      simp only [Res.ok.injEq, Prod.mk.injEq] at h3
      obtain ⟨h3, hd⟩ := h3
      subst h3 hd
      simp only [if_true, Res.ok.injEq] at h2
      subst h2
      unfold writeAck at hw
      split at hw
      · simp at hw
      · simp only [Res.ok.injEq] at hw; subst hw; simp

/-! ## the acknowledgement reports each leg's own result -/

/-- what the tail of both handlers writes: nothing while a leg is outstanding; otherwise exactly one combined
    acknowledgement carrying the swap result and the two slots' tokens, and the record is deleted -/
theorem finishWaiting_writes (s s' : St) (r : IncRec) (h : finishWaiting s r = .ok s') :
    (Outstanding r → s'.ackLog = s.ackLog ∧ s'.inc r.index = some r) ∧
    (¬ Outstanding r → s'.ackLog = (r.index, ⟨true, swapAckTok r.resIn r.resOut r.ackTok (slotTok r.change) (slotTok r.forward)⟩) :: s.ackLog
        ∧ s'.inc r.index = none) := by
  unfold finishWaiting shouldDelete at h
  unfold Outstanding
  by_cases hc : r.change.isIdx = true
  · simp only [hc, if_true, Res.bind, Bool.false_eq_true, if_false, Res.ok.injEq] at h
    subst h; simp [hc]
  · by_cases hf : r.forward.isIdx = true
    · simp only [hc, hf, if_true, if_false, Res.bind, Bool.false_eq_true, Res.ok.injEq] at h
      subst h; simp [hf]
    · simp only [hc, hf, if_false, Bool.false_eq_true] at h
      obtain ⟨⟨s2, d⟩, h1, h2⟩ := bind_ok h
      obtain ⟨s1, hw, h3⟩ := bind_ok h1
      simp only [Res.ok.injEq, Prod.mk.injEq] at h3
      obtain ⟨h3, hd⟩ := h3
      subst h3 hd
      simp only [if_true, Res.ok.injEq] at h2
      subst h2
      unfold writeAck at hw
      split at hw
      · simp at hw
      · simp only [Res.ok.injEq] at hw; subst hw
        simp [hc, hf]

/-- an acknowledged slot is never overwritten, neither by a later acknowledgement nor by a re-send -/
theorem slot_ack_stable (t : String) (i j : Idx) (tok : String) :
    fillSlot (.ack t) i tok = .ack t ∧ moveSlot (.ack t) i j = .ack t := by simp [fillSlot, moveSlot]

/-- an event of outgoing packet `i` touches only the slot that holds index `i` -/
theorem fillSlot_other (sl : Slot) (i : Idx) (tok : String) (h : sl ≠ .idx i) : fillSlot sl i tok = sl := by
  cases sl with
  | none => rfl
  | ack t => rfl
  | idx j =>
    have : j ≠ i := fun e => h (by rw [e])
    simp [fillSlot, this]

/-- ACK REPORTS EACH LEG (first leg of two). The acknowledgement of the change packet, while the forward packet is still
    in flight under a different index, fills the change slot only, writes NOTHING, and keeps the record. (Symmetric for
    forward: `fillSlot_other` is slot-agnostic.) -/
theorem first_leg_waits (s s' : St) (o : OutRec) (tok : String) (r : IncRec) (j : Idx)
    (hr : s.inc o.wait = some r) (hc : r.change = .idx o.index) (hf : r.forward = .idx j) (hne : j ≠ o.index)
    (h : keeperOnAck s o tok = .ok s') :
    s'.ackLog = s.ackLog ∧ s'.inc r.index = some { r with change := .ack tok } := by
  unfold keeperOnAck at h
  rw [hr] at h
  simp only at h
  have hfo : fillSlot r.forward o.index tok = r.forward := fillSlot_other _ _ _ (by rw [hf]; intro e; cases e; exact hne rfl)
  rw [hc, hfo] at h
  simp only [fillSlot, if_true] at h
  have := (finishWaiting_writes _ _ _ h).1 (by unfold Outstanding; simp [hf, Slot.isIdx])
  simpa using this

/-- ACK REPORTS EACH LEG (last leg). When the forward leg already has its outcome `tf` and the change packet's
    acknowledgement `tok` arrives, exactly one combined acknowledgement is written for the incoming packet: it carries
    `tok` as change_ack and `tf` as forward_ack — each leg's own result — and the record is deleted. -/
theorem ack_reports_each_leg (s s' : St) (o : OutRec) (tok tf : String) (r : IncRec)
    (hr : s.inc o.wait = some r) (hc : r.change = .idx o.index) (hf : r.forward = .ack tf)
    (h : keeperOnAck s o tok = .ok s') :
    s'.ackLog = (r.index, ⟨true, swapAckTok r.resIn r.resOut r.ackTok tok tf⟩) :: s.ackLog ∧ s'.inc r.index = none := by
  unfold keeperOnAck at h
  rw [hr] at h
  simp only at h
  rw [hc, hf] at h
  simp only [fillSlot, if_true] at h
  have := (finishWaiting_writes _ _ _ h).2 (by unfold Outstanding; simp [Slot.isIdx])
  simpa [slotTok] using this

/-- the same for the forward leg arriving last, and for a leg that ends by exhausting its retries (`E6`) -/
theorem ack_reports_each_leg_forward (s s' : St) (o : OutRec) (tok tc : String) (r : IncRec)
    (hr : s.inc o.wait = some r) (hc : r.change = .ack tc) (hf : r.forward = .idx o.index)
    (h : keeperOnAck s o tok = .ok s') :
    s'.ackLog = (r.index, ⟨true, swapAckTok r.resIn r.resOut r.ackTok tc tok⟩) :: s.ackLog ∧ s'.inc r.index = none := by
  unfold keeperOnAck at h
  rw [hr] at h
  simp only at h
  rw [hc, hf] at h
  simp only [fillSlot, if_true] at h
  have := (finishWaiting_writes _ _ _ h).2 (by unfold Outstanding; simp [Slot.isIdx])
  simpa [slotTok] using this

theorem timeout_exhausted_reports_leg (s s' : St) (p : Packet) (o : OutRec) (tc : String) (r : IncRec) (b : Bool)
    (hr : s.inc o.wait = some r) (hc : r.change = .ack tc) (hf : r.forward = .idx o.index) (hret : o.retries ≤ 1)
    (h : keeperOnTimeout s p o = .ok (s', b)) :
    b = false ∧ s'.ackLog = (r.index, ⟨true, swapAckTok r.resIn r.resOut r.ackTok tc retryExceededTok⟩) :: s.ackLog
      ∧ s'.inc r.index = none := by
  unfold keeperOnTimeout at h
  simp only at h
  have : ¬ (o.retries - 1 > 0) := by omega
  simp only [this, if_false] at h
  have hr' : ({ s with out := upd s.out o.index none } : St).inc o.wait = some r := hr
  rw [hr'] at h
  obtain ⟨s2, h2, h3⟩ := bind_ok h
  simp only [Res.ok.injEq, Prod.mk.injEq] at h3
  obtain ⟨e1, e2⟩ := h3
  subst e1
  rw [hc, hf] at h2
  simp only [fillSlot, if_true] at h2
  have := (finishWaiting_writes _ _ _ h2).2 (by unfold Outstanding; simp [Slot.isIdx])
  exact ⟨e2.symm, by simpa [slotTok] using this⟩

/-! ## failed swap: refused, nothing kept -/

/-- FAILED SWAP REFUSED. If the middleware's receive callback fails at any stage (invalid memo, wrong route, the
    transfer application refuses the funds, the swap fails, a change/forward transfer cannot be sent), the receive
    message succeeds, writes exactly one ERROR acknowledgement for the packet, and leaves every balance and both
    in-flight stores exactly as they were. -/
theorem failed_swap_refused (s : St) (ch : Chan) (seq : Nat) (x : SwapExt) (t : String) (p0 : Packet) (c : String)
    (hp : s.commits ⟨ch, seq⟩ = some p0) (hrc : s.receipts ⟨p0.dst, seq⟩ = false) (hna : s.acks ⟨p0.dst, seq⟩ = none)
    (hfail : onRecv ({ s with receipts := upd s.receipts ⟨p0.dst, seq⟩ true }.touch ⟨p0.dst, seq⟩)
               { p0 with src := ch, seq := seq } x = .err c) :
    (opRecv s ch seq x t).2 = "ok" ∧
    (opRecv s ch seq x t).1.bank = s.bank ∧ (opRecv s ch seq x t).1.inc = s.inc ∧ (opRecv s ch seq x t).1.out = s.out ∧
    (opRecv s ch seq x t).1.acks ⟨p0.dst, seq⟩ = some ⟨false, t⟩ ∧
    (opRecv s ch seq x t).1.ackLog = (⟨p0.dst, seq⟩, ⟨false, t⟩) :: s.ackLog := by
  unfold opRecv
  rw [hp]
  simp only [hrc, Bool.false_eq_true, if_false, hfail]
  unfold writeAck
  simp [hna]


/-! ## a timed-out leg is refunded or re-sent, never both -/

/-- the keeper put a new packet on the channel during this timeout -/
def Resent (s s' : St) (p : Packet) : Prop := s'.nextSeq p.src ≠ s.nextSeq p.src
/-- the transfer application's refund ran on the balances as they were before the timeout -/
def Refunded (s s' : St) (p : Packet) : Prop := appRefund s.bank p = .ok s'.bank

/-- full-strength statement (FALSE of the code, see Witness/C11.lean): a timeout of an outgoing leg re-sends XOR refunds -/
def RefundXorResend : Prop :=
  ∀ (s s' : St) (p : Packet) (o : OutRec), s.out ⟨p.src, p.seq⟩ = some o → onTimeout s p = .ok s' →
    (Resent s s' p ∧ ¬ Refunded s s' p) ∨ (¬ Resent s s' p ∧ Refunded s s' p)

theorem finishWaiting_frame (s s' : St) (r : IncRec) (h : finishWaiting s r = .ok s') :
    s'.bank = s.bank ∧ s'.nextSeq = s.nextSeq ∧ s'.commits = s.commits ∧ s'.out = s.out := by
  unfold finishWaiting shouldDelete at h
  split at h
  · simp only [Res.bind, Bool.false_eq_true, if_false, Res.ok.injEq] at h; subst h; simp
  · split at h
    · simp only [Res.bind, Bool.false_eq_true, if_false, Res.ok.injEq] at h; subst h; simp
    · obtain ⟨⟨s2, d⟩, h1, h2⟩ := bind_ok h
      obtain ⟨s1, hw, h3⟩ := bind_ok h1
      simp only [Res.ok.injEq, Prod.mk.injEq] at h3
      obtain ⟨h3, hd⟩ := h3
      subst h3 hd
      simp only [if_true, Res.ok.injEq] at h2
      subst h2
      unfold writeAck at hw
      split at hw
      · simp at hw
      · simp only [Res.ok.injEq] at hw; subst hw; simp

/-- NO REFUND AND RE-SEND, partial: EXTRA HYPOTHESIS `o.retries ≤ 1` (the leg has no retry left, so the keeper does not
    re-send). Then the timeout sends nothing and the sender is refunded exactly once. With a retry left the code
    re-sends AND refunds (known finding F-C11-retry, witness `Witness.refund_and_resend`). -/
theorem no_refund_and_resend_partial (s s' : St) (p : Packet) (o : OutRec)
    (ho : s.out ⟨p.src, p.seq⟩ = some o) (hret : o.retries ≤ 1) (h : onTimeout s p = .ok s') :
    ¬ Resent s s' p ∧ Refunded s s' p ∧ s'.commits = s.commits := by
  unfold onTimeout at h
  rw [ho] at h
  obtain ⟨⟨s1, rs⟩, h1, h2⟩ := bind_ok h
  obtain ⟨b, hb, h2⟩ := bind_ok h2
  simp only [Res.ok.injEq] at h2
  subst h2
  unfold keeperOnTimeout at h1
  simp only at h1
  have : ¬ (o.retries - 1 > 0) := by omega
  simp only [this, if_false] at h1
  have key : s1.bank = s.bank ∧ s1.nextSeq = s.nextSeq ∧ s1.commits = s.commits := by
    split at h1
    · simp only [Res.ok.injEq, Prod.mk.injEq] at h1; rw [← h1.1]; simp
    · obtain ⟨s2, h3, h4⟩ := bind_ok h1
      simp only [Res.ok.injEq, Prod.mk.injEq] at h4
      rw [← h4.1]
      have := finishWaiting_frame _ _ _ h3
      exact ⟨this.1, this.2.1, this.2.2.1⟩
  obtain ⟨k1, k2, k3⟩ := key
  refine ⟨?_, ?_, ?_⟩
  · unfold Resent; simp [k2]
  · unfold Refunded; simp only; rw [← k1]; exact hb
  · simp [k3]

/-- with a retry left the keeper DOES re-send (new commitment under the next sequence, outgoing record moved, waiting
    record re-pointed) — the half of the retry path that is right -/
theorem timeout_resends_with_retry_left (s s' : St) (p : Packet) (o : OutRec) (b : Bool)
    (hret : o.retries > 1) (h : keeperOnTimeout s p o = .ok (s', b)) :
    b = true ∧ s'.nextSeq p.src = s.nextSeq p.src + 1 ∧
    s'.commits ⟨p.src, s.nextSeq p.src⟩ = some { p with seq := s.nextSeq p.src } ∧
    (o.index ≠ ⟨p.src, s.nextSeq p.src⟩ → s'.out o.index = none) ∧
    s'.out ⟨p.src, s.nextSeq p.src⟩ = some { o with index := ⟨p.src, s.nextSeq p.src⟩, retries := o.retries - 1 } ∧
    s'.bank = s.bank := by
  unfold keeperOnTimeout at h
  simp only at h
  have : o.retries - 1 > 0 := by omega
  simp only [this, if_true] at h
  unfold sendPacket at h
  simp only at h
  split at h
  · simp only [Res.ok.injEq, Prod.mk.injEq] at h
    obtain ⟨e1, e2⟩ := h
    subst e1
    refine ⟨e2.symm, by simp, by simp, ?_, by simp, by simp⟩
    intro hne; simp [upd_other _ _ _ _ hne]
  · simp only [Res.ok.injEq, Prod.mk.injEq] at h
    obtain ⟨e1, e2⟩ := h
    subst e1
    refine ⟨e2.symm, by simp, by simp, ?_, by simp, by simp⟩
    intro hne; simp [upd_other _ _ _ _ hne]


/-! ## funds -/

/-- FUNDS, exact for ALL inputs. A successful receive of a swap packet (whatever the legs, whatever the strategy)
    changes the swap module account by exactly `received − swappedIn` of the input denom and by nothing else: the whole
    swap output leaves it (interface fee to the provider, the rest to the receiver), change and forward transfers are paid
    by the receiver. Boundary hypotheses on the reported swap: the fee is non-negative and zero without a provider;
    addresses: receiver, pool, provider and the destination channel's escrow account are not the module account. -/
theorem recv_module_balance (s s' : St) (p : Packet) (m : SwapMeta) (ai ao fee : Int) (oa : Option Ack)
    (hm : p.memo = .swap m) (hrc : p.receiver ≠ swapMod) (hp : m.pool ≠ swapMod)
    (hpr : ∀ pr, m.provider = some pr → pr ≠ swapMod) (hfee : 0 ≤ fee ∧ (m.provider = none → fee = 0))
    (he : escrow p.dst ≠ swapMod)
    (h : onRecv s p (.ok ai ao fee) = .ok (s', oa)) (dd : Denom) :
    s'.bank.bal swapMod dd = s.bank.bal swapMod dd + (if dd = m.routeIn then p.amount - ai else 0) := by
  unfold onRecv at h
  rw [hm] at h
  simp only at h
  split at h
  · simp at h
  · rename_i hroute
    have hroute' : m.routeIn = denomForThisChain p := by
      cases hq : decide (m.routeIn = denomForThisChain p) with
      | true => exact of_decide_eq_true hq
      | false => exact absurd (of_decide_eq_false hq) (by simpa using hroute)
    obtain ⟨b, hb, h⟩ := bind_ok h
    have e1 := appRecv_mod he hb dd
    have e2 := swapAndProcess_mod hrc hp hpr hfee h dd
    simp only at e2
    rw [e2, e1, ← hroute']
    by_cases q : dd = m.routeIn
    · simp only [q, if_true]; omega
    · simp only [q, if_false]; omega

/-- FUNDS CONSERVED, partial: EXTRA HYPOTHESIS `ai = p.amount` — the swap consumed everything that was received
    (always the case for exact-amount-in). Then the swap module's own account is left as it was, in every denom.
    Without it the remainder stays in the module account (known findings F-C11-remainder-kept / F-C11-change-from-receiver,
    witnesses in Witness/C11.lean). -/
theorem funds_conserved_partial (s s' : St) (p : Packet) (m : SwapMeta) (ai ao fee : Int) (oa : Option Ack)
    (hm : p.memo = .swap m) (hrc : p.receiver ≠ swapMod) (hp : m.pool ≠ swapMod)
    (hpr : ∀ pr, m.provider = some pr → pr ≠ swapMod) (hfee : 0 ≤ fee ∧ (m.provider = none → fee = 0))
    (he : escrow p.dst ≠ swapMod) (hall : ai = p.amount)
    (h : onRecv s p (.ok ai ao fee) = .ok (s', oa)) (dd : Denom) :
    s'.bank.bal swapMod dd = s.bank.bal swapMod dd := by
  have := recv_module_balance s s' p m ai ao fee oa hm hrc hp hpr hfee he h dd
  rw [this, hall]; simp

/-- the legs' events never touch the module account: acknowledgements and timeouts of packets sent by somebody else
    refund that sender -/
theorem leg_events_leave_module (b b' : Bank) (p : Packet) (hs : p.sender ≠ swapMod) (he : escrow p.src ≠ swapMod)
    (h : appRefund b p = .ok b') (dd : Denom) : b'.bal swapMod dd = b.bal swapMod dd := by
  have hs' : swapMod ≠ p.sender := fun e => hs e.symm
  have ht : swapMod ≠ transferMod := fun e => transferMod_ne e.symm
  have he' : swapMod ≠ escrow p.src := fun e => he e.symm
  unfold appRefund at h
  split at h
  · simp at h
  split at h
  · simp at h
  split at h
  · obtain ⟨b1, h1, h2⟩ := bind_ok h
    rw [send_bal h2, mint_bal h1 _ _ ht]; simp [hs', ht]
  · rw [send_bal h]; simp [hs', he']


/-! ## non-vacuity: a complete concrete history (exact-in, forward leg acknowledged, ack relayed home) -/

def exBank : Bank := ((Bank.empty.credit "a0" "channel-1/uaaa" 1000).credit "escrow:channel-0" "uaaa" 5000).credit "pool0" "ubbb" 5000
def exMemo : Memo := .swap { routeIn := "uaaa", routeOut := "ubbb", pool := "pool0", strat := .exactIn, provider := none,
                             forward := some { ch := "channel-0", receiver := "a3", retries := 2 } }
def exOps : List Op :=
  [ .transfer "a0" "channel-1" "channel-1/uaaa" 1000 "a1" exMemo,   -- user sends the voucher home with a swap memo
    .recv "channel-1" 1 (.ok 1000 990 0) "-",                       -- swap, forward leg channel-0/1 is sent, NO ack yet
    .recv "channel-0" 1 .err "-",                                    -- far side receives the forward leg
    .ack "channel-0" 1,                                              -- its acknowledgement completes the incoming packet
    .ack "channel-1" 1 ]                                             -- combined acknowledgement relayed to the sender's side
def exStart : St := { bank := exBank }

example : Fresh exStart := ⟨rfl, rfl, rfl, rfl⟩
/-- after the receive: a waiting record with an outstanding leg and no acknowledgement (hypotheses of `ack_only_after_all_legs`) -/
example : ((run exStart (exOps.take 2)).inc ⟨"channel-0", 1⟩).isSome = true
    ∧ ((run exStart (exOps.take 2)).acks ⟨"channel-0", 1⟩).isNone = true := by decide
/-- at the end: exactly one acknowledgement for the incoming packet, reporting the forward leg's own `S`; records gone;
    the module account holds nothing; the receiver's output went onward -/
example : (run exStart exOps).acks ⟨"channel-0", 1⟩ = some ⟨true, "R[1000,990,S,-,S]"⟩
    ∧ ((run exStart exOps).ackLog.filter (fun e => e.1 = ⟨"channel-0", 1⟩)).length = 1
    ∧ ((run exStart exOps).inc ⟨"channel-0", 1⟩).isNone = true ∧ ((run exStart exOps).out ⟨"channel-0", 1⟩).isNone = true
    ∧ (run exStart exOps).bank.bal swapMod "uaaa" = 0 ∧ (run exStart exOps).bank.bal swapMod "ubbb" = 0
    ∧ (run exStart exOps).bank.bal "escrow:channel-0" "ubbb" = 990 := by decide
/-- a failing swap is refused: error acknowledgement, balances untouched (hypotheses of `failed_swap_refused`) -/
example : (run exStart [exOps.head!, .recv "channel-1" 1 .err "E5"]).acks ⟨"channel-0", 1⟩ = some ⟨false, "E5"⟩
    ∧ (run exStart [exOps.head!, .recv "channel-1" 1 .err "E5"]).bank.bal "escrow:channel-0" "uaaa" = 5000 := by decide

end Sunrise.C11
